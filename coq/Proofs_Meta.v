(* Proofs_Meta.v — proofs about the metadata / namespace model Meta.v (property C07).
   Part 1: list helpers.  Part 2: the hash-bucket name table (for EVERY hash function whose range is
   below the table size).  Part 3: attribute arrays and one open file: invariant, no undefined
   behaviour, refinement of the linear model.  Part 4: worlds and histories.  Part 5: name/id agreement,
   data-mode header updates, persistence (composition with Proofs_Header). *)
From Pnc Require Import Base Header HeaderSpec Data Meta Proofs_Base Proofs_Lists Proofs_Header.
Require Import Lia ZArith ZifyBool List Bool Arith.
Import ListNotations.
Local Open Scope Z_scope.

Local Arguments Z.mul : simpl never.
Local Arguments Z.add : simpl never.
Local Arguments Z.sub : simpl never.
Local Arguments Z.div : simpl never.
Local Arguments Z.modulo : simpl never.
Local Arguments Z.pow : simpl never.
Local Arguments Z.of_nat : simpl never.
Local Arguments Z.to_nat : simpl never.

(* ================================================================== *)
(** * Part 1: list helpers *)

Lemma bytes_eqb_eq : forall a b, bytes_eqb a b = true <-> a = b.
Proof.
  unfold bytes_eqb. induction a as [|x a IH]; destruct b as [|y b]; simpl; split; intro H;
    try reflexivity; try discriminate.
  - apply andb_true_iff in H. destruct H as [H1 H2]. apply Z.eqb_eq in H1. apply IH in H2. congruence.
  - inversion H; subst. rewrite Z.eqb_refl. simpl. apply IH. reflexivity.
Qed.

Lemma bytes_eqb_refl : forall a, bytes_eqb a a = true.
Proof. intro a. apply bytes_eqb_eq. reflexivity. Qed.

Lemma bytes_eqb_neq : forall a b, bytes_eqb a b = false <-> a <> b.
Proof.
  intros a b. split; intro H.
  - intro E. apply bytes_eqb_eq in E. congruence.
  - destruct (bytes_eqb a b) eqn:E; [apply bytes_eqb_eq in E; contradiction | reflexivity].
Qed.

Lemma Zlen_snoc : forall A (l : list A) x, Zlen (l ++ [x]) = Zlen l + 1.
Proof. intros. rewrite Zlen_app. reflexivity. Qed.

Lemma set_nth_length : forall A n (l : list A) x, length (set_nth n l x) = length l.
Proof. induction n; destruct l; simpl; intros; auto. Qed.

Lemma nth_error_set_nth_eq : forall A n (l : list A) x, (n < length l)%nat ->
  nth_error (set_nth n l x) n = Some x.
Proof. induction n; destruct l; simpl; intros; try lia; auto. apply IHn. lia. Qed.

Lemma nth_error_set_nth_neq : forall A n m (l : list A) x, n <> m ->
  nth_error (set_nth n l x) m = nth_error l m.
Proof.
  induction n; destruct l; destruct m; simpl; intros; try congruence; auto.
Qed.

Lemma set_nth_same : forall A n (l : list A) x, nth_error l n = Some x -> set_nth n l x = l.
Proof.
  induction n; destruct l; simpl; intros; try discriminate; auto.
  - congruence.
  - f_equal. auto.
Qed.

Lemma map_set_nth : forall A B (f : A -> B) n l x, map f (set_nth n l x) = set_nth n (map f l) (f x).
Proof. induction n; destruct l; simpl; intros; auto. f_equal. auto. Qed.

Lemma del_nth_length : forall A n (l : list A), (n < length l)%nat ->
  length (del_nth n l) = pred (length l).
Proof.
  induction n; destruct l; simpl; intros; try lia.
  rewrite IHn by lia. destruct l; simpl in *; lia.
Qed.

Lemma nth_error_del_nth_lt : forall A n m (l : list A), (m < n)%nat ->
  nth_error (del_nth n l) m = nth_error l m.
Proof.
  induction n; destruct l; destruct m; simpl; intros; try lia; auto. apply IHn. lia.
Qed.

Lemma nth_error_del_nth_ge : forall A n m (l : list A), (n <= m)%nat ->
  nth_error (del_nth n l) m = nth_error l (S m).
Proof.
  induction n; intros m l H.
  - destruct l; simpl; [destruct m; reflexivity | reflexivity].
  - destruct l; simpl; [destruct m; reflexivity|].
    destruct m; [lia|]. simpl. apply IHn. lia.
Qed.

Lemma map_del_nth : forall A B (f : A -> B) n l, map f (del_nth n l) = del_nth n (map f l).
Proof. induction n; destruct l; simpl; intros; auto. f_equal. auto. Qed.

Lemma nth_error_nth_d : forall A (l : list A) n x d, nth_error l n = Some x -> nth n l d = x.
Proof. intros. apply nth_error_nth. assumption. Qed.

Lemma nth_error_some_lt : forall A (l : list A) n x, nth_error l n = Some x -> (n < length l)%nat.
Proof. intros. apply nth_error_Some. congruence. Qed.

Lemma nth_error_lt_some : forall A (l : list A) n, (n < length l)%nat -> exists x, nth_error l n = Some x.
Proof. intros. destruct (nth_error l n) eqn:E; eauto. apply nth_error_None in E. lia. Qed.

(* linear search *)
Lemma find_name_some : forall nm l i, find_name nm l = Some i ->
  nth_error l i = Some nm /\ forall j, (j < i)%nat -> nth_error l j <> Some nm.
Proof.
  induction l as [|x l IH]; simpl; intros i H; [discriminate|].
  destruct (bytes_eqb x nm) eqn:E.
  - inversion H; subst. apply bytes_eqb_eq in E. subst. split; [reflexivity|]. intros; lia.
  - destruct (find_name nm l) as [k|] eqn:F; simpl in H; [|discriminate]. inversion H; subst.
    destruct (IH k eq_refl) as [H1 H2]. split; [exact H1|].
    intros j Hj. destruct j; simpl.
    + apply bytes_eqb_neq in E. congruence.
    + apply H2. lia.
Qed.

Lemma find_name_none : forall nm l, find_name nm l = None <-> ~ In nm l.
Proof.
  induction l as [|x l IH]; simpl.
  - split; auto.
  - destruct (bytes_eqb x nm) eqn:E.
    + apply bytes_eqb_eq in E. subst. split; [discriminate | intro H; exfalso; apply H; auto].
    + apply bytes_eqb_neq in E. destruct (find_name nm l); simpl.
      * split; [discriminate|]. intro H. exfalso. destruct IH as [_ IH]. 
        assert (~ In nm l) by tauto. specialize (IH H0). discriminate.
      * split; auto. intros _ [H|H]; [congruence|]. apply IH in H; auto.
Qed.

Lemma find_name_unique : forall nm l i, NoDup l -> nth_error l i = Some nm -> find_name nm l = Some i.
Proof.
  intros nm l i Hnd Hi.
  destruct (find_name nm l) as [j|] eqn:F.
  - apply find_name_some in F. destruct F as [Hj _].
    f_equal. eapply NoDup_nth_error; eauto.
    + eapply nth_error_some_lt; eauto.
    + congruence.
  - apply find_name_none in F. exfalso. apply F. eapply nth_error_In; eauto.
Qed.

(* remove_id *)
Lemma remove_id_in : forall id ids, NoDup ids -> In id ids ->
  exists ids', remove_id id ids = Some ids' /\ NoDup ids' /\
               forall j, In j ids' <-> (In j ids /\ j <> id).
Proof.
  induction ids as [|x ids IH]; simpl; intros Hnd Hin; [contradiction|].
  inversion Hnd; subst.
  destruct (Nat.eqb x id) eqn:E.
  - apply Nat.eqb_eq in E. subst. exists ids. split; [reflexivity|]. split; [assumption|].
    intro j. split.
    + intro Hj. split; [auto|]. intro; subst. contradiction.
    + intros [[Hj|Hj] Hne]; [congruence | assumption].
  - apply Nat.eqb_neq in E. destruct Hin as [Hin|Hin]; [contradiction|].
    destruct (IH H2 Hin) as (ids' & Hr & Hnd' & Hiff). rewrite Hr. simpl.
    exists (x :: ids'). split; [reflexivity|]. split.
    + constructor; [|assumption]. intro Hx. apply Hiff in Hx. tauto.
    + intro j. simpl. rewrite Hiff. split.
      * intros [Hj|[Hj Hne]]; [subst; split; auto | split; auto].
      * intros [[Hj|Hj] Hne]; auto.
Qed.

Lemma remove_id_notin : forall id ids, ~ In id ids -> remove_id id ids = None.
Proof.
  induction ids as [|x ids IH]; simpl; intro H; [reflexivity|].
  destruct (Nat.eqb x id) eqn:E.
  - apply Nat.eqb_eq in E. subst. exfalso. apply H. auto.
  - rewrite IH; [reflexivity|]. intro; apply H; auto.
Qed.

(* ================================================================== *)
(** * Part 2: the hash-bucket name table, for every hash function with range below the size *)
(* a table size: a positive C int *)
Definition hs_ok (hs : Z) : Prop := 0 < hs <= NC_MAX_INT.

Section Tables.
Variable hashf : list byte -> Z -> Z.
Hypothesis hash_range : forall nm hs, hs_ok hs -> 0 <= hashf nm hs < hs.

Definition key (nm : list byte) (hs : Z) : nat := Z.to_nat (hashf nm hs).

(* bucket k holds, without repetition, exactly the ids of the names that hash to k *)
Definition bs_inv (names : list (list byte)) (hs : Z) (bs : list (list nat)) : Prop :=
  length bs = Z.to_nat hs /\
  forall k ids, nth_error bs k = Some ids ->
    NoDup ids /\ forall i, In i ids <-> exists nm, nth_error names i = Some nm /\ key nm hs = k.

(* nameT may be NULL only while nothing is defined *)
Definition tab_inv (names : list (list byte)) (t : ntab) : Prop :=
  hs_ok (nt_hsize t) /\
  match nt_tab t with
  | None => names = []
  | Some bs => bs_inv names (nt_hsize t) bs
  end.

Lemma key_lt : forall nm hs, hs_ok hs -> (key nm hs < Z.to_nat hs)%nat.
Proof. intros nm hs H. unfold key. pose proof (hash_range nm hs H). unfold hs_ok in H. lia. Qed.

Lemma bucket_ok : forall bs nm hs, hs_ok hs -> length bs = Z.to_nat hs ->
  exists ids, nth_error bs (key nm hs) = Some ids /\ bucket hashf bs nm hs = Some (key nm hs, ids).
Proof.
  intros bs nm hs Hhs Hlen. unfold bucket.
  pose proof (hash_range nm hs Hhs) as Hr.
  destruct (hashf nm hs <? 0) eqn:E; [lia|].
  destruct (nth_error_lt_some _ bs (key nm hs)) as [ids Hids].
  { rewrite Hlen. apply key_lt. assumption. }
  exists ids. unfold key in *. rewrite Hids. auto.
Qed.

Lemma scan_ids_spec : forall names nm ids,
  (forall i, In i ids -> exists x, nth_error names i = Some x) ->
  exists r, scan_ids names nm ids = Some r /\
    match r with
    | Some i => In i ids /\ nth_error names i = Some nm
    | None => forall i, In i ids -> nth_error names i <> Some nm
    end.
Proof.
  induction ids as [|i ids IH]; simpl; intro Hv.
  - exists None. split; [reflexivity|]. intros i [].
  - destruct (Hv i (or_introl eq_refl)) as [x Hx]. rewrite Hx.
    destruct (bytes_eqb x nm) eqn:E.
    + apply bytes_eqb_eq in E. subst. exists (Some i). auto.
    + apply bytes_eqb_neq in E.
      destruct IH as (r & Hr & Hspec). { intros j Hj. apply Hv. auto. }
      exists r. split; [assumption|]. destruct r as [j|].
      * destruct Hspec. auto.
      * intros j [Hj|Hj]; [subst; congruence | auto].
Qed.

(* lookup through the buckets: never out of bounds; an answer is a position of the name, "not found"
   means the name is absent *)
Lemma hfind_spec : forall names t nm, tab_inv names t ->
  exists r, hfind hashf names t nm = Some r /\
    match r with
    | Some i => nth_error names i = Some nm
    | None => ~ In nm names
    end.
Proof.
  intros names t nm [Hhs Hinv]. unfold hfind.
  destruct names as [|n0 names']. { exists None. auto. }
  destruct (nt_tab t) as [bs|]; [|discriminate].
  destruct Hinv as [Hlen Hb].
  destruct (bucket_ok bs nm _ Hhs Hlen) as (ids & Hids & Hbk). rewrite Hbk.
  destruct (Hb _ _ Hids) as [_ Hiff].
  destruct (scan_ids_spec (n0 :: names') nm ids) as (r & Hr & Hspec).
  { intros i Hi. apply Hiff in Hi. destruct Hi as (x & Hx & _). eauto. }
  exists r. split; [assumption|]. destruct r as [i|].
  - tauto.
  - intro Hin. apply In_nth_error in Hin. destruct Hin as [i Hi].
    apply (Hspec i); [|assumption]. apply Hiff. eauto.
Qed.

(* lookup_hash_eq_linear: with distinct names, the bucket lookup IS the linear search (first match in
   definition order) *)
Theorem hfind_linear : forall names t nm, tab_inv names t -> NoDup names ->
  hfind hashf names t nm = Some (find_name nm names).
Proof.
  intros names t nm Hinv Hnd.
  destruct (hfind_spec names t nm Hinv) as (r & Hr & Hspec). rewrite Hr. f_equal.
  destruct r as [i|].
  - symmetry. apply find_name_unique; assumption.
  - symmetry. apply find_name_none. assumption.
Qed.

(* ---------- calloc ---------- *)
Lemma nth_error_repeat : forall A (x : A) n k y, nth_error (repeat x n) k = Some y -> y = x.
Proof.
  induction n; destruct k; simpl; intros; try discriminate.
  - congruence.
  - eauto.
Qed.

Lemma tab_calloc_inv : forall names t, tab_inv names t ->
  tab_inv names (tab_calloc t) /\ nt_hsize (tab_calloc t) = nt_hsize t /\
  exists bs, nt_tab (tab_calloc t) = Some bs.
Proof.
  intros names t [Hhs Hinv]. unfold tab_calloc.
  destruct (nt_tab t) as [bs|] eqn:E.
  - split; [|split; [reflexivity | eauto]]. split; [assumption|]. rewrite E. assumption.
  - subst. simpl. split; [|split; [reflexivity | eauto]].
    split; [assumption|]. simpl. split.
    + apply repeat_length.
    + intros k ids Hk. apply nth_error_repeat in Hk. subst. split; [constructor|].
      intro i. split; [intros [] |]. intros (nm & Hnm & _). destruct i; discriminate.
Qed.

(* ---------- hash_insert ---------- *)
Lemma nth_error_app_last : forall A (l : list A) x i y,
  nth_error (l ++ [x]) i = Some y <-> (nth_error l i = Some y \/ (i = length l /\ y = x)).
Proof.
  intros A l x i y. destruct (Nat.lt_ge_cases i (length l)) as [H|H].
  - rewrite nth_error_app1 by assumption. split; [auto|]. intros [H1|[H1 _]]; [assumption|lia].
  - rewrite nth_error_app2 by assumption.
    assert (Hn : nth_error l i = None) by (apply nth_error_None; assumption).
    rewrite Hn. destruct (i - length l)%nat eqn:E; simpl.
    + split.
      * intro H1. inversion H1; subst. right. split; [lia|reflexivity].
      * intros [H1|[_ H1]]; [discriminate | subst; reflexivity].
    + split.
      * destruct n; discriminate.
      * intros [H1|[H1 _]]; [discriminate | lia].
Qed.

Theorem hash_insert_inv : forall names t nm,
  tab_inv names t -> (exists bs, nt_tab t = Some bs) ->
  exists t', hash_insert hashf t nm (length names) = Some t' /\ tab_inv (names ++ [nm]) t' /\
             nt_hsize t' = nt_hsize t.
Proof.
  intros names t nm [Hhs Hinv] [bs Hbs]. unfold hash_insert. rewrite Hbs in *.
  destruct Hinv as [Hlen Hb].
  destruct (bucket_ok bs nm _ Hhs Hlen) as (ids & Hids & Hbk). rewrite Hbk.
  eexists. split; [reflexivity|]. split; [|reflexivity].
  split; [assumption|]. simpl. split.
  - rewrite set_nth_length. assumption.
  - intros k ids' Hk.
    destruct (Nat.eq_dec (key nm (nt_hsize t)) k) as [Ek|Ek].
    + subst k. rewrite nth_error_set_nth_eq in Hk by (eapply nth_error_some_lt; eauto).
      inversion Hk; subst ids'. destruct (Hb _ _ Hids) as [Hnd Hiff]. split.
      * apply NoDup_app_intro; [assumption | constructor; [intros []|constructor] |].
        intros x Hx [Hx2|[]]. subst x. apply Hiff in Hx. destruct Hx as (y & Hy & _).
        apply nth_error_some_lt in Hy. lia.
      * intro i. rewrite in_app_iff. simpl. rewrite Hiff. split.
        -- intros [(y & Hy & Hky)|[Hi|[]]].
           ++ exists y. split; [|assumption]. apply nth_error_app_last. auto.
           ++ subst i. exists nm. split; [|reflexivity]. apply nth_error_app_last. auto.
        -- intros (y & Hy & Hky). apply nth_error_app_last in Hy.
           destruct Hy as [Hy|[Hi Hy]]; [left; eauto | right; left; auto].
    + rewrite nth_error_set_nth_neq in Hk by assumption.
      destruct (Hb _ _ Hk) as [Hnd Hiff]. split; [assumption|].
      intro i. rewrite Hiff. split.
      * intros (y & Hy & Hky). exists y. split; [|assumption]. apply nth_error_app_last. auto.
      * intros (y & Hy & Hky). apply nth_error_app_last in Hy.
        destruct Hy as [Hy|[Hi Hy]]; [eauto | subst; contradiction].
Qed.

(* ---------- removing an id from its bucket, then appending it to the bucket of a new name ---------- *)
(* core of ncmpio_update_name_lookup_table and ncmpio_hash_replace *)
Lemma rename_buckets_inv : forall names hs bs i old new ids ids',
  hs_ok hs -> bs_inv names hs bs -> nth_error names i = Some old ->
  nth_error bs (key old hs) = Some ids -> remove_id i ids = Some ids' ->
  exists ids2, nth_error (set_nth (key old hs) bs ids') (key new hs) = Some ids2 /\
    bs_inv (set_nth i names new) hs
           (set_nth (key new hs) (set_nth (key old hs) bs ids') (ids2 ++ [i])).
Proof.
  intros names hs bs i old new ids ids' Hhs [Hlen Hb] Hi Hids Hrm.
  destruct (Hb _ _ Hids) as [Hnd Hiff].
  assert (Hin : In i ids) by (apply Hiff; eauto).
  destruct (remove_id_in i ids Hnd Hin) as (ids'' & Hrm' & Hnd' & Hiff').
  rewrite Hrm in Hrm'. inversion Hrm'; subst ids''. clear Hrm'.
  assert (Hko : (key old hs < length bs)%nat) by (rewrite Hlen; apply key_lt; assumption).
  assert (Hkn : (key new hs < length bs)%nat) by (rewrite Hlen; apply key_lt; assumption).
  assert (Hil : (i < length names)%nat) by (eapply nth_error_some_lt; eauto).
  set (bs1 := set_nth (key old hs) bs ids').
  destruct (nth_error_lt_some _ bs1 (key new hs)) as [ids2 Hids2].
  { unfold bs1. rewrite set_nth_length. assumption. }
  exists ids2. split; [assumption|].
  (* characterisation of bs1 *)
  assert (Hb1 : forall k l, nth_error bs1 k = Some l ->
            NoDup l /\ forall j, In j l <-> (j <> i /\ exists nm, nth_error names j = Some nm /\ key nm hs = k)).
  { intros k l Hk. unfold bs1 in Hk.
    destruct (Nat.eq_dec (key old hs) k) as [E|E].
    - subst k. rewrite nth_error_set_nth_eq in Hk by assumption. inversion Hk; subst l.
      split; [assumption|]. intro j. rewrite Hiff', Hiff. tauto.
    - rewrite nth_error_set_nth_neq in Hk by assumption.
      destruct (Hb _ _ Hk) as [Hnd2 Hiff2]. split; [assumption|].
      intro j. rewrite Hiff2. split.
      + intros (nm & Hnm & Hk2). split; [|eauto]. intro; subst j. rewrite Hi in Hnm. inversion Hnm; subst. contradiction.
      + tauto. }
  split.
  - unfold bs1. rewrite !set_nth_length. assumption.
  - intros k l Hk.
    assert (Hnames : forall j y, nth_error (set_nth i names new) j = Some y <->
                     ((j = i /\ y = new) \/ (j <> i /\ nth_error names j = Some y))).
    { intros j y. destruct (Nat.eq_dec i j) as [E|E].
      - subst j. rewrite nth_error_set_nth_eq by assumption. split.
        + intro H. inversion H. auto.
        + intros [[_ H]|[H _]]; [subst; reflexivity | contradiction].
      - rewrite nth_error_set_nth_neq by assumption. split; [auto|].
        intros [[H _]|[_ H]]; [congruence | assumption]. }
    destruct (Nat.eq_dec (key new hs) k) as [E|E].
    + subst k. rewrite nth_error_set_nth_eq in Hk by (unfold bs1; rewrite set_nth_length; assumption).
      inversion Hk; subst l. destruct (Hb1 _ _ Hids2) as [Hnd2 Hiff2]. split.
      * apply NoDup_app_intro; [assumption | constructor; [intros []|constructor] |].
        intros x Hx [Hx2|[]]. subst x. apply Hiff2 in Hx. tauto.
      * intro j. rewrite in_app_iff. simpl. rewrite Hiff2. split.
        -- intros [(Hne & nm & Hnm & Hk2)|[Hj|[]]].
           ++ exists nm. split; [apply Hnames; auto | assumption].
           ++ subst j. exists new. split; [apply Hnames; auto | reflexivity].
        -- intros (y & Hy & Hk2). apply Hnames in Hy. destruct Hy as [[Hj Hy]|[Hj Hy]].
           ++ right. left. auto.
           ++ left. split; eauto.
    + rewrite nth_error_set_nth_neq in Hk by assumption.
      destruct (Hb1 _ _ Hk) as [Hnd2 Hiff2]. split; [assumption|].
      intro j. rewrite Hiff2. split.
      * intros (Hne & nm & Hnm & Hk2). exists nm. split; [apply Hnames; auto | assumption].
      * intros (y & Hy & Hk2). apply Hnames in Hy. destruct Hy as [[Hj Hy]|[Hj Hy]].
        -- subst. contradiction.
        -- split; eauto.
Qed.

Theorem hash_update_inv : forall names t i old new,
  tab_inv names t -> nth_error names i = Some old ->
  exists t', hash_update hashf t i old new = Some t' /\ tab_inv (set_nth i names new) t' /\
             nt_hsize t' = nt_hsize t.
Proof.
  intros names t i old new [Hhs Hinv] Hi. unfold hash_update.
  destruct (nt_tab t) as [bs|] eqn:Hbs; [|subst; destruct i; discriminate].
  pose proof Hinv as [Hlen Hb].
  destruct (bucket_ok bs old _ Hhs Hlen) as (ids & Hids & Hbk). rewrite Hbk.
  destruct (Hb _ _ Hids) as [Hnd Hiff].
  assert (Hin : In i ids) by (apply Hiff; eauto).
  destruct (remove_id_in i ids Hnd Hin) as (ids' & Hrm & _ & _). rewrite Hrm.
  destruct (rename_buckets_inv names _ bs i old new ids ids' Hhs Hinv Hi Hids Hrm) as (ids2 & Hids2 & Hinv2).
  destruct (bucket_ok (set_nth (key old (nt_hsize t)) bs ids') new _ Hhs) as (ids3 & Hids3 & Hbk3).
  { rewrite set_nth_length. assumption. }
  rewrite Hbk3. rewrite Hids2 in Hids3. inversion Hids3; subst ids3.
  eexists. split; [reflexivity|]. split; [|reflexivity]. split; assumption.
Qed.

Theorem hash_replace_inv : forall names t i old new,
  tab_inv names t -> nth_error names i = Some old ->
  exists t', hash_replace hashf t i old new = Some t' /\ tab_inv (set_nth i names new) t' /\
             nt_hsize t' = nt_hsize t.
Proof.
  intros names t i old new [Hhs Hinv] Hi. unfold hash_replace.
  destruct (nt_tab t) as [bs|] eqn:Hbs; [|subst; destruct i; discriminate].
  pose proof Hinv as [Hlen Hb].
  destruct (bucket_ok bs old _ Hhs Hlen) as (ids & Hids & Hbk). rewrite Hbk.
  destruct (Hb _ _ Hids) as [Hnd Hiff].
  assert (Hin : In i ids) by (apply Hiff; eauto).
  destruct (remove_id_in i ids Hnd Hin) as (ids' & Hrm & _ & _). rewrite Hrm.
  destruct (rename_buckets_inv names _ bs i old new ids ids' Hhs Hinv Hi Hids Hrm) as (ids2 & Hids2 & Hinv2).
  destruct (bucket_ok (set_nth (key old (nt_hsize t)) bs ids') new _ Hhs) as (ids3 & Hids3 & Hbk3).
  { rewrite set_nth_length. assumption. }
  rewrite Hbk3. rewrite Hids2 in Hids3. inversion Hids3; subst ids3.
  eexists. split; [reflexivity|]. split; [|reflexivity]. split; assumption.
Qed.

(* ---------- hash_delete with renumbering ---------- *)
Definition dec_above (id j : nat) : nat := if Nat.ltb id j then pred j else j.

Lemma in_map_dec : forall id ids j, ~ In id ids ->
  (In j (map (dec_above id) ids) <-> In (if Nat.ltb j id then j else S j) ids).
Proof.
  intros id ids j Hni. rewrite in_map_iff. unfold dec_above. split.
  - intros (x & Hx & Hin).
    assert (x <> id) by (intro; subst; contradiction).
    destruct (Nat.ltb id x) eqn:E1.
    + apply Nat.ltb_lt in E1. subst j. destruct (Nat.ltb (pred x) id) eqn:E2.
      * apply Nat.ltb_lt in E2. lia.
      * replace (S (pred x)) with x by lia. assumption.
    + apply Nat.ltb_ge in E1. subst j. destruct (Nat.ltb x id) eqn:E2; [assumption|].
      apply Nat.ltb_ge in E2. lia.
  - intro Hin. destruct (Nat.ltb j id) eqn:E.
    + apply Nat.ltb_lt in E. exists j. split; [|assumption].
      destruct (Nat.ltb id j) eqn:E2; [apply Nat.ltb_lt in E2; lia | reflexivity].
    + apply Nat.ltb_ge in E. exists (S j). split; [|assumption].
      destruct (Nat.ltb id (S j)) eqn:E2; [reflexivity | apply Nat.ltb_ge in E2; lia].
Qed.

Lemma NoDup_map_dec : forall id ids, NoDup ids -> ~ In id ids -> NoDup (map (dec_above id) ids).
Proof.
  intros id ids Hnd Hni. apply NoDup_map_inj_In; [|assumption].
  intros x y Hx Hy. unfold dec_above.
  assert (x <> id) by (intro; subst; contradiction).
  assert (y <> id) by (intro; subst; contradiction).
  destruct (Nat.ltb id x) eqn:E1; destruct (Nat.ltb id y) eqn:E2;
    try apply Nat.ltb_lt in E1; try apply Nat.ltb_lt in E2;
    try apply Nat.ltb_ge in E1; try apply Nat.ltb_ge in E2; lia.
Qed.

Theorem hash_delete_inv : forall names t i nm,
  tab_inv names t -> nth_error names i = Some nm ->
  exists t', hash_delete hashf t nm i = Some (Some t') /\ tab_inv (del_nth i names) t' /\
             nt_hsize t' = nt_hsize t.
Proof.
  intros names t i nm [Hhs Hinv] Hi. unfold hash_delete.
  destruct (nt_tab t) as [bs|] eqn:Hbs; [|subst; destruct i; discriminate].
  pose proof Hinv as [Hlen Hb].
  destruct (bucket_ok bs nm _ Hhs Hlen) as (ids & Hids & Hbk). rewrite Hbk.
  destruct (Hb _ _ Hids) as [Hnd Hiff].
  assert (Hin : In i ids) by (apply Hiff; eauto).
  destruct (remove_id_in i ids Hnd Hin) as (ids' & Hrm & Hnd' & Hiff'). rewrite Hrm.
  eexists. split; [reflexivity|]. split; [|reflexivity].
  split; [assumption|]. simpl.
  assert (Hko : (key nm (nt_hsize t) < length bs)%nat) by (rewrite Hlen; apply key_lt; assumption).
  assert (Hil : (i < length names)%nat) by (eapply nth_error_some_lt; eauto).
  split.
  - unfold renumber. rewrite map_length, set_nth_length. assumption.
  - intros k l Hk. unfold renumber in Hk. rewrite nth_error_map in Hk.
    destruct (nth_error (set_nth (key nm (nt_hsize t)) bs ids') k) as [l0|] eqn:Hl0; [|discriminate].
    simpl in Hk. inversion Hk; subst l. clear Hk.
    (* l0 holds exactly the ids <> i whose name hashes to k *)
    assert (Hl0' : NoDup l0 /\ forall j, In j l0 <->
              (j <> i /\ exists y, nth_error names j = Some y /\ key y (nt_hsize t) = k)).
    { destruct (Nat.eq_dec (key nm (nt_hsize t)) k) as [E|E].
      - subst k. rewrite nth_error_set_nth_eq in Hl0 by assumption. inversion Hl0; subst l0.
        split; [assumption|]. intro j. rewrite Hiff', Hiff. tauto.
      - rewrite nth_error_set_nth_neq in Hl0 by assumption.
        destruct (Hb _ _ Hl0) as [Hnd2 Hiff2]. split; [assumption|].
        intro j. rewrite Hiff2. split; [|tauto].
        intros (y & Hy & Hk2). split; [|eauto]. intro; subst j. rewrite Hi in Hy. inversion Hy; subst. contradiction. }
    destruct Hl0' as [Hnd0 Hiff0].
    assert (Hni : ~ In i l0) by (intro Hx; apply Hiff0 in Hx; tauto).
    change (fun j : nat => if (i <? j)%nat then Nat.pred j else j) with (dec_above i).
    split; [apply NoDup_map_dec; assumption|].
    intro j. rewrite in_map_dec by assumption. rewrite Hiff0.
    destruct (Nat.ltb j i) eqn:E.
    + apply Nat.ltb_lt in E. rewrite nth_error_del_nth_lt by assumption. split.
      * intros (_ & y & Hy & Hk2). eauto.
      * intros (y & Hy & Hk2). split; [lia | eauto].
    + apply Nat.ltb_ge in E. rewrite nth_error_del_nth_ge by assumption. split.
      * intros (_ & y & Hy & Hk2). eauto.
      * intros (y & Hy & Hk2). split; [lia | eauto].
Qed.

(* ---------- populate (open) ---------- *)
Lemma populate_from_inv : forall names2 names1 t,
  tab_inv names1 t -> (exists bs, nt_tab t = Some bs) ->
  exists t', populate_from hashf t names2 (length names1) = Some t' /\ tab_inv (names1 ++ names2) t' /\
             nt_hsize t' = nt_hsize t.
Proof.
  induction names2 as [|nm names2 IH]; intros names1 t Hinv Hal; simpl.
  - exists t. rewrite app_nil_r. auto.
  - destruct (hash_insert_inv names1 t nm Hinv Hal) as (t1 & Hins & Hinv1 & Hhs1). rewrite Hins.
    assert (Hal1 : exists bs, nt_tab t1 = Some bs).
    { unfold hash_insert in Hins. destruct Hal as [bs Hbs]. rewrite Hbs in Hins.
      destruct (bucket hashf bs nm (nt_hsize t)) as [[k ids]|]; [|discriminate].
      inversion Hins. simpl. eauto. }
    destruct (IH (names1 ++ [nm]) t1 Hinv1 Hal1) as (t' & Hp & Hinv' & Hhs').
    rewrite app_length in Hp. simpl in Hp. replace (length names1 + 1)%nat with (S (length names1)) in Hp by lia.
    exists t'. rewrite <- app_assoc in Hinv'. simpl in Hinv'. split; [assumption|]. split; [assumption|]. congruence.
Qed.

Theorem hash_populate_inv : forall hs names, hs_ok hs ->
  exists t, hash_populate hashf hs names = Some t /\ tab_inv names t /\ nt_hsize t = hs.
Proof.
  intros hs names Hhs. unfold hash_populate. destruct names as [|n0 names'].
  - eexists. split; [reflexivity|]. split; [|reflexivity]. split; simpl; auto.
  - assert (H0 : tab_inv [] (mkntab hs None)) by (split; simpl; auto).
    destruct (tab_calloc_inv [] _ H0) as (Hinv & Hhs' & Hal).
    destruct (populate_from_inv (n0 :: names') [] _ Hinv Hal) as (t' & Hp & Hinv' & Hhs'').
    simpl in Hp. exists t'. split; [assumption|]. split; [assumption|].
    rewrite Hhs'', Hhs'. reflexivity.
Qed.

(* ---------- table copy at redef ---------- *)
Theorem hash_dup_inv : forall names t, tab_inv names t ->
  exists t', hash_dup (nt_hsize t) (length names) t = Some t' /\ tab_inv names t' /\
             nt_hsize t' = nt_hsize t.
Proof.
  intros names t [Hhs Hinv]. unfold hash_dup.
  destruct names as [|n0 names']; simpl.
  - eexists. split; [reflexivity|]. split; [|reflexivity]. split; simpl; auto.
  - destruct (nt_tab t) as [bs|]; [|discriminate].
    destruct Hinv as [Hlen Hb]. rewrite Hlen, Nat.leb_refl.
    eexists. split; [reflexivity|]. split; [|reflexivity]. split; [assumption|]. simpl.
    rewrite <- Hlen, firstn_all. split; assumption.
Qed.

End Tables.

(* ================================================================== *)
(** * Part 3: attribute arrays and one open file *)

Lemma NoDup_set_nth_new : forall (l : list (list byte)) i x, NoDup l -> ~ In x l -> NoDup (set_nth i l x).
Proof.
  induction l as [|y l IH]; intros i x Hnd Hni; simpl; [destruct i; constructor|].
  inversion Hnd; subst. destruct i.
  - constructor; [|assumption]. intro; apply Hni; right; assumption.
  - constructor.
    + intro Hin. assert (Hsub : forall z, In z (set_nth i l x) -> z = x \/ In z l).
      { clear. revert i. induction l as [|a l IH]; intros i z; simpl; [destruct i; intros []|].
        destruct i; simpl; intros [H|H]; auto. apply IH in H. tauto. }
      apply Hsub in Hin. destruct Hin as [Hin|Hin]; [subst; apply Hni; left; reflexivity | contradiction].
    + apply IH; [assumption|]. intro; apply Hni; right; assumption.
Qed.

Lemma In_del_nth : forall A (l : list A) i z, In z (del_nth i l) -> In z l.
Proof.
  induction l as [|a l IH]; intros i z; simpl; [destruct i; intros []|].
  destruct i; simpl; [auto|]. intros [H|H]; auto. right. eapply IH; eauto.
Qed.

Lemma NoDup_del_nth : forall A (l : list A) i, NoDup l -> NoDup (del_nth i l).
Proof.
  induction l as [|a l IH]; intros i Hnd; simpl; [destruct i; constructor|].
  inversion Hnd; subst. destruct i; [assumption|].
  constructor; [|apply IH; assumption]. intro H. apply In_del_nth in H. contradiction.
Qed.

Lemma NoDup_snoc_new : forall A (l : list A) x, NoDup l -> ~ In x l -> NoDup (l ++ [x]).
Proof.
  intros. apply NoDup_app_intro; [assumption | constructor; [intros []|constructor] |].
  intros y Hy [E|[]]. subst. contradiction.
Qed.

Section Refine.
Variable hashf : list byte -> Z -> Z.
Variable nfc : list byte -> list byte.
Hypothesis hash_range : forall nm hs, hs_ok hs -> 0 <= hashf nm hs < hs.

Notation tinv := (tab_inv hashf).

Definition ca_inv (ca : cattrs) : Prop := tinv (ca_names ca) (ca_tab ca) /\ NoDup (ca_names ca).

Lemma ca_find_linear : forall ca nm, ca_inv ca ->
  ca_find hashf ca nm = Some (find_name nm (map a_name (ca_vals ca))).
Proof. intros ca nm [H1 H2]. unfold ca_find. apply hfind_linear; assumption. Qed.

Lemma find_name_att : forall nm (l : list att) i, find_name nm (map a_name l) = Some i ->
  exists a, nth_error l i = Some a /\ a_name a = nm /\ nth i l dflt_att = a.
Proof.
  intros nm l i H. apply find_name_some in H. destruct H as [H _].
  rewrite nth_error_map in H. destruct (nth_error l i) as [a|] eqn:E; [|discriminate].
  simpl in H. inversion H. exists a. split; [reflexivity|]. split; [reflexivity|].
  eapply nth_error_nth_d; eauto.
Qed.

Lemma c_attr_put_ref : forall indef ca nn t n data, ca_inv ca ->
  exists ca', c_attr_put hashf indef ca nn t n data =
                Some (ca', snd (s_attr_put indef (ca_vals ca) nn t n data)) /\
              ca_vals ca' = fst (s_attr_put indef (ca_vals ca) nn t n data) /\
              ca_inv ca' /\ nt_hsize (ca_tab ca') = nt_hsize (ca_tab ca).
Proof.
  intros indef ca nn t n data Hinv. unfold c_attr_put, s_attr_put.
  rewrite (ca_find_linear ca nn Hinv).
  destruct (find_name nn (map a_name (ca_vals ca))) as [i|] eqn:F.
  - destruct (find_name_att _ _ _ F) as (a & Ha & Hn & Hd). rewrite Hd.
    destruct (negb indef && (x_len_attrV t n >? att_xsz a)).
    + exists ca. simpl. auto.
    + eexists. split; [reflexivity|]. simpl. split; [reflexivity|].
      assert (Hnames : map a_name (set_nth i (ca_vals ca) (mkatt (a_name a) t n data)) = ca_names ca).
      { rewrite map_set_nth. simpl. apply set_nth_same. unfold ca_names.
        rewrite nth_error_map, Ha. reflexivity. }
      split; [|reflexivity]. unfold ca_inv, ca_names in *. simpl. rewrite Hnames. assumption.
  - destruct (negb indef); [exists ca; simpl; auto|]. simpl.
    destruct (Zlen (ca_vals ca) =? NC_MAX_INT); [exists ca; simpl; auto|].
    destruct Hinv as [Ht Hnd].
    destruct (tab_calloc_inv hashf _ _ Ht) as (Ht1 & Hhs1 & Hal).
    destruct (hash_insert_inv hashf hash_range _ _ nn Ht1 Hal) as (t' & Hins & Ht' & Hhs').
    unfold ca_names in Hins. rewrite map_length in Hins. rewrite Hins.
    eexists. split; [reflexivity|]. simpl. split; [reflexivity|]. split.
    + unfold ca_inv, ca_names. simpl. rewrite map_app. simpl. split; [assumption|].
      apply NoDup_snoc_new; [assumption|]. apply find_name_none. assumption.
    + simpl. congruence.
Qed.

Lemma c_attr_rename_ref : forall indef ca nn nnew, ca_inv ca ->
  exists ca', c_attr_rename hashf indef ca nn nnew =
                Some (ca', snd (s_attr_rename indef (ca_vals ca) nn nnew)) /\
              ca_vals ca' = fst (s_attr_rename indef (ca_vals ca) nn nnew) /\
              ca_inv ca' /\ nt_hsize (ca_tab ca') = nt_hsize (ca_tab ca).
Proof.
  intros indef ca nn nnew Hinv. unfold c_attr_rename, s_attr_rename.
  rewrite (ca_find_linear ca nn Hinv).
  destruct (find_name nn (map a_name (ca_vals ca))) as [i|] eqn:F; [|exists ca; simpl; auto].
  rewrite (ca_find_linear ca nnew Hinv).
  destruct (find_name nnew (map a_name (ca_vals ca))) as [j|] eqn:F2; [exists ca; simpl; auto|].
  destruct (find_name_att _ _ _ F) as (a & Ha & Hn & Hd). rewrite Hd.
  destruct (negb indef && (Zlen (a_name a) <? Zlen nnew)); [exists ca; simpl; auto|].
  destruct Hinv as [Ht Hnd].
  assert (Hi : nth_error (ca_names ca) i = Some (a_name a)).
  { unfold ca_names. rewrite nth_error_map, Ha. reflexivity. }
  destruct (hash_replace_inv hashf hash_range _ _ i (a_name a) nnew Ht Hi) as (t' & Hr & Ht' & Hhs').
  rewrite Hr. eexists. split; [reflexivity|]. simpl. split; [reflexivity|]. split; [|assumption].
  unfold ca_inv, ca_names. simpl. rewrite map_set_nth. simpl. split; [assumption|].
  apply NoDup_set_nth_new; [assumption|]. apply find_name_none. assumption.
Qed.

Lemma c_attr_del_ref : forall ca nn, ca_inv ca ->
  exists ca', c_attr_del hashf ca nn = Some (ca', snd (s_attr_del (ca_vals ca) nn)) /\
              ca_vals ca' = fst (s_attr_del (ca_vals ca) nn) /\
              ca_inv ca' /\ nt_hsize (ca_tab ca') = nt_hsize (ca_tab ca).
Proof.
  intros ca nn Hinv. unfold c_attr_del, s_attr_del.
  rewrite (ca_find_linear ca nn Hinv).
  destruct (find_name nn (map a_name (ca_vals ca))) as [i|] eqn:F; [|exists ca; simpl; auto].
  destruct (find_name_att _ _ _ F) as (a & Ha & Hn & Hd).
  destruct Hinv as [Ht Hnd].
  assert (Hi : nth_error (ca_names ca) i = Some nn).
  { unfold ca_names. rewrite nth_error_map, Ha. simpl. congruence. }
  destruct (hash_delete_inv hashf hash_range _ _ i nn Ht Hi) as (t' & Hr & Ht' & Hhs').
  rewrite Hr. eexists. split; [reflexivity|]. simpl. split; [reflexivity|]. split; [|assumption].
  unfold ca_inv, ca_names. simpl. rewrite map_del_nth. split; [assumption|].
  apply NoDup_del_nth. assumption.
Qed.

(* ---------- one open file ---------- *)
Definition cv_inv (hs : Z) (v : cvar) : Prop :=
  ca_inv (cv_atts v) /\ nt_hsize (ca_tab (cv_atts v)) = hs.

Definition meta_inv (hs : Z) (m : cmeta) : Prop :=
  tinv (dnames m) (cm_dtab m) /\ NoDup (dnames m) /\
  tinv (vnames m) (cm_vtab m) /\ NoDup (vnames m) /\
  ca_inv (cm_gatts m) /\ Forall (cv_inv hs) (cm_vars m).

(* table_inv of a file: every name table (dims, vars, global attributes, attributes of each variable)
   of the current header and of the copy kept since redef *)
Definition file_inv (f : cfile) : Prop :=
  hs_ok (cf_hs_vattr f) /\ meta_inv (cf_hs_vattr f) (cf_meta f) /\
  match cf_old f with Some o => meta_inv (cf_hs_vattr f) o | None => True end.

Definition fref (cr : cres) (sr : sres) : Prop :=
  exists f' o w, cr = Some (f', o, w) /\ sr = (abs_file f', o, w) /\ file_inv f'.

Lemma fref_same : forall f o, file_inv f -> fref (cret f o) (sret (abs_file f) o).
Proof. intros f o H. exists f, o, false. auto. Qed.

Lemma vnames_abs : forall vs, map v_name (map abs_var vs) = map cv_name vs.
Proof. intro vs. rewrite map_map. reflexivity. Qed.

Lemma Forall_set_nth : forall A (P : A -> Prop) l i x, Forall P l -> P x -> Forall P (set_nth i l x).
Proof.
  induction l as [|a l IH]; intros i x Hf Hx; simpl; [destruct i; constructor|].
  inversion Hf; subst. destruct i; constructor; auto.
Qed.

Lemma Forall_nth_error : forall A (P : A -> Prop) l i x, Forall P l -> nth_error l i = Some x -> P x.
Proof. intros A P l i x Hf Hn. rewrite Forall_forall in Hf. apply Hf. eapply nth_error_In; eauto. Qed.

Lemma nat_lt_Zlen : forall A (l : list A) v, 0 <= v -> v < Zlen l -> (Z.to_nat v < length l)%nat.
Proof. intros. unfold Zlen in *. lia. Qed.

Lemma get_ca_some : forall m v, varid_ok (Zlen (cm_vars m)) v = true -> exists ca, get_ca m v = Some ca.
Proof.
  intros m v H. unfold varid_ok in H. unfold get_ca.
  destruct (v =? -1) eqn:E; [eauto|]. simpl in H. rewrite H.
  destruct (nth_error_lt_some _ (cm_vars m) (Z.to_nat v)) as [x Hx]; [apply nat_lt_Zlen; lia|].
  rewrite Hx. simpl. eauto.
Qed.

Lemma get_sa_abs : forall fmt nr m v, get_sa (abs_hdr fmt nr m) v = option_map ca_vals (get_ca m v).
Proof.
  intros. unfold get_sa, get_ca, abs_hdr. simpl. rewrite Zlen_map.
  destruct (v =? -1); [reflexivity|].
  destruct ((0 <=? v) && (v <? Zlen (cm_vars m))); [|reflexivity].
  rewrite nth_error_map. destruct (nth_error (cm_vars m) (Z.to_nat v)); reflexivity.
Qed.

Lemma get_ca_inv : forall hs m v ca, meta_inv hs m -> get_ca m v = Some ca -> ca_inv ca.
Proof.
  intros hs m v ca (_ & _ & _ & _ & Hg & Hv) H. unfold get_ca in H.
  destruct (v =? -1); [inversion H; subst; assumption|].
  destruct ((0 <=? v) && (v <? Zlen (cm_vars m))); [|discriminate].
  destruct (nth_error (cm_vars m) (Z.to_nat v)) as [x|] eqn:E; [|discriminate].
  simpl in H. inversion H; subst. apply (Forall_nth_error _ _ _ _ _ Hv E).
Qed.

Lemma set_ca_abs : forall fmt nr m v ca0 ca, get_ca m v = Some ca0 ->
  abs_hdr fmt nr (set_ca m v ca) = set_sa (abs_hdr fmt nr m) v (ca_vals ca).
Proof.
  intros fmt nr m v ca0 ca H. unfold get_ca in H. unfold set_ca, set_sa, abs_hdr. simpl.
  destruct (v =? -1); [reflexivity|].
  destruct ((0 <=? v) && (v <? Zlen (cm_vars m))); [|discriminate].
  destruct (nth_error (cm_vars m) (Z.to_nat v)) as [x|] eqn:E; [|discriminate].
  simpl. f_equal. rewrite map_set_nth. simpl. f_equal.
  rewrite (nth_error_nth_d _ _ _ _ dflt_cvar E).
  assert (E2 : nth_error (map abs_var (cm_vars m)) (Z.to_nat v) = Some (abs_var x))
    by (rewrite nth_error_map, E; reflexivity).
  rewrite (nth_error_nth_d _ _ _ _ dflt_var E2). reflexivity.
Qed.

Lemma set_ca_inv : forall hs m v ca0 ca, meta_inv hs m -> get_ca m v = Some ca0 ->
  ca_inv ca -> nt_hsize (ca_tab ca) = nt_hsize (ca_tab ca0) -> meta_inv hs (set_ca m v ca).
Proof.
  intros hs m v ca0 ca (Hd & Hdn & Hv & Hvn & Hg & Hvs) H Hca Hhs. unfold get_ca in H. unfold set_ca.
  destruct (v =? -1). { unfold meta_inv, dnames, vnames in *. simpl. tauto. }
  destruct ((0 <=? v) && (v <? Zlen (cm_vars m))); [|discriminate].
  destruct (nth_error (cm_vars m) (Z.to_nat v)) as [x|] eqn:E; [|discriminate].
  simpl in H. inversion H; subst ca0.
  rewrite (nth_error_nth_d _ _ _ _ dflt_cvar E).
  assert (Hn : map cv_name (set_nth (Z.to_nat v) (cm_vars m)
                 (mkcvar (cv_name x) (cv_type x) (cv_dimids x) (cv_begin x) ca)) = vnames m).
  { rewrite map_set_nth. simpl. apply set_nth_same. unfold vnames. rewrite nth_error_map, E. reflexivity. }
  unfold meta_inv, dnames, vnames in *. simpl. rewrite Hn.
  split; [exact Hd|]. split; [exact Hdn|]. split; [exact Hv|]. split; [exact Hvn|]. split; [exact Hg|].
  apply Forall_set_nth; [assumption|].
  destruct (Forall_nth_error _ _ _ _ _ Hvs E) as [_ Hx]. split; simpl; [assumption | congruence].
Qed.

Lemma abs_set_meta : forall f m, abs_file (set_meta f m) =
  set_hdr (abs_file f) (abs_hdr (cf_fmt f) (cf_numrecs f) m).
Proof. reflexivity. Qed.

Lemma file_inv_set_meta : forall f m, file_inv f -> meta_inv (cf_hs_vattr f) m -> file_inv (set_meta f m).
Proof. intros f m (H1 & _ & H3) Hm. split; [assumption|]. split; assumption. Qed.

Ltac absn := unfold abs_file, cf_hdr, abs_hdr; cbn [sf_hdr sf_indef sf_rdonly sf_old_nvars h_format h_numrecs
  h_dims h_gatts h_vars]; rewrite ?Zlen_map, ?vnames_abs.

(* ---------- def_dim ---------- *)
Lemma c_def_dim_ref : forall f nm size, file_inv f ->
  fref (c_def_dim hashf nfc f nm size) (s_def_dim nfc (abs_file f) nm size).
Proof.
  intros f nm size Hinv. pose proof Hinv as (Hhs & Hm & Hold).
  pose proof Hm as (Hd & Hdn & Hv & Hvn & Hg & Hvs).
  unfold c_def_dim, s_def_dim. absn.
  destruct (negb (def_dim_pre (cf_fmt f) (cf_indef f) (cm_dims (cf_meta f)) nm size =? NC_NOERR)).
  { apply fref_same. assumption. }
  fold (dnames (cf_meta f)). rewrite (hfind_linear hashf hash_range _ _ (nfc nm) Hd Hdn).
  destruct (find_name (nfc nm) (dnames (cf_meta f))) eqn:F. { apply fref_same. assumption. }
  destruct (tab_calloc_inv hashf _ _ Hd) as (Hd1 & Hhs1 & Hal).
  destruct (hash_insert_inv hashf hash_range _ _ (nfc nm) Hd1 Hal) as (t' & Hins & Ht' & Hhs').
  unfold dnames in Hins. rewrite map_length in Hins. rewrite Hins.
  eexists _, _, _. split; [reflexivity|]. split; [reflexivity|].
  apply file_inv_set_meta; [assumption|].
  unfold meta_inv, dnames, vnames in *. simpl. rewrite map_app. simpl.
  split; [exact Ht'|]. split; [|tauto].
  apply NoDup_snoc_new; [assumption|]. apply find_name_none. assumption.
Qed.

(* ---------- what the argument checks guarantee ---------- *)
Ltac pre_split H :=
  repeat match type of H with
         | (if ?c then _ else _) = _ => let E := fresh "E" in destruct c eqn:E
         end;
  try discriminate; try (unfold NC_NOERR in *; lia).

Lemma put_att_pre_ok : forall fmt rd nv v nm t n,
  put_att_pre fmt rd nv v nm t n = NC_NOERR -> varid_ok nv v = true.
Proof.
  intros until n. unfold put_att_pre. intro H. destruct (varid_ok nv v); [reflexivity|].
  simpl in H. pre_split H.
Qed.

Lemma get_att_pre_ok : forall nv v nm, get_att_pre nv v nm = NC_NOERR -> varid_ok nv v = true.
Proof.
  intros until nm. unfold get_att_pre. intro H. destruct (varid_ok nv v); [reflexivity|].
  simpl in H. pre_split H.
Qed.

Lemma del_att_pre_ok : forall rd ind nv v nm, del_att_pre rd ind nv v nm = NC_NOERR -> varid_ok nv v = true.
Proof.
  intros until nm. unfold del_att_pre. intro H. destruct (varid_ok nv v); [reflexivity|].
  simpl in H. pre_split H.
Qed.

Lemma rename_att_pre_ok : forall rd nv v nm nnm, rename_att_pre rd nv v nm nnm = NC_NOERR -> varid_ok nv v = true.
Proof.
  intros until nnm. unfold rename_att_pre. intro H. destruct (varid_ok nv v); [reflexivity|].
  simpl in H. pre_split H.
Qed.

Lemma copy_att_pre_ok : forall rd nvi vi nvo vo nm, copy_att_pre rd nvi vi nvo vo nm = NC_NOERR ->
  varid_ok nvi vi = true /\ varid_ok nvo vo = true.
Proof.
  intros until nm. unfold copy_att_pre. intro H.
  destruct (varid_ok nvi vi); destruct (varid_ok nvo vo); simpl in H; auto; pre_split H.
Qed.

Lemma rename_dim_pre_ok : forall rd nd id nm, rename_dim_pre rd nd id nm = NC_NOERR -> 0 <= id < nd.
Proof. intros until nm. unfold rename_dim_pre. intro H. pre_split H. Qed.

Lemma rename_var_pre_ok : forall rd nv id nm, rename_var_pre rd nv id nm = NC_NOERR -> 0 <= id < nv.
Proof. intros until nm. unfold rename_var_pre. intro H. pre_split H. Qed.

Lemma negb_eqb_false : forall e, negb (e =? NC_NOERR) = false -> e = NC_NOERR.
Proof. intros e H. apply negb_false_iff in H. apply Z.eqb_eq in H. assumption. Qed.

Lemma abs_var_dflt : abs_var dflt_cvar = dflt_var.
Proof. reflexivity. Qed.

Lemma var_type_abs : forall vs i, v_type (nth i (map abs_var vs) dflt_var) = cv_type (nth i vs dflt_cvar).
Proof. intros. rewrite <- abs_var_dflt, map_nth. reflexivity. Qed.

(* an operation on the attribute array of (file f, varid v), lifted to the file *)
Lemma attr_op_lift : forall f v ca ca', file_inv f -> get_ca (cf_meta f) v = Some ca ->
  ca_inv ca' -> nt_hsize (ca_tab ca') = nt_hsize (ca_tab ca) ->
  file_inv (set_meta f (set_ca (cf_meta f) v ca')) /\
  abs_file (set_meta f (set_ca (cf_meta f) v ca')) =
    set_hdr (abs_file f) (set_sa (sf_hdr (abs_file f)) v (ca_vals ca')).
Proof.
  intros f v ca ca' Hinv Hg Hca Hhs. split.
  - apply file_inv_set_meta; [assumption|]. destruct Hinv as (_ & Hm & _).
    eapply set_ca_inv; eauto.
  - rewrite abs_set_meta. f_equal. eapply set_ca_abs; eauto.
Qed.

(* ---------- def_var ---------- *)
Lemma c_def_var_ref : forall f nm t dimids, file_inv f ->
  fref (c_def_var hashf nfc f nm t dimids) (s_def_var nfc (abs_file f) nm t dimids).
Proof.
  intros f nm t dimids Hinv. pose proof Hinv as (Hhs & Hm & Hold).
  pose proof Hm as (Hd & Hdn & Hv & Hvn & Hg & Hvs).
  unfold c_def_var, s_def_var. absn.
  destruct (negb (def_var_pre (cf_fmt f) (cf_indef f) (Zlen (cm_vars (cf_meta f))) nm t =? NC_NOERR)).
  { apply fref_same. assumption. }
  fold (vnames (cf_meta f)). rewrite (hfind_linear hashf hash_range _ _ (nfc nm) Hv Hvn).
  destruct (find_name (nfc nm) (vnames (cf_meta f))) eqn:F. { apply fref_same. assumption. }
  destruct (negb (def_var_post (cm_dims (cf_meta f)) t dimids =? NC_NOERR)). { apply fref_same. assumption. }
  destruct (tab_calloc_inv hashf _ _ Hv) as (Hv1 & Hhs1 & Hal).
  destruct (hash_insert_inv hashf hash_range _ _ (nfc nm) Hv1 Hal) as (t' & Hins & Ht' & Hhs').
  unfold vnames in Hins. rewrite map_length in Hins. rewrite Hins.
  eexists _, _, _. split; [reflexivity|]. split.
  { rewrite abs_set_meta. unfold abs_hdr. simpl. rewrite map_app. reflexivity. }
  apply file_inv_set_meta; [assumption|].
  unfold meta_inv, dnames, vnames in *. simpl. rewrite map_app. simpl.
  split; [exact Hd|]. split; [exact Hdn|]. split; [exact Ht'|]. split.
  { apply NoDup_snoc_new; [assumption|]. apply find_name_none. assumption. }
  split; [exact Hg|]. apply Forall_app. split; [assumption|]. constructor; [|constructor].
  split; simpl; [|reflexivity]. split; simpl; [|constructor]. split; simpl; [assumption | reflexivity].
Qed.

(* ---------- put_att ---------- *)
Lemma c_put_att_ref : forall f v nm t vals, file_inv f ->
  fref (c_put_att hashf nfc f v nm t vals) (s_put_att nfc (abs_file f) v nm t vals).
Proof.
  intros f v nm t vals Hinv. pose proof Hinv as (Hhs & Hm & Hold).
  unfold c_put_att, s_put_att. absn.
  destruct (negb (put_att_pre (cf_fmt f) (cf_rdonly f) (Zlen (cm_vars (cf_meta f))) v nm t (Zlen vals)
                  =? NC_NOERR)) eqn:E.
  { apply fref_same. assumption. }
  apply negb_eqb_false, put_att_pre_ok in E.
  unfold var_type_of. rewrite var_type_abs.
  destruct (negb (fillvalue_rule v nm t (Zlen vals)
                    (cv_type (nth (Z.to_nat v) (cm_vars (cf_meta f)) dflt_cvar))
                    (option_map (fun o => Zlen (cm_vars o)) (cf_old f)) =? NC_NOERR)).
  { apply fref_same. assumption. }
  destruct (get_ca_some _ _ E) as [ca Hca].
  fold (abs_hdr (cf_fmt f) (cf_numrecs f) (cf_meta f)). rewrite get_sa_abs, Hca. simpl.
  destruct (att_put_value t vals) as [data ce].
  pose proof (get_ca_inv _ _ _ _ Hm Hca) as Hcai.
  destruct (c_attr_put_ref (cf_indef f) ca (nfc nm) t (Zlen vals) data Hcai) as (ca' & Hp & Hv' & Hi' & Hh').
  rewrite Hp. destruct (s_attr_put (cf_indef f) (ca_vals ca) (nfc nm) t (Zlen vals) data) as [l' rc].
  simpl in *. destruct (negb (rc =? NC_NOERR)). { apply fref_same. assumption. }
  destruct (attr_op_lift f v ca ca' Hinv Hca Hi' Hh') as [Hfi Habs].
  eexists _, _, _. split; [reflexivity|]. split; [|exact Hfi].
  rewrite Habs. subst l'. reflexivity.
Qed.

(* ---------- lookups: get_att, inq_attid, inq_dimid, inq_varid ---------- *)
Lemma find_att_nth : forall nm (l : list att) i, find_name nm (map a_name l) = Some i ->
  exists a, nth_error l i = Some a /\ nth i l dflt_att = a.
Proof. intros. destruct (find_name_att _ _ _ H) as (a & H1 & _ & H3). eauto. Qed.

Lemma c_get_att_ref : forall f v nm, file_inv f ->
  fref (c_get_att hashf nfc f v nm) (s_get_att nfc (abs_file f) v nm).
Proof.
  intros f v nm Hinv. pose proof Hinv as (Hhs & Hm & Hold).
  unfold c_get_att, s_get_att. absn.
  destruct (negb (get_att_pre (Zlen (cm_vars (cf_meta f))) v nm =? NC_NOERR)) eqn:E.
  { apply fref_same. assumption. }
  apply negb_eqb_false, get_att_pre_ok in E.
  destruct (get_ca_some _ _ E) as [ca Hca].
  fold (abs_hdr (cf_fmt f) (cf_numrecs f) (cf_meta f)). rewrite get_sa_abs, Hca. simpl.
  rewrite (ca_find_linear ca (nfc nm) (get_ca_inv _ _ _ _ Hm Hca)).
  destruct (find_name (nfc nm) (map a_name (ca_vals ca))); apply fref_same; assumption.
Qed.

Lemma c_inq_attid_ref : forall f v nm, file_inv f ->
  fref (c_inq_attid hashf nfc f v nm) (s_inq_attid nfc (abs_file f) v nm).
Proof.
  intros f v nm Hinv. pose proof Hinv as (Hhs & Hm & Hold).
  unfold c_inq_attid, s_inq_attid. absn.
  destruct (negb (get_att_pre (Zlen (cm_vars (cf_meta f))) v nm =? NC_NOERR)) eqn:E.
  { apply fref_same. assumption. }
  apply negb_eqb_false, get_att_pre_ok in E.
  destruct (get_ca_some _ _ E) as [ca Hca].
  fold (abs_hdr (cf_fmt f) (cf_numrecs f) (cf_meta f)). rewrite get_sa_abs, Hca. simpl.
  rewrite (ca_find_linear ca (nfc nm) (get_ca_inv _ _ _ _ Hm Hca)).
  destruct (find_name (nfc nm) (map a_name (ca_vals ca))); apply fref_same; assumption.
Qed.

Lemma c_inq_dimid_ref : forall f nm, file_inv f ->
  fref (c_inq_dimid hashf nfc f nm) (s_inq_dimid nfc (abs_file f) nm).
Proof.
  intros f nm Hinv. pose proof Hinv as (Hhs & Hm & Hold).
  pose proof Hm as (Hd & Hdn & Hv & Hvn & Hg & Hvs).
  unfold c_inq_dimid, s_inq_dimid. absn.
  destruct (negb (inq_id_pre nm =? NC_NOERR)). { apply fref_same. assumption. }
  fold (dnames (cf_meta f)). rewrite (hfind_linear hashf hash_range _ _ (nfc nm) Hd Hdn).
  destruct (find_name (nfc nm) (dnames (cf_meta f))); apply fref_same; assumption.
Qed.

Lemma c_inq_varid_ref : forall f nm, file_inv f ->
  fref (c_inq_varid hashf nfc f nm) (s_inq_varid nfc (abs_file f) nm).
Proof.
  intros f nm Hinv. pose proof Hinv as (Hhs & Hm & Hold).
  pose proof Hm as (Hd & Hdn & Hv & Hvn & Hg & Hvs).
  unfold c_inq_varid, s_inq_varid. absn.
  destruct (negb (inq_id_pre nm =? NC_NOERR)). { apply fref_same. assumption. }
  fold (vnames (cf_meta f)). rewrite (hfind_linear hashf hash_range _ _ (nfc nm) Hv Hvn).
  destruct (find_name (nfc nm) (vnames (cf_meta f))); apply fref_same; assumption.
Qed.

Lemma c_inq_ref : forall f, file_inv f -> fref (c_inq f) (s_inq (abs_file f)).
Proof. intros f H. unfold c_inq, s_inq. apply fref_same. assumption. Qed.

(* ---------- del_att, rename_att ---------- *)
Lemma c_del_att_ref : forall f v nm, file_inv f ->
  fref (c_del_att hashf nfc f v nm) (s_del_att nfc (abs_file f) v nm).
Proof.
  intros f v nm Hinv. pose proof Hinv as (Hhs & Hm & Hold).
  unfold c_del_att, s_del_att. absn.
  destruct (negb (del_att_pre (cf_rdonly f) (cf_indef f) (Zlen (cm_vars (cf_meta f))) v nm =? NC_NOERR)) eqn:E.
  { apply fref_same. assumption. }
  apply negb_eqb_false, del_att_pre_ok in E.
  destruct (get_ca_some _ _ E) as [ca Hca].
  fold (abs_hdr (cf_fmt f) (cf_numrecs f) (cf_meta f)). rewrite get_sa_abs, Hca. simpl.
  pose proof (get_ca_inv _ _ _ _ Hm Hca) as Hcai.
  destruct (c_attr_del_ref ca (nfc nm) Hcai) as (ca' & Hp & Hv' & Hi' & Hh').
  rewrite Hp. destruct (s_attr_del (ca_vals ca) (nfc nm)) as [l' rc].
  simpl in *. destruct (negb (rc =? NC_NOERR)). { apply fref_same. assumption. }
  destruct (attr_op_lift f v ca ca' Hinv Hca Hi' Hh') as [Hfi Habs].
  eexists _, _, _. split; [reflexivity|]. split; [|exact Hfi].
  rewrite Habs. subst l'. reflexivity.
Qed.

Lemma c_rename_att_ref : forall f v nm nnm, file_inv f ->
  fref (c_rename_att hashf nfc f v nm nnm) (s_rename_att nfc (abs_file f) v nm nnm).
Proof.
  intros f v nm nnm Hinv. pose proof Hinv as (Hhs & Hm & Hold).
  unfold c_rename_att, s_rename_att. absn.
  destruct (negb (rename_att_pre (cf_rdonly f) (Zlen (cm_vars (cf_meta f))) v nm nnm =? NC_NOERR)) eqn:E.
  { apply fref_same. assumption. }
  apply negb_eqb_false, rename_att_pre_ok in E.
  destruct (get_ca_some _ _ E) as [ca Hca].
  fold (abs_hdr (cf_fmt f) (cf_numrecs f) (cf_meta f)). rewrite get_sa_abs, Hca. simpl.
  pose proof (get_ca_inv _ _ _ _ Hm Hca) as Hcai.
  destruct (c_attr_rename_ref (cf_indef f) ca (nfc nm) (nfc nnm) Hcai) as (ca' & Hp & Hv' & Hi' & Hh').
  rewrite Hp. destruct (s_attr_rename (cf_indef f) (ca_vals ca) (nfc nm) (nfc nnm)) as [l' rc].
  simpl in *. destruct (negb (rc =? NC_NOERR)). { apply fref_same. assumption. }
  destruct (attr_op_lift f v ca ca' Hinv Hca Hi' Hh') as [Hfi Habs].
  eexists _, _, _. split; [reflexivity|]. split; [|exact Hfi].
  rewrite Habs. subst l'. reflexivity.
Qed.

(* ---------- copy_att ---------- *)
Lemma c_copy_read_ref : forall f v nm, file_inv f -> varid_ok (Zlen (cm_vars (cf_meta f))) v = true ->
  c_copy_read hashf nfc f v nm = s_copy_read nfc (abs_file f) v nm /\
  c_copy_read hashf nfc f v nm <> None.
Proof.
  intros f v nm Hinv E. pose proof Hinv as (Hhs & Hm & Hold).
  unfold c_copy_read, s_copy_read. absn.
  destruct (get_ca_some _ _ E) as [ca Hca].
  fold (abs_hdr (cf_fmt f) (cf_numrecs f) (cf_meta f)). rewrite get_sa_abs, Hca. simpl.
  rewrite (ca_find_linear ca (nfc nm) (get_ca_inv _ _ _ _ Hm Hca)).
  destruct (find_name (nfc nm) (map a_name (ca_vals ca))); split; auto; discriminate.
Qed.

Lemma c_copy_write_ref : forall f v nm a self, file_inv f ->
  varid_ok (Zlen (cm_vars (cf_meta f))) v = true ->
  fref (c_copy_write hashf nfc f v nm a self) (s_copy_write nfc (abs_file f) v nm a self).
Proof.
  intros f v nm a self Hinv E. pose proof Hinv as (Hhs & Hm & Hold).
  unfold c_copy_write, s_copy_write. absn.
  destruct (get_ca_some _ _ E) as [ca Hca].
  fold (abs_hdr (cf_fmt f) (cf_numrecs f) (cf_meta f)). rewrite get_sa_abs, Hca. simpl.
  pose proof (get_ca_inv _ _ _ _ Hm Hca) as Hcai.
  destruct self.
  { rewrite (ca_find_linear ca (nfc nm) Hcai). apply fref_same. assumption. }
  destruct (c_attr_put_ref (cf_indef f) ca (nfc nm) (a_type a) (a_nelems a) (a_data a) Hcai)
    as (ca' & Hp & Hv' & Hi' & Hh').
  rewrite Hp. destruct (s_attr_put (cf_indef f) (ca_vals ca) (nfc nm) (a_type a) (a_nelems a) (a_data a)) as [l' rc].
  simpl in *. destruct (negb (rc =? NC_NOERR)). { apply fref_same. assumption. }
  destruct (attr_op_lift f v ca ca' Hinv Hca Hi' Hh') as [Hfi Habs].
  eexists _, _, _. split; [reflexivity|]. split; [|exact Hfi].
  rewrite Habs. subst l'. reflexivity.
Qed.

(* ---------- rename_dim, rename_var ---------- *)
Lemma c_rename_dim_ref : forall f id nm, file_inv f ->
  fref (c_rename_dim hashf nfc f id nm) (s_rename_dim nfc (abs_file f) id nm).
Proof.
  intros f id nm Hinv. pose proof Hinv as (Hhs & Hm & Hold).
  pose proof Hm as (Hd & Hdn & Hv & Hvn & Hg & Hvs).
  unfold c_rename_dim, s_rename_dim. absn.
  destruct (negb (rename_dim_pre (cf_rdonly f) (Zlen (cm_dims (cf_meta f))) id nm =? NC_NOERR)) eqn:E.
  { apply fref_same. assumption. }
  apply negb_eqb_false, rename_dim_pre_ok in E.
  fold (dnames (cf_meta f)). rewrite (hfind_linear hashf hash_range _ _ (nfc nm) Hd Hdn).
  destruct (find_name (nfc nm) (dnames (cf_meta f))) as [j|] eqn:F.
  { destruct (Nat.eqb j (Z.to_nat id)); apply fref_same; assumption. }
  destruct (nth_error_lt_some _ (cm_dims (cf_meta f)) (Z.to_nat id)) as [old Hold']; [apply nat_lt_Zlen; lia|].
  rewrite (nth_error_nth_d _ _ _ _ dflt_dim Hold').
  destruct (negb (cf_indef f) && (Zlen (d_name old) <? Zlen (nfc nm))). { apply fref_same. assumption. }
  assert (Hi : nth_error (dnames (cf_meta f)) (Z.to_nat id) = Some (d_name old)).
  { unfold dnames. rewrite nth_error_map, Hold'. reflexivity. }
  destruct (hash_update_inv hashf hash_range _ _ _ _ (nfc nm) Hd Hi) as (t' & Hu & Ht' & Hhs').
  rewrite Hu. eexists _, _, _. split; [reflexivity|]. split; [reflexivity|].
  apply file_inv_set_meta; [assumption|].
  unfold meta_inv, dnames, vnames in *. simpl. rewrite map_set_nth. simpl.
  split; [exact Ht'|]. split; [|tauto].
  apply NoDup_set_nth_new; [assumption|]. apply find_name_none. assumption.
Qed.

Lemma c_rename_var_ref : forall f id nm, file_inv f ->
  fref (c_rename_var hashf nfc f id nm) (s_rename_var nfc (abs_file f) id nm).
Proof.
  intros f id nm Hinv. pose proof Hinv as (Hhs & Hm & Hold).
  pose proof Hm as (Hd & Hdn & Hv & Hvn & Hg & Hvs).
  unfold c_rename_var, s_rename_var. absn.
  destruct (negb (rename_var_pre (cf_rdonly f) (Zlen (cm_vars (cf_meta f))) id nm =? NC_NOERR)) eqn:E.
  { apply fref_same. assumption. }
  apply negb_eqb_false, rename_var_pre_ok in E.
  fold (vnames (cf_meta f)). rewrite (hfind_linear hashf hash_range _ _ (nfc nm) Hv Hvn).
  destruct (find_name (nfc nm) (vnames (cf_meta f))) as [j|] eqn:F.
  { apply fref_same; assumption. }
  destruct (nth_error_lt_some _ (cm_vars (cf_meta f)) (Z.to_nat id)) as [old Hold']; [apply nat_lt_Zlen; lia|].
  rewrite (nth_error_nth_d _ _ _ _ dflt_cvar Hold').
  assert (Hold2 : nth_error (map abs_var (cm_vars (cf_meta f))) (Z.to_nat id) = Some (abs_var old))
    by (rewrite nth_error_map, Hold'; reflexivity).
  rewrite (nth_error_nth_d _ _ _ _ dflt_var Hold2). simpl.
  destruct (negb (cf_indef f) && (Zlen (cv_name old) <? Zlen (nfc nm))). { apply fref_same. assumption. }
  assert (Hi : nth_error (vnames (cf_meta f)) (Z.to_nat id) = Some (cv_name old)).
  { unfold vnames. rewrite nth_error_map, Hold'. reflexivity. }
  destruct (hash_update_inv hashf hash_range _ _ _ _ (nfc nm) Hv Hi) as (t' & Hu & Ht' & Hhs').
  rewrite Hu. eexists _, _, _. split; [reflexivity|]. split.
  { rewrite abs_set_meta. unfold abs_hdr. simpl. rewrite map_set_nth. reflexivity. }
  apply file_inv_set_meta; [assumption|].
  unfold meta_inv, dnames, vnames in *. simpl. rewrite map_set_nth. simpl.
  split; [exact Hd|]. split; [exact Hdn|]. split; [exact Ht'|]. split.
  { apply NoDup_set_nth_new; [assumption|]. apply find_name_none. assumption. }
  split; [exact Hg|]. apply Forall_set_nth; [assumption|].
  apply (Forall_nth_error _ _ _ _ _ Hvs Hold').
Qed.

(* ---------- redef (header copy incl. hash_table_copy) ---------- *)
Lemma dup_cattrs_ok : forall hs ca, ca_inv ca -> nt_hsize (ca_tab ca) = hs ->
  exists ca', dup_cattrs hs ca = Some ca' /\ ca_vals ca' = ca_vals ca /\ ca_inv ca' /\
              nt_hsize (ca_tab ca') = hs.
Proof.
  intros hs ca [Ht Hnd] Hhs. unfold dup_cattrs. subst hs.
  destruct (hash_dup_inv hashf _ _ Ht) as (t' & Hd & Ht' & Hhs').
  unfold ca_names in Hd. rewrite map_length in Hd. rewrite Hd.
  eexists. split; [reflexivity|]. split; [reflexivity|]. split; [|assumption].
  split; assumption.
Qed.

Lemma dup_vars_ok : forall hs vs, Forall (cv_inv hs) vs ->
  exists vs', dup_vars hs vs = Some vs' /\ map abs_var vs' = map abs_var vs /\
              map cv_name vs' = map cv_name vs /\ Forall (cv_inv hs) vs'.
Proof.
  induction vs as [|v vs IH]; intro Hf; simpl.
  - exists []. auto.
  - inversion Hf as [|? ? Hcv Hf']; subst. destruct Hcv as [Hca Hhs].
    destruct (dup_cattrs_ok hs (cv_atts v) Hca Hhs) as (ca' & Hd & Hv & Hi & Hh). rewrite Hd.
    destruct (IH Hf') as (vs' & Hd' & Ha & Hn & Hfa). rewrite Hd'.
    eexists. split; [reflexivity|]. simpl. split.
    { f_equal; [|assumption]. unfold abs_var. simpl. rewrite Hv. reflexivity. }
    split; [f_equal; assumption|]. constructor; [|assumption]. split; assumption.
Qed.

Lemma dup_meta_ok : forall hs m, meta_inv hs m ->
  exists o, dup_meta hs m = Some o /\ meta_inv hs o /\ Zlen (cm_vars o) = Zlen (cm_vars m).
Proof.
  intros hs m (Hd & Hdn & Hv & Hvn & Hg & Hvs). unfold dup_meta.
  destruct (hash_dup_inv hashf _ _ Hd) as (dt & Hdd & Hdt & _).
  unfold dnames in Hdd. rewrite map_length in Hdd. rewrite Hdd.
  destruct (dup_cattrs_ok _ (cm_gatts m) Hg eq_refl) as (ga & Hdg & Hgv & Hgi & _). rewrite Hdg.
  destruct (dup_vars_ok hs (cm_vars m) Hvs) as (vs & Hdv & Hva & Hvn' & Hvf). rewrite Hdv.
  destruct (hash_dup_inv hashf _ _ Hv) as (vt & Hdvt & Hvt & _).
  unfold vnames in Hdvt. rewrite map_length in Hdvt. rewrite Hdvt.
  eexists. split; [reflexivity|]. split.
  - unfold meta_inv, dnames, vnames in *. simpl. rewrite Hvn'. tauto.
  - simpl. unfold Zlen. f_equal. rewrite <- (map_length cv_name vs), Hvn', map_length. reflexivity.
Qed.

Lemma c_redef_ref : forall f, file_inv f -> fref (c_redef f) (s_redef (abs_file f)).
Proof.
  intros f Hinv. pose proof Hinv as (Hhs & Hm & Hold).
  unfold c_redef, s_redef.
  change (sf_rdonly (abs_file f)) with (cf_rdonly f). change (sf_indef (abs_file f)) with (cf_indef f).
  destruct (cf_rdonly f) eqn:Erd. { apply fref_same. assumption. }
  destruct (cf_indef f) eqn:Ein. { apply fref_same. assumption. }
  destruct (dup_meta_ok _ _ Hm) as (o & Hd & Hoi & Hlen). rewrite Hd.
  eexists _, _, _. split; [reflexivity|]. split.
  - unfold sret, abs_file, cf_hdr, abs_hdr. simpl. rewrite Hlen, Zlen_map. reflexivity.
  - split; [assumption|]. simpl. split; assumption.
Qed.

(* ---------- enddef ---------- *)
Lemma apply_begins_names : forall vs bl, map cv_name (apply_begins vs bl) = map cv_name vs.
Proof. induction vs as [|v vs IH]; intro bl; simpl; [reflexivity|]. destruct bl; simpl; f_equal; auto. Qed.

Lemma apply_begins_abs : forall vs bl, map abs_var (apply_begins vs bl) = s_apply_begins (map abs_var vs) bl.
Proof. induction vs as [|v vs IH]; intro bl; simpl; [reflexivity|]. destruct bl; simpl; f_equal; auto. Qed.

Lemma apply_begins_inv : forall hs vs bl, Forall (cv_inv hs) vs -> Forall (cv_inv hs) (apply_begins vs bl).
Proof.
  induction vs as [|v vs IH]; intros bl Hf; simpl; [constructor|].
  inversion Hf; subst. destruct bl; constructor; auto.
Qed.

Lemma c_enddef_ref : forall f bl, file_inv f -> fref (c_enddef f bl) (s_enddef (abs_file f) bl).
Proof.
  intros f bl Hinv. pose proof Hinv as (Hhs & Hm & Hold).
  pose proof Hm as (Hd & Hdn & Hv & Hvn & Hg & Hvs).
  unfold c_enddef, s_enddef. absn.
  destruct (negb (cf_indef f)). { apply fref_same. assumption. }
  fold (abs_hdr (cf_fmt f) (cf_numrecs f) (cf_meta f)). fold (cf_hdr f).
  destruct (negb (check_vlens (cf_hdr f) =? NC_NOERR)). { apply fref_same. assumption. }
  eexists _, _, _. split; [reflexivity|]. split.
  - unfold abs_file, cf_hdr, abs_hdr. simpl. rewrite apply_begins_abs. reflexivity.
  - split; [assumption|]. simpl. split; [|exact I].
    unfold meta_inv, dnames, vnames in *. simpl. rewrite apply_begins_names.
    split; [exact Hd|]. split; [exact Hdn|]. split; [exact Hv|]. split; [exact Hvn|]. split; [exact Hg|].
    apply apply_begins_inv. assumption.
Qed.

(* ---------- open / create ---------- *)
Definition hdr_nodup (h : hdr) : Prop :=
  NoDup (map d_name (h_dims h)) /\ NoDup (map v_name (h_vars h)) /\ NoDup (map a_name (h_gatts h)) /\
  Forall (fun v => NoDup (map a_name (v_atts v))) (h_vars h).

Definition hcfg_pos (c : hcfg) : Prop := hs_ok (hc_dim c) /\ hs_ok (hc_var c) /\ hs_ok (hc_gatt c) /\ hs_ok (hc_vatt c).

Definition hint_ok (g : option Z) : Prop := match g with Some v => v <= NC_MAX_INT | None => True end.

Lemma hint_size_pos : forall g d, hs_ok d -> hint_ok g -> hs_ok (hint_size g d).
Proof.
  intros g d H Hg. unfold hint_size. destruct g as [v|]; [|assumption]. simpl in Hg.
  destruct (v <=? 0) eqn:E; [assumption|]. unfold hs_ok. lia.
Qed.

(* with the repaired hint code (size <= 0 falls back to the default) every table size is positive *)
Lemma hcfg_of_pos : forall a b c d, hint_ok a -> hint_ok b -> hint_ok c -> hint_ok d ->
  hcfg_pos (hcfg_of a b c d).
Proof.
  intros. unfold hcfg_pos, hcfg_of. simpl.
  split; [|split; [|split]]; apply hint_size_pos; try assumption; unfold hs_ok; cbv; split; congruence.
Qed.

Lemma open_cattrs_ok : forall hs l, hs_ok hs -> NoDup (map a_name l) ->
  exists ca, open_cattrs hashf hs l = Some ca /\ ca_vals ca = l /\ ca_inv ca /\ nt_hsize (ca_tab ca) = hs.
Proof.
  intros hs l Hhs Hnd. unfold open_cattrs.
  destruct (hash_populate_inv hashf hash_range hs (map a_name l) Hhs) as (t & Hp & Ht & Hh). rewrite Hp.
  eexists. split; [reflexivity|]. split; [reflexivity|]. split; [|assumption]. split; assumption.
Qed.

Lemma open_vars_ok : forall hs vs, hs_ok hs -> Forall (fun v => NoDup (map a_name (v_atts v))) vs ->
  exists cvs, open_vars hashf hs vs = Some cvs /\ map abs_var cvs = map norm_var vs /\
              map cv_name cvs = map v_name vs /\ Forall (cv_inv hs) cvs.
Proof.
  intros hs vs Hhs. induction vs as [|v vs IH]; intro Hf; simpl.
  - exists []. auto.
  - inversion Hf as [|? ? Hv Hf']; subst.
    destruct (open_cattrs_ok hs (v_atts v) Hhs Hv) as (ca & Ho & Hvals & Hi & Hh). rewrite Ho.
    destruct (IH Hf') as (cvs & Ho' & Ha & Hn & Hfa). rewrite Ho'.
    eexists. split; [reflexivity|]. simpl. split.
    { f_equal; [|assumption]. unfold abs_var, norm_var. simpl. rewrite Hvals. reflexivity. }
    split; [f_equal; assumption|]. constructor; [|assumption]. split; assumption.
Qed.

Lemma c_open_file_ok : forall h rd c, hcfg_pos c -> hdr_nodup h ->
  exists f, c_open_file hashf h rd c = Some f /\ file_inv f /\
            abs_file f = mksfile (norm_hdr h) None false rd.
Proof.
  intros h rd c (Hd & Hv & Hg & Ha) (Hnd & Hnv & Hng & Hna). unfold c_open_file.
  destruct (hash_populate_inv hashf hash_range _ (map d_name (h_dims h)) Hd) as (dt & Hpd & Hdt & _). rewrite Hpd.
  destruct (open_vars_ok _ (h_vars h) Ha Hna) as (cvs & Hov & Hab & Hnm & Hcf). rewrite Hov.
  destruct (open_cattrs_ok _ (h_gatts h) Hg Hng) as (ga & Hog & Hgv & Hgi & _). rewrite Hog.
  destruct (hash_populate_inv hashf hash_range _ (map cv_name cvs) Hv) as (vt & Hpv & Hvt & _). rewrite Hpv.
  eexists. split; [reflexivity|]. split.
  - split; [assumption|]. simpl. split; [|exact I].
    unfold meta_inv, dnames, vnames. simpl. rewrite Hnm in *. tauto.
  - unfold abs_file, cf_hdr, abs_hdr, norm_hdr. simpl. rewrite Hab, Hgv. reflexivity.
Qed.

Lemma c_create_file_ok : forall fmt c, hcfg_pos c ->
  file_inv (c_create_file fmt c) /\
  abs_file (c_create_file fmt c) = mksfile (mkhdr fmt 0 [] [] []) None true false.
Proof.
  intros fmt c (Hd & Hv & Hg & Ha). split; [|reflexivity].
  split; [assumption|]. simpl. split; [|exact I].
  unfold meta_inv, dnames, vnames, ca_inv, ca_names, tab_inv. simpl.
  repeat match goal with |- _ /\ _ => split end; try assumption; try reflexivity; constructor.
Qed.

(* names of a file that satisfies the invariant are pairwise distinct (per table) *)
Lemma file_inv_nodup : forall f, file_inv f -> hdr_nodup (cf_hdr f).
Proof.
  intros f (_ & (Hd & Hdn & Hv & Hvn & Hg & Hvs) & _). unfold hdr_nodup, cf_hdr, abs_hdr. simpl.
  rewrite vnames_abs. split; [assumption|]. split; [assumption|]. split; [apply Hg|].
  rewrite Forall_map. eapply Forall_impl; [|exact Hvs]. intros v [[_ H] _]. exact H.
Qed.

End Refine.

(* ================================================================== *)
(** * Part 3b: the header stays representable in the file format (=> decodable) *)
Ltac pre_split H :=
  repeat match type of H with
         | (if ?c then _ else _) = _ => let E := fresh "E" in destruct c eqn:E
         end;
  try discriminate; try (unfold NC_NOERR in *; lia).

Section WellFormed.
Variable nfc : list byte -> list byte.
(* assumption on the NFC oracle: a normalised legal name still fits a 32-bit length field *)
Hypothesis nfc_len : forall nm, Zlen nm <= NC_MAX_NAME -> Zlen (nfc nm) <= NC_MAX_INT.

Definition att_ok (fmt : Z) (a : att) : Prop :=
  Zlen (a_name a) <= NC_MAX_INT /\ valid_type fmt (a_type a) = true /\
  0 <= a_nelems a <= NC_MAX_INT /\ Zlen (a_data a) = a_nelems a * xlen_type (a_type a).

Definition dim_ok (fmt : Z) (d : dim) : Prop :=
  Zlen (d_name d) <= NC_MAX_INT /\ 0 <= d_size d /\ (fmt = 5 \/ d_size d <= NC_MAX_INT) /\
  d_size d <= NC_MAX_INT64.

Definition var_ok (fmt : Z) (v : var) : Prop :=
  Zlen (v_name v) <= NC_MAX_INT /\ Zlen (v_dimids v) <= NC_MAX_INT /\
  Forall (fun d => 0 <= d <= NC_MAX_INT) (v_dimids v) /\
  Zlen (v_atts v) <= NC_MAX_INT /\ Forall (att_ok fmt) (v_atts v) /\
  valid_type fmt (v_type v) = true /\ 0 <= v_begin v < 4294967296.

Definition hdr_ok (h : hdr) : Prop :=
  fmt_valid (h_format h) = true /\ 0 <= h_numrecs h <= NC_MAX_INT /\
  Zlen (h_dims h) <= NC_MAX_INT /\ Forall (dim_ok (h_format h)) (h_dims h) /\
  Zlen (h_gatts h) <= NC_MAX_INT /\ Forall (att_ok (h_format h)) (h_gatts h) /\
  Zlen (h_vars h) <= NC_MAX_INT /\ Forall (var_ok (h_format h)) (h_vars h).

Lemma fmt_valid_cases : forall fmt, fmt_valid fmt = true -> fmt = 1 \/ fmt = 2 \/ fmt = 5.
Proof. unfold fmt_valid. intros. lia. Qed.

Lemma att_ok_wf : forall fmt a, fmt_valid fmt = true -> att_ok fmt a -> wf_att fmt a = true.
Proof.
  intros fmt a Hf (H1 & H2 & H3 & H4). unfold wf_att, wf_name, nn_ok. rewrite H2.
  pose proof (Zlen_nonneg _ (a_name a)). unfold NC_MAX_INT in *.
  destruct (fmt <? 5); lia.
Qed.

Lemma dim_ok_wf : forall fmt d, fmt_valid fmt = true -> dim_ok fmt d -> wf_dim fmt d = true.
Proof.
  intros fmt d Hf (H1 & H2 & H3 & H4). unfold wf_dim, wf_name, nn_ok.
  pose proof (Zlen_nonneg _ (d_name d)). apply fmt_valid_cases in Hf.
  unfold NC_MAX_INT, NC_MAX_INT64 in *. destruct (fmt <? 5) eqn:E; lia.
Qed.

Lemma var_ok_wf : forall fmt v, fmt_valid fmt = true -> var_ok fmt v -> wf_var fmt v = true.
Proof.
  intros fmt v Hf (H1 & H2 & H3 & H4 & H5 & H6 & H7). unfold wf_var, wf_name.
  pose proof (Zlen_nonneg _ (v_name v)). pose proof (Zlen_nonneg _ (v_dimids v)).
  pose proof (Zlen_nonneg _ (v_atts v)).
  assert (Hnn : forall x, 0 <= x <= NC_MAX_INT -> nn_ok fmt x = true).
  { intros x Hx. unfold nn_ok, NC_MAX_INT in *. destruct (fmt <? 5); lia. }
  rewrite !Hnn by lia. rewrite H6. simpl.
  assert (Hd : forallb (nn_ok fmt) (v_dimids v) = true).
  { apply Forall_forallb. eapply Forall_impl; [|exact H3]. intros; apply Hnn; assumption. }
  assert (Ha : forallb (wf_att fmt) (v_atts v) = true).
  { apply Forall_forallb. eapply Forall_impl; [|exact H5]. intros; apply att_ok_wf; assumption. }
  rewrite Hd, Ha. simpl. unfold off_ok. destruct (fmt =? 1); lia.
Qed.

Theorem hdr_ok_wf : forall h, hdr_ok h -> wf_hdr h = true.
Proof.
  intros h (Hf & Hn & H1 & H2 & H3 & H4 & H5 & H6). unfold wf_hdr.
  pose proof (Zlen_nonneg _ (h_dims h)). pose proof (Zlen_nonneg _ (h_gatts h)).
  pose proof (Zlen_nonneg _ (h_vars h)).
  assert (Hnn : forall x, 0 <= x <= NC_MAX_INT -> nn_ok (h_format h) x = true).
  { intros x Hx. unfold nn_ok, NC_MAX_INT in *. destruct (h_format h <? 5); lia. }
  assert (Hff : fmt_ok (h_format h) = true) by (unfold fmt_ok, fmt_valid in *; assumption).
  rewrite Hff, !Hnn by lia. simpl.
  rewrite (Forall_forallb _ (wf_dim (h_format h)) (h_dims h))
    by (eapply Forall_impl; [|exact H2]; intros; apply dim_ok_wf; assumption).
  rewrite (Forall_forallb _ (wf_att (h_format h)) (h_gatts h))
    by (eapply Forall_impl; [|exact H4]; intros; apply att_ok_wf; assumption).
  rewrite (Forall_forallb _ (wf_var (h_format h)) (h_vars h))
    by (eapply Forall_impl; [|exact H6]; intros; apply var_ok_wf; assumption).
  reflexivity.
Qed.

Lemma hdr_content_norm : forall h, hdr_content h = norm_hdr h.
Proof. reflexivity. Qed.

Lemma norm_hdr_ok : forall h, hdr_ok h -> hdr_ok (norm_hdr h).
Proof.
  intros h (Hf & Hn & H1 & H2 & H3 & H4 & H5 & H6). unfold hdr_ok, norm_hdr. simpl.
  rewrite Zlen_map. repeat (split; [assumption|]). rewrite Forall_map.
  eapply Forall_impl; [|exact H6]. intros v Hv. exact Hv.
Qed.

(* ---------- list-level preservation ---------- *)
Lemma Zlen_set_nth : forall A i (l : list A) x, Zlen (set_nth i l x) = Zlen l.
Proof. intros. unfold Zlen. rewrite set_nth_length. reflexivity. Qed.

Lemma Zlen_del_nth_le : forall A i (l : list A), Zlen (del_nth i l) <= Zlen l.
Proof.
  intros A i l. unfold Zlen. revert i. induction l as [|a l IH]; intro i; simpl; [destruct i; simpl; lia|].
  destruct i; simpl; [lia|]. specialize (IH i). lia.
Qed.

Lemma Forall_del_nth : forall A (P : A -> Prop) i l, Forall P l -> Forall P (del_nth i l).
Proof.
  intros A P i l. revert i. induction l as [|a l IH]; intros i Hf; simpl; [destruct i; constructor|].
  inversion Hf; subst. destruct i; [assumption|]. constructor; auto.
Qed.

Lemma Forall_nth_d : forall A (P : A -> Prop) l i d, Forall P l -> P d -> P (nth i l d).
Proof.
  intros A P l. induction l as [|a l IH]; intros i d Hf Hd; destruct i; simpl; auto; inversion Hf; auto.
Qed.

Lemma s_attr_put_ok : forall fmt indef l nn t n data,
  Zlen l <= NC_MAX_INT -> Forall (att_ok fmt) l ->
  Zlen nn <= NC_MAX_INT -> valid_type fmt t = true -> 0 <= n <= NC_MAX_INT ->
  Zlen data = n * xlen_type t ->
  Zlen (fst (s_attr_put indef l nn t n data)) <= NC_MAX_INT /\
  Forall (att_ok fmt) (fst (s_attr_put indef l nn t n data)).
Proof.
  intros fmt indef l nn t n data Hl Hf Hn Ht Hne Hd. unfold s_attr_put.
  destruct (find_name nn (map a_name l)) as [i|] eqn:F.
  - destruct (find_name_att _ _ _ F) as (a & Ha & Hna & Hda). rewrite Hda.
    destruct (negb indef && (x_len_attrV t n >? att_xsz a)); simpl; [auto|].
    rewrite Zlen_set_nth. split; [assumption|]. apply Forall_set_nth; [assumption|].
    pose proof (Forall_nth_error _ _ _ _ _ Hf Ha) as (Hn1 & _).
    split; [exact Hn1|]. simpl. auto.
  - destruct (negb indef); simpl; [auto|].
    destruct (Zlen l =? NC_MAX_INT) eqn:E; simpl; [auto|].
    rewrite Zlen_snoc. split; [lia|].
    apply Forall_app. split; [assumption|]. constructor; [|constructor]. split; simpl; auto.
Qed.

Lemma s_attr_rename_ok : forall fmt indef l nn nnew,
  Zlen l <= NC_MAX_INT -> Forall (att_ok fmt) l -> Zlen nnew <= NC_MAX_INT ->
  Zlen (fst (s_attr_rename indef l nn nnew)) <= NC_MAX_INT /\
  Forall (att_ok fmt) (fst (s_attr_rename indef l nn nnew)).
Proof.
  intros fmt indef l nn nnew Hl Hf Hn. unfold s_attr_rename.
  destruct (find_name nn (map a_name l)) as [i|] eqn:F; simpl; [|auto].
  destruct (find_name nnew (map a_name l)); simpl; [auto|].
  destruct (find_name_att _ _ _ F) as (a & Ha & Hna & Hda). rewrite Hda.
  destruct (negb indef && (Zlen (a_name a) <? Zlen nnew)); simpl; [auto|].
  rewrite Zlen_set_nth. split; [assumption|]. apply Forall_set_nth; [assumption|].
  pose proof (Forall_nth_error _ _ _ _ _ Hf Ha) as (_ & H2 & H3 & H4).
  split; simpl; auto.
Qed.

Lemma s_attr_del_ok : forall fmt l nn,
  Zlen l <= NC_MAX_INT -> Forall (att_ok fmt) l ->
  Zlen (fst (s_attr_del l nn)) <= NC_MAX_INT /\ Forall (att_ok fmt) (fst (s_attr_del l nn)).
Proof.
  intros fmt l nn Hl Hf. unfold s_attr_del.
  destruct (find_name nn (map a_name l)); simpl; [|auto].
  split; [pose proof (Zlen_del_nth_le _ n l); lia | apply Forall_del_nth; assumption].
Qed.

Lemma get_sa_ok : forall h v l, hdr_ok h -> get_sa h v = Some l ->
  Zlen l <= NC_MAX_INT /\ Forall (att_ok (h_format h)) l.
Proof.
  intros h v l (Hf & Hn & H1 & H2 & H3 & H4 & H5 & H6) H. unfold get_sa in H.
  destruct (v =? -1); [inversion H; subst; auto|].
  destruct ((0 <=? v) && (v <? Zlen (h_vars h))); [|discriminate].
  destruct (nth_error (h_vars h) (Z.to_nat v)) as [x|] eqn:E; [|discriminate].
  simpl in H. inversion H; subst.
  destruct (Forall_nth_error _ _ _ _ _ H6 E) as (_ & _ & _ & Ha & Hb & _). auto.
Qed.

Lemma set_sa_ok : forall h v l0 l, hdr_ok h -> get_sa h v = Some l0 ->
  Zlen l <= NC_MAX_INT -> Forall (att_ok (h_format h)) l -> hdr_ok (set_sa h v l).
Proof.
  intros h v l0 l (Hf & Hn & H1 & H2 & H3 & H4 & H5 & H6) H Hl Hfa. unfold get_sa in H. unfold set_sa.
  destruct (v =? -1). { unfold hdr_ok. simpl. tauto. }
  destruct ((0 <=? v) && (v <? Zlen (h_vars h))); [|discriminate].
  destruct (nth_error (h_vars h) (Z.to_nat v)) as [x|] eqn:E; [|discriminate].
  rewrite (nth_error_nth_d _ _ _ _ dflt_var E).
  unfold hdr_ok. simpl. rewrite Zlen_set_nth.
  repeat (split; [assumption|]). apply Forall_set_nth; [assumption|].
  destruct (Forall_nth_error _ _ _ _ _ H6 E) as (A1 & A2 & A3 & A4 & A5 & A6 & A7).
  unfold var_ok. simpl. tauto.
Qed.

(* ---------- attribute value bytes have the length the format prescribes ---------- *)
Lemma Zlen_be_bytes : forall n x, Zlen (be_bytes n x) = Z.of_nat n.
Proof.
  induction n; intro x; simpl; [reflexivity|]. rewrite Zlen_app, IHn. unfold Zlen. simpl. lia.
Qed.

Lemma xlen_type_nonneg : forall t, 0 <= xlen_type t.
Proof.
  intro t. unfold xlen_type.
  destruct ((t =? 1) || (t =? 2) || (t =? 7)); [lia|].
  destruct ((t =? 3) || (t =? 8)); [lia|].
  destruct ((t =? 4) || (t =? 5) || (t =? 9)); [lia|].
  destruct ((t =? 6) || (t =? 10) || (t =? 11)); lia.
Qed.

Lemma Zlen_enc_value : forall t v, Zlen (enc_value t v) = xlen_type t.
Proof.
  intros t v. unfold enc_value. pose proof (xlen_type_nonneg t).
  destruct (is_float_type t); rewrite Zlen_be_bytes; lia.
Qed.

Lemma Zlen_fill_bytes : forall t, Zlen (fill_bytes t) = xlen_type t.
Proof. intro t. unfold fill_bytes. pose proof (xlen_type_nonneg t). rewrite Zlen_be_bytes. lia. Qed.

Lemma Zlen_flat_map_const : forall A (f : A -> list byte) k l,
  (forall x, Zlen (f x) = k) -> Zlen (flat_map f l) = Zlen l * k.
Proof.
  intros A f k l H. induction l as [|a l IH]; simpl; [reflexivity|].
  rewrite Zlen_app, IH, H, Zlen_cons. lia.
Qed.

Lemma att_put_value_len : forall t vals, Zlen (fst (att_put_value t vals)) = Zlen vals * xlen_type t.
Proof.
  intros t vals. unfold att_put_value.
  destruct (t =? 2) eqn:E2.
  { apply Z.eqb_eq in E2. subst. simpl. rewrite Zlen_map. change (xlen_type 2) with 1. lia. }
  destruct (is_float_type t); simpl.
  { apply Zlen_flat_map_const. intro; apply Zlen_enc_value. }
  destruct (t =? 11) eqn:E11; simpl.
  { apply Z.eqb_eq in E11. subst. apply Zlen_flat_map_const. intro; apply Zlen_enc_value. }
  apply Zlen_flat_map_const. intro v.
  destruct ((type_min t <=? v) && (v <=? type_max t)); [apply Zlen_enc_value | apply Zlen_fill_bytes].
Qed.

(* ---------- arguments that fit their C types ---------- *)
Definition op_repr (o : op) : Prop :=
  match o with
  | OCreate _ _ a b c d => hint_ok a /\ hint_ok b /\ hint_ok c /\ hint_ok d
  | OOpen _ _ a b c d => hint_ok a /\ hint_ok b /\ hint_ok c /\ hint_ok d
  | ODefDim _ _ size => size <= NC_MAX_INT64
  | ODefVar _ _ _ dimids => Zlen dimids <= NC_MAX_INT
  | OPutAtt _ _ _ _ vals => Zlen vals <= NC_MAX_INT
  | OEnddef _ bl => Forall (fun b => 0 <= b < 4294967296) bl
  | OClose _ bl => Forall (fun b => 0 <= b < 4294967296) bl
  | _ => True
  end.

Lemma name_pre_len : forall nm, name_pre nm = NC_NOERR -> Zlen nm <= NC_MAX_NAME.
Proof.
  intros nm H. unfold name_pre in H. destruct nm as [|c nm]; [discriminate|].
  destruct (Zlen (c :: nm) >? NC_MAX_NAME) eqn:E; [discriminate | lia].
Qed.

Lemma def_dim_pre_ok : forall fmt indef dims nm size, def_dim_pre fmt indef dims nm size = NC_NOERR ->
  name_pre nm = NC_NOERR /\ 0 <= size /\ (fmt = 5 \/ size <= NC_MAX_INT) /\ Zlen dims <> NC_MAX_INT.
Proof.
  intros until size. unfold def_dim_pre. intro H. pre_split H.
  all: repeat split; try lia.
Qed.

Lemma def_var_pre_ok : forall fmt indef nv nm t, fmt_valid fmt = true ->
  def_var_pre fmt indef nv nm t = NC_NOERR ->
  name_pre nm = NC_NOERR /\ valid_type fmt t = true /\ nv <> NC_MAX_INT.
Proof.
  intros until t. intro Hf. unfold def_var_pre. intro H. pre_split H.
  all: apply fmt_valid_cases in Hf; unfold valid_type; repeat split; try lia.
  all: destruct (fmt =? 5) eqn:Efive; lia.
Qed.

Lemma def_var_post_ok : forall dims t dimids, Zlen dims <= NC_MAX_INT ->
  def_var_post dims t dimids = NC_NOERR -> Forall (fun d => 0 <= d <= NC_MAX_INT) dimids.
Proof.
  intros dims t dimids Hl. unfold def_var_post. intro H.
  destruct (existsb (fun d => (d <? 0) || (d >=? Zlen dims)) dimids) eqn:E; [discriminate|].
  apply Forall_forall. intros d Hd.
  assert (Hx : ((d <? 0) || (d >=? Zlen dims)) = false).
  { destruct ((d <? 0) || (d >=? Zlen dims)) eqn:E2; [|reflexivity].
    assert (existsb (fun d => (d <? 0) || (d >=? Zlen dims)) dimids = true)
      by (apply existsb_exists; exists d; auto). congruence. }
  lia.
Qed.

Lemma put_att_pre_type : forall fmt rd nv v nm t n, fmt_valid fmt = true ->
  put_att_pre fmt rd nv v nm t n = NC_NOERR ->
  name_pre nm = NC_NOERR /\ valid_type fmt t = true /\ 0 <= n.
Proof.
  intros until n. intro Hf. unfold put_att_pre. intro H. pre_split H.
  all: apply fmt_valid_cases in Hf; unfold valid_type; repeat split; try lia.
  all: destruct (fmt =? 5) eqn:Efive; lia.
Qed.

Lemma rename_att_pre_name : forall rd nv v nm nnm, rename_att_pre rd nv v nm nnm = NC_NOERR ->
  name_pre nnm = NC_NOERR.
Proof. intros until nnm. unfold rename_att_pre. intro H. pre_split H. Qed.

Lemma rename_dim_pre_name : forall rd nd id nm, rename_dim_pre rd nd id nm = NC_NOERR -> name_pre nm = NC_NOERR.
Proof. intros until nm. unfold rename_dim_pre. intro H. pre_split H. Qed.

Lemma rename_var_pre_name : forall rd nv id nm, rename_var_pre rd nv id nm = NC_NOERR -> name_pre nm = NC_NOERR.
Proof. intros until nm. unfold rename_var_pre. intro H. pre_split H. Qed.

Lemma nfc_ok : forall nm, name_pre nm = NC_NOERR -> Zlen (nfc nm) <= NC_MAX_INT.
Proof. intros nm H. apply nfc_len, name_pre_len. assumption. Qed.

(* ---------- every operation of the linear model keeps the header representable ---------- *)
Notation shdr r := (sf_hdr (fst (fst r))).

Lemma s_def_dim_ok : forall f nm size, hdr_ok (sf_hdr f) -> size <= NC_MAX_INT64 ->
  hdr_ok (shdr (s_def_dim nfc f nm size)).
Proof.
  intros f nm size Hok Hsz. unfold s_def_dim.
  destruct (negb (def_dim_pre (h_format (sf_hdr f)) (sf_indef f) (h_dims (sf_hdr f)) nm size =? NC_NOERR)) eqn:E;
    [exact Hok|].
  apply negb_eqb_false, def_dim_pre_ok in E. destruct E as (E1 & E2 & E3 & E4).
  destruct (find_name (nfc nm) (map d_name (h_dims (sf_hdr f)))); [exact Hok|].
  destruct Hok as (Hf & Hn & H1 & H2 & H3 & H4 & H5 & H6). unfold hdr_ok. simpl.
  rewrite Zlen_snoc.
  split; [assumption|]. split; [assumption|]. split; [lia|]. split; [|tauto].
  apply Forall_app. split; [assumption|]. constructor; [|constructor].
  split; simpl; [apply nfc_ok; assumption | tauto].
Qed.

Lemma s_def_var_ok : forall f nm t dimids, hdr_ok (sf_hdr f) -> Zlen dimids <= NC_MAX_INT ->
  hdr_ok (shdr (s_def_var nfc f nm t dimids)).
Proof.
  intros f nm t dimids Hok Hsz. unfold s_def_var.
  destruct (negb (def_var_pre (h_format (sf_hdr f)) (sf_indef f) (Zlen (h_vars (sf_hdr f))) nm t =? NC_NOERR)) eqn:E;
    [exact Hok|].
  pose proof Hok as (Hf & Hn & H1 & H2 & H3 & H4 & H5 & H6).
  apply negb_eqb_false, (def_var_pre_ok _ _ _ _ _ Hf) in E. destruct E as (E1 & E2 & E3).
  destruct (find_name (nfc nm) (map v_name (h_vars (sf_hdr f)))); [exact Hok|].
  destruct (negb (def_var_post (h_dims (sf_hdr f)) t dimids =? NC_NOERR)) eqn:E4; [exact Hok|].
  apply negb_eqb_false, (def_var_post_ok _ _ _ H1) in E4.
  unfold hdr_ok. simpl. rewrite Zlen_snoc.
  repeat (split; [assumption|]). split; [lia|].
  apply Forall_app. split; [assumption|]. constructor; [|constructor].
  unfold var_ok. simpl. split; [apply nfc_ok; assumption|]. split; [assumption|]. split; [assumption|].
  split; [unfold Zlen, NC_MAX_INT; simpl; lia|]. split; [constructor|]. split; [assumption | lia].
Qed.

Lemma s_put_att_ok : forall f v nm t vals, hdr_ok (sf_hdr f) -> Zlen vals <= NC_MAX_INT ->
  hdr_ok (shdr (s_put_att nfc f v nm t vals)).
Proof.
  intros f v nm t vals Hok Hsz. unfold s_put_att.
  destruct (negb (put_att_pre (h_format (sf_hdr f)) (sf_rdonly f) (Zlen (h_vars (sf_hdr f))) v nm t (Zlen vals)
                  =? NC_NOERR)) eqn:E; [exact Hok|].
  pose proof Hok as (Hf & _).
  apply negb_eqb_false, (put_att_pre_type _ _ _ _ _ _ _ Hf) in E. destruct E as (E1 & E2 & E3).
  destruct (negb (fillvalue_rule v nm t (Zlen vals) (v_type (nth (Z.to_nat v) (h_vars (sf_hdr f)) dflt_var))
                    (sf_old_nvars f) =? NC_NOERR)); [exact Hok|].
  destruct (get_sa (sf_hdr f) v) as [l|] eqn:G; [|exact Hok].
  pose proof (att_put_value_len t vals) as Hlen.
  destruct (att_put_value t vals) as [data ce]. simpl in Hlen.
  destruct (get_sa_ok _ _ _ Hok G) as [Hl Hfa].
  destruct (s_attr_put_ok (h_format (sf_hdr f)) (sf_indef f) l (nfc nm) t (Zlen vals) data Hl Hfa
              (nfc_ok _ E1) E2 (conj E3 Hsz) Hlen) as [A B].
  destruct (s_attr_put (sf_indef f) l (nfc nm) t (Zlen vals) data) as [l' rc]. simpl in *.
  destruct (negb (rc =? NC_NOERR)); [exact Hok|]. simpl.
  eapply set_sa_ok; eauto.
Qed.

Lemma s_del_att_ok : forall f v nm, hdr_ok (sf_hdr f) -> hdr_ok (shdr (s_del_att nfc f v nm)).
Proof.
  intros f v nm Hok. unfold s_del_att.
  destruct (negb (del_att_pre (sf_rdonly f) (sf_indef f) (Zlen (h_vars (sf_hdr f))) v nm =? NC_NOERR)); [exact Hok|].
  destruct (get_sa (sf_hdr f) v) as [l|] eqn:G; [|exact Hok].
  destruct (get_sa_ok _ _ _ Hok G) as [Hl Hfa].
  destruct (s_attr_del_ok (h_format (sf_hdr f)) l (nfc nm) Hl Hfa) as [A B].
  destruct (s_attr_del l (nfc nm)) as [l' rc]. simpl in *.
  destruct (negb (rc =? NC_NOERR)); [exact Hok|]. simpl. eapply set_sa_ok; eauto.
Qed.

Lemma s_rename_att_ok : forall f v nm nnm, hdr_ok (sf_hdr f) -> hdr_ok (shdr (s_rename_att nfc f v nm nnm)).
Proof.
  intros f v nm nnm Hok. unfold s_rename_att.
  destruct (negb (rename_att_pre (sf_rdonly f) (Zlen (h_vars (sf_hdr f))) v nm nnm =? NC_NOERR)) eqn:E; [exact Hok|].
  apply negb_eqb_false, rename_att_pre_name in E.
  destruct (get_sa (sf_hdr f) v) as [l|] eqn:G; [|exact Hok].
  destruct (get_sa_ok _ _ _ Hok G) as [Hl Hfa].
  destruct (s_attr_rename_ok (h_format (sf_hdr f)) (sf_indef f) l (nfc nm) (nfc nnm) Hl Hfa (nfc_ok _ E)) as [A B].
  destruct (s_attr_rename (sf_indef f) l (nfc nm) (nfc nnm)) as [l' rc]. simpl in *.
  destruct (negb (rc =? NC_NOERR)); [exact Hok|]. simpl. eapply set_sa_ok; eauto.
Qed.

Lemma s_rename_dim_ok : forall f id nm, hdr_ok (sf_hdr f) -> hdr_ok (shdr (s_rename_dim nfc f id nm)).
Proof.
  intros f id nm Hok. unfold s_rename_dim.
  destruct (negb (rename_dim_pre (sf_rdonly f) (Zlen (h_dims (sf_hdr f))) id nm =? NC_NOERR)) eqn:E; [exact Hok|].
  apply negb_eqb_false in E. pose proof (rename_dim_pre_name _ _ _ _ E) as En.
  apply rename_dim_pre_ok in E.
  destruct (find_name (nfc nm) (map d_name (h_dims (sf_hdr f)))) as [j|].
  { destruct (Nat.eqb j (Z.to_nat id)); exact Hok. }
  destruct (nth_error_lt_some _ (h_dims (sf_hdr f)) (Z.to_nat id)) as [old Hold]; [apply nat_lt_Zlen; lia|].
  rewrite (nth_error_nth_d _ _ _ _ dflt_dim Hold).
  destruct (negb (sf_indef f) && (Zlen (d_name old) <? Zlen (nfc nm))); [exact Hok|].
  destruct Hok as (Hf & Hn & H1 & H2 & H3 & H4 & H5 & H6). unfold hdr_ok. simpl. rewrite Zlen_set_nth.
  split; [assumption|]. split; [assumption|]. split; [assumption|]. split; [|tauto].
  apply Forall_set_nth; [assumption|].
  destruct (Forall_nth_error _ _ _ _ _ H2 Hold) as (_ & B1 & B2 & B3).
  split; simpl; [apply nfc_ok; assumption | tauto].
Qed.

Lemma s_rename_var_ok : forall f id nm, hdr_ok (sf_hdr f) -> hdr_ok (shdr (s_rename_var nfc f id nm)).
Proof.
  intros f id nm Hok. unfold s_rename_var.
  destruct (negb (rename_var_pre (sf_rdonly f) (Zlen (h_vars (sf_hdr f))) id nm =? NC_NOERR)) eqn:E; [exact Hok|].
  apply negb_eqb_false in E. pose proof (rename_var_pre_name _ _ _ _ E) as En.
  apply rename_var_pre_ok in E.
  destruct (find_name (nfc nm) (map v_name (h_vars (sf_hdr f)))) as [j|]; [exact Hok|].
  destruct (nth_error_lt_some _ (h_vars (sf_hdr f)) (Z.to_nat id)) as [old Hold]; [apply nat_lt_Zlen; lia|].
  rewrite (nth_error_nth_d _ _ _ _ dflt_var Hold).
  destruct (negb (sf_indef f) && (Zlen (v_name old) <? Zlen (nfc nm))); [exact Hok|].
  destruct Hok as (Hf & Hn & H1 & H2 & H3 & H4 & H5 & H6). unfold hdr_ok. simpl. rewrite Zlen_set_nth.
  repeat (split; [assumption|]).
  apply Forall_set_nth; [assumption|].
  destruct (Forall_nth_error _ _ _ _ _ H6 Hold) as (_ & B1 & B2 & B3 & B4 & B5 & B6).
  unfold var_ok. simpl. split; [apply nfc_ok; assumption | tauto].
Qed.

(* copy_att: the attribute comes from another header; its type must be legal in the destination format
   (the check added by repair 549716e0) *)
Lemma s_copy_write_ok : forall f v nm a self, hdr_ok (sf_hdr f) -> name_pre nm = NC_NOERR ->
  valid_type (h_format (sf_hdr f)) (a_type a) = true -> 0 <= a_nelems a <= NC_MAX_INT ->
  Zlen (a_data a) = a_nelems a * xlen_type (a_type a) ->
  hdr_ok (shdr (s_copy_write nfc f v nm a self)).
Proof.
  intros f v nm a self Hok En Ht Hn Hd. unfold s_copy_write.
  destruct (get_sa (sf_hdr f) v) as [l|] eqn:G; [|exact Hok].
  destruct self; [exact Hok|].
  destruct (get_sa_ok _ _ _ Hok G) as [Hl Hfa].
  destruct (s_attr_put_ok (h_format (sf_hdr f)) (sf_indef f) l (nfc nm) (a_type a) (a_nelems a) (a_data a)
              Hl Hfa (nfc_ok _ En) Ht Hn Hd) as [A B].
  destruct (s_attr_put (sf_indef f) l (nfc nm) (a_type a) (a_nelems a) (a_data a)) as [l' rc]. simpl in *.
  destruct (negb (rc =? NC_NOERR)); [exact Hok|]. simpl. eapply set_sa_ok; eauto.
Qed.

Lemma s_apply_begins_ok : forall fmt vs bl, Forall (var_ok fmt) vs ->
  Forall (fun b => 0 <= b < 4294967296) bl -> Forall (var_ok fmt) (s_apply_begins vs bl).
Proof.
  induction vs as [|v vs IH]; intros bl Hv Hb; simpl; [constructor|].
  inversion Hv; subst. destruct bl as [|b bl].
  - constructor; [assumption|]. apply IH; [assumption | constructor].
  - inversion Hb; subst. constructor; [|apply IH; assumption].
    unfold var_ok in *. simpl. tauto.
Qed.

Lemma Zlen_s_apply_begins : forall vs bl, Zlen (s_apply_begins vs bl) = Zlen vs.
Proof.
  induction vs as [|v vs IH]; intro bl; simpl; [reflexivity|].
  destruct bl; rewrite !Zlen_cons, IH; reflexivity.
Qed.

Lemma s_enddef_ok : forall f bl, hdr_ok (sf_hdr f) -> Forall (fun b => 0 <= b < 4294967296) bl ->
  hdr_ok (shdr (s_enddef f bl)).
Proof.
  intros f bl Hok Hb. unfold s_enddef.
  destruct (negb (sf_indef f)); [exact Hok|].
  destruct (negb (check_vlens (sf_hdr f) =? NC_NOERR)); [exact Hok|].
  destruct Hok as (Hf & Hn & H1 & H2 & H3 & H4 & H5 & H6). unfold hdr_ok. simpl.
  rewrite Zlen_s_apply_begins. repeat (split; [assumption|]).
  apply s_apply_begins_ok; assumption.
Qed.

End WellFormed.

(* ================================================================== *)
(** * Part 4: worlds (file slots with their disk image) and histories *)

(* write discipline of the linear model: a step either rewrites the header on disk, or happens in
   define mode, or leaves header and mode alone *)
Definition sdisc (sf sf' : sfile) (w : bool) : Prop :=
  w = true \/
  (sf_indef sf' = true /\ (sf_indef sf = true \/ sf_hdr sf' = sf_hdr sf)) \/
  (sf_hdr sf' = sf_hdr sf /\ sf_indef sf' = sf_indef sf).

Notation sdisc_of f r := (sdisc f (fst (fst r)) (snd r)).

Lemma sdisc_same : forall f (o : list Z), sdisc_of f (sret f o).
Proof. intros. right. right. auto. Qed.

Lemma sdisc_upd : forall f h (o : list Z), sdisc_of f (set_hdr f h, o, negb (sf_indef f)).
Proof.
  intros. unfold sdisc. simpl. destruct (sf_indef f); simpl; auto.
Qed.

Section WorldSteps.
Variable nfc : list byte -> list byte.

Lemma def_dim_pre_indef : forall fmt indef dims nm size, def_dim_pre fmt indef dims nm size = NC_NOERR -> indef = true.
Proof. intros until size. unfold def_dim_pre. destruct indef; [reflexivity|]. simpl. discriminate. Qed.

Lemma def_var_pre_indef : forall fmt indef nv nm t, def_var_pre fmt indef nv nm t = NC_NOERR -> indef = true.
Proof. intros until t. unfold def_var_pre. destruct indef; [reflexivity|]. simpl. discriminate. Qed.

Lemma del_att_pre_indef : forall rd indef nv v nm, del_att_pre rd indef nv v nm = NC_NOERR -> indef = true.
Proof.
  intros until nm. unfold del_att_pre. destruct rd; [discriminate|]. destruct indef; [reflexivity|]. simpl. discriminate.
Qed.

Lemma sdisc_def : forall f h (o : list Z), sf_indef f = true -> sdisc_of f (sret (set_hdr f h) o).
Proof. intros. right. left. simpl. auto. Qed.

Lemma s_def_dim_disc : forall f nm size, sdisc_of f (s_def_dim nfc f nm size).
Proof.
  intros. unfold s_def_dim.
  destruct (negb (def_dim_pre _ _ _ nm size =? NC_NOERR)) eqn:E; [apply sdisc_same|].
  apply negb_eqb_false, def_dim_pre_indef in E.
  destruct (find_name _ _); [apply sdisc_same | apply sdisc_def; assumption].
Qed.

Lemma s_def_var_disc : forall f nm t dimids, sdisc_of f (s_def_var nfc f nm t dimids).
Proof.
  intros. unfold s_def_var.
  destruct (negb (def_var_pre _ _ _ nm t =? NC_NOERR)) eqn:E; [apply sdisc_same|].
  apply negb_eqb_false, def_var_pre_indef in E.
  destruct (find_name _ _); [apply sdisc_same|].
  destruct (negb (def_var_post _ t dimids =? NC_NOERR)); [apply sdisc_same | apply sdisc_def; assumption].
Qed.

Lemma s_put_att_disc : forall f v nm t vals, sdisc_of f (s_put_att nfc f v nm t vals).
Proof.
  intros. unfold s_put_att.
  destruct (negb (put_att_pre _ _ _ v nm t _ =? NC_NOERR)); [apply sdisc_same|].
  destruct (negb (fillvalue_rule _ _ _ _ _ _ =? NC_NOERR)); [apply sdisc_same|].
  destruct (get_sa _ _); [|apply sdisc_same].
  destruct (att_put_value t vals). destruct (s_attr_put _ _ _ _ _ _) as [l' rc].
  destruct (negb (rc =? NC_NOERR)); [apply sdisc_same | apply sdisc_upd].
Qed.

Lemma s_del_att_disc : forall f v nm, sdisc_of f (s_del_att nfc f v nm).
Proof.
  intros. unfold s_del_att.
  destruct (negb (del_att_pre _ _ _ v nm =? NC_NOERR)) eqn:E; [apply sdisc_same|].
  apply negb_eqb_false, del_att_pre_indef in E.
  destruct (get_sa _ _); [|apply sdisc_same].
  destruct (s_attr_del _ _) as [l' rc].
  destruct (negb (rc =? NC_NOERR)); [apply sdisc_same | apply sdisc_def; assumption].
Qed.

Lemma s_rename_att_disc : forall f v nm nnm, sdisc_of f (s_rename_att nfc f v nm nnm).
Proof.
  intros. unfold s_rename_att.
  destruct (negb (rename_att_pre _ _ _ nm nnm =? NC_NOERR)); [apply sdisc_same|].
  destruct (get_sa _ _); [|apply sdisc_same].
  destruct (s_attr_rename _ _ _ _) as [l' rc].
  destruct (negb (rc =? NC_NOERR)); [apply sdisc_same | apply sdisc_upd].
Qed.

Lemma s_rename_dim_disc : forall f id nm, sdisc_of f (s_rename_dim nfc f id nm).
Proof.
  intros. unfold s_rename_dim.
  destruct (negb (rename_dim_pre _ _ id nm =? NC_NOERR)); [apply sdisc_same|].
  destruct (find_name _ _) as [j|]. { destruct (Nat.eqb j (Z.to_nat id)); apply sdisc_same. }
  destruct (negb (sf_indef f) && _); [apply sdisc_same | apply sdisc_upd].
Qed.

Lemma s_rename_var_disc : forall f id nm, sdisc_of f (s_rename_var nfc f id nm).
Proof.
  intros. unfold s_rename_var.
  destruct (negb (rename_var_pre _ _ id nm =? NC_NOERR)); [apply sdisc_same|].
  destruct (find_name _ _) as [j|]; [apply sdisc_same|].
  destruct (negb (sf_indef f) && _); [apply sdisc_same | apply sdisc_upd].
Qed.

Lemma s_copy_write_disc : forall f v nm a self, sdisc_of f (s_copy_write nfc f v nm a self).
Proof.
  intros. unfold s_copy_write.
  destruct (get_sa _ _); [|apply sdisc_same]. destruct self; [apply sdisc_same|].
  destruct (s_attr_put _ _ _ _ _ _) as [l' rc].
  destruct (negb (rc =? NC_NOERR)); [apply sdisc_same | apply sdisc_upd].
Qed.

Lemma s_redef_disc : forall f, sdisc_of f (s_redef f).
Proof.
  intros. unfold s_redef. destruct (sf_rdonly f); [apply sdisc_same|].
  destruct (sf_indef f); [apply sdisc_same|]. right. left. simpl. auto.
Qed.

Lemma s_enddef_disc : forall f bl, sdisc_of f (s_enddef f bl).
Proof.
  intros. unfold s_enddef. destruct (negb (sf_indef f)); [apply sdisc_same|].
  destruct (negb (check_vlens _ =? NC_NOERR)); [apply sdisc_same|]. left. reflexivity.
Qed.

End WorldSteps.

Section Histories.
Variable hashf : list byte -> Z -> Z.
Variable nfc : list byte -> list byte.
Hypothesis hash_range : forall nm hs, hs_ok hs -> 0 <= hashf nm hs < hs.
Hypothesis nfc_len : forall nm, Zlen nm <= NC_MAX_NAME -> Zlen (nfc nm) <= NC_MAX_INT.

Notation finv := (file_inv hashf).

Definition good_hdr (h : hdr) : Prop := hdr_ok h /\ hdr_nodup h.

(* a file on disk: absent, just created (empty), or starting with the encoding of a good header *)
Definition disk_ok (d : option (list byte)) : Prop :=
  d = None \/ d = Some [] \/
  exists h rest, good_hdr h /\ d = Some (encode_header h ++ rest).

(* invariant of a slot; the last clause is "a data-mode file has its current header on disk" *)
Definition slot_inv (sl : cslot) : Prop :=
  match cs_file sl with
  | None => disk_ok (cs_disk sl)
  | Some f => finv f /\ hdr_ok (cf_hdr f) /\
              (if cf_indef f then disk_ok (cs_disk sl)
               else exists rest, cs_disk sl = Some (encode_header (cf_hdr f) ++ rest))
  end.

Definition world_inv (w : cworld) : Prop := Forall slot_inv w.

Lemma slot_get_abs : forall w s, slot_get (abs_world w) s = option_map abs_slot (slot_get w s).
Proof.
  intros w s. unfold slot_get, abs_world. destruct (s <? 0); [reflexivity|].
  rewrite nth_error_map. reflexivity.
Qed.

Lemma slot_get_inv : forall w s sl, world_inv w -> slot_get w s = Some sl -> slot_inv sl.
Proof.
  intros w s sl Hw H. unfold slot_get in H. destruct (s <? 0); [discriminate|].
  eapply Forall_nth_error; eauto.
Qed.

Lemma abs_world_set : forall w i sl, abs_world (set_nth i w sl) = set_nth i (abs_world w) (abs_slot sl).
Proof. intros. unfold abs_world. apply map_set_nth. Qed.

Lemma world_inv_set : forall w i sl, world_inv w -> slot_inv sl -> world_inv (set_nth i w sl).
Proof. intros. apply Forall_set_nth; assumption. Qed.

Definition good_step (f : cfile) (gc : cfile -> cres) (gs : sfile -> sres) : Prop :=
  fref hashf (gc f) (gs (abs_file f)) /\
  hdr_ok (sf_hdr (fst (fst (gs (abs_file f))))) /\
  sdisc (abs_file f) (fst (fst (gs (abs_file f)))) (snd (gs (abs_file f))).

Lemma disk_after : forall f f' (disk : option (list byte)) wrote,
  finv f' -> hdr_ok (cf_hdr f') ->
  sdisc (abs_file f) (abs_file f') wrote ->
  (if cf_indef f then disk_ok disk else exists rest, disk = Some (encode_header (cf_hdr f) ++ rest)) ->
  hdr_ok (cf_hdr f) -> finv f ->
  (if cf_indef f' then disk_ok (if wrote then wr_hdr disk (cf_hdr f') else disk)
   else exists rest, (if wrote then wr_hdr disk (cf_hdr f') else disk) = Some (encode_header (cf_hdr f') ++ rest)).
Proof.
  intros f f' disk wrote Hi' Hok' Hd Hdisk Hok Hi.
  assert (Hg' : good_hdr (cf_hdr f')) by (split; [assumption | apply (file_inv_nodup hashf); assumption]).
  assert (Hg : good_hdr (cf_hdr f)) by (split; [assumption | apply (file_inv_nodup hashf); assumption]).
  unfold sdisc in Hd. simpl in Hd.
  destruct wrote.
  - unfold wr_hdr. destruct (cf_indef f'); [right; right|]; eauto.
  - destruct Hd as [Hd|[[Hd1 Hd2]|[Hd1 Hd2]]]; [discriminate| |].
    + rewrite Hd1. destruct Hd2 as [Hd2|Hd2].
      * rewrite Hd2 in Hdisk. assumption.
      * destruct (cf_indef f); [assumption|]. destruct Hdisk as [rest Hr].
        right. right. exists (cf_hdr f'), rest. rewrite Hd2. auto.
    + rewrite Hd2, Hd1. assumption.
Qed.

Lemma on_file_step : forall w s gc gs, world_inv w ->
  (forall sl f, slot_get w s = Some sl -> cs_file sl = Some f -> finv f -> hdr_ok (cf_hdr f) -> good_step f gc gs) ->
  exists w' ob, c_on_file w s gc = Some (w', ob) /\
                s_on_file (abs_world w) s gs = (abs_world w', ob) /\ world_inv w'.
Proof.
  intros w s gc gs Hw Hg. unfold c_on_file, s_on_file. rewrite slot_get_abs.
  destruct (slot_get w s) as [sl|] eqn:Hs; simpl; [|eauto].
  pose proof (slot_get_inv _ _ _ Hw Hs) as Hsl. unfold slot_inv in Hsl.
  destruct (cs_file sl) as [f|] eqn:Hf; simpl; [|eauto].
  destruct Hsl as (Hfi & Hok & Hdisk).
  destruct (Hg sl f eq_refl Hf Hfi Hok) as ((f' & o & wr & Hc & Hsp & Hfi') & Hok' & Hdisc).
  rewrite Hc, Hsp. rewrite Hsp in Hok', Hdisc. simpl in Hok', Hdisc.
  eexists _, _. split; [reflexivity|]. split.
  - rewrite abs_world_set. reflexivity.
  - apply world_inv_set; [assumption|]. unfold slot_inv. simpl.
    split; [assumption|]. split; [assumption|].
    eapply disk_after; eauto.
Qed.

(* ---------- facts about the encoder / decoder used at open and close ---------- *)
Lemma put_var_norm : forall fmt dims v, put_var fmt dims (norm_var v) = put_var fmt dims v.
Proof. intros. destruct v. reflexivity. Qed.

Lemma flat_map_put_var_norm : forall fmt dims l,
  flat_map (put_var fmt dims) (map norm_var l) = flat_map (put_var fmt dims) l.
Proof.
  induction l as [|x l IH]; [reflexivity|]. cbn [map flat_map]. rewrite put_var_norm, IH. reflexivity.
Qed.

Lemma encode_norm : forall h, encode_header (norm_hdr h) = encode_header h.
Proof.
  intros [fmt nr dims gatts vars]. unfold encode_header, norm_hdr.
  cbn [h_format h_numrecs h_dims h_gatts h_vars]. do 4 f_equal.
  unfold put_list. destruct vars as [|v vars]; [reflexivity|].
  rewrite flat_map_put_var_norm, Zlen_map. reflexivity.
Qed.

Lemma hdr_nodup_norm : forall h, hdr_nodup h -> hdr_nodup (norm_hdr h).
Proof.
  intros h (H1 & H2 & H3 & H4). unfold hdr_nodup, norm_hdr. simpl.
  rewrite map_map. split; [assumption|]. split; [exact H2|]. split; [assumption|].
  rewrite Forall_map. exact H4.
Qed.

Lemma check_vlens_novars : forall h, h_vars h = [] -> check_vlens h = NC_NOERR.
Proof. intros h H. unfold check_vlens. rewrite H. reflexivity. Qed.

Lemma decode_good : forall h rest, good_hdr h ->
  exists dc, decode (encode_header h ++ rest) = Some dc /\ dc_hdr dc = norm_hdr h.
Proof.
  intros h rest [Hok _]. exists (decoded_of h). split; [|reflexivity].
  apply decode_encode_full. apply hdr_ok_wf. assumption.
Qed.

Lemma trunc_good : forall h rest, hdr_ok h ->
  zfirstn (hdr_len h) (encode_header h ++ rest) = encode_header h ++ [].
Proof.
  intros h rest Hok. rewrite (hdr_len_encode h (hdr_ok_wf h Hok)), zfirstn_app_exact, app_nil_r. reflexivity.
Qed.

Lemma close_trunc_ok : forall rd h rest, good_hdr h ->
  exists rest', close_trunc rd h (Some (encode_header h ++ rest)) = Some (encode_header h ++ rest').
Proof.
  intros rd h rest [Hok _]. unfold close_trunc.
  destruct (negb rd && (Zlen (h_vars h) =? 0)); cbn [option_map]; [|eauto].
  rewrite trunc_good by assumption. eauto.
Qed.

(* ---------- the per-file steps are good steps ---------- *)
Ltac gstep Href Hok Hdisc := split; [apply Href; assumption | split; [apply Hok; assumption | apply Hdisc]].

Lemma step_create : forall w s fmt c, world_inv w -> hcfg_pos c ->
  exists w' ob, c_create w s fmt c = Some (w', ob) /\ s_create (abs_world w) s fmt = (abs_world w', ob) /\
                world_inv w'.
Proof.
  intros w s fmt c Hw Hc. unfold c_create, s_create. rewrite slot_get_abs.
  destruct (slot_get w s) as [sl|] eqn:Hs; simpl; [|eauto].
  destruct (cs_file sl) as [f|] eqn:Hf; simpl; [eauto|].
  destruct (negb (fmt_valid fmt)) eqn:Efmt; [eauto|]. apply negb_false_iff in Efmt.
  destruct (c_create_file_ok hashf fmt c Hc) as [Hfi Habs].
  eexists _, _. split; [reflexivity|]. split.
  - rewrite abs_world_set. unfold abs_slot. simpl. rewrite Habs. reflexivity.
  - apply world_inv_set; [assumption|]. unfold slot_inv. simpl. split; [assumption|]. split.
    + unfold hdr_ok. simpl. unfold Zlen, NC_MAX_INT. simpl. repeat split; try assumption; try lia; constructor.
    + right. left. reflexivity.
Qed.

Lemma step_open : forall w s mode c, world_inv w -> hcfg_pos c ->
  exists w' ob, c_open hashf w s mode c = Some (w', ob) /\ s_open (abs_world w) s mode = (abs_world w', ob) /\
                world_inv w'.
Proof.
  intros w s mode c Hw Hc. unfold c_open, s_open. rewrite slot_get_abs.
  destruct (slot_get w s) as [sl|] eqn:Hs; simpl; [|eauto].
  pose proof (slot_get_inv _ _ _ Hw Hs) as Hsl. unfold slot_inv in Hsl.
  destruct (cs_file sl) as [f|] eqn:Hf; simpl; [eauto|].
  destruct Hsl as [Hd|[Hd|(h & rest & Hg & Hd)]]; rewrite Hd; [eauto | simpl; eauto |].
  destruct (decode_good h rest Hg) as (dc & Hdec & Hdc). rewrite Hdec, Hdc.
  destruct Hg as [Hok Hnd].
  destruct (c_open_file_ok hashf hash_range (norm_hdr h) (mode =? 0) c Hc (hdr_nodup_norm _ Hnd))
    as (f & Ho & Hfi & Habs).
  rewrite Ho. eexists _, _. split; [reflexivity|]. split.
  - rewrite abs_world_set. unfold abs_slot. simpl. rewrite Habs. reflexivity.
  - apply world_inv_set; [assumption|]. unfold slot_inv. cbn [cs_file cs_disk]. split; [assumption|].
    assert (Hh : cf_hdr f = norm_hdr (norm_hdr h)).
    { change (cf_hdr f) with (sf_hdr (abs_file f)). rewrite Habs. reflexivity. }
    assert (Hin : cf_indef f = false).
    { change (cf_indef f) with (sf_indef (abs_file f)). rewrite Habs. reflexivity. }
    rewrite Hh, Hin. split; [apply norm_hdr_ok, norm_hdr_ok; assumption|].
    exists rest. rewrite !encode_norm. reflexivity.
Qed.

Lemma step_close : forall w s bl, world_inv w -> Forall (fun b => 0 <= b < 4294967296) bl ->
  exists w' ob, c_close w s bl = Some (w', ob) /\ s_close (abs_world w) s bl = (abs_world w', ob) /\
                world_inv w'.
Proof.
  intros w s bl Hw Hbl. unfold c_close, s_close. rewrite slot_get_abs.
  destruct (slot_get w s) as [sl|] eqn:Hs; simpl; [|eauto].
  pose proof (slot_get_inv _ _ _ Hw Hs) as Hsl. unfold slot_inv in Hsl.
  destruct (cs_file sl) as [f|] eqn:Hf; simpl; [|eauto].
  destruct Hsl as (Hfi & Hok & Hdisk).
  change (sf_indef (abs_file f)) with (cf_indef f).
  destruct (cf_indef f) eqn:Hin.
  - destruct (c_enddef_ref hashf f bl Hfi) as (f' & o & wr & Hc & Hsp & Hfi').
    rewrite Hc, Hsp.
    assert (Hok' : hdr_ok (cf_hdr f')).
    { pose proof (s_enddef_ok (abs_file f) bl Hok Hbl) as H. rewrite Hsp in H. exact H. }
    pose proof (s_enddef_disc (abs_file f) bl) as Hdisc. rewrite Hsp in Hdisc. simpl in Hdisc.
    eexists _, _. split; [reflexivity|]. split.
    + rewrite abs_world_set. reflexivity.
    + apply world_inv_set; [assumption|]. unfold slot_inv. cbn [cs_file cs_disk].
      assert (Hg' : good_hdr (cf_hdr f')) by (split; [assumption | apply (file_inv_nodup hashf); assumption]).
      destruct wr.
      * unfold wr_hdr. destruct (close_trunc_ok (cf_rdonly f') (cf_hdr f')
            (zskipn (Zlen (encode_header (cf_hdr f'))) match cs_disk sl with Some d => d | None => [] end) Hg')
          as [rest' Hr].
        rewrite Hr. right. right. eauto.
      * (* enddef refused: nothing written; then the file has variables and is not truncated *)
        unfold c_enddef in Hc. rewrite Hin in Hc. simpl in Hc.
        destruct (negb (check_vlens (cf_hdr f) =? NC_NOERR)) eqn:Ev; [|discriminate].
        inversion Hc; subst f'. unfold close_trunc.
        destruct (negb (cf_rdonly f) && (Zlen (h_vars (cf_hdr f)) =? 0)) eqn:Et; [|assumption].
        exfalso. apply andb_true_iff in Et. destruct Et as [_ Et].
        rewrite check_vlens_novars in Ev; [discriminate|].
        apply Zlen_zero_nil. lia.
  - destruct Hdisk as [rest Hr]. eexists _, _. split; [reflexivity|]. split.
    + rewrite abs_world_set. reflexivity.
    + apply world_inv_set; [assumption|]. unfold slot_inv. cbn [cs_file cs_disk]. rewrite Hr.
      assert (Hg : good_hdr (cf_hdr f)) by (split; [assumption | apply (file_inv_nodup hashf); assumption]).
      destruct (close_trunc_ok (cf_rdonly f) (cf_hdr f) rest Hg) as [rest' Hr']. rewrite Hr'.
      right. right. eauto.
Qed.

Lemma copy_att_pre_name : forall rd nvi vi nvo vo nm, copy_att_pre rd nvi vi nvo vo nm = NC_NOERR ->
  name_pre nm = NC_NOERR.
Proof. intros until nm. unfold copy_att_pre. intro H. pre_split H. Qed.

Lemma s_copy_read_att : forall sf v nm a, hdr_ok (sf_hdr sf) -> s_copy_read nfc sf v nm = Some (inr a) ->
  att_ok (h_format (sf_hdr sf)) a.
Proof.
  intros sf v nm a Hok H. unfold s_copy_read in H.
  destruct (get_sa (sf_hdr sf) v) as [l|] eqn:G; [|discriminate].
  destruct (find_name (nfc nm) (map a_name l)) as [i|] eqn:F; [|discriminate].
  inversion H; subst a. destruct (find_name_att _ _ _ F) as (a & Ha & _ & Hd). rewrite Hd.
  destruct (get_sa_ok _ _ _ Hok G) as [_ Hfa]. eapply Forall_nth_error; eauto.
Qed.

Lemma step_copy : forall w s v nm s2 v2, world_inv w ->
  exists w' ob, c_copy_att hashf nfc w s v nm s2 v2 = Some (w', ob) /\
                s_copy_att nfc (abs_world w) s v nm s2 v2 = (abs_world w', ob) /\ world_inv w'.
Proof.
  intros w s v nm s2 v2 Hw. unfold c_copy_att, s_copy_att. rewrite !slot_get_abs.
  destruct (slot_get w s) as [sl1|] eqn:Hs1; simpl; [|eauto].
  destruct (slot_get w s2) as [sl2|] eqn:Hs2; simpl; [|eauto].
  pose proof (slot_get_inv _ _ _ Hw Hs1) as Hsl1. pose proof (slot_get_inv _ _ _ Hw Hs2) as Hsl2.
  unfold slot_inv in Hsl1, Hsl2.
  destruct (cs_file sl1) as [fin|] eqn:Hf1; simpl; [|eauto].
  destruct (cs_file sl2) as [fout|] eqn:Hf2; simpl; [|eauto].
  destruct Hsl1 as (Hfi1 & Hok1 & _). destruct Hsl2 as (Hfi2 & Hok2 & _).
  rewrite !Zlen_map.
  destruct (negb (copy_att_pre (cf_rdonly fout) (Zlen (cm_vars (cf_meta fin))) v
                               (Zlen (cm_vars (cf_meta fout))) v2 nm =? NC_NOERR)) eqn:E; [eauto|].
  apply negb_eqb_false in E. pose proof (copy_att_pre_name _ _ _ _ _ _ E) as En.
  apply copy_att_pre_ok in E. destruct E as [Ev1 Ev2].
  destruct (c_copy_read_ref hashf nfc hash_range fin v nm Hfi1 Ev1) as [Hr Hnn].
  rewrite <- Hr. destruct (c_copy_read hashf nfc fin v nm) as [[rc|a]|] eqn:Hcr; [eauto| |congruence].
  change (h_format (sf_hdr (abs_file fout))) with (cf_fmt fout).
  destruct ((cf_fmt fout <? 5) && (a_type a >? 6)) eqn:Echk; [eauto|].
  apply on_file_step; [assumption|].
  intros sl f Hsl Hf Hfi Hok. rewrite Hs2 in Hsl. inversion Hsl; subst sl.
  rewrite Hf2 in Hf. inversion Hf; subst f.
  split; [apply c_copy_write_ref; assumption|]. split; [|apply s_copy_write_disc].
  pose proof (s_copy_read_att (abs_file fin) v nm a Hok1 (eq_sym Hr)) as (A1 & A2 & A3 & A4).
  apply (s_copy_write_ok nfc nfc_len); try assumption.
  change (h_format (sf_hdr (abs_file fout))) with (cf_fmt fout).
  change (h_format (sf_hdr (abs_file fin))) with (cf_fmt fin) in A2.
  destruct Hok2 as (Hfv & _). change (h_format (cf_hdr fout)) with (cf_fmt fout) in Hfv.
  apply fmt_valid_cases in Hfv. unfold valid_type in *.
  destruct (cf_fmt fin =? 5); destruct (cf_fmt fout =? 5) eqn:E5; lia.
Qed.

(* ---------- meta_refines: one API call ---------- *)
Theorem step_refines : forall w o, world_inv w -> op_repr o ->
  exists w' ob, c_step hashf nfc w o = Some (w', ob) /\
                s_step nfc (abs_world w) o = (abs_world w', ob) /\ world_inv w'.
Proof.
  intros w o Hw Hr. destruct o; cbn [c_step s_step]; cbn [op_repr] in Hr.
  - apply step_create; [assumption | apply hcfg_of_pos; tauto].
  - apply step_open; [assumption | apply hcfg_of_pos; tauto].
  - apply step_close; assumption.
  - apply on_file_step; [assumption|]. intros sl f _ _ Hfi Hok.
    split; [apply c_enddef_ref; assumption|]. split; [apply s_enddef_ok; assumption | apply s_enddef_disc].
  - apply on_file_step; [assumption|]. intros sl f _ _ Hfi Hok.
    split; [apply c_redef_ref; assumption|]. split; [|apply s_redef_disc].
    unfold s_redef. destruct (sf_rdonly (abs_file f)); [exact Hok|]. destruct (sf_indef (abs_file f)); exact Hok.
  - apply on_file_step; [assumption|]. intros sl f _ _ Hfi Hok.
    split; [apply c_def_dim_ref; assumption|]. split; [apply (s_def_dim_ok nfc nfc_len); assumption | apply s_def_dim_disc].
  - apply on_file_step; [assumption|]. intros sl f _ _ Hfi Hok.
    split; [apply c_def_var_ref; assumption|]. split; [apply (s_def_var_ok nfc nfc_len); assumption | apply s_def_var_disc].
  - apply on_file_step; [assumption|]. intros sl f _ _ Hfi Hok.
    split; [apply c_put_att_ref; assumption|]. split; [apply (s_put_att_ok nfc nfc_len); assumption | apply s_put_att_disc].
  - apply on_file_step; [assumption|]. intros sl f _ _ Hfi Hok.
    split; [apply c_get_att_ref; assumption|]. split; [|].
    + unfold s_get_att. destruct (negb _); [exact Hok|]. destruct (get_sa _ _); [|exact Hok].
      destruct (find_name _ _); exact Hok.
    + unfold s_get_att. destruct (negb _); [apply sdisc_same|]. destruct (get_sa _ _); [|apply sdisc_same].
      destruct (find_name _ _); apply sdisc_same.
  - apply on_file_step; [assumption|]. intros sl f _ _ Hfi Hok.
    split; [apply c_del_att_ref; assumption|]. split; [apply s_del_att_ok; assumption | apply s_del_att_disc].
  - apply on_file_step; [assumption|]. intros sl f _ _ Hfi Hok.
    split; [apply c_rename_dim_ref; assumption|]. split; [apply (s_rename_dim_ok nfc nfc_len); assumption | apply s_rename_dim_disc].
  - apply on_file_step; [assumption|]. intros sl f _ _ Hfi Hok.
    split; [apply c_rename_var_ref; assumption|]. split; [apply (s_rename_var_ok nfc nfc_len); assumption | apply s_rename_var_disc].
  - apply on_file_step; [assumption|]. intros sl f _ _ Hfi Hok.
    split; [apply c_rename_att_ref; assumption|]. split; [apply (s_rename_att_ok nfc nfc_len); assumption | apply s_rename_att_disc].
  - apply step_copy; assumption.
  - apply on_file_step; [assumption|]. intros sl f _ _ Hfi Hok.
    split; [apply c_inq_ref; assumption|]. split; [exact Hok | apply sdisc_same].
  - apply on_file_step; [assumption|]. intros sl f _ _ Hfi Hok.
    split; [apply c_inq_dimid_ref; assumption|]. split.
    + unfold s_inq_dimid. destruct (negb _); [exact Hok|]. destruct (find_name _ _); exact Hok.
    + unfold s_inq_dimid. destruct (negb _); [apply sdisc_same|]. destruct (find_name _ _); apply sdisc_same.
  - apply on_file_step; [assumption|]. intros sl f _ _ Hfi Hok.
    split; [apply c_inq_varid_ref; assumption|]. split.
    + unfold s_inq_varid. destruct (negb _); [exact Hok|]. destruct (find_name _ _); exact Hok.
    + unfold s_inq_varid. destruct (negb _); [apply sdisc_same|]. destruct (find_name _ _); apply sdisc_same.
  - apply on_file_step; [assumption|]. intros sl f _ _ Hfi Hok.
    split; [apply c_inq_attid_ref; assumption|]. split.
    + unfold s_inq_attid. destruct (negb _); [exact Hok|]. destruct (get_sa _ _); [|exact Hok].
      destruct (find_name _ _); exact Hok.
    + unfold s_inq_attid. destruct (negb _); [apply sdisc_same|]. destruct (get_sa _ _); [|apply sdisc_same].
      destruct (find_name _ _); apply sdisc_same.
  - rewrite slot_get_abs. destruct (slot_get w s) as [sl|]; simpl; eauto.
Qed.

(* ---------- meta_refines for whole histories => inq_matches_model ---------- *)
Theorem run_refines : forall ops w, world_inv w -> Forall op_repr ops ->
  exists w' obs, c_run hashf nfc w ops = Some (w', obs) /\
                 s_run nfc (abs_world w) ops = (abs_world w', obs) /\ world_inv w'.
Proof.
  induction ops as [|o ops IH]; intros w Hw Hr; simpl.
  - exists w, []. auto.
  - inversion Hr; subst.
    destruct (step_refines w o Hw H1) as (w1 & ob & Hc & Hs & Hw1). rewrite Hc, Hs.
    destruct (IH w1 Hw1 H2) as (w2 & obs & Hc2 & Hs2 & Hw2). rewrite Hc2, Hs2.
    exists w2, (ob :: obs). auto.
Qed.

Lemma world0_inv : forall n, world_inv (cworld0 n).
Proof.
  intro n. unfold world_inv, cworld0. apply Forall_forall. intros sl Hin.
  apply repeat_spec in Hin. subst. unfold slot_inv. simpl. left. reflexivity.
Qed.

Lemma abs_world0 : forall n, abs_world (cworld0 n) = sworld0 n.
Proof. intro n. unfold abs_world, cworld0, sworld0. induction n; simpl; [reflexivity|]. f_equal. assumption. Qed.

(* every observation (return codes, ids, inquiry dumps, lookups, file snapshots) of every history run on
   the hash-table implementation equals the observation of the linear reference model; no step is
   undefined behaviour *)
Theorem inq_matches_model : forall n ops, Forall op_repr ops ->
  exists w', c_run hashf nfc (cworld0 n) ops = Some (w', snd (s_run nfc (sworld0 n) ops)) /\ world_inv w'.
Proof.
  intros n ops Hr. destruct (run_refines ops (cworld0 n) (world0_inv n) Hr) as (w' & obs & Hc & Hs & Hw).
  rewrite abs_world0 in Hs. rewrite Hs. simpl. eauto.
Qed.

(* ---------- reachable states satisfy table_inv ---------- *)
Theorem table_inv_reachable : forall n ops w' obs s sl f, Forall op_repr ops ->
  c_run hashf nfc (cworld0 n) ops = Some (w', obs) ->
  slot_get w' s = Some sl -> cs_file sl = Some f -> finv f.
Proof.
  intros n ops w' obs s sl f Hr Hc Hs Hf.
  destruct (run_refines ops (cworld0 n) (world0_inv n) Hr) as (w2 & obs2 & Hc2 & _ & Hw).
  rewrite Hc in Hc2. inversion Hc2; subst.
  pose proof (slot_get_inv _ _ _ Hw Hs) as H. unfold slot_inv in H. rewrite Hf in H. tauto.
Qed.

(* ---------- name_id_agree ---------- *)
Lemma find_name_iff : forall names nm i, NoDup names ->
  (find_name nm names = Some i <-> nth_error names i = Some nm).
Proof.
  intros names nm i Hnd. split; intro H.
  - apply find_name_some in H. tauto.
  - apply find_name_unique; assumption.
Qed.

Theorem name_id_agree : forall f, finv f ->
  let m := cf_meta f in
  (forall i nm, hfind hashf (dnames m) (cm_dtab m) nm = Some (Some i) <-> nth_error (dnames m) i = Some nm) /\
  (forall i nm, hfind hashf (vnames m) (cm_vtab m) nm = Some (Some i) <-> nth_error (vnames m) i = Some nm) /\
  (forall v ca i nm, get_ca m v = Some ca ->
     (ca_find hashf ca nm = Some (Some i) <-> nth_error (ca_names ca) i = Some nm)).
Proof.
  intros f (Hhs & Hm & _). pose proof Hm as (Hd & Hdn & Hv & Hvn & Hg & Hvs). cbv zeta.
  split; [|split].
  - intros i nm. rewrite (hfind_linear hashf hash_range _ _ nm Hd Hdn), <- find_name_iff by assumption.
    split; intro H; [inversion H; reflexivity | rewrite H; reflexivity].
  - intros i nm. rewrite (hfind_linear hashf hash_range _ _ nm Hv Hvn), <- find_name_iff by assumption.
    split; intro H; [inversion H; reflexivity | rewrite H; reflexivity].
  - intros v ca i nm Hca. pose proof (get_ca_inv hashf _ _ _ _ Hm Hca) as Hci.
    rewrite (ca_find_linear hashf hash_range ca nm Hci). destruct Hci as [_ Hnd].
    unfold ca_names. rewrite <- find_name_iff by assumption.
    split; intro H; [inversion H; reflexivity | rewrite H; reflexivity].
Qed.

(* ---------- datamode_update_in_file (as an invariant of every reachable world) ---------- *)
Theorem datamode_update_in_file : forall n ops w' obs s sl f, Forall op_repr ops ->
  c_run hashf nfc (cworld0 n) ops = Some (w', obs) ->
  slot_get w' s = Some sl -> cs_file sl = Some f -> cf_indef f = false ->
  exists rest, cs_disk sl = Some (encode_header (cf_hdr f) ++ rest) /\
               hdr_len (cf_hdr f) = Zlen (encode_header (cf_hdr f)).
Proof.
  intros n ops w' obs s sl f Hr Hc Hs Hf Hin.
  destruct (run_refines ops (cworld0 n) (world0_inv n) Hr) as (w2 & obs2 & Hc2 & _ & Hw).
  rewrite Hc in Hc2. inversion Hc2; subst.
  pose proof (slot_get_inv _ _ _ Hw Hs) as H. unfold slot_inv in H. rewrite Hf, Hin in H.
  destruct H as (_ & Hok & rest & Hd). exists rest. split; [assumption|].
  apply hdr_len_encode, hdr_ok_wf. assumption.
Qed.

(* ---------- persistence: close, then open, gives the same header ---------- *)
Lemma norm_cf_hdr : forall f, norm_hdr (cf_hdr f) = cf_hdr f.
Proof.
  intro f. unfold norm_hdr, cf_hdr, abs_hdr. simpl. f_equal. rewrite map_map.
  apply map_ext. intro v. reflexivity.
Qed.

Lemma slot_get_set_same : forall A (w : list A) s sl x, slot_get w s = Some sl ->
  slot_get (set_nth (Z.to_nat s) w x) s = Some x.
Proof.
  intros A w s sl x H. unfold slot_get in *. destruct (s <? 0); [discriminate|].
  apply nth_error_set_nth_eq. eapply nth_error_some_lt; eauto.
Qed.

Theorem persistence : forall w s sl f mode hd hv hg ha bl,
  hint_ok hd -> hint_ok hv -> hint_ok hg -> hint_ok ha ->
  world_inv w -> slot_get w s = Some sl -> cs_file sl = Some f -> cf_indef f = false ->
  exists w1 w2 sl2 f2,
    c_step hashf nfc w (OClose s bl) = Some (w1, [NC_NOERR]) /\
    c_step hashf nfc w1 (OOpen s mode hd hv hg ha) = Some (w2, [NC_NOERR]) /\
    slot_get w2 s = Some sl2 /\ cs_file sl2 = Some f2 /\ cf_hdr f2 = cf_hdr f /\ finv f2.
Proof.
  intros w s sl f mode hd hv hg ha bl Hh1 Hh2 Hh3 Hh4 Hw Hs Hf Hin.
  pose proof (slot_get_inv _ _ _ Hw Hs) as Hsl. unfold slot_inv in Hsl. rewrite Hf, Hin in Hsl.
  destruct Hsl as (Hfi & Hok & rest & Hd).
  assert (Hg : good_hdr (cf_hdr f)) by (split; [assumption | apply (file_inv_nodup hashf); assumption]).
  destruct (close_trunc_ok (cf_rdonly f) (cf_hdr f) rest Hg) as [rest' Hr'].
  set (sl1 := mkcslot (Some (encode_header (cf_hdr f) ++ rest')) None).
  exists (set_nth (Z.to_nat s) w sl1).
  assert (Hs1 : slot_get (set_nth (Z.to_nat s) w sl1) s = Some sl1) by (eapply slot_get_set_same; eauto).
  destruct (decode_good (cf_hdr f) rest' Hg) as (dc & Hdec & Hdc).
  destruct Hg as [_ Hnd].
  destruct (c_open_file_ok hashf hash_range (norm_hdr (cf_hdr f)) (mode =? 0) (hcfg_of hd hv hg ha)
              (hcfg_of_pos _ _ _ _ Hh1 Hh2 Hh3 Hh4) (hdr_nodup_norm _ Hnd)) as (f2 & Ho & Hfi2 & Habs).
  exists (set_nth (Z.to_nat s) (set_nth (Z.to_nat s) w sl1)
                  (mkcslot (Some (encode_header (cf_hdr f) ++ rest')) (Some f2))).
  eexists _, f2. split.
  { cbn [c_step]. unfold c_close. rewrite Hs, Hf, Hin, Hd, Hr'. reflexivity. }
  split.
  { cbn [c_step]. unfold c_open. rewrite Hs1. unfold sl1. cbn [cs_file cs_disk].
    rewrite Hdec, Hdc, Ho. reflexivity. }
  split; [eapply slot_get_set_same; eauto|].
  split; [reflexivity|]. split; [|assumption].
  change (cf_hdr f2) with (sf_hdr (abs_file f2)). rewrite Habs. simpl. rewrite !norm_cf_hdr. reflexivity.
Qed.

End Histories.

(* ================================================================== *)
(** * Part 5: the instance that is run (Bernstein hash), satisfiability examples, refuted variants *)

Lemma land_le : forall a b, 0 <= b -> Z.land a b <= b.
Proof.
  intros a b Hb.
  assert (H : Z.land a b + Z.land (Z.lnot a) b = b).
  { rewrite Z.add_nocarry_lxor.
    - apply Z.bits_inj'. intros n Hn. rewrite Z.lxor_spec, !Z.land_spec, Z.lnot_spec by assumption.
      destruct (Z.testbit a n), (Z.testbit b n); reflexivity.
    - apply Z.bits_inj'. intros n Hn. rewrite !Z.land_spec, Z.lnot_spec, Z.bits_0 by assumption.
      destruct (Z.testbit a n), (Z.testbit b n); reflexivity. }
  assert (0 <= Z.land (Z.lnot a) b) by (apply Z.land_nonneg; auto).
  lia.
Qed.

(* the hash function in use has its range below every positive table size: key = x & (hsize-1) *)
Theorem bernstein_range : forall nm hs, hs_ok hs -> 0 <= bernstein nm hs < hs.
Proof.
  intros nm hs [H1 H2]. unfold bernstein, NC_MAX_INT in *.
  set (X := Z.lxor (Z.lxor _ _) _).
  assert (Hm : u32 (hs - 1) = hs - 1) by (unfold u32; apply Z.mod_small; lia).
  rewrite Hm.
  assert (Hle : Z.land X (hs - 1) <= hs - 1) by (apply land_le; lia).
  assert (Hge : 0 <= Z.land X (hs - 1)) by (apply Z.land_nonneg; right; lia).
  unfold s32, u32. rewrite Z.mod_small by lia.
  destruct (Z.land X (hs - 1) <? 2147483648) eqn:E; lia.
Qed.

(* before repair c39b68a0 a size of 0 was accepted: then the key is the full 32-bit hash as an int, outside
   the (empty) table: the first insertion is an out-of-bounds access *)
Lemma hint_size_old_refuted :
  hint_size_old (Some 0) PNC_HSIZE_DIM = 0 /\
  c_def_dim bernstein nfc_tab (c_create_file 1 (mkhcfg (hint_size_old (Some 0) PNC_HSIZE_DIM) 256 64 8)) [120] 5 = None.
Proof. split; vm_compute; reflexivity. Qed.

Lemma hint_size_repaired : forall v d, hs_ok d -> v <= NC_MAX_INT -> hs_ok (hint_size (Some v) d).
Proof. intros. apply hint_size_pos; simpl; assumption. Qed.

(* lookup_hash_eq_linear needs distinct names: with duplicates (only possible in a file not written by this
   library) a rename reorders a bucket and the bucket lookup no longer returns the first match *)
Definition lookup_hash_eq_linear_full : Prop :=
  forall hashf names t nm, (forall n hs, hs_ok hs -> 0 <= hashf n hs < hs) ->
    tab_inv hashf names t -> hfind hashf names t nm = Some (find_name nm names).

Lemma lookup_hash_eq_linear_refuted : ~ lookup_hash_eq_linear_full.
Proof.
  intro H.
  specialize (H (fun _ _ => 0) [[98]; [97]; [98]] (mkntab 1 (Some [[1%nat; 2%nat; 0%nat]])) [98]).
  assert (Hr : forall (n : list byte) hs, hs_ok hs -> 0 <= (fun (_ : list byte) (_ : Z) => 0) n hs < hs)
    by (intros n hs [A B]; lia).
  specialize (H Hr). vm_compute in H.
  assert (Hinv : tab_inv (fun _ _ => 0) [[98]; [97]; [98]] (mkntab 1 (Some [[1%nat; 2%nat; 0%nat]]))).
  { split; [unfold hs_ok, NC_MAX_INT; simpl; lia|]. simpl. split; [reflexivity|].
    intros k ids Hk. destruct k as [|k]; simpl in Hk; [|destruct k; discriminate].
    inversion Hk; subst ids. split.
    - repeat constructor; simpl; intuition lia.
    - intro i. unfold key. simpl. split.
      + intros [Hi|[Hi|[Hi|[]]]]; subst i; simpl; eauto.
      + intros (n & Hn & _). destruct i as [|[|[|i]]]; simpl in *; try discriminate; auto.
        destruct i; discriminate. }
  specialize (H Hinv). discriminate.
Qed.

(* ---------- the hypotheses are satisfiable: a non-trivial reachable world ---------- *)
Definition ex_ops : list op :=
  [OCreate 0 1 (Some 2) None (Some 1) None;
   ODefDim 0 [120] 5; ODefDim 0 [121] 0; ODefVar 0 [118] 4 [1; 0];
   OPutAtt 0 (-1) [97] 4 [7; 8]; OPutAtt 0 0 [98] 2 [65; 66]; ORenameDim 0 0 [122];
   OEnddef 0 [200]; ORenameAtt 0 (-1) [97] [99]; OInq 0; OClose 0 []; OOpen 0 0 None None None None;
   OInqDimid 0 [122]; OInq 0].

Example ex_ops_repr : Forall op_repr ex_ops.
Proof.
  unfold ex_ops.
  repeat (apply Forall_cons;
          [cbn [op_repr hint_ok]; unfold NC_MAX_INT, NC_MAX_INT64, Zlen; simpl;
           repeat match goal with |- _ /\ _ => split end; try lia; try exact I;
           repeat (first [apply Forall_nil | apply Forall_cons; [lia|]]) |]).
  apply Forall_nil.
Qed.

Example ex_run_defined :
  exists w obs, c_run bernstein nfc_tab (cworld0 1) ex_ops = Some (w, obs) /\
                snd (s_run nfc_tab (sworld0 1) ex_ops) = obs /\
                nth 12 obs [] = [NC_NOERR; 0].
Proof. eexists _, _. split; [vm_compute; reflexivity|]. split; vm_compute; reflexivity. Qed.

Example identity_nfc_len : forall nm, Zlen nm <= NC_MAX_NAME -> Zlen ((fun x : list byte => x) nm) <= NC_MAX_INT.
Proof. intros nm H. unfold NC_MAX_NAME, NC_MAX_INT in *. lia. Qed.

(* ---------- the NFC table used when the model is run satisfies the assumption on the oracle ---------- *)
Lemma is_prefix_len : forall p l, is_prefix p l = true -> (length p <= length l)%nat.
Proof.
  induction p as [|x p IH]; intros l H; simpl; [lia|].
  destruct l as [|y l]; simpl in H; [discriminate|].
  apply andb_true_iff in H. destruct H as [_ H]. apply IH in H. simpl. lia.
Qed.

Lemma nfc_pairs_shrink : forall k v, In (k, v) nfc_pairs -> (length v <= length k)%nat /\ (0 < length k)%nat.
Proof.
  intros k v H. unfold nfc_pairs in H. simpl in H.
  repeat (destruct H as [H|H]; [inversion H; subst; simpl; lia|]). contradiction.
Qed.

Lemma nfc_tab_f_len : forall fuel l, (length (nfc_tab_f fuel l) <= length l)%nat.
Proof.
  induction fuel as [|fuel IH]; intro l; [simpl; lia|].
  destruct l as [|c r]; [simpl; lia|]. cbn [nfc_tab_f].
  destruct (find (fun p => is_prefix (fst p) (c :: r)) nfc_pairs) as [[k v]|] eqn:F.
  - apply find_some in F. destruct F as [Hin Hp]. simpl in Hp.
    destruct (nfc_pairs_shrink k v Hin) as [Hs Hk]. apply is_prefix_len in Hp.
    rewrite app_length. specialize (IH (skipn (length k) (c :: r))). rewrite skipn_length in IH. lia.
  - simpl. specialize (IH r). lia.
Qed.

Theorem nfc_tab_len : forall nm, Zlen nm <= NC_MAX_NAME -> Zlen (nfc_tab nm) <= NC_MAX_INT.
Proof.
  intros nm H. unfold nfc_tab, Zlen in *. pose proof (nfc_tab_f_len (length nm) nm).
  unfold NC_MAX_NAME, NC_MAX_INT in *. lia.
Qed.

(* ---------- the theorems for the very model that is run against the library ---------- *)
Theorem inq_matches_model_instance : forall n ops, Forall op_repr ops ->
  exists w', c_run bernstein nfc_tab (cworld0 n) ops = Some (w', snd (s_run nfc_tab (sworld0 n) ops)) /\
             world_inv bernstein w'.
Proof. intros. apply (inq_matches_model bernstein nfc_tab bernstein_range nfc_tab_len). assumption. Qed.

(* ================================================================== *)
(** * Part 6: a data-mode update never makes the header longer *)
Ltac Zify.zify_post_hook ::= Z.div_mod_to_equations.

Lemma rndup4_mono : forall a b, a <= b -> rndup a 4 <= rndup b 4.
Proof. intros a b H. unfold rndup. simpl. lia. Qed.

Lemma zsum_map_set_nth : forall A (g : A -> Z) l i a x, nth_error l i = Some a ->
  zsum (map g (set_nth i l x)) = zsum (map g l) - g a + g x.
Proof.
  induction l as [|y l IH]; intros i a x H; destruct i; simpl in *; try discriminate.
  - inversion H; subst. lia.
  - rewrite (IH i a x H). lia.
Qed.

Lemma x_len_is_rndup : forall t n, 1 <= t <= 11 -> 0 <= n ->
  x_len_attrV t n = rndup (n * xlen_type t) 4.
Proof.
  intros t n Ht Hn.
  assert (Hc : t = 1 \/ t = 2 \/ t = 3 \/ t = 4 \/ t = 5 \/ t = 6 \/ t = 7 \/ t = 8 \/ t = 9 \/ t = 10 \/ t = 11) by lia.
  unfold x_len_attrV, xlen_type, rndup.
  repeat (destruct Hc as [Hc|Hc]; [subst t; simpl; lia|]). subst t. simpl. lia.
Qed.

Lemma valid_type_range' : forall fmt t, valid_type fmt t = true -> 1 <= t <= 11.
Proof. intros fmt t H. unfold valid_type in H. destruct (fmt =? 5); lia. Qed.

Section NoGrowth.
Variable nfc : list byte -> list byte.

Lemma s_attr_put_nogrow : forall fmt l nn t n data, Forall (att_ok fmt) l ->
  valid_type fmt t = true -> 0 <= n ->
  zsum (map (len_att fmt) (fst (s_attr_put false l nn t n data))) <= zsum (map (len_att fmt) l).
Proof.
  intros fmt l nn t n data Hf Ht Hn. unfold s_attr_put.
  destruct (find_name nn (map a_name l)) as [i|] eqn:F; simpl; [|lia].
  destruct (find_name_att _ _ _ F) as (a & Ha & Hna & Hda). rewrite Hda.
  destruct (x_len_attrV t n >? att_xsz a) eqn:E; simpl; [lia|].
  rewrite (zsum_map_set_nth _ (len_att fmt) l i a _ Ha).
  destruct (Forall_nth_error _ _ _ _ _ Hf Ha) as (_ & Hta & Hna' & _).
  unfold att_xsz in E.
  rewrite (x_len_is_rndup t n (valid_type_range' _ _ Ht) Hn) in E.
  rewrite (x_len_is_rndup _ _ (valid_type_range' _ _ Hta) (proj1 Hna')) in E.
  unfold len_att. simpl. lia.
Qed.

Lemma s_attr_rename_nogrow : forall fmt l nn nnew,
  zsum (map (len_att fmt) (fst (s_attr_rename false l nn nnew))) <= zsum (map (len_att fmt) l).
Proof.
  intros fmt l nn nnew. unfold s_attr_rename.
  destruct (find_name nn (map a_name l)) as [i|] eqn:F; simpl; [|lia].
  destruct (find_name nnew (map a_name l)); simpl; [lia|].
  destruct (find_name_att _ _ _ F) as (a & Ha & Hna & Hda). rewrite Hda.
  destruct (Zlen (a_name a) <? Zlen nnew) eqn:E; simpl; [lia|].
  rewrite (zsum_map_set_nth _ (len_att fmt) l i a _ Ha).
  unfold len_att. simpl. pose proof (rndup4_mono (Zlen nnew) (Zlen (a_name a))). lia.
Qed.

Lemma set_sa_nogrow : forall h v l0 l, get_sa h v = Some l0 ->
  zsum (map (len_att (h_format h)) l) <= zsum (map (len_att (h_format h)) l0) ->
  hdr_len (set_sa h v l) <= hdr_len h.
Proof.
  intros h v l0 l G Hle. unfold get_sa in G. unfold set_sa.
  destruct (v =? -1).
  { inversion G; subst. unfold hdr_len, len_attarray. simpl. lia. }
  destruct ((0 <=? v) && (v <? Zlen (h_vars h))); [|discriminate].
  destruct (nth_error (h_vars h) (Z.to_nat v)) as [x|] eqn:E; [|discriminate].
  simpl in G. inversion G; subst l0.
  rewrite (nth_error_nth_d _ _ _ _ dflt_var E).
  unfold hdr_len. simpl. rewrite (zsum_map_set_nth _ _ _ _ x _ E).
  unfold len_var, len_attarray. simpl. lia.
Qed.

(* datamode_update_in_file, second half: in data mode no operation makes the header longer, so the rewritten
   header stays within the space it had (names may only shrink, attribute values may only shrink) *)
Theorem datamode_no_growth : forall f, sf_indef f = false -> hdr_ok (sf_hdr f) ->
  (forall v nm t vals, hdr_len (sf_hdr (fst (fst (s_put_att nfc f v nm t vals)))) <= hdr_len (sf_hdr f)) /\
  (forall v nm nnm, hdr_len (sf_hdr (fst (fst (s_rename_att nfc f v nm nnm)))) <= hdr_len (sf_hdr f)) /\
  (forall id nm, hdr_len (sf_hdr (fst (fst (s_rename_dim nfc f id nm)))) <= hdr_len (sf_hdr f)) /\
  (forall id nm, hdr_len (sf_hdr (fst (fst (s_rename_var nfc f id nm)))) <= hdr_len (sf_hdr f)) /\
  (forall v nm a self, valid_type (h_format (sf_hdr f)) (a_type a) = true -> 0 <= a_nelems a ->
     hdr_len (sf_hdr (fst (fst (s_copy_write nfc f v nm a self)))) <= hdr_len (sf_hdr f)).
Proof.
  intros f Hin Hok. repeat split.
  - intros v nm t vals. unfold s_put_att.
    destruct (negb (put_att_pre _ _ _ v nm t _ =? NC_NOERR)) eqn:E; [simpl; lia|].
    pose proof Hok as (Hf & _).
    apply negb_eqb_false, (put_att_pre_type _ _ _ _ _ _ _ Hf) in E. destruct E as (_ & E2 & E3).
    destruct (negb (fillvalue_rule _ _ _ _ _ _ =? NC_NOERR)); [simpl; lia|].
    destruct (get_sa (sf_hdr f) v) as [l|] eqn:G; [|simpl; lia].
    destruct (att_put_value t vals) as [data ce].
    destruct (get_sa_ok _ _ _ Hok G) as [_ Hfa].
    pose proof (s_attr_put_nogrow (h_format (sf_hdr f)) l (nfc nm) t (Zlen vals) data Hfa E2 E3) as Hng.
    rewrite Hin. destruct (s_attr_put false l (nfc nm) t (Zlen vals) data) as [l' rc]. simpl in Hng.
    destruct (negb (rc =? NC_NOERR)); simpl; [lia|]. eapply set_sa_nogrow; eauto.
  - intros v nm nnm. unfold s_rename_att.
    destruct (negb (rename_att_pre _ _ _ nm nnm =? NC_NOERR)); [simpl; lia|].
    destruct (get_sa (sf_hdr f) v) as [l|] eqn:G; [|simpl; lia].
    pose proof (s_attr_rename_nogrow (h_format (sf_hdr f)) l (nfc nm) (nfc nnm)) as Hng.
    rewrite Hin. destruct (s_attr_rename false l (nfc nm) (nfc nnm)) as [l' rc]. simpl in Hng.
    destruct (negb (rc =? NC_NOERR)); simpl; [lia|]. eapply set_sa_nogrow; eauto.
  - intros id nm. unfold s_rename_dim.
    destruct (negb (rename_dim_pre _ _ id nm =? NC_NOERR)) eqn:E; [simpl; lia|].
    apply negb_eqb_false, rename_dim_pre_ok in E.
    destruct (find_name _ _) as [j|]. { destruct (Nat.eqb j (Z.to_nat id)); simpl; lia. }
    destruct (nth_error_lt_some _ (h_dims (sf_hdr f)) (Z.to_nat id)) as [old Hold]; [apply nat_lt_Zlen; lia|].
    rewrite (nth_error_nth_d _ _ _ _ dflt_dim Hold). rewrite Hin. simpl.
    destruct (Zlen (d_name old) <? Zlen (nfc nm)) eqn:E2; simpl; [lia|].
    unfold hdr_len. simpl. rewrite (zsum_map_set_nth _ _ _ _ old _ Hold).
    unfold len_dim. simpl. pose proof (rndup4_mono (Zlen (nfc nm)) (Zlen (d_name old))). lia.
  - intros id nm. unfold s_rename_var.
    destruct (negb (rename_var_pre _ _ id nm =? NC_NOERR)) eqn:E; [simpl; lia|].
    apply negb_eqb_false, rename_var_pre_ok in E.
    destruct (find_name _ _) as [j|]; [simpl; lia|].
    destruct (nth_error_lt_some _ (h_vars (sf_hdr f)) (Z.to_nat id)) as [old Hold]; [apply nat_lt_Zlen; lia|].
    rewrite (nth_error_nth_d _ _ _ _ dflt_var Hold). rewrite Hin. simpl.
    destruct (Zlen (v_name old) <? Zlen (nfc nm)) eqn:E2; simpl; [lia|].
    unfold hdr_len. simpl. rewrite (zsum_map_set_nth _ _ _ _ old _ Hold).
    unfold len_var. simpl. pose proof (rndup4_mono (Zlen (nfc nm)) (Zlen (v_name old))). lia.
  - intros v nm a self Ht Hn. unfold s_copy_write.
    destruct (get_sa (sf_hdr f) v) as [l|] eqn:G; [|simpl; lia].
    destruct self; [simpl; lia|].
    destruct (get_sa_ok _ _ _ Hok G) as [_ Hfa].
    pose proof (s_attr_put_nogrow (h_format (sf_hdr f)) l (nfc nm) (a_type a) (a_nelems a) (a_data a) Hfa Ht Hn) as Hng.
    rewrite Hin. destruct (s_attr_put false l (nfc nm) (a_type a) (a_nelems a) (a_data a)) as [l' rc]. simpl in Hng.
    destruct (negb (rc =? NC_NOERR)); simpl; [lia|]. eapply set_sa_nogrow; eauto.
Qed.

End NoGrowth.

(* ================================================================== *)
(** * Part 7: correctness does not depend on the order of the ids inside a bucket *)
Require Import Permutation.

Lemma Forall2_nth_error_r : forall A B (R : A -> B -> Prop) l l' k y,
  Forall2 R l l' -> nth_error l' k = Some y -> exists x, nth_error l k = Some x /\ R x y.
Proof.
  intros A B R l l' k y H. revert k. induction H as [|a b l l' Hab H IH]; intros k Hk.
  - destruct k; discriminate.
  - destruct k; simpl in *; [inversion Hk; subst; eauto | apply IH; assumption].
Qed.

Lemma Forall2_len : forall A B (R : A -> B -> Prop) l l', Forall2 R l l' -> length l = length l'.
Proof. intros A B R l l' H. induction H; simpl; congruence. Qed.

Section BucketOrder.
Variable hashf : list byte -> Z -> Z.
Hypothesis hash_range : forall nm hs, hs_ok hs -> 0 <= hashf nm hs < hs.

(* the table invariant speaks about each bucket as a set: any reordering of any bucket keeps it *)
Theorem tab_inv_bucket_order_irrelevant : forall names hs bs bs',
  Forall2 (@Permutation nat) bs bs' ->
  tab_inv hashf names (mkntab hs (Some bs)) -> tab_inv hashf names (mkntab hs (Some bs')).
Proof.
  intros names hs bs bs' Hp [Hhs [Hlen Hb]]. split; [assumption|]. simpl in *. split.
  - rewrite <- (Forall2_len _ _ _ _ _ Hp). assumption.
  - intros k ids' Hk. destruct (Forall2_nth_error_r _ _ _ _ _ _ _ Hp Hk) as (ids & Hids & Hperm).
    destruct (Hb _ _ Hids) as [Hnd Hiff]. split.
    + eapply Permutation_NoDup; eauto.
    + intro i. rewrite <- Hiff. split; intro Hin.
      * eapply Permutation_in; [apply Permutation_sym|]; eauto.
      * eapply Permutation_in; eauto.
Qed.

(* hence lookup through ANY reordering of the buckets is still the linear search *)
Corollary lookup_any_bucket_order : forall names hs bs bs' nm,
  Forall2 (@Permutation nat) bs bs' -> tab_inv hashf names (mkntab hs (Some bs)) -> NoDup names ->
  hfind hashf names (mkntab hs (Some bs')) nm = Some (find_name nm names).
Proof.
  intros. apply hfind_linear; [assumption| |assumption].
  eapply tab_inv_bucket_order_irrelevant; eauto.
Qed.

(* rename (hash_replace appends the renamed, possibly small, id at the END of a bucket) followed by a delete
   (which renumbers EVERY stored id above the deleted one): invariant and lookup agreement hold whatever the
   order inside the buckets was and has become *)
Theorem replace_then_delete_any_order : forall names t i old new j nm,
  tab_inv hashf names t -> nth_error names i = Some old ->
  nth_error (set_nth i names new) j = Some nm ->
  exists t1 t2,
    hash_replace hashf t i old new = Some t1 /\
    hash_delete hashf t1 nm j = Some (Some t2) /\
    tab_inv hashf (del_nth j (set_nth i names new)) t2 /\
    (NoDup (del_nth j (set_nth i names new)) ->
     forall q, hfind hashf (del_nth j (set_nth i names new)) t2 q =
               Some (find_name q (del_nth j (set_nth i names new)))).
Proof.
  intros names t i old new j nm Ht Hi Hj.
  destruct (hash_replace_inv hashf hash_range names t i old new Ht Hi) as (t1 & Hr & Ht1 & _).
  destruct (hash_delete_inv hashf hash_range _ t1 j nm Ht1 Hj) as (t2 & Hd & Ht2 & _).
  exists t1, t2. split; [assumption|]. split; [assumption|]. split; [assumption|].
  intros Hnd q. apply hfind_linear; assumption.
Qed.

End BucketOrder.

(* the seeded variant of ncmpio_hash_delete that renumbers each bucket from its tail and stops at the first id
   below the deleted one (assuming increasing ids inside a bucket) *)
Fixpoint dec_from_tail (id : nat) (revl : list nat) : list nat :=
  match revl with
  | [] => []
  | j :: r => if Nat.ltb j id then revl else pred j :: dec_from_tail id r
  end.
Definition renumber_tail_walk (id : nat) (bs : list (list nat)) : list (list nat) :=
  map (fun l => rev (dec_from_tail id (rev l))) bs.

Definition hash_delete_tail_walk (hashf : list byte -> Z -> Z) (t : ntab) (nm : list byte) (id : nat)
  : option (option ntab) :=
  match nt_tab t with
  | None => None
  | Some bs =>
    match bucket hashf bs nm (nt_hsize t) with
    | None => None
    | Some (k, ids) =>
      match remove_id id ids with
      | None => Some None
      | Some ids' => Some (Some (mkntab (nt_hsize t) (Some (renumber_tail_walk id (set_nth k bs ids')))))
      end
    end
  end.

(* five attributes in one bucket; rename id 1 (its id goes to the end of the bucket); delete id 3: the tail
   walk stops at once, id 4 is not renumbered, and looking up the last attribute by name reads value[4] of an
   array of 4: out of bounds -- while the real renumbering answers id 3 *)
Lemma hash_delete_tail_walk_refuted :
  let names := [[97; 48]; [97; 49]; [97; 50]; [97; 51]; [97; 52]] in
  let names1 := set_nth 1 names [122; 49] in
  let t := mkntab 1 (Some [[0; 1; 2; 3; 4]%nat]) in
  exists t1,
    hash_replace bernstein t 1 [97; 49] [122; 49] = Some t1 /\
    (exists t2, hash_delete bernstein t1 [97; 51] 3 = Some (Some t2) /\
                hfind bernstein (del_nth 3 names1) t2 [97; 52] = Some (Some 3%nat)) /\
    (exists t2', hash_delete_tail_walk bernstein t1 [97; 51] 3 = Some (Some t2') /\
                 hfind bernstein (del_nth 3 names1) t2' [97; 52] = None).
Proof.
  cbv zeta. exists (mkntab 1 (Some [[0; 2; 3; 4; 1]%nat])). split; [vm_compute; reflexivity|]. split.
  - exists (mkntab 1 (Some [[0; 2; 3; 1]%nat])). split; vm_compute; reflexivity.
  - exists (mkntab 1 (Some [[0; 2; 4; 1]%nat])). split; vm_compute; reflexivity.
Qed.
