(* Proofs_Meta.v — proofs about the metadata / namespace model Meta.v (property C07).
   Part 1: list helpers.  Part 2: the hash-bucket name table (for EVERY hash function whose range is
   below the table size).  Part 3: attribute arrays and one open file: invariant, no undefined
   behaviour, refinement of the linear model.  Part 4: worlds and histories.  Part 5: name/id agreement,
   data-mode header updates, persistence (composition with Proofs_Header). *)
From Pnc Require Import Base Header HeaderSpec Data Meta Proofs_Base Proofs_Lists Proofs_Header.
Require Import Lia ZArith ZifyBool List Bool Arith.
Import ListNotations.
Local Open Scope Z_scope.

Local Arguments Z.mul : simpl never.
Local Arguments Z.add : simpl never.
Local Arguments Z.sub : simpl never.
Local Arguments Z.div : simpl never.
Local Arguments Z.modulo : simpl never.
Local Arguments Z.pow : simpl never.
Local Arguments Z.of_nat : simpl never.
Local Arguments Z.to_nat : simpl never.

(* ================================================================== *)
(** * Part 1: list helpers *)

Lemma bytes_eqb_eq : forall a b, bytes_eqb a b = true <-> a = b.
Proof.
  unfold bytes_eqb. induction a as [|x a IH]; destruct b as [|y b]; simpl; split; intro H;
    try reflexivity; try discriminate.
  - apply andb_true_iff in H. destruct H as [H1 H2]. apply Z.eqb_eq in H1. apply IH in H2. congruence.
  - inversion H; subst. rewrite Z.eqb_refl. simpl. apply IH. reflexivity.
Qed.

Lemma bytes_eqb_refl : forall a, bytes_eqb a a = true.
Proof. intro a. apply bytes_eqb_eq. reflexivity. Qed.

Lemma bytes_eqb_neq : forall a b, bytes_eqb a b = false <-> a <> b.
Proof.
  intros a b. split; intro H.
  - intro E. apply bytes_eqb_eq in E. congruence.
  - destruct (bytes_eqb a b) eqn:E; [apply bytes_eqb_eq in E; contradiction | reflexivity].
Qed.

Lemma set_nth_length : forall A n (l : list A) x, length (set_nth n l x) = length l.
Proof. induction n; destruct l; simpl; intros; auto. Qed.

Lemma nth_error_set_nth_eq : forall A n (l : list A) x, (n < length l)%nat ->
  nth_error (set_nth n l x) n = Some x.
Proof. induction n; destruct l; simpl; intros; try lia; auto. apply IHn. lia. Qed.

Lemma nth_error_set_nth_neq : forall A n m (l : list A) x, n <> m ->
  nth_error (set_nth n l x) m = nth_error l m.
Proof.
  induction n; destruct l; destruct m; simpl; intros; try congruence; auto.
Qed.

Lemma set_nth_same : forall A n (l : list A) x, nth_error l n = Some x -> set_nth n l x = l.
Proof.
  induction n; destruct l; simpl; intros; try discriminate; auto.
  - congruence.
  - f_equal. auto.
Qed.

Lemma map_set_nth : forall A B (f : A -> B) n l x, map f (set_nth n l x) = set_nth n (map f l) (f x).
Proof. induction n; destruct l; simpl; intros; auto. f_equal. auto. Qed.

Lemma del_nth_length : forall A n (l : list A), (n < length l)%nat ->
  length (del_nth n l) = pred (length l).
Proof.
  induction n; destruct l; simpl; intros; try lia.
  rewrite IHn by lia. destruct l; simpl in *; lia.
Qed.

Lemma nth_error_del_nth_lt : forall A n m (l : list A), (m < n)%nat ->
  nth_error (del_nth n l) m = nth_error l m.
Proof.
  induction n; destruct l; destruct m; simpl; intros; try lia; auto. apply IHn. lia.
Qed.

Lemma nth_error_del_nth_ge : forall A n m (l : list A), (n <= m)%nat ->
  nth_error (del_nth n l) m = nth_error l (S m).
Proof.
  induction n; intros m l H.
  - destruct l; simpl; [destruct m; reflexivity | reflexivity].
  - destruct l; simpl; [destruct m; reflexivity|].
    destruct m; [lia|]. simpl. apply IHn. lia.
Qed.

Lemma map_del_nth : forall A B (f : A -> B) n l, map f (del_nth n l) = del_nth n (map f l).
Proof. induction n; destruct l; simpl; intros; auto. f_equal. auto. Qed.

Lemma nth_error_nth_d : forall A (l : list A) n x d, nth_error l n = Some x -> nth n l d = x.
Proof. intros. apply nth_error_nth. assumption. Qed.

Lemma nth_error_some_lt : forall A (l : list A) n x, nth_error l n = Some x -> (n < length l)%nat.
Proof. intros. apply nth_error_Some. congruence. Qed.

Lemma nth_error_lt_some : forall A (l : list A) n, (n < length l)%nat -> exists x, nth_error l n = Some x.
Proof. intros. destruct (nth_error l n) eqn:E; eauto. apply nth_error_None in E. lia. Qed.

(* linear search *)
Lemma find_name_some : forall nm l i, find_name nm l = Some i ->
  nth_error l i = Some nm /\ forall j, (j < i)%nat -> nth_error l j <> Some nm.
Proof.
  induction l as [|x l IH]; simpl; intros i H; [discriminate|].
  destruct (bytes_eqb x nm) eqn:E.
  - inversion H; subst. apply bytes_eqb_eq in E. subst. split; [reflexivity|]. intros; lia.
  - destruct (find_name nm l) as [k|] eqn:F; simpl in H; [|discriminate]. inversion H; subst.
    destruct (IH k eq_refl) as [H1 H2]. split; [exact H1|].
    intros j Hj. destruct j; simpl.
    + apply bytes_eqb_neq in E. congruence.
    + apply H2. lia.
Qed.

Lemma find_name_none : forall nm l, find_name nm l = None <-> ~ In nm l.
Proof.
  induction l as [|x l IH]; simpl.
  - split; auto.
  - destruct (bytes_eqb x nm) eqn:E.
    + apply bytes_eqb_eq in E. subst. split; [discriminate | intro H; exfalso; apply H; auto].
    + apply bytes_eqb_neq in E. destruct (find_name nm l); simpl.
      * split; [discriminate|]. intro H. exfalso. destruct IH as [_ IH]. 
        assert (~ In nm l) by tauto. specialize (IH H0). discriminate.
      * split; auto. intros _ [H|H]; [congruence|]. apply IH in H; auto.
Qed.

Lemma find_name_unique : forall nm l i, NoDup l -> nth_error l i = Some nm -> find_name nm l = Some i.
Proof.
  intros nm l i Hnd Hi.
  destruct (find_name nm l) as [j|] eqn:F.
  - apply find_name_some in F. destruct F as [Hj _].
    f_equal. eapply NoDup_nth_error; eauto.
    + eapply nth_error_some_lt; eauto.
    + congruence.
  - apply find_name_none in F. exfalso. apply F. eapply nth_error_In; eauto.
Qed.

(* remove_id *)
Lemma remove_id_in : forall id ids, NoDup ids -> In id ids ->
  exists ids', remove_id id ids = Some ids' /\ NoDup ids' /\
               forall j, In j ids' <-> (In j ids /\ j <> id).
Proof.
  induction ids as [|x ids IH]; simpl; intros Hnd Hin; [contradiction|].
  inversion Hnd; subst.
  destruct (Nat.eqb x id) eqn:E.
  - apply Nat.eqb_eq in E. subst. exists ids. split; [reflexivity|]. split; [assumption|].
    intro j. split.
    + intro Hj. split; [auto|]. intro; subst. contradiction.
    + intros [[Hj|Hj] Hne]; [congruence | assumption].
  - apply Nat.eqb_neq in E. destruct Hin as [Hin|Hin]; [contradiction|].
    destruct (IH H2 Hin) as (ids' & Hr & Hnd' & Hiff). rewrite Hr. simpl.
    exists (x :: ids'). split; [reflexivity|]. split.
    + constructor; [|assumption]. intro Hx. apply Hiff in Hx. tauto.
    + intro j. simpl. rewrite Hiff. split.
      * intros [Hj|[Hj Hne]]; [subst; split; auto | split; auto].
      * intros [[Hj|Hj] Hne]; auto.
Qed.

Lemma remove_id_notin : forall id ids, ~ In id ids -> remove_id id ids = None.
Proof.
  induction ids as [|x ids IH]; simpl; intro H; [reflexivity|].
  destruct (Nat.eqb x id) eqn:E.
  - apply Nat.eqb_eq in E. subst. exfalso. apply H. auto.
  - rewrite IH; [reflexivity|]. intro; apply H; auto.
Qed.

(* ================================================================== *)
(** * Part 2: the hash-bucket name table, for every hash function with range below the size *)
Section Tables.
Variable hashf : list byte -> Z -> Z.
Hypothesis hash_range : forall nm hs, 0 < hs -> 0 <= hashf nm hs < hs.

Definition key (nm : list byte) (hs : Z) : nat := Z.to_nat (hashf nm hs).

(* bucket k holds, without repetition, exactly the ids of the names that hash to k *)
Definition bs_inv (names : list (list byte)) (hs : Z) (bs : list (list nat)) : Prop :=
  length bs = Z.to_nat hs /\
  forall k ids, nth_error bs k = Some ids ->
    NoDup ids /\ forall i, In i ids <-> exists nm, nth_error names i = Some nm /\ key nm hs = k.

(* nameT may be NULL only while nothing is defined *)
Definition tab_inv (names : list (list byte)) (t : ntab) : Prop :=
  0 < nt_hsize t /\
  match nt_tab t with
  | None => names = []
  | Some bs => bs_inv names (nt_hsize t) bs
  end.

Lemma key_lt : forall nm hs, 0 < hs -> (key nm hs < Z.to_nat hs)%nat.
Proof. intros nm hs H. unfold key. pose proof (hash_range nm hs H). lia. Qed.

Lemma bucket_ok : forall bs nm hs, 0 < hs -> length bs = Z.to_nat hs ->
  exists ids, nth_error bs (key nm hs) = Some ids /\ bucket hashf bs nm hs = Some (key nm hs, ids).
Proof.
  intros bs nm hs Hhs Hlen. unfold bucket.
  pose proof (hash_range nm hs Hhs) as Hr.
  destruct (hashf nm hs <? 0) eqn:E; [lia|].
  destruct (nth_error_lt_some _ bs (key nm hs)) as [ids Hids].
  { rewrite Hlen. apply key_lt. assumption. }
  exists ids. unfold key in *. rewrite Hids. auto.
Qed.

Lemma scan_ids_spec : forall names nm ids,
  (forall i, In i ids -> exists x, nth_error names i = Some x) ->
  exists r, scan_ids names nm ids = Some r /\
    match r with
    | Some i => In i ids /\ nth_error names i = Some nm
    | None => forall i, In i ids -> nth_error names i <> Some nm
    end.
Proof.
  induction ids as [|i ids IH]; simpl; intro Hv.
  - exists None. split; [reflexivity|]. intros i [].
  - destruct (Hv i (or_introl eq_refl)) as [x Hx]. rewrite Hx.
    destruct (bytes_eqb x nm) eqn:E.
    + apply bytes_eqb_eq in E. subst. exists (Some i). auto.
    + apply bytes_eqb_neq in E.
      destruct IH as (r & Hr & Hspec). { intros j Hj. apply Hv. auto. }
      exists r. split; [assumption|]. destruct r as [j|].
      * destruct Hspec. auto.
      * intros j [Hj|Hj]; [subst; congruence | auto].
Qed.

(* lookup through the buckets: never out of bounds; an answer is a position of the name, "not found"
   means the name is absent *)
Lemma hfind_spec : forall names t nm, tab_inv names t ->
  exists r, hfind hashf names t nm = Some r /\
    match r with
    | Some i => nth_error names i = Some nm
    | None => ~ In nm names
    end.
Proof.
  intros names t nm [Hhs Hinv]. unfold hfind.
  destruct names as [|n0 names']. { exists None. auto. }
  destruct (nt_tab t) as [bs|]; [|discriminate].
  destruct Hinv as [Hlen Hb].
  destruct (bucket_ok bs nm _ Hhs Hlen) as (ids & Hids & Hbk). rewrite Hbk.
  destruct (Hb _ _ Hids) as [_ Hiff].
  destruct (scan_ids_spec (n0 :: names') nm ids) as (r & Hr & Hspec).
  { intros i Hi. apply Hiff in Hi. destruct Hi as (x & Hx & _). eauto. }
  exists r. split; [assumption|]. destruct r as [i|].
  - tauto.
  - intro Hin. apply In_nth_error in Hin. destruct Hin as [i Hi].
    apply (Hspec i); [|assumption]. apply Hiff. eauto.
Qed.

(* lookup_hash_eq_linear: with distinct names, the bucket lookup IS the linear search (first match in
   definition order) *)
Theorem hfind_linear : forall names t nm, tab_inv names t -> NoDup names ->
  hfind hashf names t nm = Some (find_name nm names).
Proof.
  intros names t nm Hinv Hnd.
  destruct (hfind_spec names t nm Hinv) as (r & Hr & Hspec). rewrite Hr. f_equal.
  destruct r as [i|].
  - symmetry. apply find_name_unique; assumption.
  - symmetry. apply find_name_none. assumption.
Qed.

(* ---------- calloc ---------- *)
Lemma nth_error_repeat : forall A (x : A) n k y, nth_error (repeat x n) k = Some y -> y = x.
Proof.
  induction n; destruct k; simpl; intros; try discriminate.
  - congruence.
  - eauto.
Qed.

Lemma tab_calloc_inv : forall names t, tab_inv names t ->
  tab_inv names (tab_calloc t) /\ nt_hsize (tab_calloc t) = nt_hsize t /\
  exists bs, nt_tab (tab_calloc t) = Some bs.
Proof.
  intros names t [Hhs Hinv]. unfold tab_calloc.
  destruct (nt_tab t) as [bs|] eqn:E.
  - split; [|split; [reflexivity | eauto]]. split; [assumption|]. rewrite E. assumption.
  - subst. simpl. split; [|split; [reflexivity | eauto]].
    split; [assumption|]. simpl. split.
    + apply repeat_length.
    + intros k ids Hk. apply nth_error_repeat in Hk. subst. split; [constructor|].
      intro i. split; [intros [] |]. intros (nm & Hnm & _). destruct i; discriminate.
Qed.

(* ---------- hash_insert ---------- *)
Lemma nth_error_app_last : forall A (l : list A) x i y,
  nth_error (l ++ [x]) i = Some y <-> (nth_error l i = Some y \/ (i = length l /\ y = x)).
Proof.
  intros A l x i y. destruct (Nat.lt_ge_cases i (length l)) as [H|H].
  - rewrite nth_error_app1 by assumption. split; [auto|]. intros [H1|[H1 _]]; [assumption|lia].
  - rewrite nth_error_app2 by assumption.
    assert (Hn : nth_error l i = None) by (apply nth_error_None; assumption).
    rewrite Hn. destruct (i - length l)%nat eqn:E; simpl.
    + split.
      * intro H1. inversion H1; subst. right. split; [lia|reflexivity].
      * intros [H1|[_ H1]]; [discriminate | subst; reflexivity].
    + split.
      * destruct n; discriminate.
      * intros [H1|[H1 _]]; [discriminate | lia].
Qed.

Theorem hash_insert_inv : forall names t nm,
  tab_inv names t -> (exists bs, nt_tab t = Some bs) ->
  exists t', hash_insert hashf t nm (length names) = Some t' /\ tab_inv (names ++ [nm]) t' /\
             nt_hsize t' = nt_hsize t.
Proof.
  intros names t nm [Hhs Hinv] [bs Hbs]. unfold hash_insert. rewrite Hbs in *.
  destruct Hinv as [Hlen Hb].
  destruct (bucket_ok bs nm _ Hhs Hlen) as (ids & Hids & Hbk). rewrite Hbk.
  eexists. split; [reflexivity|]. split; [|reflexivity].
  split; [assumption|]. simpl. split.
  - rewrite set_nth_length. assumption.
  - intros k ids' Hk.
    destruct (Nat.eq_dec (key nm (nt_hsize t)) k) as [Ek|Ek].
    + subst k. rewrite nth_error_set_nth_eq in Hk by (eapply nth_error_some_lt; eauto).
      inversion Hk; subst ids'. destruct (Hb _ _ Hids) as [Hnd Hiff]. split.
      * apply NoDup_app_intro; [assumption | constructor; [intros []|constructor] |].
        intros x Hx [Hx2|[]]. subst x. apply Hiff in Hx. destruct Hx as (y & Hy & _).
        apply nth_error_some_lt in Hy. lia.
      * intro i. rewrite in_app_iff. simpl. rewrite Hiff. split.
        -- intros [(y & Hy & Hky)|[Hi|[]]].
           ++ exists y. split; [|assumption]. apply nth_error_app_last. auto.
           ++ subst i. exists nm. split; [|reflexivity]. apply nth_error_app_last. auto.
        -- intros (y & Hy & Hky). apply nth_error_app_last in Hy.
           destruct Hy as [Hy|[Hi Hy]]; [left; eauto | right; left; auto].
    + rewrite nth_error_set_nth_neq in Hk by assumption.
      destruct (Hb _ _ Hk) as [Hnd Hiff]. split; [assumption|].
      intro i. rewrite Hiff. split.
      * intros (y & Hy & Hky). exists y. split; [|assumption]. apply nth_error_app_last. auto.
      * intros (y & Hy & Hky). apply nth_error_app_last in Hy.
        destruct Hy as [Hy|[Hi Hy]]; [eauto | subst; contradiction].
Qed.
