(* Properties_C06.v — statements only: each property theorem is stated in full and closed by
   `exact <lemma>`; the lemmas live in the Proofs_*.v files.  Assembled by tools/mkprops.py. *)
(* C06 Redefinition preserves data: the data mover of ncmpio_enddef.c (Move.v) is correct for ALL process *)
(* counts, round sizes, block sizes and shifts (overlapping or not): each round's per-rank tiles partition *)
(* the round, the block arrives intact and no other byte changes; record sections and fixed variables are *)
(* moved last-to-first without clobbering. *)
From Coq Require Import ZArith List.
From Pnc Require Import Proofs_Move.
From Pnc Require Import Proofs_Layout.
From Pnc Require Import Proofs_Redef.
From Pnc Require Import Proofs_Exec2.
From Pnc Require Import Proofs_Reach3.
From Pnc Require Import CSub.
From Pnc Require Import Gen_begins.
From Pnc Require Import Proofs_GenBegins.
From Pnc Require Import Proofs_GenBeginsRedef.
From Pnc Require Import Proofs_GenBeginsRedef2.
Set Printing Width 100.
Set Printing Depth 100000.

Theorem C06_round_partition :
  forall (np chunk from to left nb : Z) (xs : list (Z * Z * Z)),
         (np >= 1)%Z ->
         (chunk >= 1)%Z ->
         (left > 0)%Z ->
         Move.move_round np chunk from to left = (nb, xs) ->
         (0 <= nb < left)%Z /\
         (nb = 0%Z \/ nb = (left - chunk * np)%Z) /\
         Base.Zlen xs = np /\
         (forall i : Z,
          (0 <= i < np)%Z ->
          let
          '(fo, to_, c) := Base.znth xs i (0%Z, 0%Z, 0%Z) in
           (0 <= c <= chunk)%Z /\
           (to_ - fo)%Z = (to - from)%Z /\
           ((c > 0)%Z -> (from + nb <= fo)%Z /\ (fo + c <= from + left)%Z)) /\
         (forall x : Z,
          (from + nb <= x < from + left)%Z ->
          exists i : Z,
            (0 <= i < np)%Z /\
            tile_covers (Base.znth xs i (0%Z, 0%Z, 0%Z)) x /\
            (forall j : Z, (0 <= j < np)%Z -> tile_covers (Base.znth xs j (0%Z, 0%Z, 0%Z)) x -> j = i)) /\
         (forall i j x : Z,
          (0 <= i < np)%Z ->
          (0 <= j < np)%Z ->
          tile_covers (Base.znth xs i (0%Z, 0%Z, 0%Z)) x ->
          tile_covers (Base.znth xs j (0%Z, 0%Z, 0%Z)) x -> i = j).
Proof. exact @round_partition. Qed.
Print Assumptions C06_round_partition.

Theorem C06_move_file_block_correct :
  forall (d : Disk.disk) (np unit_ to from n x : Z),
         (np >= 1)%Z ->
         (unit_ >= 1)%Z ->
         (from <= to)%Z ->
         (0 <= n)%Z ->
         Disk.dk_get (Move.move_file_block d np unit_ to from n) x =
         (if ((to <=? x)%Z && (x <? to + n)%Z)%bool
          then Disk.dk_get d (x - (to - from))
          else Disk.dk_get d x).
Proof. exact @move_file_block_correct. Qed.
Print Assumptions C06_move_file_block_correct.

Theorem C06_move_file_block_size :
  forall (d : Disk.disk) (np unit_ to from n : Z),
         (np >= 1)%Z ->
         (unit_ >= 1)%Z ->
         Disk.dk_size (Move.move_file_block d np unit_ to from n) =
         (if (0 <? n)%Z then Z.max (Disk.dk_size d) (to + n) else Disk.dk_size d).
Proof. exact @move_file_block_size. Qed.
Print Assumptions C06_move_file_block_size.

Theorem C06_move_record_vars_correct :
  forall (d : Disk.disk) (np unit_ numrecs : Z) (nl ol : Header.layout),
         (np >= 1)%Z ->
         (unit_ >= 1)%Z ->
         (0 <= numrecs)%Z ->
         (Header.l_begin_rec nl >= Header.l_begin_rec ol)%Z ->
         (Header.l_recsize nl >= Header.l_recsize ol)%Z ->
         (Header.l_recsize ol >= 0)%Z ->
         (forall r o : Z,
          (0 <= r < numrecs)%Z ->
          (0 <= o < Header.l_recsize ol)%Z ->
          Disk.dk_get (Move.move_record_vars d np unit_ numrecs nl ol)
            (Header.l_begin_rec nl + r * Header.l_recsize nl + o) =
          Disk.dk_get d (Header.l_begin_rec ol + r * Header.l_recsize ol + o)) /\
         (forall x : Z,
          ~ in_new_record nl ol numrecs x ->
          Disk.dk_get (Move.move_record_vars d np unit_ numrecs nl ol) x = Disk.dk_get d x) /\
         (forall x : Z,
          (x < Header.l_begin_rec nl)%Z ->
          Disk.dk_get (Move.move_record_vars d np unit_ numrecs nl ol) x = Disk.dk_get d x).
Proof. exact @move_record_vars_correct. Qed.
Print Assumptions C06_move_record_vars_correct.

Theorem C06_move_fixed_vars_correct :
  forall (d : Disk.disk) (np unit_ : Z) (oh : Header.hdr) (nl ol : Header.layout)
           (newlens : list Z),
         (np >= 1)%Z ->
         (unit_ >= 1)%Z ->
         fixed_move_ok oh nl ol newlens ->
         (forall i o : Z,
          (0 <= i < Base.Zlen (Header.h_vars oh))%Z ->
          fv_isfix oh i = true ->
          (0 <= o < fv_len newlens i)%Z ->
          Disk.dk_get (Move.move_fixed_vars d np unit_ oh nl ol newlens) (fv_to nl i + o) =
          Disk.dk_get d (fv_from ol i + o)) /\
         (forall x : Z,
          ~ in_moved_fixed oh nl ol newlens (Base.Zlen (Header.h_vars oh)) x ->
          Disk.dk_get (Move.move_fixed_vars d np unit_ oh nl ol newlens) x = Disk.dk_get d x).
Proof. exact @move_fixed_vars_correct. Qed.
Print Assumptions C06_move_fixed_vars_correct.

Theorem C06_move_fixed_step_no_clobber :
  forall (np unit_ : Z) (oh : Header.hdr) (nl ol : Header.layout) 
           (newlens : list Z) (acc : Disk.disk) (i j o : Z),
         (np >= 1)%Z ->
         (unit_ >= 1)%Z ->
         fixed_move_ok oh nl ol newlens ->
         (0 <= i < Base.Zlen (Header.h_vars oh))%Z ->
         (0 <= j < Base.Zlen (Header.h_vars oh))%Z ->
         fv_isfix oh j = true ->
         (0 <= o < fv_len newlens j)%Z ->
         ((j < i)%Z ->
          Disk.dk_get (fix_step np unit_ oh nl ol newlens acc i) (fv_from ol j + o) =
          Disk.dk_get acc (fv_from ol j + o)) /\
         ((i < j)%Z ->
          Disk.dk_get (fix_step np unit_ oh nl ol newlens acc i) (fv_to nl j + o) =
          Disk.dk_get acc (fv_to nl j + o)).
Proof. exact @move_fixed_step_no_clobber. Qed.
Print Assumptions C06_move_fixed_step_no_clobber.

Theorem C06_begins_monotone :
  forall (oh h : Header.hdr) (ol lay : Header.layout) (hm vm ha ra : Z),
         hdr_wf h ->
         (0 <= hm)%Z ->
         (0 <= vm)%Z ->
         (0 < ha)%Z ->
         (4 <= ra)%Z ->
         (ra mod 4)%Z = 0%Z ->
         lay_inv (t3of oh) ol ->
         hdr_extends oh h ->
         Header.begins h hm vm ha ra (redef_old oh ol) (Header.l_begin_rec ol) = Some lay ->
         (forall i : Z,
          (0 <= i < Base.Zlen (Header.h_vars oh))%Z ->
          (Base.znth (Header.l_begins ol) i 0 <= Base.znth (Header.l_begins lay) i 0)%Z) /\
         (Header.l_begin_var ol <= Header.l_begin_var lay)%Z /\
         (Header.l_begin_rec ol <= Header.l_begin_rec lay)%Z /\
         (Header.l_recsize ol <= Header.l_recsize lay)%Z /\ (0 <= Header.l_recsize ol)%Z.
Proof. exact @begins_monotone. Qed.
Print Assumptions C06_begins_monotone.

Theorem C06_moved_disk_preserves_data :
  forall (oh h : Header.hdr) (ol lay : Header.layout) (hm vm ha ra : Z) 
           (d0 : Disk.disk) (np unit_ numrecs : Z),
         hdr_wf h ->
         (0 <= hm)%Z ->
         (0 <= vm)%Z ->
         (0 < ha)%Z ->
         (4 <= ra)%Z ->
         (ra mod 4)%Z = 0%Z ->
         lay_inv (t3of oh) ol ->
         hdr_extends oh h ->
         Header.begins h hm vm ha ra (redef_old oh ol) (Header.l_begin_rec ol) = Some lay ->
         (np >= 1)%Z ->
         (unit_ >= 1)%Z ->
         (0 <= numrecs)%Z ->
         let d1 := moved_disk d0 np unit_ numrecs oh h ol lay in
         forall i : Z,
         (0 <= i < Base.Zlen (Header.h_vars oh))%Z ->
         let ov := Base.znth (Header.h_vars oh) i dv in
         let len := Header.var_len (Header.h_dims oh) ov in
         let ob := Base.znth (Header.l_begins ol) i 0%Z in
         let nb := Base.znth (Header.l_begins lay) i 0%Z in
         (Header.is_recvar (Header.h_dims oh) ov = false ->
          forall o : Z, (0 <= o < len)%Z -> Disk.dk_get d1 (nb + o) = Disk.dk_get d0 (ob + o)) /\
         (Header.is_recvar (Header.h_dims oh) ov = true ->
          (nb - Header.l_begin_rec lay)%Z = (ob - Header.l_begin_rec ol)%Z /\
          (forall r o : Z,
           (0 <= r < numrecs)%Z ->
           (0 <= o < len)%Z ->
           (ob - Header.l_begin_rec ol + o < Header.l_recsize ol)%Z ->
           Disk.dk_get d1 (nb + r * Header.l_recsize lay + o) =
           Disk.dk_get d0 (ob + r * Header.l_recsize ol + o))).
Proof. exact @moved_disk_preserves_data. Qed.
Print Assumptions C06_moved_disk_preserves_data.

Theorem C06_redef_preserves_data :
  forall (oh h : Header.hdr) (ol lay : Header.layout) (hm vm ha ra : Z) 
           (d0 : Disk.disk) (np unit_ numrecs : Z),
         hdr_wf h ->
         (0 <= hm)%Z ->
         (0 <= vm)%Z ->
         (0 < ha)%Z ->
         (4 <= ra)%Z ->
         (ra mod 4)%Z = 0%Z ->
         lay_inv (t3of oh) ol ->
         hdr_extends oh h ->
         Header.begins h hm vm ha ra (redef_old oh ol) (Header.l_begin_rec ol) = Some lay ->
         (np >= 1)%Z ->
         (unit_ >= 1)%Z ->
         (0 <= numrecs)%Z ->
         Proofs_Header.wf_hdr (new_header h lay numrecs) = true ->
         let d2 := enddef_disk d0 np unit_ numrecs oh h ol lay in
         forall i : Z,
         (0 <= i < Base.Zlen (Header.h_vars oh))%Z ->
         let ov := Base.znth (Header.h_vars oh) i dv in
         let len := Header.var_len (Header.h_dims oh) ov in
         let ob := Base.znth (Header.l_begins ol) i 0%Z in
         let nb := Base.znth (Header.l_begins lay) i 0%Z in
         (Header.is_recvar (Header.h_dims oh) ov = false ->
          forall o : Z, (0 <= o < len)%Z -> Disk.dk_get d2 (nb + o) = Disk.dk_get d0 (ob + o)) /\
         (Header.is_recvar (Header.h_dims oh) ov = true ->
          (nb - Header.l_begin_rec lay)%Z = (ob - Header.l_begin_rec ol)%Z /\
          (forall r o : Z,
           (0 <= r < numrecs)%Z ->
           (0 <= o < len)%Z ->
           (ob - Header.l_begin_rec ol + o < Header.l_recsize ol)%Z ->
           Disk.dk_get d2 (nb + r * Header.l_recsize lay + o) =
           Disk.dk_get d0 (ob + r * Header.l_recsize ol + o))).
Proof. exact @redef_preserves_data. Qed.
Print Assumptions C06_redef_preserves_data.

Theorem C06_triggers_complete :
  forall (oh h : Header.hdr) (ol lay : Header.layout) (hm vm ha ra : Z),
         hdr_wf h ->
         (0 <= hm)%Z ->
         (0 <= vm)%Z ->
         (0 < ha)%Z ->
         (4 <= ra)%Z ->
         (ra mod 4)%Z = 0%Z ->
         lay_inv (t3of oh) ol ->
         hdr_extends oh h ->
         Header.begins h hm vm ha ra (redef_old oh ol) (Header.l_begin_rec ol) = Some lay ->
         ((Header.l_begin_var lay <= Header.l_begin_var ol)%Z ->
          forall i : Z,
          (0 <= i < Base.Zlen (Header.h_vars oh))%Z ->
          fst (Base.znth (vsof oh) i dvs) = false ->
          Base.znth (Header.l_begins lay) i 0%Z = Base.znth (Header.l_begins ol) i 0%Z) /\
         ((Header.l_begin_var lay <= Header.l_begin_var ol)%Z ->
          (Header.l_begin_rec lay <= Header.l_begin_rec ol)%Z ->
          (Header.l_recsize lay <= Header.l_recsize ol)%Z ->
          (forall i : Z,
           (0 <= i < Base.Zlen (Header.h_vars oh))%Z ->
           Base.znth (Header.l_begins lay) i 0%Z = Base.znth (Header.l_begins ol) i 0%Z) /\
          Header.l_begin_rec lay = Header.l_begin_rec ol /\
          Header.l_recsize lay = Header.l_recsize ol).
Proof. exact @triggers_complete. Qed.
Print Assumptions C06_triggers_complete.

Theorem C06_exec_redef_enddef_disk :
  forall (w : Exec.world) (id : Z) (f : Exec.filest) (ea : Header.enddef_args)
           (oh : Header.hdr) (ol : Header.layout) (ha va ra : Z) (lay : Header.layout),
         Exec.f_indef f = true ->
         Exec.f_old f = Some (oh, ol) ->
         enddef_args_ok ea ->
         Header.check_vlens (Exec.f_hdr f) = Gen_consts.NC_NOERR ->
         Header.resolve_align (Exec.f_align f) ea
           (Base.Zlen (Header.h_vars (Exec.f_hdr f)) - Exec.num_rec_vars oh) false = (
         ha, va, ra) ->
         Header.begins (Exec.f_hdr f) (Header.e_h_minfree ea) (Header.e_v_minfree ea) ha ra
           (redef_old oh ol) (Header.l_begin_rec (Exec.f_lay f)) = Some lay ->
         fill_guard (Base.Zlen (Header.h_vars oh)) (enddef_hdr f lay) = true ->
         Exec.do_enddef w id f ea =
         Some
           (Exec.put_file (Exec.set_disk w (Exec.f_slot f) (enddef_redef_disk w f oh ol lay)) id
              (Some (enddef_file f lay)), Gen_consts.NC_NOERR).
Proof. exact @redef_enddef_disk. Qed.
Print Assumptions C06_exec_redef_enddef_disk.

(* ---- for EVERY reachable state of the API-level model (Proofs_Reach*.v) ---- *)
(* C06 redef ... enddef preserves the data (for every history) ---------------- *)
(* any reachable state in define mode after a redef (whatever was defined since): a successful enddef *)
(* leaves every byte of every old variable, in every existing record, at its new place *)
Theorem C06_exec_redef_enddef_run_preserves :
  forall (w : Exec.world) (id : Z) (f : Exec.filest) (ea : Header.enddef_args)
           (oh : Header.hdr) (ol : Header.layout) (w' : Exec.world),
         Exec.f_indef f = true ->
         Exec.f_old f = Some (oh, ol) ->
         Header.l_begin_rec (Exec.f_lay f) = Header.l_begin_rec ol ->
         hdr_wf (Exec.f_hdr f) ->
         (0 <= Header.env_h_align (Exec.f_align f))%Z ->
         (0 <= Header.env_v_align (Exec.f_align f))%Z ->
         (0 <= Header.env_r_align (Exec.f_align f))%Z ->
         lay_inv (t3of oh) ol ->
         hdr_extends oh (Exec.f_hdr f) ->
         (1 <= Exec.w_nprocs w)%Z ->
         (1 <= Exec.w_move_unit w)%Z ->
         (0 <= enddef_numrecs f)%Z ->
         (0 <= Exec.f_slot f < Base.Zlen (Exec.w_disks w))%Z ->
         (0 <= id < Base.Zlen (Exec.w_files w))%Z ->
         Exec.do_enddef w id f ea = Some (w', Gen_consts.NC_NOERR) ->
         exists lay : Header.layout,
           Base.znth (Exec.w_files w') id None = Some (enddef_file f lay) /\
           lay_inv (t3of (Exec.f_hdr f)) lay /\
           (Proofs_Header.wf_hdr (enddef_hdr f lay) = true ->
            let d0 := Exec.get_disk w (Exec.f_slot f) in
            let d3 := Exec.get_disk w' (Exec.f_slot f) in
            hdr_on_disk w' (enddef_file f lay) /\
            (forall i : Z,
             (0 <= i < Base.Zlen (Header.h_vars oh))%Z ->
             let ov := Base.znth (Header.h_vars oh) i dv in
             let len := Header.var_len (Header.h_dims oh) ov in
             let ob := Base.znth (Header.l_begins ol) i 0%Z in
             let nb := Base.znth (Header.l_begins lay) i 0%Z in
             (Header.is_recvar (Header.h_dims oh) ov = false ->
              forall o : Z, (0 <= o < len)%Z -> Disk.dk_get d3 (nb + o) = Disk.dk_get d0 (ob + o)) /\
             (Header.is_recvar (Header.h_dims oh) ov = true ->
              (nb - Header.l_begin_rec lay)%Z = (ob - Header.l_begin_rec ol)%Z /\
              (forall r o : Z,
               (0 <= r < enddef_numrecs f)%Z ->
               (0 <= o < len)%Z ->
               (ob - Header.l_begin_rec ol + o < Header.l_recsize ol)%Z ->
               Disk.dk_get d3 (nb + r * Header.l_recsize lay + o) =
               Disk.dk_get d0 (ob + r * Header.l_recsize ol + o))))).
Proof. exact @redef_enddef_run_preserves. Qed.
Print Assumptions C06_exec_redef_enddef_run_preserves.

(* the same for any world satisfying the invariant; the invariant holds again afterwards *)
Theorem C06_reachable_redef_preserves :
  forall (n : Z) (cs : list cmd) (id : Z) (f : Exec.filest) (ea : Header.enddef_args)
           (oh : Header.hdr) (ol : Header.layout) (w' : Exec.world),
         (1 <= n)%Z ->
         run_ok (Exec.world0 n) cs = true ->
         let w := run (Exec.world0 n) cs in
         Base.znth (Exec.w_files w) id None = Some f ->
         Exec.f_tainted f = false ->
         Exec.f_indef f = true ->
         Exec.f_old f = Some (oh, ol) ->
         Exec.do_enddef w id f ea = Some (w', Gen_consts.NC_NOERR) ->
         exists lay : Header.layout,
           Base.znth (Exec.w_files w') id None = Some (enddef_file f lay) /\
           (Proofs_Header.wf_hdr (enddef_hdr f lay) = true ->
            forall i : Z,
            (0 <= i < Base.Zlen (Header.h_vars oh))%Z ->
            let ov := Base.znth (Header.h_vars oh) i dv in
            (Header.is_recvar (Header.h_dims oh) ov = false ->
             forall o : Z,
             (0 <= o < Header.var_len (Header.h_dims oh) ov)%Z ->
             Disk.dk_get (Exec.get_disk w' (Exec.f_slot f))
               (Base.znth (Header.l_begins lay) i 0%Z + o) =
             Disk.dk_get (Exec.get_disk w (Exec.f_slot f)) (Base.znth (Header.l_begins ol) i 0%Z + o)) /\
            (Header.is_recvar (Header.h_dims oh) ov = true ->
             forall r o : Z,
             (0 <= r < Header.h_numrecs oh)%Z ->
             (0 <= o < Header.var_len (Header.h_dims oh) ov)%Z ->
             (Base.znth (Header.l_begins ol) i 0 - Header.l_begin_rec ol + o < Header.l_recsize ol)%Z ->
             Disk.dk_get (Exec.get_disk w' (Exec.f_slot f))
               (Base.znth (Header.l_begins lay) i 0%Z + r * Header.l_recsize lay + o) =
             Disk.dk_get (Exec.get_disk w (Exec.f_slot f))
               (Base.znth (Header.l_begins ol) i 0%Z + r * Header.l_recsize ol + o))).
Proof. exact @reachable_redef_preserves. Qed.
Print Assumptions C06_reachable_redef_preserves.

Theorem C06_inv_redef_preserves :
  forall (w : Exec.world) (id : Z) (f : Exec.filest) (ea : Header.enddef_args)
           (oh : Header.hdr) (ol : Header.layout) (w' : Exec.world),
         Proofs_Reach.world_inv w ->
         Base.znth (Exec.w_files w) id None = Some f ->
         Exec.f_tainted f = false ->
         Exec.f_indef f = true ->
         Exec.f_old f = Some (oh, ol) ->
         Exec.do_enddef w id f ea = Some (w', Gen_consts.NC_NOERR) ->
         Proofs_Reach.world_inv w' /\
         (exists lay : Header.layout,
            Base.znth (Exec.w_files w') id None = Some (enddef_file f lay) /\
            (Proofs_Header.wf_hdr (enddef_hdr f lay) = true ->
             let d0 := Exec.get_disk w (Exec.f_slot f) in
             let d3 := Exec.get_disk w' (Exec.f_slot f) in
             forall i : Z,
             (0 <= i < Base.Zlen (Header.h_vars oh))%Z ->
             let ov := Base.znth (Header.h_vars oh) i dv in
             let len := Header.var_len (Header.h_dims oh) ov in
             let ob := Base.znth (Header.l_begins ol) i 0%Z in
             let nb := Base.znth (Header.l_begins lay) i 0%Z in
             (Header.is_recvar (Header.h_dims oh) ov = false ->
              forall o : Z, (0 <= o < len)%Z -> Disk.dk_get d3 (nb + o) = Disk.dk_get d0 (ob + o)) /\
             (Header.is_recvar (Header.h_dims oh) ov = true ->
              (nb - Header.l_begin_rec lay)%Z = (ob - Header.l_begin_rec ol)%Z /\
              (forall r o : Z,
               (0 <= r < Header.h_numrecs oh)%Z ->
               (0 <= o < len)%Z ->
               (ob - Header.l_begin_rec ol + o < Header.l_recsize ol)%Z ->
               Disk.dk_get d3 (nb + r * Header.l_recsize lay + o) =
               Disk.dk_get d0 (ob + r * Header.l_recsize ol + o))))).
Proof. exact @inv_redef_preserves. Qed.
Print Assumptions C06_inv_redef_preserves.

(* enddef after redef (ncp->old != NULL): the first loop of NC_begins as translated from ncmpio_enddef.c as built on this run (Gen_begins.v), with its cursor over the old variables, against Header.begins_fixed fed with the begins of the old fixed-size variables: same verdict, end offset and begins (nothing moves towards the beginning of the file). PARTIAL: the straight-line steps around the loops (begin_var / begin_rec maximum with the old values) are covered by the runs below only *)
Theorem C06_gen_begins_redef_fixed_partial :
  forall (n0 : c_NC) (xsz : Z) (ovs : vlist) (obv obr OB : Z) (vars : list c_NC_var) 
           (ev : Z) (lastv : c_ref),
         NC__old n0 = Some (c_old ovs obv obr) ->
         (Base.Zlen ovs <= 2147483647)%Z ->
         NC_vararray__ndefined (NC__vars n0) = Base.Zlen vars ->
         (Base.Zlen vars <= 2147483647)%Z ->
         Forall cv_wf vars ->
         Forall (fun v : c_NC_var => (0 <= NC_var__len v)%Z) vars ->
         (0 <= ev)%Z ->
         (ev + lens4 vars <= MAXOFF)%Z ->
         (OB + lens4 vars <= MAXOFF)%Z ->
         Forall (fun p : bool * Z => (snd p <= OB)%Z) ovs ->
         let s0 := mkS (with_vals n0 vars) ev None 0 0 lastv in
         exists s' : st_NC_begins,
           c_loop (NC_begins_loop1_fuel n0 xsz s0) (NC_begins_loop1_cdef n0 xsz)
             (NC_begins_loop1_cond n0 xsz) (NC_begins_loop1_body n0 xsz) 
             (NC_begins_loop1_inc n0 xsz) s0 =
           match Header.begins_fixed (NC__format n0) (map pair_of vars) (ofix ovs) ev nil with
           | Some _ => CNorm s'
           | None => CRetS Gen_consts.NC_EVARSIZE s'
           end /\
           (forall (ef : Z) (fb : list (option Z)),
            Header.begins_fixed (NC__format n0) (map pair_of vars) (ofix ovs) ev nil = Some (ef, fb) ->
            NC_begins__end_var s' = ef /\ map fixed_begin (arr_of s') = fb).
Proof. exact @gen_begins_redef_fixed_partial. Qed.
Print Assumptions C06_gen_begins_redef_fixed_partial.

(* the second loop (record variables, old record begins) against Header.begins_rec *)
Theorem C06_gen_begins_redef_rec_partial :
  forall (n0 : c_NC) (xsz : Z) (ovs : vlist) (obv obr : Z) (vars : list c_NC_var) 
           (ev : Z) (fv lastv : c_ref),
         NC__old n0 = Some (c_old ovs obv obr) ->
         (Base.Zlen ovs <= 2147483647)%Z ->
         NC_vararray__ndefined (NC__vars n0) = Base.Zlen vars ->
         (Base.Zlen vars <= 2147483647)%Z ->
         Forall cv_wf vars ->
         Forall (fun v : c_NC_var => (0 <= NC_var__len v)%Z) vars ->
         (0 <= ev)%Z ->
         (ev + lens4 vars <= MAXOFF)%Z ->
         let s0 := mkS (with_vals_rs n0 vars 0) ev fv 0 0 lastv in
         exists s' : st_NC_begins,
           c_loop (NC_begins_loop3_fuel n0 xsz s0) (NC_begins_loop3_cdef n0 xsz)
             (NC_begins_loop3_cond n0 xsz) (NC_begins_loop3_body n0 xsz) 
             (NC_begins_loop3_inc n0 xsz) s0 =
           match Header.begins_rec (NC__format n0) (map pair_of vars) (orec ovs) ev 0 None nil with
           | Some _ => CNorm s'
           | None => CRetS Gen_consts.NC_EVARSIZE s'
           end /\
           (forall (er rs : Z) (ll : option Z) (rb : list (option Z)),
            Header.begins_rec (NC__format n0) (map pair_of vars) (orec ovs) ev 0 None nil =
            Some (er, rs, ll, rb) ->
            NC_begins__end_var s' = er /\
            NC__recsize (NC_begins__P_ncp s') = rs /\
            map rec_begin (arr_of s') = rb /\ last_rec_len None (arr_of s') = ll).
Proof. exact @gen_begins_redef_rec_partial. Qed.
Print Assumptions C06_gen_begins_redef_rec_partial.

(* the WHOLE generated NC_begins with an old header computes the layout of Header.begins (Some old) on concrete redefinitions (variables appended, alignment changed, header grown, record variable inserted first) *)
Theorem C06_gen_begins_redef_runs :
  begins_agree_redef
           {|
             Header.h_format := 2;
             Header.h_numrecs := 3;
             Header.h_dims := exb_dims;
             Header.h_gatts := nil;
             Header.h_vars :=
               exb_var 97 (1%Z :: 2%Z :: nil) 3
               :: exb_var 98 (0%Z :: 1%Z :: nil) 5
                  :: exb_var 99 (2%Z :: nil) 1 :: exb_var 100 (0%Z :: 2%Z :: nil) 6 :: nil
           |} 0 0 4 4 (Header.l_begin_rec (exr_lay 0 0 512 4)) (exr_lay 0 0 512 4)
           (false :: true :: nil) = true /\
         begins_agree_redef
           {|
             Header.h_format := 2;
             Header.h_numrecs := 3;
             Header.h_dims := exb_dims;
             Header.h_gatts := nil;
             Header.h_vars :=
               exb_var 97 (1%Z :: 2%Z :: nil) 3
               :: exb_var 98 (0%Z :: 1%Z :: nil) 5 :: exb_var 99 (2%Z :: nil) 1 :: nil
           |} 0 0 1024 8 (Header.l_begin_rec (exr_lay 0 0 4 4)) (exr_lay 0 0 4 4)
           (false :: true :: nil) = true /\
         begins_agree_redef
           {|
             Header.h_format := 2;
             Header.h_numrecs := 3;
             Header.h_dims := exb_dims;
             Header.h_gatts := nil;
             Header.h_vars :=
               exb_var 97 (1%Z :: 2%Z :: nil) 3 :: exb_var 98 (0%Z :: 1%Z :: nil) 5 :: nil
           |} 2000 64 4 4 (Header.l_begin_rec (exr_lay 0 0 4 4)) (exr_lay 0 0 4 4)
           (false :: true :: nil) = true /\
         begins_agree_redef
           {|
             Header.h_format := 2;
             Header.h_numrecs := 3;
             Header.h_dims := exb_dims;
             Header.h_gatts := nil;
             Header.h_vars :=
               exb_var 96 (0%Z :: 2%Z :: nil) 4
               :: exb_var 97 (1%Z :: 2%Z :: nil) 3 :: exb_var 98 (0%Z :: 1%Z :: nil) 5 :: nil
           |} 0 0 4 4 (Header.l_begin_rec (exr_lay 0 100 512 4)) (exr_lay 0 100 512 4)
           (false :: true :: nil) = true /\
         begins_agree_redef
           {|
             Header.h_format := 2;
             Header.h_numrecs := 3;
             Header.h_dims := exb_dims;
             Header.h_gatts := nil;
             Header.h_vars :=
               exb_var 97 (1%Z :: 2%Z :: nil) 3 :: exb_var 98 (0%Z :: 1%Z :: nil) 5 :: nil
           |} 0 0 4 4 0 (exr_lay 0 100 512 4) (false :: true :: nil) = true.
Proof. exact @gen_begins_redef_runs. Qed.
Print Assumptions C06_gen_begins_redef_runs.

(* the WHOLE generated NC_begins in an enddef after redef (ncp->old != NULL, view c_view_nc_redef2 = what Exec.do_enddef passes: old layout and is-record flags), for every header with at least one variable satisfying begins_guards_redef (new-file guards + the old offsets bounded by OB + the potential with 2 OB below 2^63) and with the safe-mode test not taken: NC_EVARSIZE exactly when Header.begins h hm vm ha ra (Some (ol, recs)) pbr is None, else NC_NOERR with xsz, begin_var, begin_rec, recsize and every begin as Header.begins says (nothing moves towards the beginning of the file) *)
Theorem C06_gen_begins_eq_redef :
  forall (h : Header.hdr) (hm vm ha ra pbr flags sm np OB : Z) (ol : Header.layout)
           (recs : list bool),
         Header.h_vars h <> nil ->
         (z2b sm && (np >? 1)%Z)%bool = false ->
         begins_guards_redef h hm vm ha ra pbr OB ol recs ->
         exists (rc : Z) (s' : st_NC_begins),
           NC_begins_c (c_view_nc_redef2 h hm vm ha ra pbr flags sm np ol recs) (Header.hdr_len h) =
           FValS rc s' /\
           match Header.begins h hm vm ha ra (Some (ol, recs)) pbr with
           | Some lay =>
               rc = Gen_consts.NC_NOERR /\
               layout_of_state s' = lay /\
               NC__numrecs (NC_begins__P_ncp s') =
               (if z2b (Z.land flags 32768) then 0%Z else Header.h_numrecs h)
           | None => rc = Gen_consts.NC_EVARSIZE
           end.
Proof. exact @gen_begins_eq_redef. Qed.
Print Assumptions C06_gen_begins_eq_redef.

Theorem C06_begins_guards_redef_ex :
  begins_guards_redef
           {|
             Header.h_format := 2;
             Header.h_numrecs := 3;
             Header.h_dims := exb_dims;
             Header.h_gatts := nil;
             Header.h_vars :=
               exb_var 97 (1%Z :: 2%Z :: nil) 3
               :: exb_var 98 (0%Z :: 1%Z :: nil) 5
                  :: exb_var 99 (2%Z :: nil) 1 :: exb_var 100 (0%Z :: 2%Z :: nil) 6 :: nil
           |} 0 0 4 4 (Header.l_begin_rec (exr_lay 0 0 512 4)) 100000 (exr_lay 0 0 512 4)
           (false :: true :: nil).
Proof. exact @begins_guards_redef_ex. Qed.
Print Assumptions C06_begins_guards_redef_ex.
