(* Properties_C06.v — statements only: each property theorem is stated in full and closed by
   `exact <lemma>`; the lemmas live in the Proofs_*.v files.  Assembled by tools/mkprops.py. *)
(* C06 Redefinition preserves data: the data mover of ncmpio_enddef.c (Move.v) is correct for ALL process *)
(* counts, round sizes, block sizes and shifts (overlapping or not): each round's per-rank tiles partition *)
(* the round, the block arrives intact and no other byte changes; record sections and fixed variables are *)
(* moved last-to-first without clobbering. *)
From Pnc Require Import Proofs_Move.
Set Printing Width 100.

Theorem C06_round_partition :
  forall (np chunk from to left nb : BinNums.Z)
           (xs : list (BinNums.Z * BinNums.Z * BinNums.Z)),
         BinInt.Z.ge np (BinNums.Zpos BinNums.xH) ->
         BinInt.Z.ge chunk (BinNums.Zpos BinNums.xH) ->
         BinInt.Z.gt left BinNums.Z0 ->
         Move.move_round np chunk from to left = (nb, xs) ->
         (BinInt.Z.le BinNums.Z0 nb /\ BinInt.Z.lt nb left) /\
         (nb = BinNums.Z0 \/ nb = BinInt.Z.sub left (BinInt.Z.mul chunk np)) /\
         Base.Zlen xs = np /\
         (forall i : BinNums.Z,
          BinInt.Z.le BinNums.Z0 i /\ BinInt.Z.lt i np ->
          let
          '(fo, to_, c) := Base.znth xs i (BinNums.Z0, BinNums.Z0, BinNums.Z0) in
           (BinInt.Z.le BinNums.Z0 c /\ BinInt.Z.le c chunk) /\
           BinInt.Z.sub to_ fo = BinInt.Z.sub to from /\
           (BinInt.Z.gt c BinNums.Z0 ->
            BinInt.Z.le (BinInt.Z.add from nb) fo /\
            BinInt.Z.le (BinInt.Z.add fo c) (BinInt.Z.add from left))) /\
         (forall x : BinNums.Z,
          BinInt.Z.le (BinInt.Z.add from nb) x /\ BinInt.Z.lt x (BinInt.Z.add from left) ->
          exists i : BinNums.Z,
            (BinInt.Z.le BinNums.Z0 i /\ BinInt.Z.lt i np) /\
            tile_covers (Base.znth xs i (BinNums.Z0, BinNums.Z0, BinNums.Z0)) x /\
            (forall j : BinNums.Z,
             BinInt.Z.le BinNums.Z0 j /\ BinInt.Z.lt j np ->
             tile_covers (Base.znth xs j (BinNums.Z0, BinNums.Z0, BinNums.Z0)) x -> j = i)) /\
         (forall i j x : BinNums.Z,
          BinInt.Z.le BinNums.Z0 i /\ BinInt.Z.lt i np ->
          BinInt.Z.le BinNums.Z0 j /\ BinInt.Z.lt j np ->
          tile_covers (Base.znth xs i (BinNums.Z0, BinNums.Z0, BinNums.Z0)) x ->
          tile_covers (Base.znth xs j (BinNums.Z0, BinNums.Z0, BinNums.Z0)) x -> i = j).
Proof. exact @round_partition. Qed.
Print Assumptions C06_round_partition.

Theorem C06_move_file_block_correct :
  forall (d : Disk.disk) (np unit_ to from n x : BinNums.Z),
         BinInt.Z.ge np (BinNums.Zpos BinNums.xH) ->
         BinInt.Z.ge unit_ (BinNums.Zpos BinNums.xH) ->
         BinInt.Z.le from to ->
         BinInt.Z.le BinNums.Z0 n ->
         Disk.dk_get (Move.move_file_block d np unit_ to from n) x =
         (if (BinInt.Z.leb to x && BinInt.Z.ltb x (BinInt.Z.add to n))%bool
          then Disk.dk_get d (BinInt.Z.sub x (BinInt.Z.sub to from))
          else Disk.dk_get d x).
Proof. exact @move_file_block_correct. Qed.
Print Assumptions C06_move_file_block_correct.

Theorem C06_move_file_block_size :
  forall (d : Disk.disk) (np unit_ to from n : BinNums.Z),
         BinInt.Z.ge np (BinNums.Zpos BinNums.xH) ->
         BinInt.Z.ge unit_ (BinNums.Zpos BinNums.xH) ->
         Disk.dk_size (Move.move_file_block d np unit_ to from n) =
         (if BinInt.Z.ltb BinNums.Z0 n
          then BinInt.Z.max (Disk.dk_size d) (BinInt.Z.add to n)
          else Disk.dk_size d).
Proof. exact @move_file_block_size. Qed.
Print Assumptions C06_move_file_block_size.

Theorem C06_move_record_vars_correct :
  forall (d : Disk.disk) (np unit_ numrecs : BinNums.Z) (nl ol : Header.layout),
         BinInt.Z.ge np (BinNums.Zpos BinNums.xH) ->
         BinInt.Z.ge unit_ (BinNums.Zpos BinNums.xH) ->
         BinInt.Z.le BinNums.Z0 numrecs ->
         BinInt.Z.ge (Header.l_begin_rec nl) (Header.l_begin_rec ol) ->
         BinInt.Z.ge (Header.l_recsize nl) (Header.l_recsize ol) ->
         BinInt.Z.ge (Header.l_recsize ol) BinNums.Z0 ->
         (forall r o : BinNums.Z,
          BinInt.Z.le BinNums.Z0 r /\ BinInt.Z.lt r numrecs ->
          BinInt.Z.le BinNums.Z0 o /\ BinInt.Z.lt o (Header.l_recsize ol) ->
          Disk.dk_get (Move.move_record_vars d np unit_ numrecs nl ol)
            (BinInt.Z.add
               (BinInt.Z.add (Header.l_begin_rec nl) (BinInt.Z.mul r (Header.l_recsize nl))) o) =
          Disk.dk_get d
            (BinInt.Z.add
               (BinInt.Z.add (Header.l_begin_rec ol) (BinInt.Z.mul r (Header.l_recsize ol))) o)) /\
         (forall x : BinNums.Z,
          ~ in_new_record nl ol numrecs x ->
          Disk.dk_get (Move.move_record_vars d np unit_ numrecs nl ol) x = Disk.dk_get d x) /\
         (forall x : BinNums.Z,
          BinInt.Z.lt x (Header.l_begin_rec nl) ->
          Disk.dk_get (Move.move_record_vars d np unit_ numrecs nl ol) x = Disk.dk_get d x).
Proof. exact @move_record_vars_correct. Qed.
Print Assumptions C06_move_record_vars_correct.

Theorem C06_move_fixed_vars_correct :
  forall (d : Disk.disk) (np unit_ : BinNums.Z) (oh : Header.hdr) 
           (nl ol : Header.layout) (newlens : list BinNums.Z),
         BinInt.Z.ge np (BinNums.Zpos BinNums.xH) ->
         BinInt.Z.ge unit_ (BinNums.Zpos BinNums.xH) ->
         fixed_move_ok oh nl ol newlens ->
         (forall i o : BinNums.Z,
          BinInt.Z.le BinNums.Z0 i /\ BinInt.Z.lt i (Base.Zlen (Header.h_vars oh)) ->
          fv_isfix oh i = true ->
          BinInt.Z.le BinNums.Z0 o /\ BinInt.Z.lt o (fv_len newlens i) ->
          Disk.dk_get (Move.move_fixed_vars d np unit_ oh nl ol newlens)
            (BinInt.Z.add (fv_to nl i) o) = Disk.dk_get d (BinInt.Z.add (fv_from ol i) o)) /\
         (forall x : BinNums.Z,
          ~ in_moved_fixed oh nl ol newlens (Base.Zlen (Header.h_vars oh)) x ->
          Disk.dk_get (Move.move_fixed_vars d np unit_ oh nl ol newlens) x = Disk.dk_get d x).
Proof. exact @move_fixed_vars_correct. Qed.
Print Assumptions C06_move_fixed_vars_correct.

Theorem C06_move_fixed_step_no_clobber :
  forall (np unit_ : BinNums.Z) (oh : Header.hdr) (nl ol : Header.layout)
           (newlens : list BinNums.Z) (acc : Disk.disk) (i j o : BinNums.Z),
         BinInt.Z.ge np (BinNums.Zpos BinNums.xH) ->
         BinInt.Z.ge unit_ (BinNums.Zpos BinNums.xH) ->
         fixed_move_ok oh nl ol newlens ->
         BinInt.Z.le BinNums.Z0 i /\ BinInt.Z.lt i (Base.Zlen (Header.h_vars oh)) ->
         BinInt.Z.le BinNums.Z0 j /\ BinInt.Z.lt j (Base.Zlen (Header.h_vars oh)) ->
         fv_isfix oh j = true ->
         BinInt.Z.le BinNums.Z0 o /\ BinInt.Z.lt o (fv_len newlens j) ->
         (BinInt.Z.lt j i ->
          Disk.dk_get (fix_step np unit_ oh nl ol newlens acc i) (BinInt.Z.add (fv_from ol j) o) =
          Disk.dk_get acc (BinInt.Z.add (fv_from ol j) o)) /\
         (BinInt.Z.lt i j ->
          Disk.dk_get (fix_step np unit_ oh nl ol newlens acc i) (BinInt.Z.add (fv_to nl j) o) =
          Disk.dk_get acc (BinInt.Z.add (fv_to nl j) o)).
Proof. exact @move_fixed_step_no_clobber. Qed.
Print Assumptions C06_move_fixed_step_no_clobber.
