(* Collective.v -- MODEL for property C08 (collective calls match on all ranks).

   `exec cfg sh api g root l` = (the sequence of MPI collective operations ONE rank executes inside
   ONE API call, the outcome of the call on that rank).  An element of the sequence is a call
   SITE of the C sources (one constructor of `site` per collective MPI call site of
   src/dispatchers/*.c, src/drivers/ncmpio/*.c, src/drivers/common/*.c as built; the enumeration
   is compared with the generated Gen_collsites.gen_sites by Properties_C08.C08_sites_enumerated)
   together with the TARGET it is issued on (the file's communicator, a size-1 communicator, the
   collective file handle, a file handle opened on MPI_COMM_SELF).

   cfg    : safe mode, romio_no_indep_rw (NC_HCOLL: header I/O collective), intra-node aggregation,
            communicator duplicated, number of processes, data-movement round size
   shared : the state every rank holds identically (mode, numrecs, layouts, ...)
   g      : the results of the reductions of the call (computed by `gsum` from ALL ranks' locals)
   root   : rank = 0
   l      : what THIS rank passes (class of its arguments)

   The code paths followed (file: function):
     dispatchers/var_getput.m4: GETPUT_API, VARN, MVAR, VARD (err_check blocks: safe mode ->
       allreduce_error; fatal -> return; other error -> NC_REQ_ZERO), dispatchers/file.c
       (create/open/enddef/_enddef/redef/close/abort/sync/...), dispatchers/{dimension,variable,
       attribute}.c and attr_getput.m4 (safe-mode consistency blocks),
     drivers/ncmpio: ncmpio_getput.m4 (ncmpio_put/get_var, put_varm, get_varm), ncmpio_wait.c
       (ncmpio_getput_zero_req, ncmpio_wait, req_commit, wait_getput, req_aggregation/mgetput),
       ncmpio_varn.m4, ncmpio_vard.c, ncmpio_filetype.c (ncmpio_file_set_view), ncmpio_file_io.c
       (ncmpio_read_write), ncmpio_sync.c, ncmpio_fill.c, ncmpio_enddef.c, ncmpio_header_put.c
       (ncmpio_write_header), ncmpio_header_get.c (hdr_fetch), ncmpio_create.c, ncmpio_open.c,
       ncmpio_close.c, ncmpio_file_misc.c, ncmpio_intra_node.c (init only; the aggregated write
       path is modelled by its two collective calls), ncmpio_attr/dim/var.c safe-mode blocks.
   Not modelled: failures of MPI calls themselves (every MPI call succeeds), the burst-buffer
   driver, subfiling (not compiled), nprocs = 1 (every collective degenerates; traces are []).
   This file contains NO proofs. *)
From Coq Require Import ZArith List String Bool.
From Pnc Require Import Gen_consts Gen_collsites.
Import ListNotations.
Local Open Scope Z_scope.
Local Open Scope list_scope.

Inductive mpicall : Set :=
| C_Allreduce | C_Bcast | C_Barrier | C_Comm_dup | C_Comm_free | C_Gather | C_Gatherv
| C_File_open | C_File_close | C_File_set_view | C_File_sync
| C_File_read_all | C_File_write_all | C_File_read_at_all | C_File_write_at_all.

Definition call_name (c : mpicall) : string :=
  match c with
  | C_Allreduce => "MPI_Allreduce" | C_Bcast => "MPI_Bcast" | C_Barrier => "MPI_Barrier"
  | C_Comm_dup => "MPI_Comm_dup" | C_Comm_free => "MPI_Comm_free" | C_Gather => "MPI_Gather"
  | C_Gatherv => "MPI_Gatherv" | C_File_open => "MPI_File_open" | C_File_close => "MPI_File_close"
  | C_File_set_view => "MPI_File_set_view" | C_File_sync => "MPI_File_sync"
  | C_File_read_all => "MPI_File_read_all" | C_File_write_all => "MPI_File_write_all"
  | C_File_read_at_all => "MPI_File_read_at_all" | C_File_write_at_all => "MPI_File_write_at_all"
  end%string.

(* ------------------------------------------------------------------ the call sites *)
Inductive site : Set :=
| S_NC_begins_AR1
| S_NC_begins_BC1
| S_allreduce_error_AR1
| S_check_consistency_put_AR1
| S_check_consistency_put_AR2
| S_check_consistency_put_BC1
| S_check_consistency_put_BC2
| S_check_consistency_put_BC3
| S_check_consistency_put_BC4
| S_check_consistency_put_BC5
| S_check_consistency_put_BC6
| S_fill_var_rec_AR1
| S_fill_var_rec_SV1
| S_fill_var_rec_WAA1
| S_fillerup_aggregate_SV1
| S_fillerup_aggregate_SV2
| S_fillerup_aggregate_WAA1
| S_getput_vard_AR1
| S_hdr_fetch_BC1
| S_hdr_fetch_BC2
| S_hdr_fetch_RAA1
| S_hdr_fetch_RAA2
| S_move_file_block_AR1
| S_move_file_block_AR2
| S_move_file_block_RAA1
| S_move_file_block_SV1
| S_move_file_block_WAA1
| S_ncmpi__enddef_AR1
| S_ncmpi__enddef_AR2
| S_ncmpi__enddef_BC1
| S_ncmpi_abort_CFREE1
| S_ncmpi_close_CFREE1
| S_ncmpi_copy_att_AR1
| S_ncmpi_copy_att_AR2
| S_ncmpi_copy_att_BC1
| S_ncmpi_copy_att_BC2
| S_ncmpi_copy_att_BC3
| S_ncmpi_create_AR1
| S_ncmpi_create_BC1
| S_ncmpi_create_DUP1
| S_ncmpi_create_CFREE1
| S_ncmpi_create_CFREE2
| S_ncmpi_def_dim_AR1
| S_ncmpi_def_dim_AR2
| S_ncmpi_def_dim_BC1
| S_ncmpi_def_dim_BC2
| S_ncmpi_def_dim_BC3
| S_ncmpi_def_var_AR1
| S_ncmpi_def_var_AR2
| S_ncmpi_def_var_BC1
| S_ncmpi_def_var_BC2
| S_ncmpi_def_var_BC3
| S_ncmpi_def_var_BC4
| S_ncmpi_def_var_BC5
| S_ncmpi_def_var_fill_AR1
| S_ncmpi_del_att_AR1
| S_ncmpi_del_att_AR2
| S_ncmpi_del_att_BC1
| S_ncmpi_del_att_BC2
| S_ncmpi_del_att_BC3
| S_ncmpi_enddef_AR1
| S_ncmpi_fill_var_rec_AR1
| S_ncmpi_open_AR1
| S_ncmpi_open_BC1
| S_ncmpi_open_DUP1
| S_ncmpi_open_CFREE1
| S_ncmpi_open_CFREE2
| S_ncmpi_open_CFREE3
| S_ncmpi_rename_att_AR1
| S_ncmpi_rename_att_AR2
| S_ncmpi_rename_att_BC1
| S_ncmpi_rename_att_BC2
| S_ncmpi_rename_att_BC3
| S_ncmpi_rename_att_BC4
| S_ncmpi_rename_att_BC5
| S_ncmpi_rename_dim_AR1
| S_ncmpi_rename_dim_AR2
| S_ncmpi_rename_dim_BC1
| S_ncmpi_rename_dim_BC2
| S_ncmpi_rename_dim_BC3
| S_ncmpi_rename_var_AR1
| S_ncmpi_rename_var_AR2
| S_ncmpi_rename_var_BC1
| S_ncmpi_rename_var_BC2
| S_ncmpi_rename_var_BC3
| S_ncmpio__enddef_AR1
| S_ncmpio__enddef_AR2
| S_ncmpio__enddef_AR3
| S_ncmpio__enddef_AR4
| S_ncmpio__enddef_AR5
| S_ncmpio__enddef_AR6
| S_ncmpio_begin_indep_data_FOPEN1
| S_ncmpio_close_BAR1
| S_ncmpio_close_BAR2
| S_ncmpio_close_files_BAR1
| S_ncmpio_close_files_FCLOSE1
| S_ncmpio_close_files_FCLOSE2
| S_ncmpio_copy_att_AR1
| S_ncmpio_create_BC1
| S_ncmpio_create_BC2
| S_ncmpio_create_FOPEN1
| S_ncmpio_def_var_AR1
| S_ncmpio_def_var_fill_AR1
| S_ncmpio_def_var_fill_BC1
| S_ncmpio_def_var_fill_BC2
| S_ncmpio_del_att_AR1
| S_ncmpio_file_set_view_SV1
| S_ncmpio_file_set_view_SV2
| S_ncmpio_file_set_view_SV3
| S_ncmpio_file_sync_FSYNC1
| S_ncmpio_file_sync_FSYNC2
| S_ncmpio_fill_var_rec_AR1
| S_ncmpio_fill_var_rec_BC1
| S_ncmpio_fill_var_rec_BC2
| S_ncmpio_getput_zero_req_RA1
| S_ncmpio_getput_zero_req_SV1
| S_ncmpio_getput_zero_req_WA1
| S_ncmpio_intra_node_aggr_init_BC1
| S_ncmpio_intra_node_aggr_init_GA1
| S_ncmpio_intra_node_aggr_init_GAV1
| S_ncmpio_intra_node_aggr_init_GAV2
| S_ncmpio_open_FOPEN1
| S_ncmpio_put_att_AR1
| S_ncmpio_read_write_RAA1
| S_ncmpio_read_write_WAA1
| S_ncmpio_rename_att_AR1
| S_ncmpio_rename_dim_AR1
| S_ncmpio_rename_var_AR1
| S_ncmpio_set_fill_AR1
| S_ncmpio_set_fill_BC1
| S_ncmpio_sync_numrecs_AR1
| S_ncmpio_sync_numrecs_BC1
| S_ncmpio_write_header_BC1
| S_ncmpio_write_header_WAA1
| S_ncmpio_write_header_WAA2
| S_ncmpio_write_numrecs_WAA1
| S_ncmpio_write_numrecs_WAA2
| S_put_varm_AR1
| S_req_commit_AR1
| S_write_NC_BC1
| S_write_NC_WAA1
| S_write_NC_WAA2.

Definition all_sites : list site := [
  S_NC_begins_AR1;
  S_NC_begins_BC1;
  S_allreduce_error_AR1;
  S_check_consistency_put_AR1;
  S_check_consistency_put_AR2;
  S_check_consistency_put_BC1;
  S_check_consistency_put_BC2;
  S_check_consistency_put_BC3;
  S_check_consistency_put_BC4;
  S_check_consistency_put_BC5;
  S_check_consistency_put_BC6;
  S_fill_var_rec_AR1;
  S_fill_var_rec_SV1;
  S_fill_var_rec_WAA1;
  S_fillerup_aggregate_SV1;
  S_fillerup_aggregate_SV2;
  S_fillerup_aggregate_WAA1;
  S_getput_vard_AR1;
  S_hdr_fetch_BC1;
  S_hdr_fetch_BC2;
  S_hdr_fetch_RAA1;
  S_hdr_fetch_RAA2;
  S_move_file_block_AR1;
  S_move_file_block_AR2;
  S_move_file_block_RAA1;
  S_move_file_block_SV1;
  S_move_file_block_WAA1;
  S_ncmpi__enddef_AR1;
  S_ncmpi__enddef_AR2;
  S_ncmpi__enddef_BC1;
  S_ncmpi_abort_CFREE1;
  S_ncmpi_close_CFREE1;
  S_ncmpi_copy_att_AR1;
  S_ncmpi_copy_att_AR2;
  S_ncmpi_copy_att_BC1;
  S_ncmpi_copy_att_BC2;
  S_ncmpi_copy_att_BC3;
  S_ncmpi_create_AR1;
  S_ncmpi_create_BC1;
  S_ncmpi_create_DUP1;
  S_ncmpi_create_CFREE1;
  S_ncmpi_create_CFREE2;
  S_ncmpi_def_dim_AR1;
  S_ncmpi_def_dim_AR2;
  S_ncmpi_def_dim_BC1;
  S_ncmpi_def_dim_BC2;
  S_ncmpi_def_dim_BC3;
  S_ncmpi_def_var_AR1;
  S_ncmpi_def_var_AR2;
  S_ncmpi_def_var_BC1;
  S_ncmpi_def_var_BC2;
  S_ncmpi_def_var_BC3;
  S_ncmpi_def_var_BC4;
  S_ncmpi_def_var_BC5;
  S_ncmpi_def_var_fill_AR1;
  S_ncmpi_del_att_AR1;
  S_ncmpi_del_att_AR2;
  S_ncmpi_del_att_BC1;
  S_ncmpi_del_att_BC2;
  S_ncmpi_del_att_BC3;
  S_ncmpi_enddef_AR1;
  S_ncmpi_fill_var_rec_AR1;
  S_ncmpi_open_AR1;
  S_ncmpi_open_BC1;
  S_ncmpi_open_DUP1;
  S_ncmpi_open_CFREE1;
  S_ncmpi_open_CFREE2;
  S_ncmpi_open_CFREE3;
  S_ncmpi_rename_att_AR1;
  S_ncmpi_rename_att_AR2;
  S_ncmpi_rename_att_BC1;
  S_ncmpi_rename_att_BC2;
  S_ncmpi_rename_att_BC3;
  S_ncmpi_rename_att_BC4;
  S_ncmpi_rename_att_BC5;
  S_ncmpi_rename_dim_AR1;
  S_ncmpi_rename_dim_AR2;
  S_ncmpi_rename_dim_BC1;
  S_ncmpi_rename_dim_BC2;
  S_ncmpi_rename_dim_BC3;
  S_ncmpi_rename_var_AR1;
  S_ncmpi_rename_var_AR2;
  S_ncmpi_rename_var_BC1;
  S_ncmpi_rename_var_BC2;
  S_ncmpi_rename_var_BC3;
  S_ncmpio__enddef_AR1;
  S_ncmpio__enddef_AR2;
  S_ncmpio__enddef_AR3;
  S_ncmpio__enddef_AR4;
  S_ncmpio__enddef_AR5;
  S_ncmpio__enddef_AR6;
  S_ncmpio_begin_indep_data_FOPEN1;
  S_ncmpio_close_BAR1;
  S_ncmpio_close_BAR2;
  S_ncmpio_close_files_BAR1;
  S_ncmpio_close_files_FCLOSE1;
  S_ncmpio_close_files_FCLOSE2;
  S_ncmpio_copy_att_AR1;
  S_ncmpio_create_BC1;
  S_ncmpio_create_BC2;
  S_ncmpio_create_FOPEN1;
  S_ncmpio_def_var_AR1;
  S_ncmpio_def_var_fill_AR1;
  S_ncmpio_def_var_fill_BC1;
  S_ncmpio_def_var_fill_BC2;
  S_ncmpio_del_att_AR1;
  S_ncmpio_file_set_view_SV1;
  S_ncmpio_file_set_view_SV2;
  S_ncmpio_file_set_view_SV3;
  S_ncmpio_file_sync_FSYNC1;
  S_ncmpio_file_sync_FSYNC2;
  S_ncmpio_fill_var_rec_AR1;
  S_ncmpio_fill_var_rec_BC1;
  S_ncmpio_fill_var_rec_BC2;
  S_ncmpio_getput_zero_req_RA1;
  S_ncmpio_getput_zero_req_SV1;
  S_ncmpio_getput_zero_req_WA1;
  S_ncmpio_intra_node_aggr_init_BC1;
  S_ncmpio_intra_node_aggr_init_GA1;
  S_ncmpio_intra_node_aggr_init_GAV1;
  S_ncmpio_intra_node_aggr_init_GAV2;
  S_ncmpio_open_FOPEN1;
  S_ncmpio_put_att_AR1;
  S_ncmpio_read_write_RAA1;
  S_ncmpio_read_write_WAA1;
  S_ncmpio_rename_att_AR1;
  S_ncmpio_rename_dim_AR1;
  S_ncmpio_rename_var_AR1;
  S_ncmpio_set_fill_AR1;
  S_ncmpio_set_fill_BC1;
  S_ncmpio_sync_numrecs_AR1;
  S_ncmpio_sync_numrecs_BC1;
  S_ncmpio_write_header_BC1;
  S_ncmpio_write_header_WAA1;
  S_ncmpio_write_header_WAA2;
  S_ncmpio_write_numrecs_WAA1;
  S_ncmpio_write_numrecs_WAA2;
  S_put_varm_AR1;
  S_req_commit_AR1;
  S_write_NC_BC1;
  S_write_NC_WAA1;
  S_write_NC_WAA2
].

Definition site_func (s : site) : string :=
  match s with
  | S_NC_begins_AR1 => "NC_begins"
  | S_NC_begins_BC1 => "NC_begins"
  | S_allreduce_error_AR1 => "allreduce_error"
  | S_check_consistency_put_AR1 => "check_consistency_put"
  | S_check_consistency_put_AR2 => "check_consistency_put"
  | S_check_consistency_put_BC1 => "check_consistency_put"
  | S_check_consistency_put_BC2 => "check_consistency_put"
  | S_check_consistency_put_BC3 => "check_consistency_put"
  | S_check_consistency_put_BC4 => "check_consistency_put"
  | S_check_consistency_put_BC5 => "check_consistency_put"
  | S_check_consistency_put_BC6 => "check_consistency_put"
  | S_fill_var_rec_AR1 => "fill_var_rec"
  | S_fill_var_rec_SV1 => "fill_var_rec"
  | S_fill_var_rec_WAA1 => "fill_var_rec"
  | S_fillerup_aggregate_SV1 => "fillerup_aggregate"
  | S_fillerup_aggregate_SV2 => "fillerup_aggregate"
  | S_fillerup_aggregate_WAA1 => "fillerup_aggregate"
  | S_getput_vard_AR1 => "getput_vard"
  | S_hdr_fetch_BC1 => "hdr_fetch"
  | S_hdr_fetch_BC2 => "hdr_fetch"
  | S_hdr_fetch_RAA1 => "hdr_fetch"
  | S_hdr_fetch_RAA2 => "hdr_fetch"
  | S_move_file_block_AR1 => "move_file_block"
  | S_move_file_block_AR2 => "move_file_block"
  | S_move_file_block_RAA1 => "move_file_block"
  | S_move_file_block_SV1 => "move_file_block"
  | S_move_file_block_WAA1 => "move_file_block"
  | S_ncmpi__enddef_AR1 => "ncmpi__enddef"
  | S_ncmpi__enddef_AR2 => "ncmpi__enddef"
  | S_ncmpi__enddef_BC1 => "ncmpi__enddef"
  | S_ncmpi_abort_CFREE1 => "ncmpi_abort"
  | S_ncmpi_close_CFREE1 => "ncmpi_close"
  | S_ncmpi_copy_att_AR1 => "ncmpi_copy_att"
  | S_ncmpi_copy_att_AR2 => "ncmpi_copy_att"
  | S_ncmpi_copy_att_BC1 => "ncmpi_copy_att"
  | S_ncmpi_copy_att_BC2 => "ncmpi_copy_att"
  | S_ncmpi_copy_att_BC3 => "ncmpi_copy_att"
  | S_ncmpi_create_AR1 => "ncmpi_create"
  | S_ncmpi_create_BC1 => "ncmpi_create"
  | S_ncmpi_create_DUP1 => "ncmpi_create"
  | S_ncmpi_create_CFREE1 => "ncmpi_create"
  | S_ncmpi_create_CFREE2 => "ncmpi_create"
  | S_ncmpi_def_dim_AR1 => "ncmpi_def_dim"
  | S_ncmpi_def_dim_AR2 => "ncmpi_def_dim"
  | S_ncmpi_def_dim_BC1 => "ncmpi_def_dim"
  | S_ncmpi_def_dim_BC2 => "ncmpi_def_dim"
  | S_ncmpi_def_dim_BC3 => "ncmpi_def_dim"
  | S_ncmpi_def_var_AR1 => "ncmpi_def_var"
  | S_ncmpi_def_var_AR2 => "ncmpi_def_var"
  | S_ncmpi_def_var_BC1 => "ncmpi_def_var"
  | S_ncmpi_def_var_BC2 => "ncmpi_def_var"
  | S_ncmpi_def_var_BC3 => "ncmpi_def_var"
  | S_ncmpi_def_var_BC4 => "ncmpi_def_var"
  | S_ncmpi_def_var_BC5 => "ncmpi_def_var"
  | S_ncmpi_def_var_fill_AR1 => "ncmpi_def_var_fill"
  | S_ncmpi_del_att_AR1 => "ncmpi_del_att"
  | S_ncmpi_del_att_AR2 => "ncmpi_del_att"
  | S_ncmpi_del_att_BC1 => "ncmpi_del_att"
  | S_ncmpi_del_att_BC2 => "ncmpi_del_att"
  | S_ncmpi_del_att_BC3 => "ncmpi_del_att"
  | S_ncmpi_enddef_AR1 => "ncmpi_enddef"
  | S_ncmpi_fill_var_rec_AR1 => "ncmpi_fill_var_rec"
  | S_ncmpi_open_AR1 => "ncmpi_open"
  | S_ncmpi_open_BC1 => "ncmpi_open"
  | S_ncmpi_open_DUP1 => "ncmpi_open"
  | S_ncmpi_open_CFREE1 => "ncmpi_open"
  | S_ncmpi_open_CFREE2 => "ncmpi_open"
  | S_ncmpi_open_CFREE3 => "ncmpi_open"
  | S_ncmpi_rename_att_AR1 => "ncmpi_rename_att"
  | S_ncmpi_rename_att_AR2 => "ncmpi_rename_att"
  | S_ncmpi_rename_att_BC1 => "ncmpi_rename_att"
  | S_ncmpi_rename_att_BC2 => "ncmpi_rename_att"
  | S_ncmpi_rename_att_BC3 => "ncmpi_rename_att"
  | S_ncmpi_rename_att_BC4 => "ncmpi_rename_att"
  | S_ncmpi_rename_att_BC5 => "ncmpi_rename_att"
  | S_ncmpi_rename_dim_AR1 => "ncmpi_rename_dim"
  | S_ncmpi_rename_dim_AR2 => "ncmpi_rename_dim"
  | S_ncmpi_rename_dim_BC1 => "ncmpi_rename_dim"
  | S_ncmpi_rename_dim_BC2 => "ncmpi_rename_dim"
  | S_ncmpi_rename_dim_BC3 => "ncmpi_rename_dim"
  | S_ncmpi_rename_var_AR1 => "ncmpi_rename_var"
  | S_ncmpi_rename_var_AR2 => "ncmpi_rename_var"
  | S_ncmpi_rename_var_BC1 => "ncmpi_rename_var"
  | S_ncmpi_rename_var_BC2 => "ncmpi_rename_var"
  | S_ncmpi_rename_var_BC3 => "ncmpi_rename_var"
  | S_ncmpio__enddef_AR1 => "ncmpio__enddef"
  | S_ncmpio__enddef_AR2 => "ncmpio__enddef"
  | S_ncmpio__enddef_AR3 => "ncmpio__enddef"
  | S_ncmpio__enddef_AR4 => "ncmpio__enddef"
  | S_ncmpio__enddef_AR5 => "ncmpio__enddef"
  | S_ncmpio__enddef_AR6 => "ncmpio__enddef"
  | S_ncmpio_begin_indep_data_FOPEN1 => "ncmpio_begin_indep_data"
  | S_ncmpio_close_BAR1 => "ncmpio_close"
  | S_ncmpio_close_BAR2 => "ncmpio_close"
  | S_ncmpio_close_files_BAR1 => "ncmpio_close_files"
  | S_ncmpio_close_files_FCLOSE1 => "ncmpio_close_files"
  | S_ncmpio_close_files_FCLOSE2 => "ncmpio_close_files"
  | S_ncmpio_copy_att_AR1 => "ncmpio_copy_att"
  | S_ncmpio_create_BC1 => "ncmpio_create"
  | S_ncmpio_create_BC2 => "ncmpio_create"
  | S_ncmpio_create_FOPEN1 => "ncmpio_create"
  | S_ncmpio_def_var_AR1 => "ncmpio_def_var"
  | S_ncmpio_def_var_fill_AR1 => "ncmpio_def_var_fill"
  | S_ncmpio_def_var_fill_BC1 => "ncmpio_def_var_fill"
  | S_ncmpio_def_var_fill_BC2 => "ncmpio_def_var_fill"
  | S_ncmpio_del_att_AR1 => "ncmpio_del_att"
  | S_ncmpio_file_set_view_SV1 => "ncmpio_file_set_view"
  | S_ncmpio_file_set_view_SV2 => "ncmpio_file_set_view"
  | S_ncmpio_file_set_view_SV3 => "ncmpio_file_set_view"
  | S_ncmpio_file_sync_FSYNC1 => "ncmpio_file_sync"
  | S_ncmpio_file_sync_FSYNC2 => "ncmpio_file_sync"
  | S_ncmpio_fill_var_rec_AR1 => "ncmpio_fill_var_rec"
  | S_ncmpio_fill_var_rec_BC1 => "ncmpio_fill_var_rec"
  | S_ncmpio_fill_var_rec_BC2 => "ncmpio_fill_var_rec"
  | S_ncmpio_getput_zero_req_RA1 => "ncmpio_getput_zero_req"
  | S_ncmpio_getput_zero_req_SV1 => "ncmpio_getput_zero_req"
  | S_ncmpio_getput_zero_req_WA1 => "ncmpio_getput_zero_req"
  | S_ncmpio_intra_node_aggr_init_BC1 => "ncmpio_intra_node_aggr_init"
  | S_ncmpio_intra_node_aggr_init_GA1 => "ncmpio_intra_node_aggr_init"
  | S_ncmpio_intra_node_aggr_init_GAV1 => "ncmpio_intra_node_aggr_init"
  | S_ncmpio_intra_node_aggr_init_GAV2 => "ncmpio_intra_node_aggr_init"
  | S_ncmpio_open_FOPEN1 => "ncmpio_open"
  | S_ncmpio_put_att_AR1 => "ncmpio_put_att"
  | S_ncmpio_read_write_RAA1 => "ncmpio_read_write"
  | S_ncmpio_read_write_WAA1 => "ncmpio_read_write"
  | S_ncmpio_rename_att_AR1 => "ncmpio_rename_att"
  | S_ncmpio_rename_dim_AR1 => "ncmpio_rename_dim"
  | S_ncmpio_rename_var_AR1 => "ncmpio_rename_var"
  | S_ncmpio_set_fill_AR1 => "ncmpio_set_fill"
  | S_ncmpio_set_fill_BC1 => "ncmpio_set_fill"
  | S_ncmpio_sync_numrecs_AR1 => "ncmpio_sync_numrecs"
  | S_ncmpio_sync_numrecs_BC1 => "ncmpio_sync_numrecs"
  | S_ncmpio_write_header_BC1 => "ncmpio_write_header"
  | S_ncmpio_write_header_WAA1 => "ncmpio_write_header"
  | S_ncmpio_write_header_WAA2 => "ncmpio_write_header"
  | S_ncmpio_write_numrecs_WAA1 => "ncmpio_write_numrecs"
  | S_ncmpio_write_numrecs_WAA2 => "ncmpio_write_numrecs"
  | S_put_varm_AR1 => "put_varm"
  | S_req_commit_AR1 => "req_commit"
  | S_write_NC_BC1 => "write_NC"
  | S_write_NC_WAA1 => "write_NC"
  | S_write_NC_WAA2 => "write_NC"
  end.

Definition site_call (s : site) : mpicall :=
  match s with
  | S_NC_begins_AR1 => C_Allreduce
  | S_NC_begins_BC1 => C_Bcast
  | S_allreduce_error_AR1 => C_Allreduce
  | S_check_consistency_put_AR1 => C_Allreduce
  | S_check_consistency_put_AR2 => C_Allreduce
  | S_check_consistency_put_BC1 => C_Bcast
  | S_check_consistency_put_BC2 => C_Bcast
  | S_check_consistency_put_BC3 => C_Bcast
  | S_check_consistency_put_BC4 => C_Bcast
  | S_check_consistency_put_BC5 => C_Bcast
  | S_check_consistency_put_BC6 => C_Bcast
  | S_fill_var_rec_AR1 => C_Allreduce
  | S_fill_var_rec_SV1 => C_File_set_view
  | S_fill_var_rec_WAA1 => C_File_write_at_all
  | S_fillerup_aggregate_SV1 => C_File_set_view
  | S_fillerup_aggregate_SV2 => C_File_set_view
  | S_fillerup_aggregate_WAA1 => C_File_write_at_all
  | S_getput_vard_AR1 => C_Allreduce
  | S_hdr_fetch_BC1 => C_Bcast
  | S_hdr_fetch_BC2 => C_Bcast
  | S_hdr_fetch_RAA1 => C_File_read_at_all
  | S_hdr_fetch_RAA2 => C_File_read_at_all
  | S_move_file_block_AR1 => C_Allreduce
  | S_move_file_block_AR2 => C_Allreduce
  | S_move_file_block_RAA1 => C_File_read_at_all
  | S_move_file_block_SV1 => C_File_set_view
  | S_move_file_block_WAA1 => C_File_write_at_all
  | S_ncmpi__enddef_AR1 => C_Allreduce
  | S_ncmpi__enddef_AR2 => C_Allreduce
  | S_ncmpi__enddef_BC1 => C_Bcast
  | S_ncmpi_abort_CFREE1 => C_Comm_free
  | S_ncmpi_close_CFREE1 => C_Comm_free
  | S_ncmpi_copy_att_AR1 => C_Allreduce
  | S_ncmpi_copy_att_AR2 => C_Allreduce
  | S_ncmpi_copy_att_BC1 => C_Bcast
  | S_ncmpi_copy_att_BC2 => C_Bcast
  | S_ncmpi_copy_att_BC3 => C_Bcast
  | S_ncmpi_create_AR1 => C_Allreduce
  | S_ncmpi_create_BC1 => C_Bcast
  | S_ncmpi_create_DUP1 => C_Comm_dup
  | S_ncmpi_create_CFREE1 => C_Comm_free
  | S_ncmpi_create_CFREE2 => C_Comm_free
  | S_ncmpi_def_dim_AR1 => C_Allreduce
  | S_ncmpi_def_dim_AR2 => C_Allreduce
  | S_ncmpi_def_dim_BC1 => C_Bcast
  | S_ncmpi_def_dim_BC2 => C_Bcast
  | S_ncmpi_def_dim_BC3 => C_Bcast
  | S_ncmpi_def_var_AR1 => C_Allreduce
  | S_ncmpi_def_var_AR2 => C_Allreduce
  | S_ncmpi_def_var_BC1 => C_Bcast
  | S_ncmpi_def_var_BC2 => C_Bcast
  | S_ncmpi_def_var_BC3 => C_Bcast
  | S_ncmpi_def_var_BC4 => C_Bcast
  | S_ncmpi_def_var_BC5 => C_Bcast
  | S_ncmpi_def_var_fill_AR1 => C_Allreduce
  | S_ncmpi_del_att_AR1 => C_Allreduce
  | S_ncmpi_del_att_AR2 => C_Allreduce
  | S_ncmpi_del_att_BC1 => C_Bcast
  | S_ncmpi_del_att_BC2 => C_Bcast
  | S_ncmpi_del_att_BC3 => C_Bcast
  | S_ncmpi_enddef_AR1 => C_Allreduce
  | S_ncmpi_fill_var_rec_AR1 => C_Allreduce
  | S_ncmpi_open_AR1 => C_Allreduce
  | S_ncmpi_open_BC1 => C_Bcast
  | S_ncmpi_open_DUP1 => C_Comm_dup
  | S_ncmpi_open_CFREE1 => C_Comm_free
  | S_ncmpi_open_CFREE2 => C_Comm_free
  | S_ncmpi_open_CFREE3 => C_Comm_free
  | S_ncmpi_rename_att_AR1 => C_Allreduce
  | S_ncmpi_rename_att_AR2 => C_Allreduce
  | S_ncmpi_rename_att_BC1 => C_Bcast
  | S_ncmpi_rename_att_BC2 => C_Bcast
  | S_ncmpi_rename_att_BC3 => C_Bcast
  | S_ncmpi_rename_att_BC4 => C_Bcast
  | S_ncmpi_rename_att_BC5 => C_Bcast
  | S_ncmpi_rename_dim_AR1 => C_Allreduce
  | S_ncmpi_rename_dim_AR2 => C_Allreduce
  | S_ncmpi_rename_dim_BC1 => C_Bcast
  | S_ncmpi_rename_dim_BC2 => C_Bcast
  | S_ncmpi_rename_dim_BC3 => C_Bcast
  | S_ncmpi_rename_var_AR1 => C_Allreduce
  | S_ncmpi_rename_var_AR2 => C_Allreduce
  | S_ncmpi_rename_var_BC1 => C_Bcast
  | S_ncmpi_rename_var_BC2 => C_Bcast
  | S_ncmpi_rename_var_BC3 => C_Bcast
  | S_ncmpio__enddef_AR1 => C_Allreduce
  | S_ncmpio__enddef_AR2 => C_Allreduce
  | S_ncmpio__enddef_AR3 => C_Allreduce
  | S_ncmpio__enddef_AR4 => C_Allreduce
  | S_ncmpio__enddef_AR5 => C_Allreduce
  | S_ncmpio__enddef_AR6 => C_Allreduce
  | S_ncmpio_begin_indep_data_FOPEN1 => C_File_open
  | S_ncmpio_close_BAR1 => C_Barrier
  | S_ncmpio_close_BAR2 => C_Barrier
  | S_ncmpio_close_files_BAR1 => C_Barrier
  | S_ncmpio_close_files_FCLOSE1 => C_File_close
  | S_ncmpio_close_files_FCLOSE2 => C_File_close
  | S_ncmpio_copy_att_AR1 => C_Allreduce
  | S_ncmpio_create_BC1 => C_Bcast
  | S_ncmpio_create_BC2 => C_Bcast
  | S_ncmpio_create_FOPEN1 => C_File_open
  | S_ncmpio_def_var_AR1 => C_Allreduce
  | S_ncmpio_def_var_fill_AR1 => C_Allreduce
  | S_ncmpio_def_var_fill_BC1 => C_Bcast
  | S_ncmpio_def_var_fill_BC2 => C_Bcast
  | S_ncmpio_del_att_AR1 => C_Allreduce
  | S_ncmpio_file_set_view_SV1 => C_File_set_view
  | S_ncmpio_file_set_view_SV2 => C_File_set_view
  | S_ncmpio_file_set_view_SV3 => C_File_set_view
  | S_ncmpio_file_sync_FSYNC1 => C_File_sync
  | S_ncmpio_file_sync_FSYNC2 => C_File_sync
  | S_ncmpio_fill_var_rec_AR1 => C_Allreduce
  | S_ncmpio_fill_var_rec_BC1 => C_Bcast
  | S_ncmpio_fill_var_rec_BC2 => C_Bcast
  | S_ncmpio_getput_zero_req_RA1 => C_File_read_all
  | S_ncmpio_getput_zero_req_SV1 => C_File_set_view
  | S_ncmpio_getput_zero_req_WA1 => C_File_write_all
  | S_ncmpio_intra_node_aggr_init_BC1 => C_Bcast
  | S_ncmpio_intra_node_aggr_init_GA1 => C_Gather
  | S_ncmpio_intra_node_aggr_init_GAV1 => C_Gatherv
  | S_ncmpio_intra_node_aggr_init_GAV2 => C_Gatherv
  | S_ncmpio_open_FOPEN1 => C_File_open
  | S_ncmpio_put_att_AR1 => C_Allreduce
  | S_ncmpio_read_write_RAA1 => C_File_read_at_all
  | S_ncmpio_read_write_WAA1 => C_File_write_at_all
  | S_ncmpio_rename_att_AR1 => C_Allreduce
  | S_ncmpio_rename_dim_AR1 => C_Allreduce
  | S_ncmpio_rename_var_AR1 => C_Allreduce
  | S_ncmpio_set_fill_AR1 => C_Allreduce
  | S_ncmpio_set_fill_BC1 => C_Bcast
  | S_ncmpio_sync_numrecs_AR1 => C_Allreduce
  | S_ncmpio_sync_numrecs_BC1 => C_Bcast
  | S_ncmpio_write_header_BC1 => C_Bcast
  | S_ncmpio_write_header_WAA1 => C_File_write_at_all
  | S_ncmpio_write_header_WAA2 => C_File_write_at_all
  | S_ncmpio_write_numrecs_WAA1 => C_File_write_at_all
  | S_ncmpio_write_numrecs_WAA2 => C_File_write_at_all
  | S_put_varm_AR1 => C_Allreduce
  | S_req_commit_AR1 => C_Allreduce
  | S_write_NC_BC1 => C_Bcast
  | S_write_NC_WAA1 => C_File_write_at_all
  | S_write_NC_WAA2 => C_File_write_at_all
  end.

Definition site_ord (s : site) : nat :=
  match s with
  | S_NC_begins_AR1 => 1
  | S_NC_begins_BC1 => 1
  | S_allreduce_error_AR1 => 1
  | S_check_consistency_put_AR1 => 1
  | S_check_consistency_put_AR2 => 2
  | S_check_consistency_put_BC1 => 1
  | S_check_consistency_put_BC2 => 2
  | S_check_consistency_put_BC3 => 3
  | S_check_consistency_put_BC4 => 4
  | S_check_consistency_put_BC5 => 5
  | S_check_consistency_put_BC6 => 6
  | S_fill_var_rec_AR1 => 1
  | S_fill_var_rec_SV1 => 1
  | S_fill_var_rec_WAA1 => 1
  | S_fillerup_aggregate_SV1 => 1
  | S_fillerup_aggregate_SV2 => 2
  | S_fillerup_aggregate_WAA1 => 1
  | S_getput_vard_AR1 => 1
  | S_hdr_fetch_BC1 => 1
  | S_hdr_fetch_BC2 => 2
  | S_hdr_fetch_RAA1 => 1
  | S_hdr_fetch_RAA2 => 2
  | S_move_file_block_AR1 => 1
  | S_move_file_block_AR2 => 2
  | S_move_file_block_RAA1 => 1
  | S_move_file_block_SV1 => 1
  | S_move_file_block_WAA1 => 1
  | S_ncmpi__enddef_AR1 => 1
  | S_ncmpi__enddef_AR2 => 2
  | S_ncmpi__enddef_BC1 => 1
  | S_ncmpi_abort_CFREE1 => 1
  | S_ncmpi_close_CFREE1 => 1
  | S_ncmpi_copy_att_AR1 => 1
  | S_ncmpi_copy_att_AR2 => 2
  | S_ncmpi_copy_att_BC1 => 1
  | S_ncmpi_copy_att_BC2 => 2
  | S_ncmpi_copy_att_BC3 => 3
  | S_ncmpi_create_AR1 => 1
  | S_ncmpi_create_BC1 => 1
  | S_ncmpi_create_DUP1 => 1
  | S_ncmpi_create_CFREE1 => 1
  | S_ncmpi_create_CFREE2 => 2
  | S_ncmpi_def_dim_AR1 => 1
  | S_ncmpi_def_dim_AR2 => 2
  | S_ncmpi_def_dim_BC1 => 1
  | S_ncmpi_def_dim_BC2 => 2
  | S_ncmpi_def_dim_BC3 => 3
  | S_ncmpi_def_var_AR1 => 1
  | S_ncmpi_def_var_AR2 => 2
  | S_ncmpi_def_var_BC1 => 1
  | S_ncmpi_def_var_BC2 => 2
  | S_ncmpi_def_var_BC3 => 3
  | S_ncmpi_def_var_BC4 => 4
  | S_ncmpi_def_var_BC5 => 5
  | S_ncmpi_def_var_fill_AR1 => 1
  | S_ncmpi_del_att_AR1 => 1
  | S_ncmpi_del_att_AR2 => 2
  | S_ncmpi_del_att_BC1 => 1
  | S_ncmpi_del_att_BC2 => 2
  | S_ncmpi_del_att_BC3 => 3
  | S_ncmpi_enddef_AR1 => 1
  | S_ncmpi_fill_var_rec_AR1 => 1
  | S_ncmpi_open_AR1 => 1
  | S_ncmpi_open_BC1 => 1
  | S_ncmpi_open_DUP1 => 1
  | S_ncmpi_open_CFREE1 => 1
  | S_ncmpi_open_CFREE2 => 2
  | S_ncmpi_open_CFREE3 => 3
  | S_ncmpi_rename_att_AR1 => 1
  | S_ncmpi_rename_att_AR2 => 2
  | S_ncmpi_rename_att_BC1 => 1
  | S_ncmpi_rename_att_BC2 => 2
  | S_ncmpi_rename_att_BC3 => 3
  | S_ncmpi_rename_att_BC4 => 4
  | S_ncmpi_rename_att_BC5 => 5
  | S_ncmpi_rename_dim_AR1 => 1
  | S_ncmpi_rename_dim_AR2 => 2
  | S_ncmpi_rename_dim_BC1 => 1
  | S_ncmpi_rename_dim_BC2 => 2
  | S_ncmpi_rename_dim_BC3 => 3
  | S_ncmpi_rename_var_AR1 => 1
  | S_ncmpi_rename_var_AR2 => 2
  | S_ncmpi_rename_var_BC1 => 1
  | S_ncmpi_rename_var_BC2 => 2
  | S_ncmpi_rename_var_BC3 => 3
  | S_ncmpio__enddef_AR1 => 1
  | S_ncmpio__enddef_AR2 => 2
  | S_ncmpio__enddef_AR3 => 3
  | S_ncmpio__enddef_AR4 => 4
  | S_ncmpio__enddef_AR5 => 5
  | S_ncmpio__enddef_AR6 => 6
  | S_ncmpio_begin_indep_data_FOPEN1 => 1
  | S_ncmpio_close_BAR1 => 1
  | S_ncmpio_close_BAR2 => 2
  | S_ncmpio_close_files_BAR1 => 1
  | S_ncmpio_close_files_FCLOSE1 => 1
  | S_ncmpio_close_files_FCLOSE2 => 2
  | S_ncmpio_copy_att_AR1 => 1
  | S_ncmpio_create_BC1 => 1
  | S_ncmpio_create_BC2 => 2
  | S_ncmpio_create_FOPEN1 => 1
  | S_ncmpio_def_var_AR1 => 1
  | S_ncmpio_def_var_fill_AR1 => 1
  | S_ncmpio_def_var_fill_BC1 => 1
  | S_ncmpio_def_var_fill_BC2 => 2
  | S_ncmpio_del_att_AR1 => 1
  | S_ncmpio_file_set_view_SV1 => 1
  | S_ncmpio_file_set_view_SV2 => 2
  | S_ncmpio_file_set_view_SV3 => 3
  | S_ncmpio_file_sync_FSYNC1 => 1
  | S_ncmpio_file_sync_FSYNC2 => 2
  | S_ncmpio_fill_var_rec_AR1 => 1
  | S_ncmpio_fill_var_rec_BC1 => 1
  | S_ncmpio_fill_var_rec_BC2 => 2
  | S_ncmpio_getput_zero_req_RA1 => 1
  | S_ncmpio_getput_zero_req_SV1 => 1
  | S_ncmpio_getput_zero_req_WA1 => 1
  | S_ncmpio_intra_node_aggr_init_BC1 => 1
  | S_ncmpio_intra_node_aggr_init_GA1 => 1
  | S_ncmpio_intra_node_aggr_init_GAV1 => 1
  | S_ncmpio_intra_node_aggr_init_GAV2 => 2
  | S_ncmpio_open_FOPEN1 => 1
  | S_ncmpio_put_att_AR1 => 1
  | S_ncmpio_read_write_RAA1 => 1
  | S_ncmpio_read_write_WAA1 => 1
  | S_ncmpio_rename_att_AR1 => 1
  | S_ncmpio_rename_dim_AR1 => 1
  | S_ncmpio_rename_var_AR1 => 1
  | S_ncmpio_set_fill_AR1 => 1
  | S_ncmpio_set_fill_BC1 => 1
  | S_ncmpio_sync_numrecs_AR1 => 1
  | S_ncmpio_sync_numrecs_BC1 => 1
  | S_ncmpio_write_header_BC1 => 1
  | S_ncmpio_write_header_WAA1 => 1
  | S_ncmpio_write_header_WAA2 => 2
  | S_ncmpio_write_numrecs_WAA1 => 1
  | S_ncmpio_write_numrecs_WAA2 => 2
  | S_put_varm_AR1 => 1
  | S_req_commit_AR1 => 1
  | S_write_NC_BC1 => 1
  | S_write_NC_WAA1 => 1
  | S_write_NC_WAA2 => 2
  end.

Definition site_idx (s : site) : nat :=
  match s with
  | S_NC_begins_AR1 => 0
  | S_NC_begins_BC1 => 1
  | S_allreduce_error_AR1 => 2
  | S_check_consistency_put_AR1 => 3
  | S_check_consistency_put_AR2 => 4
  | S_check_consistency_put_BC1 => 5
  | S_check_consistency_put_BC2 => 6
  | S_check_consistency_put_BC3 => 7
  | S_check_consistency_put_BC4 => 8
  | S_check_consistency_put_BC5 => 9
  | S_check_consistency_put_BC6 => 10
  | S_fill_var_rec_AR1 => 11
  | S_fill_var_rec_SV1 => 12
  | S_fill_var_rec_WAA1 => 13
  | S_fillerup_aggregate_SV1 => 14
  | S_fillerup_aggregate_SV2 => 15
  | S_fillerup_aggregate_WAA1 => 16
  | S_getput_vard_AR1 => 17
  | S_hdr_fetch_BC1 => 18
  | S_hdr_fetch_BC2 => 19
  | S_hdr_fetch_RAA1 => 20
  | S_hdr_fetch_RAA2 => 21
  | S_move_file_block_AR1 => 22
  | S_move_file_block_AR2 => 23
  | S_move_file_block_RAA1 => 24
  | S_move_file_block_SV1 => 25
  | S_move_file_block_WAA1 => 26
  | S_ncmpi__enddef_AR1 => 27
  | S_ncmpi__enddef_AR2 => 28
  | S_ncmpi__enddef_BC1 => 29
  | S_ncmpi_abort_CFREE1 => 30
  | S_ncmpi_close_CFREE1 => 31
  | S_ncmpi_copy_att_AR1 => 32
  | S_ncmpi_copy_att_AR2 => 33
  | S_ncmpi_copy_att_BC1 => 34
  | S_ncmpi_copy_att_BC2 => 35
  | S_ncmpi_copy_att_BC3 => 36
  | S_ncmpi_create_AR1 => 37
  | S_ncmpi_create_BC1 => 38
  | S_ncmpi_create_DUP1 => 39
  | S_ncmpi_create_CFREE1 => 40
  | S_ncmpi_create_CFREE2 => 41
  | S_ncmpi_def_dim_AR1 => 42
  | S_ncmpi_def_dim_AR2 => 43
  | S_ncmpi_def_dim_BC1 => 44
  | S_ncmpi_def_dim_BC2 => 45
  | S_ncmpi_def_dim_BC3 => 46
  | S_ncmpi_def_var_AR1 => 47
  | S_ncmpi_def_var_AR2 => 48
  | S_ncmpi_def_var_BC1 => 49
  | S_ncmpi_def_var_BC2 => 50
  | S_ncmpi_def_var_BC3 => 51
  | S_ncmpi_def_var_BC4 => 52
  | S_ncmpi_def_var_BC5 => 53
  | S_ncmpi_def_var_fill_AR1 => 54
  | S_ncmpi_del_att_AR1 => 55
  | S_ncmpi_del_att_AR2 => 56
  | S_ncmpi_del_att_BC1 => 57
  | S_ncmpi_del_att_BC2 => 58
  | S_ncmpi_del_att_BC3 => 59
  | S_ncmpi_enddef_AR1 => 60
  | S_ncmpi_fill_var_rec_AR1 => 61
  | S_ncmpi_open_AR1 => 62
  | S_ncmpi_open_BC1 => 63
  | S_ncmpi_open_DUP1 => 64
  | S_ncmpi_open_CFREE1 => 65
  | S_ncmpi_open_CFREE2 => 66
  | S_ncmpi_open_CFREE3 => 67
  | S_ncmpi_rename_att_AR1 => 68
  | S_ncmpi_rename_att_AR2 => 69
  | S_ncmpi_rename_att_BC1 => 70
  | S_ncmpi_rename_att_BC2 => 71
  | S_ncmpi_rename_att_BC3 => 72
  | S_ncmpi_rename_att_BC4 => 73
  | S_ncmpi_rename_att_BC5 => 74
  | S_ncmpi_rename_dim_AR1 => 75
  | S_ncmpi_rename_dim_AR2 => 76
  | S_ncmpi_rename_dim_BC1 => 77
  | S_ncmpi_rename_dim_BC2 => 78
  | S_ncmpi_rename_dim_BC3 => 79
  | S_ncmpi_rename_var_AR1 => 80
  | S_ncmpi_rename_var_AR2 => 81
  | S_ncmpi_rename_var_BC1 => 82
  | S_ncmpi_rename_var_BC2 => 83
  | S_ncmpi_rename_var_BC3 => 84
  | S_ncmpio__enddef_AR1 => 85
  | S_ncmpio__enddef_AR2 => 86
  | S_ncmpio__enddef_AR3 => 87
  | S_ncmpio__enddef_AR4 => 88
  | S_ncmpio__enddef_AR5 => 89
  | S_ncmpio__enddef_AR6 => 90
  | S_ncmpio_begin_indep_data_FOPEN1 => 91
  | S_ncmpio_close_BAR1 => 92
  | S_ncmpio_close_BAR2 => 93
  | S_ncmpio_close_files_BAR1 => 94
  | S_ncmpio_close_files_FCLOSE1 => 95
  | S_ncmpio_close_files_FCLOSE2 => 96
  | S_ncmpio_copy_att_AR1 => 97
  | S_ncmpio_create_BC1 => 98
  | S_ncmpio_create_BC2 => 99
  | S_ncmpio_create_FOPEN1 => 100
  | S_ncmpio_def_var_AR1 => 101
  | S_ncmpio_def_var_fill_AR1 => 102
  | S_ncmpio_def_var_fill_BC1 => 103
  | S_ncmpio_def_var_fill_BC2 => 104
  | S_ncmpio_del_att_AR1 => 105
  | S_ncmpio_file_set_view_SV1 => 106
  | S_ncmpio_file_set_view_SV2 => 107
  | S_ncmpio_file_set_view_SV3 => 108
  | S_ncmpio_file_sync_FSYNC1 => 109
  | S_ncmpio_file_sync_FSYNC2 => 110
  | S_ncmpio_fill_var_rec_AR1 => 111
  | S_ncmpio_fill_var_rec_BC1 => 112
  | S_ncmpio_fill_var_rec_BC2 => 113
  | S_ncmpio_getput_zero_req_RA1 => 114
  | S_ncmpio_getput_zero_req_SV1 => 115
  | S_ncmpio_getput_zero_req_WA1 => 116
  | S_ncmpio_intra_node_aggr_init_BC1 => 117
  | S_ncmpio_intra_node_aggr_init_GA1 => 118
  | S_ncmpio_intra_node_aggr_init_GAV1 => 119
  | S_ncmpio_intra_node_aggr_init_GAV2 => 120
  | S_ncmpio_open_FOPEN1 => 121
  | S_ncmpio_put_att_AR1 => 122
  | S_ncmpio_read_write_RAA1 => 123
  | S_ncmpio_read_write_WAA1 => 124
  | S_ncmpio_rename_att_AR1 => 125
  | S_ncmpio_rename_dim_AR1 => 126
  | S_ncmpio_rename_var_AR1 => 127
  | S_ncmpio_set_fill_AR1 => 128
  | S_ncmpio_set_fill_BC1 => 129
  | S_ncmpio_sync_numrecs_AR1 => 130
  | S_ncmpio_sync_numrecs_BC1 => 131
  | S_ncmpio_write_header_BC1 => 132
  | S_ncmpio_write_header_WAA1 => 133
  | S_ncmpio_write_header_WAA2 => 134
  | S_ncmpio_write_numrecs_WAA1 => 135
  | S_ncmpio_write_numrecs_WAA2 => 136
  | S_put_varm_AR1 => 137
  | S_req_commit_AR1 => 138
  | S_write_NC_BC1 => 139
  | S_write_NC_WAA1 => 140
  | S_write_NC_WAA2 => 141
  end.

Definition site_info (s : site) : string * string * nat :=
  (site_func s, call_name (site_call s), site_ord s).

(* ------------------------------------------------------------------ operations and traces *)
Inductive target : Set :=
| TComm      (* the communicator of the file (all ranks) *)
| TSelf      (* a communicator of size 1 *)
| TFhColl    (* ncp->collective_fh: opened on the file's communicator *)
| TFhSelf.   (* ncp->independent_fh or a temporary handle: opened on MPI_COMM_SELF *)

Definition cop : Set := (site * target)%type.
Definition trace : Set := list cop.

(* an operation synchronises with the other ranks iff its target spans them *)
Definition is_global (c : cop) : bool :=
  match snd c with TComm | TFhColl => true | _ => false end.

(* matching classes of MPI calls: read_all / read_at_all (write_all / write_at_all) on the same
   handle are paired by the library by design (ncmpio_getput_zero_req) and are treated as the
   same collective; `strict` below keeps them apart. *)
Inductive ckind : Set :=
| K_Allreduce | K_Bcast | K_Barrier | K_Comm_dup | K_Comm_free | K_Gather | K_Gatherv
| K_File_open | K_File_close | K_File_set_view | K_File_sync | K_File_read_coll | K_File_write_coll.

Definition kind_of (c : mpicall) : ckind :=
  match c with
  | C_Allreduce => K_Allreduce | C_Bcast => K_Bcast | C_Barrier => K_Barrier
  | C_Comm_dup => K_Comm_dup | C_Comm_free => K_Comm_free | C_Gather => K_Gather
  | C_Gatherv => K_Gatherv | C_File_open => K_File_open | C_File_close => K_File_close
  | C_File_set_view => K_File_set_view | C_File_sync => K_File_sync
  | C_File_read_all | C_File_read_at_all => K_File_read_coll
  | C_File_write_all | C_File_write_at_all => K_File_write_coll
  end.

Definition nop (c : cop) : ckind * target := (kind_of (site_call (fst c)), snd c).
Definition sop (c : cop) : mpicall * target := (site_call (fst c), snd c).

(* what the other ranks can observe of a rank's trace *)
Definition norm (t : trace) : list (ckind * target) := map nop (filter is_global t).
Definition strict (t : trace) : list (mpicall * target) := map sop (filter is_global t).

(* ------------------------------------------------------------------ configuration, shared state *)
Record cfg : Set := mkCfg {
  c_safe : bool;        (* PNETCDF_SAFE_MODE=1 *)
  c_hcoll : bool;       (* hint romio_no_indep_rw=true: NC_HCOLL *)
  c_aggr : bool;        (* intra-node aggregation in force (my_aggr >= 0) *)
  c_dup : bool;         (* communicator is neither MPI_COMM_WORLD nor MPI_COMM_SELF: duplicated *)
  c_nprocs : Z;
  c_move_unit : Z       (* per-rank bytes of one data-movement round (MOVE_UNIT / hook H2) *)
}.
Definition multi (c : cfg) : bool := 1 <? c_nprocs c.

Inductive fmode : Set := MDefine | MColl | MIndep.

Record varlay : Set := mkVl { vl_isrec : bool; vl_begin : Z; vl_len : Z }.

(* a variable defined in the current define phase: record variable?, in fill mode?, number of elements
   (of one record for a record variable) *)
Record newvar : Set := mkNv { nv_isrec : bool; nv_fill : bool; nv_len : Z }.

Record shared : Set := mkSh {
  s_mode : fmode;
  s_rdonly : bool;
  s_isnew : bool;          (* created and never left define mode (ncp->old == NULL, NC_IsNew) *)
  s_nvars : Z;
  s_nrecvars : Z;
  s_numrecs : Z;
  s_indep_open : bool;     (* ncp->independent_fh != MPI_FILE_NULL *)
  s_hdr_chunks : Z;        (* number of pieces the header is written / fetched in *)
  s_newvars : list newvar; (* enddef: the variables that are new in this define phase (all variables of a new file),
                              in definition order: what fillerup_aggregate looks at *)
  s_exists_err : bool;     (* create with NC_NOCLOBBER on an existing file / open: format error *)
  s_noclobber : bool;      (* root's cmode has NC_NOCLOBBER *)
  s_argflag : bool;        (* def_var_fill: the (agreed) arguments set a fill value (no_fill = 0, fill_value <> NULL) *)
  (* layouts before and after NC_begins, for the data movement of enddef after redef *)
  s_old_vars : list varlay; s_new_vars : list varlay;
  s_old_begin_var : Z; s_new_begin_var : Z;
  s_old_begin_rec : Z; s_new_begin_rec : Z;
  s_old_recsize : Z; s_new_recsize : Z
}.

(* ------------------------------------------------------------------ what one rank passes *)
Inductive vkind : Set := VFixed | VRecord | VScalar.

(* a put/get/varn/vard request *)
Record dreq : Set := mkReq {
  d_err : Z;        (* error found by the dispatcher (sanity_check, check_start_count_stride, buftype), 0 = none; never fatal *)
  d_sanity : bool;  (* that error came from sanity_check (varid, NC_ECHAR), i.e. before the variable's rank is looked at *)
  d_vk : vkind;     (* kind of the variable addressed (meaningful when the varid is valid) *)
  d_nonzero : bool; (* the request transfers at least one byte *)
  d_drv_err : Z;    (* error found inside the driver (buftype decode, pack), 0 = none *)
  d_contig : bool;  (* the file view of the request is contiguous (filetype == MPI_BYTE) *)
  d_newrec : Z;     (* number of records the request implies (start[0]+count[0]) *)
  d_num0 : bool;    (* varn: num == 0 *)
  d_nreq : Z        (* varn: number of requests queued by igetput_varn *)
}.

(* wait_all / mput / mget *)
Record wreq : Set := mkW {
  w_err : Z;        (* mput/mget: error found by the dispatcher loop, 0 = none; never fatal *)
  w_nw : Z;         (* number of queued write (sub)requests this call commits *)
  w_nr : Z;         (* number of queued read (sub)requests this call commits *)
  w_badid : bool;   (* wait_all: some request id is not pending (NC_EINVAL_REQUEST) *)
  w_contig : bool;
  w_newrec : Z      (* max_rec over the committed write requests *)
}.

(* fill_var_rec *)
Record freq : Set := mkF {
  f_global : bool;  (* varid == NC_GLOBAL *)
  f_valid : bool;   (* 0 <= varid < nvars *)
  f_isrec : bool;
  f_nofill : bool;  (* variable not in fill mode and has no _FillValue *)
  f_recno : Z;
  f_same : bool     (* (varid, recno) equal to rank 0's *)
}.

(* collective metadata calls, create/open, _enddef:
   e0 = error of this rank's own arguments that makes the dispatcher RETURN AT ONCE, before any
        communication, also in safe mode (empty path in create/open; no metadata call does so since
        commit 85d1c0b4 repaired ncmpi_del_att),
   e1 = error of this rank's own arguments found by the dispatcher (goto err_check),
   e2 = NC_EMULTIDEFINE_* code this rank raises when its arguments differ from rank 0's (0 if equal),
   e3 = error found by the driver *)
Record mreq : Set := mkM { m_e0 : Z; m_e1 : Z; m_e2 : Z; m_e3 : Z }.

Inductive local : Set :=
| LReq (r : dreq) | LWait (w : wreq) | LFill (f : freq) | LMeta (m : mreq) | LNone.

Inductive akind : Set := AK_var | AK_var1 | AK_vara | AK_vars | AK_varm.
Inductive metaapi : Set :=
| M_def_dim | M_def_var | M_def_var_fill | M_set_fill | M_rename_dim | M_rename_var
| M_rename_att | M_put_att | M_del_att | M_copy_att.

Inductive api : Set :=
| A_create | A_open | A_enddef | A__enddef | A_redef | A_begin_indep | A_end_indep
| A_sync | A_sync_numrecs | A_close | A_abort
| A_getput (isget : bool) (k : akind)
| A_varn (isget : bool)
| A_vard (isget : bool)
| A_mgetput (isget : bool)
| A_wait_all
| A_fill_var_rec
| A_meta (m : metaapi).

Definition admissible (a : api) (l : local) : bool :=
  match a, l with
  | (A_create | A_open | A__enddef | A_meta _), LMeta _ => true
  | (A_getput _ _ | A_varn _ | A_vard _), LReq _ => true
  | (A_mgetput _ | A_wait_all | A_close), LWait _ => true   (* close: the requests still pending on this rank *)
  | A_fill_var_rec, LFill _ => true
  | (A_enddef | A_redef | A_begin_indep | A_end_indep | A_sync | A_sync_numrecs | A_close | A_abort), LNone => true
  | _, _ => false
  end.

Definition fatal (e : Z) : bool :=
  (e =? NC_EPERM) || (e =? NC_EINDEFINE) || (e =? NC_EINDEP) || (e =? NC_ENOTINDEP).

(* well-formed arguments: error codes are <= 0, argument errors are not the "fatal" mode errors
   (those are functions of the shared state), counts are >= 0 *)
Definition wf_local (l : local) : bool :=
  match l with
  | LReq r => (d_err r <=? 0) && negb (fatal (d_err r)) && (d_drv_err r <=? 0) && (0 <=? d_nreq r)
  | LWait w => (w_err w <=? 0) && negb (fatal (w_err w)) && (0 <=? w_nw w) && (0 <=? w_nr w)
  | LFill _ => true
  | LMeta m => (m_e0 m <=? 0) && (m_e1 m <=? 0) && (m_e2 m <=? 0) && (m_e3 m <=? 0)
  | LNone => true
  end.

(* ------------------------------------------------------------------ results of the reductions *)
Record gsum : Set := mkG {
  g_min1 : Z;      (* MIN of the error codes entering the first safe-mode Allreduce of the call *)
  g_min2 : Z;      (* ... the second (after the consistency comparison with rank 0) *)
  g_min3 : Z;      (* ... the driver's *)
  g_maxrec : Z;    (* MAX of the record counts (>= the current numrecs) *)
  g_anyw : bool;   (* some rank commits write requests (do_io[1] > 0) *)
  g_anyr : bool;   (* some rank commits read requests  (do_io[0] > 0) *)
  g_anyerr : bool  (* some rank's extract_reqs failed     (do_io[2] != 0) *)
}.

Record contrib : Set := mkK { k_e1 : Z; k_e2 : Z; k_e3 : Z; k_rec : Z; k_w : bool; k_r : bool; k_err : bool }.

(* mode errors raised by sanity_check / the dispatchers from the SHARED state *)
Definition state_err (sh : shared) (isput : bool) : Z :=
  if isput && s_rdonly sh then NC_EPERM
  else match s_mode sh with MDefine => NC_EINDEFINE | MIndep => NC_EINDEP | MColl => 0 end.

Definition is_rec (v : vkind) : bool := match v with VRecord => true | _ => false end.
Definition is_scalar (v : vkind) : bool := match v with VScalar => true | _ => false end.

(* the error the dispatcher of a put/get holds when it reaches err_check *)
Definition disp_err (sh : shared) (isput : bool) (r : dreq) : Z :=
  if state_err sh isput =? 0 then d_err r else state_err sh isput.

(* varn: the dispatcher takes the put_var/get_var path for scalar variables *)
Definition varn_scalar (r : dreq) : bool :=
  negb (negb (d_err r =? 0) && d_sanity r) && negb (d_num0 r) && is_scalar (d_vk r).
Definition varn_zero (r : dreq) : bool := negb (d_err r =? 0) || d_num0 r.
Definition varn_nreq (r : dreq) : Z :=
  if varn_zero r || negb (d_drv_err r =? 0) then 0 else d_nreq r.

(* fill_var_rec: error of the dispatcher (dispatchers/variable.c) *)
Definition fill_derr (sh : shared) (f : freq) : Z :=
  if s_rdonly sh then NC_EPERM
  else match s_mode sh with
       | MDefine => NC_EINDEFINE
       | _ => if f_global f then NC_EGLOBAL
              else if negb (f_valid f) then NC_ENOTVAR
              else if negb (f_isrec f) then NC_ENOTRECVAR
              else match s_mode sh with MIndep => NC_EINDEP | _ => 0 end
       end.
(* ... of the driver (ncmpio_fill_var_rec), before the consistency block *)
Definition fill_drv_err (f : freq) : Z :=
  if negb (f_isrec f) then NC_ENOTRECVAR else if f_nofill f then NC_ENOTFILL else 0.
(* ... after it *)
Definition fill_drv_err2 (f : freq) : Z :=
  if fill_drv_err f =? 0 then (if f_same f then 0 else NC_EMULTIDEFINE_FNC_ARGS) else fill_drv_err f.

Definition contrib_of (sh : shared) (a : api) (l : local) : contrib :=
  let nr := s_numrecs sh in
  match a, l with
  | A_getput isget _, LReq r =>
      let e := disp_err sh (negb isget) r in
      mkK e 0 0 (if negb isget && (e =? 0) && is_rec (d_vk r) && d_nonzero r && (d_drv_err r =? 0) then d_newrec r else nr)
          false false false
  | A_vard isget, LReq r =>
      let e := disp_err sh (negb isget) r in
      mkK e 0 0 (if negb isget && (e =? 0) && is_rec (d_vk r) && d_nonzero r && (d_drv_err r =? 0) then d_newrec r else nr)
          false false false
  | A_varn isget, LReq r =>
      let e := disp_err sh (negb isget) r in
      let q := if varn_scalar r then 0 else varn_nreq r in
      mkK e 0 0 (if negb isget && (e =? 0) && is_rec (d_vk r) && d_nonzero r && negb (d_num0 r) && (d_drv_err r =? 0) then d_newrec r else nr)
          (negb isget && (0 <? q)) (isget && (0 <? q)) false
  | A_mgetput isget, LWait w =>
      let e := if state_err sh (negb isget) =? 0 then w_err w else state_err sh (negb isget) in
      mkK e 0 0 (if (e =? 0) && (0 <? w_nw w) then w_newrec w else nr)
          ((e =? 0) && (0 <? w_nw w)) ((e =? 0) && (0 <? w_nr w)) false
  | A_wait_all, LWait w =>
      mkK 0 0 0 (if 0 <? w_nw w then w_newrec w else nr) (0 <? w_nw w) (0 <? w_nr w) (w_badid w)
  | A_fill_var_rec, LFill f =>
      mkK (fill_derr sh f) 0 (fill_drv_err2 f) (f_recno f + 1) false false false
  | _, LMeta m => mkK (m_e1 m) (m_e2 m) (m_e3 m) nr false false false
  | _, _ => mkK 0 0 0 nr false false false
  end.

Definition gsum_of (sh : shared) (ks : list contrib) : gsum :=
  mkG (fold_right (fun k a => Z.min (k_e1 k) a) 0 ks)
      (fold_right (fun k a => Z.min (k_e2 k) a) 0 ks)
      (fold_right (fun k a => Z.min (k_e3 k) a) 0 ks)
      (fold_right (fun k a => Z.max (k_rec k) a) (s_numrecs sh) ks)
      (existsb k_w ks) (existsb k_r ks) (existsb k_err ks).

(* ------------------------------------------------------------------ building blocks *)
Inductive outcome : Set :=
| Ret (rc : Z) (stored : bool)   (* the call returns rc; stored = this rank's transfer was carried out *)
| Crash.                         (* undefined behaviour; no path of the current sources produces it
                                    (Proofs_Collective.never_crashes); before commit 080701ed ncmpi_fill_var_rec did *)

Fixpoint rep (n : nat) (t : trace) : trace := match n with O => [] | S k => t ++ rep k t end.

(* ncmpio_getput_zero_req *)
Definition zero_req (isget : bool) : trace :=
  [(S_ncmpio_getput_zero_req_SV1, TFhColl);
   (if isget then S_ncmpio_getput_zero_req_RA1 else S_ncmpio_getput_zero_req_WA1, TFhColl)].

(* ncmpio_file_set_view on the collective handle *)
Definition set_view (root contig : bool) : trace :=
  [(if contig then S_ncmpio_file_set_view_SV1 else if root then S_ncmpio_file_set_view_SV2
    else S_ncmpio_file_set_view_SV3, TFhColl)].

(* ncmpio_read_write, collective *)
Definition rw (isget : bool) : trace :=
  [(if isget then S_ncmpio_read_write_RAA1 else S_ncmpio_read_write_WAA1, TFhColl)].

(* ncmpio_write_numrecs when the caller's guard (numrecs grows or dirty) holds *)
Definition write_numrecs (c : cfg) (sh : shared) (root indep : bool) : trace :=
  if negb (c_hcoll c) && negb root then []
  else if s_nrecvars sh =? 0 then []
  else let fh := if indep then TFhSelf else TFhColl in
       if negb root then [(S_ncmpio_write_numrecs_WAA1, fh)]
       else if c_hcoll c then [(S_ncmpio_write_numrecs_WAA2, fh)] else [].

Definition grow (sh : shared) (g : gsum) : bool := s_numrecs sh <? g_maxrec g.

(* ncmpio_sync_numrecs called in independent data mode (forced dirty) *)
Definition sync_numrecs_indep (c : cfg) (sh : shared) (root : bool) : trace :=
  if s_nrecvars sh =? 0 then []
  else if s_rdonly sh then []
  else [(S_ncmpio_sync_numrecs_AR1, TComm)] ++ write_numrecs c sh root true ++
       (if c_safe c then [(S_ncmpio_sync_numrecs_BC1, TComm)] else []).

(* ncmpio_end_indep_data *)
Definition end_indep (c : cfg) (sh : shared) (root : bool) : trace :=
  match s_mode sh with
  | MIndep => if negb (s_rdonly sh) && (0 <? s_nrecvars sh) then sync_numrecs_indep c sh root else []
  | _ => []
  end.

(* ncmpio_put_var / ncmpio_get_var and put_varm / get_varm.  `zero` = NC_REQ_ZERO *)
Definition nothing (r : dreq) : bool := negb (d_nonzero r) || negb (d_drv_err r =? 0).

Definition getput_driver (c : cfg) (sh : shared) (g : gsum) (root isget zero : bool) (r : dreq) : trace :=
  if zero then
    (if negb isget && c_aggr c then set_view root true ++ rw false   (* put_varm(NULL): aggregation group *)
     else zero_req isget)
  else
    set_view root (c_aggr c && negb isget || nothing r || d_contig r) ++ rw isget ++
    (if negb isget && is_rec (d_vk r)
     then [(S_put_varm_AR1, TComm)] ++ (if grow sh g then write_numrecs c sh root false else [])
     else []).

(* getput_vard *)
Definition vard_driver (c : cfg) (sh : shared) (g : gsum) (root isget zero : bool) (r : dreq) : trace :=
  if zero then zero_req isget
  else
    set_view root (nothing r || d_contig r) ++ rw isget ++
    (if negb isget && is_rec (d_vk r)
     then [(S_getput_vard_AR1, TComm)] ++ (if grow sh g then write_numrecs c sh root false else [])
     else []).

(* wait_getput (req_aggregation: zero_req when this rank has nothing, else one set_view + one collective transfer) *)
Definition wait_getput (c : cfg) (sh : shared) (g : gsum) (root isget : bool) (n : Z) (contig : bool) : trace :=
  (if negb isget && c_aggr c then set_view root true ++ rw false
   else if n =? 0 then zero_req isget else set_view root contig ++ rw isget) ++
  (if negb isget && grow sh g then write_numrecs c sh root false else []).

(* req_commit in collective mode *)
Definition req_commit (c : cfg) (sh : shared) (g : gsum) (root : bool) (nw nr : Z) (contig : bool) : trace :=
  [(S_req_commit_AR1, TComm)] ++
  (if g_anyerr g then []
   else (if g_anyw g then wait_getput c sh g root false nw contig else []) ++
        (if g_anyr g then wait_getput c sh g root true nr contig else [])).

(* ncmpio_write_header (metadata change in data mode) *)
Definition write_header (c : cfg) (sh : shared) (root : bool) : trace :=
  let fh := match s_mode sh with MIndep => TFhSelf | _ => TFhColl end in
  (if c_hcoll c
   then rep (Z.to_nat (s_hdr_chunks sh)) [(if root then S_ncmpio_write_header_WAA1 else S_ncmpio_write_header_WAA2, fh)]
   else []) ++
  (if c_safe c then [(S_ncmpio_write_header_BC1, TComm)] else []).

(* ncmpio_intra_node_aggr_init *)
Definition aggr_init (c : cfg) (root : bool) : trace :=
  if c_aggr c then
    [(S_ncmpio_intra_node_aggr_init_GA1, TComm);
     (if root then S_ncmpio_intra_node_aggr_init_GAV1 else S_ncmpio_intra_node_aggr_init_GAV2, TComm);
     (S_ncmpio_intra_node_aggr_init_BC1, TComm)]
  else [].

(* ---- enddef ---- *)
(* move_file_block: rounds of read_at_all / Allreduce / write_at_all / Allreduce *)
Definition chunk_size (c : cfg) (nbytes : Z) : Z :=
  let cs := nbytes / c_nprocs c + (if nbytes mod c_nprocs c =? 0 then 0 else 1) in
  if (0 <? c_move_unit c) && (c_move_unit c <? cs) then c_move_unit c else cs.

Fixpoint move_rounds (fuel : nat) (np cs nbytes : Z) : nat :=
  match fuel with
  | O => O
  | S k => if nbytes <=? 0 then O
           else if nbytes <? np * cs then 1%nat
           else S (move_rounds k np cs (nbytes - cs * np))
  end.

Definition move_file_block (c : cfg) (nbytes : Z) : trace :=
  let cs := chunk_size c nbytes in
  [(S_move_file_block_SV1, TFhColl)] ++
  rep (move_rounds (Z.to_nat nbytes + 1) (c_nprocs c) cs nbytes)
      [(S_move_file_block_RAA1, TFhColl); (S_move_file_block_AR1, TComm);
       (S_move_file_block_WAA1, TFhColl); (S_move_file_block_AR2, TComm)].

(* move_fixed_vars: from the last variable to the first, fixed-size variables whose begin grew *)
Fixpoint move_fixed (c : cfg) (old new : list varlay) : trace :=
  match old, new with
  | o :: old', n :: new' =>
      move_fixed c old' new' ++
      (if negb (vl_isrec o) && (vl_begin o <? vl_begin n) then move_file_block c (vl_len n) else [])
  | _, _ => []
  end.

(* move_record_vars *)
Definition move_record (c : cfg) (sh : shared) : trace :=
  if s_new_recsize sh =? s_old_recsize sh then
    (if s_new_recsize sh =? 0 then [] else move_file_block c (s_new_recsize sh * s_numrecs sh))
  else rep (Z.to_nat (s_numrecs sh)) (move_file_block c (s_old_recsize sh)).

Definition check_error (c : cfg) (s : site) : trace := if c_safe c then [(s, TComm)] else [].

Definition write_NC (c : cfg) (sh : shared) (root : bool) : trace :=
  (if c_hcoll c
   then rep (Z.to_nat (s_hdr_chunks sh)) [(if root then S_write_NC_WAA1 else S_write_NC_WAA2, TFhColl)]
   else []) ++
  (if c_safe c then [(S_write_NC_BC1, TComm)] else []).

(* fillerup_aggregate (ncmpio_fill.c): ONE set_view + write_at_all + set_view for all new variables in fill mode.
   nVarsFill = number of new variables in fill mode; the number of write segments j counts one segment per new
   fixed-size fill variable and one per record (of the OLD numrecs; none for a new file) of every new record
   fill variable -- `j++` is executed "even when count[j] is zero", so j is the SAME on every rank, and the
   early return tests j (not the rank's own amount buf_len, see fill_buf_len) *)
Definition fill_old_numrecs (sh : shared) : Z := if s_isnew sh then 0 else s_numrecs sh.
Definition count_nv (f : newvar -> bool) (l : list newvar) : Z := Z.of_nat (List.length (filter f l)).
Definition fill_nvars (sh : shared) : Z := count_nv nv_fill (s_newvars sh).
Definition fill_j (sh : shared) : Z :=
  count_nv (fun v => nv_fill v && negb (nv_isrec v)) (s_newvars sh) +
  fill_old_numrecs sh * count_nv (fun v => nv_fill v && nv_isrec v) (s_newvars sh).

(* this rank's share of a variable of len elements: var_len / nprocs (+1 for the first var_len mod nprocs ranks) *)
Definition fill_share (np rank len : Z) : Z := len / np + (if rank <? len mod np then 1 else 0).
(* elements this rank writes in fillerup_aggregate (buf_len up to the element sizes) *)
Definition fill_buf_len (np rank : Z) (sh : shared) : Z :=
  fold_right (fun v a => (if nv_fill v then (if nv_isrec v then fill_old_numrecs sh else 1) * fill_share np rank (nv_len v) else 0) + a)
             0 (s_newvars sh).

Definition fill_new (sh : shared) : trace :=
  if (0 <? s_nvars sh) && (0 <? fill_nvars sh) && (0 <? fill_j sh)
  then [(S_fillerup_aggregate_SV1, TFhColl); (S_fillerup_aggregate_WAA1, TFhColl); (S_fillerup_aggregate_SV2, TFhColl)]
  else [].

(* ncmpio__enddef *)
Definition enddef_driver (c : cfg) (sh : shared) (root : bool) : trace :=
  check_error c S_ncmpio__enddef_AR1 ++
  (if c_safe c then [(S_NC_begins_BC1, TComm); (S_NC_begins_AR1, TComm)] else []) ++
  check_error c S_ncmpio__enddef_AR2 ++
  check_error c S_ncmpio__enddef_AR3 ++
  (if negb (s_isnew sh) && (0 <? s_nvars sh) then
     if s_old_begin_var sh <? s_new_begin_var sh then
       move_record c sh ++ check_error c S_ncmpio__enddef_AR4 ++
       move_fixed c (s_old_vars sh) (s_new_vars sh) ++ check_error c S_ncmpio__enddef_AR5
     else if (s_old_begin_rec sh <? s_new_begin_rec sh) || (s_old_recsize sh <? s_new_recsize sh) then
       move_record c sh ++ check_error c S_ncmpio__enddef_AR6
     else []
   else []) ++
  write_NC c sh root ++ fill_new sh.

(* ncmpio_close_files *)
Definition close_files (c : cfg) (sh : shared) (unlink : bool) : trace :=
  (if s_indep_open sh then [(S_ncmpio_close_files_FCLOSE1, TFhSelf)] else []) ++
  [(S_ncmpio_close_files_FCLOSE2, TFhColl)] ++
  (if unlink then [(S_ncmpio_close_files_BAR1, TComm)] else []).

(* hdr_fetch, once per chunk *)
Definition hdr_fetch (c : cfg) (root : bool) : trace :=
  (if c_hcoll c then [(if root then S_hdr_fetch_RAA1 else S_hdr_fetch_RAA2, TFhColl)] else []) ++
  (if c_safe c then [(S_hdr_fetch_BC1, TComm)] else []) ++
  [(S_hdr_fetch_BC2, TComm)].

(* ---- safe-mode consistency blocks of the collective metadata calls ---- *)
Record metadesc : Set := mkMd {
  md_ar1 : option site;      (* dispatcher: Allreduce of the argument-check error *)
  md_bcs : list site;        (* dispatcher: broadcasts of rank 0's arguments *)
  md_ar2 : option site;      (* dispatcher: Allreduce after the comparison *)
  md_dbcs : list site;       (* driver: broadcasts *)
  md_dar : option site;      (* driver: Allreduce *)
  md_keep_own : bool;        (* driver returns its own error when it has one, the minimum otherwise *)
  md_post : list site;       (* driver, after its Allreduce found no error: further safe-mode Allreduces of nested calls *)
  md_header : bool           (* in data mode the call rewrites the header (ncmpio_write_header) *)
}.

Definition metadesc_of (m : metaapi) : metadesc :=
  match m with
  | M_def_dim => mkMd (Some S_ncmpi_def_dim_AR1) [S_ncmpi_def_dim_BC1; S_ncmpi_def_dim_BC2; S_ncmpi_def_dim_BC3]
                      (Some S_ncmpi_def_dim_AR2) [] None false [] false
  | M_def_var => mkMd (Some S_ncmpi_def_var_AR1)
                      [S_ncmpi_def_var_BC1; S_ncmpi_def_var_BC2; S_ncmpi_def_var_BC3; S_ncmpi_def_var_BC4; S_ncmpi_def_var_BC5]
                      (Some S_ncmpi_def_var_AR2) [] (Some S_ncmpio_def_var_AR1) false [] false
  | M_def_var_fill => mkMd (Some S_ncmpi_def_var_fill_AR1) [] None
                      [S_ncmpio_def_var_fill_BC1; S_ncmpio_def_var_fill_BC2] (Some S_ncmpio_def_var_fill_AR1) true
                      [S_ncmpio_put_att_AR1]   (* a fill value is given: ncmpio_put_att of _FillValue *) false
  | M_set_fill => mkMd None [] None [S_ncmpio_set_fill_BC1] (Some S_ncmpio_set_fill_AR1) true [] false
  | M_rename_dim => mkMd (Some S_ncmpi_rename_dim_AR1) [S_ncmpi_rename_dim_BC1; S_ncmpi_rename_dim_BC2; S_ncmpi_rename_dim_BC3]
                      (Some S_ncmpi_rename_dim_AR2) [] (Some S_ncmpio_rename_dim_AR1) false [] true
  | M_rename_var => mkMd (Some S_ncmpi_rename_var_AR1) [S_ncmpi_rename_var_BC1; S_ncmpi_rename_var_BC2; S_ncmpi_rename_var_BC3]
                      (Some S_ncmpi_rename_var_AR2) [] (Some S_ncmpio_rename_var_AR1) false [] true
  | M_rename_att => mkMd (Some S_ncmpi_rename_att_AR1)
                      [S_ncmpi_rename_att_BC1; S_ncmpi_rename_att_BC2; S_ncmpi_rename_att_BC3; S_ncmpi_rename_att_BC4; S_ncmpi_rename_att_BC5]
                      (Some S_ncmpi_rename_att_AR2) [] (Some S_ncmpio_rename_att_AR1) false [] true
  | M_put_att => mkMd (Some S_check_consistency_put_AR1)
                      [S_check_consistency_put_BC1; S_check_consistency_put_BC2; S_check_consistency_put_BC3;
                       S_check_consistency_put_BC4; S_check_consistency_put_BC5; S_check_consistency_put_BC6]
                      (Some S_check_consistency_put_AR2) [] (Some S_ncmpio_put_att_AR1) false [] true
  | M_del_att => mkMd (Some S_ncmpi_del_att_AR1) [S_ncmpi_del_att_BC1; S_ncmpi_del_att_BC2; S_ncmpi_del_att_BC3]
                      (Some S_ncmpi_del_att_AR2) [] (Some S_ncmpio_del_att_AR1) false [] false
  | M_copy_att => mkMd (Some S_ncmpi_copy_att_AR1) [S_ncmpi_copy_att_BC1; S_ncmpi_copy_att_BC2; S_ncmpi_copy_att_BC3]
                      (Some S_ncmpi_copy_att_AR2) [] (Some S_ncmpio_copy_att_AR1) false [] true
  end.

Definition osite (o : option site) : trace := match o with Some s => [(s, TComm)] | None => [] end.
Definition csites (l : list site) : trace := map (fun s => (s, TComm)) l.
Definition first_err (a b : Z) : Z := if a =? 0 then b else a.

(* one collective metadata call *)
Definition meta_exec (c : cfg) (sh : shared) (g : gsum) (root : bool) (md : metadesc) (m : mreq) : trace * outcome :=
  let hdr := match s_mode sh with MDefine => [] | _ => if md_header md then write_header c sh root else [] end in
  if negb (m_e0 m =? 0) then ([], Ret (m_e0 m) false) else
  if c_safe c then
    let t1 := osite (md_ar1 md) in
    if negb (g_min1 g =? 0) && (match md_ar1 md with Some _ => true | None => false end) then (t1, Ret (g_min1 g) false)
    else
      let t2 := t1 ++ csites (md_bcs md) ++ osite (md_ar2 md) in
      if negb (g_min2 g =? 0) && (match md_ar2 md with Some _ => true | None => false end) then (t2, Ret (g_min2 g) false)
      else
        (* driver; when the dispatcher has no second Allreduce the comparison error is the driver's *)
        let own := match md_ar2 md with Some _ => m_e3 m | None => first_err (m_e3 m) (m_e2 m) end in
        let gm := match md_ar2 md with Some _ => g_min3 g | None => Z.min (g_min3 g) (g_min2 g) end in
        let t3 := t2 ++ csites (md_dbcs md) ++ osite (md_dar md) in
        match md_dar md with
        | Some _ =>
            if gm =? 0 then (t3 ++ (if s_argflag sh then csites (md_post md) else []) ++ hdr, Ret 0 true)
            else (t3, Ret (if md_keep_own md then first_err own gm else gm) false)
        | None => if own =? 0 then (t3 ++ hdr, Ret 0 true) else (t3, Ret own false)
        end
  else
    let e := first_err (m_e1 m) (m_e3 m) in
    if e =? 0 then (hdr, Ret 0 true) else ([], Ret e false).

(* ------------------------------------------------------------------ one API call on one rank *)
Definition stop (t : trace) (rc : Z) : trace * outcome := (t, Ret rc false).

Definition exec (c : cfg) (sh : shared) (a : api) (g : gsum) (root : bool) (l : local) : trace * outcome :=
  if negb (multi c) then ([], Ret 0 true) else
  match a, l with
  (* ---- blocking collective put/get ---- *)
  | A_getput isget _, LReq r =>
      let e := disp_err sh (negb isget) r in
      if c_safe c then
        if g_min1 g =? 0
        then ([(S_allreduce_error_AR1, TComm)] ++ getput_driver c sh g root isget false r,
              Ret (d_drv_err r) ((d_drv_err r =? 0) && d_nonzero r))
        else stop [(S_allreduce_error_AR1, TComm)] (g_min1 g)
      else if fatal e then stop [] e
      else if e =? 0
        then (getput_driver c sh g root isget false r, Ret (d_drv_err r) ((d_drv_err r =? 0) && d_nonzero r))
        else (getput_driver c sh g root isget true r, Ret e false)
  | A_vard isget, LReq r =>
      let e := disp_err sh (negb isget) r in
      if c_safe c then
        if g_min1 g =? 0
        then ([(S_allreduce_error_AR1, TComm)] ++ vard_driver c sh g root isget false r,
              Ret (d_drv_err r) ((d_drv_err r =? 0) && d_nonzero r))
        else stop [(S_allreduce_error_AR1, TComm)] (g_min1 g)
      else if fatal e then stop [] e
      else if e =? 0
        then (vard_driver c sh g root isget false r, Ret (d_drv_err r) ((d_drv_err r =? 0) && d_nonzero r))
        else (vard_driver c sh g root isget true r, Ret e false)
  | A_varn isget, LReq r =>
      let e := disp_err sh (negb isget) r in
      let body (zero : bool) (rc : Z) : trace * outcome :=
        if varn_scalar r
        then (getput_driver c sh g root isget zero r,
              Ret (first_err rc (d_drv_err r)) ((rc =? 0) && (d_drv_err r =? 0) && d_nonzero r))
        else (req_commit c sh g root (if isget then 0 else varn_nreq r) (if isget then varn_nreq r else 0) (d_contig r),
              Ret (first_err rc (d_drv_err r)) ((rc =? 0) && (d_drv_err r =? 0) && (0 <? varn_nreq r) && negb (g_anyerr g))) in
      if c_safe c then
        if g_min1 g =? 0
        then let (t, o) := body (d_num0 r) 0 in ([(S_allreduce_error_AR1, TComm)] ++ t, o)
        else stop [(S_allreduce_error_AR1, TComm)] (g_min1 g)
      else if fatal e then stop [] e
      else body (varn_zero r) e
  (* ---- mput / mget, wait_all ---- *)
  | A_mgetput isget, LWait w =>
      let e := if state_err sh (negb isget) =? 0 then w_err w else state_err sh (negb isget) in
      if c_safe c then
        if g_min1 g =? 0
        then ([(S_allreduce_error_AR1, TComm)] ++ req_commit c sh g root (w_nw w) (w_nr w) (w_contig w),
              Ret 0 (negb (g_anyerr g)))
        else stop [(S_allreduce_error_AR1, TComm)] (g_min1 g)
      else if fatal e then stop [] e
      else if e =? 0 then (req_commit c sh g root (w_nw w) (w_nr w) (w_contig w), Ret 0 (negb (g_anyerr g)))
      else (req_commit c sh g root 0 0 true, Ret e false)
  | A_wait_all, LWait w =>
      match s_mode sh with
      | MDefine => stop [] NC_EINDEFINE
      | MIndep => stop [] NC_EINDEP
      | MColl => (req_commit c sh g root (w_nw w) (w_nr w) (w_contig w),
                  Ret (if w_badid w then NC_EINVAL_REQUEST else 0) (negb (g_anyerr g)))
      end
  (* ---- fill_var_rec ---- *)
  | A_fill_var_rec, LFill f =>
      let body : trace :=
        [(S_fill_var_rec_SV1, TFhColl); (S_fill_var_rec_WAA1, TFhColl); (S_fill_var_rec_AR1, TComm)] ++
        (if grow sh g then write_numrecs c sh root false else []) in
      if c_safe c then
        if g_min1 g =? 0 then
          let t := [(S_ncmpi_fill_var_rec_AR1, TComm); (S_ncmpio_fill_var_rec_BC1, TComm);
                    (S_ncmpio_fill_var_rec_BC2, TComm); (S_ncmpio_fill_var_rec_AR1, TComm)] in
          if g_min3 g =? 0 then (t ++ body, Ret 0 true)
          else (t, Ret (first_err (fill_drv_err2 f) (g_min3 g)) false)   (* keeps its own error *)
        else stop [(S_ncmpi_fill_var_rec_AR1, TComm)] (g_min1 g)
      else
        (* without safe mode the dispatcher returns its own error at once (no driver call); the driver
           returns its own error (NC_ENOTFILL) before fill_var_rec: either way no collective is executed *)
        if negb (fill_derr sh f =? 0) then stop [] (fill_derr sh f)
        else if fill_drv_err f =? 0 then (body, Ret 0 true) else stop [] (fill_drv_err f)
  (* ---- collective metadata calls ---- *)
  | A_meta m, LMeta q => meta_exec c sh g root (metadesc_of m) q
  (* ---- _enddef: argument check, then as enddef ---- *)
  | A__enddef, LMeta q =>
      match s_mode sh with
      | MDefine =>
          if c_safe c then
            if g_min1 g =? 0 then
              let t := [(S_ncmpi__enddef_AR1, TComm); (S_ncmpi__enddef_BC1, TComm); (S_ncmpi__enddef_AR2, TComm)] in
              if g_min2 g =? 0 then (t ++ enddef_driver c sh root, Ret 0 true) else stop t (g_min2 g)
            else stop [(S_ncmpi__enddef_AR1, TComm)] (g_min1 g)
          else if m_e1 q =? 0 then (enddef_driver c sh root, Ret 0 true) else stop [] (m_e1 q)
      | _ => if c_safe c then stop [(S_ncmpi__enddef_AR1, TComm)] NC_ENOTINDEFINE else stop [] NC_ENOTINDEFINE
      end
  | A_enddef, LNone =>
      match s_mode sh with
      | MDefine => ((if c_safe c then [(S_ncmpi_enddef_AR1, TComm)] else []) ++ enddef_driver c sh root, Ret 0 true)
      | _ => if c_safe c then stop [(S_ncmpi_enddef_AR1, TComm)] NC_ENOTINDEFINE else stop [] NC_ENOTINDEFINE
      end
  (* ---- create / open: e0 = error found before any communication (empty path) ---- *)
  | A_create, LMeta q =>
      if negb (m_e0 q =? 0) then stop [] (m_e0 q) else
      let t0 := [(S_ncmpi_create_BC1, TComm)] ++ (if c_safe c then [(S_ncmpi_create_AR1, TComm)] else []) ++
                (if c_dup c then [(S_ncmpi_create_DUP1, TComm)] else []) in
      let st := if c_safe c then g_min2 g else m_e2 q in
      if s_noclobber sh then
        let t1 := t0 ++ [(S_ncmpio_create_BC1, TComm)] in
        if s_exists_err sh
        then stop (t1 ++ (if c_dup c then [(S_ncmpi_create_CFREE1, TComm)] else [])) (first_err st NC_EEXIST)
        else (t1 ++ [(S_ncmpio_create_FOPEN1, TComm)] ++ aggr_init c root, Ret st true)
      else (t0 ++ [(S_ncmpio_create_BC2, TComm); (S_ncmpio_create_FOPEN1, TComm)] ++ aggr_init c root, Ret st true)
  | A_open, LMeta q =>
      if negb (m_e0 q =? 0) then stop [] (m_e0 q) else
      let t0 := [(S_ncmpi_open_BC1, TComm)] in
      if s_exists_err sh then stop t0 NC_ENOTNC else
      let st := if c_safe c then g_min2 g else m_e2 q in
      (t0 ++ (if c_safe c then [(S_ncmpi_open_AR1, TComm)] else []) ++
       (if c_dup c then [(S_ncmpi_open_DUP1, TComm)] else []) ++
       [(S_ncmpio_open_FOPEN1, TComm)] ++ rep (Z.to_nat (s_hdr_chunks sh)) (hdr_fetch c root) ++ aggr_init c root,
       Ret st true)
  (* ---- calls without per-rank arguments ---- *)
  | A_redef, LNone =>
      if s_rdonly sh then stop [] NC_EPERM else
      match s_mode sh with
      | MDefine => stop [] NC_EINDEFINE
      | _ => (end_indep c sh root, Ret 0 true)
      end
  | A_begin_indep, LNone =>
      match s_mode sh with
      | MDefine => stop [] NC_EINDEFINE
      | MIndep => ([], Ret 0 true)
      | MColl => ((if s_indep_open sh then [] else [(S_ncmpio_begin_indep_data_FOPEN1, TSelf)]), Ret 0 true)
      end
  | A_end_indep, LNone =>
      match s_mode sh with
      | MDefine => stop [] NC_EINDEFINE
      | _ => (end_indep c sh root, Ret 0 true)
      end
  | A_sync_numrecs, LNone =>
      match s_mode sh with
      | MDefine => stop [] NC_EINDEFINE
      | MColl => if (0 <? s_nrecvars sh) && s_rdonly sh then stop [] NC_EPERM else ([], Ret 0 true)
      | MIndep => if (0 <? s_nrecvars sh) && s_rdonly sh then stop [] NC_EPERM else (sync_numrecs_indep c sh root, Ret 0 true)
      end
  | A_sync, LNone =>
      match s_mode sh with
      | MDefine => stop [] NC_EINDEFINE
      | m => if s_rdonly sh then ([], Ret 0 true) else
             ((match m with MIndep => if 0 <? s_nrecvars sh then sync_numrecs_indep c sh root else [] | _ => [] end) ++
              (if s_indep_open sh then [(S_ncmpio_file_sync_FSYNC1, TFhSelf)] else []) ++
              [(S_ncmpio_file_sync_FSYNC2, TFhColl)], Ret 0 true)
      end
  | A_close, LWait w =>     (* pending requests are cancelled (not collective); the rank gets NC_EPENDING *)
      ((match s_mode sh with MDefine => enddef_driver c sh root | _ => [] end) ++
       (if negb (s_rdonly sh) then end_indep c sh root else []) ++
       close_files c sh false ++
       (if negb (s_rdonly sh) && (s_nvars sh =? 0) then [(S_ncmpio_close_BAR1, TComm); (S_ncmpio_close_BAR2, TComm)] else []) ++
       (if c_dup c then [(S_ncmpi_close_CFREE1, TComm)] else []),
       Ret (if 0 <? w_nw w + w_nr w then NC_EPENDING else 0) true)
  | A_close, LNone =>
      ((match s_mode sh with MDefine => enddef_driver c sh root | _ => [] end) ++
       (if negb (s_rdonly sh) then end_indep c sh root else []) ++
       close_files c sh false ++
       (if negb (s_rdonly sh) && (s_nvars sh =? 0) then [(S_ncmpio_close_BAR1, TComm); (S_ncmpio_close_BAR2, TComm)] else []) ++
       (if c_dup c then [(S_ncmpi_close_CFREE1, TComm)] else []), Ret 0 true)
  | A_abort, LNone =>
      ((if s_isnew sh then [] else if negb (s_rdonly sh) then end_indep c sh root else []) ++
       close_files c sh (s_isnew sh) ++
       (if c_dup c then [(S_ncmpi_abort_CFREE1, TComm)] else []), Ret 0 true)
  | _, _ => ([], Ret 0 false)   (* not admissible *)
  end.

Definition ctrace (c : cfg) (sh : shared) (a : api) (g : gsum) (root : bool) (l : local) : trace :=
  fst (exec c sh a g root l).
Definition cret (c : cfg) (sh : shared) (a : api) (g : gsum) (root : bool) (l : local) : outcome :=
  snd (exec c sh a g root l).

(* ------------------------------------------------------------------ all ranks of one call *)
Definition gsum_ranks (sh : shared) (a : api) (ls : list local) : gsum :=
  gsum_of sh (map (contrib_of sh a) ls).

Fixpoint run_from (c : cfg) (sh : shared) (a : api) (g : gsum) (i : nat) (ls : list local) : list (trace * outcome) :=
  match ls with
  | [] => []
  | l :: ls' => exec c sh a g (Nat.eqb i 0) l :: run_from c sh a g (S i) ls'
  end.

(* rank i passes (nth i ls); rank 0 is the root *)
Definition run (c : cfg) (sh : shared) (a : api) (ls : list local) : list (trace * outcome) :=
  run_from c sh a (gsum_ranks sh a ls) 0 ls.

(* the ranks' observable sequences agree *)
Fixpoint all_equal {A : Type} (eqb : A -> A -> bool) (l : list A) : bool :=
  match l with
  | x :: ((y :: _) as t) => eqb x y && all_equal eqb t
  | _ => true
  end.

(* decidable equality of observable operations; the model's verdict on one call *)
Scheme Equality for ckind.
Scheme Equality for target.
Scheme Equality for mpicall.
Definition nop_eqb (x y : ckind * target) : bool := ckind_beq (fst x) (fst y) && target_beq (snd x) (snd y).
Definition sop_eqb (x y : mpicall * target) : bool := mpicall_beq (fst x) (fst y) && target_beq (snd x) (snd y).
Fixpoint list_eqb {A : Type} (eqb : A -> A -> bool) (a b : list A) : bool :=
  match a, b with
  | [], [] => true
  | x :: a', y :: b' => eqb x y && list_eqb eqb a' b'
  | _, _ => false
  end.
Definition traces_match (ts : list trace) : bool := all_equal (list_eqb nop_eqb) (map norm ts).
Definition traces_match_strict (ts : list trace) : bool := all_equal (list_eqb sop_eqb) (map strict ts).
Definition run_matches (c : cfg) (sh : shared) (a : api) (ls : list local) : bool :=
  traces_match (map fst (run c sh a ls)).

(* ------------------------------------------------------------------ site enumeration check *)
(* order on (function, call, ordinal) used to compare the model's site set with the generated one *)
Fixpoint str_leb (a b : string) : bool :=
  match a, b with
  | EmptyString, _ => true
  | String _ _, EmptyString => false
  | String x a', String y b' =>
      let nx := Ascii.nat_of_ascii x in let ny := Ascii.nat_of_ascii y in
      if Nat.ltb nx ny then true else if Nat.ltb ny nx then false else str_leb a' b'
  end.
Definition str_eqb (a b : string) : bool := str_leb a b && str_leb b a.
Definition site3_leb (x y : string * string * nat) : bool :=
  let '(f1, c1, n1) := x in let '(f2, c2, n2) := y in
  if str_eqb f1 f2 then (if str_eqb c1 c2 then Nat.leb n1 n2 else str_leb c1 c2) else str_leb f1 f2.
Fixpoint ins3 (x : string * string * nat) (l : list (string * string * nat)) :=
  match l with [] => [x] | y :: t => if site3_leb x y then x :: l else y :: ins3 x t end.
Definition sort3 (l : list (string * string * nat)) := fold_right ins3 [] l.

Definition model_sites : list (string * string * nat) := sort3 (map site_info all_sites).

(* ------------------------------------------------------------------ what must agree across ranks *)
(* `sync_class c sh a l`: the only feature of a rank's own arguments that the sequence of
   cross-rank collectives of the call depends on (Proofs_Collective.norm_class).  Ranks of the
   same class execute the same observable sequence; the classes are
     put (var/var1/vara/vars/varm/vard): 1 = reaches the numrecs Allreduce of put_varm / getput_vard
         (no dispatcher-level error and the variable is a record variable), 0 = does not;
     varn: 1 = scalar variable (dispatcher takes the put_var/get_var path), 0 = varn path (wait);
     fill_var_rec without safe mode: 1 = enters fill_var_rec, 0 = returns before;
     metadata calls / _enddef / create / open: 1 = returns before the first collective while the
         other ranks have collectives to execute, 0 = otherwise;
     everything else: 0. *)
Definition meta_hdr_global (c : cfg) (sh : shared) (md : metadesc) : bool :=
  md_header md && (match s_mode sh with MColl => true | _ => false end) && c_hcoll c.

Definition sync_class (c : cfg) (sh : shared) (a : api) (l : local) : nat :=
  match a, l with
  | A_getput isget _, LReq r | A_vard isget, LReq r =>
      if negb isget && is_rec (d_vk r) && (c_safe c || (disp_err sh true r =? 0)) then 1%nat else 0%nat
  | A_varn _, LReq r => if varn_scalar r then 1%nat else 0%nat
  | A_fill_var_rec, LFill f =>
      if c_safe c then 0%nat
      else if negb (fill_derr sh f =? 0) || negb (fill_drv_err f =? 0) then 0%nat else 1%nat
  | A_meta m, LMeta q =>
      let early := negb (m_e0 q =? 0) || (negb (c_safe c) && negb (first_err (m_e1 q) (m_e3 q) =? 0)) in
      if early && (c_safe c || meta_hdr_global c sh (metadesc_of m)) then 1%nat else 0%nat
  | A__enddef, LMeta q =>
      if negb (c_safe c) && (match s_mode sh with MDefine => true | _ => false end) && negb (m_e1 q =? 0) then 1%nat else 0%nat
  | (A_create | A_open), LMeta q => if m_e0 q =? 0 then 0%nat else 1%nat
  | _, _ => 0%nat
  end.
