(* Collective.v -- MODEL for property C08 (collective calls match on all ranks).

   `exec cfg sh api g root l` = (the sequence of MPI collective operations ONE rank executes inside
   ONE API call, the outcome of the call on that rank).  An element of the sequence is a call
   SITE of the C sources (one constructor of `site` per collective MPI call site of
   src/dispatchers/*.c, src/drivers/ncmpio/*.c, src/drivers/common/*.c as built; the enumeration
   is compared with the generated Gen_collsites.gen_sites by Properties_C08.C08_sites_enumerated)
   together with the TARGET it is issued on (the file's communicator, a size-1 communicator, the
   collective file handle, a file handle opened on MPI_COMM_SELF).

   cfg    : safe mode, romio_no_indep_rw (NC_HCOLL: header I/O collective), intra-node aggregation,
            communicator duplicated, number of processes, data-movement round size
   shared : the state every rank holds identically (mode, numrecs, layouts, ...)
   g      : the results of the reductions of the call (computed by `gsum` from ALL ranks' locals)
   root   : rank = 0
   l      : what THIS rank passes (class of its arguments)

   The code paths followed (file: function):
     dispatchers/var_getput.m4: GETPUT_API, VARN, MVAR, VARD (err_check blocks: safe mode ->
       allreduce_error; fatal -> return; other error -> NC_REQ_ZERO), dispatchers/file.c
       (create/open/enddef/_enddef/redef/close/abort/sync/...), dispatchers/{dimension,variable,
       attribute}.c and attr_getput.m4 (safe-mode consistency blocks),
     drivers/ncmpio: ncmpio_getput.m4 (ncmpio_put/get_var, put_varm, get_varm), ncmpio_wait.c
       (ncmpio_getput_zero_req, ncmpio_wait, req_commit, wait_getput, req_aggregation/mgetput),
       ncmpio_varn.m4, ncmpio_vard.c, ncmpio_filetype.c (ncmpio_file_set_view), ncmpio_file_io.c
       (ncmpio_read_write), ncmpio_sync.c, ncmpio_fill.c, ncmpio_enddef.c, ncmpio_header_put.c
       (ncmpio_write_header), ncmpio_header_get.c (hdr_fetch), ncmpio_create.c, ncmpio_open.c,
       ncmpio_close.c, ncmpio_file_misc.c, ncmpio_intra_node.c (init only; the aggregated write
       path is modelled by its two collective calls), ncmpio_attr/dim/var.c safe-mode blocks.
   Not modelled: failures of MPI calls themselves (every MPI call succeeds), the burst-buffer
   driver, subfiling (not compiled), nprocs = 1 (every collective degenerates; traces are []).
   This file contains NO proofs. *)
From Coq Require Import ZArith List String Bool.
From Pnc Require Import Gen_consts Gen_collsites.
Import ListNotations.
Local Open Scope Z_scope.

Inductive mpicall : Set :=
| C_Allreduce | C_Bcast | C_Barrier | C_Comm_dup | C_Comm_free | C_Gather | C_Gatherv
| C_File_open | C_File_close | C_File_set_view | C_File_sync
| C_File_read_all | C_File_write_all | C_File_read_at_all | C_File_write_at_all.

Definition call_name (c : mpicall) : string :=
  match c with
  | C_Allreduce => "MPI_Allreduce" | C_Bcast => "MPI_Bcast" | C_Barrier => "MPI_Barrier"
  | C_Comm_dup => "MPI_Comm_dup" | C_Comm_free => "MPI_Comm_free" | C_Gather => "MPI_Gather"
  | C_Gatherv => "MPI_Gatherv" | C_File_open => "MPI_File_open" | C_File_close => "MPI_File_close"
  | C_File_set_view => "MPI_File_set_view" | C_File_sync => "MPI_File_sync"
  | C_File_read_all => "MPI_File_read_all" | C_File_write_all => "MPI_File_write_all"
  | C_File_read_at_all => "MPI_File_read_at_all" | C_File_write_at_all => "MPI_File_write_at_all"
  end%string.

(* ------------------------------------------------------------------ the call sites *)
Inductive site : Set :=
| S_NC_begins_AR1
| S_NC_begins_BC1
| S_allreduce_error_AR1
| S_check_consistency_put_AR1
| S_check_consistency_put_AR2
| S_check_consistency_put_BC1
| S_check_consistency_put_BC2
| S_check_consistency_put_BC3
| S_check_consistency_put_BC4
| S_check_consistency_put_BC5
| S_check_consistency_put_BC6
| S_fill_var_rec_AR1
| S_fill_var_rec_SV1
| S_fill_var_rec_WAA1
| S_fillerup_aggregate_SV1
| S_fillerup_aggregate_SV2
| S_fillerup_aggregate_WAA1
| S_getput_vard_AR1
| S_hdr_fetch_BC1
| S_hdr_fetch_BC2
| S_hdr_fetch_RAA1
| S_hdr_fetch_RAA2
| S_move_file_block_AR1
| S_move_file_block_AR2
| S_move_file_block_RAA1
| S_move_file_block_SV1
| S_move_file_block_WAA1
| S_ncmpi__enddef_AR1
| S_ncmpi__enddef_AR2
| S_ncmpi__enddef_BC1
| S_ncmpi_abort_CFREE1
| S_ncmpi_close_CFREE1
| S_ncmpi_copy_att_AR1
| S_ncmpi_copy_att_AR2
| S_ncmpi_copy_att_BC1
| S_ncmpi_copy_att_BC2
| S_ncmpi_copy_att_BC3
| S_ncmpi_create_AR1
| S_ncmpi_create_BC1
| S_ncmpi_create_DUP1
| S_ncmpi_create_CFREE1
| S_ncmpi_create_CFREE2
| S_ncmpi_def_dim_AR1
| S_ncmpi_def_dim_AR2
| S_ncmpi_def_dim_BC1
| S_ncmpi_def_dim_BC2
| S_ncmpi_def_dim_BC3
| S_ncmpi_def_var_AR1
| S_ncmpi_def_var_AR2
| S_ncmpi_def_var_BC1
| S_ncmpi_def_var_BC2
| S_ncmpi_def_var_BC3
| S_ncmpi_def_var_BC4
| S_ncmpi_def_var_BC5
| S_ncmpi_def_var_fill_AR1
| S_ncmpi_del_att_AR1
| S_ncmpi_del_att_AR2
| S_ncmpi_del_att_BC1
| S_ncmpi_del_att_BC2
| S_ncmpi_del_att_BC3
| S_ncmpi_enddef_AR1
| S_ncmpi_fill_var_rec_AR1
| S_ncmpi_open_AR1
| S_ncmpi_open_BC1
| S_ncmpi_open_DUP1
| S_ncmpi_open_CFREE1
| S_ncmpi_open_CFREE2
| S_ncmpi_open_CFREE3
| S_ncmpi_rename_att_AR1
| S_ncmpi_rename_att_AR2
| S_ncmpi_rename_att_BC1
| S_ncmpi_rename_att_BC2
| S_ncmpi_rename_att_BC3
| S_ncmpi_rename_att_BC4
| S_ncmpi_rename_att_BC5
| S_ncmpi_rename_dim_AR1
| S_ncmpi_rename_dim_AR2
| S_ncmpi_rename_dim_BC1
| S_ncmpi_rename_dim_BC2
| S_ncmpi_rename_dim_BC3
| S_ncmpi_rename_var_AR1
| S_ncmpi_rename_var_AR2
| S_ncmpi_rename_var_BC1
| S_ncmpi_rename_var_BC2
| S_ncmpi_rename_var_BC3
| S_ncmpio__enddef_AR1
| S_ncmpio__enddef_AR2
| S_ncmpio__enddef_AR3
| S_ncmpio__enddef_AR4
| S_ncmpio__enddef_AR5
| S_ncmpio__enddef_AR6
| S_ncmpio_begin_indep_data_FOPEN1
| S_ncmpio_close_BAR1
| S_ncmpio_close_BAR2
| S_ncmpio_close_files_BAR1
| S_ncmpio_close_files_FCLOSE1
| S_ncmpio_close_files_FCLOSE2
| S_ncmpio_copy_att_AR1
| S_ncmpio_create_BC1
| S_ncmpio_create_BC2
| S_ncmpio_create_FOPEN1
| S_ncmpio_def_var_AR1
| S_ncmpio_def_var_fill_AR1
| S_ncmpio_def_var_fill_BC1
| S_ncmpio_def_var_fill_BC2
| S_ncmpio_del_att_AR1
| S_ncmpio_file_set_view_SV1
| S_ncmpio_file_set_view_SV2
| S_ncmpio_file_set_view_SV3
| S_ncmpio_file_sync_FSYNC1
| S_ncmpio_file_sync_FSYNC2
| S_ncmpio_fill_var_rec_AR1
| S_ncmpio_fill_var_rec_BC1
| S_ncmpio_fill_var_rec_BC2
| S_ncmpio_getput_zero_req_RA1
| S_ncmpio_getput_zero_req_SV1
| S_ncmpio_getput_zero_req_WA1
| S_ncmpio_intra_node_aggr_init_BC1
| S_ncmpio_intra_node_aggr_init_GA1
| S_ncmpio_intra_node_aggr_init_GAV1
| S_ncmpio_intra_node_aggr_init_GAV2
| S_ncmpio_open_FOPEN1
| S_ncmpio_put_att_AR1
| S_ncmpio_read_write_RAA1
| S_ncmpio_read_write_WAA1
| S_ncmpio_rename_att_AR1
| S_ncmpio_rename_dim_AR1
| S_ncmpio_rename_var_AR1
| S_ncmpio_set_fill_AR1
| S_ncmpio_set_fill_BC1
| S_ncmpio_sync_numrecs_AR1
| S_ncmpio_sync_numrecs_BC1
| S_ncmpio_write_header_BC1
| S_ncmpio_write_header_WAA1
| S_ncmpio_write_header_WAA2
| S_ncmpio_write_numrecs_WAA1
| S_ncmpio_write_numrecs_WAA2
| S_put_varm_AR1
| S_req_commit_AR1
| S_write_NC_BC1
| S_write_NC_WAA1
| S_write_NC_WAA2.

Definition all_sites : list site := [
  S_NC_begins_AR1;
  S_NC_begins_BC1;
  S_allreduce_error_AR1;
  S_check_consistency_put_AR1;
  S_check_consistency_put_AR2;
  S_check_consistency_put_BC1;
  S_check_consistency_put_BC2;
  S_check_consistency_put_BC3;
  S_check_consistency_put_BC4;
  S_check_consistency_put_BC5;
  S_check_consistency_put_BC6;
  S_fill_var_rec_AR1;
  S_fill_var_rec_SV1;
  S_fill_var_rec_WAA1;
  S_fillerup_aggregate_SV1;
  S_fillerup_aggregate_SV2;
  S_fillerup_aggregate_WAA1;
  S_getput_vard_AR1;
  S_hdr_fetch_BC1;
  S_hdr_fetch_BC2;
  S_hdr_fetch_RAA1;
  S_hdr_fetch_RAA2;
  S_move_file_block_AR1;
  S_move_file_block_AR2;
  S_move_file_block_RAA1;
  S_move_file_block_SV1;
  S_move_file_block_WAA1;
  S_ncmpi__enddef_AR1;
  S_ncmpi__enddef_AR2;
  S_ncmpi__enddef_BC1;
  S_ncmpi_abort_CFREE1;
  S_ncmpi_close_CFREE1;
  S_ncmpi_copy_att_AR1;
  S_ncmpi_copy_att_AR2;
  S_ncmpi_copy_att_BC1;
  S_ncmpi_copy_att_BC2;
  S_ncmpi_copy_att_BC3;
  S_ncmpi_create_AR1;
  S_ncmpi_create_BC1;
  S_ncmpi_create_DUP1;
  S_ncmpi_create_CFREE1;
  S_ncmpi_create_CFREE2;
  S_ncmpi_def_dim_AR1;
  S_ncmpi_def_dim_AR2;
  S_ncmpi_def_dim_BC1;
  S_ncmpi_def_dim_BC2;
  S_ncmpi_def_dim_BC3;
  S_ncmpi_def_var_AR1;
  S_ncmpi_def_var_AR2;
  S_ncmpi_def_var_BC1;
  S_ncmpi_def_var_BC2;
  S_ncmpi_def_var_BC3;
  S_ncmpi_def_var_BC4;
  S_ncmpi_def_var_BC5;
  S_ncmpi_def_var_fill_AR1;
  S_ncmpi_del_att_AR1;
  S_ncmpi_del_att_AR2;
  S_ncmpi_del_att_BC1;
  S_ncmpi_del_att_BC2;
  S_ncmpi_del_att_BC3;
  S_ncmpi_enddef_AR1;
  S_ncmpi_fill_var_rec_AR1;
  S_ncmpi_open_AR1;
  S_ncmpi_open_BC1;
  S_ncmpi_open_DUP1;
  S_ncmpi_open_CFREE1;
  S_ncmpi_open_CFREE2;
  S_ncmpi_open_CFREE3;
  S_ncmpi_rename_att_AR1;
  S_ncmpi_rename_att_AR2;
  S_ncmpi_rename_att_BC1;
  S_ncmpi_rename_att_BC2;
  S_ncmpi_rename_att_BC3;
  S_ncmpi_rename_att_BC4;
  S_ncmpi_rename_att_BC5;
  S_ncmpi_rename_dim_AR1;
  S_ncmpi_rename_dim_AR2;
  S_ncmpi_rename_dim_BC1;
  S_ncmpi_rename_dim_BC2;
  S_ncmpi_rename_dim_BC3;
  S_ncmpi_rename_var_AR1;
  S_ncmpi_rename_var_AR2;
  S_ncmpi_rename_var_BC1;
  S_ncmpi_rename_var_BC2;
  S_ncmpi_rename_var_BC3;
  S_ncmpio__enddef_AR1;
  S_ncmpio__enddef_AR2;
  S_ncmpio__enddef_AR3;
  S_ncmpio__enddef_AR4;
  S_ncmpio__enddef_AR5;
  S_ncmpio__enddef_AR6;
  S_ncmpio_begin_indep_data_FOPEN1;
  S_ncmpio_close_BAR1;
  S_ncmpio_close_BAR2;
  S_ncmpio_close_files_BAR1;
  S_ncmpio_close_files_FCLOSE1;
  S_ncmpio_close_files_FCLOSE2;
  S_ncmpio_copy_att_AR1;
  S_ncmpio_create_BC1;
  S_ncmpio_create_BC2;
  S_ncmpio_create_FOPEN1;
  S_ncmpio_def_var_AR1;
  S_ncmpio_def_var_fill_AR1;
  S_ncmpio_def_var_fill_BC1;
  S_ncmpio_def_var_fill_BC2;
  S_ncmpio_del_att_AR1;
  S_ncmpio_file_set_view_SV1;
  S_ncmpio_file_set_view_SV2;
  S_ncmpio_file_set_view_SV3;
  S_ncmpio_file_sync_FSYNC1;
  S_ncmpio_file_sync_FSYNC2;
  S_ncmpio_fill_var_rec_AR1;
  S_ncmpio_fill_var_rec_BC1;
  S_ncmpio_fill_var_rec_BC2;
  S_ncmpio_getput_zero_req_RA1;
  S_ncmpio_getput_zero_req_SV1;
  S_ncmpio_getput_zero_req_WA1;
  S_ncmpio_intra_node_aggr_init_BC1;
  S_ncmpio_intra_node_aggr_init_GA1;
  S_ncmpio_intra_node_aggr_init_GAV1;
  S_ncmpio_intra_node_aggr_init_GAV2;
  S_ncmpio_open_FOPEN1;
  S_ncmpio_put_att_AR1;
  S_ncmpio_read_write_RAA1;
  S_ncmpio_read_write_WAA1;
  S_ncmpio_rename_att_AR1;
  S_ncmpio_rename_dim_AR1;
  S_ncmpio_rename_var_AR1;
  S_ncmpio_set_fill_AR1;
  S_ncmpio_set_fill_BC1;
  S_ncmpio_sync_numrecs_AR1;
  S_ncmpio_sync_numrecs_BC1;
  S_ncmpio_write_header_BC1;
  S_ncmpio_write_header_WAA1;
  S_ncmpio_write_header_WAA2;
  S_ncmpio_write_numrecs_WAA1;
  S_ncmpio_write_numrecs_WAA2;
  S_put_varm_AR1;
  S_req_commit_AR1;
  S_write_NC_BC1;
  S_write_NC_WAA1;
  S_write_NC_WAA2
].

Definition site_func (s : site) : string :=
  match s with
  | S_NC_begins_AR1 => "NC_begins"
  | S_NC_begins_BC1 => "NC_begins"
  | S_allreduce_error_AR1 => "allreduce_error"
  | S_check_consistency_put_AR1 => "check_consistency_put"
  | S_check_consistency_put_AR2 => "check_consistency_put"
  | S_check_consistency_put_BC1 => "check_consistency_put"
  | S_check_consistency_put_BC2 => "check_consistency_put"
  | S_check_consistency_put_BC3 => "check_consistency_put"
  | S_check_consistency_put_BC4 => "check_consistency_put"
  | S_check_consistency_put_BC5 => "check_consistency_put"
  | S_check_consistency_put_BC6 => "check_consistency_put"
  | S_fill_var_rec_AR1 => "fill_var_rec"
  | S_fill_var_rec_SV1 => "fill_var_rec"
  | S_fill_var_rec_WAA1 => "fill_var_rec"
  | S_fillerup_aggregate_SV1 => "fillerup_aggregate"
  | S_fillerup_aggregate_SV2 => "fillerup_aggregate"
  | S_fillerup_aggregate_WAA1 => "fillerup_aggregate"
  | S_getput_vard_AR1 => "getput_vard"
  | S_hdr_fetch_BC1 => "hdr_fetch"
  | S_hdr_fetch_BC2 => "hdr_fetch"
  | S_hdr_fetch_RAA1 => "hdr_fetch"
  | S_hdr_fetch_RAA2 => "hdr_fetch"
  | S_move_file_block_AR1 => "move_file_block"
  | S_move_file_block_AR2 => "move_file_block"
  | S_move_file_block_RAA1 => "move_file_block"
  | S_move_file_block_SV1 => "move_file_block"
  | S_move_file_block_WAA1 => "move_file_block"
  | S_ncmpi__enddef_AR1 => "ncmpi__enddef"
  | S_ncmpi__enddef_AR2 => "ncmpi__enddef"
  | S_ncmpi__enddef_BC1 => "ncmpi__enddef"
  | S_ncmpi_abort_CFREE1 => "ncmpi_abort"
  | S_ncmpi_close_CFREE1 => "ncmpi_close"
  | S_ncmpi_copy_att_AR1 => "ncmpi_copy_att"
  | S_ncmpi_copy_att_AR2 => "ncmpi_copy_att"
  | S_ncmpi_copy_att_BC1 => "ncmpi_copy_att"
  | S_ncmpi_copy_att_BC2 => "ncmpi_copy_att"
  | S_ncmpi_copy_att_BC3 => "ncmpi_copy_att"
  | S_ncmpi_create_AR1 => "ncmpi_create"
  | S_ncmpi_create_BC1 => "ncmpi_create"
  | S_ncmpi_create_DUP1 => "ncmpi_create"
  | S_ncmpi_create_CFREE1 => "ncmpi_create"
  | S_ncmpi_create_CFREE2 => "ncmpi_create"
  | S_ncmpi_def_dim_AR1 => "ncmpi_def_dim"
  | S_ncmpi_def_dim_AR2 => "ncmpi_def_dim"
  | S_ncmpi_def_dim_BC1 => "ncmpi_def_dim"
  | S_ncmpi_def_dim_BC2 => "ncmpi_def_dim"
  | S_ncmpi_def_dim_BC3 => "ncmpi_def_dim"
  | S_ncmpi_def_var_AR1 => "ncmpi_def_var"
  | S_ncmpi_def_var_AR2 => "ncmpi_def_var"
  | S_ncmpi_def_var_BC1 => "ncmpi_def_var"
  | S_ncmpi_def_var_BC2 => "ncmpi_def_var"
  | S_ncmpi_def_var_BC3 => "ncmpi_def_var"
  | S_ncmpi_def_var_BC4 => "ncmpi_def_var"
  | S_ncmpi_def_var_BC5 => "ncmpi_def_var"
  | S_ncmpi_def_var_fill_AR1 => "ncmpi_def_var_fill"
  | S_ncmpi_del_att_AR1 => "ncmpi_del_att"
  | S_ncmpi_del_att_AR2 => "ncmpi_del_att"
  | S_ncmpi_del_att_BC1 => "ncmpi_del_att"
  | S_ncmpi_del_att_BC2 => "ncmpi_del_att"
  | S_ncmpi_del_att_BC3 => "ncmpi_del_att"
  | S_ncmpi_enddef_AR1 => "ncmpi_enddef"
  | S_ncmpi_fill_var_rec_AR1 => "ncmpi_fill_var_rec"
  | S_ncmpi_open_AR1 => "ncmpi_open"
  | S_ncmpi_open_BC1 => "ncmpi_open"
  | S_ncmpi_open_DUP1 => "ncmpi_open"
  | S_ncmpi_open_CFREE1 => "ncmpi_open"
  | S_ncmpi_open_CFREE2 => "ncmpi_open"
  | S_ncmpi_open_CFREE3 => "ncmpi_open"
  | S_ncmpi_rename_att_AR1 => "ncmpi_rename_att"
  | S_ncmpi_rename_att_AR2 => "ncmpi_rename_att"
  | S_ncmpi_rename_att_BC1 => "ncmpi_rename_att"
  | S_ncmpi_rename_att_BC2 => "ncmpi_rename_att"
  | S_ncmpi_rename_att_BC3 => "ncmpi_rename_att"
  | S_ncmpi_rename_att_BC4 => "ncmpi_rename_att"
  | S_ncmpi_rename_att_BC5 => "ncmpi_rename_att"
  | S_ncmpi_rename_dim_AR1 => "ncmpi_rename_dim"
  | S_ncmpi_rename_dim_AR2 => "ncmpi_rename_dim"
  | S_ncmpi_rename_dim_BC1 => "ncmpi_rename_dim"
  | S_ncmpi_rename_dim_BC2 => "ncmpi_rename_dim"
  | S_ncmpi_rename_dim_BC3 => "ncmpi_rename_dim"
  | S_ncmpi_rename_var_AR1 => "ncmpi_rename_var"
  | S_ncmpi_rename_var_AR2 => "ncmpi_rename_var"
  | S_ncmpi_rename_var_BC1 => "ncmpi_rename_var"
  | S_ncmpi_rename_var_BC2 => "ncmpi_rename_var"
  | S_ncmpi_rename_var_BC3 => "ncmpi_rename_var"
  | S_ncmpio__enddef_AR1 => "ncmpio__enddef"
  | S_ncmpio__enddef_AR2 => "ncmpio__enddef"
  | S_ncmpio__enddef_AR3 => "ncmpio__enddef"
  | S_ncmpio__enddef_AR4 => "ncmpio__enddef"
  | S_ncmpio__enddef_AR5 => "ncmpio__enddef"
  | S_ncmpio__enddef_AR6 => "ncmpio__enddef"
  | S_ncmpio_begin_indep_data_FOPEN1 => "ncmpio_begin_indep_data"
  | S_ncmpio_close_BAR1 => "ncmpio_close"
  | S_ncmpio_close_BAR2 => "ncmpio_close"
  | S_ncmpio_close_files_BAR1 => "ncmpio_close_files"
  | S_ncmpio_close_files_FCLOSE1 => "ncmpio_close_files"
  | S_ncmpio_close_files_FCLOSE2 => "ncmpio_close_files"
  | S_ncmpio_copy_att_AR1 => "ncmpio_copy_att"
  | S_ncmpio_create_BC1 => "ncmpio_create"
  | S_ncmpio_create_BC2 => "ncmpio_create"
  | S_ncmpio_create_FOPEN1 => "ncmpio_create"
  | S_ncmpio_def_var_AR1 => "ncmpio_def_var"
  | S_ncmpio_def_var_fill_AR1 => "ncmpio_def_var_fill"
  | S_ncmpio_def_var_fill_BC1 => "ncmpio_def_var_fill"
  | S_ncmpio_def_var_fill_BC2 => "ncmpio_def_var_fill"
  | S_ncmpio_del_att_AR1 => "ncmpio_del_att"
  | S_ncmpio_file_set_view_SV1 => "ncmpio_file_set_view"
  | S_ncmpio_file_set_view_SV2 => "ncmpio_file_set_view"
  | S_ncmpio_file_set_view_SV3 => "ncmpio_file_set_view"
  | S_ncmpio_file_sync_FSYNC1 => "ncmpio_file_sync"
  | S_ncmpio_file_sync_FSYNC2 => "ncmpio_file_sync"
  | S_ncmpio_fill_var_rec_AR1 => "ncmpio_fill_var_rec"
  | S_ncmpio_fill_var_rec_BC1 => "ncmpio_fill_var_rec"
  | S_ncmpio_fill_var_rec_BC2 => "ncmpio_fill_var_rec"
  | S_ncmpio_getput_zero_req_RA1 => "ncmpio_getput_zero_req"
  | S_ncmpio_getput_zero_req_SV1 => "ncmpio_getput_zero_req"
  | S_ncmpio_getput_zero_req_WA1 => "ncmpio_getput_zero_req"
  | S_ncmpio_intra_node_aggr_init_BC1 => "ncmpio_intra_node_aggr_init"
  | S_ncmpio_intra_node_aggr_init_GA1 => "ncmpio_intra_node_aggr_init"
  | S_ncmpio_intra_node_aggr_init_GAV1 => "ncmpio_intra_node_aggr_init"
  | S_ncmpio_intra_node_aggr_init_GAV2 => "ncmpio_intra_node_aggr_init"
  | S_ncmpio_open_FOPEN1 => "ncmpio_open"
  | S_ncmpio_put_att_AR1 => "ncmpio_put_att"
  | S_ncmpio_read_write_RAA1 => "ncmpio_read_write"
  | S_ncmpio_read_write_WAA1 => "ncmpio_read_write"
  | S_ncmpio_rename_att_AR1 => "ncmpio_rename_att"
  | S_ncmpio_rename_dim_AR1 => "ncmpio_rename_dim"
  | S_ncmpio_rename_var_AR1 => "ncmpio_rename_var"
  | S_ncmpio_set_fill_AR1 => "ncmpio_set_fill"
  | S_ncmpio_set_fill_BC1 => "ncmpio_set_fill"
  | S_ncmpio_sync_numrecs_AR1 => "ncmpio_sync_numrecs"
  | S_ncmpio_sync_numrecs_BC1 => "ncmpio_sync_numrecs"
  | S_ncmpio_write_header_BC1 => "ncmpio_write_header"
  | S_ncmpio_write_header_WAA1 => "ncmpio_write_header"
  | S_ncmpio_write_header_WAA2 => "ncmpio_write_header"
  | S_ncmpio_write_numrecs_WAA1 => "ncmpio_write_numrecs"
  | S_ncmpio_write_numrecs_WAA2 => "ncmpio_write_numrecs"
  | S_put_varm_AR1 => "put_varm"
  | S_req_commit_AR1 => "req_commit"
  | S_write_NC_BC1 => "write_NC"
  | S_write_NC_WAA1 => "write_NC"
  | S_write_NC_WAA2 => "write_NC"
  end.

Definition site_call (s : site) : mpicall :=
  match s with
  | S_NC_begins_AR1 => C_Allreduce
  | S_NC_begins_BC1 => C_Bcast
  | S_allreduce_error_AR1 => C_Allreduce
  | S_check_consistency_put_AR1 => C_Allreduce
  | S_check_consistency_put_AR2 => C_Allreduce
  | S_check_consistency_put_BC1 => C_Bcast
  | S_check_consistency_put_BC2 => C_Bcast
  | S_check_consistency_put_BC3 => C_Bcast
  | S_check_consistency_put_BC4 => C_Bcast
  | S_check_consistency_put_BC5 => C_Bcast
  | S_check_consistency_put_BC6 => C_Bcast
  | S_fill_var_rec_AR1 => C_Allreduce
  | S_fill_var_rec_SV1 => C_File_set_view
  | S_fill_var_rec_WAA1 => C_File_write_at_all
  | S_fillerup_aggregate_SV1 => C_File_set_view
  | S_fillerup_aggregate_SV2 => C_File_set_view
  | S_fillerup_aggregate_WAA1 => C_File_write_at_all
  | S_getput_vard_AR1 => C_Allreduce
  | S_hdr_fetch_BC1 => C_Bcast
  | S_hdr_fetch_BC2 => C_Bcast
  | S_hdr_fetch_RAA1 => C_File_read_at_all
  | S_hdr_fetch_RAA2 => C_File_read_at_all
  | S_move_file_block_AR1 => C_Allreduce
  | S_move_file_block_AR2 => C_Allreduce
  | S_move_file_block_RAA1 => C_File_read_at_all
  | S_move_file_block_SV1 => C_File_set_view
  | S_move_file_block_WAA1 => C_File_write_at_all
  | S_ncmpi__enddef_AR1 => C_Allreduce
  | S_ncmpi__enddef_AR2 => C_Allreduce
  | S_ncmpi__enddef_BC1 => C_Bcast
  | S_ncmpi_abort_CFREE1 => C_Comm_free
  | S_ncmpi_close_CFREE1 => C_Comm_free
  | S_ncmpi_copy_att_AR1 => C_Allreduce
  | S_ncmpi_copy_att_AR2 => C_Allreduce
  | S_ncmpi_copy_att_BC1 => C_Bcast
  | S_ncmpi_copy_att_BC2 => C_Bcast
  | S_ncmpi_copy_att_BC3 => C_Bcast
  | S_ncmpi_create_AR1 => C_Allreduce
  | S_ncmpi_create_BC1 => C_Bcast
  | S_ncmpi_create_DUP1 => C_Comm_dup
  | S_ncmpi_create_CFREE1 => C_Comm_free
  | S_ncmpi_create_CFREE2 => C_Comm_free
  | S_ncmpi_def_dim_AR1 => C_Allreduce
  | S_ncmpi_def_dim_AR2 => C_Allreduce
  | S_ncmpi_def_dim_BC1 => C_Bcast
  | S_ncmpi_def_dim_BC2 => C_Bcast
  | S_ncmpi_def_dim_BC3 => C_Bcast
  | S_ncmpi_def_var_AR1 => C_Allreduce
  | S_ncmpi_def_var_AR2 => C_Allreduce
  | S_ncmpi_def_var_BC1 => C_Bcast
  | S_ncmpi_def_var_BC2 => C_Bcast
  | S_ncmpi_def_var_BC3 => C_Bcast
  | S_ncmpi_def_var_BC4 => C_Bcast
  | S_ncmpi_def_var_BC5 => C_Bcast
  | S_ncmpi_def_var_fill_AR1 => C_Allreduce
  | S_ncmpi_del_att_AR1 => C_Allreduce
  | S_ncmpi_del_att_AR2 => C_Allreduce
  | S_ncmpi_del_att_BC1 => C_Bcast
  | S_ncmpi_del_att_BC2 => C_Bcast
  | S_ncmpi_del_att_BC3 => C_Bcast
  | S_ncmpi_enddef_AR1 => C_Allreduce
  | S_ncmpi_fill_var_rec_AR1 => C_Allreduce
  | S_ncmpi_open_AR1 => C_Allreduce
  | S_ncmpi_open_BC1 => C_Bcast
  | S_ncmpi_open_DUP1 => C_Comm_dup
  | S_ncmpi_open_CFREE1 => C_Comm_free
  | S_ncmpi_open_CFREE2 => C_Comm_free
  | S_ncmpi_open_CFREE3 => C_Comm_free
  | S_ncmpi_rename_att_AR1 => C_Allreduce
  | S_ncmpi_rename_att_AR2 => C_Allreduce
  | S_ncmpi_rename_att_BC1 => C_Bcast
  | S_ncmpi_rename_att_BC2 => C_Bcast
  | S_ncmpi_rename_att_BC3 => C_Bcast
  | S_ncmpi_rename_att_BC4 => C_Bcast
  | S_ncmpi_rename_att_BC5 => C_Bcast
  | S_ncmpi_rename_dim_AR1 => C_Allreduce
  | S_ncmpi_rename_dim_AR2 => C_Allreduce
  | S_ncmpi_rename_dim_BC1 => C_Bcast
  | S_ncmpi_rename_dim_BC2 => C_Bcast
  | S_ncmpi_rename_dim_BC3 => C_Bcast
  | S_ncmpi_rename_var_AR1 => C_Allreduce
  | S_ncmpi_rename_var_AR2 => C_Allreduce
  | S_ncmpi_rename_var_BC1 => C_Bcast
  | S_ncmpi_rename_var_BC2 => C_Bcast
  | S_ncmpi_rename_var_BC3 => C_Bcast
  | S_ncmpio__enddef_AR1 => C_Allreduce
  | S_ncmpio__enddef_AR2 => C_Allreduce
  | S_ncmpio__enddef_AR3 => C_Allreduce
  | S_ncmpio__enddef_AR4 => C_Allreduce
  | S_ncmpio__enddef_AR5 => C_Allreduce
  | S_ncmpio__enddef_AR6 => C_Allreduce
  | S_ncmpio_begin_indep_data_FOPEN1 => C_File_open
  | S_ncmpio_close_BAR1 => C_Barrier
  | S_ncmpio_close_BAR2 => C_Barrier
  | S_ncmpio_close_files_BAR1 => C_Barrier
  | S_ncmpio_close_files_FCLOSE1 => C_File_close
  | S_ncmpio_close_files_FCLOSE2 => C_File_close
  | S_ncmpio_copy_att_AR1 => C_Allreduce
  | S_ncmpio_create_BC1 => C_Bcast
  | S_ncmpio_create_BC2 => C_Bcast
  | S_ncmpio_create_FOPEN1 => C_File_open
  | S_ncmpio_def_var_AR1 => C_Allreduce
  | S_ncmpio_def_var_fill_AR1 => C_Allreduce
  | S_ncmpio_def_var_fill_BC1 => C_Bcast
  | S_ncmpio_def_var_fill_BC2 => C_Bcast
  | S_ncmpio_del_att_AR1 => C_Allreduce
  | S_ncmpio_file_set_view_SV1 => C_File_set_view
  | S_ncmpio_file_set_view_SV2 => C_File_set_view
  | S_ncmpio_file_set_view_SV3 => C_File_set_view
  | S_ncmpio_file_sync_FSYNC1 => C_File_sync
  | S_ncmpio_file_sync_FSYNC2 => C_File_sync
  | S_ncmpio_fill_var_rec_AR1 => C_Allreduce
  | S_ncmpio_fill_var_rec_BC1 => C_Bcast
  | S_ncmpio_fill_var_rec_BC2 => C_Bcast
  | S_ncmpio_getput_zero_req_RA1 => C_File_read_all
  | S_ncmpio_getput_zero_req_SV1 => C_File_set_view
  | S_ncmpio_getput_zero_req_WA1 => C_File_write_all
  | S_ncmpio_intra_node_aggr_init_BC1 => C_Bcast
  | S_ncmpio_intra_node_aggr_init_GA1 => C_Gather
  | S_ncmpio_intra_node_aggr_init_GAV1 => C_Gatherv
  | S_ncmpio_intra_node_aggr_init_GAV2 => C_Gatherv
  | S_ncmpio_open_FOPEN1 => C_File_open
  | S_ncmpio_put_att_AR1 => C_Allreduce
  | S_ncmpio_read_write_RAA1 => C_File_read_at_all
  | S_ncmpio_read_write_WAA1 => C_File_write_at_all
  | S_ncmpio_rename_att_AR1 => C_Allreduce
  | S_ncmpio_rename_dim_AR1 => C_Allreduce
  | S_ncmpio_rename_var_AR1 => C_Allreduce
  | S_ncmpio_set_fill_AR1 => C_Allreduce
  | S_ncmpio_set_fill_BC1 => C_Bcast
  | S_ncmpio_sync_numrecs_AR1 => C_Allreduce
  | S_ncmpio_sync_numrecs_BC1 => C_Bcast
  | S_ncmpio_write_header_BC1 => C_Bcast
  | S_ncmpio_write_header_WAA1 => C_File_write_at_all
  | S_ncmpio_write_header_WAA2 => C_File_write_at_all
  | S_ncmpio_write_numrecs_WAA1 => C_File_write_at_all
  | S_ncmpio_write_numrecs_WAA2 => C_File_write_at_all
  | S_put_varm_AR1 => C_Allreduce
  | S_req_commit_AR1 => C_Allreduce
  | S_write_NC_BC1 => C_Bcast
  | S_write_NC_WAA1 => C_File_write_at_all
  | S_write_NC_WAA2 => C_File_write_at_all
  end.

Definition site_ord (s : site) : nat :=
  match s with
  | S_NC_begins_AR1 => 1
  | S_NC_begins_BC1 => 1
  | S_allreduce_error_AR1 => 1
  | S_check_consistency_put_AR1 => 1
  | S_check_consistency_put_AR2 => 2
  | S_check_consistency_put_BC1 => 1
  | S_check_consistency_put_BC2 => 2
  | S_check_consistency_put_BC3 => 3
  | S_check_consistency_put_BC4 => 4
  | S_check_consistency_put_BC5 => 5
  | S_check_consistency_put_BC6 => 6
  | S_fill_var_rec_AR1 => 1
  | S_fill_var_rec_SV1 => 1
  | S_fill_var_rec_WAA1 => 1
  | S_fillerup_aggregate_SV1 => 1
  | S_fillerup_aggregate_SV2 => 2
  | S_fillerup_aggregate_WAA1 => 1
  | S_getput_vard_AR1 => 1
  | S_hdr_fetch_BC1 => 1
  | S_hdr_fetch_BC2 => 2
  | S_hdr_fetch_RAA1 => 1
  | S_hdr_fetch_RAA2 => 2
  | S_move_file_block_AR1 => 1
  | S_move_file_block_AR2 => 2
  | S_move_file_block_RAA1 => 1
  | S_move_file_block_SV1 => 1
  | S_move_file_block_WAA1 => 1
  | S_ncmpi__enddef_AR1 => 1
  | S_ncmpi__enddef_AR2 => 2
  | S_ncmpi__enddef_BC1 => 1
  | S_ncmpi_abort_CFREE1 => 1
  | S_ncmpi_close_CFREE1 => 1
  | S_ncmpi_copy_att_AR1 => 1
  | S_ncmpi_copy_att_AR2 => 2
  | S_ncmpi_copy_att_BC1 => 1
  | S_ncmpi_copy_att_BC2 => 2
  | S_ncmpi_copy_att_BC3 => 3
  | S_ncmpi_create_AR1 => 1
  | S_ncmpi_create_BC1 => 1
  | S_ncmpi_create_DUP1 => 1
  | S_ncmpi_create_CFREE1 => 1
  | S_ncmpi_create_CFREE2 => 2
  | S_ncmpi_def_dim_AR1 => 1
  | S_ncmpi_def_dim_AR2 => 2
  | S_ncmpi_def_dim_BC1 => 1
  | S_ncmpi_def_dim_BC2 => 2
  | S_ncmpi_def_dim_BC3 => 3
  | S_ncmpi_def_var_AR1 => 1
  | S_ncmpi_def_var_AR2 => 2
  | S_ncmpi_def_var_BC1 => 1
  | S_ncmpi_def_var_BC2 => 2
  | S_ncmpi_def_var_BC3 => 3
  | S_ncmpi_def_var_BC4 => 4
  | S_ncmpi_def_var_BC5 => 5
  | S_ncmpi_def_var_fill_AR1 => 1
  | S_ncmpi_del_att_AR1 => 1
  | S_ncmpi_del_att_AR2 => 2
  | S_ncmpi_del_att_BC1 => 1
  | S_ncmpi_del_att_BC2 => 2
  | S_ncmpi_del_att_BC3 => 3
  | S_ncmpi_enddef_AR1 => 1
  | S_ncmpi_fill_var_rec_AR1 => 1
  | S_ncmpi_open_AR1 => 1
  | S_ncmpi_open_BC1 => 1
  | S_ncmpi_open_DUP1 => 1
  | S_ncmpi_open_CFREE1 => 1
  | S_ncmpi_open_CFREE2 => 2
  | S_ncmpi_open_CFREE3 => 3
  | S_ncmpi_rename_att_AR1 => 1
  | S_ncmpi_rename_att_AR2 => 2
  | S_ncmpi_rename_att_BC1 => 1
  | S_ncmpi_rename_att_BC2 => 2
  | S_ncmpi_rename_att_BC3 => 3
  | S_ncmpi_rename_att_BC4 => 4
  | S_ncmpi_rename_att_BC5 => 5
  | S_ncmpi_rename_dim_AR1 => 1
  | S_ncmpi_rename_dim_AR2 => 2
  | S_ncmpi_rename_dim_BC1 => 1
  | S_ncmpi_rename_dim_BC2 => 2
  | S_ncmpi_rename_dim_BC3 => 3
  | S_ncmpi_rename_var_AR1 => 1
  | S_ncmpi_rename_var_AR2 => 2
  | S_ncmpi_rename_var_BC1 => 1
  | S_ncmpi_rename_var_BC2 => 2
  | S_ncmpi_rename_var_BC3 => 3
  | S_ncmpio__enddef_AR1 => 1
  | S_ncmpio__enddef_AR2 => 2
  | S_ncmpio__enddef_AR3 => 3
  | S_ncmpio__enddef_AR4 => 4
  | S_ncmpio__enddef_AR5 => 5
  | S_ncmpio__enddef_AR6 => 6
  | S_ncmpio_begin_indep_data_FOPEN1 => 1
  | S_ncmpio_close_BAR1 => 1
  | S_ncmpio_close_BAR2 => 2
  | S_ncmpio_close_files_BAR1 => 1
  | S_ncmpio_close_files_FCLOSE1 => 1
  | S_ncmpio_close_files_FCLOSE2 => 2
  | S_ncmpio_copy_att_AR1 => 1
  | S_ncmpio_create_BC1 => 1
  | S_ncmpio_create_BC2 => 2
  | S_ncmpio_create_FOPEN1 => 1
  | S_ncmpio_def_var_AR1 => 1
  | S_ncmpio_def_var_fill_AR1 => 1
  | S_ncmpio_def_var_fill_BC1 => 1
  | S_ncmpio_def_var_fill_BC2 => 2
  | S_ncmpio_del_att_AR1 => 1
  | S_ncmpio_file_set_view_SV1 => 1
  | S_ncmpio_file_set_view_SV2 => 2
  | S_ncmpio_file_set_view_SV3 => 3
  | S_ncmpio_file_sync_FSYNC1 => 1
  | S_ncmpio_file_sync_FSYNC2 => 2
  | S_ncmpio_fill_var_rec_AR1 => 1
  | S_ncmpio_fill_var_rec_BC1 => 1
  | S_ncmpio_fill_var_rec_BC2 => 2
  | S_ncmpio_getput_zero_req_RA1 => 1
  | S_ncmpio_getput_zero_req_SV1 => 1
  | S_ncmpio_getput_zero_req_WA1 => 1
  | S_ncmpio_intra_node_aggr_init_BC1 => 1
  | S_ncmpio_intra_node_aggr_init_GA1 => 1
  | S_ncmpio_intra_node_aggr_init_GAV1 => 1
  | S_ncmpio_intra_node_aggr_init_GAV2 => 2
  | S_ncmpio_open_FOPEN1 => 1
  | S_ncmpio_put_att_AR1 => 1
  | S_ncmpio_read_write_RAA1 => 1
  | S_ncmpio_read_write_WAA1 => 1
  | S_ncmpio_rename_att_AR1 => 1
  | S_ncmpio_rename_dim_AR1 => 1
  | S_ncmpio_rename_var_AR1 => 1
  | S_ncmpio_set_fill_AR1 => 1
  | S_ncmpio_set_fill_BC1 => 1
  | S_ncmpio_sync_numrecs_AR1 => 1
  | S_ncmpio_sync_numrecs_BC1 => 1
  | S_ncmpio_write_header_BC1 => 1
  | S_ncmpio_write_header_WAA1 => 1
  | S_ncmpio_write_header_WAA2 => 2
  | S_ncmpio_write_numrecs_WAA1 => 1
  | S_ncmpio_write_numrecs_WAA2 => 2
  | S_put_varm_AR1 => 1
  | S_req_commit_AR1 => 1
  | S_write_NC_BC1 => 1
  | S_write_NC_WAA1 => 1
  | S_write_NC_WAA2 => 2
  end.

