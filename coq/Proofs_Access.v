(* Proofs_Access.v — MODEL (ncmpio_filetype.c as transcribed in Access.v) = SPEC (row-major
   enumeration of elem_off) for every dimensionality, shape and accepted request.
   No axioms (every main result: Print Assumptions = "Closed under the global context").
   Main results
     vara_offsets_spec(_strong,_min)   filetype_create_vara = spec, stride 1
     model_offsets_spec(_none,_min)    ncmpio_filetype_create_vars = spec, any stride
     model_offsets_eq_spec(_none)      same without the empty-request case split
     spec_offsets_length, elem_off_inj, elem_off_bounds_fixed/_rec, spec_offsets_NoDup
     req_ok_nth / dims_ok_nth          pointwise reading of req_ok
     check_scs_req_ok                  the dispatcher's argument check establishes req_ok
     model_offsets_old_refuted         the unrepaired stride_flatten (1-D record variable)
     model_offsets_old_spec_partial    ... is wrong only there *)
From Pnc Require Import Base Header Access Proofs_Lists.
Require Import Lia ZArith List Bool ZifyBool.
Import ListNotations.
Local Open Scope Z_scope.
Local Arguments Z.mul : simpl never.
Local Arguments Z.add : simpl never.
Local Arguments Z.sub : simpl never.

(* ================================================================== *)
(* 1. Well-formedness                                                  *)
(* ================================================================== *)

(* every dimension length is >= 0; only dimension 0 may be 0 (= the record dimension) *)
Definition dims_wf (shape : list Z) : Prop :=
  match shape with
  | [] => True
  | s0 :: ss => 0 <= s0 /\ Forall (fun s => 1 <= s) ss
  end.

(* the only fact about the file layout the contiguous shortcut of filetype_create_vara relies on:
   when the file has a single record variable its records are packed back to back *)
Definition rec_packed (g : geom) : Prop :=
  g_isrec g = true -> g_nrecvars g <= 1 ->
  g_recsize g = zprod (tl (g_shape g)) * g_xsz g.

Definition wf_geom (g : geom) : Prop :=
  0 < g_xsz g /\ 0 <= g_recsize g /\ dims_wf (g_shape g) /\ rec_packed g.

(* per-dimension acceptance for a bounded (non-record) dimension *)
Fixpoint dims_ok (shape start count stride : list Z) : Prop :=
  match shape, start, count, stride with
  | [], [], [], [] => True
  | sh :: ss, s :: st, c :: ct, t :: ts =>
      0 <= s /\ 0 <= c /\ 1 <= t /\ (c = 0 \/ s + (c - 1) * t < sh) /\ dims_ok ss st ct ts
  | _, _, _, _ => False
  end.

(* the request passed argument checking; shape[0] = 0 encodes the record dimension, which is
   unbounded (writes may extend it) *)
Definition req_ok (shape start count stride : list Z) : Prop :=
  match shape, start, count, stride with
  | [], [], [], [] => True
  | sh :: ss, s :: st, c :: ct, t :: ts =>
      0 <= s /\ 0 <= c /\ 1 <= t /\ (sh = 0 \/ c = 0 \/ s + (c - 1) * t < sh) /\
      dims_ok ss st ct ts
  | _, _, _, _ => False
  end.

Lemma ones_S : forall n, ones (S n) = 1 :: ones n.
Proof. reflexivity. Qed.

Lemma ones_length : forall n, length (ones n) = n.
Proof. intros. apply repeat_length. Qed.

Lemma dims_ok_lengths : forall shape start count stride,
  dims_ok shape start count stride ->
  length start = length shape /\ length count = length shape /\ length stride = length shape.
Proof.
  induction shape as [|sh ss IH]; intros start count stride H;
    destruct start as [|s st]; destruct count as [|c ct]; destruct stride as [|t ts];
    cbn [dims_ok] in H; try contradiction.
  - auto.
  - destruct H as (_ & _ & _ & _ & H). apply IH in H. cbn [length]. lia.
Qed.

Lemma req_ok_lengths : forall shape start count stride,
  req_ok shape start count stride ->
  length start = length shape /\ length count = length shape /\ length stride = length shape.
Proof.
  intros shape start count stride H.
  destruct shape as [|sh ss]; destruct start as [|s st]; destruct count as [|c ct];
    destruct stride as [|t ts]; cbn [req_ok] in H; try contradiction.
  - auto.
  - destruct H as (_ & _ & _ & _ & H). apply dims_ok_lengths in H. cbn [length]. lia.
Qed.

Lemma dims_ok_count_nonneg : forall shape start count stride,
  dims_ok shape start count stride -> Forall (fun c => 0 <= c) count.
Proof.
  induction shape as [|sh ss IH]; intros start count stride H;
    destruct start as [|s st]; destruct count as [|c ct]; destruct stride as [|t ts];
    cbn [dims_ok] in H; try contradiction.
  - constructor.
  - destruct H as (_ & Hc & _ & _ & H). constructor; [assumption|]. eapply IH; eassumption.
Qed.

Lemma req_ok_count_nonneg : forall shape start count stride,
  req_ok shape start count stride -> Forall (fun c => 0 <= c) count.
Proof.
  intros shape start count stride H.
  destruct shape as [|sh ss]; destruct start as [|s st]; destruct count as [|c ct];
    destruct stride as [|t ts]; cbn [req_ok] in H; try contradiction.
  - constructor.
  - destruct H as (_ & Hc & _ & _ & H). constructor; [assumption|].
    eapply dims_ok_count_nonneg; eassumption.
Qed.

(* dropping the strides keeps a request acceptable *)
Lemma dims_ok_ones : forall shape start count stride,
  dims_ok shape start count stride -> dims_ok shape start count (ones (length shape)).
Proof.
  induction shape as [|sh ss IH]; intros start count stride H;
    destruct start as [|s st]; destruct count as [|c ct]; destruct stride as [|t ts];
    cbn [dims_ok] in H; try contradiction.
  - exact I.
  - destruct H as (Hs & Hc & Ht & Hb & H). cbn [length]. rewrite ones_S. cbn [dims_ok].
    repeat split; try lia.
    + destruct (Z.eq_dec c 0) as [Hc0|Hc0]; [left; assumption|].
      destruct Hb as [Hb|Hb]; [left; assumption | right; nia].
    + eapply IH; eassumption.
Qed.

Lemma req_ok_ones : forall shape start count stride,
  req_ok shape start count stride -> req_ok shape start count (ones (length shape)).
Proof.
  intros shape start count stride H.
  destruct shape as [|sh ss]; destruct start as [|s st]; destruct count as [|c ct];
    destruct stride as [|t ts]; cbn [req_ok] in H; try contradiction.
  - exact I.
  - destruct H as (Hs & Hc & Ht & Hb & H). cbn [length]. rewrite ones_S. cbn [req_ok].
    repeat split; try lia.
    + destruct (Z.eq_dec c 0) as [Hc0|Hc0]; [right; left; assumption|].
      destruct Hb as [Hb|[Hb|Hb]]; [left; assumption | right; left; assumption | right; right; nia].
    + eapply dims_ok_ones; eassumption.
Qed.

(* ================================================================== *)
(* 2. req_indices: length, emptiness, irrelevant strides               *)
(* ================================================================== *)
Lemma req_indices_length : forall start count stride,
  length start = length count -> length stride = length count ->
  Forall (fun c => 0 <= c) count ->
  length (req_indices start count stride) = Z.to_nat (zprod count).
Proof.
  induction start as [|s st IH]; intros count stride Hs Ht Hc;
    destruct count as [|c ct]; try discriminate.
  - reflexivity.
  - destruct stride as [|t ts]; [discriminate|].
    cbn [length] in Hs, Ht. inversion Hc as [|? ? Hc0 Hct]; subst.
    cbn [req_indices zprod].
    rewrite (flat_map_length_const _ _ _ _ (Z.to_nat (zprod ct))).
    + rewrite zrange_length. rewrite Z2Nat.inj_mul; [reflexivity | assumption |].
      apply zprod_nonneg; assumption.
    + intros i _. rewrite map_length. apply IH; [lia | lia | assumption].
Qed.

Lemma req_indices_nil : forall start count stride,
  length start = length count -> length stride = length count ->
  In 0 count -> req_indices start count stride = [].
Proof.
  induction start as [|s st IH]; intros count stride Hs Ht Hin;
    destruct count as [|c ct]; try discriminate.
  - destruct Hin.
  - destruct stride as [|t ts]; [discriminate|].
    cbn [length] in Hs, Ht. cbn [req_indices].
    destruct (Z.eq_dec c 0) as [->|Hc].
    + reflexivity.
    + destruct Hin as [Hin|Hin]; [congruence|].
      rewrite IH by (assumption || lia). cbn [map]. apply flat_map_nil_all.
Qed.

(* a dimension with count <= 1 never uses its stride *)
Lemma req_indices_stride_irrelevant : forall start count stride,
  length start = length count -> length stride = length count ->
  Forall (fun p => fst p <= 1 \/ snd p = 1) (zip count stride) ->
  req_indices start count stride = req_indices start count (ones (length count)).
Proof.
  induction start as [|s st IH]; intros count stride Hs Ht H;
    destruct count as [|c ct]; try discriminate.
  - reflexivity.
  - destruct stride as [|t ts]; [discriminate|].
    cbn [length] in Hs, Ht. cbn [zip] in H. inversion H as [|? ? Hp Hr]; subst.
    cbn [fst snd] in Hp. cbn [length]. rewrite ones_S. cbn [req_indices].
    rewrite <- (IH ct ts) by (assumption || lia).
    apply flat_map_ext_In. intros i Hi. apply zrange_In in Hi.
    replace (s + i * t) with (s + i * 1); [reflexivity|].
    destruct Hp as [Hp|Hp]; [|subst; reflexivity].
    assert (i = 0) by lia. subst. lia.
Qed.

(* ================================================================== *)
(* 3. The subarray type map is the row-major enumeration               *)
(* ================================================================== *)
Lemma subarray_disps_lin : forall shape count start,
  length count = length shape -> length start = length shape ->
  subarray_disps shape count start =
  map (lin shape) (req_indices start count (ones (length shape))).
Proof.
  induction shape as [|sh ss IH]; intros count start Hc Hs.
  - destruct count; [|discriminate]. destruct start; [|discriminate]. reflexivity.
  - destruct count as [|c ct]; [discriminate|]. destruct start as [|s st]; [discriminate|].
    cbn [length] in Hc, Hs |- *. rewrite ones_S. cbn [subarray_disps req_indices].
    rewrite map_flat_map_comm. apply flat_map_ext. intros i.
    rewrite map_map. rewrite IH by lia. rewrite map_map.
    apply map_ext. intros x. cbn [lin]. ring.
Qed.

(* ================================================================== *)
(* 4. is_request_contiguous                                            *)
(* ================================================================== *)
(* non-reversed reading of the scan: some prefix has count <= 1, then one arbitrary
   dimension, then every later dimension is accessed in full *)
Fixpoint ctg (count shape : list Z) : Prop :=
  match count, shape with
  | c :: cs, _ :: ss => Forall2 (fun c' s' => s' <= c') cs ss \/ (c <= 1 /\ ctg cs ss)
  | _, _ => True
  end.

Lemma full_ctg : forall cs ss, Forall2 (fun c' s' => s' <= c') cs ss -> ctg cs ss.
Proof.
  intros cs ss H. destruct H as [|c s cs ss Hcs H]; cbn [ctg]; [exact I|].
  left. assumption.
Qed.

Lemma ctg_snoc_full : forall cs ss c s,
  length cs = length ss -> ctg cs ss -> s <= c -> ctg (cs ++ [c]) (ss ++ [s]).
Proof.
  induction cs as [|a cs IH]; intros ss c s Hlen H Hsc; destruct ss as [|b ss]; try discriminate.
  - cbn [app ctg]. left. constructor.
  - cbn [length] in Hlen. cbn [app ctg] in H |- *. destruct H as [H|[Ha H]].
    + left. apply Forall2_app; [assumption|]. constructor; [assumption | constructor].
    + right. split; [assumption|]. apply IH; [lia | assumption | assumption].
Qed.

Lemma ctg_snoc_le1 : forall cs ss c s,
  length cs = length ss -> all_le1 cs = true -> ctg (cs ++ [c]) (ss ++ [s]).
Proof.
  induction cs as [|a cs IH]; intros ss c s Hlen H; destruct ss as [|b ss]; try discriminate.
  - cbn [app ctg]. left. constructor.
  - cbn [length] in Hlen. cbn [all_le1] in H. apply andb_true_iff in H. destruct H as [Ha H].
    cbn [app ctg]. right. split; [lia|]. apply IH; [lia | assumption].
Qed.

Lemma contig_scan_ctg : forall cs ss c0 s0,
  length cs = length ss ->
  contig_scan (rev (zip cs ss)) (removelast (c0 :: cs)) = true ->
  ctg (c0 :: cs) (s0 :: ss).
Proof.
  induction cs as [|x cs IH] using rev_ind; intros ss c0 s0 Hlen H.
  - destruct ss; [|discriminate]. cbn [ctg]. left. constructor.
  - destruct (snoc_cases _ ss) as [->|[ss' [s ->]]].
    { rewrite app_length in Hlen. cbn [length] in Hlen. lia. }
    rewrite !app_length in Hlen. cbn [length] in Hlen.
    assert (Hlen' : length cs = length ss') by lia.
    rewrite zip_app in H by assumption. cbn [zip] in H.
    rewrite rev_app_distr in H. cbn [rev app] in H.
    rewrite removelast_cons_snoc in H. cbn [contig_scan] in H.
    change (c0 :: cs ++ [x]) with ((c0 :: cs) ++ [x]).
    change (s0 :: ss' ++ [s]) with ((s0 :: ss') ++ [s]).
    destruct (x <? s) eqn:E.
    + apply ctg_snoc_le1; [cbn [length]; lia | assumption].
    + apply ctg_snoc_full; [cbn [length]; lia | | lia].
      apply IH; assumption.
Qed.

Lemma existsb_zero_false : forall count,
  Forall (fun c => 1 <= c) count -> existsb (fun c => c =? 0) count = false.
Proof.
  induction count as [|c ct IH]; intros H; cbn [existsb]; [reflexivity|].
  inversion H as [|? ? Hc Hct]; subst. rewrite IH by assumption.
  replace (c =? 0) with false by lia. reflexivity.
Qed.

Lemma existsb_zero_true : forall count, In 0 count -> existsb (fun c => c =? 0) count = true.
Proof.
  intros count H. apply existsb_exists. exists 0. split; [assumption | reflexivity].
Qed.

Lemma is_contig_ctg : forall isrec nrv shape count,
  length count = length shape -> Forall (fun c => 1 <= c) count ->
  is_contig isrec nrv shape count = true ->
  ctg count shape /\ (isrec = true -> 1 < nrv -> hd 0 count <= 1).
Proof.
  intros isrec nrv shape count Hlen Hpos H.
  destruct shape as [|sh ss].
  { destruct count; [|discriminate]. split; [exact I | cbn [hd]; lia]. }
  destruct count as [|c0 ct]; [discriminate|]. cbn [length] in Hlen.
  unfold is_contig in H. rewrite existsb_zero_false in H by assumption.
  destruct (isrec && (nrv >? 1)) eqn:Eb.
  - cbn [andb hd skipn] in H.
    destruct (c0 >? 1) eqn:Ec0; [discriminate|].
    split; [|cbn [hd]; lia].
    cbn [ctg]. right. split; [lia|].
    destruct ct as [|c1 ct']; destruct ss as [|s1 ss']; try discriminate; [exact I|].
    cbn [tl] in H. cbn [length] in Hlen. apply contig_scan_ctg; [lia | assumption].
  - cbn [andb skipn tl] in H. split.
    + apply contig_scan_ctg; [lia | assumption].
    + intros -> Hn. cbn [andb] in Eb. lia.
Qed.

(* in a full dimension start = 0 and count = shape *)
Lemma full_facts : forall ct ss st,
  Forall2 (fun c' s' => s' <= c') ct ss ->
  dims_ok ss st ct (ones (length ss)) -> Forall (fun c => 1 <= c) ct ->
  zprod ct = zprod ss /\ lin ss st = 0.
Proof.
  intros ct ss st H. revert st.
  induction H as [|c s ct ss Hsc H IH]; intros st Hok Hpos.
  - split; reflexivity.
  - destruct st as [|s0 st]; cbn [length] in Hok; rewrite ones_S in Hok; cbn [dims_ok] in Hok;
      [contradiction|].
    destruct Hok as (Hs0 & Hc & _ & Hb & Hok).
    inversion Hpos as [|? ? Hc1 Hpos']; subst.
    destruct (IH st Hok Hpos') as [E1 E2].
    assert (s0 = 0 /\ c = s) as [-> ->] by lia.
    cbn [zprod lin]. rewrite E1, E2. split; ring.
Qed.

Lemma dims_ok_tl : forall ss st ct,
  dims_ok ss st ct (ones (length ss)) ->
  dims_ok (tl ss) (tl st) (tl ct) (ones (length (tl ss))).
Proof.
  intros ss st ct H.
  destruct ss as [|s ss]; destruct st as [|s0 st]; destruct ct as [|c ct];
    cbn [length] in H; try rewrite ones_S in H; cbn [dims_ok] in H; try contradiction.
  - exact I.
  - cbn [tl]. tauto.
Qed.

(* a contiguous request enumerates a run of consecutive linear indices *)
Lemma ctg_run : forall shape start count,
  length start = length shape -> length count = length shape ->
  ctg count shape -> Forall (fun c => 1 <= c) count ->
  dims_ok (tl shape) (tl start) (tl count) (ones (length (tl shape))) ->
  map (lin shape) (req_indices start count (ones (length shape))) =
  zrange (lin shape start) (zprod count).
Proof.
  induction shape as [|sh ss IH]; intros start count Hs Hc Hctg Hpos Hok.
  - destruct start; [|discriminate]. destruct count; [|discriminate]. reflexivity.
  - destruct start as [|s st]; [discriminate|]. destruct count as [|c ct]; [discriminate|].
    cbn [length] in Hs, Hc |- *. cbn [tl] in Hok. rewrite ones_S.
    inversion Hpos as [|? ? Hc1 Hpos']; subst.
    assert (Hrun : map (lin ss) (req_indices st ct (ones (length ss))) =
                   zrange (lin ss st) (zprod ct)).
    { apply IH; [lia | lia | | assumption | apply dims_ok_tl; assumption].
      cbn [ctg] in Hctg. destruct Hctg as [Hf|[_ Hg]]; [apply full_ctg; assumption | assumption]. }
    cbn [req_indices]. rewrite map_flat_map_comm.
    assert (Hstep : forall i,
      map (lin (sh :: ss)) (map (cons (s + i * 1)) (req_indices st ct (ones (length ss)))) =
      zrange ((s + i) * zprod ss + lin ss st) (zprod ct)).
    { intros i. rewrite map_map.
      rewrite <- zrange_map_add. rewrite <- Hrun. rewrite map_map.
      apply map_ext. intros x. cbn [lin]. ring. }
    rewrite (flat_map_ext _ _ Hstep).
    cbn [ctg] in Hctg. destruct Hctg as [Hf|[Hc0 _]].
    + destruct (full_facts _ _ _ Hf Hok Hpos') as [E1 E2].
      cbn [lin zprod]. rewrite E2, E1.
      assert (0 <= zprod ss).
      { rewrite <- E1. apply zprod_nonneg. eapply Forall_impl; [|exact Hpos'].
        cbn beta. intros; lia. }
      rewrite <- (flat_map_zrange_blocks c (s * zprod ss + 0) (zprod ss)) by assumption.
      apply flat_map_ext. intros i. f_equal. ring.
    + assert (c = 1) by lia. subst c.
      rewrite zrange_1. cbn [flat_map]. rewrite app_nil_r.
      cbn [lin zprod]. f_equal; ring.
Qed.

(* ================================================================== *)
(* 5. vara_offsets = spec (stride 1)                                   *)
(* ================================================================== *)
Lemma g_isrec_cons : forall g, g_isrec g = true -> exists ss, g_shape g = 0 :: ss.
Proof.
  intros g H. unfold g_isrec in H. destruct (g_shape g) as [|s0 ss]; [discriminate|].
  exists ss. f_equal. lia.
Qed.

Lemma elem_off_fixed : forall g idx, g_isrec g = false ->
  elem_off g idx = g_begin g + lin (g_shape g) idx * g_xsz g.
Proof. intros g idx H. unfold elem_off. rewrite H. reflexivity. Qed.

Lemma elem_off_rec : forall g i0 r, g_isrec g = true ->
  elem_off g (i0 :: r) = g_begin g + (i0 * g_recsize g + lin (tl (g_shape g)) r * g_xsz g).
Proof. intros g i0 r H. unfold elem_off. rewrite H. reflexivity. Qed.

(* with packed records a record variable is addressed like a fixed one *)
Lemma elem_off_rec_packed : forall g i0 r, g_isrec g = true ->
  g_recsize g = zprod (tl (g_shape g)) * g_xsz g ->
  elem_off g (i0 :: r) = g_begin g + lin (g_shape g) (i0 :: r) * g_xsz g.
Proof.
  intros g i0 r H E. rewrite elem_off_rec by assumption. rewrite E.
  destruct (g_isrec_cons g H) as [ss Hs]. rewrite Hs. cbn [tl lin]. ring.
Qed.

Lemma req_indices_cons_inv : forall s st c ct t ts idx,
  In idx (req_indices (s :: st) (c :: ct) (t :: ts)) -> exists i0 r, idx = i0 :: r.
Proof.
  intros s st c ct t ts idx H. cbn [req_indices] in H.
  apply in_flat_map in H. destruct H as [i [_ H]].
  apply in_map_iff in H. destruct H as [r [<- _]]. eauto.
Qed.

(* the contiguous shortcut when the whole variable is addressed through lin *)
Lemma contig_lin_offsets : forall b xsz shape start count,
  length start = length shape -> length count = length shape ->
  ctg count shape -> Forall (fun c => 1 <= c) count ->
  dims_ok (tl shape) (tl start) (tl count) (ones (length (tl shape))) ->
  map (fun k => b + lin shape start * xsz + k * xsz) (zrange 0 (zprod count)) =
  map (fun idx => b + lin shape idx * xsz) (req_indices start count (ones (length shape))).
Proof.
  intros b xsz shape start count Hs Hc Hctg Hpos Hok.
  rewrite <- (map_map (lin shape) (fun l => b + l * xsz)).
  rewrite ctg_run by assumption.
  rewrite (zrange_shift (lin shape start)). rewrite map_map.
  apply map_ext. intros k. ring.
Qed.

Lemma req_ok_tl_dims_ok : forall shape start count stride,
  req_ok shape start count stride ->
  dims_ok (tl shape) (tl start) (tl count) (tl stride).
Proof.
  intros shape start count stride H.
  destruct shape as [|sh ss]; destruct start as [|s st]; destruct count as [|c ct];
    destruct stride as [|t ts]; cbn [req_ok] in H; try contradiction.
  - exact I.
  - cbn [tl]. tauto.
Qed.

Lemma tl_ones : forall n, tl (ones n) = ones (Nat.pred n).
Proof. intros [|n]; reflexivity. Qed.

Lemma length_tl : forall A (l : list A), length (tl l) = Nat.pred (length l).
Proof. intros A [|a l]; reflexivity. Qed.

(* Minimal hypotheses: only the packing fact about the geometry, and an accepted request. *)
Theorem vara_offsets_spec_min : forall g start count,
  rec_packed g ->
  req_ok (g_shape g) start count (ones (length (g_shape g))) ->
  vara_offsets g start count = spec_offsets g start count (ones (length (g_shape g))).
Proof.
  intros g start count Hpack Hreq.
  destruct (req_ok_lengths _ _ _ _ Hreq) as (Hls & Hlc & _).
  pose proof (req_ok_count_nonneg _ _ _ _ Hreq) as Hnn.
  pose proof (req_ok_tl_dims_ok _ _ _ _ Hreq) as Htl.
  rewrite tl_ones, <- length_tl in Htl.
  unfold vara_offsets, spec_offsets.
  destruct (g_shape g) as [|sh ss] eqn:Eshape.
  { (* scalar *)
    destruct start; [|discriminate]. destruct count; [|discriminate].
    cbn [length ones repeat req_indices map]. f_equal.
    unfold elem_off, g_isrec. rewrite Eshape. cbn [lin]. ring. }
  rewrite <- Eshape in *.
  destruct (is_contig (g_isrec g) (g_nrecvars g) (g_shape g) count) eqn:Econtig.
  - (* contiguous shortcut *)
    destruct (Z.eq_dec (zprod count) 0) as [Hz|Hz].
    { (* empty request *)
      rewrite Hz. rewrite zrange_0. cbn [map].
      rewrite req_indices_nil; [reflexivity | lia | rewrite ones_length; lia |].
      apply zprod_zero_iff. assumption. }
    pose proof (zprod_nonzero_pos _ Hnn Hz) as Hpos.
    destruct (is_contig_ctg _ _ _ _ Hlc Hpos Econtig) as [Hctg Hrec1].
    destruct (g_isrec g) eqn:Erec.
    + (* record variable *)
      destruct (g_isrec_cons g Erec) as [ss' Hs']. rewrite Eshape in Hs'.
      injection Hs' as -> <-.
      destruct start as [|s0 st]; [rewrite Eshape in Hls; discriminate|].
      destruct count as [|c0 ct]; [rewrite Eshape in Hlc; discriminate|].
      unfold first_offset. rewrite Eshape, Erec. rewrite <- Eshape.
      cbn [hd tl].
      destruct (Z.eq_dec c0 1) as [->|Hc0].
      * (* one record: contiguous inside the record *)
        rewrite Eshape in *. cbn [length tl] in *. rewrite ones_S.
        cbn [req_indices]. rewrite zrange_1. cbn [flat_map]. rewrite app_nil_r.
        rewrite map_map.
        assert (Hctg' : ctg ct ss).
        { cbn [ctg] in Hctg. destruct Hctg as [Hf|[_ Hg]]; [apply full_ctg|]; assumption. }
        inversion Hpos as [|? ? _ Hpos']; subst.
        cbn [zprod]. rewrite Z.mul_1_l.
        transitivity (map (fun idx => (g_begin g + s0 * g_recsize g) + lin ss idx * g_xsz g)
                          (req_indices st ct (ones (length ss)))).
        -- rewrite <- contig_lin_offsets; [| lia | lia | assumption | assumption |
                                           apply dims_ok_tl; assumption].
           apply map_ext. intros k. ring.
        -- apply map_ext. intros r. rewrite elem_off_rec by assumption.
           rewrite Eshape. cbn [tl]. ring.
      * (* several records: needs back-to-back records *)
        assert (Hnrv : g_nrecvars g <= 1).
        { destruct (Z_le_gt_dec (g_nrecvars g) 1) as [Hle|Hgt]; [assumption|].
          specialize (Hrec1 eq_refl ltac:(lia)). cbn [hd] in Hrec1.
          inversion Hpos; subst. lia. }
        pose proof (Hpack Erec Hnrv) as Hrs.
        transitivity (map (fun idx => g_begin g + lin (g_shape g) idx * g_xsz g)
                          (req_indices (s0 :: st) (c0 :: ct) (ones (length (g_shape g))))).
        -- rewrite <- contig_lin_offsets by assumption.
           apply map_ext. intros k. rewrite Hrs. rewrite Eshape. cbn [tl lin]. ring.
        -- apply map_ext_In. intros idx Hidx.
           rewrite Eshape in Hidx. cbn [length] in Hidx. rewrite ones_S in Hidx.
           apply req_indices_cons_inv in Hidx. destruct Hidx as [i0 [r ->]].
           symmetry. apply elem_off_rec_packed; assumption.
    + (* fixed-size variable *)
      unfold first_offset. rewrite Eshape, Erec. rewrite <- Eshape.
      rewrite contig_lin_offsets by assumption.
      apply map_ext. intros idx. symmetry. apply elem_off_fixed. assumption.
  - (* not contiguous *)
    destruct (g_isrec g) eqn:Erec.
    + (* record variable: one subarray per record under an hvector *)
      destruct (g_isrec_cons g Erec) as [ss' Hs']. rewrite Eshape in Hs'.
      injection Hs' as -> <-.
      destruct start as [|s0 st]; [rewrite Eshape in Hls; discriminate|].
      destruct count as [|c0 ct]; [rewrite Eshape in Hlc; discriminate|].
      rewrite Eshape in *. cbn [length tl hd] in *. rewrite ones_S.
      assert (Hrect : match ss with
                      | [] => [0]
                      | z :: l => map (fun d => d * g_xsz g) (subarray_disps (z :: l) ct st)
                      end = map (fun r => lin ss r * g_xsz g)
                                (req_indices st ct (ones (length ss)))).
      { rewrite <- (map_map (lin ss) (fun d => d * g_xsz g)).
        rewrite <- subarray_disps_lin by lia.
        destruct ss; [|reflexivity].
        destruct ct; [|discriminate]. destruct st; [|discriminate]. reflexivity. }
      rewrite Hrect. cbn [req_indices]. rewrite map_flat_map_comm.
      apply flat_map_ext. intros i. rewrite !map_map.
      apply map_ext. intros r. rewrite elem_off_rec by assumption.
      rewrite Eshape. cbn [tl]. ring.
    + (* fixed-size variable: plain subarray *)
      rewrite subarray_disps_lin by assumption. rewrite map_map.
      apply map_ext. intros idx. symmetry. apply elem_off_fixed. assumption.
Qed.

Theorem vara_offsets_spec_strong : forall g start count,
  wf_geom g ->
  req_ok (g_shape g) start count (ones (length (g_shape g))) ->
  vara_offsets g start count = spec_offsets g start count (ones (length (g_shape g))).
Proof.
  intros g start count (_ & _ & _ & Hpack). apply vara_offsets_spec_min. assumption.
Qed.

Theorem vara_offsets_spec : forall g start count,
  wf_geom g ->
  req_ok (g_shape g) start count (ones (length (g_shape g))) ->
  zprod count <> 0 ->
  vara_offsets g start count = spec_offsets g start count (ones (length (g_shape g))).
Proof. intros g start count Hwf Hreq _. apply vara_offsets_spec_strong; assumption. Qed.

(* ================================================================== *)
(* 6. stride_flatten                                                   *)
(* ================================================================== *)
(* nested row-major enumeration over (start,count,stride,unit) quadruples *)
Fixpoint gen (l : list (Z * Z * Z * Z)) (base : list Z) : list Z :=
  match l with
  | [] => base
  | (s, c, t, u) :: r =>
      flat_map (fun i => map (Z.add ((s + i * t) * u)) (gen r base)) (zrange 0 c)
  end.

Definition quads (A B C D : list Z) : list (Z * Z * Z * Z) :=
  map (fun p => quad (fst p) (snd p)) (zip (zip A B) (zip C D)).

Lemma quads_cons : forall a A b B c C d D,
  quads (a :: A) (b :: B) (c :: C) (d :: D) = (a, b, c, d) :: quads A B C D.
Proof. reflexivity. Qed.

Lemma quads_snoc : forall A B C D a b c d,
  length A = length B -> length B = length C -> length C = length D ->
  quads (A ++ [a]) (B ++ [b]) (C ++ [c]) (D ++ [d]) = quads A B C D ++ [(a, b, c, d)].
Proof.
  intros A B C D a b c d H1 H2 H3. unfold quads.
  rewrite (zip_app _ _ A [a] B [b]) by assumption.
  rewrite (zip_app _ _ C [c] D [d]) by assumption.
  rewrite zip_app by (rewrite !zip_length by assumption; lia).
  rewrite map_app. reflexivity.
Qed.

Lemma flatten_outer_app : forall a b d,
  flatten_outer (a ++ b) d = flatten_outer b (flatten_outer a d).
Proof.
  induction a as [|[[[s c] t] u] a IH]; intros b d; cbn [app flatten_outer]; [reflexivity|].
  apply IH.
Qed.

Lemma flatten_outer_rev : forall l d, flatten_outer (rev l) d = gen l d.
Proof.
  induction l as [|[[[s c] t] u] l IH]; intros d; cbn [rev]; [reflexivity|].
  rewrite flatten_outer_app. cbn [flatten_outer gen]. rewrite IH. reflexivity.
Qed.

Lemma gen_app : forall a b base, gen (a ++ b) base = gen a (gen b base).
Proof.
  induction a as [|[[[s c] t] u] a IH]; intros b base; cbn [app gen]; [reflexivity|].
  rewrite IH. reflexivity.
Qed.

(* a translation-equivariant expansion of each displacement commutes with the enumeration *)
Lemma gen_equivariant : forall (f : Z -> list Z),
  (forall a d, f (a + d) = map (Z.add a) (f d)) ->
  forall l base, flat_map f (gen l base) = gen l (flat_map f base).
Proof.
  intros f Hf. induction l as [|[[[s c] t] u] l IH]; intros base; cbn [gen]; [reflexivity|].
  rewrite flat_map_flat_map. apply flat_map_ext. intros i.
  rewrite flat_map_map_comm. rewrite <- IH. rewrite map_flat_map_comm.
  apply flat_map_ext. intros x. apply Hf.
Qed.

(* weighted index sum; the same truncating recursion as lin *)
Fixpoint dot (units idx : list Z) : Z :=
  match units, idx with
  | u :: us, i :: is_ => i * u + dot us is_
  | _, _ => 0
  end.

Lemma dot_dim_units : forall shape d idx b rs xsz,
  b = false \/ d <> 0%nat ->
  dot (dim_units b rs xsz shape d) idx = lin shape idx * xsz.
Proof.
  induction shape as [|s ss IH]; intros d idx b rs xsz Hbd.
  - cbn [dim_units dot lin]. ring.
  - destruct idx as [|i r]; cbn [dim_units dot lin]; [ring|].
    rewrite IH by (right; discriminate).
    replace (b && Nat.eqb d 0) with false; [ring|].
    destruct Hbd as [->|Hd]; [reflexivity|].
    destruct d; [congruence|]. cbn [Nat.eqb]. rewrite andb_false_r. reflexivity.
Qed.

Definition g_units (g : geom) : list Z :=
  dim_units (g_isrec g) (g_recsize g) (g_xsz g) (g_shape g) 0.

Lemma elem_off_dot : forall g idx, elem_off g idx = g_begin g + dot (g_units g) idx.
Proof.
  intros g idx. unfold elem_off, g_units. destruct (g_isrec g) eqn:Erec.
  - destruct (g_isrec_cons g Erec) as [ss Hs]. rewrite Hs.
    destruct idx as [|i0 r]; cbn [dim_units dot tl]; [reflexivity|].
    cbn [andb Nat.eqb]. rewrite dot_dim_units by (right; discriminate). reflexivity.
  - rewrite dot_dim_units by (left; reflexivity). reflexivity.
Qed.

Lemma dim_units_length : forall shape b rs xsz d, length (dim_units b rs xsz shape d) = length shape.
Proof.
  induction shape as [|s ss IH]; intros b rs xsz d; cbn [dim_units length]; [reflexivity|].
  rewrite IH. reflexivity.
Qed.

Lemma last_cons_nonempty : forall A (a : A) l d, l <> [] -> last (a :: l) d = last l d.
Proof. intros A a l d H. destruct l; [congruence | reflexivity]. Qed.

Lemma dim_units_nonempty : forall b rs xsz s ss d, dim_units b rs xsz (s :: ss) d <> [].
Proof. intros. cbn [dim_units]. discriminate. Qed.

Lemma dim_units_cons : forall b rs xsz s ss d,
  dim_units b rs xsz (s :: ss) d =
  (if b && Nat.eqb d 0 then rs else zprod ss * xsz) :: dim_units b rs xsz ss (S d).
Proof. reflexivity. Qed.

Lemma last_dim_units_S : forall shape b rs xsz d dflt, shape <> [] ->
  last (dim_units b rs xsz shape (S d)) dflt = xsz.
Proof.
  induction shape as [|s ss IH]; intros b rs xsz d dflt Hne; [congruence|].
  destruct ss as [|s' ss].
  - cbn [dim_units last Nat.eqb zprod]. rewrite andb_false_r. ring.
  - rewrite dim_units_cons. rewrite last_cons_nonempty by apply dim_units_nonempty.
    apply IH. discriminate.
Qed.

(* the last unit is xsz unless the variable is a 1-D record variable *)
Lemma last_g_units : forall g, (2 <= length (g_shape g))%nat \/ g_isrec g = false ->
  g_shape g <> [] -> last (g_units g) (g_xsz g) = g_xsz g.
Proof.
  intros g H Hne. unfold g_units. destruct (g_shape g) as [|s0 [|s1 ss]]; [congruence| |].
  - destruct H as [H|H]; [cbn [length] in H; lia|]. rewrite H.
    cbn [dim_units last andb zprod]. ring.
  - rewrite dim_units_cons. rewrite last_cons_nonempty by apply dim_units_nonempty.
    apply last_dim_units_S. discriminate.
Qed.

(* the spec as a nested enumeration *)
Lemma spec_gen : forall start count stride units,
  length start = length count -> length count = length stride -> length stride = length units ->
  map (dot units) (req_indices start count stride) = gen (quads start count stride units) [0].
Proof.
  induction start as [|s st IH]; intros count stride units H1 H2 H3;
    destruct count as [|c ct]; try discriminate;
    destruct stride as [|t ts]; try discriminate;
    destruct units as [|u us]; try discriminate.
  - reflexivity.
  - cbn [length] in H1, H2, H3. rewrite quads_cons. cbn [req_indices gen].
    rewrite map_flat_map_comm. apply flat_map_ext. intros i.
    rewrite map_map. rewrite <- IH by lia. rewrite map_map.
    apply map_ext. intros x. reflexivity.
Qed.

(* the list-level core of stride_flatten + the hindexed expansion in filetype_create_vars *)
Lemma flatten_core : forall so co to uo sl cl tl_ ul b xsz,
  length so = length co -> length co = length to -> length to = length uo ->
  (tl_ = 1 -> ul = xsz) ->
  flat_map (fun d => map (fun k => b + d + k * xsz)
                         (zrange 0 (if tl_ =? 1 then cl else 1)))
           (flatten_outer
              (rev (map (fun p => quad (fst p) (snd p)) (zip (zip so co) (zip to uo))))
              (map (fun k => (sl + k * tl_) * ul) (zrange 0 (if tl_ =? 1 then 1 else cl))))
  = map (fun idx => b + dot (uo ++ [ul]) idx)
        (req_indices (so ++ [sl]) (co ++ [cl]) (to ++ [tl_])).
Proof.
  intros so co to uo sl cl tl_ ul b xsz H1 H2 H3 Hul.
  rewrite <- (map_map (dot (uo ++ [ul])) (Z.add b)).
  rewrite spec_gen by (rewrite !app_length; cbn [length]; lia).
  rewrite quads_snoc by assumption. rewrite gen_app.
  fold (quads so co to uo). rewrite flatten_outer_rev.
  set (seg := if tl_ =? 1 then cl else 1).
  set (F' := fun d => map (fun k => d + k * xsz) (zrange 0 seg)).
  transitivity (map (Z.add b) (flat_map F' (gen (quads so co to uo)
      (map (fun k => (sl + k * tl_) * ul) (zrange 0 (if tl_ =? 1 then 1 else cl)))))).
  { rewrite map_flat_map_comm. apply flat_map_ext. intros d. unfold F'.
    rewrite map_map. apply map_ext. intros k. ring. }
  f_equal. rewrite gen_equivariant.
  2:{ intros a d. unfold F'. rewrite map_map. apply map_ext. intros k. ring. }
  f_equal.
  assert (Hr : gen [(sl, cl, tl_, ul)] [0] = map (fun i => (sl + i * tl_) * ul) (zrange 0 cl)).
  { cbn [gen]. rewrite <- flat_map_singleton. apply flat_map_ext. intros i.
    cbn [map]. f_equal. ring. }
  rewrite Hr. unfold F', seg.
  destruct (tl_ =? 1) eqn:Et.
  - assert (tl_ = 1) by lia. subst tl_. rewrite (Hul eq_refl).
    rewrite zrange_1. cbn [map flat_map]. rewrite app_nil_r.
    apply map_ext. intros k. ring.
  - rewrite flat_map_map_comm. rewrite zrange_1.
    rewrite <- flat_map_singleton. apply flat_map_ext. intros k.
    cbn [map]. f_equal. ring.
Qed.

Lemma is_true_vars_forall : forall count stride,
  Forall (fun t => 1 <= t) stride ->
  is_true_vars count stride = false ->
  Forall (fun p => fst p <= 1 \/ snd p = 1) (zip count stride).
Proof.
  induction count as [|c ct IH]; intros stride Hpos H; [constructor|].
  destruct stride as [|t ts]; [constructor|].
  inversion Hpos as [|? ? Ht Hts]; subst.
  unfold is_true_vars in H. cbn [zip existsb fst snd] in H.
  apply orb_false_iff in H. destruct H as [H1 H2].
  cbn [zip]. constructor.
  - cbn [fst snd]. lia.
  - apply IH; assumption.
Qed.

Lemma dims_ok_stride_pos : forall shape start count stride,
  dims_ok shape start count stride -> Forall (fun t => 1 <= t) stride.
Proof.
  induction shape as [|sh ss IH]; intros start count stride H;
    destruct start as [|s st]; destruct count as [|c ct]; destruct stride as [|t ts];
    cbn [dims_ok] in H; try contradiction.
  - constructor.
  - destruct H as (_ & _ & Ht & _ & H). constructor; [assumption|]. eapply IH; eassumption.
Qed.

Lemma req_ok_stride_pos : forall shape start count stride,
  req_ok shape start count stride -> Forall (fun t => 1 <= t) stride.
Proof.
  intros shape start count stride H.
  destruct shape as [|sh ss]; destruct start as [|s st]; destruct count as [|c ct];
    destruct stride as [|t ts]; cbn [req_ok] in H; try contradiction.
  - constructor.
  - destruct H as (_ & _ & Ht & _ & H). constructor; [assumption|].
    eapply dims_ok_stride_pos; eassumption.
Qed.

(* spec of a request none of whose dimensions is truly strided *)
Lemma spec_offsets_not_true_vars : forall g start count stride,
  req_ok (g_shape g) start count stride ->
  is_true_vars count stride = false ->
  spec_offsets g start count stride = spec_offsets g start count (ones (length (g_shape g))).
Proof.
  intros g start count stride Hreq H.
  destruct (req_ok_lengths _ _ _ _ Hreq) as (Hls & Hlc & Hlt).
  unfold spec_offsets. rewrite <- Hlc.
  rewrite <- (req_indices_stride_irrelevant start count stride); [reflexivity | lia | lia |].
  apply is_true_vars_forall; [|assumption].
  eapply req_ok_stride_pos; eassumption.
Qed.

(* the truly strided path *)
Lemma strided_path : forall g start count stride,
  g_shape g <> [] ->
  length start = length (g_shape g) -> length count = length (g_shape g) ->
  length stride = length (g_shape g) ->
  is_true_vars count stride = true ->
  (let '(disps, seg) := stride_flatten g start count stride in
   flat_map (fun d => map (fun k => g_begin g + d + k * g_xsz g) (zrange 0 seg)) disps)
  = spec_offsets g start count stride.
Proof.
  intros g start count stride Hne Hls Hlc Hlt Htrue.
  unfold spec_offsets.
  rewrite (map_ext _ _ (elem_off_dot g)).
  unfold stride_flatten. cbv zeta. fold (g_units g).
  assert (Hlu : length (g_units g) = length (g_shape g)) by apply dim_units_length.
  assert (Hul : last stride 1 = 1 -> last (g_units g) (g_xsz g) = g_xsz g).
  { intros Hl. apply last_g_units; [|assumption].
    destruct (g_shape g) as [|s0 [|s1 ss]]; [congruence | | left; cbn [length]; lia].
    exfalso.
    destruct count as [|c [|? ?]]; try discriminate.
    destruct stride as [|t [|? ?]]; try discriminate.
    cbn [last] in Hl. subst t. unfold is_true_vars in Htrue.
    cbn [zip existsb fst snd] in Htrue. lia. }
  remember (g_units g) as units eqn:Eu.
  destruct (snoc_cases _ start) as [->|[so [sl ->]]];
    [destruct (g_shape g); [congruence | discriminate]|].
  destruct (snoc_cases _ count) as [->|[co [cl ->]]];
    [destruct (g_shape g); [congruence | discriminate]|].
  destruct (snoc_cases _ stride) as [->|[to [tl_ ->]]];
    [destruct (g_shape g); [congruence | discriminate]|].
  destruct (snoc_cases _ units) as [->|[uo [ul ->]]];
    [destruct (g_shape g); [congruence | discriminate]|].
  rewrite !app_length in *. cbn [length] in *.
  rewrite !removelast_snoc, !last_snoc in *.
  apply flatten_core; [lia | lia | lia | assumption].
Qed.

(* ================================================================== *)
(* 7. model_offsets = spec                                             *)
(* ================================================================== *)
Lemma spec_offsets_empty : forall g start count stride,
  length start = length count -> length stride = length count ->
  zprod count = 0 -> spec_offsets g start count stride = [].
Proof.
  intros g start count stride H1 H2 Hz. unfold spec_offsets.
  rewrite req_indices_nil; [reflexivity | assumption | assumption |].
  apply zprod_zero_iff. assumption.
Qed.

Theorem vars_offsets_spec_min : forall g start count stride,
  rec_packed g -> req_ok (g_shape g) start count stride -> zprod count <> 0 ->
  vars_offsets g start count (Some stride) = spec_offsets g start count stride.
Proof.
  intros g start count stride Hpack Hreq Hz.
  destruct (req_ok_lengths _ _ _ _ Hreq) as (Hls & Hlc & Hlt).
  unfold vars_offsets. destruct (is_true_vars count stride) eqn:Etv; cbn [negb].
  - destruct (g_shape g) as [|sh ss] eqn:Eshape.
    { destruct count; [|discriminate]. discriminate Etv. }
    replace (zprod count =? 0) with false by lia.
    rewrite <- Eshape in *.
    apply strided_path; try assumption. rewrite Eshape. discriminate.
  - rewrite spec_offsets_not_true_vars by assumption.
    apply vara_offsets_spec_min; [assumption|]. eapply req_ok_ones; eassumption.
Qed.

Theorem model_offsets_spec_min : forall g start count stride,
  rec_packed g -> req_ok (g_shape g) start count stride ->
  model_offsets g start count (Some stride) =
  if zprod count =? 0 then [] else spec_offsets g start count stride.
Proof.
  intros g start count stride Hpack Hreq. unfold model_offsets.
  destruct (zprod count =? 0) eqn:Ez; [reflexivity|].
  apply vars_offsets_spec_min; [assumption | assumption | lia].
Qed.

(* MAIN THEOREM: model = spec for every accepted (start,count,stride) request *)
Theorem model_offsets_spec : forall g start count stride,
  wf_geom g -> req_ok (g_shape g) start count stride ->
  model_offsets g start count (Some stride) =
  if zprod count =? 0 then [] else spec_offsets g start count stride.
Proof.
  intros g start count stride (_ & _ & _ & Hpack). apply model_offsets_spec_min. assumption.
Qed.

Theorem model_offsets_spec_none : forall g start count,
  wf_geom g -> req_ok (g_shape g) start count (ones (length (g_shape g))) ->
  model_offsets g start count None =
  if zprod count =? 0 then []
  else spec_offsets g start count (ones (length (g_shape g))).
Proof.
  intros g start count Hwf Hreq. unfold model_offsets.
  destruct (zprod count =? 0) eqn:Ez; [reflexivity|].
  cbn [vars_offsets]. apply vara_offsets_spec_strong; assumption.
Qed.

(* the spec of an empty request is empty, so the case split can be dropped *)
Corollary model_offsets_eq_spec : forall g start count stride,
  wf_geom g -> req_ok (g_shape g) start count stride ->
  model_offsets g start count (Some stride) = spec_offsets g start count stride.
Proof.
  intros g start count stride Hwf Hreq. rewrite model_offsets_spec by assumption.
  destruct (req_ok_lengths _ _ _ _ Hreq) as (Hls & Hlc & Hlt).
  destruct (zprod count =? 0) eqn:Ez; [|reflexivity].
  symmetry. apply spec_offsets_empty; lia.
Qed.

Corollary model_offsets_eq_spec_none : forall g start count,
  wf_geom g -> req_ok (g_shape g) start count (ones (length (g_shape g))) ->
  model_offsets g start count None = spec_offsets g start count (ones (length (g_shape g))).
Proof.
  intros g start count Hwf Hreq. rewrite model_offsets_spec_none by assumption.
  destruct (req_ok_lengths _ _ _ _ Hreq) as (Hls & Hlc & Hlt).
  destruct (zprod count =? 0) eqn:Ez; [|reflexivity].
  symmetry. apply spec_offsets_empty; lia.
Qed.

(* ================================================================== *)
(* 8. Size, bounds, injectivity, NoDup of the spec                     *)
(* ================================================================== *)
Theorem spec_offsets_length : forall g start count stride,
  length start = length count -> length stride = length count ->
  Forall (fun c => 0 <= c) count ->
  length (spec_offsets g start count stride) = Z.to_nat (zprod count).
Proof.
  intros g start count stride H1 H2 Hc. unfold spec_offsets. rewrite map_length.
  apply req_indices_length; assumption.
Qed.

Corollary spec_offsets_length_req : forall g start count stride,
  req_ok (g_shape g) start count stride ->
  length (spec_offsets g start count stride) = Z.to_nat (zprod count).
Proof.
  intros g start count stride Hreq.
  destruct (req_ok_lengths _ _ _ _ Hreq) as (Hls & Hlc & Hlt).
  apply spec_offsets_length; [lia | lia | eapply req_ok_count_nonneg; eassumption].
Qed.

Lemma idx_in_shape_cons : forall s ss i r,
  idx_in_shape (s :: ss) (i :: r) = true <-> 0 <= i < s /\ idx_in_shape ss r = true.
Proof.
  intros s ss i r. unfold idx_in_shape. cbn [forall2b].
  rewrite !andb_true_iff. lia.
Qed.

Lemma lin_bounds : forall shape idx, idx_in_shape shape idx = true ->
  0 <= lin shape idx /\ lin shape idx + 1 <= zprod shape.
Proof.
  induction shape as [|s ss IH]; intros idx H; destruct idx as [|i r];
    try (unfold idx_in_shape in H; cbn [forall2b] in H; discriminate).
  - cbn [lin zprod]. lia.
  - apply idx_in_shape_cons in H. destruct H as [Hi Hr].
    destruct (IH r Hr) as [H0 H1]. cbn [lin zprod]. split; nia.
Qed.

Lemma lin_inj : forall shape i j,
  idx_in_shape shape i = true -> idx_in_shape shape j = true ->
  lin shape i = lin shape j -> i = j.
Proof.
  induction shape as [|s ss IH]; intros i j Hi Hj E;
    destruct i as [|a i]; destruct j as [|b j];
    try (unfold idx_in_shape in Hi, Hj; cbn [forall2b] in Hi, Hj; discriminate).
  - reflexivity.
  - apply idx_in_shape_cons in Hi. destruct Hi as [Ha Hi].
    apply idx_in_shape_cons in Hj. destruct Hj as [Hb Hj].
    destruct (lin_bounds _ _ Hi) as [Hi0 Hi1]. destruct (lin_bounds _ _ Hj) as [Hj0 Hj1].
    cbn [lin] in E.
    assert (a = b) by nia. subst b.
    f_equal. apply IH; [assumption | assumption | lia].
Qed.

(* idx addresses an element of the variable; the record index is any non-negative number *)
Definition idx_ok (g : geom) (idx : list Z) : Prop :=
  if g_isrec g then
    match idx with
    | i0 :: r => 0 <= i0 /\ idx_in_shape (tl (g_shape g)) r = true
    | [] => False
    end
  else idx_in_shape (g_shape g) idx = true.

(* records do not overlap *)
Definition rec_fits (g : geom) : Prop :=
  g_isrec g = true -> zprod (tl (g_shape g)) * g_xsz g <= g_recsize g.

Theorem elem_off_inj_min : forall g i j,
  0 < g_xsz g -> rec_fits g -> idx_ok g i -> idx_ok g j ->
  elem_off g i = elem_off g j -> i = j.
Proof.
  intros g i j Hx Hfit Hi Hj E. unfold idx_ok in Hi, Hj.
  destruct (g_isrec g) eqn:Erec.
  - destruct i as [|i0 ri]; [contradiction|]. destruct j as [|j0 rj]; [contradiction|].
    destruct Hi as [Hi0 Hi]. destruct Hj as [Hj0 Hj].
    rewrite !elem_off_rec in E by assumption.
    destruct (lin_bounds _ _ Hi) as [Hi1 Hi2]. destruct (lin_bounds _ _ Hj) as [Hj1 Hj2].
    specialize (Hfit Erec).
    set (P := zprod (tl (g_shape g))) in *.
    set (li := lin (tl (g_shape g)) ri) in *. set (lj := lin (tl (g_shape g)) rj) in *.
    set (rs := g_recsize g) in *. set (x := g_xsz g) in *.
    assert (Hli : 0 <= li * x < rs) by nia.
    assert (Hlj : 0 <= lj * x < rs) by nia.
    assert (i0 = j0) by nia. subst j0.
    assert (li = lj) by nia.
    f_equal. eapply lin_inj; eassumption.
  - rewrite !elem_off_fixed in E by assumption.
    assert (lin (g_shape g) i = lin (g_shape g) j) by nia.
    eapply lin_inj; eassumption.
Qed.

Theorem elem_off_inj : forall g i j,
  wf_geom g -> rec_fits g -> idx_ok g i -> idx_ok g j ->
  elem_off g i = elem_off g j -> i = j.
Proof. intros g i j (Hx & _). apply elem_off_inj_min. assumption. Qed.

Theorem elem_off_bounds_fixed : forall g idx,
  0 <= g_xsz g -> g_isrec g = false -> idx_in_shape (g_shape g) idx = true ->
  g_begin g <= elem_off g idx /\
  elem_off g idx + g_xsz g <= g_begin g + zprod (g_shape g) * g_xsz g.
Proof.
  intros g idx Hx Hrec Hidx. rewrite elem_off_fixed by assumption.
  destruct (lin_bounds _ _ Hidx) as [H0 H1]. split; nia.
Qed.

Theorem elem_off_bounds_rec : forall g i0 r,
  0 <= g_xsz g -> g_isrec g = true -> idx_in_shape (tl (g_shape g)) r = true ->
  g_begin g + i0 * g_recsize g <= elem_off g (i0 :: r) /\
  elem_off g (i0 :: r) + g_xsz g <=
    g_begin g + i0 * g_recsize g + zprod (tl (g_shape g)) * g_xsz g.
Proof.
  intros g i0 r Hx Hrec Hidx. rewrite elem_off_rec by assumption.
  destruct (lin_bounds _ _ Hidx) as [H0 H1]. split; nia.
Qed.

(* every index of an accepted request lies inside the variable *)
Lemma req_indices_in_dims : forall shape start count stride idx,
  dims_ok shape start count stride -> In idx (req_indices start count stride) ->
  idx_in_shape shape idx = true.
Proof.
  induction shape as [|sh ss IH]; intros start count stride idx H Hin;
    destruct start as [|s st]; destruct count as [|c ct]; destruct stride as [|t ts];
    cbn [dims_ok] in H; try contradiction.
  - cbn [req_indices In] in Hin. destruct Hin as [<-|[]]. reflexivity.
  - destruct H as (Hs & Hc & Ht & Hb & H). cbn [req_indices] in Hin.
    apply in_flat_map in Hin. destruct Hin as [i [Hi Hin]].
    apply in_map_iff in Hin. destruct Hin as [r [<- Hr]].
    apply zrange_In in Hi. apply idx_in_shape_cons. split.
    + destruct Hb as [Hb|Hb]; [lia | nia].
    + eapply IH; eassumption.
Qed.

Lemma req_indices_idx_ok : forall g start count stride idx,
  req_ok (g_shape g) start count stride -> In idx (req_indices start count stride) ->
  idx_ok g idx.
Proof.
  intros g start count stride idx Hreq Hin. unfold idx_ok, g_isrec.
  destruct (g_shape g) as [|sh ss]; destruct start as [|s st]; destruct count as [|c ct];
    destruct stride as [|t ts]; cbn [req_ok] in Hreq; try contradiction.
  - cbn [req_indices In] in Hin. destruct Hin as [<-|[]]. reflexivity.
  - destruct Hreq as (Hs & Hc & Ht & Hb & H). cbn [req_indices] in Hin.
    apply in_flat_map in Hin. destruct Hin as [i [Hi Hin]].
    apply in_map_iff in Hin. destruct Hin as [r [<- Hr]].
    apply zrange_In in Hi.
    pose proof (req_indices_in_dims _ _ _ _ _ H Hr) as Hr'.
    destruct (sh =? 0) eqn:Esh.
    + cbn [tl]. split; [nia | assumption].
    + apply idx_in_shape_cons. split; [|assumption].
      destruct Hb as [Hb|[Hb|Hb]]; [lia | lia | nia].
Qed.

Lemma req_indices_NoDup : forall start count stride,
  Forall (fun t => 1 <= t) stride -> NoDup (req_indices start count stride).
Proof.
  induction start as [|s st IH]; intros count stride Hpos.
  - cbn [req_indices]. constructor; [intros [] | constructor].
  - destruct count as [|c ct]; [cbn [req_indices]; constructor; [intros [] | constructor]|].
    destruct stride as [|t ts]; [cbn [req_indices]; constructor; [intros [] | constructor]|].
    inversion Hpos as [|? ? Ht Hts]; subst. cbn [req_indices].
    apply NoDup_flat_map_disjoint.
    + apply zrange_NoDup.
    + intros a _. apply NoDup_map_inj_In; [|apply IH; assumption].
      intros x y _ _ E. congruence.
    + intros a b x _ _ Ha Hb.
      apply in_map_iff in Ha. destruct Ha as [ra [<- _]].
      apply in_map_iff in Hb. destruct Hb as [rb [E _]].
      injection E as E _. nia.
Qed.

Theorem spec_offsets_NoDup : forall g start count stride,
  wf_geom g -> rec_fits g -> req_ok (g_shape g) start count stride ->
  NoDup (spec_offsets g start count stride).
Proof.
  intros g start count stride Hwf Hfit Hreq. unfold spec_offsets.
  apply NoDup_map_inj_In.
  - intros x y Hx Hy E.
    eapply elem_off_inj; try eassumption; eapply req_indices_idx_ok; eassumption.
  - apply req_indices_NoDup. eapply req_ok_stride_pos; eassumption.
Qed.

Corollary model_offsets_NoDup : forall g start count stride,
  wf_geom g -> rec_fits g -> req_ok (g_shape g) start count stride ->
  NoDup (model_offsets g start count (Some stride)).
Proof.
  intros. rewrite model_offsets_eq_spec by assumption. apply spec_offsets_NoDup; assumption.
Qed.

Corollary model_offsets_length : forall g start count stride,
  wf_geom g -> req_ok (g_shape g) start count stride ->
  length (model_offsets g start count (Some stride)) = Z.to_nat (zprod count).
Proof.
  intros. rewrite model_offsets_eq_spec by assumption.
  apply spec_offsets_length_req. assumption.
Qed.

(* ================================================================== *)
(* 9. req_ok / dims_ok, pointwise reading                              *)
(* ================================================================== *)
Definition dim_ok_at (shape start count stride : list Z) (i : nat) : Prop :=
  0 <= nth i start 0 /\ 0 <= nth i count 0 /\ 1 <= nth i stride 0 /\
  (nth i count 0 = 0 \/
   nth i start 0 + (nth i count 0 - 1) * nth i stride 0 < nth i shape 0).

Lemma dims_ok_nth : forall shape start count stride,
  dims_ok shape start count stride <->
  (length start = length shape /\ length count = length shape /\
   length stride = length shape /\
   forall i, (i < length shape)%nat -> dim_ok_at shape start count stride i).
Proof.
  induction shape as [|sh ss IH]; intros start count stride;
    destruct start as [|s st]; destruct count as [|c ct]; destruct stride as [|t ts];
    cbn [dims_ok length]; try (split; [contradiction | intros (? & ? & ? & _); discriminate]).
  - split; [|tauto]. intros _.
    refine (conj eq_refl (conj eq_refl (conj eq_refl _))). intros i Hi. lia.
  - rewrite IH. split.
    + intros (Hs & Hc & Ht & Hb & Hls & Hlc & Hlt & Hall).
      refine (conj _ (conj _ (conj _ _))); try lia.
      intros i Hi. destruct i as [|i].
      * unfold dim_ok_at. cbn [nth]. tauto.
      * apply Hall. lia.
    + intros (Hls & Hlc & Hlt & Hall).
      pose proof (Hall 0%nat ltac:(lia)) as H0. unfold dim_ok_at in H0. cbn [nth] in H0.
      destruct H0 as (H01 & H02 & H03 & H04).
      refine (conj H01 (conj H02 (conj H03 (conj H04 (conj _ (conj _ (conj _ _))))))); try lia.
      intros i Hi. apply (Hall (S i)). lia.
Qed.

(* req_ok: as dims_ok, except that dimension 0 is unbounded when shape[0] = 0 *)
Lemma req_ok_nth : forall shape start count stride,
  req_ok shape start count stride <->
  (length start = length shape /\ length count = length shape /\
   length stride = length shape /\
   forall i, (i < length shape)%nat ->
     0 <= nth i start 0 /\ 0 <= nth i count 0 /\ 1 <= nth i stride 0 /\
     ((i = 0%nat /\ nth 0 shape 0 = 0) \/ nth i count 0 = 0 \/
      nth i start 0 + (nth i count 0 - 1) * nth i stride 0 < nth i shape 0)).
Proof.
  intros shape start count stride.
  destruct shape as [|sh ss]; destruct start as [|s st]; destruct count as [|c ct];
    destruct stride as [|t ts];
    cbn [req_ok length]; try (split; [contradiction | intros (? & ? & ? & _); discriminate]).
  - split; [|tauto]. intros _.
    refine (conj eq_refl (conj eq_refl (conj eq_refl _))). intros i Hi. lia.
  - rewrite dims_ok_nth. split.
    + intros (Hs & Hc & Ht & Hb & Hls & Hlc & Hlt & Hall).
      refine (conj _ (conj _ (conj _ _))); try lia.
      intros i Hi. destruct i as [|i].
      * cbn [nth]. tauto.
      * specialize (Hall i ltac:(lia)). unfold dim_ok_at in Hall. cbn [nth]. tauto.
    + intros (Hls & Hlc & Hlt & Hall).
      pose proof (Hall 0%nat ltac:(lia)) as H0. cbn [nth] in H0.
      destruct H0 as (H01 & H02 & H03 & H04).
      assert (H04' : sh = 0 \/ c = 0 \/ s + (c - 1) * t < sh) by tauto.
      refine (conj H01 (conj H02 (conj H03 (conj H04' (conj _ (conj _ (conj _ _))))))); try lia.
      intros i Hi. specialize (Hall (S i) ltac:(lia)). cbn [nth] in Hall.
      destruct Hall as (Ha1 & Ha2 & Ha3 & Ha4).
      unfold dim_ok_at. refine (conj Ha1 (conj Ha2 (conj Ha3 _))).
      destruct Ha4 as [[Hf _]|Ha4]; [discriminate | assumption].
Qed.

(* ================================================================== *)
(* 10. The full statement, and the record of the defect found          *)
(* ================================================================== *)
Definition model_offsets_spec_full : Prop :=
  forall g start count stride,
    wf_geom g -> req_ok (g_shape g) start count stride ->
    model_offsets g start count (Some stride) =
    if zprod count =? 0 then [] else spec_offsets g start count stride.

Theorem model_offsets_spec_full_holds : model_offsets_spec_full.
Proof. exact model_offsets_spec. Qed.

(* stride_flatten as in the unrepaired ncmpio_filetype.c: the lowest dimension is always
   stepped by the element size, also when it is the record dimension (ndims = 1) *)
Definition stride_flatten_old (g : geom) (start count stride : list Z) : list Z * Z :=
  let sl := last start 0 in let cl := last count 0 in let tl_ := last stride 1 in
  let nstride := if tl_ =? 1 then 1 else cl in
  let seg_elems := if tl_ =? 1 then cl else 1 in
  let units := dim_units (g_isrec g) (g_recsize g) (g_xsz g) (g_shape g) 0 in
  let d0 := map (fun k => (sl + k * tl_) * g_xsz g) (zrange 0 nstride) in
  let outer := zip (zip (removelast start) (removelast count))
                   (zip (removelast stride) (removelast units)) in
  (flatten_outer (rev (map (fun p => quad (fst p) (snd p)) outer)) d0, seg_elems).

Definition vars_offsets_old (g : geom) (start count : list Z) (stride : option (list Z))
  : list Z :=
  match stride with
  | None => vara_offsets g start count
  | Some st =>
      if negb (is_true_vars count st) then vara_offsets g start count
      else match g_shape g with
           | [] => [g_begin g]
           | _ =>
             if zprod count =? 0 then []
             else
               let '(disps, seg) := stride_flatten_old g start count st in
               flat_map (fun d => map (fun k => g_begin g + d + k * g_xsz g) (zrange 0 seg)) disps
           end
  end.

Definition model_offsets_old (g : geom) (start count : list Z) (stride : option (list Z))
  : list Z :=
  if zprod count =? 0 then [] else vars_offsets_old g start count stride.

(* witness: 1-D record variable of 4-byte elements in a file whose record size is 12
   (two record variables); request start 0, count 3, stride 2 *)
Definition g_bug : geom := mkgeom 100 4 [0] 12 2.

Example g_bug_wf : wf_geom g_bug.
Proof.
  unfold wf_geom, g_bug. cbn [g_xsz g_recsize g_shape dims_wf].
  refine (conj _ (conj _ (conj (conj _ _) _))); try lia; [constructor|].
  intros _ H. cbn [g_nrecvars] in H. lia.
Qed.

Example g_bug_req : req_ok (g_shape g_bug) [0] [3] [2].
Proof. cbn [g_bug g_shape req_ok dims_ok]. lia. Qed.

Example g_bug_offsets :
  model_offsets_old g_bug [0] [3] (Some [2]) = [100; 108; 116] /\
  spec_offsets g_bug [0] [3] [2] = [100; 124; 148] /\
  model_offsets g_bug [0] [3] (Some [2]) = [100; 124; 148].
Proof. vm_compute. auto. Qed.

Theorem model_offsets_old_refuted :
  exists g start count stride,
    wf_geom g /\ req_ok (g_shape g) start count stride /\
    model_offsets_old g start count (Some stride) <> spec_offsets g start count stride.
Proof.
  exists g_bug, [0], [3], [2].
  split; [exact g_bug_wf|]. split; [exact g_bug_req|].
  vm_compute. discriminate.
Qed.

(* ... and the defect is confined to 1-D record variables whose record size is not the
   element size: everywhere else the old code agrees with the spec *)
Lemma last_g_units_1d : forall g,
  (g_isrec g = true -> length (g_shape g) = 1%nat -> g_recsize g = g_xsz g) ->
  last (g_units g) (g_xsz g) = g_xsz g.
Proof.
  intros g H. destruct (g_shape g) as [|s0 [|s1 ss]] eqn:Eshape.
  - unfold g_units. rewrite Eshape. reflexivity.
  - destruct (g_isrec g) eqn:Erec.
    + unfold g_units. rewrite Eshape, Erec. cbn [dim_units last andb Nat.eqb].
      apply H; reflexivity.
    + apply last_g_units; [right; assumption | rewrite Eshape; discriminate].
  - apply last_g_units; [left; rewrite Eshape; cbn [length]; lia | rewrite Eshape; discriminate].
Qed.

Theorem model_offsets_old_spec_partial : forall g start count stride,
  wf_geom g -> req_ok (g_shape g) start count stride ->
  (g_isrec g = true -> length (g_shape g) = 1%nat -> g_recsize g = g_xsz g) ->
  model_offsets_old g start count (Some stride) =
  if zprod count =? 0 then [] else spec_offsets g start count stride.
Proof.
  intros g start count stride Hwf Hreq H1d.
  rewrite <- model_offsets_spec by assumption.
  unfold model_offsets_old, model_offsets, vars_offsets_old, vars_offsets.
  unfold stride_flatten_old, stride_flatten. cbv zeta. fold (g_units g).
  rewrite (last_g_units_1d g H1d). reflexivity.
Qed.

(* ================================================================== *)
(* 11. The hypotheses are satisfiable: non-trivial instances            *)
(* ================================================================== *)
(* 3-D fixed-size variable 4 x 5 x 6 of 4-byte elements, strided in every dimension *)
Definition gf3 : geom := mkgeom 1024 4 [4; 5; 6] 0 0.

Example gf3_wf : wf_geom gf3.
Proof.
  unfold wf_geom, gf3. cbn [g_xsz g_recsize g_shape dims_wf].
  refine (conj _ (conj _ (conj (conj _ _) _))); try lia.
  - repeat constructor; lia.
  - intros H. vm_compute in H. discriminate.
Qed.

Example gf3_req : req_ok (g_shape gf3) [1; 0; 2] [2; 3; 2] [2; 2; 3].
Proof. cbn [gf3 g_shape req_ok dims_ok]. lia. Qed.

Example gf3_model_spec :
  model_offsets gf3 [1; 0; 2] [2; 3; 2] (Some [2; 2; 3]) =
  spec_offsets gf3 [1; 0; 2] [2; 3; 2] [2; 2; 3].
Proof. vm_compute. reflexivity. Qed.

Example gf3_model_spec_by_theorem :
  model_offsets gf3 [1; 0; 2] [2; 3; 2] (Some [2; 2; 3]) =
  spec_offsets gf3 [1; 0; 2] [2; 3; 2] [2; 2; 3].
Proof. apply model_offsets_eq_spec; [exact gf3_wf | exact gf3_req]. Qed.

(* a contiguous vara request on it (two full planes) and a non-contiguous one *)
Example gf3_vara_contig :
  req_ok (g_shape gf3) [1; 0; 0] [2; 5; 6] (ones 3) /\
  is_contig (g_isrec gf3) (g_nrecvars gf3) (g_shape gf3) [2; 5; 6] = true /\
  vara_offsets gf3 [1; 0; 0] [2; 5; 6] = spec_offsets gf3 [1; 0; 0] [2; 5; 6] (ones 3).
Proof.
  split; [cbn [gf3 g_shape req_ok dims_ok ones repeat]; lia|].
  split; vm_compute; reflexivity.
Qed.

Example gf3_vara_subarray :
  req_ok (g_shape gf3) [1; 1; 2] [2; 3; 2] (ones 3) /\
  is_contig (g_isrec gf3) (g_nrecvars gf3) (g_shape gf3) [2; 3; 2] = false /\
  vara_offsets gf3 [1; 1; 2] [2; 3; 2] = spec_offsets gf3 [1; 1; 2] [2; 3; 2] (ones 3).
Proof.
  split; [cbn [gf3 g_shape req_ok dims_ok ones repeat]; lia|].
  split; vm_compute; reflexivity.
Qed.

(* 3-D record variable (unlimited x 3 x 4) of 8-byte elements; three record variables in the
   file, record size 200 > 3*4*8; the request reaches beyond any current number of records *)
Definition gr3 : geom := mkgeom 2048 8 [0; 3; 4] 200 3.

Example gr3_wf : wf_geom gr3 /\ rec_fits gr3.
Proof.
  unfold wf_geom, rec_fits, gr3. cbn [g_xsz g_recsize g_shape dims_wf tl].
  split.
  - refine (conj _ (conj _ (conj (conj _ _) _))); try lia.
    + repeat constructor; lia.
    + intros _ H. cbn [g_nrecvars] in H. lia.
  - intros _. vm_compute. discriminate.
Qed.

Example gr3_req : req_ok (g_shape gr3) [5; 1; 0] [3; 2; 2] [4; 1; 3].
Proof. cbn [gr3 g_shape req_ok dims_ok]. lia. Qed.

Example gr3_model_spec :
  model_offsets gr3 [5; 1; 0] [3; 2; 2] (Some [4; 1; 3]) =
  spec_offsets gr3 [5; 1; 0] [3; 2; 2] [4; 1; 3].
Proof. vm_compute. reflexivity. Qed.

Example gr3_model_spec_by_theorem :
  model_offsets gr3 [5; 1; 0] [3; 2; 2] (Some [4; 1; 3]) =
  spec_offsets gr3 [5; 1; 0] [3; 2; 2] [4; 1; 3] /\
  NoDup (spec_offsets gr3 [5; 1; 0] [3; 2; 2] [4; 1; 3]) /\
  length (spec_offsets gr3 [5; 1; 0] [3; 2; 2] [4; 1; 3]) = 12%nat.
Proof.
  destruct gr3_wf as [Hwf Hfit]. split; [|split].
  - apply model_offsets_eq_spec; [exact Hwf | exact gr3_req].
  - apply spec_offsets_NoDup; [exact Hwf | exact Hfit | exact gr3_req].
  - rewrite spec_offsets_length_req by exact gr3_req. reflexivity.
Qed.

(* single record variable (records packed back to back, record size 2*3*2 = 12): a request for
   three whole records takes the contiguous shortcut across record boundaries *)
Definition gr1 : geom := mkgeom 512 2 [0; 2; 3] 12 1.

Example gr1_wf : wf_geom gr1.
Proof.
  unfold wf_geom, gr1. cbn [g_xsz g_recsize g_shape dims_wf].
  refine (conj _ (conj _ (conj (conj _ _) _))); try lia.
  - repeat constructor; lia.
  - intros _ _. vm_compute. reflexivity.
Qed.

Example gr1_vara_contig :
  req_ok (g_shape gr1) [1; 0; 0] [3; 2; 3] (ones 3) /\
  is_contig (g_isrec gr1) (g_nrecvars gr1) (g_shape gr1) [3; 2; 3] = true /\
  vara_offsets gr1 [1; 0; 0] [3; 2; 3] = spec_offsets gr1 [1; 0; 0] [3; 2; 3] (ones 3).
Proof.
  split; [cbn [gr1 g_shape req_ok dims_ok ones repeat]; lia|].
  split; vm_compute; reflexivity.
Qed.

(* the packing hypothesis is necessary: same request, same shape, record size 16 instead of 12
   (rec_packed violated) -- the contiguous shortcut then disagrees with the spec.  In the C
   library this cannot arise: with a single record variable NC_begins sets recsize to the
   unpadded variable length. *)
Example rec_packed_necessary :
  let g := mkgeom 512 2 [0; 2; 3] 16 1 in
  vara_offsets g [1; 0; 0] [3; 2; 3] <> spec_offsets g [1; 0; 0] [3; 2; 3] (ones 3).
Proof. vm_compute. discriminate. Qed.

Example elem_off_inj_example :
  forall i j, idx_ok gr3 i -> idx_ok gr3 j -> elem_off gr3 i = elem_off gr3 j -> i = j.
Proof.
  destruct gr3_wf as [Hwf Hfit]. intros i j. apply elem_off_inj; assumption.
Qed.

(* ================================================================== *)
(* 12. req_ok is what the dispatcher's argument check establishes      *)
(* ================================================================== *)
Lemma first_err_ok : forall l, first_err l = NC_NOERR -> Forall (fun e => e = NC_NOERR) l.
Proof.
  induction l as [|e r IH]; intros H; [constructor|].
  cbn [first_err] in H. destruct (e =? NC_NOERR) eqn:E.
  - constructor; [lia | apply IH; assumption].
  - exfalso. lia.
Qed.

Lemma check_EINVALCOORDS_ok : forall strict s c sh,
  check_EINVALCOORDS strict s c sh = NC_NOERR -> 0 <= s.
Proof.
  intros strict s c sh H. unfold check_EINVALCOORDS in H.
  destruct strict.
  - destruct ((s <? 0) || (s >=? sh)) eqn:E; [vm_compute in H; discriminate | lia].
  - destruct ((s <? 0) || (s >? sh)) eqn:E; [vm_compute in H; discriminate | lia].
Qed.

Lemma check_EEDGE_ok : forall s c ot sh,
  check_EEDGE s c ot sh = NC_NOERR ->
  s + c <= sh /\ match ot with Some t => c = 0 \/ c < 0 \/ s + (c - 1) * t < sh | None => True end.
Proof.
  intros s c ot sh H. unfold check_EEDGE in H.
  destruct ((c >? sh) || (s + c >? sh)) eqn:E; [vm_compute in H; discriminate|].
  split; [lia|]. destruct ot as [t|]; [|exact I].
  destruct ((c >? 0) && (s + (c - 1) * t >=? sh)) eqn:E2; [vm_compute in H; discriminate|].
  lia.
Qed.

Definition stride_of (o : option Z) : Z := match o with Some t => t | None => 1 end.

Lemma checks_dims_ok : forall strict shp st cn (strides : list (option Z)),
  length st = length shp -> length cn = length shp -> length strides = length shp ->
  Forall (fun o => 1 <= stride_of o) strides ->
  first_err (map (fun p => check_EINVALCOORDS strict (fst (fst p)) (snd (fst p)) (snd p))
                 (zip (zip st cn) shp)) = NC_NOERR ->
  first_err
    (map (fun q => let '(s, c, t, sh) := q in
                   if sh <? 0 then NC_EEDGE
                   else if c <? 0 then NC_ENEGATIVECNT
                   else check_EEDGE s c t sh)
         (map (fun p => (fst (fst (fst p)), snd (fst (fst p)), snd (fst p), snd p))
              (zip (zip (zip st cn) strides) shp))) = NC_NOERR ->
  dims_ok shp st cn (map stride_of strides).
Proof.
  intros strict. induction shp as [|sh ss IH]; intros st cn strides H1 H2 H3 Hpos Hco Hed;
    destruct st as [|s st]; try discriminate; destruct cn as [|c ct]; try discriminate;
    destruct strides as [|o os]; try discriminate.
  - exact I.
  - cbn [length] in H1, H2, H3. inversion Hpos as [|? ? Ho Hos]; subst.
    cbn [zip map first_err fst snd] in Hco, Hed.
    destruct (check_EINVALCOORDS strict s c sh =? NC_NOERR) eqn:E1; [|exfalso; lia].
    apply Z.eqb_eq in E1. apply check_EINVALCOORDS_ok in E1.
    destruct (sh <? 0) eqn:Esh; [vm_compute in Hed; discriminate|].
    destruct (c <? 0) eqn:Ec; [vm_compute in Hed; discriminate|].
    destruct (check_EEDGE s c o sh =? NC_NOERR) eqn:E2; [|exfalso; lia].
    apply Z.eqb_eq in E2. apply check_EEDGE_ok in E2. destruct E2 as [E2 E3].
    cbn [map dims_ok]. refine (conj E1 (conj _ (conj Ho (conj _ _)))); [lia | |].
    + destruct o as [t|]; cbn [stride_of]; [lia|].
      destruct (Z.eq_dec c 0); [left; assumption | right; lia].
    + apply IH; try lia; assumption.
Qed.

Lemma dims_ok_req_ok : forall shape start count stride,
  dims_ok shape start count stride -> req_ok shape start count stride.
Proof.
  intros shape start count stride H.
  destruct shape as [|sh ss]; destruct start as [|s st]; destruct count as [|c ct];
    destruct stride as [|t ts]; cbn [dims_ok] in H; try contradiction; cbn [req_ok].
  - exact I.
  - tauto.
Qed.

Lemma existsb_nonpos_false : forall t, existsb (fun x => x <=? 0) t = false ->
  Forall (fun x => 1 <= x) t.
Proof.
  induction t as [|x t IH]; intros H; [constructor|].
  cbn [existsb] in H. apply orb_false_iff in H. destruct H as [Hx Ht].
  constructor; [lia | apply IH; assumption].
Qed.

Definition stride_or_ones (n : nat) (stride : option (list Z)) : list Z :=
  match stride with Some t => t | None => ones n end.

(* A request that passes check_start_count_stride satisfies req_ok.  The C arrays have
   ndims entries by contract; the list lengths stand for that contract. *)
Theorem check_scs_req_ok : forall fmt strict isread kind shape numrecs st cn stride,
  length st = length shape -> length cn = length shape ->
  match stride with Some t => length t = length shape | None => True end ->
  check_scs fmt strict (match shape with s0 :: _ => s0 =? 0 | [] => false end)
            isread kind shape numrecs (Some st) (Some cn) stride = NC_NOERR ->
  req_ok shape st cn (stride_or_ones (length shape) stride).
Proof.
  intros fmt strict isread kind shape numrecs st cn stride Hls Hlc Hlt H.
  unfold check_scs in H. cbv zeta in H.
  destruct (hd 0 st <? 0) eqn:Ehd; [vm_compute in H; discriminate|].
  match type of H with
  | (if negb (?e =? NC_NOERR) then _ else _) = _ =>
      remember e as e_rec eqn:Erec_; destruct (e_rec =? NC_NOERR) eqn:E1
  end; cbn [negb] in H; [|exfalso; lia].
  clear Erec_ E1 e_rec.
  match type of H with
  | (if negb (?e =? NC_NOERR) then _ else _) = _ =>
      remember e as e_co eqn:Eco; destruct (e_co =? NC_NOERR) eqn:E2
  end; cbn [negb] in H; [|exfalso; lia].
  apply Z.eqb_eq in E2. rewrite E2 in Eco. symmetry in Eco. clear E2 e_co.
  match type of H with
  | (if negb (?e =? NC_NOERR) then _ else _) = _ =>
      remember e as e_0 eqn:E0; destruct (e_0 =? NC_NOERR) eqn:E3
  end; cbn [negb] in H; [|exfalso; lia].
  apply Z.eqb_eq in E3. rewrite E3 in E0. symmetry in E0. clear E3 e_0.
  match type of H with
  | (if negb (?e =? NC_NOERR) then _ else _) = _ =>
      remember e as e_ed eqn:Eed; destruct (e_ed =? NC_NOERR) eqn:E4
  end; cbn [negb] in H; [|exfalso; lia].
  apply Z.eqb_eq in E4. rewrite E4 in Eed. symmetry in Eed. clear E4 e_ed.
  (* strides are positive *)
  set (strides := match stride with
                  | Some t => map Some t
                  | None => map (fun _ : Z => @None Z) cn
                  end) in *.
  assert (Hsl : length strides = length shape).
  { unfold strides. destruct stride; rewrite map_length; lia. }
  assert (Hspos : Forall (fun o => 1 <= stride_of o) strides).
  { unfold strides. destruct stride as [t|].
    - destruct (existsb (fun x => x <=? 0) t) eqn:Ex; [vm_compute in H; discriminate|].
      apply existsb_nonpos_false in Ex. apply Forall_map. exact Ex.
    - apply Forall_map. apply Forall_forall. intros x _. cbn [stride_of]. lia. }
  assert (Hsof : map stride_of strides = stride_or_ones (length shape) stride).
  { unfold strides, stride_or_ones. destruct stride as [t|].
    - rewrite map_map. cbn [stride_of]. apply map_id.
    - rewrite map_map. cbn [stride_of]. rewrite <- Hlc. unfold ones.
      clear. induction cn as [|c cn IH]; cbn [map length repeat]; [reflexivity | now rewrite IH]. }
  rewrite <- Hsof. clear H Hsof Hlt.
  destruct shape as [|sh ss].
  { destruct st; [|discriminate]. destruct cn; [|discriminate].
    destruct strides; [|discriminate]. exact I. }
  destruct st as [|s st]; [discriminate|]. destruct cn as [|c ct]; [discriminate|].
  destruct strides as [|o os]; [discriminate|].
  cbn [length] in Hls, Hlc, Hsl. cbn [hd] in Ehd.
  destruct (sh =? 0) eqn:Esh.
  - (* record variable: dimension 0 is not bounded by the shape *)
    cbn [skipn tl hd] in Eco, Eed, E0.
    destruct (c <? 0) eqn:Ec; [vm_compute in E0; discriminate|].
    inversion Hspos as [|? ? Ho Hos]; subst.
    cbn [map req_ok]. refine (conj _ (conj _ (conj Ho (conj _ _)))); try lia.
    apply (checks_dims_ok strict); try lia; assumption.
  - cbn [skipn] in Eco, Eed.
    apply dims_ok_req_ok. apply (checks_dims_ok strict); cbn [length]; try lia; assumption.
Qed.

Example check_scs_accepts_gf3 :
  check_scs 5 false false false API_VARS (g_shape gf3) 0
            (Some [1; 0; 2]) (Some [2; 3; 2]) (Some [2; 2; 3]) = NC_NOERR.
Proof. vm_compute. reflexivity. Qed.

Example check_scs_accepts_gr3 :
  (* a write beyond the current 2 records of a record variable is accepted *)
  check_scs 5 false true false API_VARS (g_shape gr3) 2
            (Some [5; 1; 0]) (Some [3; 2; 2]) (Some [4; 1; 3]) = NC_NOERR.
Proof. vm_compute. reflexivity. Qed.

(* end-to-end: whatever the dispatcher accepts is laid out as the spec says *)
Corollary accepted_request_offsets : forall fmt strict isread kind g numrecs st cn stride,
  wf_geom g ->
  length st = length (g_shape g) -> length cn = length (g_shape g) ->
  length stride = length (g_shape g) ->
  check_scs fmt strict (g_isrec g) isread kind (g_shape g) numrecs
            (Some st) (Some cn) (Some stride) = NC_NOERR ->
  model_offsets g st cn (Some stride) = spec_offsets g st cn stride.
Proof.
  intros fmt strict isread kind g numrecs st cn stride Hwf H1 H2 H3 H.
  apply model_offsets_eq_spec; [assumption|].
  apply (check_scs_req_ok fmt strict isread kind (g_shape g) numrecs st cn (Some stride));
    assumption.
Qed.
