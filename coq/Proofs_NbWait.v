(* Proofs_NbWait.v — the COMPLETION side of the nonblocking API (Nonblocking.v sections 3 and 6):
   extract_reqs (ALL paths, the three "same as ALL" shortcuts, the subset path), annotate,
   commit_io, commit_post (compact_leads, set_lead_range), wait_one.
   Statement-level definitions are in NbSpec.v.  No axioms.

   Contents
     0  list helpers (zfirstn/zskipn/slice/znth on concatenations, Forall2)
     1  lead_same, layouts (`lay`): the non-lead queue as the concatenation of the leads' segments
     2  flag_all / flag_first / ex_mark / ex_copy : closed forms (mark_lead, mark_list)
     3  coalesce_nonlead, compact_leads on layouts
     4  side_ok : what extract_reqs does to one queue (put or get), all paths      (extract_sides)
     W1 extract_leads_same
     W2 extract_put_slices, extract_get_slices
     W3 wait_put_pairs, wait_get_pairs
     W4 extract_all_flags, subset_flags, status_own_partial, subset_ids_reset, subset_statuses
     W5 wait_one_inv            (intermediate invariant: mid_inv, extract_mid_inv)
     W6 wait_subset_frame_partial, wait_nreqs, wait_completed_gone
     W7 wait_events_put, wait_events_get *)
From Pnc Require Import NbSpec Proofs_Disk Proofs_Lists.
Require Import Lia ZArith List Bool ZifyBool Zquot.
Import ListNotations.
Local Open Scope Z_scope.
Local Arguments Z.mul : simpl never.
Local Arguments Z.add : simpl never.
Local Arguments Z.sub : simpl never.
Local Arguments Z.of_nat : simpl never.
Local Arguments Z.to_nat : simpl never.

(* ====================================================================== *)
(* 0. list helpers                                                         *)
(* ====================================================================== *)
Lemma w_zfirstn_app_exact : forall A (l r : list A), zfirstn (Zlen l) (l ++ r) = l.
Proof.
  intros A l r. induction l as [|x l IH].
  - rewrite Proofs_Disk.Zlen_nil. cbn [app]. destruct r; reflexivity.
  - rewrite Proofs_Disk.Zlen_cons. cbn [app zfirstn].
    pose proof (Proofs_Disk.Zlen_nonneg l) as Hn.
    destruct (Zlen l + 1 <=? 0) eqn:E; [lia|].
    replace (Zlen l + 1 - 1) with (Zlen l) by lia. rewrite IH. reflexivity.
Qed.

Lemma w_zskipn_app_exact : forall A (l r : list A), zskipn (Zlen l) (l ++ r) = r.
Proof.
  intros A l r. induction l as [|x l IH].
  - rewrite Proofs_Disk.Zlen_nil. cbn [app]. destruct r; reflexivity.
  - rewrite Proofs_Disk.Zlen_cons. cbn [app zskipn].
    pose proof (Proofs_Disk.Zlen_nonneg l) as Hn.
    destruct (Zlen l + 1 <=? 0) eqn:E; [lia|].
    replace (Zlen l + 1 - 1) with (Zlen l) by lia. exact IH.
Qed.

Lemma w_zfirstn_zskipn : forall A k (l : list A), zfirstn k l ++ zskipn k l = l.
Proof.
  intros A k l. revert k. induction l as [|x l IH]; intros k; cbn [zfirstn zskipn].
  - reflexivity.
  - destruct (k <=? 0); cbn [app]; [reflexivity|]. rewrite IH. reflexivity.
Qed.

Lemma w_Zlen_zfirstn : forall A k (l : list A), 0 <= k <= Zlen l -> Zlen (zfirstn k l) = k.
Proof.
  intros A k l. revert k. induction l as [|x l IH]; intros k Hk; cbn [zfirstn].
  - rewrite Proofs_Disk.Zlen_nil in *. lia.
  - rewrite Proofs_Disk.Zlen_cons in Hk. destruct (k <=? 0) eqn:E.
    + rewrite Proofs_Disk.Zlen_nil. lia.
    + rewrite Proofs_Disk.Zlen_cons, IH; lia.
Qed.

Lemma w_slice_app : forall A (pre sl post : list A),
  slice (pre ++ sl ++ post) (Zlen pre) (Zlen sl) = sl.
Proof.
  intros A pre sl post. unfold slice. rewrite w_zskipn_app_exact, w_zfirstn_app_exact. reflexivity.
Qed.

Lemma w_znth_app_exact : forall A (pre : list A) x r d, znth (pre ++ x :: r) (Zlen pre) d = x.
Proof.
  intros A pre x r d. induction pre as [|y pre IH].
  - rewrite Proofs_Disk.Zlen_nil. reflexivity.
  - rewrite Proofs_Disk.Zlen_cons. cbn [app znth].
    pose proof (Proofs_Disk.Zlen_nonneg pre) as Hn.
    destruct (Zlen pre + 1 =? 0) eqn:E; [lia|].
    replace (Zlen pre + 1 - 1) with (Zlen pre) by lia. exact IH.
Qed.

Lemma w_Zlen_pos : forall A (l : list A), l <> [] -> 0 < Zlen l.
Proof. intros A l H. apply Proofs_Disk.Zlen_pos_not_nil. exact H. Qed.

Lemma w_Zlen_zupd : forall A (l : list A) i v, Zlen (zupd l i v) = Zlen l.
Proof.
  intros A l. induction l as [|x l IH]; intros i v; cbn [zupd]; [reflexivity|].
  destruct (i =? 0); rewrite !Proofs_Disk.Zlen_cons; [reflexivity|]. rewrite IH. reflexivity.
Qed.

Lemma w_znth_zupd_same : forall A (l : list A) i v d, 0 <= i < Zlen l -> znth (zupd l i v) i d = v.
Proof.
  intros A l. induction l as [|x l IH]; intros i v d Hi.
  - rewrite Proofs_Disk.Zlen_nil in Hi. lia.
  - rewrite Proofs_Disk.Zlen_cons in Hi. cbn [zupd]. destruct (i =? 0) eqn:E; cbn [znth]; rewrite E.
    + reflexivity.
    + apply IH. lia.
Qed.

Lemma w_znth_zupd_other : forall A (l : list A) i j v d, i <> j -> znth (zupd l i v) j d = znth l j d.
Proof.
  intros A l. induction l as [|x l IH]; intros i j v d Hij; cbn [zupd]; [reflexivity|].
  destruct (i =? 0) eqn:E; cbn [znth].
  - destruct (j =? 0) eqn:E2; [lia|reflexivity].
  - destruct (j =? 0) eqn:E2; [reflexivity|]. apply IH. lia.
Qed.

Lemma w_filter_nil_Forall : forall A (f : A -> bool) l, filter f l = [] -> Forall (fun x => f x = false) l.
Proof.
  intros A f l. induction l as [|x l IH]; intros H; [constructor|].
  cbn [filter] in H. destruct (f x) eqn:E; [discriminate|]. constructor; [exact E|apply IH; exact H].
Qed.

Lemma w_filter_all_false : forall A (f : A -> bool) l, Forall (fun x => f x = false) l -> filter f l = [].
Proof.
  intros A f l H. induction H as [|x l Hx H IH]; [reflexivity|]. cbn [filter]. rewrite Hx. exact IH.
Qed.

Lemma w_filter_all_true : forall A (f : A -> bool) l, Forall (fun x => f x = true) l -> filter f l = l.
Proof.
  intros A f l H. induction H as [|x l Hx H IH]; [reflexivity|]. cbn [filter]. rewrite Hx, IH. reflexivity.
Qed.

Lemma w_Zlen_filter_split : forall A (f : A -> bool) l,
  Zlen (filter f l) + Zlen (filter (fun x => negb (f x)) l) = Zlen l.
Proof.
  intros A f l. induction l as [|x l IH]; [reflexivity|]. cbn [filter].
  destruct (f x); cbn [negb]; rewrite !Proofs_Disk.Zlen_cons; lia.
Qed.

Lemma w_flat_map_filter : forall A B (p : A -> bool) (g : A -> list B) l,
  flat_map (fun x => if p x then g x else []) l = flat_map g (filter p l).
Proof.
  intros A B p g l. induction l as [|x l IH]; [reflexivity|]. cbn [flat_map filter].
  destruct (p x); cbn [flat_map app]; rewrite IH; reflexivity.
Qed.

Lemma w_flat_map_map : forall A B C (f : A -> B) (g : B -> list C) l,
  flat_map g (map f l) = flat_map (fun x => g (f x)) l.
Proof.
  intros A B C f g l. induction l as [|x l IH]; [reflexivity|]. cbn [map flat_map]. rewrite IH. reflexivity.
Qed.

Lemma w_flat_map_ext_in : forall A B (f g : A -> list B) l,
  (forall x, In x l -> f x = g x) -> flat_map f l = flat_map g l.
Proof.
  intros A B f g l H. induction l as [|x l IH]; [reflexivity|]. cbn [flat_map].
  rewrite H by (left; reflexivity). rewrite IH; [reflexivity|]. intros y Hy. apply H. right. exact Hy.
Qed.

Lemma w_NoDup_map_filter : forall A B (f : A -> B) (p : A -> bool) l,
  NoDup (map f l) -> NoDup (map f (filter p l)).
Proof.
  intros A B f p l. induction l as [|x l IH]; intros H; [constructor|].
  cbn [map] in H. apply NoDup_cons_iff in H. destruct H as [Hx H]. cbn [filter].
  destruct (p x); [|apply IH; exact H]. cbn [map]. constructor; [|apply IH; exact H].
  intros Hin. apply Hx. apply in_map_iff in Hin. destruct Hin as (y & Ey & Hy).
  apply filter_In in Hy. apply in_map_iff. exists y. split; [exact Ey|apply Hy].
Qed.

(* ---------- Forall2 ---------- *)
Lemma w_F2_len : forall A B (R : A -> B -> Prop) a b, Forall2 R a b -> Zlen a = Zlen b.
Proof.
  intros A B R a b H. induction H as [|x y a b Hxy H IH]; [reflexivity|].
  rewrite !Proofs_Disk.Zlen_cons, IH. reflexivity.
Qed.

Lemma w_F2_impl : forall A B (R S : A -> B -> Prop) a b,
  (forall x y, In x a -> In y b -> R x y -> S x y) -> Forall2 R a b -> Forall2 S a b.
Proof.
  intros A B R S a b HRS H. induction H as [|x y a b Hxy H IH]; constructor.
  - apply HRS; [left; reflexivity|left; reflexivity|exact Hxy].
  - apply IH. intros x' y' Hx' Hy'. apply HRS; right; assumption.
Qed.

Lemma w_F2_and : forall A B (R S : A -> B -> Prop) a b,
  Forall2 R a b -> Forall2 S a b -> Forall2 (fun x y => R x y /\ S x y) a b.
Proof.
  intros A B R S a b H.
  induction H as [|x y a b Hxy H IH]; intros H2; inversion H2 as [|x0 y0 a0 b0 Hs Hss]; subst; constructor.
  - split; assumption.
  - apply IH. exact Hss.
Qed.

Lemma w_F2_trans : forall A B C (R : A -> B -> Prop) (S : B -> C -> Prop) a b c,
  Forall2 R a b -> Forall2 S b c -> Forall2 (fun x z => exists y, In y b /\ R x y /\ S y z) a c.
Proof.
  intros A B C R S a b c H. revert c.
  induction H as [|x y a b Hxy H IH]; intros c H2; inversion H2 as [|y0 z b0 c0 Hyz Hbc]; subst; constructor.
  - exists y. split; [left; reflexivity|]. split; assumption.
  - eapply w_F2_impl; [|apply IH; exact Hbc].
    intros x' z' _ _ (y' & Hy' & Hr1 & Hs1). exists y'. split; [right; exact Hy'|]. split; assumption.
Qed.

Lemma w_F2_refl : forall A (R : A -> A -> Prop) l, (forall x, In x l -> R x x) -> Forall2 R l l.
Proof.
  intros A R l H. induction l as [|x l IH]; constructor.
  - apply H. left. reflexivity.
  - apply IH. intros y Hy. apply H. right. exact Hy.
Qed.

Lemma w_F2_map_r : forall A B (R : A -> B -> Prop) (f : A -> B) l,
  (forall x, In x l -> R x (f x)) -> Forall2 R l (map f l).
Proof.
  intros A B R f l H. induction l as [|x l IH]; cbn [map]; constructor.
  - apply H. left. reflexivity.
  - apply IH. intros y Hy. apply H. right. exact Hy.
Qed.

Lemma w_F2_In_l : forall A B (R : A -> B -> Prop) a b x,
  Forall2 R a b -> In x a -> exists y, In y b /\ R x y.
Proof.
  intros A B R a b x H. induction H as [|x0 y0 a b Hxy H IH]; intros Hin; [destruct Hin|].
  destruct Hin as [->|Hin].
  - exists y0. split; [left; reflexivity|exact Hxy].
  - destruct (IH Hin) as (y & Hy & Hr). exists y. split; [right; exact Hy|exact Hr].
Qed.

Lemma w_F2_In_r : forall A B (R : A -> B -> Prop) a b y,
  Forall2 R a b -> In y b -> exists x, In x a /\ R x y.
Proof.
  intros A B R a b y H. induction H as [|x0 y0 a b Hxy H IH]; intros Hin; [destruct Hin|].
  destruct Hin as [->|Hin].
  - exists x0. split; [left; reflexivity|exact Hxy].
  - destruct (IH Hin) as (x & Hx & Hr). exists x. split; [right; exact Hx|exact Hr].
Qed.

Lemma w_F2_Forall_l : forall A B (R : A -> B -> Prop) (P : A -> Prop) a b,
  Forall P a -> Forall2 R a b -> Forall2 (fun x y => P x /\ R x y) a b.
Proof.
  intros A B R P a b HP H.
  induction H as [|x y a b Hxy H IH]; inversion HP as [|x0 a0 Hp Hps]; subst; constructor.
  - split; assumption.
  - apply IH. exact Hps.
Qed.

Lemma w_F2_concat : forall A B (f : A -> list B) l segs,
  Forall2 (fun x s => f x = s) l segs -> flat_map f l = concat segs.
Proof.
  intros A B f l segs H. induction H as [|x s l segs Hxs H IH]; [reflexivity|].
  cbn [flat_map concat]. rewrite Hxs, IH. reflexivity.
Qed.

(* parity of request ids: the C code tests  id % 2 == 0  (put) and  id & 1  (get, cancel) *)
Lemma w_rem2_even : forall x, (Z.rem x 2 =? 0) = Z.even x.
Proof.
  intros x. rewrite Zrem_even. destruct (Z.even x) eqn:E; [reflexivity|].
  destruct x; [discriminate E|reflexivity|reflexivity].
Qed.
