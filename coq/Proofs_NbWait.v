(* Proofs_NbWait.v — the COMPLETION side of the nonblocking API (Nonblocking.v sections 3 and 6):
   extract_reqs (ALL paths, the three "same as ALL" shortcuts, the subset path), annotate,
   commit_io, commit_post (compact_leads, set_lead_range), wait_one.
   Statement-level definitions are in NbSpec.v.  No axioms.

   Contents
     0  list helpers (zfirstn/zskipn/slice/znth on concatenations, Forall2)
     1  lead_same, layouts (`lay`): the non-lead queue as the concatenation of the leads' segments
     2  flag_all / flag_first / ex_mark / ex_copy : closed forms (mark_lead, mark_list)
     3  coalesce_nonlead, compact_leads on layouts
     4  side_ok : what extract_reqs does to one queue (put or get), all paths      (extract_sides)
     W1 extract_leads_same
     W2 extract_put_slices, extract_get_slices
     W3 wait_put_pairs, wait_get_pairs
     W4 extract_all_flags, subset_flags, status_own_partial, subset_ids_reset, subset_statuses
     W5 wait_one_inv            (intermediate invariant: mid_inv, extract_mid_inv)
     W6 wait_subset_frame_partial, wait_nreqs, wait_completed_gone
     W7 wait_events_put, wait_events_get
     F  fx = true (the repaired library): fixed_struct, subset_flags_fixed, status_own_fixed,
        ids_reset_fixed, statuses_fixed, ids_pending_fixed, failed_extract_fixed, unflag_inv,
        wait_one_failed_fixed, wait_one_inv_fixed, wait_subset_frame_fixed
     Examples on a concrete state (w_xs3: two puts and a get on a 4x5x6 variable)

   Notes
   * extract_reqs / wait_one have two variants selected by fx (false = snapshot, true = with
     patches/F3_poison.diff).  W1-W3, extract_all_flags, W5-W7 hold for every fx; the subset_* results
     of W4 are about fx = false; section F is about fx = true.
   * W2-W3, W5-W7 cover every path of extract_reqs (n < 0, the three shortcuts, the subset path).
   * The subset-path theorems of W4 need `no_shortcut` and (statuses <> NULL or n <> nreqs): on a
     shortcut path req_ids is not read at all and status pointers are bound in queue order
     (Example status_own_shortcut_counterexample), hence `status_own_partial`.
   * Success of the subset path implies that every non-NULL id names a pending request and occurs
     once (subset_ids_pending). *)
From Pnc Require Import NbSpec Proofs_Disk Proofs_Lists.
Require Import Lia ZArith List Bool ZifyBool Zquot.
Import ListNotations.
Local Open Scope Z_scope.
Local Arguments Z.mul : simpl never.
Local Arguments Z.add : simpl never.
Local Arguments Z.sub : simpl never.
Local Arguments Z.of_nat : simpl never.
Local Arguments Z.to_nat : simpl never.

(* ====================================================================== *)
(* 0. list helpers                                                         *)
(* ====================================================================== *)
Lemma w_zfirstn_app_exact : forall A (l r : list A), zfirstn (Zlen l) (l ++ r) = l.
Proof.
  intros A l r. induction l as [|x l IH].
  - rewrite Proofs_Disk.Zlen_nil. cbn [app]. destruct r; reflexivity.
  - rewrite Proofs_Disk.Zlen_cons. cbn [app zfirstn].
    pose proof (Proofs_Disk.Zlen_nonneg l) as Hn.
    destruct (Zlen l + 1 <=? 0) eqn:E; [lia|].
    replace (Zlen l + 1 - 1) with (Zlen l) by lia. rewrite IH. reflexivity.
Qed.

Lemma w_zskipn_app_exact : forall A (l r : list A), zskipn (Zlen l) (l ++ r) = r.
Proof.
  intros A l r. induction l as [|x l IH].
  - rewrite Proofs_Disk.Zlen_nil. cbn [app]. destruct r; reflexivity.
  - rewrite Proofs_Disk.Zlen_cons. cbn [app zskipn].
    pose proof (Proofs_Disk.Zlen_nonneg l) as Hn.
    destruct (Zlen l + 1 <=? 0) eqn:E; [lia|].
    replace (Zlen l + 1 - 1) with (Zlen l) by lia. exact IH.
Qed.

Lemma w_zfirstn_zskipn : forall A k (l : list A), zfirstn k l ++ zskipn k l = l.
Proof.
  intros A k l. revert k. induction l as [|x l IH]; intros k; cbn [zfirstn zskipn].
  - reflexivity.
  - destruct (k <=? 0); cbn [app]; [reflexivity|]. rewrite IH. reflexivity.
Qed.

Lemma w_Zlen_zfirstn : forall A k (l : list A), 0 <= k <= Zlen l -> Zlen (zfirstn k l) = k.
Proof.
  intros A k l. revert k. induction l as [|x l IH]; intros k Hk; cbn [zfirstn].
  - rewrite Proofs_Disk.Zlen_nil in *. lia.
  - rewrite Proofs_Disk.Zlen_cons in Hk. destruct (k <=? 0) eqn:E.
    + rewrite Proofs_Disk.Zlen_nil. lia.
    + rewrite Proofs_Disk.Zlen_cons, IH; lia.
Qed.

Lemma w_slice_app : forall A (pre sl post : list A),
  slice (pre ++ sl ++ post) (Zlen pre) (Zlen sl) = sl.
Proof.
  intros A pre sl post. unfold slice. rewrite w_zskipn_app_exact, w_zfirstn_app_exact. reflexivity.
Qed.

Lemma w_znth_app_exact : forall A (pre : list A) x r d, znth (pre ++ x :: r) (Zlen pre) d = x.
Proof.
  intros A pre x r d. induction pre as [|y pre IH].
  - rewrite Proofs_Disk.Zlen_nil. reflexivity.
  - rewrite Proofs_Disk.Zlen_cons. cbn [app znth].
    pose proof (Proofs_Disk.Zlen_nonneg pre) as Hn.
    destruct (Zlen pre + 1 =? 0) eqn:E; [lia|].
    replace (Zlen pre + 1 - 1) with (Zlen pre) by lia. exact IH.
Qed.

Lemma w_Zlen_pos : forall A (l : list A), l <> [] -> 0 < Zlen l.
Proof. intros A l H. apply Proofs_Disk.Zlen_pos_not_nil. exact H. Qed.

Lemma w_Zlen_zupd : forall A (l : list A) i v, Zlen (zupd l i v) = Zlen l.
Proof.
  intros A l. induction l as [|x l IH]; intros i v; cbn [zupd]; [reflexivity|].
  destruct (i =? 0); rewrite !Proofs_Disk.Zlen_cons; [reflexivity|]. rewrite IH. reflexivity.
Qed.

Lemma w_znth_zupd_same : forall A (l : list A) i v d, 0 <= i < Zlen l -> znth (zupd l i v) i d = v.
Proof.
  intros A l. induction l as [|x l IH]; intros i v d Hi.
  - rewrite Proofs_Disk.Zlen_nil in Hi. lia.
  - rewrite Proofs_Disk.Zlen_cons in Hi. cbn [zupd]. destruct (i =? 0) eqn:E; cbn [znth]; rewrite E.
    + reflexivity.
    + apply IH. lia.
Qed.

Lemma w_znth_zupd_other : forall A (l : list A) i j v d, i <> j -> znth (zupd l i v) j d = znth l j d.
Proof.
  intros A l. induction l as [|x l IH]; intros i j v d Hij; cbn [zupd]; [reflexivity|].
  destruct (i =? 0) eqn:E; cbn [znth].
  - destruct (j =? 0) eqn:E2; [lia|reflexivity].
  - destruct (j =? 0) eqn:E2; [reflexivity|]. apply IH. lia.
Qed.

Lemma w_filter_nil_Forall : forall A (f : A -> bool) l, filter f l = [] -> Forall (fun x => f x = false) l.
Proof.
  intros A f l. induction l as [|x l IH]; intros H; [constructor|].
  cbn [filter] in H. destruct (f x) eqn:E; [discriminate|]. constructor; [exact E|apply IH; exact H].
Qed.

Lemma w_filter_all_false : forall A (f : A -> bool) l, Forall (fun x => f x = false) l -> filter f l = [].
Proof.
  intros A f l H. induction H as [|x l Hx H IH]; [reflexivity|]. cbn [filter]. rewrite Hx. exact IH.
Qed.

Lemma w_filter_all_true : forall A (f : A -> bool) l, Forall (fun x => f x = true) l -> filter f l = l.
Proof.
  intros A f l H. induction H as [|x l Hx H IH]; [reflexivity|]. cbn [filter]. rewrite Hx, IH. reflexivity.
Qed.

Lemma w_Zlen_filter_split : forall A (f : A -> bool) l,
  Zlen (filter f l) + Zlen (filter (fun x => negb (f x)) l) = Zlen l.
Proof.
  intros A f l. induction l as [|x l IH]; [reflexivity|]. cbn [filter].
  destruct (f x); cbn [negb]; rewrite !Proofs_Disk.Zlen_cons; lia.
Qed.

Lemma w_flat_map_filter : forall A B (p : A -> bool) (g : A -> list B) l,
  flat_map (fun x => if p x then g x else []) l = flat_map g (filter p l).
Proof.
  intros A B p g l. induction l as [|x l IH]; [reflexivity|]. cbn [flat_map filter].
  destruct (p x); cbn [flat_map app]; rewrite IH; reflexivity.
Qed.

Lemma w_flat_map_map : forall A B C (f : A -> B) (g : B -> list C) l,
  flat_map g (map f l) = flat_map (fun x => g (f x)) l.
Proof.
  intros A B C f g l. induction l as [|x l IH]; [reflexivity|]. cbn [map flat_map]. rewrite IH. reflexivity.
Qed.

Lemma w_flat_map_ext_in : forall A B (f g : A -> list B) l,
  (forall x, In x l -> f x = g x) -> flat_map f l = flat_map g l.
Proof.
  intros A B f g l H. induction l as [|x l IH]; [reflexivity|]. cbn [flat_map].
  rewrite H by (left; reflexivity). rewrite IH; [reflexivity|]. intros y Hy. apply H. right. exact Hy.
Qed.

Lemma w_NoDup_map_filter : forall A B (f : A -> B) (p : A -> bool) l,
  NoDup (map f l) -> NoDup (map f (filter p l)).
Proof.
  intros A B f p l. induction l as [|x l IH]; intros H; [constructor|].
  cbn [map] in H. apply NoDup_cons_iff in H. destruct H as [Hx H]. cbn [filter].
  destruct (p x); [|apply IH; exact H]. cbn [map]. constructor; [|apply IH; exact H].
  intros Hin. apply Hx. apply in_map_iff in Hin. destruct Hin as (y & Ey & Hy).
  apply filter_In in Hy. apply in_map_iff. exists y. split; [exact Ey|apply Hy].
Qed.

(* ---------- Forall2 ---------- *)
Lemma w_F2_len : forall A B (R : A -> B -> Prop) a b, Forall2 R a b -> Zlen a = Zlen b.
Proof.
  intros A B R a b H. induction H as [|x y a b Hxy H IH]; [reflexivity|].
  rewrite !Proofs_Disk.Zlen_cons, IH. reflexivity.
Qed.

Lemma w_F2_impl : forall A B (R S : A -> B -> Prop) a b,
  (forall x y, In x a -> In y b -> R x y -> S x y) -> Forall2 R a b -> Forall2 S a b.
Proof.
  intros A B R S a b HRS H. induction H as [|x y a b Hxy H IH]; constructor.
  - apply HRS; [left; reflexivity|left; reflexivity|exact Hxy].
  - apply IH. intros x' y' Hx' Hy'. apply HRS; right; assumption.
Qed.

Lemma w_F2_and : forall A B (R S : A -> B -> Prop) a b,
  Forall2 R a b -> Forall2 S a b -> Forall2 (fun x y => R x y /\ S x y) a b.
Proof.
  intros A B R S a b H.
  induction H as [|x y a b Hxy H IH]; intros H2; inversion H2 as [|x0 y0 a0 b0 Hs Hss]; subst; constructor.
  - split; assumption.
  - apply IH. exact Hss.
Qed.

Lemma w_F2_trans : forall A B C (R : A -> B -> Prop) (S : B -> C -> Prop) a b c,
  Forall2 R a b -> Forall2 S b c -> Forall2 (fun x z => exists y, In y b /\ R x y /\ S y z) a c.
Proof.
  intros A B C R S a b c H. revert c.
  induction H as [|x y a b Hxy H IH]; intros c H2; inversion H2 as [|y0 z b0 c0 Hyz Hbc]; subst; constructor.
  - exists y. split; [left; reflexivity|]. split; assumption.
  - eapply w_F2_impl; [|apply IH; exact Hbc].
    intros x' z' _ _ (y' & Hy' & Hr1 & Hs1). exists y'. split; [right; exact Hy'|]. split; assumption.
Qed.

Lemma w_F2_refl : forall A (R : A -> A -> Prop) l, (forall x, In x l -> R x x) -> Forall2 R l l.
Proof.
  intros A R l H. induction l as [|x l IH]; constructor.
  - apply H. left. reflexivity.
  - apply IH. intros y Hy. apply H. right. exact Hy.
Qed.

Lemma w_F2_map_r : forall A B (R : A -> B -> Prop) (f : A -> B) l,
  (forall x, In x l -> R x (f x)) -> Forall2 R l (map f l).
Proof.
  intros A B R f l H. induction l as [|x l IH]; cbn [map]; constructor.
  - apply H. left. reflexivity.
  - apply IH. intros y Hy. apply H. right. exact Hy.
Qed.

Lemma w_F2_In_l : forall A B (R : A -> B -> Prop) a b x,
  Forall2 R a b -> In x a -> exists y, In y b /\ R x y.
Proof.
  intros A B R a b x H. induction H as [|x0 y0 a b Hxy H IH]; intros Hin; [destruct Hin|].
  destruct Hin as [->|Hin].
  - exists y0. split; [left; reflexivity|exact Hxy].
  - destruct (IH Hin) as (y & Hy & Hr). exists y. split; [right; exact Hy|exact Hr].
Qed.

Lemma w_F2_In_r : forall A B (R : A -> B -> Prop) a b y,
  Forall2 R a b -> In y b -> exists x, In x a /\ R x y.
Proof.
  intros A B R a b y H. induction H as [|x0 y0 a b Hxy H IH]; intros Hin; [destruct Hin|].
  destruct Hin as [->|Hin].
  - exists x0. split; [left; reflexivity|exact Hxy].
  - destruct (IH Hin) as (x & Hx & Hr). exists x. split; [right; exact Hx|exact Hr].
Qed.

Lemma w_F2_Forall_l : forall A B (R : A -> B -> Prop) (P : A -> Prop) a b,
  Forall P a -> Forall2 R a b -> Forall2 (fun x y => P x /\ R x y) a b.
Proof.
  intros A B R P a b HP H.
  induction H as [|x y a b Hxy H IH]; inversion HP as [|x0 a0 Hp Hps]; subst; constructor.
  - split; assumption.
  - apply IH. exact Hps.
Qed.

Lemma w_F2_concat : forall A B (f : A -> list B) l segs,
  Forall2 (fun x s => f x = s) l segs -> flat_map f l = concat segs.
Proof.
  intros A B f l segs H. induction H as [|x s l segs Hxs H IH]; [reflexivity|].
  cbn [flat_map concat]. rewrite Hxs, IH. reflexivity.
Qed.

(* parity of request ids: the C code tests  id % 2 == 0  (put) and  id & 1  (get, cancel) *)
Lemma w_rem2_even : forall x, (Z.rem x 2 =? 0) = Z.even x.
Proof.
  intros x. rewrite Zrem_even. destruct (Z.even x) eqn:E; [reflexivity|].
  destruct x; [discriminate E|reflexivity|reflexivity].
Qed.

(* ====================================================================== *)
(* 1. lead_same, layouts                                                   *)
(* ====================================================================== *)
(* extract_reqs changes only l_to_free, l_status, l_nonlead_off of a lead *)
Definition lead_same (l l' : lead) : Prop :=
  l_id l = l_id l' /\ l_geom l = l_geom l' /\ l_stride l = l_stride l' /\
  l_nonlead_num l = l_nonlead_num l' /\ l_xaddr l = l_xaddr l' /\ l_nelems l = l_nelems l' /\
  l_tag l = l_tag l' /\ l_orig l = l_orig l' /\ l_swapbuf l = l_swapbuf l' /\
  l_abuf_index l = l_abuf_index l' /\ l_max_rec l = l_max_rec l'.

Lemma lead_same_refl : forall l, lead_same l l.
Proof. intros l. unfold lead_same. repeat split; reflexivity. Qed.

Lemma lead_same_trans : forall a b c, lead_same a b -> lead_same b c -> lead_same a c.
Proof.
  intros a b c (H1 & H2 & H3 & H4 & H5 & H6 & H7 & H8 & H9 & H10 & H11)
               (G1 & G2 & G3 & G4 & G5 & G6 & G7 & G8 & G9 & G10 & G11).
  unfold lead_same. repeat split; etransitivity; eassumption.
Qed.

Lemma lead_same_set_flag : forall l tf stt, lead_same l (l_set_flag l tf stt).
Proof. intros l tf stt. unfold lead_same. cbn. repeat split; reflexivity. Qed.

Lemma lead_same_set_off : forall l k, lead_same l (l_set_off l k).
Proof. intros l k. unfold lead_same. cbn. repeat split; reflexivity. Qed.

Lemma lead_same_id : forall l l', lead_same l l' -> l_id l = l_id l'.
Proof. intros l l' H. apply H. Qed.

Lemma F2_same_ids : forall (R : lead -> lead -> Prop) a b,
  (forall x y, R x y -> l_id x = l_id y) -> Forall2 R a b -> map l_id a = map l_id b.
Proof.
  intros R a b HR H. induction H as [|x y a b Hxy H IH]; [reflexivity|].
  cbn [map]. rewrite (HR _ _ Hxy), IH. reflexivity.
Qed.

(* the non-lead entries without their back pointer *)
Definition req_core (q : req) := (r_start q, r_count q, r_nelems q, r_xaddr q).

(* lead_wf with the slice as an argument *)
Definition lead_wf_seg (isput : bool) (l : lead) (sl : list req) : Prop :=
  Z.even (l_id l) = isput /\ 0 <= l_id l /\
  Forall (fun q => areq_wf (mkareq q l 0 0)) sl /\
  flat_map (fun q => areq_pairs (mkareq q l 0 0)) sl = lead_pairs l.

Lemma lead_wf_is_seg : forall isput reqs l, lead_wf isput reqs l = lead_wf_seg isput l (lead_reqs reqs l).
Proof. reflexivity. Qed.

Lemma areq_wf_lead_indep : forall q q' l l' s e s' e',
  req_core q = req_core q' -> l_geom l = l_geom l' -> l_stride l = l_stride l' ->
  areq_wf (mkareq q l s e) -> areq_wf (mkareq q' l' s' e').
Proof.
  intros q q' l l' s e s' e' Hc Hg Hs H. unfold req_core in Hc. inversion Hc as [[E1 E2 E3 E4]].
  unfold areq_wf, req_stride in *. cbn [a_lead a_req] in *.
  rewrite <- Hg, <- Hs, <- E1, <- E2, <- E3. exact H.
Qed.

Lemma areq_pairs_lead_indep : forall q q' l l' s e s' e',
  req_core q = req_core q' -> l_geom l = l_geom l' -> l_stride l = l_stride l' ->
  areq_pairs (mkareq q l s e) = areq_pairs (mkareq q' l' s' e').
Proof.
  intros q q' l l' s e s' e' Hc Hg Hs. unfold req_core in Hc. inversion Hc as [[E1 E2 E3 E4]].
  unfold areq_pairs, req_stride. cbn [a_lead a_req].
  rewrite <- Hg, <- Hs, <- E1, <- E2, <- E4. reflexivity.
Qed.

Lemma lead_pairs_same : forall l l', lead_same l l' -> lead_pairs l = lead_pairs l'.
Proof.
  intros l l' (H1 & H2 & H3 & H4 & H5 & H6 & H7 & H8 & H9). unfold lead_pairs.
  rewrite H2, H8, H5. reflexivity.
Qed.

Lemma lead_wf_seg_indep : forall isput l l' sl sl',
  lead_same l l' -> map req_core sl = map req_core sl' ->
  lead_wf_seg isput l sl -> lead_wf_seg isput l' sl'.
Proof.
  intros isput l l' sl sl' Hs Hc (He & Hid & Hwf & Hp).
  pose proof Hs as (H1 & H2 & H3 & _).
  unfold lead_wf_seg. rewrite <- H1. split; [exact He|]. split; [exact Hid|].
  rewrite <- (lead_pairs_same _ _ Hs), <- Hp. clear Hp.
  revert sl' Hc Hwf. induction sl as [|q sl IH]; intros sl' Hc Hwf; destruct sl' as [|q' sl']; try discriminate Hc.
  - split; [constructor|reflexivity].
  - cbn [map] in Hc.
    pose proof (f_equal (fun x => hd (req_core q) x) Hc) as Hq. cbn [hd] in Hq.
    pose proof (f_equal (@tl _) Hc) as Hrest. cbn [tl] in Hrest.
    inversion Hwf as [|q0 sl0 Hwq Hwr]; subst.
    destruct (IH sl' Hrest Hwr) as (IH1 & IH2). split.
    + constructor; [|exact IH1]. eapply areq_wf_lead_indep; [exact Hq|exact H2|exact H3|exact Hwq].
    + cbn [flat_map]. rewrite IH2. f_equal. symmetry.
      apply areq_pairs_lead_indep; assumption.
Qed.

(* `lay skip leads segs k i` : the leads that are not skipped own consecutive segments starting
   at offset k, and the entries of a segment point to the index (i + position) of their lead;
   skipped leads own nothing.  The queue is  pre ++ concat segs  with Zlen pre = k. *)
Fixpoint lay (skip : lead -> bool) (leads : list lead) (segs : list (list req)) (k i : Z) : Prop :=
  match leads, segs with
  | [], [] => True
  | l :: r, sl :: ss =>
      if skip l then sl = [] /\ lay skip r ss k (i + 1)
      else l_nonlead_off l = k /\ l_nonlead_num l = Zlen sl /\ sl <> [] /\
           Forall (fun q => r_lead_off q = i) sl /\ lay skip r ss (k + Zlen sl) (i + 1)
  | _, _ => False
  end.
Definition noskip (l : lead) : bool := false.

Lemma slices_lay : forall leads reqs pre rest i,
  reqs = pre ++ rest -> slices_ok leads reqs (Zlen pre) i ->
  exists segs, rest = concat segs /\ lay noskip leads segs (Zlen pre) i.
Proof.
  induction leads as [|l leads IH]; intros reqs pre rest i Hr H; cbn [slices_ok] in H.
  - exists []. split; [|exact I]. cbn [concat]. subst reqs. rewrite Proofs_Disk.Zlen_app in H.
    apply Proofs_Disk.Zlen_zero_nil. lia.
  - destruct H as (Hoff & Hpos & Hle & Hall & Hrest).
    set (n := l_nonlead_num l) in *.
    pose proof (w_zfirstn_zskipn _ n rest) as Hsplit.
    assert (Hlen : Zlen (zfirstn n rest) = n).
    { apply w_Zlen_zfirstn. subst reqs. rewrite Proofs_Disk.Zlen_app in Hle. lia. }
    assert (Hsl : slice reqs (Zlen pre) n = zfirstn n rest).
    { subst reqs. unfold slice. rewrite w_zskipn_app_exact. reflexivity. }
    destruct (IH reqs (pre ++ zfirstn n rest) (zskipn n rest) (i + 1)) as (segs & Hc & Hl).
    + subst reqs. rewrite <- app_assoc, Hsplit. reflexivity.
    + rewrite Proofs_Disk.Zlen_app, Hlen. exact Hrest.
    + exists (zfirstn n rest :: segs). split.
      * cbn [concat]. rewrite <- Hc. symmetry. exact Hsplit.
      * cbn [lay]. unfold noskip at 1. cbv iota.
        split; [exact Hoff|]. split; [fold n; symmetry; exact Hlen|].
        split; [intros E; rewrite E, Proofs_Disk.Zlen_nil in Hlen; lia|].
        split; [rewrite <- Hsl; exact Hall|].
        rewrite Proofs_Disk.Zlen_app in Hl. exact Hl.
Qed.

Lemma lay_slices_ok : forall skip leads segs pre i,
  Forall (fun l => skip l = false) leads -> lay skip leads segs (Zlen pre) i ->
  slices_ok leads (pre ++ concat segs) (Zlen pre) i.
Proof.
  intros skip. induction leads as [|l leads IH]; intros segs pre i Hsk H; destruct segs as [|sl ss]; cbn [lay] in H; try contradiction.
  - cbn [slices_ok concat]. rewrite app_nil_r. reflexivity.
  - inversion Hsk as [|l0 r0 Hl Hr]; subst. rewrite Hl in H.
    destruct H as (Hoff & Hnum & Hne & Hfa & Hrest).
    cbn [slices_ok concat]. split; [exact Hoff|].
    pose proof (w_Zlen_pos _ _ Hne) as Hpos.
    split; [lia|]. split.
    { rewrite !Proofs_Disk.Zlen_app. pose proof (Proofs_Disk.Zlen_nonneg (concat ss)). lia. }
    split.
    { rewrite Hnum, w_slice_app. exact Hfa. }
    specialize (IH ss (pre ++ sl) (i + 1) Hr). rewrite Proofs_Disk.Zlen_app, <- app_assoc in IH.
    rewrite Hnum. apply IH. exact Hrest.
Qed.

(* the slice of a lead that is not skipped is its segment *)
Lemma lay_lead_reqs : forall skip leads segs pre i,
  lay skip leads segs (Zlen pre) i ->
  Forall2 (fun l sl => skip l = false -> lead_reqs (pre ++ concat segs) l = sl) leads segs.
Proof.
  intros skip. induction leads as [|l leads IH]; intros segs pre i H; destruct segs as [|sl ss]; cbn [lay] in H; try contradiction.
  - constructor.
  - destruct (skip l) eqn:Hl.
    + destruct H as (Hsl & Hrest). subst sl. constructor; [intros Hf; congruence|].
      cbn [concat app]. eapply IH. exact Hrest.
    + destruct H as (Hoff & Hnum & Hne & Hfa & Hrest). constructor.
      * intros _. unfold lead_reqs. rewrite Hoff, Hnum. cbn [concat]. apply w_slice_app.
      * specialize (IH ss (pre ++ sl) (i + 1)). rewrite Proofs_Disk.Zlen_app, <- app_assoc in IH.
        cbn [concat]. apply IH. exact Hrest.
Qed.

(* the entries of the segment of the i-th lead point to i *)
Lemma lay_lead_off : forall skip leads segs (pre2 leads2 : list lead) k (R : lead -> lead -> Prop),
  lay skip leads segs k (Zlen pre2) -> Forall2 R leads leads2 ->
  Forall2 (fun sl l2 => Forall (fun q => znth (pre2 ++ leads2) (r_lead_off q) dummy_lead = l2) sl) segs leads2.
Proof.
  intros skip. induction leads as [|l leads IH]; intros segs pre2 leads2 k R H HR;
    destruct segs as [|sl ss]; cbn [lay] in H; try contradiction;
    inversion HR as [|x y a b Hxy Hab]; subst.
  - constructor.
  - assert (Hrest : lay skip leads ss (if skip l then k else k + Zlen sl) (Zlen (pre2 ++ [y]))).
    { rewrite Proofs_Disk.Zlen_app. change (Zlen [y]) with 1. destruct (skip l); apply H. }
    specialize (IH ss (pre2 ++ [y]) b _ R Hrest Hab). rewrite <- app_assoc in IH. cbn [app] in IH.
    constructor; [|exact IH].
    destruct (skip l).
    + destruct H as (-> & _). constructor.
    + destruct H as (_ & _ & _ & Hfa & _). eapply Forall_impl; [|exact Hfa].
      intros q Hq. cbn beta in Hq. rewrite Hq. apply w_znth_app_exact.
Qed.

Lemma lay_ext : forall skip skip' leads leads' segs k i,
  Forall2 (fun l l' => skip l = skip' l' /\
                       (skip l = false -> l_nonlead_off l = l_nonlead_off l' /\ l_nonlead_num l = l_nonlead_num l'))
          leads leads' ->
  lay skip leads segs k i -> lay skip' leads' segs k i.
Proof.
  intros skip skip' leads leads' segs k i H. revert segs k i.
  induction H as [|l l' leads leads' (Hs & Ho) H IH]; intros segs k i Hl; destruct segs as [|sl ss]; cbn [lay] in *; try contradiction.
  - exact I.
  - rewrite <- Hs. destruct (skip l).
    + destruct Hl as (E & Hl). split; [exact E|apply IH; exact Hl].
    + destruct (Ho eq_refl) as (Ho1 & Ho2). destruct Hl as (Hoff & Hnum & Hne & Hfa & Hrest).
      rewrite <- Ho1, <- Ho2. repeat split; try assumption. apply IH. exact Hrest.
Qed.

Lemma lay_len : forall skip leads segs k i, lay skip leads segs k i -> Zlen leads = Zlen segs.
Proof.
  intros skip. induction leads as [|l leads IH]; intros segs k i H; destruct segs as [|sl ss]; cbn [lay] in H; try contradiction.
  - reflexivity.
  - rewrite !Proofs_Disk.Zlen_cons. destruct (skip l).
    + destruct H as (_ & H). rewrite (IH _ _ _ H). reflexivity.
    + destruct H as (_ & _ & _ & _ & H). rewrite (IH _ _ _ H). reflexivity.
Qed.

Lemma lay_all_skipped : forall skip leads k i,
  Forall (fun l => skip l = true) leads -> lay skip leads (map (fun _ => []) leads) k i.
Proof.
  intros skip leads k i H. revert i. induction H as [|l leads Hl H IH]; intros i; cbn [map lay]; [exact I|].
  rewrite Hl. split; [reflexivity|apply IH].
Qed.

Lemma concat_map_nil : forall A B (l : list A), concat (map (fun _ => @nil B) l) = [].
Proof. intros A B l. induction l as [|x l IH]; [reflexivity|exact IH]. Qed.

Lemma lay_nil_leads : forall skip segs k i, lay skip [] segs k i -> segs = [].
Proof. intros skip segs k i H. destruct segs; [reflexivity|contradiction]. Qed.

(* queue_inv gives a layout; the whole queue is the concatenation of the slices *)
Lemma queue_lay : forall isput maxid leads reqs, queue_inv isput maxid leads reqs ->
  exists segs, reqs = concat segs /\ lay noskip leads segs 0 0 /\
               Forall2 (fun l sl => lead_reqs reqs l = sl) leads segs.
Proof.
  intros isput maxid leads reqs (_ & _ & Hs & _ & _).
  destruct (slices_lay leads reqs [] reqs 0 eq_refl Hs) as (segs & Hc & Hl).
  exists segs. split; [exact Hc|]. split; [exact Hl|].
  pose proof (lay_lead_reqs noskip leads segs [] 0 Hl) as HF. cbn [app] in HF. rewrite <- Hc in HF.
  eapply w_F2_impl; [|exact HF]. intros l sl _ _ Hx. apply Hx. reflexivity.
Qed.

(* ====================================================================== *)
(* 2. flagging: closed forms                                               *)
(* ====================================================================== *)
Definition flagged_of (l l2 : lead) : Prop := exists stt, l2 = l_set_flag l true stt.

Lemma flag_all_F2 : forall leads, Forall2 flagged_of leads (flag_all leads).
Proof.
  intros leads. unfold flag_all. apply w_F2_map_r. intros l _. exists (l_status l). reflexivity.
Qed.

Lemma flag_all_status_F2 : forall leads i, Forall2 flagged_of leads (flag_all_status leads i).
Proof.
  induction leads as [|l leads IH]; intros i; cbn [flag_all_status]; constructor.
  - exists (Some i). reflexivity.
  - apply IH.
Qed.

Lemma flag_all_status_nth : forall leads i l' k,
  In l' (flag_all_status leads i) -> l_status l' = Some k ->
  i <= k < i + Zlen leads /\ l_id (znth leads (k - i) dummy_lead) = l_id l'.
Proof.
  induction leads as [|l leads IH]; intros i l' k Hin Hst; cbn [flag_all_status] in Hin; [destruct Hin|].
  rewrite Proofs_Disk.Zlen_cons. pose proof (Proofs_Disk.Zlen_nonneg leads) as Hn.
  destruct Hin as [<-|Hin].
  - cbn in Hst. inversion Hst; subst k. split; [lia|].
    replace (i - i) with 0 by lia. reflexivity.
  - destruct (IH (i + 1) l' k Hin Hst) as (Hk & Hid). split; [lia|].
    cbn [znth]. destruct (k - i =? 0) eqn:E; [lia|].
    replace (k - i - 1) with (k - (i + 1)) by lia. exact Hid.
Qed.

(* one step of the first loop, on one lead *)
Definition flag1 (x : Z) (stt : option Z) (l : lead) : lead :=
  if negb (l_to_free l) && (l_id l =? x) then l_set_flag l true stt else l.

Lemma flag1_id : forall x stt l, l_id (flag1 x stt l) = l_id l.
Proof. intros x stt l. unfold flag1. destruct (negb (l_to_free l) && (l_id l =? x)); reflexivity. Qed.

Lemma map_flag1_other : forall x stt r, (forall l0, In l0 r -> l_id l0 <> x) -> map (flag1 x stt) r = r.
Proof.
  intros x stt r H. induction r as [|l r IH]; [reflexivity|]. cbn [map].
  rewrite IH by (intros l0 Hl0; apply H; right; exact Hl0).
  unfold flag1. assert (Hl : l_id l <> x) by (apply H; left; reflexivity).
  destruct (l_id l =? x) eqn:E; [lia|]. rewrite andb_false_r. reflexivity.
Qed.

Lemma flag_first_map : forall ll x stt ll' n,
  NoDup (map l_id ll) -> flag_first ll x stt = Some (ll', n) ->
  ll' = map (flag1 x stt) ll /\
  exists l, In l ll /\ l_to_free l = false /\ l_id l = x /\ n = l_nonlead_num l.
Proof.
  induction ll as [|l r IH]; intros x stt ll' n Hnd H; cbn [flag_first] in H; [discriminate|].
  cbn [map] in Hnd. apply NoDup_cons_iff in Hnd. destruct Hnd as [Hl Hnd].
  destruct (negb (l_to_free l) && (l_id l =? x)) eqn:E.
  - inversion H; subst ll' n. clear H.
    assert (Hid : l_id l = x) by lia. assert (Hf : l_to_free l = false) by (destruct (l_to_free l); [discriminate|reflexivity]).
    split.
    + cbn [map]. unfold flag1 at 1. rewrite E. f_equal. symmetry. apply map_flag1_other.
      intros l0 Hl0 E0. apply Hl. rewrite Hid, <- E0. apply in_map. exact Hl0.
    + exists l. split; [left; reflexivity|]. repeat split; assumption.
  - destruct (flag_first r x stt) as [[r' n']|] eqn:Er; [|discriminate].
    inversion H; subst ll' n. clear H.
    destruct (IH x stt r' n' Hnd Er) as (Hm & l0 & Hin & Hrest).
    split.
    + cbn [map]. unfold flag1 at 1. rewrite E. rewrite <- Hm. reflexivity.
    + exists l0. split; [right; exact Hin|exact Hrest].
Qed.

(* the first loop of the subset path restricted to one queue: sel picks the ids of the queue *)
Fixpoint mark_list (sel : Z -> bool) (ids : list Z) (i : Z) (hs : bool) (ll : list lead)
  : option (list lead * Z * Z) :=
  match ids with
  | [] => Some (ll, 0, 0)
  | x :: r =>
      if sel x then
        match flag_first ll x (if hs then Some i else None) with
        | Some (ll', n) =>
            match mark_list sel r (i + 1) hs ll' with
            | Some (l2, c, s) => Some (l2, c + 1, s + n)
            | None => None
            end
        | None => None
        end
      else mark_list sel r (i + 1) hs ll
  end.

Fixpoint mark_lead (sel : Z -> bool) (ids : list Z) (i : Z) (hs : bool) (l : lead) : lead :=
  match ids with
  | [] => l
  | x :: r => mark_lead sel r (i + 1) hs (if sel x then flag1 x (if hs then Some i else None) l else l)
  end.

Definition selp (x : Z) : bool := negb (x =? NC_REQ_NULL) && (Z.rem x 2 =? 0).
Definition selg (x : Z) : bool := negb (x =? NC_REQ_NULL) && negb (Z.rem x 2 =? 0).

Lemma mark_list_map : forall sel ids i hs ll ll1 c s,
  NoDup (map l_id ll) -> mark_list sel ids i hs ll = Some (ll1, c, s) ->
  ll1 = map (mark_lead sel ids i hs) ll.
Proof.
  intros sel. induction ids as [|x r IH]; intros i hs ll ll1 c s Hnd H; cbn [mark_list] in H.
  - inversion H; subst. cbn [mark_lead]. symmetry. apply map_id.
  - destruct (sel x) eqn:Hsel.
    + destruct (flag_first ll x (if hs then Some i else None)) as [[ll' n]|] eqn:Ef; [|discriminate].
      destruct (mark_list sel r (i + 1) hs ll') as [[[l2 c2] s2]|] eqn:Em; [|discriminate].
      inversion H; subst ll1 c s. clear H.
      destruct (flag_first_map _ _ _ _ _ Hnd Ef) as (Hm & _).
      assert (Hnd' : NoDup (map l_id ll')).
      { rewrite Hm, map_map. erewrite map_ext; [exact Hnd|]. intros a. apply flag1_id. }
      rewrite (IH _ _ _ _ _ _ Hnd' Em), Hm, map_map.
      apply map_ext. intros a. cbn [mark_lead]. rewrite Hsel. reflexivity.
    + rewrite (IH _ _ _ _ _ _ Hnd H). apply map_ext. intros a. cbn [mark_lead]. rewrite Hsel. reflexivity.
Qed.

(* ---- mark_lead on one lead ---- *)
Lemma mark_lead_flagged : forall sel ids i hs l, l_to_free l = true -> mark_lead sel ids i hs l = l.
Proof.
  intros sel. induction ids as [|x r IH]; intros i hs l Hl; cbn [mark_lead]; [reflexivity|].
  assert (E : (if sel x then flag1 x (if hs then Some i else None) l else l) = l).
  { destruct (sel x); [|reflexivity]. unfold flag1. rewrite Hl. reflexivity. }
  rewrite E. apply IH. exact Hl.
Qed.

Lemma mark_lead_shape : forall sel ids i hs l,
  mark_lead sel ids i hs l = l \/ exists stt, mark_lead sel ids i hs l = l_set_flag l true stt.
Proof.
  intros sel. induction ids as [|x r IH]; intros i hs l; cbn [mark_lead]; [left; reflexivity|].
  destruct (sel x); [|apply IH]. unfold flag1.
  destruct (negb (l_to_free l) && (l_id l =? x)); [|apply IH].
  right. exists (if hs then Some i else None). apply mark_lead_flagged. reflexivity.
Qed.

Lemma mark_lead_same : forall sel ids i hs l, lead_same l (mark_lead sel ids i hs l).
Proof.
  intros sel ids i hs l. destruct (mark_lead_shape sel ids i hs l) as [->|(stt & ->)].
  - apply lead_same_refl.
  - apply lead_same_set_flag.
Qed.

Lemma mark_lead_off : forall sel ids i hs l, l_nonlead_off (mark_lead sel ids i hs l) = l_nonlead_off l.
Proof.
  intros sel ids i hs l. destruct (mark_lead_shape sel ids i hs l) as [->|(stt & ->)]; reflexivity.
Qed.

Lemma mark_lead_id : forall sel ids i hs l, l_id (mark_lead sel ids i hs l) = l_id l.
Proof. intros. symmetry. apply lead_same_id. apply mark_lead_same. Qed.

Lemma mark_lead_reqs : forall sel ids i hs reqs l, lead_reqs reqs (mark_lead sel ids i hs l) = lead_reqs reqs l.
Proof.
  intros. unfold lead_reqs. rewrite mark_lead_off.
  pose proof (mark_lead_same sel ids i hs l) as (_ & _ & _ & Hn & _). rewrite <- Hn. reflexivity.
Qed.

Lemma mark_lead_to_free : forall sel ids i hs l,
  l_to_free (mark_lead sel ids i hs l) = l_to_free l || existsb (fun x => sel x && (l_id l =? x)) ids.
Proof.
  intros sel. induction ids as [|x r IH]; intros i hs l; cbn [mark_lead existsb].
  - rewrite orb_false_r. reflexivity.
  - rewrite IH. clear IH. destruct (sel x); cbn [andb]; [|reflexivity].
    rewrite flag1_id. unfold flag1. destruct (l_to_free l) eqn:Hf; cbn [negb andb].
    + rewrite Hf. reflexivity.
    + destruct (l_id l =? x); cbn [orb]; [reflexivity|]. rewrite Hf. reflexivity.
Qed.

Lemma mark_lead_nosel : forall sel ids i hs l, filter sel ids = [] -> mark_lead sel ids i hs l = l.
Proof.
  intros sel. induction ids as [|x r IH]; intros i hs l H; cbn [mark_lead]; [reflexivity|].
  cbn [filter] in H. destruct (sel x); [discriminate|]. apply IH. exact H.
Qed.

(* the status pointer of a lead flagged by this loop is the slot of the position naming it *)
Lemma mark_lead_status : forall sel ids i l k,
  l_to_free l = false -> l_to_free (mark_lead sel ids i true l) = true ->
  l_status (mark_lead sel ids i true l) = Some k ->
  i <= k < i + Zlen ids /\ znth ids (k - i) NC_REQ_NULL = l_id l.
Proof.
  intros sel. induction ids as [|x r IH]; intros i l k Hl Hf Hst; cbn [mark_lead] in *.
  - congruence.
  - rewrite Proofs_Disk.Zlen_cons. pose proof (Proofs_Disk.Zlen_nonneg r) as Hn.
    assert (Hcase : (sel x = true /\ l_id l = x /\
                     (if sel x then flag1 x (Some i) l else l) = l_set_flag l true (Some i)) \/
                    (if sel x then flag1 x (Some i) l else l) = l).
    { destruct (sel x); [|right; reflexivity]. unfold flag1. rewrite Hl. cbn [negb andb].
      destruct (l_id l =? x) eqn:E; [left|right; reflexivity]. repeat split. lia. }
    destruct Hcase as [(Hs & Hid & E)|E]; rewrite E in *.
    + rewrite mark_lead_flagged in Hst by reflexivity. cbn in Hst. inversion Hst; subst k.
      split; [lia|]. replace (i - i) with 0 by lia. cbn [znth]. symmetry. exact Hid.
    + destruct (IH (i + 1) l k Hl Hf Hst) as (Hk & Hz). split; [lia|].
      cbn [znth]. destruct (k - i =? 0) eqn:E0; [lia|].
      replace (k - i - 1) with (k - (i + 1)) by lia. exact Hz.
Qed.

Lemma mark_lead_status_nostat : forall sel ids i l,
  l_to_free l = false -> l_to_free (mark_lead sel ids i false l) = true ->
  l_status (mark_lead sel ids i false l) = None.
Proof.
  intros sel. induction ids as [|x r IH]; intros i l Hl Hf; cbn [mark_lead] in *.
  - congruence.
  - destruct (sel x); [|apply IH; assumption]. unfold flag1 in *. rewrite Hl in *. cbn [negb andb] in *.
    destruct (l_id l =? x); [|apply IH; assumption].
    rewrite mark_lead_flagged by reflexivity. reflexivity.
Qed.

(* ---- success of mark_list ---- *)
Lemma mark_list_pending : forall sel ids i hs ll ll1 c s,
  NoDup (map l_id ll) -> mark_list sel ids i hs ll = Some (ll1, c, s) ->
  (forall x, In x ids -> sel x = true -> exists l, In l ll /\ l_id l = x /\ l_to_free l = false) /\
  NoDup (filter sel ids) /\ c = Zlen (filter sel ids) /\
  (Forall (fun l => 0 < l_nonlead_num l) ll -> c <= s).
Proof.
  intros sel. induction ids as [|x r IH]; intros i hs ll ll1 c s Hnd H; cbn [mark_list] in H.
  - inversion H; subst. cbn [filter]. split; [intros x []|]. split; [constructor|]. split; [reflexivity|]. intros _. lia.
  - cbn [filter]. destruct (sel x) eqn:Hsel.
    + destruct (flag_first ll x (if hs then Some i else None)) as [[ll' n]|] eqn:Ef; [|discriminate].
      destruct (mark_list sel r (i + 1) hs ll') as [[[l2 c2] s2]|] eqn:Em; [|discriminate].
      inversion H; subst ll1 c s. clear H.
      destruct (flag_first_map _ _ _ _ _ Hnd Ef) as (Hm & l & Hlin & Hlf & Hlid & Hln).
      assert (Hnd' : NoDup (map l_id ll')).
      { rewrite Hm, map_map. erewrite map_ext; [exact Hnd|]. intros a. apply flag1_id. }
      destruct (IH _ _ _ _ _ _ Hnd' Em) as (Hp & Hnd2 & Hc & Hs).
      assert (Hback : forall y, In y r -> sel y = true -> exists l0, In l0 ll /\ l_id l0 = y /\ l_to_free l0 = false /\ flag1 x (if hs then Some i else None) l0 = l0).
      { intros y Hy Hsy. destruct (Hp y Hy Hsy) as (l0 & Hl0 & Hid0 & Hf0).
        rewrite Hm in Hl0. apply in_map_iff in Hl0. destruct Hl0 as (l1 & E1 & Hl1).
        unfold flag1 in E1. destruct (negb (l_to_free l1) && (l_id l1 =? x)) eqn:E.
        - subst l0. discriminate Hf0.
        - subst l0. exists l1. repeat split; try assumption. unfold flag1. rewrite E. reflexivity. }
      split; [|split; [|split]].
      * intros y [<-|Hy] Hsy.
        -- exists l. repeat split; assumption.
        -- destruct (Hback y Hy Hsy) as (l0 & Hl0 & Hid0 & Hf0 & _). exists l0. repeat split; assumption.
      * constructor; [|exact Hnd2]. intros Hin. apply filter_In in Hin. destruct Hin as (Hxr & _).
        destruct (Hback x Hxr Hsel) as (l0 & Hl0 & Hid0 & Hf0 & Hfix).
        unfold flag1 in Hfix. rewrite Hf0 in Hfix. cbn [negb andb] in Hfix.
        destruct (l_id l0 =? x) eqn:E; [|lia].
        rewrite <- Hfix in Hf0. discriminate Hf0.
      * rewrite Proofs_Disk.Zlen_cons, Hc. reflexivity.
      * intros Hpos. assert (Hn : 0 < n).
        { subst n. rewrite Forall_forall in Hpos. apply Hpos. exact Hlin. }
        assert (Hpos' : Forall (fun l => 0 < l_nonlead_num l) ll').
        { rewrite Hm. rewrite Forall_forall in *. intros l1 Hl1. apply in_map_iff in Hl1.
          destruct Hl1 as (l0 & <- & Hl0). specialize (Hpos l0 Hl0). unfold flag1.
          destruct (negb (l_to_free l0) && (l_id l0 =? x)); exact Hpos. }
        specialize (Hs Hpos'). lia.
    + destruct (IH _ _ _ _ _ _ Hnd H) as (Hp & Hnd2 & Hc & Hs).
      split; [|split; [|split]]; try assumption.
      intros y [<-|Hy] Hsy; [congruence|]. apply Hp; assumption.
Qed.

(* ---- ex_mark is the two one-queue loops ---- *)
Lemma noerr_sticky : forall e, e <> NC_NOERR -> (if e =? NC_NOERR then NC_EINVAL_REQUEST else e) <> NC_NOERR.
Proof.
  intros e He. destruct (e =? NC_NOERR) eqn:E; [|exact He]. unfold NC_EINVAL_REQUEST, NC_NOERR. lia.
Qed.

Lemma noerr_sticky_or : forall e, (if e =? NC_NOERR then NC_EINVAL_REQUEST else e) <> NC_NOERR.
Proof.
  intros e. destruct (e =? NC_NOERR) eqn:E; [unfold NC_EINVAL_REQUEST, NC_NOERR; lia|lia].
Qed.

Lemma ex_mark_err_sticky : forall ids i hs pl gl stat nwl nwr nrl nrr err,
  err <> NC_NOERR ->
  snd (ex_mark ids i hs pl gl stat nwl nwr nrl nrr err) <> NC_NOERR.
Proof.
  induction ids as [|x r IH]; intros i hs pl gl stat nwl nwr nrl nrr err He; cbn [ex_mark].
  - exact He.
  - destruct (x =? NC_REQ_NULL); [apply IH; exact He|].
    destruct (Z.rem x 2 =? 0).
    + destruct (flag_first pl x (if hs then Some i else None)) as [[pl' n]|]; apply IH; [exact He|].
      apply noerr_sticky. exact He.
    + destruct (flag_first gl x (if hs then Some i else None)) as [[gl' n]|]; apply IH; [exact He|].
      apply noerr_sticky. exact He.
Qed.

Lemma ex_mark_spec : forall ids i hs pl gl stat nwl nwr nrl nrr err pl1 gl1 stat1 nwl1 nwr1 nrl1 nrr1,
  ex_mark ids i hs pl gl stat nwl nwr nrl nrr err = (pl1, gl1, stat1, nwl1, nwr1, nrl1, nrr1, NC_NOERR) ->
  err = NC_NOERR /\
  exists c1 s1 c2 s2,
    mark_list selp ids i hs pl = Some (pl1, c1, s1) /\ mark_list selg ids i hs gl = Some (gl1, c2, s2) /\
    nwl1 = nwl + c1 /\ nwr1 = nwr + s1 /\ nrl1 = nrl + c2 /\ nrr1 = nrr + s2.
Proof.
  induction ids as [|x r IH]; intros i hs pl gl stat nwl nwr nrl nrr err pl1 gl1 stat1 nwl1 nwr1 nrl1 nrr1 H;
    cbn [ex_mark mark_list] in *.
  - inversion H; subst. split; [reflexivity|]. exists 0, 0, 0, 0. repeat split; lia.
  - unfold selp at 1, selg at 1. destruct (x =? NC_REQ_NULL) eqn:Enull; cbn [negb andb].
    + apply IH in H. exact H.
    + destruct (Z.rem x 2 =? 0) eqn:Epar; cbn [negb].
      * destruct (flag_first pl x (if hs then Some i else None)) as [[pl' n]|] eqn:Ef.
        -- apply IH in H. destruct H as (He & c1 & s1 & c2 & s2 & H1 & H2 & H3 & H4 & H5 & H6).
           split; [exact He|]. rewrite H1. exists (c1 + 1), (s1 + n), c2, s2.
           repeat split; try assumption; lia.
        -- exfalso.
           assert (Hne : (if err =? NC_NOERR then NC_EINVAL_REQUEST else err) <> NC_NOERR).
           { destruct (err =? NC_NOERR) eqn:E; [unfold NC_EINVAL_REQUEST, NC_NOERR; lia|lia]. }
           pose proof (ex_mark_err_sticky r (i + 1) hs pl gl
                         (if hs then zupd stat i NC_EINVAL_REQUEST else stat) nwl nwr nrl nrr _ Hne) as Hs.
           rewrite H in Hs. apply Hs. reflexivity.
      * destruct (flag_first gl x (if hs then Some i else None)) as [[gl' n]|] eqn:Ef.
        -- apply IH in H. destruct H as (He & c1 & s1 & c2 & s2 & H1 & H2 & H3 & H4 & H5 & H6).
           split; [exact He|]. rewrite H2. exists c1, s1, (c2 + 1), (s2 + n).
           repeat split; try assumption; lia.
        -- exfalso.
           assert (Hne : (if err =? NC_NOERR then NC_EINVAL_REQUEST else err) <> NC_NOERR).
           { destruct (err =? NC_NOERR) eqn:E; [unfold NC_EINVAL_REQUEST, NC_NOERR; lia|lia]. }
           pose proof (ex_mark_err_sticky r (i + 1) hs pl gl
                         (if hs then zupd stat i NC_EINVAL_REQUEST else stat) nwl nwr nrl nrr _ Hne) as Hs.
           rewrite H in Hs. apply Hs. reflexivity.
Qed.

(* statuses written by a successful first loop *)
Lemma ex_mark_stat : forall ids i pl gl stat nwl nwr nrl nrr err pl1 gl1 stat1 nwl1 nwr1 nrl1 nrr1,
  ex_mark ids i true pl gl stat nwl nwr nrl nrr err = (pl1, gl1, stat1, nwl1, nwr1, nrl1, nrr1, NC_NOERR) ->
  0 <= i ->
  Zlen stat1 = Zlen stat /\
  (forall k, i <= k < i + Zlen ids -> k < Zlen stat -> znth stat1 k 0 = NC_NOERR) /\
  (forall k, k < i -> znth stat1 k 0 = znth stat k 0).
Proof.
  induction ids as [|x r IH]; intros i pl gl stat nwl nwr nrl nrr err pl1 gl1 stat1 nwl1 nwr1 nrl1 nrr1 H Hi;
    cbn [ex_mark] in H.
  - inversion H; subst. split; [reflexivity|]. split; [|reflexivity].
    intros k Hk. rewrite Proofs_Disk.Zlen_nil in Hk. lia.
  - rewrite Proofs_Disk.Zlen_cons. pose proof (Proofs_Disk.Zlen_nonneg r) as Hn.
    assert (Hgood : forall pl' gl' a b c d e,
              ex_mark r (i + 1) true pl' gl' (zupd stat i NC_NOERR) a b c d e
                = (pl1, gl1, stat1, nwl1, nwr1, nrl1, nrr1, NC_NOERR) ->
              Zlen stat1 = Zlen stat /\
              (forall k, i <= k < i + (Zlen r + 1) -> k < Zlen stat -> znth stat1 k 0 = NC_NOERR) /\
              (forall k, k < i -> znth stat1 k 0 = znth stat k 0)).
    { intros pl' gl' a b c d e H'. apply IH in H'; [|lia]. destruct H' as (Hl & Hin & Hout).
      rewrite w_Zlen_zupd in Hl, Hin. split; [exact Hl|]. split.
      - intros k Hk Hks. destruct (Z.eq_dec k i) as [->|Hne].
        + rewrite Hout by lia. apply w_znth_zupd_same. lia.
        + apply Hin; lia.
      - intros k Hk. rewrite Hout by lia. apply w_znth_zupd_other. lia. }
    assert (Hbad : forall e0, e0 <> NC_NOERR ->
              ex_mark r (i + 1) true pl gl (zupd stat i NC_EINVAL_REQUEST) nwl nwr nrl nrr e0
                = (pl1, gl1, stat1, nwl1, nwr1, nrl1, nrr1, NC_NOERR) -> False).
    { intros e0 He0 H'. pose proof (ex_mark_err_sticky r (i + 1) true pl gl (zupd stat i NC_EINVAL_REQUEST) nwl nwr nrl nrr e0 He0) as Hs.
      rewrite H' in Hs. apply Hs. reflexivity. }
    destruct (x =? NC_REQ_NULL); [eapply Hgood; exact H|].
    destruct (Z.rem x 2 =? 0).
    + destruct (flag_first pl x (Some i)) as [[pl' n]|]; [eapply Hgood; exact H|].
      exfalso. eapply Hbad; [|exact H]. apply noerr_sticky_or.
    + destruct (flag_first gl x (Some i)) as [[gl' n]|]; [eapply Hgood; exact H|].
      exfalso. eapply Hbad; [|exact H]. apply noerr_sticky_or.
Qed.

(* ---- the second loop ---- *)
Definition copy_one (sel : Z -> bool) (ll : list lead) (reqs : list req) (x : Z) : list req :=
  if sel x then match find_flagged ll x with
                | Some l => slice reqs (l_nonlead_off l) (l_nonlead_num l)
                | None => []
                end
  else [].
Definition reset_one (pl gl : list lead) (x : Z) : Z :=
  if x =? NC_REQ_NULL then x
  else if Z.rem x 2 =? 0 then match find_flagged pl x with Some _ => NC_REQ_NULL | None => x end
  else match find_flagged gl x with Some _ => NC_REQ_NULL | None => x end.

Lemma ex_copy_spec : forall ids pl gl pr gr,
  ex_copy ids pl gl pr gr =
  (map (reset_one pl gl) ids, flat_map (copy_one selp pl pr) ids, flat_map (copy_one selg gl gr) ids).
Proof.
  induction ids as [|x r IH]; intros pl gl pr gr; cbn [ex_copy map flat_map]; [reflexivity|].
  rewrite IH.
  set (T1 := map (reset_one pl gl) r). set (T2 := flat_map (copy_one selp pl pr) r).
  set (T3 := flat_map (copy_one selg gl gr) r).
  unfold copy_one, reset_one, selp, selg.
  destruct (x =? NC_REQ_NULL); cbn [negb andb app]; [reflexivity|].
  destruct (Z.rem x 2 =? 0); cbn [negb app].
  - destruct (find_flagged pl x); reflexivity.
  - destruct (find_flagged gl x); reflexivity.
Qed.

Lemma find_flagged_In : forall ll l, NoDup (map l_id ll) -> In l ll -> l_to_free l = true ->
  find_flagged ll (l_id l) = Some l.
Proof.
  induction ll as [|l0 r IH]; intros l Hnd Hin Hf; [destruct Hin|].
  cbn [map] in Hnd. apply NoDup_cons_iff in Hnd. destruct Hnd as [Hl0 Hnd]. cbn [find_flagged].
  destruct Hin as [->|Hin].
  - rewrite Hf, Z.eqb_refl. reflexivity.
  - destruct (l_to_free l0 && (l_id l0 =? l_id l)) eqn:E.
    + exfalso. apply Hl0. assert (E' : l_id l0 = l_id l) by lia. rewrite E'. apply in_map. exact Hin.
    + apply IH; assumption.
Qed.

Lemma find_flagged_Some : forall ll x l, find_flagged ll x = Some l -> In l ll /\ l_to_free l = true /\ l_id l = x.
Proof.
  induction ll as [|l0 r IH]; intros x l H; cbn [find_flagged] in H; [discriminate|].
  destruct (l_to_free l0 && (l_id l0 =? x)) eqn:E.
  - inversion H; subst l0. split; [left; reflexivity|]. split; [|lia].
    destruct (l_to_free l); [reflexivity|discriminate].
  - destruct (IH x l H) as (Hin & Hrest). split; [right; exact Hin|exact Hrest].
Qed.

(* ====================================================================== *)
(* 3. coalesce_nonlead, compact_leads on layouts                           *)
(* ====================================================================== *)
Fixpoint kept_segs (leads : list lead) (segs : list (list req)) : list (list req) :=
  match leads, segs with
  | l :: r, sl :: ss => (if l_to_free l then [] else sl) :: kept_segs r ss
  | _, _ => []
  end.

Definition co_rel (l l' : lead) : Prop := if l_to_free l then l' = l else exists k, l' = l_set_off l k.

Lemma co_rel_same : forall l l', co_rel l l' ->
  lead_same l l' /\ l_to_free l' = l_to_free l /\ l_status l' = l_status l.
Proof.
  intros l l' H. unfold co_rel in H. destruct (l_to_free l) eqn:Hf.
  - subst l'. split; [apply lead_same_refl|]. split; [exact Hf|reflexivity].
  - destruct H as (k & ->). split; [apply lead_same_set_off|]. split; [exact Hf|reflexivity].
Qed.

Lemma coalesce_lay : forall leads segs reqs kold i k0 ls rs,
  lay noskip leads segs kold i ->
  Forall2 (fun l sl => lead_reqs reqs l = sl) leads segs ->
  coalesce_nonlead leads reqs k0 = (ls, rs) ->
  rs = concat (kept_segs leads segs) /\ lay l_to_free ls (kept_segs leads segs) k0 i /\
  Forall2 co_rel leads ls.
Proof.
  induction leads as [|l leads IH]; intros segs reqs kold i k0 ls rs Hl HF Hc;
    destruct segs as [|sl ss]; cbn [lay] in Hl; try contradiction; cbn [coalesce_nonlead] in Hc.
  - inversion Hc; subst. cbn [kept_segs concat lay]. repeat split. constructor.
  - unfold noskip at 1 in Hl. cbv iota in Hl. destruct Hl as (Hoff & Hnum & Hne & Hfa & Hrest).
    inversion HF as [|x y a b Hxy Hab]; subst. cbn [kept_segs].
    destruct (l_to_free l) eqn:Hf.
    + destruct (coalesce_nonlead leads reqs k0) as [ls' rs'] eqn:Ec. inversion Hc; subst ls rs. clear Hc.
      destruct (IH _ _ _ _ _ _ _ Hrest Hab Ec) as (H1 & H2 & H3).
      split; [cbn [concat app]; exact H1|]. split.
      * cbn [lay]. rewrite Hf. split; [reflexivity|exact H2].
      * constructor; [|exact H3]. unfold co_rel. rewrite Hf. reflexivity.
    + destruct (coalesce_nonlead leads reqs (k0 + l_nonlead_num l)) as [ls' rs'] eqn:Ec.
      inversion Hc; subst ls rs. clear Hc.
      destruct (IH _ _ _ _ _ _ _ Hrest Hab Ec) as (H1 & H2 & H3).
      split; [cbn [concat]; rewrite <- H1; reflexivity|]. split.
      * cbn [lay]. change (l_to_free (l_set_off l k0)) with (l_to_free l). rewrite Hf.
        change (l_nonlead_off (l_set_off l k0)) with k0.
        change (l_nonlead_num (l_set_off l k0)) with (l_nonlead_num l).
        split; [reflexivity|]. split; [exact Hnum|]. split; [exact Hne|]. split; [exact Hfa|].
        rewrite <- Hnum. exact H2.
      * constructor; [|exact H3]. unfold co_rel. rewrite Hf. exists k0. reflexivity.
Qed.

Lemma kept_segs_len : forall leads segs, Zlen leads = Zlen segs -> Zlen (kept_segs leads segs) = Zlen leads.
Proof.
  induction leads as [|l leads IH]; intros segs H; destruct segs as [|sl ss]; cbn [kept_segs]; try reflexivity.
  - rewrite Proofs_Disk.Zlen_cons, Proofs_Disk.Zlen_nil in H. pose proof (Proofs_Disk.Zlen_nonneg leads). lia.
  - rewrite !Proofs_Disk.Zlen_cons in *. rewrite IH; lia.
Qed.

(* the segments of the kept leads are unchanged *)
Lemma kept_segs_F2 : forall (P : lead -> list req -> Prop) leads ls segs,
  Forall2 co_rel leads ls -> Forall2 P leads segs ->
  Forall2 (fun l' sl => l_to_free l' = false -> exists l, In l leads /\ co_rel l l' /\ P l sl) ls (kept_segs leads segs).
Proof.
  intros P leads ls segs H. revert segs.
  induction H as [|l l' leads ls Hll H IH]; intros segs HP; inversion HP as [|x y a b Hxy Hab]; subst; cbn [kept_segs]; constructor.
  - intros Hf. exists l. split; [left; reflexivity|]. split; [exact Hll|].
    destruct (co_rel_same _ _ Hll) as (_ & Hf' & _). rewrite Hf in Hf'. rewrite <- Hf'. exact Hxy.
  - eapply w_F2_impl; [|apply IH; exact Hab].
    intros l2 sl _ _ Hx Hf. destruct (Hx Hf) as (l0 & Hin & Hrest). exists l0. split; [right; exact Hin|exact Hrest].
Qed.

(* ---- compaction ---- *)
Definition kept (leads : list lead) : list lead := filter (fun l => negb (l_to_free l)) leads.

Fixpoint compact_segs (leads : list lead) (segs : list (list req)) (i j : Z) : list (list req) :=
  match leads, segs with
  | l :: r, sl :: ss =>
      if l_to_free l then compact_segs r ss (i + 1) j
      else (if j <? i then map (fun q => r_set_lead q j) sl else sl) :: compact_segs r ss (i + 1) (j + 1)
  | _, _ => []
  end.

Lemma set_lead_range_app : forall pre sl post j,
  set_lead_range (pre ++ sl ++ post) (Zlen pre) (Zlen sl) j = pre ++ map (fun q => r_set_lead q j) sl ++ post.
Proof.
  intros pre sl post j. unfold set_lead_range.
  rewrite w_zfirstn_app_exact, w_slice_app.
  replace (Zlen pre + Zlen sl) with (Zlen (pre ++ sl)) by apply Proofs_Disk.Zlen_app.
  rewrite (app_assoc pre sl post), w_zskipn_app_exact. reflexivity.
Qed.

Lemma compact_lay : forall leads segs pre i j,
  lay l_to_free leads segs (Zlen pre) i -> j <= i ->
  compact_leads leads (pre ++ concat segs) i j = (kept leads, pre ++ concat (compact_segs leads segs i j)) /\
  lay noskip (kept leads) (compact_segs leads segs i j) (Zlen pre) j.
Proof.
  induction leads as [|l leads IH]; intros segs pre i j Hl Hji;
    destruct segs as [|sl ss]; cbn [lay] in Hl; try contradiction; cbn [compact_leads compact_segs kept filter].
  - split; [reflexivity|exact I].
  - fold (kept leads). destruct (l_to_free l) eqn:Hf; cbn [negb].
    + destruct Hl as (-> & Hrest). cbn [concat app]. apply IH; [exact Hrest|lia].
    + destruct Hl as (Hoff & Hnum & Hne & Hfa & Hrest).
      set (sl' := if j <? i then map (fun q => r_set_lead q j) sl else sl).
      assert (Hlen' : Zlen sl' = Zlen sl).
      { unfold sl'. destruct (j <? i); [apply Proofs_Disk.Zlen_map|reflexivity]. }
      assert (Hreqs : (if j <? i then set_lead_range (pre ++ concat (sl :: ss)) (l_nonlead_off l) (l_nonlead_num l) j
                       else pre ++ concat (sl :: ss)) = (pre ++ sl') ++ concat ss).
      { unfold sl'. cbn [concat]. destruct (j <? i).
        - rewrite Hoff, Hnum, set_lead_range_app, app_assoc. reflexivity.
        - rewrite app_assoc. reflexivity. }
      rewrite Hreqs.
      assert (Hrest' : lay l_to_free leads ss (Zlen (pre ++ sl')) (i + 1)).
      { rewrite Proofs_Disk.Zlen_app, Hlen'. exact Hrest. }
      destruct (IH ss (pre ++ sl') (i + 1) (j + 1) Hrest' ltac:(lia)) as (Hc & Hlay).
      rewrite Hc. split.
      * cbn [concat]. rewrite <- app_assoc. reflexivity.
      * cbn [lay]. unfold noskip at 1. cbv iota. fold sl'.
        split; [exact Hoff|]. split; [rewrite Hlen'; exact Hnum|].
        split. { intros E. apply Hne. apply Proofs_Disk.Zlen_zero_nil. rewrite <- Hlen', E. reflexivity. }
        split.
        { unfold sl'. destruct (j <? i) eqn:E.
          - apply Forall_forall. intros q Hq. apply in_map_iff in Hq. destruct Hq as (q0 & <- & _). reflexivity.
          - assert (j = i) by lia. subst j. exact Hfa. }
        rewrite Proofs_Disk.Zlen_app in Hlay. exact Hlay.
Qed.

(* a property of (lead, segment) that does not look at the back pointers survives compaction *)
Lemma compact_segs_F2 : forall (P : lead -> list req -> Prop) leads segs i j,
  (forall l sl k, P l sl -> P l (map (fun q => r_set_lead q k) sl)) ->
  Forall2 (fun l sl => l_to_free l = false -> P l sl) leads segs ->
  Forall2 P (kept leads) (compact_segs leads segs i j).
Proof.
  intros P leads segs i j HP H. revert i j.
  induction H as [|l sl leads segs Hlsl H IH]; intros i j; cbn [kept filter compact_segs]; [constructor|].
  fold (kept leads). destruct (l_to_free l) eqn:Hf; cbn [negb]; [apply IH|].
  constructor; [|apply IH]. destruct (j <? i); [apply HP|]; apply Hlsl; reflexivity.
Qed.

Lemma kept_unflagged : forall leads, Forall (fun l => l_to_free l = false) (kept leads).
Proof.
  intros leads. apply Forall_forall. intros l Hl. apply filter_In in Hl. destruct Hl as (_ & Hl).
  destruct (l_to_free l); [discriminate|reflexivity].
Qed.

Lemma kept_all : forall leads, Forall (fun l => l_to_free l = false) leads -> kept leads = leads.
Proof.
  intros leads H. apply w_filter_all_true. eapply Forall_impl; [|exact H].
  intros l Hl. cbn beta in *. rewrite Hl. reflexivity.
Qed.

Lemma lead_wf_seg_set_lead : forall isput l sl k,
  lead_wf_seg isput l sl -> lead_wf_seg isput l (map (fun q => r_set_lead q k) sl).
Proof.
  intros isput l sl k H. eapply lead_wf_seg_indep; [apply lead_same_refl| |exact H].
  rewrite map_map. apply map_ext. intros q. reflexivity.
Qed.

(* ====================================================================== *)
(* 4. what extract_reqs does to one queue                                  *)
(* ====================================================================== *)
Definition xrel (reqs reqs2 : list req) (l l2 : lead) : Prop :=
  lead_same l l2 /\ (l_to_free l2 = false -> lead_reqs reqs2 l2 = lead_reqs reqs l).

(* the slices (in the queue as it was) of the leads that are flagged afterwards *)
Definition zipflag (reqs : list req) (leads leads2 : list lead) : list req :=
  flat_map (fun p => if l_to_free (snd p) then lead_reqs reqs (fst p) else []) (zip leads leads2).

Definition side_ok (leads : list lead) (reqs : list req) (leads2 : list lead) (reqs2 ext : list req) (nl : Z) : Prop :=
  Forall2 (xrel reqs reqs2) leads leads2 /\
  Permutation ext (zipflag reqs leads leads2) /\
  nl = Zlen (flagged leads2) /\
  exists segs, reqs2 = concat segs /\ lay l_to_free leads2 segs 0 0.

Lemma zipflag_char : forall reqs (b : lead -> bool) leads leads2,
  Forall2 (fun l l2 => l_to_free l2 = b l) leads leads2 ->
  zipflag reqs leads leads2 = flat_map (fun l => if b l then lead_reqs reqs l else []) leads.
Proof.
  intros reqs b leads leads2 H. unfold zipflag. induction H as [|l l2 leads leads2 Hl H IH]; [reflexivity|].
  cbn [zip flat_map fst snd]. rewrite Hl, IH. reflexivity.
Qed.

Lemma flagged_len_F2 : forall l1 l2, Forall2 (fun a b : lead => l_to_free b = l_to_free a) l1 l2 ->
  Zlen (flagged l1) = Zlen (flagged l2).
Proof.
  intros l1 l2 H. unfold flagged. induction H as [|a b l1 l2 Hab H IH]; [reflexivity|].
  cbn [filter]. rewrite Hab. destruct (l_to_free a); [rewrite !Proofs_Disk.Zlen_cons, IH; reflexivity|exact IH].
Qed.

Lemma slices_ok_pos : forall leads reqs k i, slices_ok leads reqs k i -> Forall (fun l => 0 < l_nonlead_num l) leads.
Proof.
  induction leads as [|l leads IH]; intros reqs k i H; [constructor|].
  cbn [slices_ok] in H. destruct H as (_ & Hpos & _ & _ & Hrest). constructor; [exact Hpos|].
  eapply IH. exact Hrest.
Qed.

Lemma side_unchanged : forall isput maxid leads reqs,
  queue_inv isput maxid leads reqs -> side_ok leads reqs leads reqs [] 0.
Proof.
  intros isput maxid leads reqs Hq. pose proof Hq as (_ & _ & _ & _ & Hunf).
  destruct (queue_lay _ _ _ _ Hq) as (segs & Hc & Hl & _).
  split; [|split; [|split]].
  - apply w_F2_refl. intros l _. split; [apply lead_same_refl|reflexivity].
  - rewrite (zipflag_char reqs (fun _ => false)).
    + rewrite flat_map_nil_all. constructor.
    + apply w_F2_refl. intros l Hlin. rewrite Forall_forall in Hunf. apply Hunf. exact Hlin.
  - unfold flagged. rewrite w_filter_all_false by exact Hunf. reflexivity.
  - exists segs. split; [exact Hc|]. eapply lay_ext; [|exact Hl].
    apply w_F2_refl. intros l Hin. split.
    + unfold noskip. symmetry. rewrite Forall_forall in Hunf. apply Hunf. exact Hin.
    + intros _. split; reflexivity.
Qed.

Lemma flagged_of_to_free : forall leads leads2, Forall2 flagged_of leads leads2 ->
  Forall (fun l => l_to_free l = true) leads2.
Proof.
  intros leads leads2 H. induction H as [|l l2 leads leads2 (stt & ->) H IH]; constructor; [reflexivity|exact IH].
Qed.

Lemma side_all : forall isput maxid leads reqs leads2,
  queue_inv isput maxid leads reqs -> Forall2 flagged_of leads leads2 ->
  side_ok leads reqs leads2 [] reqs (Zlen leads).
Proof.
  intros isput maxid leads reqs leads2 Hq HF.
  destruct (queue_lay _ _ _ _ Hq) as (segs & Hc & Hl & Hsl).
  pose proof (flagged_of_to_free _ _ HF) as Hall.
  split; [|split; [|split]].
  - eapply w_F2_impl; [|exact HF]. intros l l2 _ _ (stt & ->). split; [apply lead_same_set_flag|].
    cbn. intros Hd. discriminate Hd.
  - rewrite (zipflag_char reqs (fun _ => true)).
    + change (flat_map (fun l => if (fun _ : lead => true) l then lead_reqs reqs l else []) leads)
        with (flat_map (lead_reqs reqs) leads).
      assert (E : flat_map (fun l : lead => lead_reqs reqs l) leads = concat segs)
        by (apply w_F2_concat; exact Hsl).
      rewrite E, <- Hc. apply Permutation_refl.
    + eapply w_F2_impl; [|exact HF]. intros l l2 _ _ (stt & ->). reflexivity.
  - unfold flagged. rewrite w_filter_all_true by exact Hall. apply (w_F2_len _ _ _ _ _ HF).
  - exists (map (fun _ => []) leads2). split; [symmetry; apply concat_map_nil|].
    apply lay_all_skipped. exact Hall.
Qed.

Lemma co_rel_refl : forall l, co_rel l l.
Proof.
  intros l. unfold co_rel. destruct (l_to_free l); [reflexivity|].
  exists (l_nonlead_off l). destruct l; reflexivity.
Qed.

Lemma coalesce_co_rel : forall leads reqs k ls rs,
  coalesce_nonlead leads reqs k = (ls, rs) -> Forall2 co_rel leads ls.
Proof.
  induction leads as [|l leads IH]; intros reqs k ls rs H; cbn [coalesce_nonlead] in H.
  - inversion H; subst. constructor.
  - destruct (l_to_free l) eqn:Hf.
    + destruct (coalesce_nonlead leads reqs k) as [ls' rs'] eqn:Ec. inversion H; subst ls rs.
      constructor; [unfold co_rel; rewrite Hf; reflexivity|]. eapply IH. exact Ec.
    + destruct (coalesce_nonlead leads reqs (k + l_nonlead_num l)) as [ls' rs'] eqn:Ec. inversion H; subst ls rs.
      constructor; [unfold co_rel; rewrite Hf; exists k; reflexivity|]. eapply IH. exact Ec.
Qed.

(* the slices of the kept leads are copied unchanged *)
Lemma coalesce_xrel : forall leads segs reqs kold i pre ls rs,
  lay noskip leads segs kold i ->
  Forall2 (fun l sl => lead_reqs reqs l = sl) leads segs ->
  coalesce_nonlead leads reqs (Zlen pre) = (ls, rs) ->
  Forall2 (fun l l' => l_to_free l' = false -> lead_reqs (pre ++ rs) l' = lead_reqs reqs l) leads ls.
Proof.
  induction leads as [|l leads IH]; intros segs reqs kold i pre ls rs Hl HF Hc;
    destruct segs as [|sl ss]; cbn [lay] in Hl; try contradiction; cbn [coalesce_nonlead] in Hc.
  - inversion Hc; subst. constructor.
  - unfold noskip at 1 in Hl. cbv iota in Hl. destruct Hl as (Hoff & Hnum & Hne & Hfa & Hrest).
    inversion HF as [|x y a b Hxy Hab]; subst.
    destruct (l_to_free l) eqn:Hf.
    + destruct (coalesce_nonlead leads reqs (Zlen pre)) as [ls' rs'] eqn:Ec. inversion Hc; subst ls rs. clear Hc.
      constructor; [intros Hd; congruence|]. eapply IH; eassumption.
    + destruct (coalesce_nonlead leads reqs (Zlen pre + l_nonlead_num l)) as [ls' rs'] eqn:Ec.
      inversion Hc; subst ls rs. clear Hc.
      change (slice reqs (l_nonlead_off l) (l_nonlead_num l)) with (lead_reqs reqs l).
      constructor.
      * intros _. unfold lead_reqs at 1.
        change (l_nonlead_off (l_set_off l (Zlen pre))) with (Zlen pre).
        change (l_nonlead_num (l_set_off l (Zlen pre))) with (l_nonlead_num l).
        rewrite Hnum. apply w_slice_app.
      * rewrite Hnum, <- Proofs_Disk.Zlen_app in Ec.
        specialize (IH _ _ _ _ _ _ _ Hrest Hab Ec). rewrite <- app_assoc in IH. exact IH.
Qed.

Lemma w_F2_map_l : forall A B C (R : B -> C -> Prop) (f : A -> B) l b,
  Forall2 (fun x y => R (f x) y) l b -> Forall2 R (map f l) b.
Proof.
  intros A B C R f l b H. induction H as [|x y l b Hxy H IH]; cbn [map]; constructor; assumption.
Qed.

Lemma copy_one_nosel : forall sel ll reqs ids, filter sel ids = [] -> flat_map (copy_one sel ll reqs) ids = [].
Proof.
  intros sel ll reqs. induction ids as [|x r IH]; intros H; [reflexivity|].
  cbn [filter] in H. cbn [flat_map]. unfold copy_one at 1. destruct (sel x); [discriminate|]. apply IH. exact H.
Qed.

(* the ids selected by a successful first loop are the ids of the flagged leads, once each *)
Lemma mark_perm : forall sel ids i hs leads c s leads1,
  NoDup (map l_id leads) -> Forall (fun l => l_to_free l = false) leads ->
  mark_list sel ids i hs leads = Some (leads1, c, s) ->
  Permutation (filter sel ids) (map l_id (flagged leads1)).
Proof.
  intros sel ids i hs leads c s leads1 Hnd Hunf Hm.
  pose proof (mark_list_map _ _ _ _ _ _ _ _ Hnd Hm) as H1.
  destruct (mark_list_pending _ _ _ _ _ _ _ _ Hnd Hm) as (Hp & Hnd2 & _ & _).
  assert (Hnd1 : NoDup (map l_id leads1)).
  { rewrite H1, map_map. erewrite map_ext; [exact Hnd|]. intros a. apply mark_lead_id. }
  apply NoDup_Permutation; [exact Hnd2|apply w_NoDup_map_filter; exact Hnd1|].
  intros x. split.
  - intros Hx. apply filter_In in Hx. destruct Hx as (Hx & Hsx).
    destruct (Hp x Hx Hsx) as (l & Hl & Hid & Hf).
    apply in_map_iff. exists (mark_lead sel ids i hs l). split; [rewrite mark_lead_id; exact Hid|].
    apply filter_In. split; [rewrite H1; apply in_map; exact Hl|].
    rewrite mark_lead_to_free, Hf. cbn [orb]. apply existsb_exists. exists x. split; [exact Hx|].
    rewrite Hsx, Hid, Z.eqb_refl. reflexivity.
  - intros Hx. apply in_map_iff in Hx. destruct Hx as (l1 & Hid & Hl1).
    apply filter_In in Hl1. destruct Hl1 as (Hl1 & Hf1).
    rewrite H1 in Hl1. apply in_map_iff in Hl1. destruct Hl1 as (l & <- & Hl).
    rewrite Forall_forall in Hunf. rewrite mark_lead_to_free, (Hunf l Hl) in Hf1. cbn [orb] in Hf1.
    apply existsb_exists in Hf1. destruct Hf1 as (y & Hy & Hsy).
    rewrite mark_lead_id in Hid. apply filter_In.
    assert (y = x) by lia. subst y. split; [exact Hy|]. destruct (sel x); [reflexivity|discriminate].
Qed.

Lemma side_subset : forall isput maxid leads reqs sel ids i hs leads1 c s leads2 reqs2,
  queue_inv isput maxid leads reqs ->
  mark_list sel ids i hs leads = Some (leads1, c, s) ->
  (if s =? 0 then (leads1, reqs) else coalesce_nonlead leads1 reqs 0) = (leads2, reqs2) ->
  side_ok leads reqs leads2 reqs2 (flat_map (copy_one sel leads1 reqs) ids) c /\
  leads1 = map (mark_lead sel ids i hs) leads /\ Forall2 co_rel leads1 leads2.
Proof.
  intros isput maxid leads reqs sel ids i hs leads1 c s leads2 reqs2 Hq Hm H2.
  pose proof Hq as (Hnd & _ & Hso & _ & Hunf).
  pose proof (mark_list_map _ _ _ _ _ _ _ _ Hnd Hm) as H1.
  destruct (mark_list_pending _ _ _ _ _ _ _ _ Hnd Hm) as (Hp & Hnd2 & Hc & Hs).
  specialize (Hs (slices_ok_pos _ _ _ _ Hso)).
  destruct (s =? 0) eqn:Es.
  - (* nothing selected *)
    inversion H2; subst leads2 reqs2. clear H2.
    assert (Hnil : filter sel ids = []).
    { apply Proofs_Disk.Zlen_zero_nil. pose proof (Proofs_Disk.Zlen_nonneg (filter sel ids)). lia. }
    assert (E : leads1 = leads).
    { rewrite H1. erewrite map_ext; [apply map_id|]. intros a. apply mark_lead_nosel. exact Hnil. }
    split; [|split; [exact H1|apply w_F2_refl; intros l _; apply co_rel_refl]].
    rewrite copy_one_nosel by exact Hnil. rewrite Hc, Hnil, E. eapply side_unchanged. exact Hq.
  - destruct (queue_lay _ _ _ _ Hq) as (segs & Hcc & Hl & Hsl).
    assert (Hl1 : lay noskip leads1 segs 0 0).
    { eapply lay_ext; [|exact Hl]. rewrite H1. apply w_F2_map_r. intros l _. split; [reflexivity|].
      intros _. rewrite mark_lead_off. pose proof (mark_lead_same sel ids i hs l) as (_ & _ & _ & Hn & _).
      split; [reflexivity|exact Hn]. }
    assert (Hsl1 : Forall2 (fun l sl => lead_reqs reqs l = sl) leads1 segs).
    { rewrite H1. apply w_F2_map_l. eapply w_F2_impl; [|exact Hsl].
      intros l sl _ _ E. rewrite mark_lead_reqs. exact E. }
    destruct (coalesce_lay _ _ _ _ _ _ _ _ Hl1 Hsl1 H2) as (Hr2 & Hlay2 & Hco).
    pose proof (coalesce_xrel _ _ _ _ _ [] _ _ Hl1 Hsl1 H2) as Hx. cbn [app] in Hx.
    assert (Hfl : Forall2 (fun l l2 => l_to_free l2 = l_to_free (mark_lead sel ids i hs l)) leads leads2).
    { rewrite H1 in Hco. clear - Hco. remember (map (mark_lead sel ids i hs) leads) as m eqn:Em.
      revert leads Em. induction Hco as [|a b m leads2 Hab Hco IH]; intros leads Em; destruct leads as [|l leads]; try discriminate Em.
      - constructor.
      - cbn [map] in Em. inversion Em; subst a m. constructor; [|apply IH; reflexivity].
        apply co_rel_same in Hab. apply Hab. }
    split; [|split; [exact H1|exact Hco]].
    split; [|split; [|split]].
    + (* xrel *)
      rewrite H1 in Hx, Hco. clear - Hx Hco.
      remember (map (mark_lead sel ids i hs) leads) as m eqn:Em. revert leads Em Hx.
      induction Hco as [|a b m leads2 Hab Hco IH]; intros leads Em Hx; destruct leads as [|l leads]; try discriminate Em.
      * constructor.
      * cbn [map] in Em. inversion Em; subst a m. inversion Hx as [|x0 y0 a0 b0 Hxy Hrest]; subst.
        constructor; [|apply IH; [reflexivity|exact Hrest]].
        split.
        -- eapply lead_same_trans; [apply mark_lead_same|]. apply co_rel_same in Hab. apply Hab.
        -- intros Hf. rewrite (Hxy Hf). apply mark_lead_reqs.
    + (* the extracted requests *)
      rewrite (zipflag_char reqs (fun l => l_to_free (mark_lead sel ids i hs l)) _ _ Hfl).
      assert (E1 : flat_map (copy_one sel leads1 reqs) ids =
                   flat_map (fun x => match find_flagged leads1 x with
                                      | Some l => lead_reqs reqs l | None => [] end) (filter sel ids)).
      { rewrite <- w_flat_map_filter. reflexivity. }
      rewrite E1. rewrite (mark_perm _ _ _ _ _ _ _ _ Hnd Hunf Hm).
      assert (Hnd1 : NoDup (map l_id leads1)).
      { rewrite H1, map_map. erewrite map_ext; [exact Hnd|]. intros a. apply mark_lead_id. }
      rewrite w_flat_map_map.
      rewrite (w_flat_map_ext_in _ _ _ (lead_reqs reqs) (flagged leads1)).
      * unfold flagged. rewrite <- w_flat_map_filter. rewrite H1, w_flat_map_map.
        erewrite w_flat_map_ext_in; [apply Permutation_refl|].
        intros l _. cbn beta. rewrite mark_lead_reqs. reflexivity.
      * intros l1 Hl1in. apply filter_In in Hl1in. destruct Hl1in as (Hin & Hf).
        rewrite (find_flagged_In _ _ Hnd1 Hin Hf). reflexivity.
    + (* the counter *)
      rewrite Hc. rewrite <- (flagged_len_F2 leads1 leads2).
      * pose proof (Permutation_length (mark_perm _ _ _ _ _ _ _ _ Hnd Hunf Hm)) as Hlen.
        rewrite map_length in Hlen. unfold Zlen. rewrite Hlen. reflexivity.
      * eapply w_F2_impl; [|exact Hco]. intros a b _ _ Hab. apply co_rel_same in Hab. apply Hab.
    + exists (kept_segs leads1 segs). split; [exact Hr2|exact Hlay2].
Qed.

(* ---- all paths of extract_reqs ---- *)
Ltac ex_proj := cbn [ex_st ex_ids ex_stat ex_put ex_get ex_nwl ex_nrl ex_err
                     put_lead get_lead put_reqs get_reqs maxPutID maxGetID st_abuf st_numrecs st_mem
                     set_put set_get].

Ltac ex_proj_in H := cbn [ex_st ex_ids ex_stat ex_put ex_get ex_nwl ex_nrl ex_err
                     put_lead get_lead put_reqs get_reqs maxPutID maxGetID st_abuf st_numrecs st_mem
                     set_put set_get] in H.

Ltac fin5 := split; [assumption|split; [assumption|split; [reflexivity|split; reflexivity]]].

Lemma extract_sides : forall fx st n ids hs stat0, nb_inv st ->
  ex_err (extract_reqs fx st n ids hs stat0) = NC_NOERR ->
  side_ok (put_lead st) (put_reqs st) (put_lead (ex_st (extract_reqs fx st n ids hs stat0)))
          (put_reqs (ex_st (extract_reqs fx st n ids hs stat0)))
          (ex_put (extract_reqs fx st n ids hs stat0)) (ex_nwl (extract_reqs fx st n ids hs stat0)) /\
  side_ok (get_lead st) (get_reqs st) (get_lead (ex_st (extract_reqs fx st n ids hs stat0)))
          (get_reqs (ex_st (extract_reqs fx st n ids hs stat0)))
          (ex_get (extract_reqs fx st n ids hs stat0)) (ex_nrl (extract_reqs fx st n ids hs stat0)) /\
  maxPutID (ex_st (extract_reqs fx st n ids hs stat0)) = maxPutID st /\
  maxGetID (ex_st (extract_reqs fx st n ids hs stat0)) = maxGetID st /\
  st_abuf (ex_st (extract_reqs fx st n ids hs stat0)) = st_abuf st.
Proof.
  intros fx st n ids hs stat0 (Hp & Hg). unfold extract_reqs. cbv zeta.
  pose proof (side_unchanged _ _ _ _ Hp) as HpU. pose proof (side_unchanged _ _ _ _ Hg) as HgU.
  pose proof (side_all _ _ _ _ _ Hp (flag_all_F2 _)) as HpA.
  pose proof (side_all _ _ _ _ _ Hg (flag_all_F2 _)) as HgA.
  pose proof (side_all _ _ _ _ _ Hp (flag_all_status_F2 _ 0)) as HpS.
  pose proof (side_all _ _ _ _ _ Hg (flag_all_status_F2 _ 0)) as HgS.
  destruct (n <? 0) eqn:E0.
  { intros _.
    destruct ((n =? NC_PUT_REQ_ALL) || (n =? NC_REQ_ALL)); destruct ((n =? NC_GET_REQ_ALL) || (n =? NC_REQ_ALL));
      ex_proj; fin5. }
  destruct ((Zlen (get_reqs st) =? 0) && (n =? Zlen (put_lead st)) && (negb fx || ids_in_order (put_lead st) ids n)) eqn:E1.
  { intros _. destruct hs; ex_proj; fin5. }
  destruct ((Zlen (put_reqs st) =? 0) && (n =? Zlen (get_lead st)) && (negb fx || ids_in_order (get_lead st) ids n)) eqn:E2.
  { intros _. destruct hs; ex_proj; fin5. }
  destruct ((n =? Zlen (put_lead st) + Zlen (get_lead st)) && negb hs && negb fx) eqn:E3.
  { intros _. ex_proj. fin5. }
  destruct (ex_mark ids 0 hs (put_lead st) (get_lead st) stat0 0 0 0 0 NC_NOERR)
    as [[[[[[[pl1 gl1] stat1] nwl] nwr] nrl] nrr] err] eqn:Em.
  destruct (negb (err =? NC_NOERR)) eqn:Ee.
  { destruct fx; ex_proj; intros Herr; lia. }
  assert (err = NC_NOERR) by lia. subst err.
  destruct (ex_mark_spec _ _ _ _ _ _ _ _ _ _ _ _ _ _ _ _ _ _ Em) as (_ & c1 & s1 & c2 & s2 & Hm1 & Hm2 & -> & -> & -> & ->).
  rewrite ex_copy_spec. cbv iota beta.
  replace (0 + s1) with s1 by lia. replace (0 + s2) with s2 by lia.
  replace (0 + c1) with c1 by lia. replace (0 + c2) with c2 by lia.
  destruct (if s1 =? 0 then (pl1, put_reqs st) else coalesce_nonlead pl1 (put_reqs st) 0) as [pl2 pr2] eqn:Ep.
  destruct (if s2 =? 0 then (gl1, get_reqs st) else coalesce_nonlead gl1 (get_reqs st) 0) as [gl2 gr2] eqn:Eg.
  intros _. ex_proj.
  destruct (side_subset _ _ _ _ _ _ _ _ _ _ _ _ _ Hp Hm1 Ep) as (Hs1 & _).
  destruct (side_subset _ _ _ _ _ _ _ _ _ _ _ _ _ Hg Hm2 Eg) as (Hs2 & _).
  fin5.
Qed.

(* ====================================================================== *)
(* W1. the leads keep their identity                                       *)
(* ====================================================================== *)
Lemma F2_same_trans : forall a b c, Forall2 lead_same a b -> Forall2 lead_same b c -> Forall2 lead_same a c.
Proof.
  intros a b c H1 H2. eapply w_F2_impl; [|exact (w_F2_trans _ _ _ _ _ _ _ _ H1 H2)].
  intros x z _ _ (y & _ & Hxy & Hyz). eapply lead_same_trans; eassumption.
Qed.

Lemma F2_same_refl : forall a, Forall2 lead_same a a.
Proof. intros a. apply w_F2_refl. intros x _. apply lead_same_refl. Qed.

Lemma flagged_of_same : forall a b, Forall2 flagged_of a b -> Forall2 lead_same a b.
Proof.
  intros a b H. eapply w_F2_impl; [|exact H]. intros x y _ _ (stt & ->). apply lead_same_set_flag.
Qed.

Lemma flag_first_same : forall ll x stt ll' n, flag_first ll x stt = Some (ll', n) -> Forall2 lead_same ll ll'.
Proof.
  induction ll as [|l r IH]; intros x stt ll' n H; cbn [flag_first] in H; [discriminate|].
  destruct (negb (l_to_free l) && (l_id l =? x)).
  - inversion H; subst. constructor; [apply lead_same_set_flag|apply F2_same_refl].
  - destruct (flag_first r x stt) as [[r' n']|] eqn:Er; [|discriminate]. inversion H; subst.
    constructor; [apply lead_same_refl|]. eapply IH. exact Er.
Qed.

Lemma ex_mark_same : forall ids i hs pl gl stat nwl nwr nrl nrr err,
  Forall2 lead_same pl (fst (fst (fst (fst (fst (fst (fst (ex_mark ids i hs pl gl stat nwl nwr nrl nrr err)))))))) /\
  Forall2 lead_same gl (snd (fst (fst (fst (fst (fst (fst (ex_mark ids i hs pl gl stat nwl nwr nrl nrr err)))))))).
Proof.
  induction ids as [|x r IH]; intros i hs pl gl stat nwl nwr nrl nrr err; cbn [ex_mark].
  - cbn [fst snd]. split; apply F2_same_refl.
  - destruct (x =? NC_REQ_NULL); [apply IH|].
    destruct (Z.rem x 2 =? 0).
    + destruct (flag_first pl x (if hs then Some i else None)) as [[pl' n]|] eqn:Ef; [|apply IH].
      pose proof (flag_first_same _ _ _ _ _ Ef) as Hs.
      match goal with |- context [ex_mark r ?a ?b ?c ?d ?e ?f ?g ?h ?k ?m] =>
        destruct (IH a b c d e f g h k m) as (I1 & I2) end.
      split; [eapply F2_same_trans; eassumption|exact I2].
    + destruct (flag_first gl x (if hs then Some i else None)) as [[gl' n]|] eqn:Ef; [|apply IH].
      pose proof (flag_first_same _ _ _ _ _ Ef) as Hs.
      match goal with |- context [ex_mark r ?a ?b ?c ?d ?e ?f ?g ?h ?k ?m] =>
        destruct (IH a b c d e f g h k m) as (I1 & I2) end.
      split; [exact I1|eapply F2_same_trans; eassumption].
Qed.

Lemma co_rel_F2_same : forall a b, Forall2 co_rel a b -> Forall2 lead_same a b.
Proof. intros a b H. eapply w_F2_impl; [|exact H]. intros x y _ _ Hxy. apply co_rel_same in Hxy. apply Hxy. Qed.

Theorem extract_leads_same : forall fx st n ids hs stat0,
  Forall2 lead_same (put_lead st) (put_lead (ex_st (extract_reqs fx st n ids hs stat0))) /\
  Forall2 lead_same (get_lead st) (get_lead (ex_st (extract_reqs fx st n ids hs stat0))).
Proof.
  intros fx st n ids hs stat0. unfold extract_reqs. cbv zeta.
  pose proof (F2_same_refl (put_lead st)) as HpU. pose proof (F2_same_refl (get_lead st)) as HgU.
  pose proof (flagged_of_same _ _ (flag_all_F2 (put_lead st))) as HpA.
  pose proof (flagged_of_same _ _ (flag_all_F2 (get_lead st))) as HgA.
  pose proof (flagged_of_same _ _ (flag_all_status_F2 (put_lead st) 0)) as HpS.
  pose proof (flagged_of_same _ _ (flag_all_status_F2 (get_lead st) 0)) as HgS.
  destruct (n <? 0).
  { destruct ((n =? NC_PUT_REQ_ALL) || (n =? NC_REQ_ALL)); destruct ((n =? NC_GET_REQ_ALL) || (n =? NC_REQ_ALL));
      ex_proj; split; assumption. }
  destruct ((Zlen (get_reqs st) =? 0) && (n =? Zlen (put_lead st)) && (negb fx || ids_in_order (put_lead st) ids n)).
  { destruct hs; ex_proj; split; assumption. }
  destruct ((Zlen (put_reqs st) =? 0) && (n =? Zlen (get_lead st)) && (negb fx || ids_in_order (get_lead st) ids n)).
  { destruct hs; ex_proj; split; assumption. }
  destruct ((n =? Zlen (put_lead st) + Zlen (get_lead st)) && negb hs && negb fx).
  { ex_proj. split; assumption. }
  pose proof (ex_mark_same ids 0 hs (put_lead st) (get_lead st) stat0 0 0 0 0 NC_NOERR) as (Hm1 & Hm2).
  destruct (ex_mark ids 0 hs (put_lead st) (get_lead st) stat0 0 0 0 0 NC_NOERR)
    as [[[[[[[pl1 gl1] stat1] nwl] nwr] nrl] nrr] err] eqn:Em.
  cbn [fst snd] in Hm1, Hm2.
  destruct (negb (err =? NC_NOERR)).
  { destruct fx; ex_proj; [|split; assumption].
    split; (eapply F2_same_trans; [eassumption|]); apply w_F2_map_r; intros l _; apply lead_same_set_flag. }
  rewrite ex_copy_spec. cbv iota beta.
  destruct (if nwr =? 0 then (pl1, put_reqs st) else coalesce_nonlead pl1 (put_reqs st) 0) as [pl2 pr2] eqn:Ep.
  destruct (if nrr =? 0 then (gl1, get_reqs st) else coalesce_nonlead gl1 (get_reqs st) 0) as [gl2 gr2] eqn:Eg.
  ex_proj. split.
  - destruct (nwr =? 0).
    + inversion Ep; subst. exact Hm1.
    + eapply F2_same_trans; [exact Hm1|]. apply co_rel_F2_same. eapply coalesce_co_rel. exact Ep.
  - destruct (nrr =? 0).
    + inversion Eg; subst. exact Hm2.
    + eapply F2_same_trans; [exact Hm2|]. apply co_rel_F2_same. eapply coalesce_co_rel. exact Eg.
Qed.

(* ====================================================================== *)
(* W2. the extracted non-lead requests are the slices of the flagged leads *)
(* ====================================================================== *)
Theorem extract_put_slices : forall fx st n ids hs stat0, nb_inv st ->
  ex_err (extract_reqs fx st n ids hs stat0) = NC_NOERR ->
  Permutation (ex_put (extract_reqs fx st n ids hs stat0))
    (flat_map (fun p => if l_to_free (snd p) then lead_reqs (put_reqs st) (fst p) else [])
              (zip (put_lead st) (put_lead (ex_st (extract_reqs fx st n ids hs stat0))))) /\
  ex_nwl (extract_reqs fx st n ids hs stat0) = Zlen (flagged (put_lead (ex_st (extract_reqs fx st n ids hs stat0)))).
Proof.
  intros fx st n ids hs stat0 Hinv Herr.
  destruct (extract_sides fx st n ids hs stat0 Hinv Herr) as ((_ & Hperm & Hn & _) & _).
  split; [exact Hperm|exact Hn].
Qed.

Theorem extract_get_slices : forall fx st n ids hs stat0, nb_inv st ->
  ex_err (extract_reqs fx st n ids hs stat0) = NC_NOERR ->
  Permutation (ex_get (extract_reqs fx st n ids hs stat0))
    (flat_map (fun p => if l_to_free (snd p) then lead_reqs (get_reqs st) (fst p) else [])
              (zip (get_lead st) (get_lead (ex_st (extract_reqs fx st n ids hs stat0))))) /\
  ex_nrl (extract_reqs fx st n ids hs stat0) = Zlen (flagged (get_lead (ex_st (extract_reqs fx st n ids hs stat0)))).
Proof.
  intros fx st n ids hs stat0 Hinv Herr.
  destruct (extract_sides fx st n ids hs stat0 Hinv Herr) as (_ & (_ & Hperm & Hn & _) & _).
  split; [exact Hperm|exact Hn].
Qed.

(* ====================================================================== *)
(* W3. the extracted requests, annotated, address what the flagged leads   *)
(*     were posted with                                                    *)
(* ====================================================================== *)
Lemma w_F2_3 : forall A B C (P : A -> C -> Prop) (Q : C -> B -> Prop) (R : A -> B -> Prop) a s b,
  Forall2 P a s -> Forall2 Q s b -> Forall2 R a b ->
  Forall2 (fun x y => R x y /\ exists z, P x z /\ Q z y) a b.
Proof.
  intros A B C P Q R a s b H. revert b.
  induction H as [|x z a s Hxz H IH]; intros b HQ HR; inversion HQ as [|z0 y0 s0 b0 Hzy HQ']; subst;
    inversion HR as [|x1 y1 a1 b1 Hxy HR']; subst; constructor.
  - split; [exact Hxy|]. exists z. split; assumption.
  - apply IH; assumption.
Qed.

Lemma annotate_eq : forall X q l2, znth X (r_lead_off q) dummy_lead = l2 ->
  exists s e, annotate X q = mkareq q l2 s e.
Proof.
  intros X q l2 H. unfold annotate. rewrite H. destruct (access_range l2 q) as [s e]. exists s, e. reflexivity.
Qed.

Lemma seg_pairs_annot : forall isput X l l2 sl,
  lead_same l l2 -> lead_wf_seg isput l sl ->
  Forall (fun q => znth X (r_lead_off q) dummy_lead = l2) sl ->
  Forall areq_wf (map (annotate X) sl) /\ flat_map areq_pairs (map (annotate X) sl) = lead_pairs l2.
Proof.
  intros isput X l l2 sl Hs (_ & _ & Hwf & Hp) Hz.
  rewrite <- (lead_pairs_same _ _ Hs), <- Hp. clear Hp.
  pose proof Hs as (_ & Hg & Hst & _).
  induction sl as [|q sl IH]; [split; [constructor|reflexivity]|].
  pose proof (Forall_inv Hwf) as Hwq. pose proof (Forall_inv_tail Hwf) as Hwr.
  pose proof (Forall_inv Hz) as Hzq. pose proof (Forall_inv_tail Hz) as Hzr. cbn beta in Hwq, Hzq.
  destruct (IH Hwr Hzr) as (I1 & I2).
  destruct (annotate_eq _ _ _ Hzq) as (s & e & Ea).
  cbn [map flat_map]. rewrite Ea, I2. split.
  - constructor; [|exact I1]. eapply areq_wf_lead_indep; [reflexivity|exact Hg|exact Hst|exact Hwq].
  - f_equal. symmetry. apply areq_pairs_lead_indep; [reflexivity|exact Hg|exact Hst].
Qed.

Lemma zipflag_pairs : forall isput reqs X leads leads2,
  Forall2 (fun l l2 => lead_same l l2 /\ lead_wf isput reqs l /\
                       Forall (fun q => znth X (r_lead_off q) dummy_lead = l2) (lead_reqs reqs l)) leads leads2 ->
  Forall areq_wf (map (annotate X) (zipflag reqs leads leads2)) /\
  flat_map areq_pairs (map (annotate X) (zipflag reqs leads leads2)) = flat_map lead_pairs (flagged leads2).
Proof.
  intros isput reqs X leads leads2 H. unfold zipflag, flagged.
  induction H as [|l l2 leads leads2 (Hs & Hwf & Hz) H (I1 & I2)]; [split; [constructor|reflexivity]|].
  cbn [zip flat_map fst snd filter]. destruct (l_to_free l2).
  - destruct (seg_pairs_annot isput X l l2 _ Hs Hwf Hz) as (S1 & S2).
    rewrite map_app, flat_map_app. split.
    + apply Forall_app. split; assumption.
    + cbn [flat_map]. rewrite S2, I2. reflexivity.
  - cbn [app]. split; assumption.
Qed.

Lemma pairs_of_side : forall isput maxid leads reqs leads2 reqs2 ext nl,
  queue_inv isput maxid leads reqs -> side_ok leads reqs leads2 reqs2 ext nl ->
  Forall areq_wf (map (annotate leads2) ext) /\
  Permutation (flat_map areq_pairs (map (annotate leads2) ext)) (flat_map lead_pairs (flagged leads2)).
Proof.
  intros isput maxid leads reqs leads2 reqs2 ext nl Hq (HF & Hperm & _ & _).
  destruct (queue_lay _ _ _ _ Hq) as (segs & Hc & Hl & Hsl).
  pose proof Hq as (_ & _ & _ & Hwf & _).
  pose proof (lay_lead_off noskip leads segs [] leads2 0 _ Hl HF) as Hoff. cbn [app] in Hoff.
  pose proof (w_F2_3 _ _ _ _ _ _ _ _ _ Hsl Hoff HF) as H3.
  assert (H4 : Forall2 (fun l l2 => lead_same l l2 /\ lead_wf isput reqs l /\
                 Forall (fun q => znth leads2 (r_lead_off q) dummy_lead = l2) (lead_reqs reqs l)) leads leads2).
  { eapply w_F2_impl; [|exact (w_F2_Forall_l _ _ _ _ _ _ Hwf H3)].
    intros l l2 _ _ (Hw & (Hs & _) & sl & E & Hz). split; [exact Hs|]. split; [exact Hw|].
    rewrite E. exact Hz. }
  destruct (zipflag_pairs _ _ _ _ _ H4) as (Z1 & Z2).
  split.
  - eapply Permutation_Forall; [|exact Z1]. apply Permutation_map. apply Permutation_sym. exact Hperm.
  - rewrite <- Z2. apply Permutation_flat_map. apply Permutation_map. exact Hperm.
Qed.

Theorem wait_put_pairs : forall fx st n ids hs stat0, nb_inv st ->
  ex_err (extract_reqs fx st n ids hs stat0) = NC_NOERR ->
  Forall areq_wf (map (annotate (put_lead (ex_st (extract_reqs fx st n ids hs stat0))))
                      (ex_put (extract_reqs fx st n ids hs stat0))) /\
  Permutation (flat_map areq_pairs (map (annotate (put_lead (ex_st (extract_reqs fx st n ids hs stat0))))
                                        (ex_put (extract_reqs fx st n ids hs stat0))))
              (flat_map lead_pairs (flagged (put_lead (ex_st (extract_reqs fx st n ids hs stat0))))).
Proof.
  intros fx st n ids hs stat0 Hinv Herr.
  destruct (extract_sides fx st n ids hs stat0 Hinv Herr) as (Hs & _).
  destruct Hinv as (Hp & _). eapply pairs_of_side; eassumption.
Qed.

Theorem wait_get_pairs : forall fx st n ids hs stat0, nb_inv st ->
  ex_err (extract_reqs fx st n ids hs stat0) = NC_NOERR ->
  Forall areq_wf (map (annotate (get_lead (ex_st (extract_reqs fx st n ids hs stat0))))
                      (ex_get (extract_reqs fx st n ids hs stat0))) /\
  Permutation (flat_map areq_pairs (map (annotate (get_lead (ex_st (extract_reqs fx st n ids hs stat0))))
                                        (ex_get (extract_reqs fx st n ids hs stat0))))
              (flat_map lead_pairs (flagged (get_lead (ex_st (extract_reqs fx st n ids hs stat0))))).
Proof.
  intros fx st n ids hs stat0 Hinv Herr.
  destruct (extract_sides fx st n ids hs stat0 Hinv Herr) as (_ & Hs & _).
  destruct Hinv as (_ & Hg). eapply pairs_of_side; eassumption.
Qed.

(* ====================================================================== *)
(* W4. which leads get flagged                                             *)
(* ====================================================================== *)
Theorem extract_all_flags : forall fx st n ids hs stat0, nb_inv st -> n < 0 ->
  ex_err (extract_reqs fx st n ids hs stat0) = NC_NOERR /\
  (forall l', In l' (put_lead (ex_st (extract_reqs fx st n ids hs stat0))) ->
     (l_to_free l' = true <-> (n = NC_PUT_REQ_ALL \/ n = NC_REQ_ALL))) /\
  (forall l', In l' (get_lead (ex_st (extract_reqs fx st n ids hs stat0))) ->
     (l_to_free l' = true <-> (n = NC_GET_REQ_ALL \/ n = NC_REQ_ALL))).
Proof.
  intros fx st n ids hs stat0 ((_ & _ & _ & _ & Hpu) & (_ & _ & _ & _ & Hgu)) Hn.
  unfold extract_reqs. cbv zeta. destruct (n <? 0) eqn:E0; [|lia].
  rewrite Forall_forall in Hpu, Hgu.
  assert (Hfa : forall leads l', In l' (flag_all leads) -> l_to_free l' = true).
  { intros leads l' Hin. unfold flag_all in Hin. apply in_map_iff in Hin. destruct Hin as (l & <- & _). reflexivity. }
  destruct ((n =? NC_PUT_REQ_ALL) || (n =? NC_REQ_ALL)) eqn:Ewp;
    destruct ((n =? NC_GET_REQ_ALL) || (n =? NC_REQ_ALL)) eqn:Ewg; ex_proj;
    (split; [reflexivity|]); split; intros l' Hin.
  - rewrite (Hfa _ _ Hin). split; [intros _; lia|reflexivity].
  - rewrite (Hfa _ _ Hin). split; [intros _; lia|reflexivity].
  - rewrite (Hfa _ _ Hin). split; [intros _; lia|reflexivity].
  - rewrite (Hgu _ Hin). split; [discriminate|intros H; lia].
  - rewrite (Hpu _ Hin). split; [discriminate|intros H; lia].
  - rewrite (Hfa _ _ Hin). split; [intros _; lia|reflexivity].
  - rewrite (Hpu _ Hin). split; [discriminate|intros H; lia].
  - rewrite (Hgu _ Hin). split; [discriminate|intros H; lia].
Qed.

(* none of the two "same as PUT/GET_REQ_ALL" shortcuts *)
Definition no_shortcut (st : nbstate) (n : Z) : Prop :=
  ~ (Zlen (get_reqs st) = 0 /\ n = Zlen (put_lead st)) /\
  ~ (Zlen (put_reqs st) = 0 /\ n = Zlen (get_lead st)).

(* the result of the subset path (either variant) *)
Definition subset_res (fx : bool) (st : nbstate) (n : Z) (ids : list Z) (hs : bool) (stat0 : list Z) : Prop :=
  exists pl1 gl1 stat1 c1 s1 c2 s2,
    ex_mark ids 0 hs (put_lead st) (get_lead st) stat0 0 0 0 0 NC_NOERR
      = (pl1, gl1, stat1, c1, s1, c2, s2, NC_NOERR) /\
    mark_list selp ids 0 hs (put_lead st) = Some (pl1, c1, s1) /\
    mark_list selg ids 0 hs (get_lead st) = Some (gl1, c2, s2) /\
    pl1 = map (mark_lead selp ids 0 hs) (put_lead st) /\
    gl1 = map (mark_lead selg ids 0 hs) (get_lead st) /\
    Forall2 co_rel pl1 (put_lead (ex_st (extract_reqs fx st n ids hs stat0))) /\
    Forall2 co_rel gl1 (get_lead (ex_st (extract_reqs fx st n ids hs stat0))) /\
    ex_ids (extract_reqs fx st n ids hs stat0) = map (reset_one pl1 gl1) ids /\
    ex_stat (extract_reqs fx st n ids hs stat0) = stat1.

(* when none of the shortcut conditions holds, a successful call went through the subset path *)
Lemma subset_path_struct : forall fx st n ids hs stat0,
  nb_inv st -> 0 <= n ->
  (Zlen (get_reqs st) =? 0) && (n =? Zlen (put_lead st)) && (negb fx || ids_in_order (put_lead st) ids n) = false ->
  (Zlen (put_reqs st) =? 0) && (n =? Zlen (get_lead st)) && (negb fx || ids_in_order (get_lead st) ids n) = false ->
  (n =? Zlen (put_lead st) + Zlen (get_lead st)) && negb hs && negb fx = false ->
  ex_err (extract_reqs fx st n ids hs stat0) = NC_NOERR ->
  subset_res fx st n ids hs stat0.
Proof.
  intros fx st n ids hs stat0 (Hp & Hg) Hn E1 E2 E3. unfold subset_res, extract_reqs. cbv zeta.
  destruct (n <? 0) eqn:E0; [lia|]. rewrite E1, E2, E3.
  destruct (ex_mark ids 0 hs (put_lead st) (get_lead st) stat0 0 0 0 0 NC_NOERR)
    as [[[[[[[pl1 gl1] stat1] nwl] nwr] nrl] nrr] err] eqn:Em.
  destruct (negb (err =? NC_NOERR)) eqn:Ee.
  { destruct fx; ex_proj; intros Herr; lia. }
  assert (err = NC_NOERR) by lia. subst err.
  destruct (ex_mark_spec _ _ _ _ _ _ _ _ _ _ _ _ _ _ _ _ _ _ Em) as (_ & c1 & s1 & c2 & s2 & Hm1 & Hm2 & -> & -> & -> & ->).
  rewrite ex_copy_spec. cbv iota beta.
  replace (0 + s1) with s1 by lia. replace (0 + s2) with s2 by lia.
  replace (0 + c1) with c1 by lia. replace (0 + c2) with c2 by lia.
  destruct (if s1 =? 0 then (pl1, put_reqs st) else coalesce_nonlead pl1 (put_reqs st) 0) as [pl2 pr2] eqn:Ep.
  destruct (if s2 =? 0 then (gl1, get_reqs st) else coalesce_nonlead gl1 (get_reqs st) 0) as [gl2 gr2] eqn:Eg.
  intros _. ex_proj.
  destruct (side_subset _ _ _ _ _ _ _ _ _ _ _ _ _ Hp Hm1 Ep) as (_ & H1 & Hc1).
  destruct (side_subset _ _ _ _ _ _ _ _ _ _ _ _ _ Hg Hm2 Eg) as (_ & H2 & Hc2).
  exists pl1, gl1, stat1, c1, s1, c2, s2. repeat split; assumption.
Qed.

(* the unrepaired library (fx = false): the third shortcut needs statuses == NULL *)
Lemma subset_struct : forall st n ids hs stat0,
  nb_inv st -> no_shortcut st n -> 0 <= n ->
  (hs = true \/ n <> Zlen (put_lead st) + Zlen (get_lead st)) ->
  ex_err (extract_reqs false st n ids hs stat0) = NC_NOERR ->
  subset_res false st n ids hs stat0.
Proof.
  intros st n ids hs stat0 Hinv (Hns1 & Hns2) Hn Hhs Herr.
  apply subset_path_struct; try assumption; cbn [negb orb]; rewrite ?andb_true_r.
  - destruct ((Zlen (get_reqs st) =? 0) && (n =? Zlen (put_lead st))) eqn:E1; [exfalso; apply Hns1; lia|reflexivity].
  - destruct ((Zlen (put_reqs st) =? 0) && (n =? Zlen (get_lead st))) eqn:E2; [exfalso; apply Hns2; lia|reflexivity].
  - destruct Hhs as [->|Hne]; [cbn [negb]; apply andb_false_r|].
    destruct (n =? Zlen (put_lead st) + Zlen (get_lead st)) eqn:E; [lia|reflexivity].
Qed.

Lemma selp_put_id : forall x, Z.even x = true -> 0 <= x -> selp x = true.
Proof.
  intros x He Hx. unfold selp. rewrite w_rem2_even, He. unfold NC_REQ_NULL.
  destruct (x =? -1) eqn:E; [lia|reflexivity].
Qed.

Lemma selg_get_id : forall x, Z.even x = false -> 0 <= x -> selg x = true.
Proof.
  intros x He Hx. unfold selg. rewrite w_rem2_even, He. unfold NC_REQ_NULL.
  destruct (x =? -1) eqn:E; [lia|reflexivity].
Qed.

Lemma existsb_sel_in : forall sel ids y, sel y = true ->
  (existsb (fun x => sel x && (y =? x)) ids = true <-> In y ids).
Proof.
  intros sel ids y Hs. rewrite existsb_exists. split.
  - intros (x & Hx & Hc). assert (y = x) by lia. subst x. exact Hx.
  - intros Hy. exists y. split; [exact Hy|]. rewrite Hs, Z.eqb_refl. reflexivity.
Qed.

Lemma side_flag_iff : forall sel leads ids i hs leads2,
  Forall (fun l => l_to_free l = false) leads -> (forall l, In l leads -> sel (l_id l) = true) ->
  Forall2 co_rel (map (mark_lead sel ids i hs) leads) leads2 ->
  forall l', In l' leads2 -> (l_to_free l' = true <-> In (l_id l') ids).
Proof.
  intros sel leads ids i hs leads2 Hunf Hsel Hco l' Hin.
  destruct (w_F2_In_r _ _ _ _ _ _ Hco Hin) as (l1 & Hl1 & Hrel).
  apply in_map_iff in Hl1. destruct Hl1 as (l & <- & Hl).
  destruct (co_rel_same _ _ Hrel) as (Hs & Hf & _).
  rewrite Forall_forall in Hunf.
  rewrite Hf, <- (lead_same_id _ _ Hs), mark_lead_id, mark_lead_to_free, (Hunf l Hl). cbn [orb].
  apply existsb_sel_in. apply Hsel. exact Hl.
Qed.

Lemma put_ids_sel : forall maxid leads reqs, queue_inv true maxid leads reqs ->
  forall l, In l leads -> selp (l_id l) = true.
Proof.
  intros maxid leads reqs (_ & _ & _ & Hwf & _) l Hl. rewrite Forall_forall in Hwf.
  destruct (Hwf l Hl) as (He & Hid & _). apply selp_put_id; assumption.
Qed.

Lemma get_ids_sel : forall maxid leads reqs, queue_inv false maxid leads reqs ->
  forall l, In l leads -> selg (l_id l) = true.
Proof.
  intros maxid leads reqs (_ & _ & _ & Hwf & _) l Hl. rewrite Forall_forall in Hwf.
  destruct (Hwf l Hl) as (He & Hid & _). apply selg_get_id; assumption.
Qed.

(* ---- consequences of subset_res, either variant ---- *)
Lemma subset_res_flags : forall fx st n ids hs stat0, nb_inv st -> subset_res fx st n ids hs stat0 ->
  forall l', In l' (put_lead (ex_st (extract_reqs fx st n ids hs stat0)) ++
                    get_lead (ex_st (extract_reqs fx st n ids hs stat0))) ->
  (l_to_free l' = true <-> In (l_id l') ids).
Proof.
  intros fx st n ids hs stat0 Hinv Hres l' Hin.
  destruct Hres as (pl1 & gl1 & stat1 & c1 & s1 & c2 & s2 & _ & _ & _ & -> & -> & Hc1 & Hc2 & _).
  destruct Hinv as (Hp & Hg). apply in_app_or in Hin. destruct Hin as [Hin|Hin].
  - eapply side_flag_iff; [| |exact Hc1|exact Hin]; [apply Hp|eapply put_ids_sel; exact Hp].
  - eapply side_flag_iff; [| |exact Hc2|exact Hin]; [apply Hg|eapply get_ids_sel; exact Hg].
Qed.

Lemma side_status : forall sel leads ids leads2,
  Forall (fun l => l_to_free l = false) leads ->
  Forall2 co_rel (map (mark_lead sel ids 0 true) leads) leads2 ->
  forall l' k, In l' leads2 -> l_to_free l' = true -> l_status l' = Some k ->
  0 <= k < Zlen ids /\ znth ids k NC_REQ_NULL = l_id l'.
Proof.
  intros sel leads ids leads2 Hunf Hco l' k Hin Hf Hst.
  destruct (w_F2_In_r _ _ _ _ _ _ Hco Hin) as (l1 & Hl1 & Hrel).
  apply in_map_iff in Hl1. destruct Hl1 as (l & <- & Hl).
  destruct (co_rel_same _ _ Hrel) as (Hs & Hf' & Hst').
  rewrite Forall_forall in Hunf. rewrite Hf' in Hf. rewrite Hst' in Hst.
  destruct (mark_lead_status sel ids 0 l k (Hunf l Hl) Hf Hst) as (Hk & Hz).
  replace (k - 0) with k in Hz by lia.
  rewrite <- (lead_same_id _ _ Hs), mark_lead_id. split; [lia|exact Hz].
Qed.

Lemma subset_res_status : forall fx st n ids stat0, nb_inv st -> subset_res fx st n ids true stat0 ->
  forall l' i, In l' (put_lead (ex_st (extract_reqs fx st n ids true stat0)) ++
                      get_lead (ex_st (extract_reqs fx st n ids true stat0))) ->
  l_to_free l' = true -> l_status l' = Some i ->
  znth ids i NC_REQ_NULL = l_id l'.
Proof.
  intros fx st n ids stat0 Hinv Hres l' i Hin Hf Hst.
  destruct Hres as (pl1 & gl1 & stat1 & c1 & s1 & c2 & s2 & _ & _ & _ & -> & -> & Hc1 & Hc2 & _).
  destruct Hinv as (Hp & Hg). apply in_app_or in Hin. destruct Hin as [Hin|Hin].
  - eapply side_status; [|exact Hc1|exact Hin|exact Hf|exact Hst]. apply Hp.
  - eapply side_status; [|exact Hc2|exact Hin|exact Hf|exact Hst]. apply Hg.
Qed.

Lemma sel_found : forall sel ids i hs leads leads1 c s,
  NoDup (map l_id leads) -> Forall (fun l => l_to_free l = false) leads ->
  mark_list sel ids i hs leads = Some (leads1, c, s) ->
  forall x, In x ids -> sel x = true -> exists l1, find_flagged leads1 x = Some l1.
Proof.
  intros sel ids i hs leads leads1 c s Hnd Hunf Hm x Hx Hsx.
  pose proof (mark_list_map _ _ _ _ _ _ _ _ Hnd Hm) as H1.
  destruct (mark_list_pending _ _ _ _ _ _ _ _ Hnd Hm) as (Hp & _).
  destruct (Hp x Hx Hsx) as (l & Hl & Hid & Hf).
  assert (Hnd1 : NoDup (map l_id leads1)).
  { rewrite H1, map_map. erewrite map_ext; [exact Hnd|]. intros a. apply mark_lead_id. }
  exists (mark_lead sel ids i hs l). rewrite <- Hid, <- (mark_lead_id sel ids i hs l).
  apply find_flagged_In; [exact Hnd1|rewrite H1; apply in_map; exact Hl|].
  rewrite mark_lead_to_free, Hf. cbn [orb]. apply existsb_exists. exists x. split; [exact Hx|].
  rewrite Hsx, Hid, Z.eqb_refl. reflexivity.
Qed.

Lemma subset_res_ids : forall fx st n ids hs stat0, nb_inv st -> subset_res fx st n ids hs stat0 ->
  forall i, 0 <= i < Zlen ids -> znth (ex_ids (extract_reqs fx st n ids hs stat0)) i 0 = NC_REQ_NULL.
Proof.
  intros fx st n ids hs stat0 Hinv Hres i Hi.
  destruct Hres as (pl1 & gl1 & stat1 & c1 & s1 & c2 & s2 & _ & Hm1 & Hm2 & _ & _ & _ & _ & -> & _).
  destruct Hinv as ((Hnd1 & _ & _ & _ & Hu1) & (Hnd2 & _ & _ & _ & Hu2)).
  rewrite (Proofs_Disk.znth_map _ _ _ 0 0 Hi).
  pose proof (Proofs_Disk.znth_In ids i 0 Hi) as Hin. set (x := znth ids i 0) in *.
  unfold reset_one. destruct (x =? NC_REQ_NULL) eqn:En; [lia|].
  destruct (Z.rem x 2 =? 0) eqn:Ep.
  - destruct (sel_found _ _ _ _ _ _ _ _ Hnd1 Hu1 Hm1 x Hin) as (l1 & ->); [|reflexivity].
    unfold selp. rewrite En, Ep. reflexivity.
  - destruct (sel_found _ _ _ _ _ _ _ _ Hnd2 Hu2 Hm2 x Hin) as (l1 & ->); [|reflexivity].
    unfold selg. rewrite En, Ep. reflexivity.
Qed.

Lemma subset_res_stat : forall fx st n ids stat0, subset_res fx st n ids true stat0 ->
  forall i, 0 <= i < Zlen ids -> Zlen stat0 = Zlen ids ->
  znth (ex_stat (extract_reqs fx st n ids true stat0)) i 0 = NC_NOERR.
Proof.
  intros fx st n ids stat0 Hres i Hi Hlen.
  destruct Hres as (pl1 & gl1 & stat1 & c1 & s1 & c2 & s2 & Hm & _ & _ & _ & _ & _ & _ & _ & ->).
  destruct (ex_mark_stat _ _ _ _ _ _ _ _ _ _ _ _ _ _ _ _ _ Hm ltac:(lia)) as (_ & Hin & _).
  apply Hin; lia.
Qed.

Lemma subset_res_pending : forall fx st n ids hs stat0, nb_inv st -> subset_res fx st n ids hs stat0 ->
  NoDup (filter (fun x => negb (x =? NC_REQ_NULL)) ids) /\
  forall x, In x ids -> x <> NC_REQ_NULL -> exists l, In l (put_lead st ++ get_lead st) /\ l_id l = x.
Proof.
  intros fx st n ids hs stat0 Hinv Hres.
  destruct Hres as (pl1 & gl1 & stat1 & c1 & s1 & c2 & s2 & _ & Hm1 & Hm2 & _).
  destruct Hinv as ((Hnd1 & _) & (Hnd2 & _)).
  destruct (mark_list_pending _ _ _ _ _ _ _ _ Hnd1 Hm1) as (Hp1 & Hn1 & _).
  destruct (mark_list_pending _ _ _ _ _ _ _ _ Hnd2 Hm2) as (Hp2 & Hn2 & _).
  split.
  - clear - Hn1 Hn2. induction ids as [|x r IH]; [constructor|]. cbn [filter] in *.
    unfold selp at 1 in Hn1. unfold selg at 1 in Hn2.
    destruct (x =? NC_REQ_NULL) eqn:En; cbn [negb andb] in *; [apply IH; assumption|].
    destruct (Z.rem x 2 =? 0) eqn:Ep; cbn [negb] in *.
    + apply NoDup_cons_iff in Hn1. destruct Hn1 as (Hx & Hn1). constructor; [|apply IH; assumption].
      intros Hin. apply Hx. apply filter_In in Hin. apply filter_In. split; [apply Hin|].
      unfold selp. rewrite En, Ep. reflexivity.
    + apply NoDup_cons_iff in Hn2. destruct Hn2 as (Hx & Hn2). constructor; [|apply IH; assumption].
      intros Hin. apply Hx. apply filter_In in Hin. apply filter_In. split; [apply Hin|].
      unfold selg. rewrite En, Ep. reflexivity.
  - intros x Hx Hne. destruct (Z.rem x 2 =? 0) eqn:Ep.
    + destruct (Hp1 x Hx) as (l & Hl & Hid & _).
      { unfold selp. rewrite Ep. destruct (x =? NC_REQ_NULL) eqn:En; [lia|reflexivity]. }
      exists l. split; [apply in_or_app; left; exact Hl|exact Hid].
    + destruct (Hp2 x Hx) as (l & Hl & Hid & _).
      { unfold selg. rewrite Ep. destruct (x =? NC_REQ_NULL) eqn:En; [lia|reflexivity]. }
      exists l. split; [apply in_or_app; right; exact Hl|exact Hid].
Qed.

(* ---- fx = false: the unrepaired library ---- *)
Theorem subset_flags_gen : forall st n ids hs stat0,
  nb_inv st -> no_shortcut st n -> 0 <= n ->
  (hs = true \/ n <> Zlen (put_lead st) + Zlen (get_lead st)) ->
  ex_err (extract_reqs false st n ids hs stat0) = NC_NOERR ->
  forall l', In l' (put_lead (ex_st (extract_reqs false st n ids hs stat0)) ++
                    get_lead (ex_st (extract_reqs false st n ids hs stat0))) ->
  (l_to_free l' = true <-> In (l_id l') ids).
Proof.
  intros st n ids hs stat0 Hinv Hns Hn Hhs Herr.
  apply subset_res_flags; [exact Hinv|]. apply subset_struct; assumption.
Qed.

Theorem subset_flags : forall st n ids stat0,
  nb_inv st -> no_shortcut st n -> 0 <= n ->
  ex_err (extract_reqs false st n ids true stat0) = NC_NOERR ->
  forall l', In l' (put_lead (ex_st (extract_reqs false st n ids true stat0)) ++
                    get_lead (ex_st (extract_reqs false st n ids true stat0))) ->
  (l_to_free l' = true <-> In (l_id l') ids).
Proof.
  intros st n ids stat0 Hinv Hns Hn Herr. eapply subset_flags_gen; try eassumption. left. reflexivity.
Qed.

(* the status pointer of a completed request is the slot of the position that names it *)
Theorem status_own_partial : forall st n ids stat0,
  nb_inv st -> no_shortcut st n -> 0 <= n ->
  ex_err (extract_reqs false st n ids true stat0) = NC_NOERR ->
  forall l' i, In l' (put_lead (ex_st (extract_reqs false st n ids true stat0)) ++
                      get_lead (ex_st (extract_reqs false st n ids true stat0))) ->
  l_to_free l' = true -> l_status l' = Some i ->
  znth ids i NC_REQ_NULL = l_id l'.
Proof.
  intros st n ids stat0 Hinv Hns Hn Herr.
  apply subset_res_status; [exact Hinv|]. apply subset_struct; try assumption. left. reflexivity.
Qed.

(* every named id is reset; NULL ids stay NULL *)
Theorem subset_ids_reset_gen : forall st n ids hs stat0,
  nb_inv st -> no_shortcut st n -> 0 <= n ->
  (hs = true \/ n <> Zlen (put_lead st) + Zlen (get_lead st)) ->
  ex_err (extract_reqs false st n ids hs stat0) = NC_NOERR ->
  forall i, 0 <= i < Zlen ids -> znth (ex_ids (extract_reqs false st n ids hs stat0)) i 0 = NC_REQ_NULL.
Proof.
  intros st n ids hs stat0 Hinv Hns Hn Hhs Herr.
  apply subset_res_ids; [exact Hinv|]. apply subset_struct; assumption.
Qed.

Theorem subset_ids_reset : forall st n ids stat0,
  nb_inv st -> no_shortcut st n -> 0 <= n ->
  ex_err (extract_reqs false st n ids true stat0) = NC_NOERR ->
  forall i, 0 <= i < Zlen ids -> znth (ex_ids (extract_reqs false st n ids true stat0)) i 0 = NC_REQ_NULL.
Proof.
  intros st n ids stat0 Hinv Hns Hn Herr. eapply subset_ids_reset_gen; try eassumption. left. reflexivity.
Qed.

Theorem subset_statuses : forall st n ids stat0,
  nb_inv st -> no_shortcut st n -> 0 <= n ->
  ex_err (extract_reqs false st n ids true stat0) = NC_NOERR ->
  forall i, 0 <= i < Zlen ids -> Zlen stat0 = Zlen ids ->
  znth (ex_stat (extract_reqs false st n ids true stat0)) i 0 = NC_NOERR.
Proof.
  intros st n ids stat0 Hinv Hns Hn Herr.
  apply subset_res_stat. apply subset_struct; try assumption. left. reflexivity.
Qed.

(* success of the subset path: every non-NULL id names a pending request and occurs once *)
Theorem subset_ids_pending : forall st n ids hs stat0,
  nb_inv st -> no_shortcut st n -> 0 <= n ->
  (hs = true \/ n <> Zlen (put_lead st) + Zlen (get_lead st)) ->
  ex_err (extract_reqs false st n ids hs stat0) = NC_NOERR ->
  NoDup (filter (fun x => negb (x =? NC_REQ_NULL)) ids) /\
  forall x, In x ids -> x <> NC_REQ_NULL -> exists l, In l (put_lead st ++ get_lead st) /\ l_id l = x.
Proof.
  intros st n ids hs stat0 Hinv Hns Hn Hhs Herr.
  eapply subset_res_pending; [exact Hinv|]. apply subset_struct; eassumption.
Qed.

(* ====================================================================== *)
(* W5. wait_one preserves the queue invariant                              *)
(* ====================================================================== *)
(* the state between extract_reqs and commit_post: flagged leads own nothing any more, the kept
   leads own consecutive slices of the coalesced queue, whose entries still point to the OLD
   index of their lead (position in the full lead list) *)
Definition mid_inv (isput : bool) (maxid : Z) (leads : list lead) (reqs : list req) : Prop :=
  NoDup (map l_id leads) /\ Forall (fun l => l_id l <= maxid) leads /\
  (exists segs, reqs = concat segs /\ lay l_to_free leads segs 0 0) /\
  Forall (fun l => l_to_free l = false -> lead_wf isput reqs l) leads.

Lemma xrel_ids : forall reqs reqs2 leads leads2, Forall2 (xrel reqs reqs2) leads leads2 ->
  map l_id leads = map l_id leads2.
Proof.
  intros reqs reqs2 leads leads2 H. eapply F2_same_ids; [|exact H]. intros x y (Hs & _). apply Hs.
Qed.

Lemma side_mid : forall isput maxid leads reqs leads2 reqs2 ext nl,
  queue_inv isput maxid leads reqs -> side_ok leads reqs leads2 reqs2 ext nl ->
  mid_inv isput maxid leads2 reqs2.
Proof.
  intros isput maxid leads reqs leads2 reqs2 ext nl (Hnd & Hmax & _ & Hwf & _) (HF & _ & _ & Hsegs).
  split; [rewrite <- (xrel_ids _ _ _ _ HF); exact Hnd|]. split; [|split; [exact Hsegs|]].
  - apply Forall_forall. intros l2 Hl2. destruct (w_F2_In_r _ _ _ _ _ _ HF Hl2) as (l & Hl & (Hs & _)).
    rewrite Forall_forall in Hmax. rewrite <- (lead_same_id _ _ Hs). apply Hmax. exact Hl.
  - apply Forall_forall. intros l2 Hl2 Hf. destruct (w_F2_In_r _ _ _ _ _ _ HF Hl2) as (l & Hl & (Hs & Hr)).
    rewrite Forall_forall in Hwf. specialize (Hwf l Hl). rewrite lead_wf_is_seg in *.
    rewrite (Hr Hf). eapply lead_wf_seg_indep; [exact Hs|reflexivity|exact Hwf].
Qed.

Lemma w_F2_Forall_left : forall A B (P : A -> Prop) (a : list A) (b : list B),
  Forall2 (fun x _ => P x) a b -> Forall P a.
Proof. intros A B P a b H. induction H; constructor; assumption. Qed.

Lemma req_core_set_lead : forall sl k, map req_core (map (fun q => r_set_lead q k) sl) = map req_core sl.
Proof. intros sl k. rewrite map_map. apply map_ext. intros q. reflexivity. Qed.

(* one queue through commit_post *)
Definition post_side (nl : Z) (leads : list lead) (reqs : list req) : list lead * list req :=
  if nl >? 0 then
    let '(pl, pr) := compact_leads leads reqs 0 0 in (pl, match pl with [] => [] | _ => pr end)
  else (leads, reqs).

Lemma post_side_ok : forall isput maxid leads reqs nl ls rs,
  mid_inv isput maxid leads reqs -> nl = Zlen (flagged leads) ->
  post_side nl leads reqs = (ls, rs) ->
  queue_inv isput maxid ls rs /\ ls = kept leads /\
  Forall (fun l => map req_core (lead_reqs rs l) = map req_core (lead_reqs reqs l)) ls.
Proof.
  intros isput maxid leads reqs nl ls rs (Hnd & Hmax & (segs & Hc & Hlay) & Hwf) Hnl Hps.
  unfold post_side in Hps.
  pose proof (lay_lead_reqs l_to_free leads segs [] 0 Hlay) as Hsl. cbn [app] in Hsl. rewrite <- Hc in Hsl.
  destruct (nl >? 0) eqn:En.
  - destruct (compact_lay leads segs [] 0 0 Hlay ltac:(lia)) as (Hcl & Hlay3). cbn [app] in Hcl.
    rewrite <- Hc in Hcl. rewrite Hcl in Hps.
    set (cs := compact_segs leads segs 0 0) in *.
    assert (Hrs : rs = concat cs /\ ls = kept leads).
    { destruct (kept leads) as [|k0 kr] eqn:Ek.
      - inversion Hps; subst ls rs. apply lay_nil_leads in Hlay3. rewrite Hlay3. split; reflexivity.
      - inversion Hps; subst ls rs. split; reflexivity. }
    destruct Hrs as (-> & ->). clear Hps.
    pose proof (lay_lead_reqs noskip (kept leads) cs [] 0 Hlay3) as Hsl3. cbn [app] in Hsl3.
    (* properties of the segments that survive compaction *)
    assert (HP : Forall2 (fun l sl => lead_wf_seg isput l sl /\ map req_core sl = map req_core (lead_reqs reqs l))
                         (kept leads) cs).
    { apply (compact_segs_F2 (fun l sl => lead_wf_seg isput l sl /\ map req_core sl = map req_core (lead_reqs reqs l))).
      - intros l sl k (H1 & H2). split; [apply lead_wf_seg_set_lead; exact H1|].
        rewrite req_core_set_lead. exact H2.
      - eapply w_F2_impl; [|exact (w_F2_Forall_l _ _ _ _ _ _ Hwf Hsl)].
        intros l sl _ _ (Hw & He) Hf. specialize (Hw Hf). specialize (He Hf). rewrite lead_wf_is_seg in Hw.
        rewrite <- He. split; [exact Hw|reflexivity]. }
    pose proof (w_F2_and _ _ _ _ _ _ Hsl3 HP) as HQ.
    split; [|split; [reflexivity|]].
    + split; [apply w_NoDup_map_filter; exact Hnd|]. split; [|split; [|split]].
      * apply Forall_forall. intros l Hl. apply filter_In in Hl. rewrite Forall_forall in Hmax. apply Hmax. apply Hl.
      * pose proof (lay_slices_ok noskip (kept leads) cs [] 0) as Hso. cbn [app] in Hso. apply Hso; [|exact Hlay3].
        apply Forall_forall. intros l _. reflexivity.
      * eapply w_F2_Forall_left. eapply w_F2_impl; [|exact HQ].
        intros l sl _ _ (He & Hw & _). rewrite lead_wf_is_seg. rewrite (He eq_refl). exact Hw.
      * apply kept_unflagged.
    + eapply w_F2_Forall_left. eapply w_F2_impl; [|exact HQ].
      intros l sl _ _ (He & _ & Hcore). rewrite (He eq_refl). exact Hcore.
  - inversion Hps; subst ls rs. clear Hps.
    assert (Hunf : Forall (fun l => l_to_free l = false) leads).
    { apply w_filter_nil_Forall. apply Proofs_Disk.Zlen_zero_nil.
      pose proof (Proofs_Disk.Zlen_nonneg (flagged leads)). unfold flagged in *. lia. }
    split; [|split; [symmetry; apply kept_all; exact Hunf|]].
    + split; [exact Hnd|]. split; [exact Hmax|]. split; [|split; [|exact Hunf]].
      * pose proof (lay_slices_ok l_to_free leads segs [] 0 Hunf Hlay) as Hso. cbn [app] in Hso.
        rewrite <- Hc in Hso. exact Hso.
      * rewrite Forall_forall in *. intros l Hl. apply Hwf; [exact Hl|apply Hunf; exact Hl].
    + apply Forall_forall. intros l _. reflexivity.
Qed.

(* commit_io does not touch the queues *)
Lemma commit_io_fields : forall sr ss st pe ge dw dr nn file,
  put_lead (fst (commit_io sr ss st pe ge dw dr nn file)) = put_lead st /\
  put_reqs (fst (commit_io sr ss st pe ge dw dr nn file)) = put_reqs st /\
  get_lead (fst (commit_io sr ss st pe ge dw dr nn file)) = get_lead st /\
  get_reqs (fst (commit_io sr ss st pe ge dw dr nn file)) = get_reqs st /\
  maxPutID (fst (commit_io sr ss st pe ge dw dr nn file)) = maxPutID st /\
  maxGetID (fst (commit_io sr ss st pe ge dw dr nn file)) = maxGetID st.
Proof.
  intros sr ss st pe ge dw dr nn file. unfold commit_io. cbv zeta. cbn [fst].
  destruct (dw && (st_numrecs st <? nn)); destruct dr; repeat split; reflexivity.
Qed.

Lemma commit_post_fields : forall st nwl nrl,
  (put_lead (fst (commit_post st nwl nrl)), put_reqs (fst (commit_post st nwl nrl)))
    = post_side nwl (put_lead st) (put_reqs st) /\
  (get_lead (fst (commit_post st nwl nrl)), get_reqs (fst (commit_post st nwl nrl)))
    = post_side nrl (get_lead st) (get_reqs st) /\
  maxPutID (fst (commit_post st nwl nrl)) = maxPutID st /\
  maxGetID (fst (commit_post st nwl nrl)) = maxGetID st /\
  snd (commit_post st nwl nrl) =
    (if nwl >? 0 then flat_map (fun l => (if l_swapbuf l then [EvSwapBack (l_tag l)] else []) ++ [EvPutDone (l_tag l)])
                               (filter l_to_free (put_lead st)) else []) ++
    (if nrl >? 0 then map (fun l => EvGetDone (l_tag l) (l_xaddr l) (l_nelems l * g_xsz (l_geom l)) (l_status l))
                          (filter l_to_free (get_lead st)) else []).
Proof.
  intros st nwl nrl. unfold commit_post, post_side.
  destruct (nwl >? 0).
  - destruct (compact_leads (put_lead st) (put_reqs st) 0 0) as [pl pr].
    cbn [get_lead get_reqs set_abuf set_put].
    destruct (nrl >? 0).
    + destruct (compact_leads (get_lead st) (get_reqs st) 0 0) as [gl gr]. cbn. repeat split; reflexivity.
    + cbn. rewrite app_nil_r. repeat split; reflexivity.
  - destruct (nrl >? 0).
    + destruct (compact_leads (get_lead st) (get_reqs st) 0 0) as [gl gr]. cbn. repeat split; reflexivity.
    + cbn. repeat split; reflexivity.
Qed.

(* the structure of a successful wait_one *)
Lemma wait_one_struct : forall sr ss fx st a file,
  wr_rc (fst (wait_one sr ss fx st a file)) = NC_NOERR ->
  ex_err (extract_reqs fx st (wa_n a) (wa_ids a) (wa_has_stat a) (wa_stat0 a)) = NC_NOERR /\
  exists st2,
    put_lead st2 = put_lead (ex_st (extract_reqs fx st (wa_n a) (wa_ids a) (wa_has_stat a) (wa_stat0 a))) /\
    put_reqs st2 = put_reqs (ex_st (extract_reqs fx st (wa_n a) (wa_ids a) (wa_has_stat a) (wa_stat0 a))) /\
    get_lead st2 = get_lead (ex_st (extract_reqs fx st (wa_n a) (wa_ids a) (wa_has_stat a) (wa_stat0 a))) /\
    get_reqs st2 = get_reqs (ex_st (extract_reqs fx st (wa_n a) (wa_ids a) (wa_has_stat a) (wa_stat0 a))) /\
    maxPutID st2 = maxPutID (ex_st (extract_reqs fx st (wa_n a) (wa_ids a) (wa_has_stat a) (wa_stat0 a))) /\
    maxGetID st2 = maxGetID (ex_st (extract_reqs fx st (wa_n a) (wa_ids a) (wa_has_stat a) (wa_stat0 a))) /\
    wr_st (fst (wait_one sr ss fx st a file)) =
      fst (commit_post st2 (ex_nwl (extract_reqs fx st (wa_n a) (wa_ids a) (wa_has_stat a) (wa_stat0 a)))
                           (ex_nrl (extract_reqs fx st (wa_n a) (wa_ids a) (wa_has_stat a) (wa_stat0 a)))) /\
    wr_ev (fst (wait_one sr ss fx st a file)) =
      snd (commit_post st2 (ex_nwl (extract_reqs fx st (wa_n a) (wa_ids a) (wa_has_stat a) (wa_stat0 a)))
                           (ex_nrl (extract_reqs fx st (wa_n a) (wa_ids a) (wa_has_stat a) (wa_stat0 a)))).
Proof.
  intros sr ss fx st a file. unfold wait_one. cbv zeta.
  set (ex := extract_reqs fx st (wa_n a) (wa_ids a) (wa_has_stat a) (wa_stat0 a)).
  destruct (negb (ex_err ex =? NC_NOERR)) eqn:Ee.
  - cbn [fst wr_rc]. intros Hrc. lia.
  - intros _. split; [lia|].
    pose proof (commit_io_fields sr ss (ex_st ex) (ex_put ex) (ex_get ex) (0 <? Zlen (ex_put ex))
                  (0 <? Zlen (ex_get ex)) (newnumrecs_loop (ex_st ex)) file) as Hio.
    destruct (commit_io sr ss (ex_st ex) (ex_put ex) (ex_get ex) (0 <? Zlen (ex_put ex))
                (0 <? Zlen (ex_get ex)) (newnumrecs_loop (ex_st ex)) file) as [st2 file'].
    cbn [fst] in Hio. destruct Hio as (H1 & H2 & H3 & H4 & H5 & H6).
    exists st2. destruct (commit_post st2 (ex_nwl ex) (ex_nrl ex)) as [st3 ev].
    cbn [fst snd wr_st wr_ev]. repeat split; assumption.
Qed.

Theorem wait_one_inv : forall sr ss fx st a file, nb_inv st ->
  wr_rc (fst (wait_one sr ss fx st a file)) = NC_NOERR ->
  nb_inv (wr_st (fst (wait_one sr ss fx st a file))).
Proof.
  intros sr ss fx st a file Hinv Hrc.
  destruct (wait_one_struct sr ss fx st a file Hrc) as (Herr & st2 & H1 & H2 & H3 & H4 & H5 & H6 & Hst & _).
  destruct (extract_sides _ _ _ _ _ _ Hinv Herr) as (Hsp & Hsg & Hmp & Hmg & _).
  rewrite Hst.
  destruct (commit_post_fields st2 (ex_nwl (extract_reqs fx st (wa_n a) (wa_ids a) (wa_has_stat a) (wa_stat0 a)))
              (ex_nrl (extract_reqs fx st (wa_n a) (wa_ids a) (wa_has_stat a) (wa_stat0 a))))
    as (Fp & Fg & Fmp & Fmg & _).
  rewrite H1, H2 in Fp. rewrite H3, H4 in Fg.
  destruct Hinv as (Hp & Hg).
  pose proof (side_mid _ _ _ _ _ _ _ _ Hp Hsp) as Mp. pose proof (side_mid _ _ _ _ _ _ _ _ Hg Hsg) as Mg.
  destruct Hsp as (_ & _ & Hnwl & _). destruct Hsg as (_ & _ & Hnrl & _).
  symmetry in Fp, Fg.
  destruct (post_side_ok _ _ _ _ _ _ _ Mp Hnwl Fp) as (Qp & _).
  destruct (post_side_ok _ _ _ _ _ _ _ Mg Hnrl Fg) as (Qg & _).
  split.
  - rewrite Fmp, H5, Hmp. exact Qp.
  - rewrite Fmg, H6, Hmg. exact Qg.
Qed.

(* the intermediate invariant, as a theorem about extract_reqs *)
Theorem extract_mid_inv : forall fx st n ids hs stat0, nb_inv st ->
  ex_err (extract_reqs fx st n ids hs stat0) = NC_NOERR ->
  mid_inv true (maxPutID st) (put_lead (ex_st (extract_reqs fx st n ids hs stat0)))
          (put_reqs (ex_st (extract_reqs fx st n ids hs stat0))) /\
  mid_inv false (maxGetID st) (get_lead (ex_st (extract_reqs fx st n ids hs stat0)))
          (get_reqs (ex_st (extract_reqs fx st n ids hs stat0))).
Proof.
  intros fx st n ids hs stat0 Hinv Herr.
  destruct (extract_sides _ _ _ _ _ _ Hinv Herr) as (Hsp & Hsg & _). destruct Hinv as (Hp & Hg).
  split; eapply side_mid; eassumption.
Qed.

(* ====================================================================== *)
(* W6. frame                                                               *)
(* ====================================================================== *)
Lemma w_NoDup_map_inj : forall A B (f : A -> B) l x y,
  NoDup (map f l) -> In x l -> In y l -> f x = f y -> x = y.
Proof.
  intros A B f l x y. induction l as [|a l IH]; intros Hnd Hx Hy E; [destruct Hx|].
  cbn [map] in Hnd. apply NoDup_cons_iff in Hnd. destruct Hnd as (Ha & Hnd).
  destruct Hx as [->|Hx]; destruct Hy as [->|Hy].
  - reflexivity.
  - exfalso. apply Ha. rewrite E. apply in_map. exact Hy.
  - exfalso. apply Ha. rewrite <- E. apply in_map. exact Hx.
  - apply IH; assumption.
Qed.

(* one queue: a lead whose partner is not flagged survives with its requests *)
Lemma frame_side : forall isput maxid leads reqs leads2 reqs2 ext nl ls rs l,
  queue_inv isput maxid leads reqs -> side_ok leads reqs leads2 reqs2 ext nl ->
  post_side nl leads2 reqs2 = (ls, rs) ->
  In l leads -> (forall l1, In l1 leads2 -> l_id l1 = l_id l -> l_to_free l1 = false) ->
  exists l', In l' ls /\ lead_same l l' /\ l_to_free l' = false /\
             map req_core (lead_reqs rs l') = map req_core (lead_reqs reqs l).
Proof.
  intros isput maxid leads reqs leads2 reqs2 ext nl ls rs l Hq Hs Hps Hl Hnf.
  pose proof (side_mid _ _ _ _ _ _ _ _ Hq Hs) as Hm.
  destruct Hs as (HF & _ & Hnl & _).
  destruct (post_side_ok _ _ _ _ _ _ _ Hm Hnl Hps) as (_ & Hls & Hcore).
  destruct (w_F2_In_l _ _ _ _ _ _ HF Hl) as (l2 & Hl2 & (Hsame & Hr)).
  assert (Hf2 : l_to_free l2 = false).
  { apply Hnf; [exact Hl2|]. symmetry. apply lead_same_id. exact Hsame. }
  exists l2. assert (Hin : In l2 ls).
  { rewrite Hls. apply filter_In. split; [exact Hl2|]. rewrite Hf2. reflexivity. }
  split; [exact Hin|]. split; [exact Hsame|]. split; [exact Hf2|].
  rewrite Forall_forall in Hcore. rewrite (Hcore l2 Hin), (Hr Hf2). reflexivity.
Qed.

Theorem wait_subset_frame_partial : forall sr ss fx st a file, nb_inv st ->
  wr_rc (fst (wait_one sr ss fx st a file)) = NC_NOERR ->
  forall l, In l (put_lead st ++ get_lead st) ->
  (forall l1, In l1 (put_lead (ex_st (extract_reqs fx st (wa_n a) (wa_ids a) (wa_has_stat a) (wa_stat0 a))) ++
                     get_lead (ex_st (extract_reqs fx st (wa_n a) (wa_ids a) (wa_has_stat a) (wa_stat0 a)))) ->
              l_id l1 = l_id l -> l_to_free l1 = false) ->
  exists l', In l' (put_lead (wr_st (fst (wait_one sr ss fx st a file))) ++
                    get_lead (wr_st (fst (wait_one sr ss fx st a file)))) /\
    lead_same l l' /\ l_to_free l' = false /\
    map (fun q => (r_start q, r_count q, r_nelems q, r_xaddr q))
        (lead_reqs (if Z.even (l_id l) then put_reqs (wr_st (fst (wait_one sr ss fx st a file)))
                    else get_reqs (wr_st (fst (wait_one sr ss fx st a file)))) l') =
    map (fun q => (r_start q, r_count q, r_nelems q, r_xaddr q))
        (lead_reqs (if Z.even (l_id l) then put_reqs st else get_reqs st) l).
Proof.
  intros sr ss fx st a file Hinv Hrc l Hl Hnf.
  destruct (wait_one_struct sr ss fx st a file Hrc) as (Herr & st2 & H1 & H2 & H3 & H4 & H5 & H6 & Hst & _).
  destruct (extract_sides _ _ _ _ _ _ Hinv Herr) as (Hsp & Hsg & _).
  rewrite Hst.
  destruct (commit_post_fields st2 (ex_nwl (extract_reqs fx st (wa_n a) (wa_ids a) (wa_has_stat a) (wa_stat0 a)))
              (ex_nrl (extract_reqs fx st (wa_n a) (wa_ids a) (wa_has_stat a) (wa_stat0 a))))
    as (Fp & Fg & _).
  rewrite H1, H2 in Fp. rewrite H3, H4 in Fg. symmetry in Fp, Fg.
  destruct Hinv as (Hp & Hg).
  apply in_app_or in Hl. destruct Hl as [Hl|Hl].
  - assert (He : Z.even (l_id l) = true).
    { destruct Hp as (_ & _ & _ & Hwf & _). rewrite Forall_forall in Hwf. apply (Hwf l Hl). }
    rewrite He.
    destruct (frame_side _ _ _ _ _ _ _ _ _ _ l Hp Hsp Fp Hl) as (l' & Hin & Hsame & Hf & Hcore).
    { intros l1 Hl1. apply Hnf. apply in_or_app. left. exact Hl1. }
    exists l'. split; [apply in_or_app; left; exact Hin|]. split; [exact Hsame|]. split; [exact Hf|exact Hcore].
  - assert (He : Z.even (l_id l) = false).
    { destruct Hg as (_ & _ & _ & Hwf & _). rewrite Forall_forall in Hwf. apply (Hwf l Hl). }
    rewrite He.
    destruct (frame_side _ _ _ _ _ _ _ _ _ _ l Hg Hsg Fg Hl) as (l' & Hin & Hsame & Hf & Hcore).
    { intros l1 Hl1. apply Hnf. apply in_or_app. right. exact Hl1. }
    exists l'. split; [apply in_or_app; right; exact Hin|]. split; [exact Hsame|]. split; [exact Hf|exact Hcore].
Qed.

(* the leads of the state after a successful wait are the unflagged leads of the extraction *)
Lemma wait_one_leads : forall sr ss fx st a file, nb_inv st ->
  wr_rc (fst (wait_one sr ss fx st a file)) = NC_NOERR ->
  put_lead (wr_st (fst (wait_one sr ss fx st a file))) =
    kept (put_lead (ex_st (extract_reqs fx st (wa_n a) (wa_ids a) (wa_has_stat a) (wa_stat0 a)))) /\
  get_lead (wr_st (fst (wait_one sr ss fx st a file))) =
    kept (get_lead (ex_st (extract_reqs fx st (wa_n a) (wa_ids a) (wa_has_stat a) (wa_stat0 a)))).
Proof.
  intros sr ss fx st a file Hinv Hrc.
  destruct (wait_one_struct sr ss fx st a file Hrc) as (Herr & st2 & H1 & H2 & H3 & H4 & H5 & H6 & Hst & _).
  destruct (extract_sides _ _ _ _ _ _ Hinv Herr) as (Hsp & Hsg & _).
  rewrite Hst.
  destruct (commit_post_fields st2 (ex_nwl (extract_reqs fx st (wa_n a) (wa_ids a) (wa_has_stat a) (wa_stat0 a)))
              (ex_nrl (extract_reqs fx st (wa_n a) (wa_ids a) (wa_has_stat a) (wa_stat0 a))))
    as (Fp & Fg & _).
  rewrite H1, H2 in Fp. rewrite H3, H4 in Fg. symmetry in Fp, Fg.
  destruct Hinv as (Hp & Hg).
  pose proof (side_mid _ _ _ _ _ _ _ _ Hp Hsp) as Mp. pose proof (side_mid _ _ _ _ _ _ _ _ Hg Hsg) as Mg.
  destruct Hsp as (_ & _ & Hnwl & _). destruct Hsg as (_ & _ & Hnrl & _).
  destruct (post_side_ok _ _ _ _ _ _ _ Mp Hnwl Fp) as (_ & Ep & _).
  destruct (post_side_ok _ _ _ _ _ _ _ Mg Hnrl Fg) as (_ & Eg & _).
  split; assumption.
Qed.

Theorem wait_nreqs : forall sr ss fx st a file, nb_inv st ->
  wr_rc (fst (wait_one sr ss fx st a file)) = NC_NOERR ->
  nreqs (wr_st (fst (wait_one sr ss fx st a file))) =
    nreqs st
    - Zlen (flagged (put_lead (ex_st (extract_reqs fx st (wa_n a) (wa_ids a) (wa_has_stat a) (wa_stat0 a)))))
    - Zlen (flagged (get_lead (ex_st (extract_reqs fx st (wa_n a) (wa_ids a) (wa_has_stat a) (wa_stat0 a))))).
Proof.
  intros sr ss fx st a file Hinv Hrc.
  destruct (wait_one_leads sr ss fx st a file Hinv Hrc) as (Ep & Eg).
  destruct (extract_leads_same fx st (wa_n a) (wa_ids a) (wa_has_stat a) (wa_stat0 a)) as (Sp & Sg).
  unfold nreqs. rewrite Ep, Eg, (w_F2_len _ _ _ _ _ Sp), (w_F2_len _ _ _ _ _ Sg).
  unfold kept, flagged.
  pose proof (w_Zlen_filter_split _ l_to_free (put_lead (ex_st (extract_reqs fx st (wa_n a) (wa_ids a) (wa_has_stat a) (wa_stat0 a))))).
  pose proof (w_Zlen_filter_split _ l_to_free (get_lead (ex_st (extract_reqs fx st (wa_n a) (wa_ids a) (wa_has_stat a) (wa_stat0 a))))).
  lia.
Qed.

(* the ids of the completed requests do not occur in the queues any more *)
Theorem wait_completed_gone : forall sr ss fx st a file, nb_inv st ->
  wr_rc (fst (wait_one sr ss fx st a file)) = NC_NOERR ->
  forall l2, In l2 (flagged (put_lead (ex_st (extract_reqs fx st (wa_n a) (wa_ids a) (wa_has_stat a) (wa_stat0 a)))) ++
                    flagged (get_lead (ex_st (extract_reqs fx st (wa_n a) (wa_ids a) (wa_has_stat a) (wa_stat0 a))))) ->
  ~ In (l_id l2) (map l_id (put_lead (wr_st (fst (wait_one sr ss fx st a file))) ++
                            get_lead (wr_st (fst (wait_one sr ss fx st a file))))).
Proof.
  intros sr ss fx st a file Hinv Hrc l2 Hl2 Hin.
  destruct (wait_one_leads sr ss fx st a file Hinv Hrc) as (Ep & Eg). rewrite Ep, Eg in Hin. clear Ep Eg.
  destruct (extract_leads_same fx st (wa_n a) (wa_ids a) (wa_has_stat a) (wa_stat0 a)) as (Sp & Sg).
  set (pl2 := put_lead (ex_st (extract_reqs fx st (wa_n a) (wa_ids a) (wa_has_stat a) (wa_stat0 a)))) in *.
  set (gl2 := get_lead (ex_st (extract_reqs fx st (wa_n a) (wa_ids a) (wa_has_stat a) (wa_stat0 a)))) in *.
  destruct Hinv as ((Hndp & _ & _ & Hwfp & _) & (Hndg & _ & _ & Hwfg & _)).
  rewrite Forall_forall in Hwfp, Hwfg.
  assert (Hevp : forall x, In x pl2 -> Z.even (l_id x) = true).
  { intros x Hx. destruct (w_F2_In_r _ _ _ _ _ _ Sp Hx) as (l & Hl & Hs). rewrite <- (lead_same_id _ _ Hs). apply (Hwfp l Hl). }
  assert (Hevg : forall x, In x gl2 -> Z.even (l_id x) = false).
  { intros x Hx. destruct (w_F2_In_r _ _ _ _ _ _ Sg Hx) as (l & Hl & Hs). rewrite <- (lead_same_id _ _ Hs). apply (Hwfg l Hl). }
  assert (Hndp2 : NoDup (map l_id pl2)).
  { rewrite <- (F2_same_ids lead_same _ _ lead_same_id Sp). exact Hndp. }
  assert (Hndg2 : NoDup (map l_id gl2)).
  { rewrite <- (F2_same_ids lead_same _ _ lead_same_id Sg). exact Hndg. }
  apply in_map_iff in Hin. destruct Hin as (l3 & Hid & Hl3).
  unfold flagged, kept in *.
  apply in_app_or in Hl2. apply in_app_or in Hl3.
  destruct Hl2 as [Hl2|Hl2]; apply filter_In in Hl2; destruct Hl2 as (Hl2 & Hf2);
    destruct Hl3 as [Hl3|Hl3]; apply filter_In in Hl3; destruct Hl3 as (Hl3 & Hf3).
  - assert (l3 = l2) by (eapply w_NoDup_map_inj; [exact Hndp2| | |]; assumption). subst l3.
    rewrite Hf2 in Hf3. discriminate Hf3.
  - pose proof (Hevp _ Hl2) as E2. pose proof (Hevg _ Hl3) as E3. rewrite Hid in E3. congruence.
  - pose proof (Hevg _ Hl2) as E2. pose proof (Hevp _ Hl3) as E3. rewrite Hid in E3. congruence.
  - assert (l3 = l2) by (eapply w_NoDup_map_inj; [exact Hndg2| | |]; assumption). subst l3.
    rewrite Hf2 in Hf3. discriminate Hf3.
Qed.

(* ====================================================================== *)
(* W7. events                                                              *)
(* ====================================================================== *)
Theorem wait_events_put : forall sr ss fx st a file, nb_inv st ->
  wr_rc (fst (wait_one sr ss fx st a file)) = NC_NOERR ->
  forall l', In l' (flagged (put_lead (ex_st (extract_reqs fx st (wa_n a) (wa_ids a) (wa_has_stat a) (wa_stat0 a))))) ->
  In (EvPutDone (l_tag l')) (wr_ev (fst (wait_one sr ss fx st a file))).
Proof.
  intros sr ss fx st a file Hinv Hrc l' Hl'.
  destruct (wait_one_struct sr ss fx st a file Hrc) as (Herr & st2 & H1 & _ & _ & _ & _ & _ & _ & Hev).
  destruct (extract_sides _ _ _ _ _ _ Hinv Herr) as ((_ & _ & Hnwl & _) & _).
  destruct (commit_post_fields st2 (ex_nwl (extract_reqs fx st (wa_n a) (wa_ids a) (wa_has_stat a) (wa_stat0 a)))
              (ex_nrl (extract_reqs fx st (wa_n a) (wa_ids a) (wa_has_stat a) (wa_stat0 a))))
    as (_ & _ & _ & _ & Fev).
  rewrite Hev, Fev, H1. apply in_or_app. left.
  assert (Hpos : 0 < Zlen (flagged (put_lead (ex_st (extract_reqs fx st (wa_n a) (wa_ids a) (wa_has_stat a) (wa_stat0 a)))))).
  { apply w_Zlen_pos. intros E. rewrite E in Hl'. destruct Hl'. }
  rewrite Hnwl. clear Fev. match goal with |- context [if ?c then _ else _] => destruct c eqn:E end; [|lia].
  apply in_flat_map. exists l'. split; [exact Hl'|]. apply in_or_app. right. left. reflexivity.
Qed.

Theorem wait_events_get : forall sr ss fx st a file, nb_inv st ->
  wr_rc (fst (wait_one sr ss fx st a file)) = NC_NOERR ->
  forall l', In l' (flagged (get_lead (ex_st (extract_reqs fx st (wa_n a) (wa_ids a) (wa_has_stat a) (wa_stat0 a))))) ->
  In (EvGetDone (l_tag l') (l_xaddr l') (l_nelems l' * g_xsz (l_geom l')) (l_status l'))
     (wr_ev (fst (wait_one sr ss fx st a file))).
Proof.
  intros sr ss fx st a file Hinv Hrc l' Hl'.
  destruct (wait_one_struct sr ss fx st a file Hrc) as (Herr & st2 & _ & _ & H3 & _ & _ & _ & _ & Hev).
  destruct (extract_sides _ _ _ _ _ _ Hinv Herr) as (_ & (_ & _ & Hnrl & _) & _).
  destruct (commit_post_fields st2 (ex_nwl (extract_reqs fx st (wa_n a) (wa_ids a) (wa_has_stat a) (wa_stat0 a)))
              (ex_nrl (extract_reqs fx st (wa_n a) (wa_ids a) (wa_has_stat a) (wa_stat0 a))))
    as (_ & _ & _ & _ & Fev).
  rewrite Hev, Fev, H3. apply in_or_app. right.
  assert (Hpos : 0 < Zlen (flagged (get_lead (ex_st (extract_reqs fx st (wa_n a) (wa_ids a) (wa_has_stat a) (wa_stat0 a)))))).
  { apply w_Zlen_pos. intros E. rewrite E in Hl'. destruct Hl'. }
  rewrite Hnrl. clear Fev. match goal with |- context [if ?c then _ else _] => destruct c eqn:E end; [|lia].
  apply in_map_iff. exists l'. split; [reflexivity|exact Hl'].
Qed.

(* ====================================================================== *)
(* F. fx = true: the repaired library (patches/F3_poison.diff)             *)
(* ====================================================================== *)
Lemma w_list_eqb_Z : forall a b, list_eqb Z.eqb a b = true <-> a = b.
Proof.
  induction a as [|x a IH]; intros b; destruct b as [|y b]; cbn [list_eqb]; split; intros H;
    try reflexivity; try discriminate H.
  - apply andb_true_iff in H. destruct H as (H1 & H2). apply IH in H2. assert (x = y) by lia. subst. reflexivity.
  - inversion H; subst. rewrite Z.eqb_refl. cbn [andb]. apply IH. reflexivity.
Qed.

Lemma w_zfirstn_all : forall A (l : list A), zfirstn (Zlen l) l = l.
Proof. intros A l. pose proof (w_zfirstn_app_exact _ l []) as H. rewrite app_nil_r in H. exact H. Qed.

Lemma queue_reqs_nil : forall isput maxid leads reqs,
  queue_inv isput maxid leads reqs -> Zlen reqs = 0 -> leads = [] /\ reqs = [].
Proof.
  intros isput maxid leads reqs (_ & _ & Hs & _) Hz. split; [|apply Proofs_Disk.Zlen_zero_nil; exact Hz].
  destruct leads as [|l r]; [reflexivity|]. cbn [slices_ok] in Hs. destruct Hs as (_ & Hpos & Hle & _). lia.
Qed.

Lemma ids_in_order_eq : forall leads ids, ids_in_order leads ids (Zlen ids) = true -> ids = map l_id leads.
Proof.
  intros leads ids H. unfold ids_in_order in H. rewrite w_zfirstn_all in H. apply w_list_eqb_Z. exact H.
Qed.

(* B1. a successful call either went through the subset path or took shortcut 1 / 2 with req_ids
   naming the whole queue in queue order (and the other queue empty) *)
Definition short_put (st : nbstate) (ids : list Z) (hs : bool) (stat0 : list Z) (ex : extracted) : Prop :=
  get_lead st = [] /\ get_reqs st = [] /\ ids = map l_id (put_lead st) /\
  put_lead (ex_st ex) = (if hs then flag_all_status (put_lead st) 0 else flag_all (put_lead st)) /\
  get_lead (ex_st ex) = [] /\ ex_ids ex = all_null ids /\
  ex_stat ex = (if hs then noerr_prefix stat0 (Zlen (put_lead st)) else stat0).
Definition short_get (st : nbstate) (ids : list Z) (hs : bool) (stat0 : list Z) (ex : extracted) : Prop :=
  put_lead st = [] /\ put_reqs st = [] /\ ids = map l_id (get_lead st) /\
  get_lead (ex_st ex) = (if hs then flag_all_status (get_lead st) 0 else flag_all (get_lead st)) /\
  put_lead (ex_st ex) = [] /\ ex_ids ex = all_null ids /\
  ex_stat ex = (if hs then noerr_prefix stat0 (Zlen (get_lead st)) else stat0).

Lemma fixed_struct : forall st n ids hs stat0,
  nb_inv st -> 0 <= n -> n = Zlen ids ->
  ex_err (extract_reqs true st n ids hs stat0) = NC_NOERR ->
  subset_res true st n ids hs stat0 \/
  short_put st ids hs stat0 (extract_reqs true st n ids hs stat0) \/
  short_get st ids hs stat0 (extract_reqs true st n ids hs stat0).
Proof.
  intros st n ids hs stat0 Hinv Hn Hlen Herr.
  destruct ((Zlen (get_reqs st) =? 0) && (n =? Zlen (put_lead st)) &&
            (negb true || ids_in_order (put_lead st) ids n)) eqn:E1.
  { right. left. clear Herr. pose proof E1 as E1'. cbn [negb orb] in E1'.
    apply andb_true_iff in E1'. destruct E1' as (E1a & Hord). apply andb_true_iff in E1a. destruct E1a as (Hz & Hnp).
    destruct Hinv as (_ & Hg). destruct (queue_reqs_nil _ _ _ _ Hg ltac:(lia)) as (Hgl & Hgr).
    rewrite Hlen in Hord. apply ids_in_order_eq in Hord.
    unfold short_put, extract_reqs. cbv zeta. destruct (n <? 0) eqn:E0; [lia|]. rewrite E1.
    destruct hs; ex_proj; repeat split; assumption || reflexivity. }
  destruct ((Zlen (put_reqs st) =? 0) && (n =? Zlen (get_lead st)) &&
            (negb true || ids_in_order (get_lead st) ids n)) eqn:E2.
  { right. right. clear Herr. pose proof E2 as E2'. cbn [negb orb] in E2'.
    apply andb_true_iff in E2'. destruct E2' as (E2a & Hord). apply andb_true_iff in E2a. destruct E2a as (Hz & Hnp).
    destruct Hinv as (Hp & _). destruct (queue_reqs_nil _ _ _ _ Hp ltac:(lia)) as (Hpl & Hpr).
    rewrite Hlen in Hord. apply ids_in_order_eq in Hord.
    unfold short_get, extract_reqs. cbv zeta. destruct (n <? 0) eqn:E0; [lia|]. rewrite E1, E2.
    destruct hs; ex_proj; repeat split; assumption || reflexivity. }
  left. apply subset_path_struct; try assumption. cbn [negb]. apply andb_false_r.
Qed.

Lemma flagged_of_facts : forall leads leads2 l', Forall2 flagged_of leads leads2 -> In l' leads2 ->
  l_to_free l' = true /\ In (l_id l') (map l_id leads).
Proof.
  intros leads leads2 l' HF Hin. destruct (w_F2_In_r _ _ _ _ _ _ HF Hin) as (l & Hl & (stt & ->)).
  split; [reflexivity|]. change (l_id (l_set_flag l true stt)) with (l_id l). apply in_map. exact Hl.
Qed.

Lemma short_flagged_of : forall leads (hs : bool),
  Forall2 flagged_of leads (if hs then flag_all_status leads 0 else flag_all leads).
Proof. intros leads hs. destruct hs; [apply flag_all_status_F2|apply flag_all_F2]. Qed.

(* B2 *)
Theorem subset_flags_fixed : forall st n ids hs stat0,
  nb_inv st -> 0 <= n -> n = Zlen ids ->
  ex_err (extract_reqs true st n ids hs stat0) = NC_NOERR ->
  forall l', In l' (put_lead (ex_st (extract_reqs true st n ids hs stat0)) ++
                    get_lead (ex_st (extract_reqs true st n ids hs stat0))) ->
  (l_to_free l' = true <-> In (l_id l') ids).
Proof.
  intros st n ids hs stat0 Hinv Hn Hlen Herr l' Hin.
  destruct (fixed_struct _ _ _ _ _ Hinv Hn Hlen Herr) as [Hres|[Hs|Hs]].
  - eapply subset_res_flags; eassumption.
  - destruct Hs as (_ & _ & Hids & Hpl2 & Hgl2 & _). rewrite Hpl2, Hgl2, app_nil_r in Hin.
    destruct (flagged_of_facts _ _ _ (short_flagged_of _ hs) Hin) as (Hf & Hid).
    rewrite Hids. split; intros _; assumption.
  - destruct Hs as (_ & _ & Hids & Hgl2 & Hpl2 & _). rewrite Hpl2, Hgl2 in Hin. cbn [app] in Hin.
    destruct (flagged_of_facts _ _ _ (short_flagged_of _ hs) Hin) as (Hf & Hid).
    rewrite Hids. split; intros _; assumption.
Qed.

Lemma short_status : forall leads l' i, In l' (flag_all_status leads 0) -> l_status l' = Some i ->
  znth (map l_id leads) i NC_REQ_NULL = l_id l'.
Proof.
  intros leads l' i Hin Hst. destruct (flag_all_status_nth _ _ _ _ Hin Hst) as (Hi & Hid).
  replace (i - 0) with i in Hid by lia.
  rewrite (Proofs_Disk.znth_map l_id leads i dummy_lead NC_REQ_NULL) by lia. exact Hid.
Qed.

(* B3 *)
Theorem status_own_fixed : forall st n ids stat0,
  nb_inv st -> 0 <= n -> n = Zlen ids ->
  ex_err (extract_reqs true st n ids true stat0) = NC_NOERR ->
  forall l' i, In l' (put_lead (ex_st (extract_reqs true st n ids true stat0)) ++
                      get_lead (ex_st (extract_reqs true st n ids true stat0))) ->
  l_to_free l' = true -> l_status l' = Some i ->
  znth ids i NC_REQ_NULL = l_id l'.
Proof.
  intros st n ids stat0 Hinv Hn Hlen Herr l' i Hin Hf Hst.
  destruct (fixed_struct _ _ _ _ _ Hinv Hn Hlen Herr) as [Hres|[Hs|Hs]].
  - eapply subset_res_status; eassumption.
  - destruct Hs as (_ & _ & Hids & Hpl2 & Hgl2 & _). rewrite Hpl2, Hgl2, app_nil_r in Hin.
    rewrite Hids. apply short_status; assumption.
  - destruct Hs as (_ & _ & Hids & Hgl2 & Hpl2 & _). rewrite Hpl2, Hgl2 in Hin. cbn [app] in Hin.
    rewrite Hids. apply short_status; assumption.
Qed.

(* B4 *)
Theorem ids_reset_fixed : forall st n ids hs stat0,
  nb_inv st -> 0 <= n -> n = Zlen ids ->
  ex_err (extract_reqs true st n ids hs stat0) = NC_NOERR ->
  forall i, 0 <= i < Zlen ids -> znth (ex_ids (extract_reqs true st n ids hs stat0)) i 0 = NC_REQ_NULL.
Proof.
  intros st n ids hs stat0 Hinv Hn Hlen Herr i Hi.
  destruct (fixed_struct _ _ _ _ _ Hinv Hn Hlen Herr) as [Hres|[Hs|Hs]].
  - eapply subset_res_ids; eassumption.
  - destruct Hs as (_ & _ & _ & _ & _ & He & _). rewrite He. unfold all_null.
    rewrite (Proofs_Disk.znth_map _ _ _ 0 0 Hi). reflexivity.
  - destruct Hs as (_ & _ & _ & _ & _ & He & _). rewrite He. unfold all_null.
    rewrite (Proofs_Disk.znth_map _ _ _ 0 0 Hi). reflexivity.
Qed.

Lemma noerr_prefix_nth : forall stat k i, 0 <= i < k -> i < Zlen stat -> znth (noerr_prefix stat k) i 0 = NC_NOERR.
Proof.
  induction stat as [|x r IH]; intros k i Hi Hl.
  - rewrite Proofs_Disk.Zlen_nil in Hl. lia.
  - rewrite Proofs_Disk.Zlen_cons in Hl. cbn [noerr_prefix]. destruct (k >? 0) eqn:E; [|lia].
    cbn [znth]. destruct (i =? 0) eqn:E0; [reflexivity|]. apply IH; lia.
Qed.

Theorem statuses_fixed : forall st n ids stat0,
  nb_inv st -> 0 <= n -> n = Zlen ids ->
  ex_err (extract_reqs true st n ids true stat0) = NC_NOERR ->
  Zlen stat0 = Zlen ids ->
  forall i, 0 <= i < Zlen ids -> znth (ex_stat (extract_reqs true st n ids true stat0)) i 0 = NC_NOERR.
Proof.
  intros st n ids stat0 Hinv Hn Hlen Herr Hsl i Hi.
  destruct (fixed_struct _ _ _ _ _ Hinv Hn Hlen Herr) as [Hres|[Hs|Hs]].
  - eapply subset_res_stat; eassumption.
  - destruct Hs as (_ & _ & Hids & _ & _ & _ & He). rewrite He.
    assert (Zlen ids = Zlen (put_lead st)) by (rewrite Hids at 1; apply Proofs_Disk.Zlen_map).
    apply noerr_prefix_nth; lia.
  - destruct Hs as (_ & _ & Hids & _ & _ & _ & He). rewrite He.
    assert (Zlen ids = Zlen (get_lead st)) by (rewrite Hids at 1; apply Proofs_Disk.Zlen_map).
    apply noerr_prefix_nth; lia.
Qed.

Theorem ids_pending_fixed : forall st n ids hs stat0,
  nb_inv st -> 0 <= n -> n = Zlen ids ->
  ex_err (extract_reqs true st n ids hs stat0) = NC_NOERR ->
  forall x, In x ids -> x <> NC_REQ_NULL -> exists l, In l (put_lead st ++ get_lead st) /\ l_id l = x.
Proof.
  intros st n ids hs stat0 Hinv Hn Hlen Herr x Hx Hne.
  destruct (fixed_struct _ _ _ _ _ Hinv Hn Hlen Herr) as [Hres|[Hs|Hs]].
  - eapply (subset_res_pending _ _ _ _ _ _ Hinv Hres); eassumption.
  - destruct Hs as (_ & _ & Hids & _). rewrite Hids in Hx. apply in_map_iff in Hx.
    destruct Hx as (l & Hid & Hl). exists l. split; [apply in_or_app; left; exact Hl|exact Hid].
  - destruct Hs as (_ & _ & Hids & _). rewrite Hids in Hx. apply in_map_iff in Hx.
    destruct Hx as (l & Hid & Hl). exists l. split; [apply in_or_app; right; exact Hl|exact Hid].
Qed.

(* ---- B5. failed calls leave the queues as they were (flags and status pointers cleared) ---- *)
Definition flagrel (l l1 : lead) : Prop := exists tf stt, l1 = l_set_flag l tf stt.

Lemma flagrel_refl : forall l, flagrel l l.
Proof. intros l. exists (l_to_free l), (l_status l). destruct l; reflexivity. Qed.

Lemma flagrel_trans : forall a b c, flagrel a b -> flagrel b c -> flagrel a c.
Proof. intros a b c (tf1 & s1 & ->) (tf2 & s2 & ->). exists tf2, s2. reflexivity. Qed.

Lemma F2_flagrel_refl : forall a, Forall2 flagrel a a.
Proof. intros a. apply w_F2_refl. intros x _. apply flagrel_refl. Qed.

Lemma F2_flagrel_trans : forall a b c, Forall2 flagrel a b -> Forall2 flagrel b c -> Forall2 flagrel a c.
Proof.
  intros a b c H1 H2. eapply w_F2_impl; [|exact (w_F2_trans _ _ _ _ _ _ _ _ H1 H2)].
  intros x z _ _ (y & _ & Hxy & Hyz). eapply flagrel_trans; eassumption.
Qed.

Lemma flag_first_flagrel : forall ll x stt ll' n, flag_first ll x stt = Some (ll', n) -> Forall2 flagrel ll ll'.
Proof.
  induction ll as [|l r IH]; intros x stt ll' n H; cbn [flag_first] in H; [discriminate|].
  destruct (negb (l_to_free l) && (l_id l =? x)).
  - inversion H; subst. constructor; [exists true, stt; reflexivity|apply F2_flagrel_refl].
  - destruct (flag_first r x stt) as [[r' n']|] eqn:Er; [|discriminate]. inversion H; subst.
    constructor; [apply flagrel_refl|]. eapply IH. exact Er.
Qed.

Lemma ex_mark_flagrel : forall ids i hs pl gl stat nwl nwr nrl nrr err,
  Forall2 flagrel pl (fst (fst (fst (fst (fst (fst (fst (ex_mark ids i hs pl gl stat nwl nwr nrl nrr err)))))))) /\
  Forall2 flagrel gl (snd (fst (fst (fst (fst (fst (fst (ex_mark ids i hs pl gl stat nwl nwr nrl nrr err)))))))).
Proof.
  induction ids as [|x r IH]; intros i hs pl gl stat nwl nwr nrl nrr err; cbn [ex_mark].
  - cbn [fst snd]. split; apply F2_flagrel_refl.
  - destruct (x =? NC_REQ_NULL); [apply IH|].
    destruct (Z.rem x 2 =? 0).
    + destruct (flag_first pl x (if hs then Some i else None)) as [[pl' n]|] eqn:Ef; [|apply IH].
      pose proof (flag_first_flagrel _ _ _ _ _ Ef) as Hs.
      match goal with |- context [ex_mark r ?a ?b ?c ?d ?e ?f ?g ?h ?k ?m] =>
        destruct (IH a b c d e f g h k m) as (I1 & I2) end.
      split; [eapply F2_flagrel_trans; eassumption|exact I2].
    + destruct (flag_first gl x (if hs then Some i else None)) as [[gl' n]|] eqn:Ef; [|apply IH].
      pose proof (flag_first_flagrel _ _ _ _ _ Ef) as Hs.
      match goal with |- context [ex_mark r ?a ?b ?c ?d ?e ?f ?g ?h ?k ?m] =>
        destruct (IH a b c d e f g h k m) as (I1 & I2) end.
      split; [exact I1|eapply F2_flagrel_trans; eassumption].
Qed.

Lemma flagrel_unflag : forall a b, Forall2 flagrel a b -> map unflag b = map unflag a.
Proof.
  intros a b H. induction H as [|x y a b (tf & stt & ->) H IH]; [reflexivity|].
  cbn [map]. rewrite IH. reflexivity.
Qed.

Theorem failed_extract_fixed : forall st n ids hs stat0, nb_inv st ->
  ex_err (extract_reqs true st n ids hs stat0) <> NC_NOERR ->
  put_lead (ex_st (extract_reqs true st n ids hs stat0)) = map unflag (put_lead st) /\
  get_lead (ex_st (extract_reqs true st n ids hs stat0)) = map unflag (get_lead st) /\
  put_reqs (ex_st (extract_reqs true st n ids hs stat0)) = put_reqs st /\
  get_reqs (ex_st (extract_reqs true st n ids hs stat0)) = get_reqs st /\
  maxPutID (ex_st (extract_reqs true st n ids hs stat0)) = maxPutID st /\
  maxGetID (ex_st (extract_reqs true st n ids hs stat0)) = maxGetID st /\
  ex_ids (extract_reqs true st n ids hs stat0) = ids.
Proof.
  intros st n ids hs stat0 _. unfold extract_reqs. cbv zeta.
  destruct (n <? 0).
  { ex_proj. intros H. exfalso. apply H. reflexivity. }
  destruct ((Zlen (get_reqs st) =? 0) && (n =? Zlen (put_lead st)) && (negb true || ids_in_order (put_lead st) ids n)).
  { ex_proj. intros H. exfalso. apply H. reflexivity. }
  destruct ((Zlen (put_reqs st) =? 0) && (n =? Zlen (get_lead st)) && (negb true || ids_in_order (get_lead st) ids n)).
  { ex_proj. intros H. exfalso. apply H. reflexivity. }
  destruct ((n =? Zlen (put_lead st) + Zlen (get_lead st)) && negb hs && negb true).
  { ex_proj. intros H. exfalso. apply H. reflexivity. }
  pose proof (ex_mark_flagrel ids 0 hs (put_lead st) (get_lead st) stat0 0 0 0 0 NC_NOERR) as (Hm1 & Hm2).
  destruct (ex_mark ids 0 hs (put_lead st) (get_lead st) stat0 0 0 0 0 NC_NOERR)
    as [[[[[[[pl1 gl1] stat1] nwl] nwr] nrl] nrr] err] eqn:Em.
  cbn [fst snd] in Hm1, Hm2.
  destruct (negb (err =? NC_NOERR)).
  - ex_proj. intros _. rewrite (flagrel_unflag _ _ Hm1), (flagrel_unflag _ _ Hm2). repeat split; reflexivity.
  - rewrite ex_copy_spec. cbv iota beta.
    destruct (if nwr =? 0 then (pl1, put_reqs st) else coalesce_nonlead pl1 (put_reqs st) 0) as [pl2 pr2].
    destruct (if nrr =? 0 then (gl1, get_reqs st) else coalesce_nonlead gl1 (get_reqs st) 0) as [gl2 gr2].
    ex_proj. intros H. exfalso. apply H. reflexivity.
Qed.

Lemma slices_ok_map : forall (f : lead -> lead) leads reqs k i,
  (forall l, l_nonlead_off (f l) = l_nonlead_off l /\ l_nonlead_num (f l) = l_nonlead_num l) ->
  slices_ok leads reqs k i -> slices_ok (map f leads) reqs k i.
Proof.
  intros f leads reqs k i Hf. revert k i. induction leads as [|l r IH]; intros k i H; cbn [map slices_ok] in *; [exact H|].
  destruct (Hf l) as (Ho & Hn). rewrite Ho, Hn. destruct H as (H1 & H2 & H3 & H4 & H5).
  repeat split; try assumption. apply IH. exact H5.
Qed.

Lemma queue_inv_unflag : forall isput maxid leads reqs,
  queue_inv isput maxid leads reqs -> queue_inv isput maxid (map unflag leads) reqs.
Proof.
  intros isput maxid leads reqs (Hnd & Hmax & Hs & Hwf & Hunf).
  split; [rewrite map_map; exact Hnd|]. split; [|split; [|split]].
  - apply Forall_forall. intros l' Hl'. apply in_map_iff in Hl'. destruct Hl' as (l & <- & Hl).
    rewrite Forall_forall in Hmax. apply (Hmax l Hl).
  - apply slices_ok_map; [|exact Hs]. intros l. split; reflexivity.
  - apply Forall_forall. intros l' Hl'. apply in_map_iff in Hl'. destruct Hl' as (l & <- & Hl).
    rewrite Forall_forall in Hwf. specialize (Hwf l Hl). rewrite lead_wf_is_seg in *.
    eapply lead_wf_seg_indep; [apply (lead_same_set_flag l false None)|reflexivity|exact Hwf].
  - apply Forall_forall. intros l' Hl'. apply in_map_iff in Hl'. destruct Hl' as (l & <- & Hl). reflexivity.
Qed.

Theorem unflag_inv : forall st, nb_inv st ->
  nb_inv (set_get (set_put st (map unflag (put_lead st)) (put_reqs st)) (map unflag (get_lead st)) (get_reqs st)).
Proof.
  intros st (Hp & Hg). unfold nb_inv. ex_proj. split; apply queue_inv_unflag; assumption.
Qed.

Lemma wait_one_failed_struct : forall sr ss fx st a file,
  wr_rc (fst (wait_one sr ss fx st a file)) <> NC_NOERR ->
  ex_err (extract_reqs fx st (wa_n a) (wa_ids a) (wa_has_stat a) (wa_stat0 a)) <> NC_NOERR /\
  wr_st (fst (wait_one sr ss fx st a file)) = ex_st (extract_reqs fx st (wa_n a) (wa_ids a) (wa_has_stat a) (wa_stat0 a)) /\
  wr_ev (fst (wait_one sr ss fx st a file)) = [] /\
  snd (wait_one sr ss fx st a file) = file.
Proof.
  intros sr ss fx st a file. unfold wait_one. cbv zeta.
  set (ex := extract_reqs fx st (wa_n a) (wa_ids a) (wa_has_stat a) (wa_stat0 a)).
  destruct (negb (ex_err ex =? NC_NOERR)) eqn:Ee.
  - cbn [fst snd wr_rc wr_st wr_ev]. intros _. repeat split. lia.
  - destruct (commit_io sr ss (ex_st ex) (ex_put ex) (ex_get ex) (0 <? Zlen (ex_put ex))
                (0 <? Zlen (ex_get ex)) (newnumrecs_loop (ex_st ex)) file) as [st2 file'].
    destruct (commit_post st2 (ex_nwl ex) (ex_nrl ex)) as [st3 ev].
    cbn [fst wr_rc]. intros H. exfalso. apply H. reflexivity.
Qed.

Theorem wait_one_failed_fixed : forall sr ss st a file, nb_inv st ->
  wr_rc (fst (wait_one sr ss true st a file)) <> NC_NOERR ->
  snd (wait_one sr ss true st a file) = file /\
  wr_ev (fst (wait_one sr ss true st a file)) = [] /\
  put_lead (wr_st (fst (wait_one sr ss true st a file))) = map unflag (put_lead st) /\
  get_lead (wr_st (fst (wait_one sr ss true st a file))) = map unflag (get_lead st) /\
  put_reqs (wr_st (fst (wait_one sr ss true st a file))) = put_reqs st /\
  get_reqs (wr_st (fst (wait_one sr ss true st a file))) = get_reqs st.
Proof.
  intros sr ss st a file Hinv Hrc.
  destruct (wait_one_failed_struct _ _ _ _ _ _ Hrc) as (Herr & Hst & Hev & Hf).
  destruct (failed_extract_fixed _ _ _ _ _ Hinv Herr) as (H1 & H2 & H3 & H4 & _).
  rewrite Hst. repeat split; assumption.
Qed.

(* a wait of the repaired library ALWAYS leaves a state satisfying the invariant *)
Theorem wait_one_inv_fixed : forall sr ss st a file, nb_inv st ->
  nb_inv (wr_st (fst (wait_one sr ss true st a file))).
Proof.
  intros sr ss st a file Hinv.
  destruct (Z.eq_dec (wr_rc (fst (wait_one sr ss true st a file))) NC_NOERR) as [Hrc|Hrc].
  - apply wait_one_inv; assumption.
  - destruct (wait_one_failed_struct _ _ _ _ _ _ Hrc) as (Herr & Hst & _).
    destruct (failed_extract_fixed _ _ _ _ _ Hinv Herr) as (H1 & H2 & H3 & H4 & H5 & H6 & _).
    rewrite Hst. pose proof (unflag_inv st Hinv) as Hu. unfold nb_inv in *. ex_proj_in Hu.
    rewrite H1, H2, H3, H4, H5, H6. exact Hu.
Qed.

(* B6 *)
Theorem wait_subset_frame_fixed : forall sr ss st a file, nb_inv st ->
  0 <= wa_n a -> wa_n a = Zlen (wa_ids a) ->
  wr_rc (fst (wait_one sr ss true st a file)) = NC_NOERR ->
  forall l, In l (put_lead st ++ get_lead st) -> ~ In (l_id l) (wa_ids a) ->
  exists l', In l' (put_lead (wr_st (fst (wait_one sr ss true st a file))) ++
                    get_lead (wr_st (fst (wait_one sr ss true st a file)))) /\
             lead_same l l' /\ l_to_free l' = false.
Proof.
  intros sr ss st a file Hinv Hn Hlen Hrc l Hl Hnot.
  destruct (wait_one_struct sr ss true st a file Hrc) as (Herr & _).
  destruct (wait_subset_frame_partial sr ss true st a file Hinv Hrc l Hl) as (l' & Hin & Hs & Hf & _).
  - intros l1 Hl1 Hid.
    pose proof (subset_flags_fixed _ _ _ _ _ Hinv Hn Hlen Herr l1 Hl1) as Hiff.
    destruct (l_to_free l1) eqn:E; [|reflexivity].
    exfalso. apply Hnot. rewrite <- Hid. apply Hiff. reflexivity.
  - exists l'. split; [exact Hin|]. split; [exact Hs|exact Hf].
Qed.

(* ====================================================================== *)
(* Examples: the hypotheses are satisfiable                                *)
(* ====================================================================== *)
(* two puts (the second strided) and a get on a 4x5x6 int variable *)
Definition w_xg : geom := mkgeom 1024 4 [4;5;6] 0 0.
Definition w_xs1 : nbstate := fst (fst (post_varm init_state KIput w_xg [0;0;0] [1;2;2] None 5000 [] false 1)).
Definition w_xs2 : nbstate := fst (fst (post_varm w_xs1 KIget w_xg [1;1;1] [1;1;3] None 6000 [] false 2)).
Definition w_xs3 : nbstate := fst (fst (post_varm w_xs2 KIput w_xg [2;0;0] [1;1;2] (Some [1;1;2]) 7000 [] false 3)).

Ltac w_lit t := let x := eval vm_compute in t in change t with x.
Ltac w_atom := solve [ cbn; lia | vm_compute; reflexivity | vm_compute; intros; discriminate
                     | cbn; intuition lia ].
Ltac w_conc :=
  repeat match goal with
  | |- _ \/ _ => first [left; solve [w_conc] | right; solve [w_conc]]
  | |- Forall _ _ => constructor
  | |- NoDup _ => constructor
  | |- _ => split
  | |- _ => w_atom
  end.

Example w_xs3_ids : map l_id (put_lead w_xs3) = [0; 2] /\ map l_id (get_lead w_xs3) = [1].
Proof. vm_compute. split; reflexivity. Qed.

Example w_xs3_inv : nb_inv w_xs3.
Proof.
  unfold nb_inv, queue_inv.
  w_lit (put_lead w_xs3). w_lit (put_reqs w_xs3). w_lit (get_lead w_xs3). w_lit (get_reqs w_xs3).
  w_lit (maxPutID w_xs3). w_lit (maxGetID w_xs3).
  w_conc.
Qed.

(* W2, W3, W5 (all paths): wait for the second put and the get, with statuses *)
Example w_xs3_subset_hyps :
  nb_inv w_xs3 /\ no_shortcut w_xs3 2 /\ 0 <= 2 /\
  ex_err (extract_reqs false w_xs3 2 [2; 1] true [7; 7]) = NC_NOERR.
Proof.
  split; [exact w_xs3_inv|]. split; [|split; [lia|vm_compute; reflexivity]].
  unfold no_shortcut. vm_compute. split; intros (H & _); discriminate H.
Qed.

(* ... what W4 says about it: ids reset, statuses NC_NOERR, status pointers own their slot *)
Example w_xs3_subset_result :
  ex_ids (extract_reqs false w_xs3 2 [2; 1] true [7; 7]) = [NC_REQ_NULL; NC_REQ_NULL] /\
  ex_stat (extract_reqs false w_xs3 2 [2; 1] true [7; 7]) = [NC_NOERR; NC_NOERR] /\
  map (fun l => (l_id l, l_to_free l, l_status l)) (put_lead (ex_st (extract_reqs false w_xs3 2 [2; 1] true [7; 7])))
    = [(0, false, None); (2, true, Some 0)] /\
  map (fun l => (l_id l, l_to_free l, l_status l)) (get_lead (ex_st (extract_reqs false w_xs3 2 [2; 1] true [7; 7])))
    = [(1, true, Some 1)].
Proof. vm_compute. repeat split; reflexivity. Qed.

(* an id that occurs twice, or names no pending request, makes the subset path fail *)
Example w_xs3_subset_dup : ex_err (extract_reqs false w_xs3 2 [2; 2] true [7; 7]) = NC_EINVAL_REQUEST /\
                         ex_err (extract_reqs false w_xs3 1 [4] true [7]) = NC_EINVAL_REQUEST.
Proof. vm_compute. split; reflexivity. Qed.

(* W4, ALL path *)
Example w_xs3_all_hyps : nb_inv w_xs3 /\ NC_PUT_REQ_ALL < 0.
Proof. split; [exact w_xs3_inv|unfold NC_PUT_REQ_ALL; lia]. Qed.

(* W5, W6, W7: a wait that completes the second put only; the first put and the get stay *)
Definition w_xwa : waitargs := mkwa 1 [2] true [7].
Example w_xs3_wait_hyps :
  nb_inv w_xs3 /\ wr_rc (fst (wait_one isort_reqs isort_segs false w_xs3 w_xwa empty_disk)) = NC_NOERR /\
  (forall l1, In l1 (put_lead (ex_st (extract_reqs false w_xs3 (wa_n w_xwa) (wa_ids w_xwa) (wa_has_stat w_xwa) (wa_stat0 w_xwa))) ++
                     get_lead (ex_st (extract_reqs false w_xs3 (wa_n w_xwa) (wa_ids w_xwa) (wa_has_stat w_xwa) (wa_stat0 w_xwa)))) ->
     l_id l1 = 0 -> l_to_free l1 = false) /\
  map l_id (flagged (put_lead (ex_st (extract_reqs false w_xs3 (wa_n w_xwa) (wa_ids w_xwa) (wa_has_stat w_xwa) (wa_stat0 w_xwa))))) = [2].
Proof.
  split; [exact w_xs3_inv|]. split; [vm_compute; reflexivity|]. split; [|vm_compute; reflexivity].
  intros l1 Hin Hid.
  w_lit (put_lead (ex_st (extract_reqs false w_xs3 (wa_n w_xwa) (wa_ids w_xwa) (wa_has_stat w_xwa) (wa_stat0 w_xwa)))).
  w_lit (get_lead (ex_st (extract_reqs false w_xs3 (wa_n w_xwa) (wa_ids w_xwa) (wa_has_stat w_xwa) (wa_stat0 w_xwa)))).
  cbn [app In] in Hin.
  destruct Hin as [<-|[<-|[<-|[]]]]; cbn in Hid |- *; try reflexivity; discriminate Hid.
Qed.

Example w_xs3_wait_result :
  map l_id (put_lead (wr_st (fst (wait_one isort_reqs isort_segs false w_xs3 w_xwa empty_disk)))) = [0] /\
  map l_id (get_lead (wr_st (fst (wait_one isort_reqs isort_segs false w_xs3 w_xwa empty_disk)))) = [1] /\
  wr_ev (fst (wait_one isort_reqs isort_segs false w_xs3 w_xwa empty_disk)) = [EvPutDone 3] /\
  nreqs (wr_st (fst (wait_one isort_reqs isort_segs false w_xs3 w_xwa empty_disk))) = 2.
Proof. vm_compute. repeat split; reflexivity. Qed.

(* the theorems applied to the examples *)
Example w_xs3_wait_inv : nb_inv (wr_st (fst (wait_one isort_reqs isort_segs false w_xs3 w_xwa empty_disk))).
Proof. apply wait_one_inv; apply w_xs3_wait_hyps. Qed.

Example w_xs3_put_pairs :
  Permutation
    (flat_map areq_pairs (map (annotate (put_lead (ex_st (extract_reqs false w_xs3 2 [2; 1] true [7; 7]))))
                              (ex_put (extract_reqs false w_xs3 2 [2; 1] true [7; 7]))))
    (flat_map lead_pairs (flagged (put_lead (ex_st (extract_reqs false w_xs3 2 [2; 1] true [7; 7]))))).
Proof. apply wait_put_pairs; apply w_xs3_subset_hyps. Qed.

(* why status_own is `_partial`: on the "same as NC_PUT_REQ_ALL" shortcut (no pending get, n = number
   of pending puts) the status pointers are bound in QUEUE order and req_ids is not even read:
   waiting for [2; 0] binds statuses[0] to request 0, and ids naming no request are accepted *)
Definition w_xp2 : nbstate :=
  fst (fst (post_varm w_xs1 KIput w_xg [2;0;0] [1;1;2] (Some [1;1;2]) 7000 [] false 3)).
Example status_own_shortcut_counterexample :
  nb_inv w_xp2 /\ ~ no_shortcut w_xp2 2 /\
  ex_err (extract_reqs false w_xp2 2 [2; 0] true [7; 7]) = NC_NOERR /\
  map (fun l => (l_id l, l_to_free l, l_status l)) (put_lead (ex_st (extract_reqs false w_xp2 2 [2; 0] true [7; 7])))
    = [(0, true, Some 0); (2, true, Some 1)] /\
  ex_err (extract_reqs false w_xp2 2 [8; 8] true [7; 7]) = NC_NOERR /\
  ex_ids (extract_reqs false w_xp2 2 [8; 8] true [7; 7]) = [NC_REQ_NULL; NC_REQ_NULL].
Proof.
  split.
  { unfold nb_inv, queue_inv.
    w_lit (put_lead w_xp2). w_lit (put_reqs w_xp2). w_lit (get_lead w_xp2). w_lit (get_reqs w_xp2).
    w_lit (maxPutID w_xp2). w_lit (maxGetID w_xp2). w_conc. }
  split.
  { unfold no_shortcut. intros (H & _). apply H. vm_compute. split; reflexivity. }
  vm_compute. repeat split; reflexivity.
Qed.


(* ---- the repaired library (fx = true) on the same states ---- *)
(* B3: req_ids [2; 0] does not name the queue in order, so the shortcut is not taken any more and the
   status pointers are bound by position: request 2 <- statuses[0], request 0 <- statuses[1] *)
Example w_status_own_fixed_example :
  nb_inv w_xp2 /\ 0 <= 2 /\ 2 = Zlen [2; 0] /\
  ex_err (extract_reqs true w_xp2 2 [2; 0] true [7; 7]) = NC_NOERR /\
  map (fun l => (l_id l, l_to_free l, l_status l)) (put_lead (ex_st (extract_reqs true w_xp2 2 [2; 0] true [7; 7])))
    = [(0, true, Some 1); (2, true, Some 0)] /\
  (* in queue order the shortcut is still taken, with the same binding *)
  map (fun l => (l_id l, l_to_free l, l_status l)) (put_lead (ex_st (extract_reqs true w_xp2 2 [0; 2] true [7; 7])))
    = [(0, true, Some 0); (2, true, Some 1)].
Proof.
  split; [apply status_own_shortcut_counterexample|]. split; [lia|]. split; [reflexivity|].
  vm_compute. repeat split; reflexivity.
Qed.

(* B5: ids naming no request, or a duplicated id, now FAIL and leave the queues unmarked; the
   unrepaired library leaves request 2 flagged NC_REQ_TO_FREE after the failed call *)
Example w_failed_extract_fixed_example :
  ex_err (extract_reqs true w_xp2 2 [8; 8] true [7; 7]) = NC_EINVAL_REQUEST /\
  put_lead (ex_st (extract_reqs true w_xp2 2 [8; 8] true [7; 7])) = map unflag (put_lead w_xp2) /\
  ex_err (extract_reqs true w_xs3 2 [2; 2] true [7; 7]) = NC_EINVAL_REQUEST /\
  put_lead (ex_st (extract_reqs true w_xs3 2 [2; 2] true [7; 7])) = map unflag (put_lead w_xs3) /\
  map l_to_free (put_lead (ex_st (extract_reqs true w_xs3 2 [2; 2] true [7; 7]))) = [false; false] /\
  map l_to_free (put_lead (ex_st (extract_reqs false w_xs3 2 [2; 2] true [7; 7]))) = [false; true].
Proof. vm_compute. repeat split; reflexivity. Qed.

Definition w_xwbad : waitargs := mkwa 2 [2; 2] true [7; 7].
Example w_wait_failed_fixed_example :
  wr_rc (fst (wait_one isort_reqs isort_segs true w_xs3 w_xwbad empty_disk)) = NC_EINVAL_REQUEST /\
  nb_inv (wr_st (fst (wait_one isort_reqs isort_segs true w_xs3 w_xwbad empty_disk))) /\
  (* ... while the state left by the unrepaired library violates the invariant *)
  ~ nb_inv (wr_st (fst (wait_one isort_reqs isort_segs false w_xs3 w_xwbad empty_disk))).
Proof.
  split; [vm_compute; reflexivity|]. split; [apply wait_one_inv_fixed; exact w_xs3_inv|].
  intros ((_ & _ & _ & _ & Hunf) & _). rewrite Forall_forall in Hunf.
  assert (Hin : exists l, In l (put_lead (wr_st (fst (wait_one isort_reqs isort_segs false w_xs3 w_xwbad empty_disk))))
                          /\ l_to_free l = true).
  { w_lit (put_lead (wr_st (fst (wait_one isort_reqs isort_segs false w_xs3 w_xwbad empty_disk)))).
    eexists. split; [right; left; reflexivity|reflexivity]. }
  destruct Hin as (l & Hl & Hf). rewrite (Hunf l Hl) in Hf. discriminate Hf.
Qed.

(* B6: a wait for request 2 only keeps request 0 and 1 *)
Example w_frame_fixed_hyps :
  nb_inv w_xs3 /\ 0 <= wa_n w_xwa /\ wa_n w_xwa = Zlen (wa_ids w_xwa) /\
  wr_rc (fst (wait_one isort_reqs isort_segs true w_xs3 w_xwa empty_disk)) = NC_NOERR /\
  ~ In 0 (wa_ids w_xwa).
Proof.
  split; [exact w_xs3_inv|]. split; [vm_compute; discriminate|]. split; [reflexivity|].
  split; [vm_compute; reflexivity|]. cbn. intros [H|[]]. discriminate H.
Qed.

Print Assumptions extract_leads_same.
Print Assumptions extract_put_slices.
Print Assumptions extract_get_slices.
Print Assumptions wait_put_pairs.
Print Assumptions wait_get_pairs.
Print Assumptions extract_all_flags.
Print Assumptions subset_flags_gen.
Print Assumptions status_own_partial.
Print Assumptions subset_ids_reset_gen.
Print Assumptions subset_statuses.
Print Assumptions subset_ids_pending.
Print Assumptions wait_one_inv.
Print Assumptions extract_mid_inv.
Print Assumptions wait_subset_frame_partial.
Print Assumptions wait_nreqs.
Print Assumptions wait_completed_gone.
Print Assumptions wait_events_put.
Print Assumptions wait_events_get.
Print Assumptions w_xs3_inv.
Print Assumptions fixed_struct.
Print Assumptions subset_flags_fixed.
Print Assumptions status_own_fixed.
Print Assumptions ids_reset_fixed.
Print Assumptions statuses_fixed.
Print Assumptions ids_pending_fixed.
Print Assumptions failed_extract_fixed.
Print Assumptions unflag_inv.
Print Assumptions wait_one_failed_fixed.
Print Assumptions wait_one_inv_fixed.
Print Assumptions wait_subset_frame_fixed.
