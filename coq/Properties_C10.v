(* Properties_C10.v — statements only: each property theorem is stated in full and closed by
   `exact <lemma>`; the lemmas live in the Proofs_*.v files.  Assembled by tools/mkprops.py. *)
(* C10 Hints, process count and execution modes never change results. *)
(* Model: Config.v (hint parsing and precedence, alignment resolution, packing-buffer branch, in-place *)
(* swap decision, hash sizes, reported hints) and Aggregate.v (intra-node write aggregation). *)
(* The theorems say that each configuration dimension leaves the bytes written / read and the layout *)
(* (except as the alignment dictates) unchanged; the differential tie (checks/C10.py) runs the same *)
(* logical program under many configurations on the real library and compares. *)
From Coq Require Import ZArith List.
From Pnc Require Import Proofs_Config.
From Pnc Require Import Proofs_Aggregate.
Set Printing Width 100.
Set Printing Depth 100000.

(* any number of ranks, any assignment to aggregators, pairwise disjoint pairs: aggregated file = union of own writes *)
Theorem C10_aggr_equiv :
  forall (ranks : list Aggregate.contrib) (groups : list (list Aggregate.contrib))
           (singles : list Aggregate.contrib) (d : Disk.disk),
         Forall contrib_fits ranks ->
         Permutation.Permutation (concat groups ++ singles) ranks ->
         pdisj (all_tiles ranks) ->
         disk_eq (Aggregate.aggr_writes d groups singles) (Aggregate.spec_writes d ranks).
Proof. exact @aggr_equiv. Qed.
Print Assumptions C10_aggr_equiv.

(* request level: an aggregated collective put == every rank's data written at the row-major offsets of its request *)
Theorem C10_aggr_put_equiv :
  forall (reqs : list Aggregate.put_req) (groups : list (list Aggregate.put_req))
           (singles : list Aggregate.put_req) (d : Disk.disk),
         Forall req_fits reqs ->
         Permutation.Permutation (concat groups ++ singles) reqs ->
         pdisj (all_tiles (map Aggregate.contrib_of_req reqs)) ->
         disk_eq
           (Aggregate.aggr_writes d (map (map Aggregate.contrib_of_req) groups)
              (map Aggregate.contrib_of_req singles)) (fold_left spec_put reqs d).
Proof. exact @aggr_put_equiv. Qed.
Print Assumptions C10_aggr_put_equiv.

(* one aggregator, ANY sorted permutation returned by the (unstable) qsort *)
Theorem C10_aggr_after_sort_equiv :
  forall (recv_buf : list Base.byte) (pairs : list (Z * Z)) (S : list Aggregate.triple)
           (d : Disk.disk),
         Forall (fun p : Z * Z => (0 <= snd p)%Z) pairs ->
         Base.zsum (map snd pairs) = Base.Zlen recv_buf ->
         pdisj (Aggregate.tiles_of pairs recv_buf) ->
         Permutation.Permutation S (Aggregate.mk_triples pairs 0) ->
         sorted_off S ->
         disk_eq (Aggregate.aggr_after_sort d recv_buf S)
           (Proofs_Disk.write_tiles (Aggregate.tiles_of pairs recv_buf) d).
Proof. exact @aggr_after_sort_equiv. Qed.
Print Assumptions C10_aggr_after_sort_equiv.

Theorem C10_aggr_group_equiv :
  forall (members : list Aggregate.contrib) (d : Disk.disk),
         Forall contrib_fits members ->
         pdisj (all_tiles members) ->
         disk_eq (Aggregate.aggr_group_write d members) (Aggregate.spec_writes d members).
Proof. exact @aggr_group_equiv. Qed.
Print Assumptions C10_aggr_group_equiv.

Theorem C10_disjoint_writes_commute :
  forall (l l' : list tile) (d : Disk.disk),
         Permutation.Permutation l l' ->
         pdisj l -> disk_eq (Proofs_Disk.write_tiles l d) (Proofs_Disk.write_tiles l' d).
Proof. exact @write_tiles_perm. Qed.
Print Assumptions C10_disjoint_writes_commute.

(* finite domain of the property (1..8 ranks, 0..8 aggregators, placement on up to 3 nodes): groups partition the ranks *)
Theorem C10_aggr_init_partition :
  forall (np naggr : Z) (ids : list Z),
         In np (Base.zrange 1 8) ->
         In naggr (Base.zrange 0 9) ->
         In ids (all_lists 3 (Z.to_nat np)) -> init_ok np naggr ids = true.
Proof. exact @aggr_init_partition_8. Qed.
Print Assumptions C10_aggr_init_partition.

(* request level: the pairs sent to the aggregator cover exactly the row-major elements of the request *)
Theorem C10_flatten_req_spec :
  forall (g : Access.geom) (start count stride : list Z),
         Proofs_Access.wf_geom g ->
         Proofs_Access.req_ok (Access.g_shape g) start count stride ->
         Base.zprod count <> 0%Z ->
         Aggregate.pair_elems (Access.g_xsz g) (Aggregate.flatten_req g start count (Some stride)) =
         Access.spec_offsets g start count stride.
Proof. exact @flatten_req_spec. Qed.
Print Assumptions C10_flatten_req_spec.

Theorem C10_flatten_req_spec_null_stride :
  forall (g : Access.geom) (start count : list Z),
         Proofs_Access.wf_geom g ->
         Proofs_Access.req_ok (Access.g_shape g) start count
           (Access.ones (length (Access.g_shape g))) ->
         Base.zprod count <> 0%Z ->
         Aggregate.pair_elems (Access.g_xsz g) (Aggregate.flatten_req g start count None) =
         Access.spec_offsets g start count (Access.ones (length (Access.g_shape g))).
Proof. exact @flatten_req_spec_none. Qed.
Print Assumptions C10_flatten_req_spec_null_stride.

(* the code before the fix ignored stride[0] of a record variable; the witness is a regression input of the check *)
Theorem C10_flatten_req_old_refuted :
  ~
         (forall (g : Access.geom) (start count stride : list Z),
          Proofs_Access.wf_geom g ->
          Proofs_Access.req_ok (Access.g_shape g) start count stride ->
          Base.zprod count <> 0%Z ->
          Aggregate.pair_elems (Access.g_xsz g) (flatten_req_old g start count (Some stride)) =
          Access.spec_offsets g start count stride).
Proof. exact @flatten_req_old_refuted. Qed.
Print Assumptions C10_flatten_req_old_refuted.

Theorem C10_ibuf_pack_equiv :
  forall (ibuf1 ibuf2 cb : Z) (contig : bool) (mem : list Base.byte) 
           (tm : Config.typemap) (d : Disk.disk) (pos : list Z),
         Config.rw_write ibuf1 cb contig mem tm d pos = Config.rw_write ibuf2 cb contig mem tm d pos.
Proof. exact @ibuf_pack_equiv. Qed.
Print Assumptions C10_ibuf_pack_equiv.

Theorem C10_ibuf_pieces :
  forall (cb : Z) (d : Disk.disk) (pos : list Z) (s : list Base.byte),
         Config.scatter_pieces d pos (Config.chunked cb s) = Config.scatter d pos s.
Proof. exact @scatter_chunked. Qed.
Print Assumptions C10_ibuf_pieces.

Theorem C10_ibuf_unpack_equiv :
  forall (ibuf1 ibuf2 : Z) (contig : bool) (mem : list Base.byte) 
           (tm : Config.typemap) (d : Disk.disk) (pos : list Z),
         tm_nonneg tm ->
         Config.rw_read ibuf1 contig mem tm d pos = Config.rw_read ibuf2 contig mem tm d pos.
Proof. exact @ibuf_unpack_equiv. Qed.
Print Assumptions C10_ibuf_unpack_equiv.

Theorem C10_swap_mode_equiv :
  forall (m1 m2 : Config.swapmode) (need_swap contig : bool) (esz : Z) 
           (nelems : nat) (buf : list Base.byte) (tm : Config.typemap),
         contig_ok contig esz nelems buf tm ->
         Config.p_stream (Config.put_bytes m1 need_swap contig esz nelems buf tm) =
         Config.p_stream (Config.put_bytes m2 need_swap contig esz nelems buf tm) /\
         Config.p_buf_after (Config.put_bytes m1 need_swap contig esz nelems buf tm) = buf.
Proof. exact @swap_mode_equiv. Qed.
Print Assumptions C10_swap_mode_equiv.

Theorem C10_swapn_involutive :
  forall (esz : Z) (n : nat) (l : list Base.byte),
         Config.swapn esz n (Config.swapn esz n l) = l.
Proof. exact @swapn_involutive. Qed.
Print Assumptions C10_swapn_involutive.

Theorem C10_offsets_only_by_alignment :
  forall (c1 c2 : Config.config) (h : Header.hdr) (ea : Header.enddef_args) 
           (stale : Z) (old : option (Header.layout * list bool)) (prev : Z),
         Config.c_align c1 = Config.c_align c2 ->
         Config.cfg_enddef c1 h ea stale old prev = Config.cfg_enddef c2 h ea stale old prev.
Proof. exact @offsets_only_by_alignment. Qed.
Print Assumptions C10_offsets_only_by_alignment.

Theorem C10_layout_by_resolved_alignment :
  forall (c1 c2 : Config.config) (h : Header.hdr) (ea1 ea2 : Header.enddef_args)
           (stale1 stale2 : Z) (old : option (Header.layout * list bool)) 
           (prev ha va1 va2 ra : Z),
         fst (Config.cfg_enddef c1 h ea1 stale1 old prev) = (ha, va1, ra) ->
         fst (Config.cfg_enddef c2 h ea2 stale2 old prev) = (ha, va2, ra) ->
         Header.e_h_minfree ea1 = Header.e_h_minfree ea2 ->
         Header.e_v_minfree ea1 = Header.e_v_minfree ea2 ->
         snd (Config.cfg_enddef c1 h ea1 stale1 old prev) =
         snd (Config.cfg_enddef c2 h ea2 stale2 old prev).
Proof. exact @layout_by_resolved_alignment. Qed.
Print Assumptions C10_layout_by_resolved_alignment.

Theorem C10_align_precedence :
  forall (cfg : Header.aligncfg) (ea : Header.enddef_args) (nfix : Z) (is_new : bool),
         (0 <= Header.env_h_align cfg)%Z ->
         (0 <= Header.env_v_align cfg)%Z ->
         (0 <= Header.env_r_align cfg)%Z ->
         Header.resolve_align cfg ea nfix is_new =
         (fin4
            (first_pos
               (Header.env_h_align cfg
                :: Header.env_v_align cfg
                   :: Header.e_v_align ea
                      :: (if (nfix =? 0)%Z then Header.env_r_align cfg else 0%Z)
                         :: (if (nfix =? 0)%Z then Header.e_r_align ea else 0%Z)
                            :: (if is_new then Gen_consts.FILE_ALIGNMENT_DEFAULT else 0%Z) :: nil)),
          fin4 (first_pos (Header.env_v_align cfg :: Header.e_v_align ea :: nil)),
          fin4 (first_pos (Header.env_r_align cfg :: Header.e_r_align ea :: nil))).
Proof. exact @align_precedence. Qed.
Print Assumptions C10_align_precedence.

Theorem C10_env_over_info :
  forall (user : option Config.info) (s k : list Base.byte),
         Config.uget (Config.combine_env_hints user (Some s)) k =
         match env_last (Config.env_items s) k with
         | Some v => Some v
         | None => Config.uget user k
         end.
Proof. exact @env_over_info. Qed.
Print Assumptions C10_env_over_info.

Theorem C10_resolved_alignment_mult4 :
  forall (cfg : Header.aligncfg) (ea : Header.enddef_args) (nfix : Z) 
           (is_new : bool) (ha va ra : Z),
         (0 <= Header.env_h_align cfg)%Z ->
         (0 <= Header.env_v_align cfg)%Z ->
         (0 <= Header.env_r_align cfg)%Z ->
         Header.resolve_align cfg ea nfix is_new = (ha, va, ra) ->
         ((4 <= ha)%Z /\ (ha mod 4)%Z = 0%Z) /\
         ((4 <= va)%Z /\ (va mod 4)%Z = 0%Z) /\ (4 <= ra)%Z /\ (ra mod 4)%Z = 0%Z.
Proof. exact @resolved_alignment_mult4. Qed.
Print Assumptions C10_resolved_alignment_mult4.

Theorem C10_reported_hints_in_force :
  forall (user : option Config.info) (env hook safe : option (list Base.byte)) 
           (np : Z) (h : Header.hdr) (ea : Header.enddef_args),
         let c := fst (Config.open_config user env hook safe np) in
         let rep := fst (Config.reported_after_enddef user env hook safe np h ea) in
         let lay := snd (Config.reported_after_enddef user env hook safe np h ea) in
         exists ha va ra : Z,
           Header.resolve_align (Config.c_align c) ea (Base.Zlen (Header.h_vars h)) true =
           (ha, va, ra) /\
           lay = Header.begins h (Header.e_h_minfree ea) (Header.e_v_minfree ea) ha ra None 0 /\
           Config.info_get Config.k_h_align rep = Some (Config.dec ha) /\
           Config.info_get Config.k_v_align rep = Some (Config.dec va) /\
           Config.info_get Config.k_r_align rep = Some (Config.dec ra) /\
           Config.info_get Config.k_chunk rep = Some (Config.dec (Config.c_chunk c)) /\
           Config.info_get Config.k_ibuf rep = Some (Config.dec (Config.c_ibuf c)) /\
           Config.info_get Config.k_swap rep =
           Some
             match Config.c_swap c with
             | Config.SwapAuto =>
                 Config.B
                   (String.String (Ascii.Ascii true false false false false true true false)
                      (String.String (Ascii.Ascii true false true false true true true false)
                         (String.String (Ascii.Ascii false false true false true true true false)
                            (String.String (Ascii.Ascii true true true true false true true false)
                               String.EmptyString))))
             | Config.SwapOn =>
                 Config.B
                   (String.String (Ascii.Ascii true false true false false true true false)
                      (String.String (Ascii.Ascii false true true true false true true false)
                         (String.String (Ascii.Ascii true false false false false true true false)
                            (String.String (Ascii.Ascii false true false false false true true false)
                               (String.String
                                  (Ascii.Ascii false false true true false true true false)
                                  (String.String
                                     (Ascii.Ascii true false true false false true true false)
                                     String.EmptyString))))))
             | Config.SwapOff =>
                 Config.B
                   (String.String (Ascii.Ascii false false true false false true true false)
                      (String.String (Ascii.Ascii true false false true false true true false)
                         (String.String (Ascii.Ascii true true false false true true true false)
                            (String.String (Ascii.Ascii true false false false false true true false)
                               (String.String
                                  (Ascii.Ascii false true false false false true true false)
                                  (String.String
                                     (Ascii.Ascii false false true true false true true false)
                                     (String.String
                                        (Ascii.Ascii true false true false false true true false)
                                        String.EmptyString)))))))
             end /\
           Config.info_get Config.k_hash_dim rep = Some (Config.dec (Config.c_hash_dim c)) /\
           Config.info_get Config.k_hash_var rep = Some (Config.dec (Config.c_hash_var c)) /\
           Config.info_get Config.k_hash_gattr rep = Some (Config.dec (Config.c_hash_gattr c)) /\
           Config.info_get Config.k_hash_vattr rep = Some (Config.dec (Config.c_hash_vattr c)) /\
           Config.info_get Config.k_num_aggrs rep = Some (Config.dec (Config.c_num_aggrs c)).
Proof. exact @reported_hints_in_force. Qed.
Print Assumptions C10_reported_hints_in_force.

Theorem C10_hash_sizes_positive :
  forall (user : option Config.info) (env hook safe : option (list Base.byte)) (np : Z),
         Config.hash_sizes_ok (fst (Config.open_config user env hook safe np)) = true.
Proof. exact @hash_sizes_positive. Qed.
Print Assumptions C10_hash_sizes_positive.

(* F9 (fixed in /repo): the old test `< 0` accepted 0; regression guard: sanitizer runs + c10_info correspondence *)
Theorem C10_hash_sizes_old_refuted :
  ~
         (forall (ui : option Config.info) (k : list Base.byte) (dflt : Z),
          (0 < dflt)%Z -> (0 < hash_hint_old ui k dflt)%Z).
Proof. exact @hash_sizes_old_refuted. Qed.
Print Assumptions C10_hash_sizes_old_refuted.
