(* Properties_C15.v — statements only: each property theorem is stated in full and closed by
   `exact <lemma>`; the lemmas live in the Proofs_*.v files.  Assembled by tools/mkprops.py. *)
(* C15 Out-of-range requests rejected; writes stay inside their target: acceptance by the argument check *)
(* implies the request fits (req_ok); accepted requests address exactly the elements' bytes; every element's *)
(* bytes lie inside the variable's region (so never in the header or another variable, given a valid layout). *)
From Coq Require Import ZArith List.
From Pnc Require Import Proofs_Access.
From Pnc Require Import Proofs_CheckScs.
From Pnc Require Import Proofs_RoundTrip.
From Pnc Require Import CSub.
From Pnc Require Import Gen_scs.
From Pnc Require Import Proofs_GenScs.
From Pnc Require Import Proofs_Reach3.
Set Printing Width 100.
Set Printing Depth 100000.

Theorem C15_check_accepts_only_fitting :
  forall (fmt : Z) (strict isread : bool) (kind : Access.apikind) 
           (shape : list Z) (numrecs : Z) (st cn : list Z) (stride : option (list Z)),
         length st = length shape ->
         length cn = length shape ->
         match stride with
         | Some t => length t = length shape
         | None => True
         end ->
         Access.check_scs fmt strict match shape with
                                     | nil => false
                                     | s0 :: _ => (s0 =? 0)%Z
                                     end isread kind shape numrecs (Some st) 
           (Some cn) stride = Gen_consts.NC_NOERR ->
         req_ok shape st cn (stride_or_ones (length shape) stride).
Proof. exact @check_scs_req_ok. Qed.
Print Assumptions C15_check_accepts_only_fitting.

Theorem C15_accepted_request_offsets :
  forall (fmt : Z) (strict isread : bool) (kind : Access.apikind) 
           (g : Access.geom) (numrecs : Z) (st cn stride : list Z),
         wf_geom g ->
         length st = length (Access.g_shape g) ->
         length cn = length (Access.g_shape g) ->
         length stride = length (Access.g_shape g) ->
         Access.check_scs fmt strict (Access.g_isrec g) isread kind (Access.g_shape g) numrecs
           (Some st) (Some cn) (Some stride) = Gen_consts.NC_NOERR ->
         Access.model_offsets g st cn (Some stride) = Access.spec_offsets g st cn stride.
Proof. exact @accepted_request_offsets. Qed.
Print Assumptions C15_accepted_request_offsets.

Theorem C15_elem_bytes_within_fixed_var :
  forall (g : Access.geom) (idx : list Z),
         (0 <= Access.g_xsz g)%Z ->
         Access.g_isrec g = false ->
         Access.idx_in_shape (Access.g_shape g) idx = true ->
         (Access.g_begin g <= Access.elem_off g idx)%Z /\
         (Access.elem_off g idx + Access.g_xsz g <=
          Access.g_begin g + Base.zprod (Access.g_shape g) * Access.g_xsz g)%Z.
Proof. exact @elem_off_bounds_fixed. Qed.
Print Assumptions C15_elem_bytes_within_fixed_var.

Theorem C15_elem_bytes_within_record_slot :
  forall (g : Access.geom) (i0 : Z) (r : list Z),
         (0 <= Access.g_xsz g)%Z ->
         Access.g_isrec g = true ->
         Access.idx_in_shape (tl (Access.g_shape g)) r = true ->
         (Access.g_begin g + i0 * Access.g_recsize g <= Access.elem_off g (i0 :: r))%Z /\
         (Access.elem_off g (i0 :: r) + Access.g_xsz g <=
          Access.g_begin g + i0 * Access.g_recsize g +
          Base.zprod (tl (Access.g_shape g)) * Access.g_xsz g)%Z.
Proof. exact @elem_off_bounds_rec. Qed.
Print Assumptions C15_elem_bytes_within_record_slot.

Theorem C15_offsets_nodup :
  forall (g : Access.geom) (start count stride : list Z),
         wf_geom g ->
         rec_fits g ->
         req_ok (Access.g_shape g) start count stride ->
         NoDup (Access.model_offsets g start count (Some stride)).
Proof. exact @model_offsets_NoDup. Qed.
Print Assumptions C15_offsets_nodup.

Theorem C15_check_scs_iff_fits :
  forall (fmt : Z) (strict isrec isread : bool) (kind : Access.apikind) 
           (shape : list Z) (numrecs : Z) (start count stride : option (list Z)),
         match start with
         | Some st => lengths_ok isrec shape st count stride
         | None => True
         end ->
         Access.check_scs fmt strict isrec isread kind shape numrecs start count stride =
         Gen_consts.NC_NOERR <->
         fits_b fmt strict isrec isread kind shape numrecs start count stride = true.
Proof. exact @check_scs_iff_fits. Qed.
Print Assumptions C15_check_scs_iff_fits.

Theorem C15_check_scs_iff_fits_prop :
  forall (fmt : Z) (strict isrec isread : bool) (kind : Access.apikind) 
           (shape : list Z) (numrecs : Z) (st cn : list Z) (stride : option (list Z)),
         lengths_ok isrec shape st (Some cn) stride ->
         Access.check_scs fmt strict isrec isread kind shape numrecs (Some st) (Some cn) stride =
         Gen_consts.NC_NOERR <-> fits fmt strict isrec isread shape numrecs st cn stride.
Proof. exact @check_scs_iff_fits_prop. Qed.
Print Assumptions C15_check_scs_iff_fits_prop.

Theorem C15_check_scs_codes :
  forall (fmt : Z) (strict isrec isread : bool) (kind : Access.apikind) 
           (shape : list Z) (numrecs : Z) (start count stride : option (list Z)),
         is_code (Access.check_scs fmt strict isrec isread kind shape numrecs start count stride).
Proof. exact @check_scs_codes. Qed.
Print Assumptions C15_check_scs_codes.

Theorem C15_first_bad_dimension_decides :
  forall (fmt : Z) (strict isrec isread : bool) (kind : Access.apikind) 
           (shape : list Z) (numrecs : Z) (st cn : list Z) (stride : option (list Z)) 
           (i : nat),
         lengths_ok isrec shape st (Some cn) stride ->
         starts_ok_b fmt strict isrec isread shape numrecs st (Some cn) = true ->
         let shp := shp_of isrec shape numrecs in
         i < length shape ->
         (forall j : nat, j < i -> code_at_s isrec isread st cn stride shp j = Gen_consts.NC_NOERR) ->
         code_at_s isrec isread st cn stride shp i <> Gen_consts.NC_NOERR ->
         Access.check_scs fmt strict isrec isread kind shape numrecs (Some st) (Some cn) stride =
         code_at_s isrec isread st cn stride shp i.
Proof. exact @check_scs_first_bad_dim. Qed.
Print Assumptions C15_first_bad_dimension_decides.

Theorem C15_perturb_neg_start :
  forall (fmt : Z) (strict isrec isread : bool) (kind : Access.apikind) 
           (shape : list Z) (numrecs : Z) (st : list Z) (count stride : option (list Z)) 
           (i : nat) (v : Z),
         lengths_ok isrec shape st count stride ->
         i < length shape ->
         (v < 0)%Z ->
         Access.check_scs fmt strict isrec isread kind shape numrecs (Some (set_nth i v st)) count
           stride = Gen_consts.NC_EINVALCOORDS.
Proof. exact @perturb_neg_start. Qed.
Print Assumptions C15_perturb_neg_start.

Theorem C15_perturb_start_too_large :
  forall (fmt : Z) (strict isrec isread : bool) (kind : Access.apikind) 
           (shape : list Z) (numrecs : Z) (st : list Z) (count stride : option (list Z)) 
           (i : nat) (v : Z),
         lengths_ok isrec shape st count stride ->
         i < length shape ->
         bounded_dim isrec isread i = true ->
         (if strict
          then (nth i (shp_of isrec shape numrecs) 0 <= v)%Z
          else (nth i (shp_of isrec shape numrecs) 0 < v)%Z) ->
         Access.check_scs fmt strict isrec isread kind shape numrecs (Some (set_nth i v st)) count
           stride = Gen_consts.NC_EINVALCOORDS.
Proof. exact @perturb_start_too_large. Qed.
Print Assumptions C15_perturb_start_too_large.

Theorem C15_perturb_neg_count :
  forall (fmt : Z) (strict isrec isread : bool) (kind : Access.apikind) 
           (shape : list Z) (numrecs : Z) (st cn : list Z) (stride : option (list Z)) 
           (i : nat) (v : Z),
         lengths_ok isrec shape st (Some cn) stride ->
         Access.check_scs fmt strict isrec isread kind shape numrecs (Some st) (Some cn) stride =
         Gen_consts.NC_NOERR ->
         i < length shape ->
         (v < 0)%Z ->
         Access.check_scs fmt strict isrec isread kind shape numrecs (Some st)
           (Some (set_nth i v cn)) stride = Gen_consts.NC_ENEGATIVECNT.
Proof. exact @perturb_neg_count. Qed.
Print Assumptions C15_perturb_neg_count.

Theorem C15_perturb_count_too_large :
  forall (fmt : Z) (strict isrec isread : bool) (kind : Access.apikind) 
           (shape : list Z) (numrecs : Z) (st cn : list Z) (stride : option (list Z)) 
           (i : nat) (v : Z),
         lengths_ok isrec shape st (Some cn) stride ->
         Access.check_scs fmt strict isrec isread kind shape numrecs (Some st) (Some cn) stride =
         Gen_consts.NC_NOERR ->
         i < length shape ->
         bounded_dim isrec isread i = true ->
         (nth i st 0 < nth i (shp_of isrec shape numrecs) 0)%Z ->
         (nth i (shp_of isrec shape numrecs) 0 < nth i st 0 + v)%Z ->
         Access.check_scs fmt strict isrec isread kind shape numrecs (Some st)
           (Some (set_nth i v cn)) stride = Gen_consts.NC_EEDGE.
Proof. exact @perturb_count_too_large. Qed.
Print Assumptions C15_perturb_count_too_large.

Theorem C15_perturb_bad_stride :
  forall (fmt : Z) (strict isrec isread : bool) (kind : Access.apikind) 
           (shape : list Z) (numrecs : Z) (st cn t : list Z) (i : nat) (v : Z),
         lengths_ok isrec shape st (Some cn) (Some t) ->
         Access.check_scs fmt strict isrec isread kind shape numrecs (Some st) (Some cn) (Some t) =
         Gen_consts.NC_NOERR ->
         i < length shape ->
         (v <= 0)%Z ->
         Access.check_scs fmt strict isrec isread kind shape numrecs (Some st) 
           (Some cn) (Some (set_nth i v t)) = Gen_consts.NC_ESTRIDE.
Proof. exact @perturb_bad_stride. Qed.
Print Assumptions C15_perturb_bad_stride.

Theorem C15_put_frame :
  forall (g : Access.geom) (start count stride : list Z) (d : Disk.disk) 
           (bs : list Base.byte) (x : Z),
         wf_geom g ->
         req_ok (Access.g_shape g) start count stride ->
         (forall idx : list Z,
          In idx (Access.req_indices start count stride) ->
          ~ in_elem (Access.g_xsz g) (Access.elem_off g idx) x) ->
         Disk.dk_get
           (Disk.dk_scatter d (Access.g_xsz g) (Access.model_offsets g start count (Some stride)) bs)
           x = Disk.dk_get d x.
Proof. exact @put_frame. Qed.
Print Assumptions C15_put_frame.

(* the dispatcher's C functions, as translated from var_getput.c as built on this run (Gen_scs.v, tools/tr_cfun.py), against the hand-written model of Access.v: check_EINVALCOORDS *)
Theorem C15_gen_check_EINVALCOORDS_eq :
  forall sc s c sh : Z,
         check_EINVALCOORDS_c sc s c sh = FVal (Access.check_EINVALCOORDS (z2b sc) s c sh).
Proof. exact @gen_check_EINVALCOORDS_eq. Qed.
Print Assumptions C15_gen_check_EINVALCOORDS_eq.

(* check_EEDGE, where start >= 0 and the sum start + count fits MPI_Offset *)
Theorem C15_gen_check_EEDGE_eq :
  forall (ps pc pt psh : c_ptr Z) (s c : Z) (t : option Z) (sh : Z),
         p_ok ps 0 = true ->
         p_get 0%Z ps 0 = s ->
         p_ok pc 0 = true ->
         p_get 0%Z pc 0 = c ->
         p_ok psh 0 = true ->
         p_get 0%Z psh 0 = sh ->
         ptr_at pt t ->
         edge_arith_ok s c sh -> check_EEDGE_c ps pc pt psh = FVal (Access.check_EEDGE s c t sh).
Proof. exact @gen_check_EEDGE_eq. Qed.
Print Assumptions C15_gen_check_EEDGE_eq.

(* the repaired stride test of check_EEDGE (no product): its subtractions and its division are defined for every accepted start and count *)
Theorem C15_stride_test_defined :
  forall s c sh : Z,
         (c <= sh)%Z ->
         (s + c <= sh)%Z ->
         (0 <= s)%Z ->
         (sh <= 9223372036854775807)%Z ->
         (1 < c)%Z ->
         in_i64 (sh - 1) = true /\
         in_i64 (sh - 1 - s) = true /\
         in_i64 (c - 1) = true /\ div_ok i64_min (sh - 1 - s) (c - 1) = true.
Proof. exact @eedge_checks. Qed.
Print Assumptions C15_stride_test_defined.

(* ... and it equals the model's test start + (count - 1) * stride >= shape for EVERY stride value (no overflow guard on the stride) *)
Theorem C15_stride_test_exact :
  forall s c tv sh : Z,
         (c <= sh)%Z ->
         (s + c <= sh)%Z ->
         ((c >? 1)%Z && (tv >? 0)%Z && (tv >? (sh - 1 - s) ÷ (c - 1))%Z)%bool =
         ((c >? 0)%Z && (s + (c - 1) * tv >=? sh)%Z)%bool.
Proof. exact @eedge_test. Qed.
Print Assumptions C15_stride_test_exact.

(* check_start_count_stride = Access.check_scs for all arguments satisfying the guards the C code relies on (array lengths, classic format, start + count of an accepted request fits MPI_Offset: only dimensions beyond 2^62 can violate it) *)
Theorem C15_gen_check_scs_eq :
  forall (pncp : c_PNC) (varid isr : Z) (kind : Access.apikind) (recdim : Z) 
           (shape : list Z) (numrecs : Z) (st : list Z) (count stride : option (list Z)),
         p_ok (PNC__vars pncp) varid = true ->
         p_get c_PNC_var_default (PNC__vars pncp) varid = c_pvar recdim shape ->
         In (PNC__format pncp) (1%Z :: 2%Z :: 5%Z :: nil) ->
         scs_lengths shape st count stride ->
         (Base.Zlen shape <= 2147483647)%Z ->
         Forall (fun x : Z => (x <= 9223372036854775807)%Z) (shp_of (recdim >=? 0)%Z shape numrecs) ->
         scs_sum_ok (shp_of (recdim >=? 0)%Z shape numrecs) st count ->
         check_start_count_stride_c pncp varid isr (kind_code kind) (Some (st, 0%Z)) 
           (c_arr count) (c_arr stride) Gen_consts.NC_NOERR numrecs =
         FVal
           (Access.check_scs (PNC__format pncp) (z2b (Z.land (PNC__flag pncp) NC_STRICT))
              (recdim >=? 0)%Z (z2b isr) kind shape numrecs (Some st) count stride).
Proof. exact @gen_check_scs_eq. Qed.
Print Assumptions C15_gen_check_scs_eq.

Theorem C15_gen_check_scs_null_start :
  forall (pncp : c_PNC) (varid isr kz recdim : Z) (shape : list Z) 
           (numrecs : Z) (pcount pstride : c_ptr Z),
         p_ok (PNC__vars pncp) varid = true ->
         p_get c_PNC_var_default (PNC__vars pncp) varid = c_pvar recdim shape ->
         shape <> nil ->
         check_start_count_stride_c pncp varid isr kz None pcount pstride Gen_consts.NC_NOERR numrecs =
         FVal Gen_consts.NC_EINVALCOORDS.
Proof. exact @gen_check_scs_null_start. Qed.
Print Assumptions C15_gen_check_scs_null_start.

Theorem C15_gen_check_scs_inq_error :
  forall (pncp : c_PNC) (varid isr kz recdim : Z) (shape : list Z)
           (pstart pcount pstride : c_ptr Z) (xret xout : Z),
         p_ok (PNC__vars pncp) varid = true ->
         p_get c_PNC_var_default (PNC__vars pncp) varid = c_pvar recdim shape ->
         shape <> nil ->
         (0 <= recdim)%Z ->
         xret <> Gen_consts.NC_NOERR ->
         check_start_count_stride_c pncp varid isr kz pstart pcount pstride xret xout = FVal xret.
Proof. exact @gen_check_scs_inq_error. Qed.
Print Assumptions C15_gen_check_scs_inq_error.

(* the translator met no construct outside its subset *)
(* ---- for EVERY reachable state of the API-level model (Proofs_Reach*.v) ---- *)
(* C15 variables do not overlap (for every history) ---------------- *)
(* any state satisfying the invariant: lay_inv, layout_ok, begins >= hdr_len, fixed variables pairwise *)
(* disjoint and in definition order, fixed variables end at or before begin_rec <= record variables *)
Theorem C15_gen_scs_subset_complete :
  tr_cfun_unsupported = nil.
Proof. exact @gen_scs_subset_complete. Qed.
Print Assumptions C15_gen_scs_subset_complete.

(* an accepted put (any form: var, var1, vara, vars, varm, varn; arrays of ndims entries) writes no byte *)
(* below the header length: the file state keeps satisfying the invariant *)
Theorem C15_inv_layout :
  forall (w : Exec.world) (id : Z) (f : Exec.filest),
         Proofs_Reach.world_inv w ->
         Base.znth (Exec.w_files w) id None = Some f ->
         Exec.f_tainted f = false ->
         Exec.f_indef f = false ->
         let h := Exec.f_hdr f in
         let lay := Exec.f_lay f in
         Proofs_Layout.lay_inv (Proofs_Layout.t3of h) (Proofs_Reach.lay_core lay) /\
         (Header.h_vars h <> nil -> Proofs_Layout.lay_inv (Proofs_Layout.t3of h) lay) /\
         HeaderSpec.layout_ok h (Header.hdr_len h) = true /\
         (forall i : Z,
          (0 <= i < Base.Zlen (Header.h_vars h))%Z ->
          (Header.hdr_len h <= Header.v_begin (Base.znth (Header.h_vars h) i Proofs_Redef.dv))%Z) /\
         (forall i j : Z,
          (0 <= i)%Z ->
          (i < j)%Z ->
          (j < Base.Zlen (Header.h_vars h))%Z ->
          Header.is_recvar (Header.h_dims h) (Base.znth (Header.h_vars h) i Proofs_Redef.dv) = false ->
          Header.is_recvar (Header.h_dims h) (Base.znth (Header.h_vars h) j Proofs_Redef.dv) = false ->
          (Header.v_begin (Base.znth (Header.h_vars h) i Proofs_Redef.dv) +
           Header.var_len (Header.h_dims h) (Base.znth (Header.h_vars h) i Proofs_Redef.dv) <=
           Header.v_begin (Base.znth (Header.h_vars h) j Proofs_Redef.dv))%Z) /\
         (forall i : Z,
          (0 <= i < Base.Zlen (Header.h_vars h))%Z ->
          if Header.is_recvar (Header.h_dims h) (Base.znth (Header.h_vars h) i Proofs_Redef.dv)
          then
           (Header.l_begin_rec lay <= Header.v_begin (Base.znth (Header.h_vars h) i Proofs_Redef.dv))%Z
          else
           (Header.v_begin (Base.znth (Header.h_vars h) i Proofs_Redef.dv) +
            Header.var_len (Header.h_dims h) (Base.znth (Header.h_vars h) i Proofs_Redef.dv) <=
            Header.l_begin_rec lay)%Z).
Proof. exact @inv_layout. Qed.
Print Assumptions C15_inv_layout.

(* every offset of an accepted request is at or after the variable's begin *)
Theorem C15_put_fold_file_ok :
  forall (np nd : Z) (d : Disk.disk) (f : Exec.filest) (w : Exec.world) 
           (rank : Z) (coll : bool) (a : Exec.access) (e1 : Z) (rs : list Exec.rreq),
         Proofs_Reach.file_ok np nd d f ->
         Proofs_Reach.put_acc_ok f a = true ->
         Exec.sanity f true true coll a = Gen_consts.NC_NOERR ->
         Exec.check_request w f rank false a = (e1, Some rs) ->
         Proofs_Reach.file_ok np nd (put_fold f a (Exec.with_bases rs 0) d) f.
Proof. exact @put_fold_file_ok. Qed.
Print Assumptions C15_put_fold_file_ok.

(* what check_request accepts satisfies req_ok, every form *)
Theorem C15_offsets_ge_begin :
  forall (g : Access.geom) (start count : list Z) (stride : option (list Z)),
         wf_geom g ->
         req_ok (Access.g_shape g) start count (stride_or_ones (length (Access.g_shape g)) stride) ->
         forall o : Z, In o (Access.model_offsets g start count stride) -> (Access.g_begin g <= o)%Z.
Proof. exact @offsets_ge_begin. Qed.
Print Assumptions C15_offsets_ge_begin.

Theorem C15_check_request_all_ok :
  forall (w : Exec.world) (f : Exec.filest) (rank : Z) (isread : bool) 
           (a : Exec.access) (e : Z) (rs : list Exec.rreq),
         dims_wf (Header.var_shape (Header.h_dims (Exec.f_hdr f)) (Exec.the_var f a)) ->
         (0 <= Exec.rk_numrecs (Exec.get_rank f rank))%Z ->
         Proofs_Reach.acc_lens_b (Exec.ac_form a) (length (Header.v_dimids (Exec.the_var f a))) =
         true ->
         Exec.check_request w f rank isread a = (e, Some rs) ->
         Forall (rq_req_ok (Header.var_shape (Header.h_dims (Exec.f_hdr f)) (Exec.the_var f a))) rs.
Proof. exact @check_request_all_ok. Qed.
Print Assumptions C15_check_request_all_ok.
