(* Properties_C15.v — statements only: each property theorem is stated in full and closed by
   `exact <lemma>`; the lemmas live in the Proofs_*.v files.  Assembled by tools/mkprops.py. *)
(* C15 Out-of-range requests rejected; writes stay inside their target: acceptance by the argument check *)
(* implies the request fits (req_ok); accepted requests address exactly the elements' bytes; every element's *)
(* bytes lie inside the variable's region (so never in the header or another variable, given a valid layout). *)
From Coq Require Import ZArith List.
From Pnc Require Import Proofs_Access.
Set Printing Width 100.
Set Printing Depth 100000.

Theorem C15_check_accepts_only_fitting :
  forall (fmt : Z) (strict isread : bool) (kind : Access.apikind) 
           (shape : list Z) (numrecs : Z) (st cn : list Z) (stride : option (list Z)),
         length st = length shape ->
         length cn = length shape ->
         match stride with
         | Some t => length t = length shape
         | None => True
         end ->
         Access.check_scs fmt strict match shape with
                                     | nil => false
                                     | s0 :: _ => (s0 =? 0)%Z
                                     end isread kind shape numrecs (Some st) 
           (Some cn) stride = Gen_consts.NC_NOERR ->
         req_ok shape st cn (stride_or_ones (length shape) stride).
Proof. exact @check_scs_req_ok. Qed.
Print Assumptions C15_check_accepts_only_fitting.

Theorem C15_accepted_request_offsets :
  forall (fmt : Z) (strict isread : bool) (kind : Access.apikind) 
           (g : Access.geom) (numrecs : Z) (st cn stride : list Z),
         wf_geom g ->
         length st = length (Access.g_shape g) ->
         length cn = length (Access.g_shape g) ->
         length stride = length (Access.g_shape g) ->
         Access.check_scs fmt strict (Access.g_isrec g) isread kind (Access.g_shape g) numrecs
           (Some st) (Some cn) (Some stride) = Gen_consts.NC_NOERR ->
         Access.model_offsets g st cn (Some stride) = Access.spec_offsets g st cn stride.
Proof. exact @accepted_request_offsets. Qed.
Print Assumptions C15_accepted_request_offsets.

Theorem C15_elem_bytes_within_fixed_var :
  forall (g : Access.geom) (idx : list Z),
         (0 <= Access.g_xsz g)%Z ->
         Access.g_isrec g = false ->
         Access.idx_in_shape (Access.g_shape g) idx = true ->
         (Access.g_begin g <= Access.elem_off g idx)%Z /\
         (Access.elem_off g idx + Access.g_xsz g <=
          Access.g_begin g + Base.zprod (Access.g_shape g) * Access.g_xsz g)%Z.
Proof. exact @elem_off_bounds_fixed. Qed.
Print Assumptions C15_elem_bytes_within_fixed_var.

Theorem C15_elem_bytes_within_record_slot :
  forall (g : Access.geom) (i0 : Z) (r : list Z),
         (0 <= Access.g_xsz g)%Z ->
         Access.g_isrec g = true ->
         Access.idx_in_shape (tl (Access.g_shape g)) r = true ->
         (Access.g_begin g + i0 * Access.g_recsize g <= Access.elem_off g (i0 :: r))%Z /\
         (Access.elem_off g (i0 :: r) + Access.g_xsz g <=
          Access.g_begin g + i0 * Access.g_recsize g +
          Base.zprod (tl (Access.g_shape g)) * Access.g_xsz g)%Z.
Proof. exact @elem_off_bounds_rec. Qed.
Print Assumptions C15_elem_bytes_within_record_slot.

Theorem C15_offsets_nodup :
  forall (g : Access.geom) (start count stride : list Z),
         wf_geom g ->
         rec_fits g ->
         req_ok (Access.g_shape g) start count stride ->
         NoDup (Access.model_offsets g start count (Some stride)).
Proof. exact @model_offsets_NoDup. Qed.
Print Assumptions C15_offsets_nodup.
