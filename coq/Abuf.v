(* Abuf.v — MODEL (executable, no proofs) for property C13:
   (A) the attached-buffer pool of buffered puts
         src/drivers/ncmpio/ncmpio_bput.c      ncmpio_buffer_attach / ncmpio_buffer_detach
         src/drivers/ncmpio/ncmpio_i_getput.m4 ncmpio_abuf_malloc / ncmpio_abuf_dealloc, the NC_EINSUFFBUF test
         src/drivers/ncmpio/ncmpio_wait.c      abuf_coalesce, `occupy_table[i].is_used = 0`, cancel(ALL) reset
         src/drivers/ncmpio/ncmpio_file_misc.c inq_buffer_usage (= size_used), inq_buffer_size (= size_allocated)
   (B) what the library does to the CALLER's buffer
         src/drivers/common/convert_swap.m4    ncmpii_in_swapn, ncmpii_need_convert; common.h NEED_BYTE_SWAP
         src/drivers/ncmpio/ncmpio_getput.m4   put_varm: can_swap_in_place, xbuf = buf, need_swap_back_buf
         src/drivers/ncmpio/ncmpio_i_getput.m4 ncmpio_igetput_varm (same decision, flag NC_REQ_BUF_BYTE_SWAP)
         src/drivers/ncmpio/ncmpio_i_varn.m4   igetput_varn (same decision, different condition)
         src/drivers/ncmpio/ncmpio_util.c      ncmpio_unpack_xbuf (convert/swap -> imap unpack -> buftype unpack)

   Honest list of simplifications
   * occupy_table is a list holding exactly the entries [0, tail): entries at index >= tail are dead
     in the C code (abuf_malloc overwrites both fields before anything reads them), table growth
     (NC_ABUF_DEFAULT_TABLE_SIZE realloc) is not modelled.
   * ncmpio_abuf_dealloc is only reached when ncmpio_pack_xbuf fails with a fatal error (MPI_Pack
     failure / NC_ENOMEM); those failures are not modelled, the function is given for completeness.
   * a buffer is a list of bytes; MPI_Pack/MPI_Unpack through a derived datatype are modelled by the
     list of element positions (in elements) of its type map, which the caller supplies
     (vector layouts, ncmpii_create_imaptype: Access.imap_positions_spec).
   * value conversion (ncmpii_getn_/putn_) is a parameter: the unpack model receives the already
     converted element stream; C09 is about the conversion itself.
   * little-endian host (WORDS_BIGENDIAN undefined), as built. *)
From Pnc Require Export Base Gen_consts.
Local Open Scope Z_scope.

(* ====================================================================== *)
(* A. attached buffer pool                                                 *)
(* ====================================================================== *)
Record abuf := mkabuf {
  ab_alloc : Z;                    (* size_allocated *)
  ab_used  : Z;                    (* size_used *)
  ab_table : list (bool * Z)       (* occupy_table[0..tail): (is_used, req_size) *)
}.
Definition ab_tail (a : abuf) : Z := Zlen (ab_table a).

(* ncmpio_buffer_attach: (new pool, rc) ; cur = the pool already attached, if any *)
Definition abuf_attach (cur : option abuf) (bufsize : Z) : option abuf * Z :=
  if bufsize <=? 0 then (cur, NC_ENULLBUF)
  else match cur with
       | Some _ => (cur, NC_EPREVATTACHBUF)
       | None => (Some (mkabuf bufsize 0 []), NC_NOERR)
       end.

(* the test in igetput_varm / igetput_varn before abuf_malloc *)
Definition abuf_insufficient (a : abuf) (nbytes : Z) : bool := ab_alloc a - ab_used a <? nbytes.

(* ncmpio_abuf_malloc: (pool, abuf_index, offset of the slice inside the pool) *)
Definition abuf_malloc (a : abuf) (nbytes : Z) : abuf * Z * Z :=
  (mkabuf (ab_alloc a) (ab_used a + nbytes) (ab_table a ++ [(true, nbytes)]), ab_tail a, ab_used a).

(* ncmpio_abuf_dealloc (index must be tail-1) *)
Definition abuf_dealloc (a : abuf) : abuf :=
  match rev (ab_table a) with
  | [] => a
  | (_, n) :: r => mkabuf (ab_alloc a) (ab_used a - n) (rev r)
  end.

(* occupy_table[i].is_used = 0 *)
Definition abuf_release (a : abuf) (i : Z) : abuf :=
  mkabuf (ab_alloc a) (ab_used a)
         (zupd (ab_table a) i (false, snd (znth (ab_table a) i (false, 0)))).

(* abuf_coalesce: walk back from tail-1 while the entry is free *)
Fixpoint coalesce_rev (rt : list (bool * Z)) (used : Z) : list (bool * Z) * Z :=
  match rt with
  | (false, n) :: r => coalesce_rev r (used - n)
  | _ => (rt, used)
  end.
Definition abuf_coalesce (a : abuf) : abuf :=
  let '(rt, u) := coalesce_rev (rev (ab_table a)) (ab_used a) in
  mkabuf (ab_alloc a) u (rev rt).

(* cancel(NC_PUT_REQ_ALL / NC_REQ_ALL): tail = 0; size_used = 0 *)
Definition abuf_reset (a : abuf) : abuf := mkabuf (ab_alloc a) 0 [].

(* inquiries *)
Definition abuf_usage (a : abuf) : Z := ab_used a.
Definition abuf_size (a : abuf) : Z := ab_alloc a.

(* SPEC quantity: bytes of the buffered puts that are still pending = in-use entries *)
Definition abuf_pending (a : abuf) : Z := zsum (map snd (filter fst (ab_table a))).
(* offset of entry i inside the pool = sum of the sizes before it *)
Definition abuf_offset (a : abuf) (i : Z) : Z := zsum (map snd (zfirstn i (ab_table a))).

(* a history of the pool alone (used to state the accounting theorems over ALL histories) *)
Inductive abop :=
| ABput (nbytes : Z)          (* bput request of nbytes > 0: refused or allocated *)
| AComplete (idxs : list Z)   (* one wait/cancel completing these entries, then abuf_coalesce *)
| AResetAll.                  (* cancel of all put requests *)

Definition ab_step (a : abuf) (o : abop) : abuf :=
  match o with
  | ABput n => if abuf_insufficient a n then a else fst (fst (abuf_malloc a n))
  | AComplete idxs => abuf_coalesce (fold_left abuf_release idxs a)
  | AResetAll => abuf_reset a
  end.
Definition ab_run (a : abuf) (ops : list abop) : abuf := fold_left ab_step ops a.

(* ====================================================================== *)
(* B. the caller's buffer                                                   *)
(* ====================================================================== *)
(* ncmpii_in_swapn: reverse the bytes of each of the first nelems elements of esize bytes.
   (the 2/4/8-byte branches and the generic loop all reverse the element) *)
Fixpoint swap_chunks (n : nat) (e : nat) (l : list byte) : list byte :=
  match n with
  | O => l
  | S k => rev (firstn e l) ++ swap_chunks k e (skipn e l)
  end.
Definition in_swapn (buf : list byte) (nelems esize : Z) : list byte :=
  if (esize <=? 1) || (nelems <=? 0) then buf
  else swap_chunks (Z.to_nat nelems) (Z.to_nat esize) buf.

(* nc_type numbers double as memory-type numbers: 1 schar 2 char 3 short 4 int 5 float 6 double
   7 uchar 8 ushort 9 uint 10 longlong 11 ulonglong *)
Definition need_convert (fmt xt k : Z) : bool :=
  if xt =? 2 then false
  else if (fmt <? 5) && (xt =? 1) && (k =? 7) then false
  else negb (xt =? k).
Definition need_swap (xt k : Z) : bool :=
  negb (((xt =? 2) && (k =? 2)) || ((xt =? 1) && (k =? 1)) || ((xt =? 7) && (k =? 7))).

Inductive swaphint := SwapAuto | SwapOn | SwapOff.     (* hint nc_in_place_swap *)
Definition can_swap_in_place (nswap : bool) (h : swaphint) (nbytes : Z) : bool :=
  if nswap then
    match h with
    | SwapOff => false
    | SwapOn => true
    | SwapAuto => negb (nbytes <=? NC_BYTE_SWAP_BUFFER_SIZE)
    end
  else true.

Inductive putapi := PBlocking | PIput | PBput | PIputVarn | PBputVarn.

(* is the caller's buffer itself handed to MPI as the I/O buffer (xbuf = buf)? *)
Definition xbuf_is_buf (api : putapi) (nconv nswap contig has_imap : bool) (h : swaphint) (nbytes : Z) : bool :=
  let csip := can_swap_in_place nswap h nbytes in
  match api with
  | PBlocking => negb nconv && negb has_imap && (negb nswap || (csip && contig))
  | PIput => negb (negb contig || has_imap || nconv || (nswap && negb csip))
  | PIputVarn => negb nconv && csip && contig
  | PBput | PBputVarn => false
  end.
(* need_swap_back_buf / NC_REQ_BUF_BYTE_SWAP of a put: the caller's buffer is byte-swapped in
   place before the write and has to be swapped back on exit *)
Definition put_swaps_user_buf (api : putapi) (nconv nswap contig has_imap : bool) (h : swaphint) (nbytes : Z) : bool :=
  xbuf_is_buf api nconv nswap contig has_imap h nbytes && nswap.

(* the caller's buffer as it is while the request is in flight (after the post call returned /
   during the blocking write), and after the exit (blocking return, completing wait, cancel):
   every exit does `if (flag) ncmpii_in_swapn(buf, nelems, xsz)` *)
Definition user_buf_in_flight (flag : bool) (buf : list byte) (nelems xsz : Z) : list byte :=
  if flag then in_swapn buf nelems xsz else buf.
Definition user_buf_after_exit (flag : bool) (buf : list byte) (nelems xsz : Z) : list byte :=
  if flag then in_swapn buf nelems xsz else buf.

(* the caller's buffer datatype as ncmpii_buftype_decode / ncmpii_dtype_decode see it: bufcount units of a type holding
   bt_per primitive elements each (predefined type: 1; MPI_Type_contiguous(k, elem): k; nested: the product);
   bt_contig = iscontig_of_ptypes (false as soon as a vector / indexed / subarray combiner occurs, even without gaps) *)
Record btype := mkbt { bt_count : Z; bt_per : Z; bt_contig : bool }.
Definition bt_bnelems (bt : btype) : Z := bt_count bt * bt_per bt.          (* bnelems: primitive elements *)
(* `nelems`, the count handed to MPI_File_write by put_varm: bufcount (units of buftype) when the caller's buffer is the
   I/O buffer, the element count when a packed xbuf is written *)
Definition put_mpi_count (xbuf_buf : bool) (bt : btype) : Z := if xbuf_buf then bt_count bt else bt_bnelems bt.
(* the caller's buffer after a blocking put: swapped over bnelems before the write, swapped back over bnelems after it
   (`ncmpii_in_swapn(buf, bnelems, varp->xsz)` both times) *)
Definition put_blocking_buffer (flag : bool) (bt : btype) (buf : list byte) (xsz : Z) : list byte :=
  user_buf_after_exit flag (user_buf_in_flight flag buf (bt_bnelems bt) xsz) (bt_bnelems bt) xsz.
(* NOT the library: the swap-back running over the MPI count instead (kept to state what the theorem excludes) *)
Definition put_blocking_buffer_mpi_count (flag : bool) (bt : btype) (buf : list byte) (xsz : Z) : list byte :=
  user_buf_after_exit flag (user_buf_in_flight flag buf (bt_bnelems bt) xsz) (put_mpi_count true bt) xsz.

(* the bytes handed to MPI-IO when the buffer is used directly *)
Definition xbuf_direct (nswap : bool) (buf : list byte) (nelems xsz : Z) : list byte :=
  if nswap then in_swapn buf nelems xsz else buf.

(* ---------- get side: ncmpio_unpack_xbuf ---------- *)
(* overwrite buf[off, off+len bs) (clipped to the buffer) *)
Fixpoint overwrite (buf : list byte) (off : Z) (bs : list byte) : list byte :=
  match buf with
  | [] => []
  | b :: r =>
      if off >? 0 then b :: overwrite r (off - 1) bs
      else match bs with
           | [] => buf
           | x :: bs' => x :: overwrite r 0 bs'
           end
  end.

(* MPI_Unpack of an element stream through a type map given as element positions *)
Fixpoint scatter_elems (buf : list byte) (el : Z) (pos : list Z) (data : list byte) : list byte :=
  match pos with
  | [] => buf
  | p :: r => scatter_elems (overwrite buf (p * el) (zfirstn el data)) el r (zskipn el data)
  end.

(* the three stages with the aliasing decisions of ncmpio_unpack_xbuf.
   idata = the element stream in memory representation (after conversion / byte swap), nelems
   elements of el bytes; btpos = type map of bufcount x buftype; impos = type map of imaptype
   (None = MPI_DATATYPE_NULL); tmp = initial content of a malloc-ed temporary (undefined bytes) *)
Definition unpack_xbuf (contig : bool) (impos : option (list Z)) (btpos : list Z)
           (el nelems : Z) (buf idata : list byte) (tmp : list byte) : list byte :=
  match impos with
  | None =>
      (* lbuf = cbuf: the stream itself; buftype unpack only when not contiguous *)
      if contig then overwrite buf 0 (zfirstn (nelems * el) idata)   (* cbuf = buf / xbuf = buf *)
      else scatter_elems buf el btpos idata
  | Some ip =>
      if contig then scatter_elems buf el ip idata                    (* lbuf = buf *)
      else
        let lbuf := scatter_elems tmp el ip idata in                  (* lbuf = malloc(ibuf_size) *)
        scatter_elems buf el btpos lbuf
  end.

(* the bytes of the caller's buffer the request is entitled to modify *)
Definition selected_positions (contig : bool) (impos : option (list Z)) (btpos : list Z) (nelems : Z) : list Z :=
  match impos with
  | None => if contig then zrange 0 nelems else btpos
  | Some ip => if contig then ip else btpos
  end.
Definition covered (el : Z) (pos : list Z) (x : Z) : Prop := exists p, In p pos /\ p * el <= x < p * el + el.

(* element positions of MPI_Type_vector(count, blocklen, stride, elem) *)
Definition vector_positions (count blocklen stride : Z) : list Z :=
  flat_map (fun j => map (fun i => j * stride + i) (zrange 0 blocklen)) (zrange 0 count).
