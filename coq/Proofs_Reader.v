(* Proofs_Reader.v — proofs about the reader model (Reader.v).
   Part A  list facts (zfirstn / zskipn / take_z)
   Part B  the parser monad, iter_p = iter_nat
   Part C  window invariant; the chunked reader equals the flat reader for EVERY chunk size
           >= 36 that is a multiple of 4 (all the sizes ncmpio_hdr_get_NC can produce)
   Part D  the flat reader agrees with the BNF decoder HeaderSpec.decode on valid files;
           reader_accepts_valid; composition with decode_encode_full
   Part E  C19: totality, crash witnesses (refutations) and partial results, consistency, cost *)
From Pnc Require Import Base Header HeaderSpec Reader Proofs_Base Proofs_Lists Proofs_Header.
Require Import Lia ZArith ZifyBool List.
Import ListNotations.
Ltac Zify.zify_post_hook ::= Z.div_mod_to_equations.
Local Open Scope Z_scope.

Local Arguments Z.mul : simpl never.
Local Arguments Z.add : simpl never.
Local Arguments Z.sub : simpl never.
Local Arguments Z.div : simpl never.
Local Arguments Z.modulo : simpl never.
Local Arguments Z.pow : simpl never.
Local Arguments Z.of_nat : simpl never.
Local Arguments Z.to_nat : simpl never.
Local Arguments Z.quot : simpl never.
Local Arguments Z.rem : simpl never.

(* ================================================================== *)
(** * Part A: lists *)

Lemma zfirstn_nat : forall A (l : list A) n, zfirstn n l = firstn (Z.to_nat n) l.
Proof.
  induction l as [|x l IH]; intros n; cbn [zfirstn].
  - now rewrite firstn_nil.
  - destruct (n <=? 0) eqn:E.
    + replace (Z.to_nat n) with O by lia. reflexivity.
    + replace (Z.to_nat n) with (Datatypes.S (Z.to_nat (n - 1))) by lia. cbn [firstn]. now rewrite IH.
Qed.

Lemma zskipn_nat : forall A (l : list A) n, zskipn n l = skipn (Z.to_nat n) l.
Proof.
  induction l as [|x l IH]; intros n; cbn [zskipn].
  - now rewrite skipn_nil.
  - destruct (n <=? 0) eqn:E.
    + replace (Z.to_nat n) with O by lia. reflexivity.
    + replace (Z.to_nat n) with (Datatypes.S (Z.to_nat (n - 1))) by lia. cbn [skipn]. now rewrite IH.
Qed.

Definition take_n (k : nat) (l : list byte) : list byte := firstn k l ++ repeat 0 (k - length (firstn k l)).

Lemma take_z_nat : forall n l, take_z n l = take_n (Z.to_nat n) l.
Proof.
  intros n l. unfold take_z, take_n, zeros. rewrite zfirstn_nat. f_equal. f_equal.
  unfold Zlen. lia.
Qed.

Lemma take_n_nil : forall k, take_n k [] = repeat 0 k.
Proof. intros k. unfold take_n. rewrite firstn_nil. cbn. now rewrite Nat.sub_0_r. Qed.

Lemma take_n_cons : forall k x l, take_n (Datatypes.S k) (x :: l) = x :: take_n k l.
Proof. intros. unfold take_n. cbn. reflexivity. Qed.

Lemma take_n_length : forall k l, length (take_n k l) = k.
Proof.
  intros k l. unfold take_n. rewrite app_length, repeat_length.
  pose proof (firstn_le_length k l). lia.
Qed.

Lemma take_n_split : forall a b l, take_n (a + b) l = take_n a l ++ take_n b (skipn a l).
Proof.
  induction a as [|a IH]; intros b l.
  - reflexivity.
  - destruct l as [|x l].
    + cbn [skipn]. rewrite !take_n_nil. apply repeat_app.
    + cbn [Nat.add skipn]. rewrite !take_n_cons, IH. reflexivity.
Qed.

Lemma firstn_take_n : forall m k l, (m <= k)%nat -> firstn m (take_n k l) = take_n m l.
Proof.
  intros m k l H. replace k with (m + (k - m))%nat by lia. rewrite take_n_split.
  rewrite firstn_app, take_n_length, Nat.sub_diag, firstn_O, app_nil_r.
  rewrite firstn_all2; [reflexivity | rewrite take_n_length; lia].
Qed.

Lemma skipn_take_n : forall m k l, (m <= k)%nat -> skipn m (take_n k l) = take_n (k - m) (skipn m l).
Proof.
  intros m k l H. replace k with (m + (k - m))%nat at 1 by lia. rewrite take_n_split.
  rewrite skipn_app, take_n_length, Nat.sub_diag, skipn_O.
  rewrite skipn_all2; [reflexivity | rewrite take_n_length; lia].
Qed.

Lemma take_z_len : forall n l, 0 <= n -> Zlen (take_z n l) = n.
Proof. intros. rewrite take_z_nat. unfold Zlen. rewrite take_n_length. lia. Qed.

Lemma take_z_nonpos : forall n l, n <= 0 -> take_z n l = [].
Proof. intros. rewrite take_z_nat. replace (Z.to_nat n) with O by lia. reflexivity. Qed.

Lemma zskipn_nonpos : forall A n (l : list A), n <= 0 -> zskipn n l = l.
Proof. intros. rewrite zskipn_nat. replace (Z.to_nat n) with O by lia. reflexivity. Qed.

Lemma take_z_split : forall a b l, 0 <= a -> 0 <= b ->
  take_z (a + b) l = take_z a l ++ take_z b (zskipn a l).
Proof.
  intros. rewrite !take_z_nat, zskipn_nat. rewrite Z2Nat.inj_add by lia. apply take_n_split.
Qed.

Lemma skipn_add_nat : forall A a b (l : list A), skipn b (skipn a l) = skipn (a + b) l.
Proof.
  induction a as [|a IH]; intros b l; [reflexivity|].
  destruct l as [|x l]; [cbn; now rewrite skipn_nil|]. cbn [Nat.add skipn]. apply IH.
Qed.

Lemma zskipn_add : forall A a b (l : list A), 0 <= a -> 0 <= b -> zskipn b (zskipn a l) = zskipn (a + b) l.
Proof.
  intros. rewrite !zskipn_nat, skipn_add_nat. f_equal. lia.
Qed.

Lemma zfirstn_take_z : forall m n l, 0 <= m <= n -> zfirstn m (take_z n l) = take_z m l.
Proof. intros. rewrite zfirstn_nat, !take_z_nat. apply firstn_take_n. lia. Qed.

Lemma zskipn_take_z : forall m n l, 0 <= m <= n -> zskipn m (take_z n l) = take_z (n - m) (zskipn m l).
Proof.
  intros. rewrite !zskipn_nat, !take_z_nat. rewrite skipn_take_n by lia. f_equal. lia.
Qed.

Lemma zfirstn_all : forall A n (l : list A), Zlen l <= n -> zfirstn n l = l.
Proof. intros. rewrite zfirstn_nat. apply firstn_all2. unfold Zlen in *. lia. Qed.

Lemma take_z_enough : forall n l, 0 <= n <= Zlen l -> take_z n l = zfirstn n l.
Proof.
  intros n l H. rewrite take_z_nat, zfirstn_nat. unfold take_n.
  rewrite firstn_length. unfold Zlen in H.
  replace (Z.to_nat n - Nat.min (Z.to_nat n) (length l))%nat with O by lia.
  cbn. apply app_nil_r.
Qed.

Lemma take_z_4 : forall l, exists a b c d, take_z 4 l = [a; b; c; d].
Proof.
  intros l. pose proof (take_z_len 4 l ltac:(lia)) as H. unfold Zlen in H.
  destruct (take_z 4 l) as [|a [|b [|c [|d [|e r]]]]]; cbn in H; try lia.
  now exists a, b, c, d.
Qed.

Lemma get_u32_app4 : forall a b c d r,
  get_u32 ([a; b; c; d] ++ r) = Some (a * 16777216 + b * 65536 + c * 256 + d, r).
Proof. reflexivity. Qed.

(* reading 4 / 8 bytes from a window that starts with take_z of the stream *)
Lemma get_u32_take : forall n l, 4 <= n ->
  get_u32 (take_z n l) =
  match get_u32 (take_z 4 l) with
  | Some (v, _) => Some (v, take_z (n - 4) (zskipn 4 l))
  | None => None
  end.
Proof.
  intros n l H. replace n with (4 + (n - 4)) at 1 by lia. rewrite take_z_split by lia.
  destruct (take_z_4 l) as (a & b & c & d & E). rewrite E. reflexivity.
Qed.

Lemma get_u32_take4_some : forall l, exists v, get_u32 (take_z 4 l) = Some (v, []).
Proof. intros l. destruct (take_z_4 l) as (a & b & c & d & E). rewrite E. eexists. reflexivity. Qed.

Lemma get_u64_take : forall n l, 8 <= n ->
  get_u64 (take_z n l) =
  match get_u64 (take_z 8 l) with
  | Some (v, _) => Some (v, take_z (n - 8) (zskipn 8 l))
  | None => None
  end.
Proof.
  intros n l H. unfold get_u64.
  rewrite (get_u32_take n l) by lia. rewrite (get_u32_take 8 l) by lia.
  destruct (get_u32_take4_some l) as (v & E). rewrite E.
  rewrite (get_u32_take (n - 4)) by lia. replace (8 - 4) with 4 by lia.
  destruct (get_u32_take4_some (zskipn 4 l)) as (w & E2). rewrite E2.
  rewrite zskipn_add by lia. replace (n - 4 - 4) with (n - 8) by lia.
  replace (4 + 4) with 8 by lia. reflexivity.
Qed.

Lemma get_u64_take8_some : forall l, exists v, get_u64 (take_z 8 l) = Some (v, []).
Proof.
  intros l. unfold get_u64. rewrite (get_u32_take 8 l) by lia.
  destruct (get_u32_take4_some l) as (v & E). rewrite E. replace (8 - 4) with 4 by lia.
  destruct (get_u32_take4_some (zskipn 4 l)) as (w & E2). rewrite E2. eexists. reflexivity.
Qed.

(* ================================================================== *)
(** * Part B: the parser monad *)
Section Monad.
Variable S : Type.
Variable X : src S.

Lemma bind_assoc : forall A B C (m : P S A) (f : A -> P S B) (g : B -> P S C) s,
  bind (bind m f) g s = bind m (fun a => bind (f a) g) s.
Proof.
  intros. unfold bind. destruct (m s) as [[a|e|c] s']; reflexivity.
Qed.

Lemma bind_ext : forall A B (m : P S A) (f g : A -> P S B) s,
  (forall a s', f a s' = g a s') -> bind m f s = bind m g s.
Proof.
  intros A B m f g s H. unfold bind. destruct (m s) as [[a|e|c] s']; [apply H | reflexivity ..].
Qed.

Lemma bind_ret_r : forall A (m : P S A) s, bind m ret s = m s.
Proof. intros. unfold bind, ret. destruct (m s) as [[a|e|c] s']; reflexivity. Qed.

Fixpoint iter_nat {A} (k : nat) (f : A -> P S A) (x : A) : P S A :=
  match k with
  | O => ret x
  | Datatypes.S k' => bind (f x) (iter_nat k' f)
  end.

Lemma iter_nat_add : forall A (f : A -> P S A) a b x s,
  iter_nat (a + b) f x s = bind (iter_nat a f x) (iter_nat b f) s.
Proof.
  induction a as [|a IH]; intros b x s.
  - reflexivity.
  - cbn [Nat.add iter_nat]. rewrite bind_assoc. apply bind_ext. intros; apply IH.
Qed.

Lemma bind_cong : forall A B (m1 m2 : P S A) (f g : A -> P S B) s,
  m1 s = m2 s -> (forall a s', f a s' = g a s') -> bind m1 f s = bind m2 g s.
Proof.
  intros A B m1 m2 f g s Hm Hf. unfold bind. rewrite Hm.
  destruct (m2 s) as [[a|e|c] s']; [apply Hf | reflexivity ..].
Qed.

Lemma iter_p_nat : forall A (f : A -> P S A) p x s,
  iter_p p f x s = iter_nat (Pos.to_nat p) f x s.
Proof.
  induction p as [q IH|q IH|]; intros x s.
  - cbn [iter_p]. rewrite Pos2Nat.inj_xI.
    replace (Datatypes.S (2 * Pos.to_nat q)) with (Datatypes.S (Pos.to_nat q + Pos.to_nat q)) by lia.
    cbn [iter_nat]. apply bind_ext. intros a s'. rewrite iter_nat_add.
    apply bind_cong; [apply IH | intros; apply IH].
  - cbn [iter_p]. rewrite Pos2Nat.inj_xO.
    replace (2 * Pos.to_nat q)%nat with (Pos.to_nat q + Pos.to_nat q)%nat by lia.
    rewrite iter_nat_add. apply bind_cong; [apply IH | intros; apply IH].
  - cbn [iter_p]. rewrite Pos2Nat.inj_1. cbn [iter_nat]. now rewrite bind_ret_r.
Qed.

Lemma iter_n_nat : forall A (f : A -> P S A) n x s, 0 <= n ->
  iter_n n f x s = iter_nat (Z.to_nat n) f x s.
Proof.
  intros A f n x s H. destruct n as [|p|p]; [reflexivity | | lia].
  cbn [iter_n]. rewrite iter_p_nat. now rewrite Z2Nat.inj_pos.
Qed.
End Monad.
Arguments iter_nat {S A} k f x _.

(* ================================================================== *)
(** * Part C: simulation between two byte sources *)

Lemma xlen_type_cases : forall t, xlen_type t = 0 \/ xlen_type t = 1 \/ xlen_type t = 2 \/
                                  xlen_type t = 4 \/ xlen_type t = 8.
Proof.
  intros t. unfold xlen_type.
  destruct ((t =? 1) || (t =? 2) || (t =? 7)); [tauto|].
  destruct ((t =? 3) || (t =? 8)); [tauto|].
  destruct ((t =? 4) || (t =? 5) || (t =? 9)); [tauto|].
  destruct ((t =? 6) || (t =? 10) || (t =? 11)); tauto.
Qed.

Lemma chk_ok : forall s x y, chk s x = Ok y -> y = x /\ I64_MIN <= x <= I64_MAX.
Proof.
  intros s x y H. unfold chk, in_i64 in H.
  destruct ((I64_MIN <=? x) && (x <=? I64_MAX)) eqn:E; inversion H. subst. lia.
Qed.

(* the padding computed by the reader for an attribute is what the format prescribes *)
Lemma attr_pad_range : forall t n x, 0 < n -> attr_xsz t n = Ok x ->
  x = rndup (n * xlen_type t) 4 /\ 0 <= x - n * xlen_type t <= 3.
Proof.
  intros t n x Hn H. unfold attr_xsz in H. unfold rndup. cbn [Z.eqb].
  destruct (xlen_type_cases t) as [E|[E|[E|[E|E]]]]; rewrite E in *; cbn [Z.eqb] in H.
  - apply chk_ok in H. destruct H as [-> _]. lia.
  - destruct (chk S_attr_xlen (n + 3)) eqn:C; cbn [rbind] in H; inversion H.
    apply chk_ok in C. destruct C as [-> _]. lia.
  - destruct (chk S_attr_xlen (n + Z.rem n 2)) eqn:C; cbn [rbind] in H; try discriminate.
    apply chk_ok in C. destruct C as [-> _]. apply chk_ok in H. destruct H as [-> _].
    pose proof (Z.rem_mod_nonneg n 2 ltac:(lia) ltac:(lia)) as Hr. rewrite Hr. lia.
  - apply chk_ok in H. destruct H as [-> _]. lia.
  - apply chk_ok in H. destruct H as [-> _]. lia.
Qed.

Section Sim.
Variables (S1 S2 : Type) (X1 : src S1) (X2 : src S2) (R : S1 -> S2 -> Prop) (mm : Z).
Hypothesis H32 : forall s1 s2, R s1 s2 ->
  fst (g32 X1 s1) = fst (g32 X2 s2) /\ R (snd (g32 X1 s1)) (snd (g32 X2 s2)).
Hypothesis H64 : forall s1 s2, R s1 s2 ->
  fst (g64 X1 s1) = fst (g64 X2 s2) /\ R (snd (g64 X1 s1)) (snd (g64 X2 s2)).
Hypothesis Hby : forall n s1 s2, R s1 s2 ->
  fst (gbytes X1 n s1) = fst (gbytes X2 n s2) /\ R (snd (gbytes X1 n s1)) (snd (gbytes X2 n s2)).
Hypothesis Hsk : forall k s1 s2, 0 < k <= 8 -> R s1 s2 -> R (gskip X1 k s1) (gskip X2 k s2).

Definition rel_st (a : S1 * acct) (b : S2 * acct) : Prop := R (fst a) (fst b) /\ snd a = snd b.
Definition rel_P {A} (p1 : P S1 A) (p2 : P S2 A) : Prop :=
  forall s1 s2, rel_st s1 s2 -> fst (p1 s1) = fst (p2 s2) /\ rel_st (snd (p1 s1)) (snd (p2 s2)).

Lemma rel_ret : forall A (a : A), rel_P (ret a) (ret a).
Proof. intros A a s1 s2 H. split; [reflexivity | exact H]. Qed.
Lemma rel_fail : forall A e, @rel_P A (fail e) (fail e).
Proof. intros A a s1 s2 H. split; [reflexivity | exact H]. Qed.
Lemma rel_crash : forall A c, @rel_P A (crash c) (crash c).
Proof. intros A a s1 s2 H. split; [reflexivity | exact H]. Qed.
Lemma rel_pure : forall A (r : res A), rel_P (pure r) (pure r).
Proof. intros A r s1 s2 H. split; [reflexivity | exact H]. Qed.
Lemma rel_alloc : forall n, rel_P (alloc mm n) (alloc mm n).
Proof.
  intros n s1 s2 [H1 H2]. unfold alloc. cbn [fst snd]. rewrite H2. split; [reflexivity|].
  split; [exact H1 | reflexivity].
Qed.

Lemma rel_bind : forall A B (m1 : P S1 A) (m2 : P S2 A) (f1 : A -> P S1 B) (f2 : A -> P S2 B),
  rel_P m1 m2 -> (forall a, rel_P (f1 a) (f2 a)) -> rel_P (bind m1 f1) (bind m2 f2).
Proof.
  intros A B m1 m2 f1 f2 Hm Hf s1 s2 Hs. unfold bind.
  destruct (Hm s1 s2 Hs) as [E Hs'].
  destruct (m1 s1) as [r1 t1], (m2 s2) as [r2 t2]. cbn [fst snd] in E, Hs'. subst r2.
  destruct r1 as [a|e|c]; [apply Hf; exact Hs' | split; [reflexivity | exact Hs'] ..].
Qed.

Lemma rel_bind_pure : forall A B (r : res A) (f1 : A -> P S1 B) (f2 : A -> P S2 B),
  (forall a, r = Ok a -> rel_P (f1 a) (f2 a)) -> rel_P (bind (pure r) f1) (bind (pure r) f2).
Proof.
  intros A B r f1 f2 Hf s1 s2 Hs. unfold bind, pure.
  destruct r as [a|e|c]; [apply (Hf a eq_refl); exact Hs | split; [reflexivity | exact Hs] ..].
Qed.

Lemma rel_g32 : rel_P (lift (g32 X1)) (lift (g32 X2)).
Proof.
  intros s1 s2 [H1 H2]. unfold lift. destruct (H32 _ _ H1) as [E HR].
  destruct (g32 X1 (fst s1)) as [v1 t1], (g32 X2 (fst s2)) as [v2 t2]. cbn [fst snd] in *.
  subst v2. split; [reflexivity | split; assumption].
Qed.
Lemma rel_g64 : rel_P (lift (g64 X1)) (lift (g64 X2)).
Proof.
  intros s1 s2 [H1 H2]. unfold lift. destruct (H64 _ _ H1) as [E HR].
  destruct (g64 X1 (fst s1)) as [v1 t1], (g64 X2 (fst s2)) as [v2 t2]. cbn [fst snd] in *.
  subst v2. split; [reflexivity | split; assumption].
Qed.
Lemma rel_gbytes : forall n, rel_P (lift (gbytes X1 n)) (lift (gbytes X2 n)).
Proof.
  intros n s1 s2 [H1 H2]. unfold lift. destruct (Hby n _ _ H1) as [E HR].
  destruct (gbytes X1 n (fst s1)) as [v1 t1], (gbytes X2 n (fst s2)) as [v2 t2]. cbn [fst snd] in *.
  subst v2. split; [reflexivity | split; assumption].
Qed.
Lemma rel_gskip : forall k, 0 < k <= 8 -> rel_P (lift_ (gskip X1 k)) (lift_ (gskip X2 k)).
Proof.
  intros k Hk s1 s2 [H1 H2]. unfold lift_. cbn [fst snd]. split; [reflexivity|].
  split; [apply Hsk; assumption | assumption].
Qed.

Lemma rel_iter_pos : forall A (f1 : A -> P S1 A) (f2 : A -> P S2 A),
  (forall x, rel_P (f1 x) (f2 x)) -> forall p x, rel_P (iter_p p f1 x) (iter_p p f2 x).
Proof.
  intros A f1 f2 Hf. induction p as [q IH|q IH|]; intros x; cbn [iter_p].
  - apply rel_bind; [apply Hf|]. intros x1. apply rel_bind; [apply IH | apply IH].
  - apply rel_bind; [apply IH | apply IH].
  - apply Hf.
Qed.

Lemma rel_iter_n : forall A (f1 : A -> P S1 A) (f2 : A -> P S2 A),
  (forall x, rel_P (f1 x) (f2 x)) -> forall n x, rel_P (iter_n n f1 x) (iter_n n f2 x).
Proof.
  intros A f1 f2 Hf n x. destruct n; cbn [iter_n]; [apply rel_ret | now apply rel_iter_pos | apply rel_ret].
Qed.

Lemma rel_rd_nn : forall fmt, rel_P (rd_nn S1 X1 fmt) (rd_nn S2 X2 fmt).
Proof. intros fmt. unfold rd_nn. destruct (fmt <? 5); [apply rel_g32 | apply rel_g64]. Qed.

Lemma rel_rd_name : forall fmt, rel_P (rd_name S1 X1 mm fmt) (rd_name S2 X2 mm fmt).
Proof.
  intros fmt. unfold rd_name. apply rel_bind; [apply rel_rd_nn|]. intros n.
  destruct (n >? NC_MAX_NAME); [apply rel_fail|].
  apply rel_bind; [apply rel_alloc|]. intros ok.
  destruct (negb ok); [apply rel_fail|].
  apply rel_bind; [apply rel_gbytes|]. intros b.
  apply rel_bind; [|intros _; apply rel_ret].
  destruct (padlen n >? 0) eqn:E; [|apply rel_ret].
  apply rel_gskip. pose proof (padlen_range n). lia.
Qed.

Lemma rel_rd_dim : forall fmt u, rel_P (rd_dim S1 X1 mm fmt u) (rd_dim S2 X2 mm fmt u).
Proof.
  intros fmt u. unfold rd_dim. apply rel_bind; [apply rel_rd_name|]. intros nm.
  apply rel_bind; [apply rel_rd_nn|]. intros sz0.
  destruct (negb (u =? -1) && (to_i64 sz0 =? 0)); [apply rel_fail|].
  apply rel_bind; [apply rel_alloc|]. intros ok.
  destruct (negb ok); [apply rel_fail | apply rel_ret].
Qed.

Lemma rel_rndup_int : forall n, rel_P (rndup_int S1 n) (rndup_int S2 n).
Proof.
  intros n. unfold rndup_int. destruct (n + (PNC_ARRAY_GROWBY - 1) >? INT_MAX); [apply rel_crash | apply rel_ret].
Qed.

Lemma rel_rd_dimarray : forall fmt, rel_P (rd_dimarray S1 X1 mm fmt) (rd_dimarray S2 X2 mm fmt).
Proof.
  intros fmt. unfold rd_dimarray. apply rel_bind; [apply rel_g32|]. intros tag.
  apply rel_bind; [apply rel_rd_nn|]. intros n.
  destruct (n >? NC_MAX_DIMS); [apply rel_fail|].
  destruct (n =? 0); [apply rel_ret|].
  destruct (negb (tag =? NC_DIMENSION_TAG)); [apply rel_fail|].
  apply rel_bind; [apply rel_rndup_int|]. intros asz.
  apply rel_bind; [apply rel_alloc|]. intros ok.
  destruct (negb ok); [apply rel_fail|].
  apply rel_bind; [|intros st; apply rel_ret].
  apply rel_iter_n. intros [[i unlim] acc].
  apply rel_bind; [apply rel_rd_dim|]. intros d. apply rel_ret.
Qed.

Lemma rel_rd_type : forall fmt, rel_P (rd_type S1 X1 fmt) (rd_type S2 X2 fmt).
Proof.
  intros fmt. unfold rd_type. apply rel_bind; [apply rel_g32|]. intros t.
  destruct (t <? 1); [apply rel_fail|].
  destruct (fmt <? 5); [destruct (t >? 6); [apply rel_fail | apply rel_ret]|].
  destruct (t >? 11); [apply rel_fail | apply rel_ret].
Qed.

Lemma rel_rd_att : forall fmt, rel_P (rd_att S1 X1 mm fmt) (rd_att S2 X2 mm fmt).
Proof.
  intros fmt. unfold rd_att. apply rel_bind; [apply rel_rd_name|]. intros nm.
  apply rel_bind; [apply rel_rd_type|]. intros t.
  apply rel_bind; [apply rel_rd_nn|]. intros n0.
  apply rel_bind; [apply rel_alloc|]. intros ok.
  destruct (negb ok); [apply rel_fail|].
  destruct (to_i64 n0 >? 0) eqn:En.
  - apply rel_bind_pure. intros xsz Hx.
    apply rel_bind; [apply rel_alloc|]. intros ok2.
    destruct (negb ok2); [apply rel_fail|].
    apply rel_bind; [apply rel_gbytes|]. intros data.
    apply rel_bind; [|intros _; apply rel_ret].
    destruct (xsz - to_i64 n0 * xlen_type t >? 0) eqn:Ep; [|apply rel_ret].
    apply rel_gskip. destruct (attr_pad_range t (to_i64 n0) xsz ltac:(lia) Hx) as [_ Hr]. lia.
  - apply rel_bind_pure. intros prod Hp.
    destruct (prod mod TWO64 >? 0); [apply rel_crash | apply rel_ret].
Qed.

Lemma rel_rd_attarray : forall fmt, rel_P (rd_attarray S1 X1 mm fmt) (rd_attarray S2 X2 mm fmt).
Proof.
  intros fmt. unfold rd_attarray. apply rel_bind; [apply rel_g32|]. intros tag.
  apply rel_bind; [apply rel_rd_nn|]. intros n.
  destruct (n >? NC_MAX_ATTRS); [apply rel_fail|].
  destruct (n =? 0); [apply rel_ret|].
  destruct (negb (tag =? NC_ATTRIBUTE_TAG)); [apply rel_fail|].
  apply rel_bind; [apply rel_rndup_int|]. intros asz.
  apply rel_bind; [apply rel_alloc|]. intros ok.
  destruct (negb ok); [apply rel_fail|].
  apply rel_bind; [|intros st; apply rel_ret].
  apply rel_iter_n. intros acc.
  apply rel_bind; [apply rel_rd_att|]. intros a. apply rel_ret.
Qed.

Lemma rel_rd_var : forall fmt nd0, rel_P (rd_var S1 X1 mm fmt nd0) (rd_var S2 X2 mm fmt nd0).
Proof.
  intros fmt nd0. unfold rd_var. apply rel_bind; [apply rel_rd_name|]. intros nm.
  apply rel_bind; [apply rel_rd_nn|]. intros nd.
  destruct (nd >? NC_MAX_VAR_DIMS); [apply rel_fail|].
  apply rel_bind; [apply rel_alloc|]. intros ok.
  destruct (negb ok); [apply rel_fail|].
  apply rel_bind.
  { destruct (nd >? 0); [|apply rel_ret].
    apply rel_bind; [apply rel_alloc|]. intros a.
    apply rel_bind; [apply rel_alloc|]. intros b.
    apply rel_bind; [apply rel_alloc|]. intros c. apply rel_ret. }
  intros oks.
  apply rel_bind.
  { apply rel_iter_n. intros acc. apply rel_bind; [apply rel_rd_nn|]. intros d.
    destruct (d >=? nd0); [apply rel_fail|].
    destruct (negb (snd oks)); [apply rel_crash | apply rel_ret]. }
  intros racc.
  apply rel_bind; [apply rel_rd_attarray|]. intros atts.
  apply rel_bind; [apply rel_rd_type|]. intros t.
  apply rel_bind; [apply rel_rd_nn|]. intros vsize.
  apply rel_bind; [destruct (fmt =? 1); [apply rel_g32 | apply rel_g64]|]. intros bg.
  apply rel_ret.
Qed.

Lemma rel_rd_vararray : forall fmt nd0, rel_P (rd_vararray S1 X1 mm fmt nd0) (rd_vararray S2 X2 mm fmt nd0).
Proof.
  intros fmt nd0. unfold rd_vararray. apply rel_bind; [apply rel_g32|]. intros tag.
  apply rel_bind; [apply rel_rd_nn|]. intros n.
  destruct (n >? NC_MAX_VARS); [apply rel_fail|].
  destruct (n =? 0); [apply rel_ret|].
  destruct (negb (tag =? NC_VARIABLE_TAG)); [apply rel_fail|].
  apply rel_bind; [apply rel_rndup_int|]. intros asz.
  apply rel_bind; [apply rel_alloc|]. intros ok.
  destruct (negb ok); [apply rel_fail|].
  apply rel_bind; [|intros st; apply rel_ret].
  apply rel_iter_n. intros acc.
  apply rel_bind; [apply rel_rd_var|]. intros a. apply rel_ret.
Qed.

Lemma rel_hdr_get_NC : rel_P (hdr_get_NC S1 X1 mm) (hdr_get_NC S2 X2 mm).
Proof.
  unfold hdr_get_NC. apply rel_bind; [apply rel_gbytes|]. intros m.
  destruct (negb (bytes_eqb (zfirstn 3 m) [67; 68; 70])).
  - apply rel_bind; [apply rel_gbytes|]. intros sg.
    destruct (bytes_eqb sg hdf5_sig); apply rel_fail.
  - destruct (negb ((znth m 3 0 =? 1) || (znth m 3 0 =? 2) || (znth m 3 0 =? 5))); [apply rel_fail|].
    apply rel_bind; [apply rel_rd_nn|]. intros nr.
    apply rel_bind; [apply rel_rd_dimarray|]. intros dims.
    apply rel_bind; [apply rel_rd_attarray|]. intros gatts.
    apply rel_bind; [apply rel_rd_vararray|]. intros vars.
    apply rel_pure.
Qed.
End Sim.

(* ------------------------------------------------------------------ *)
(** ** The window invariant of the chunked source *)

(* [window_inv chunk c l]: l is the zero-extended file from the abstract read position on;
   the live part of the window (base+pos .. end) holds exactly the next chunk-pos bytes of it,
   and the file offset of the next read is where the window ends. *)
Definition window_inv (chunk : Z) (c : cst) (l : list byte) : Prop :=
  c_chunk c = chunk /\ 0 <= c_pos c <= chunk /\
  c_tail c = take_z (chunk - c_pos c) l /\ c_rest c = zskipn (chunk - c_pos c) l.

Lemma take_z_unfold : forall n l, zfirstn n l ++ zeros (n - Zlen (zfirstn n l)) = take_z n l.
Proof. reflexivity. Qed.

Lemma window_inv_fetch : forall chunk c l, window_inv chunk c l -> 0 < c_pos c ->
  window_inv chunk (c_fetch c) l.
Proof.
  intros chunk c l (Hc & Hp & Ht & Hr) Hpos. unfold window_inv, c_fetch.
  cbn [c_chunk c_pos c_tail c_rest]. rewrite Hc.
  replace (chunk - c_pos c =? chunk) with false by lia.
  split; [reflexivity|]. split; [lia|].
  rewrite take_z_unfold. rewrite Ht, Hr. replace (chunk - 0) with chunk by lia.
  replace (chunk - (chunk - c_pos c)) with (c_pos c) by lia.
  split.
  - destruct (chunk - c_pos c >? 0) eqn:E.
    + rewrite zfirstn_take_z by lia.
      replace chunk with ((chunk - c_pos c) + c_pos c) at 3 by lia. rewrite take_z_split by lia. reflexivity.
    + replace (chunk - c_pos c) with 0 by lia. rewrite zskipn_nonpos by lia.
      replace (c_pos c) with chunk by lia. reflexivity.
  - rewrite zskipn_add by lia. f_equal. lia.
Qed.

Lemma window_inv_init : forall chunk f, 0 < chunk -> window_inv chunk (c_init chunk f) f.
Proof.
  intros chunk f H. unfold window_inv, c_init, c_fetch. cbn [c_chunk c_pos c_tail c_rest].
  replace (chunk - 0 =? chunk) with true by lia. cbn [Z.gtb Z.compare].
  replace (chunk - 0) with chunk by lia. rewrite take_z_unfold. cbn [app].
  split; [reflexivity|]. split; [lia|]. split; reflexivity.
Qed.

Lemma window_inv_adv : forall chunk c l k, window_inv chunk c l -> 0 <= k -> c_pos c + k <= chunk ->
  window_inv chunk (c_adv k c) (zskipn k l).
Proof.
  intros chunk c l k (Hc & Hp & Ht & Hr) Hk Hle. unfold window_inv, c_adv.
  cbn [c_chunk c_pos c_tail c_rest]. split; [assumption|]. split; [lia|].
  rewrite Ht, Hr. split.
  - rewrite zskipn_take_z by lia. f_equal. lia.
  - rewrite zskipn_add by lia. f_equal. lia.
Qed.

Lemma window_inv_need : forall chunk c l k, window_inv chunk c l -> 0 < k -> k <= chunk ->
  window_inv chunk (c_need k c) l /\ c_pos (c_need k c) + k <= chunk.
Proof.
  intros chunk c l k H Hk Hle. unfold c_need. destruct H as (Hc & Hp & Ht & Hr).
  rewrite Hc. destruct (c_pos c + k >? chunk) eqn:E.
  - split; [apply window_inv_fetch; [repeat split; assumption || lia | lia]|].
    unfold c_fetch. cbn [c_pos]. lia.
  - split; [repeat split; assumption || lia | lia].
Qed.

Lemma sim_g32 : forall chunk c l, 8 <= chunk -> window_inv chunk c l ->
  fst (c_g32 c) = fst (f_g32 l) /\ window_inv chunk (snd (c_g32 c)) (snd (f_g32 l)).
Proof.
  intros chunk c l Hch H. unfold c_g32, f_g32.
  destruct (window_inv_need chunk c l 4 H ltac:(lia) ltac:(lia)) as [H1 Hle].
  pose proof H1 as (Hc & Hp & Ht & Hr).
  rewrite Ht. rewrite (get_u32_take (chunk - c_pos (c_need 4 c)) l) by lia.
  destruct (get_u32_take4_some l) as (v & E). rewrite E. cbn [fst snd].
  split; [reflexivity | apply window_inv_adv; [assumption | lia | lia]].
Qed.

Lemma sim_g64 : forall chunk c l, 8 <= chunk -> window_inv chunk c l ->
  fst (c_g64 c) = fst (f_g64 l) /\ window_inv chunk (snd (c_g64 c)) (snd (f_g64 l)).
Proof.
  intros chunk c l Hch H. unfold c_g64, f_g64.
  destruct (window_inv_need chunk c l 8 H ltac:(lia) ltac:(lia)) as [H1 Hle].
  pose proof H1 as (Hc & Hp & Ht & Hr).
  rewrite Ht. rewrite (get_u64_take (chunk - c_pos (c_need 8 c)) l) by lia.
  destruct (get_u64_take8_some l) as (v & E). rewrite E. cbn [fst snd].
  split; [reflexivity | apply window_inv_adv; [assumption | lia | lia]].
Qed.

Lemma sim_gskip : forall chunk c l k, 8 <= chunk -> 0 < k <= 8 -> window_inv chunk c l ->
  window_inv chunk (c_gskip k c) (f_gskip k l).
Proof.
  intros chunk c l k Hch Hk H. unfold c_gskip, f_gskip.
  destruct (window_inv_need chunk c l k H ltac:(lia) ltac:(lia)) as [H1 Hle].
  apply window_inv_adv; [assumption | lia | lia].
Qed.

(* the copy loop: with enough fuel it delivers exactly the next n bytes of the stream *)
Lemma sim_copy : forall chunk, 0 < chunk -> forall fuel n acc c l,
  window_inv chunk c l ->
  2 * n + (if c_chunk c - c_pos c =? 0 then 1 else 0) <= Z.of_nat fuel ->
  let r := c_copy fuel n acc c in
  concat (rev (fst r)) = concat (rev acc) ++ take_z n l /\ window_inv chunk (snd r) (zskipn n l).
Proof.
  intros chunk Hch. induction fuel as [|fuel IH]; intros n acc c l H Hf.
  - cbn [c_copy fst snd]. assert (n <= 0) by (destruct (c_chunk c - c_pos c =? 0); lia).
    rewrite take_z_nonpos, zskipn_nonpos by lia. now rewrite app_nil_r.
  - cbn [c_copy]. destruct (n <=? 0) eqn:En.
    + cbn [fst snd]. rewrite take_z_nonpos, zskipn_nonpos by lia. now rewrite app_nil_r.
    + pose proof H as (Hc & Hp & Ht & Hr). rewrite Hc in *.
      destruct (chunk - c_pos c >? 0) eqn:Er.
      * set (m := Z.min (chunk - c_pos c) n).
        assert (Hm : 0 < m <= n /\ m <= chunk - c_pos c) by lia.
        assert (H' : window_inv chunk (c_adv m c) (zskipn m l)) by (apply window_inv_adv; [assumption | lia | lia]).
        specialize (IH (n - m) (zfirstn m (c_tail c) :: acc) (c_adv m c) (zskipn m l) H').
        cbn zeta in IH. destruct IH as [I1 I2].
        { destruct H' as (Hc' & _). rewrite Hc'. replace (chunk - c_pos c =? 0) with false in Hf by lia.
          destruct (chunk - c_pos (c_adv m c) =? 0); lia. }
        split.
        -- rewrite I1. cbn [rev]. rewrite concat_app. cbn [concat]. rewrite app_nil_r, <- app_assoc. f_equal.
           rewrite Ht, zfirstn_take_z by lia. replace n with (m + (n - m)) at 2 by lia.
           now rewrite take_z_split by lia.
        -- rewrite zskipn_add in I2 by lia. replace (m + (n - m)) with n in I2 by lia. exact I2.
      * assert (Hpos : 0 < c_pos c) by lia.
        assert (H' : window_inv chunk (c_fetch c) l) by (apply window_inv_fetch; assumption).
        specialize (IH n acc (c_fetch c) l H'). cbn zeta in IH. apply IH.
        destruct H' as (Hc' & _). rewrite Hc'. unfold c_fetch. cbn [c_pos].
        replace (chunk - c_pos c =? 0) with true in Hf by lia.
        replace (chunk - 0 =? 0) with false by lia. lia.
Qed.

Lemma sim_gbytes : forall chunk n c l, 0 < chunk -> window_inv chunk c l ->
  fst (c_gbytes n c) = fst (f_gbytes n l) /\ window_inv chunk (snd (c_gbytes n c)) (snd (f_gbytes n l)).
Proof.
  intros chunk n c l Hch H. unfold c_gbytes, f_gbytes.
  pose proof (sim_copy chunk Hch (Z.to_nat (2 * n + 2)) n [] c l H) as Hs. cbn zeta in Hs.
  destruct (c_copy (Z.to_nat (2 * n + 2)) n [] c) as [acc c'] eqn:E. cbn [fst snd] in *.
  destruct (Z_le_gt_dec n 0) as [Hn|Hn].
  - (* nothing to copy *)
    destruct (Z.to_nat (2 * n + 2)) as [|k] eqn:Ek; cbn [c_copy] in E.
    + inversion E; subst. rewrite take_z_nonpos, zskipn_nonpos by lia. split; [reflexivity | exact H].
    + replace (n <=? 0) with true in E by lia. inversion E; subst.
      rewrite take_z_nonpos, zskipn_nonpos by lia. split; [reflexivity | exact H].
  - destruct Hs as [H1 H2]; [destruct (c_chunk c - c_pos c =? 0); lia|].
    split; [exact H1 | exact H2].
Qed.

(* ------------------------------------------------------------------ *)
(** ** C04: the result does not depend on the chunk size *)

(* every chunk size ncmpio_hdr_get_NC can use: PNETCDF_RNDUP(MAX(36, hint), 4) *)
Lemma norm_chunk_ok : forall hint, 36 <= norm_chunk hint /\ norm_chunk hint mod 4 = 0.
Proof.
  intros hint. unfold norm_chunk, rndup, MIN_NC_XSZ, X_ALIGN. cbn [Z.eqb]. lia.
Qed.

Theorem chunk_read_eq_flat : forall chunk mm f, 8 <= chunk ->
  fst (read_header chunk mm f) = fst (read_header_flat mm f) /\
  snd (snd (read_header chunk mm f)) = snd (snd (read_header_flat mm f)) /\
  window_inv chunk (fst (snd (read_header chunk mm f))) (fst (snd (read_header_flat mm f))).
Proof.
  intros chunk mm f Hch. unfold read_header, read_header_flat.
  pose proof (rel_hdr_get_NC cst (list byte) csrc fsrc (window_inv chunk) mm
                (fun c l => sim_g32 chunk c l Hch)
                (fun c l => sim_g64 chunk c l Hch)
                (fun n c l => sim_gbytes chunk n c l ltac:(lia))
                (fun k c l Hk => sim_gskip chunk c l k Hch Hk)) as Hrel.
  specialize (Hrel (c_init chunk f, acct0) (f, acct0)).
  destruct Hrel as [E [HR HA]].
  { split; [apply window_inv_init; lia | reflexivity]. }
  split; [exact E|]. split; [exact HA | exact HR].
Qed.

(* C04 chunk_decode_eq_flat: for ALL chunk sizes the reader can use (every hint value: the code
   normalises it to a multiple of 4 that is >= 36) the chunked reader returns what the
   single-pass reader over the zero-extended file returns: same header / error code / crash site *)
Theorem chunk_decode_eq_flat : forall hint mm f,
  out_res (open_model hint mm f) = open_flat mm f.
Proof.
  intros hint mm f. unfold open_model, open_flat.
  destruct (inq_file_format f) as [v|e|s]; try reflexivity.
  destruct (norm_chunk_ok hint) as [H36 _].
  destruct (chunk_read_eq_flat (norm_chunk hint) mm f ltac:(lia)) as [E _].
  destruct (read_header (norm_chunk hint) mm f) as [r [c a]]. cbn [out_res fst] in *. exact E.
Qed.

Corollary chunk_independent : forall h1 h2 mm f,
  out_res (open_model h1 mm f) = out_res (open_model h2 mm f).
Proof. intros. now rewrite !chunk_decode_eq_flat. Qed.

(* the requested allocation bytes do not depend on the chunk size either (apart from the window) *)
Corollary chunk_alloc_independent : forall hint mm f v, inq_file_format f = Ok v ->
  ac_alloc (out_acct (open_model hint mm f)) = ac_alloc (snd (snd (read_header_flat mm f))) + norm_chunk hint.
Proof.
  intros hint mm f v Hv. unfold open_model. rewrite Hv.
  destruct (norm_chunk_ok hint) as [H36 _].
  destruct (chunk_read_eq_flat (norm_chunk hint) mm f ltac:(lia)) as [_ [E _]].
  destruct (read_header (norm_chunk hint) mm f) as [r [c a]]. cbn [out_acct ac_alloc fst snd] in *.
  now rewrite E.
Qed.

(* ================================================================== *)
(** * Part D: the flat reader agrees with HeaderSpec.decode on valid files *)

Lemma bind_ok : forall S A B (m : P S A) (f : A -> P S B) s x s',
  m s = (Ok x, s') -> bind m f s = f x s'.
Proof. intros. unfold bind. now rewrite H. Qed.

Lemma flat_g32 : forall l v r, get_u32 l = Some (v, r) -> f_g32 l = (v, r).
Proof.
  intros l v r H. destruct l as [|a [|b [|c [|d r']]]]; try discriminate.
  cbn [get_u32] in H. inversion H; subst. unfold f_g32.
  rewrite take_z_enough by (unfold Zlen; cbn [length]; lia).
  change (a :: b :: c :: d :: r) with ([a; b; c; d] ++ r).
  change 4 with (Zlen [a; b; c; d]). rewrite zfirstn_app_exact, zskipn_app_exact. reflexivity.
Qed.

Lemma flat_g64 : forall l v r, get_u64 l = Some (v, r) -> f_g64 l = (v, r).
Proof.
  intros l v r H.
  destruct l as [|b0 [|b1 [|b2 [|b3 [|b4 [|b5 [|b6 [|b7 r']]]]]]]]; try discriminate.
  cbn [get_u64 get_u32] in H. inversion H; subst. unfold f_g64.
  rewrite take_z_enough by (unfold Zlen; cbn [length]; lia).
  change (b0 :: b1 :: b2 :: b3 :: b4 :: b5 :: b6 :: b7 :: r) with ([b0; b1; b2; b3; b4; b5; b6; b7] ++ r).
  change 8 with (Zlen [b0; b1; b2; b3; b4; b5; b6; b7]). rewrite zfirstn_app_exact, zskipn_app_exact.
  reflexivity.
Qed.

Lemma flat_u32 : forall l v r a, p_u32 l = Some (v, r) -> lift (g32 fsrc) (l, a) = (Ok v, (r, a)).
Proof. intros l v r a H. unfold lift. cbn [fst snd g32 fsrc]. now rewrite (flat_g32 l v r H). Qed.

Lemma flat_u64 : forall l v r a, p_u64 l = Some (v, r) -> lift (g64 fsrc) (l, a) = (Ok v, (r, a)).
Proof. intros l v r a H. unfold lift. cbn [fst snd g64 fsrc]. now rewrite (flat_g64 l v r H). Qed.

Lemma flat_nn : forall fmt l v r a, p_nn fmt l = Some (v, r) ->
  rd_nn (list byte) fsrc fmt (l, a) = (Ok v, (r, a)).
Proof.
  intros fmt l v r a H. unfold rd_nn, p_nn in *. destruct (fmt <? 5); [now apply flat_u32 | now apply flat_u64].
Qed.

Lemma p_bytes_inv : forall n l b r, p_bytes n l = Some (b, r) ->
  0 <= n <= Zlen l /\ b = zfirstn n l /\ r = zskipn n l.
Proof.
  intros n l b r H. unfold p_bytes in H. destruct ((n <? 0) || (Zlen l <? n)) eqn:E; [discriminate|].
  inversion H; subst. repeat split; lia.
Qed.

Lemma flat_bytes : forall n l b r a, p_bytes n l = Some (b, r) ->
  lift (gbytes fsrc n) (l, a) = (Ok b, (r, a)).
Proof.
  intros n l b r a H. apply p_bytes_inv in H. destruct H as (Hn & -> & ->).
  unfold lift. cbn [fst snd gbytes fsrc]. unfold f_gbytes. now rewrite take_z_enough by lia.
Qed.

Lemma Zlen_zfirstn_enough : forall A n (l : list A), 0 <= n <= Zlen l -> Zlen (zfirstn n l) = n.
Proof.
  intros. rewrite zfirstn_nat. unfold Zlen in *. rewrite firstn_length. lia.
Qed.

Definition alloc_st (a : acct) (n : Z) : acct :=
  mkacct (ac_alloc a + n) (Z.max (ac_maxreq a) n) (ac_nalloc a + 1).

Lemma alloc_ok : forall S mm n (s : S) a, n <= mm -> alloc mm n (s, a) = (Ok true, (s, alloc_st a n)).
Proof. intros. unfold alloc, alloc_st. cbn [fst snd]. replace (n <=? mm) with true by lia. reflexivity. Qed.

(* name = nelems namestring padding *)
Lemma flat_name : forall mm fmt l nm pad r a, p_name fmt l = Some ((nm, pad), r) ->
  Zlen nm <= NC_MAX_NAME -> Zlen nm + 1 <= mm ->
  exists a', rd_name (list byte) fsrc mm fmt (l, a) = (Ok nm, (r, a')).
Proof.
  intros mm fmt l nm pad r a H Hmax Hmm. unfold p_name in H.
  destruct (p_nn fmt l) as [[n r0]|] eqn:En; [|discriminate].
  unfold p_padded in H. destruct (p_bytes n r0) as [[b r1]|] eqn:Eb; [|discriminate].
  destruct (p_bytes (padlen n) r1) as [[pd r2]|] eqn:Ep; [|discriminate].
  inversion H; subst b pd r2. clear H.
  pose proof (p_bytes_inv _ _ _ _ Eb) as (Hn & Hnm & Hr1).
  assert (Hlen : Zlen nm = n) by (rewrite Hnm; apply Zlen_zfirstn_enough; lia).
  unfold rd_name. rewrite (bind_ok _ _ _ _ _ _ _ _ (flat_nn fmt l n r0 a En)).
  replace (n >? NC_MAX_NAME) with false by lia.
  rewrite (bind_ok _ _ _ _ _ _ _ _ (alloc_ok _ mm (n + 1) r0 a ltac:(lia))). cbn [negb].
  rewrite (bind_ok _ _ _ _ _ _ _ _ (flat_bytes n r0 nm r1 _ Eb)).
  pose proof (p_bytes_inv _ _ _ _ Ep) as (Hp & _ & Hr).
  destruct (padlen n >? 0) eqn:E.
  - unfold bind, lift_, ret. cbn [fst snd gskip fsrc]. unfold f_gskip. rewrite <- Hr. eexists; reflexivity.
  - unfold bind, ret. assert (padlen n = 0) by lia. rewrite H in Hr. rewrite zskipn_0 in Hr. subst r.
    eexists; reflexivity.
Qed.

Lemma iter_n_nat_all : forall S A (f : A -> P S A) n x s,
  iter_n n f x s = iter_nat (Z.to_nat n) f x s.
Proof.
  intros S A f n x s. destruct n as [|p|p]; [reflexivity | | reflexivity].
  cbn [iter_n]. rewrite iter_p_nat. now rewrite Z2Nat.inj_pos.
Qed.

Lemma to_i64_id : forall x, x <= I64_MAX -> to_i64 x = x.
Proof. intros x H. unfold to_i64. now replace (x >? I64_MAX) with false by lia. Qed.

Lemma p_many_length : forall A (p : parser A) k l xs r, p_many p k l = Some (xs, r) -> length xs = k.
Proof.
  induction k as [|k IH]; intros l xs r H; cbn [p_many] in H.
  - inversion H; reflexivity.
  - destruct (p l) as [[x r1]|]; [|discriminate].
    destruct (p_many p k r1) as [[xs' r']|] eqn:E; [|discriminate].
    inversion H; subst. cbn [length]. f_equal. eapply IH; eassumption.
Qed.

Lemma flat_many : forall A B (p : parser A) (step : list B -> P (list byte) (list B)) (g : A -> B)
                         (Q : A -> Prop),
  (forall l x r a acc, p l = Some (x, r) -> Q x ->
     exists a', step acc (l, a) = (Ok (g x :: acc), (r, a'))) ->
  forall k l xs r acc a, p_many p k l = Some (xs, r) -> Forall Q xs ->
  exists a', iter_nat k step acc (l, a) = (Ok (rev (map g xs) ++ acc), (r, a')).
Proof.
  intros A B p step g Q Hstep. induction k as [|k IH]; intros l xs r acc a H HQ; cbn [p_many] in H.
  - inversion H; subst. cbn. eexists; reflexivity.
  - destruct (p l) as [[x r1]|] eqn:Ex; [|discriminate].
    destruct (p_many p k r1) as [[xs' r']|] eqn:E; [|discriminate].
    inversion H; subst. inversion HQ as [|? ? Hx Hxs]; subst.
    destruct (Hstep l x r1 a acc Ex Hx) as [a1 E1].
    cbn [iter_nat]. rewrite (bind_ok _ _ _ _ _ _ _ _ E1).
    destruct (IH r1 xs' r (g x :: acc) a1 E Hxs) as [a2 E2]. exists a2. rewrite E2.
    cbn [map rev]. now rewrite <- app_assoc.
Qed.

Lemma p_list_inv : forall A fmt tag (p : parser A) l xs r, p_list fmt tag p l = Some (xs, r) ->
  exists t n r1 r2, p_u32 l = Some (t, r1) /\ p_nn fmt r1 = Some (n, r2) /\
    ((t = 0 /\ n = 0 /\ xs = [] /\ r = r2) \/
     (t <> 0 /\ t = tag /\ p_many p (Z.to_nat n) r2 = Some (xs, r))).
Proof.
  intros A fmt tag p l xs r H. unfold p_list in H.
  destruct (p_u32 l) as [[t r1]|] eqn:Et; [|discriminate].
  destruct (p_nn fmt r1) as [[n r2]|] eqn:En; [|discriminate].
  exists t, n, r1, r2. split; [first [reflexivity | exact Et]|]. split; [first [reflexivity | exact En]|].
  destruct (t =? 0) eqn:E0.
  - destruct (n =? 0) eqn:En0; [|discriminate]. inversion H; subst. left. repeat split; lia.
  - destruct (t =? tag) eqn:Etag; [|discriminate].
    destruct (Zlen r2 <? n); [discriminate|]. right. repeat split; try lia. exact H.
Qed.

Lemma rndup_int_ok : forall S n (st : S * acct), n + 63 <= INT_MAX ->
  rndup_int S n st = (Ok (((n + 63) / 64) * 64), st).
Proof.
  intros S n st H. unfold rndup_int, PNC_ARRAY_GROWBY. replace (64 - 1) with 63 by lia.
  replace (n + 63 >? INT_MAX) with false by lia. reflexivity.
Qed.

Definition dimQ (mm : Z) (x : dim) : Prop :=
  Zlen (d_name x) <= NC_MAX_NAME /\ Zlen (d_name x) + 1 <= mm /\ 0 <= d_size x <= I64_MAX.

Lemma flat_dim : forall mm fmt unlim l dd r a, p_dim fmt l = Some (dd, r) ->
  dimQ mm (dd_dim dd) -> SZ_NC_DIM <= mm -> (unlim = -1 \/ d_size (dd_dim dd) <> 0) ->
  exists a', rd_dim (list byte) fsrc mm fmt unlim (l, a) = (Ok (dd_dim dd), (r, a')).
Proof.
  intros mm fmt unlim l dd r a H (Hn & Hm & Hs) Hmm Hu. unfold p_dim in H.
  destruct (p_name fmt l) as [[[nm pad] r1]|] eqn:En; [|discriminate].
  destruct (p_nn fmt r1) as [[sz r2]|] eqn:Es; [|discriminate].
  inversion H; subst. cbn [dd_dim d_name d_size] in *.
  destruct (flat_name mm fmt l nm pad r1 a En Hn Hm) as [a1 E1].
  unfold rd_dim. rewrite (bind_ok _ _ _ _ _ _ _ _ E1).
  rewrite (bind_ok _ _ _ _ _ _ _ _ (flat_nn fmt r1 sz r a1 Es)).
  rewrite to_i64_id by lia.
  replace (negb (unlim =? -1) && (sz =? 0)) with false by (destruct Hu; lia).
  rewrite (bind_ok _ _ _ _ _ _ _ _ (alloc_ok _ mm SZ_NC_DIM r a1 Hmm)). cbn [negb].
  unfold ret. eexists; reflexivity.
Qed.

Definition dim_step (mm fmt : Z) (st : Z * Z * list dim) : P (list byte) (Z * Z * list dim) :=
  let '(i, unlim, acc) := st in
  bind (rd_dim (list byte) fsrc mm fmt unlim) (fun d =>
  ret (i + 1, (if d_size d =? 0 then i else unlim), d :: acc)).

Lemma flat_dims_loop : forall mm fmt, SZ_NC_DIM <= mm -> forall k l xs r i unlim acc a,
  p_many (p_dim fmt) k l = Some (xs, r) ->
  Forall (fun x => dimQ mm (dd_dim x)) xs -> 0 <= i -> (unlim = -1 \/ 0 <= unlim) ->
  (if unlim =? -1 then 0 else 1) + Zlen (filter (fun x => d_size (dd_dim x) =? 0) xs) <= 1 ->
  exists a' i' u', iter_nat k (dim_step mm fmt) (i, unlim, acc) (l, a)
                   = (Ok (i', u', rev (map dd_dim xs) ++ acc), (r, a')).
Proof.
  intros mm fmt Hmm. induction k as [|k IH]; intros l xs r i unlim acc a H HQ Hi Hu Hz; cbn [p_many] in H.
  - inversion H; subst. cbn. do 3 eexists; reflexivity.
  - destruct (p_dim fmt l) as [[x r1]|] eqn:Ex; [|discriminate].
    destruct (p_many (p_dim fmt) k r1) as [[xs' r']|] eqn:E; [|discriminate].
    inversion H; subst. inversion HQ as [|? ? Hx Hxs]; subst.
    cbn [filter] in Hz. pose proof (Zlen_nonneg _ (filter (fun x0 => d_size (dd_dim x0) =? 0) xs')) as Hnn.
    assert (Hu' : unlim = -1 \/ d_size (dd_dim x) <> 0).
    { destruct (d_size (dd_dim x) =? 0) eqn:Ez; [|right; lia].
      rewrite Zlen_cons in Hz. destruct (unlim =? -1) eqn:Eu; [left; lia | lia]. }
    destruct (flat_dim mm fmt unlim l x r1 a Ex Hx Hmm Hu') as [a1 E1].
    cbn [iter_nat]. unfold dim_step at 1. rewrite bind_assoc. rewrite (bind_ok _ _ _ _ _ _ _ _ E1).
    unfold ret at 1. unfold bind at 1.
    edestruct (IH r1 xs' r (i + 1) (if d_size (dd_dim x) =? 0 then i else unlim) (dd_dim x :: acc) a1 E Hxs)
      as (a2 & i2 & u2 & E2); [lia | destruct (d_size (dd_dim x) =? 0); [right; lia | assumption] | |].
    { destruct (d_size (dd_dim x) =? 0) eqn:Ez.
      - rewrite Zlen_cons in Hz. replace (i =? -1) with false by lia. destruct (unlim =? -1); lia.
      - exact Hz. }
    exists a2, i2, u2. rewrite E2. cbn [map rev]. now rewrite <- app_assoc.
Qed.

Lemma list_req_nonpos : forall n, n <= 0 -> ((n + 63) / 64) * 64 * 8 <= 0.
Proof. intros. lia. Qed.

(* dim_list *)
Lemma flat_dimarray : forall mm fmt l xs r a,
  p_list fmt 10 (p_dim fmt) l = Some (xs, r) ->
  Forall (fun x => dimQ mm (dd_dim x)) xs -> SZ_NC_DIM <= mm ->
  Zlen xs <= NC_MAX_INT - 63 -> list_req (Zlen xs) <= mm ->
  Zlen (filter (fun x => d_size (dd_dim x) =? 0) xs) <= 1 ->
  exists a', rd_dimarray (list byte) fsrc mm fmt (l, a) = (Ok (map dd_dim xs), (r, a')).
Proof.
  intros mm fmt l xs r a H HQ Hmm Hcnt Hreq Hz.
  destruct (p_list_inv _ _ _ _ _ _ _ H) as (t & n & r1 & r2 & Et & En & Hc).
  unfold rd_dimarray. rewrite (bind_ok _ _ _ _ _ _ _ _ (flat_u32 l t r1 a Et)).
  rewrite (bind_ok _ _ _ _ _ _ _ _ (flat_nn fmt r1 n r2 a En)).
  destruct Hc as [(Ht & Hn & Hxs & Hr) | (Ht & Htag & Hm)].
  - subst. cbn. eexists; reflexivity.
  - pose proof (p_many_length _ _ _ _ _ _ Hm) as Hlen.
    assert (Hn : n <= 0 \/ n = Zlen xs) by (unfold Zlen; lia).
    unfold NC_MAX_DIMS, NC_MAX_INT in *.
    replace (n >? 2147483647) with false by lia.
    destruct (n =? 0) eqn:E0.
    + assert (n = 0) by lia. subst n. cbn in Hm. inversion Hm; subst. unfold ret. eexists; reflexivity.
    + subst t. unfold NC_DIMENSION_TAG. cbn [Z.eqb Pos.eqb negb].
      rewrite (bind_ok _ _ _ _ _ _ _ _ (rndup_int_ok _ n (r2, a) ltac:(unfold INT_MAX; lia))).
      assert (Hal : ((n + 63) / 64) * 64 * 8 <= mm).
      { destruct Hn as [Hn|Hn]; [pose proof (list_req_nonpos n Hn); unfold SZ_NC_DIM in Hmm; lia |].
        subst n. exact Hreq. }
      rewrite (bind_ok _ _ _ _ _ _ _ _ (alloc_ok _ mm _ r2 a Hal)). cbn [negb].
      destruct (flat_dims_loop mm fmt Hmm (Z.to_nat n) r2 xs r 0 (-1) [] (alloc_st a (((n + 63) / 64) * 64 * 8)) Hm HQ
                  ltac:(lia) ltac:(left; reflexivity) ltac:(cbn; lia)) as (a2 & i2 & u2 & E2).
      unfold bind at 1. rewrite iter_n_nat_all.
      change (fun st : Z * Z * list dim => let '(i, unlim, acc) := st in
                bind (rd_dim (list byte) fsrc mm fmt unlim)
                  (fun d : dim => ret (i + 1, if d_size d =? 0 then i else unlim, d :: acc)))
        with (dim_step mm fmt).
      rewrite E2. unfold ret. cbn [snd]. rewrite app_nil_r, rev_involutive. eexists; reflexivity.
Qed.

Lemma attr_xsz_valid : forall t n, 0 < n ->
  (xlen_type t = 1 \/ xlen_type t = 2 \/ xlen_type t = 4 \/ xlen_type t = 8) ->
  rndup (n * xlen_type t) 4 <= I64_MAX ->
  attr_xsz t n = Ok (rndup (n * xlen_type t) 4).
Proof.
  intros t n Hn Hx Hr. unfold attr_xsz, rndup in *. cbn [Z.eqb] in *. unfold I64_MAX in *.
  destruct Hx as [E|[E|[E|E]]]; rewrite E in *; cbn [Z.eqb Pos.eqb].
  - unfold chk, in_i64, I64_MIN, I64_MAX.
    replace ((-9223372036854775808 <=? n + 3) && (n + 3 <=? 9223372036854775807)) with true by lia.
    cbn [rbind]. f_equal. lia.
  - pose proof (Z.rem_mod_nonneg n 2 ltac:(lia) ltac:(lia)) as Hm. rewrite Hm.
    unfold chk, in_i64, I64_MIN, I64_MAX.
    replace ((-9223372036854775808 <=? n + n mod 2) && (n + n mod 2 <=? 9223372036854775807)) with true by lia.
    cbn [rbind].
    replace ((-9223372036854775808 <=? (n + n mod 2) * 2) && ((n + n mod 2) * 2 <=? 9223372036854775807)) with true by lia.
    f_equal. lia.
  - unfold chk, in_i64, I64_MIN, I64_MAX.
    replace ((-9223372036854775808 <=? n * 4) && (n * 4 <=? 9223372036854775807)) with true by lia.
    f_equal. lia.
  - unfold chk, in_i64, I64_MIN, I64_MAX.
    replace ((-9223372036854775808 <=? n * 8) && (n * 8 <=? 9223372036854775807)) with true by lia.
    f_equal. lia.
Qed.

Definition attQ (mm : Z) (x : att) : Prop :=
  Zlen (a_name x) <= NC_MAX_NAME /\ Zlen (a_name x) + 1 <= mm /\ a_nelems x <= I64_MAX /\
  rndup (a_nelems x * xlen_type (a_type x)) 4 <= I64_MAX /\
  rndup (a_nelems x * xlen_type (a_type x)) 4 <= mm.

Lemma flat_type : forall fmt l t r a, fmt = 1 \/ fmt = 2 \/ fmt = 5 ->
  p_u32 l = Some (t, r) -> valid_type fmt t = true ->
  rd_type (list byte) fsrc fmt (l, a) = (Ok t, (r, a)).
Proof.
  intros fmt l t r a Hf H Hv. unfold rd_type. rewrite (bind_ok _ _ _ _ _ _ _ _ (flat_u32 l t r a H)).
  unfold valid_type in Hv.
  replace (t <? 1) with false by lia.
  destruct Hf as [-> | [-> | ->]].
  - change (1 <? 5) with true. change (1 =? 5) with false in Hv. cbv iota in *.
    replace (t >? 6) with false by lia. reflexivity.
  - change (2 <? 5) with true. change (2 =? 5) with false in Hv. cbv iota in *.
    replace (t >? 6) with false by lia. reflexivity.
  - change (5 <? 5) with false. change (5 =? 5) with true in Hv. cbv iota in *.
    replace (t >? 11) with false by lia. reflexivity.
Qed.

Lemma flat_att : forall mm fmt l da r a, fmt = 1 \/ fmt = 2 \/ fmt = 5 ->
  p_att fmt l = Some (da, r) -> attQ mm (da_att da) -> SZ_NC_ATTR <= mm ->
  exists a', rd_att (list byte) fsrc mm fmt (l, a) = (Ok (da_att da), (r, a')).
Proof.
  intros mm fmt l da r a Hf H (Hnm & Hnmm & Hne & Hxs & Hxm) Hmm. unfold p_att in H.
  destruct (p_name fmt l) as [[[nm pad] r1]|] eqn:En; [|discriminate].
  destruct (p_u32 r1) as [[t r2]|] eqn:Et; [|discriminate].
  destruct (valid_type fmt t) eqn:Ev; cbn [negb] in H; [|discriminate].
  destruct (p_nn fmt r2) as [[n r3]|] eqn:Enn; [|discriminate].
  destruct ((n <? 0) || (Zlen r3 <? n)) eqn:Eb; [discriminate|].
  destruct (p_padded (n * xlen_type t) r3) as [[[data pad2] r4]|] eqn:Ep; [|discriminate].
  inversion H; subst. cbn [da_att a_name a_type a_nelems] in *.
  destruct (flat_name mm fmt l nm pad r1 a En Hnm Hnmm) as [a1 E1].
  unfold rd_att. rewrite (bind_ok _ _ _ _ _ _ _ _ E1).
  rewrite (bind_ok _ _ _ _ _ _ _ _ (flat_type fmt r1 t r2 a1 Hf Et Ev)).
  rewrite (bind_ok _ _ _ _ _ _ _ _ (flat_nn fmt r2 n r3 a1 Enn)).
  rewrite to_i64_id by lia.
  rewrite (bind_ok _ _ _ _ _ _ _ _ (alloc_ok _ mm SZ_NC_ATTR r3 a1 Hmm)). cbn [negb].
  pose proof (valid_type_xlen fmt t Ev) as Hxl.
  assert (Hx4 : xlen_type t = 1 \/ xlen_type t = 2 \/ xlen_type t = 4 \/ xlen_type t = 8)
    by (destruct (xlen_type_cases t) as [E|[E|[E|[E|E]]]]; lia).
  unfold p_padded in Ep.
  destruct (p_bytes (n * xlen_type t) r3) as [[b r5]|] eqn:Eb1; [|discriminate].
  destruct (p_bytes (padlen (n * xlen_type t)) r5) as [[pd r6]|] eqn:Eb2; [|discriminate].
  inversion Ep; subst b pd r6. clear Ep.
  destruct (n >? 0) eqn:En0.
  - rewrite (attr_xsz_valid t n ltac:(lia) Hx4 Hxs).
    unfold bind at 1. unfold pure at 1.
    rewrite (bind_ok _ _ _ _ _ _ _ _ (alloc_ok _ mm _ r3 _ Hxm)). cbn [negb].
    rewrite (bind_ok _ _ _ _ _ _ _ _ (flat_bytes _ r3 data r5 _ Eb1)).
    rewrite rndup4_padlen. replace (n * xlen_type t + padlen (n * xlen_type t) - n * xlen_type t)
      with (padlen (n * xlen_type t)) by lia.
    pose proof (p_bytes_inv _ _ _ _ Eb2) as (Hp & _ & Hr).
    destruct (padlen (n * xlen_type t) >? 0) eqn:E.
    + unfold bind, lift_, ret. cbn [fst snd gskip fsrc]. unfold f_gskip. rewrite <- Hr. eexists; reflexivity.
    + unfold bind, ret. assert (Hz : padlen (n * xlen_type t) = 0) by lia. rewrite Hz in Hr.
      rewrite zskipn_0 in Hr. subst r. eexists; reflexivity.
  - assert (n = 0) by lia. subst n. replace (0 * xlen_type t) with 0 in * by lia.
    pose proof (p_bytes_inv _ _ _ _ Eb1) as (_ & Hd & Hr5). rewrite zfirstn_0 in Hd. rewrite zskipn_0 in Hr5.
    rewrite padlen_0 in Eb2. pose proof (p_bytes_inv _ _ _ _ Eb2) as (_ & _ & Hr). rewrite zskipn_0 in Hr.
    subst. unfold bind, pure, chk, in_i64, I64_MIN, I64_MAX, TWO64, ret. cbn. eexists; reflexivity.
Qed.

Lemma flat_attarray : forall mm fmt l xs r a, fmt = 1 \/ fmt = 2 \/ fmt = 5 ->
  p_list fmt 12 (p_att fmt) l = Some (xs, r) ->
  Forall (fun x => attQ mm (da_att x)) xs -> SZ_NC_ATTR <= mm ->
  Zlen xs <= NC_MAX_INT - 63 -> list_req (Zlen xs) <= mm ->
  exists a', rd_attarray (list byte) fsrc mm fmt (l, a) = (Ok (map da_att xs), (r, a')).
Proof.
  intros mm fmt l xs r a Hf H HQ Hmm Hcnt Hreq.
  destruct (p_list_inv _ _ _ _ _ _ _ H) as (t & n & r1 & r2 & Et & En & Hc).
  unfold rd_attarray. rewrite (bind_ok _ _ _ _ _ _ _ _ (flat_u32 l t r1 a Et)).
  rewrite (bind_ok _ _ _ _ _ _ _ _ (flat_nn fmt r1 n r2 a En)).
  destruct Hc as [(Ht & Hn & Hxs & Hr) | (Ht & Htag & Hm)].
  - subst. cbn. eexists; reflexivity.
  - pose proof (p_many_length _ _ _ _ _ _ Hm) as Hlen.
    assert (Hn : n <= 0 \/ n = Zlen xs) by (unfold Zlen; lia).
    unfold NC_MAX_ATTRS, NC_MAX_INT in *.
    replace (n >? 2147483647) with false by lia.
    destruct (n =? 0) eqn:E0.
    + assert (n = 0) by lia. subst n. cbn in Hm. inversion Hm; subst. unfold ret. eexists; reflexivity.
    + subst t. unfold NC_ATTRIBUTE_TAG. cbn [Z.eqb Pos.eqb negb].
      rewrite (bind_ok _ _ _ _ _ _ _ _ (rndup_int_ok _ n (r2, a) ltac:(unfold INT_MAX; lia))).
      assert (Hal : ((n + 63) / 64) * 64 * 8 <= mm).
      { destruct Hn as [Hn|Hn]; [pose proof (list_req_nonpos n Hn); unfold SZ_NC_ATTR in Hmm; lia |].
        subst n. exact Hreq. }
      rewrite (bind_ok _ _ _ _ _ _ _ _ (alloc_ok _ mm _ r2 a Hal)). cbn [negb].
      destruct (flat_many _ _ (p_att fmt)
                  (fun acc : list att => bind (rd_att (list byte) fsrc mm fmt) (fun x => ret (x :: acc)))
                  da_att (fun x => attQ mm (da_att x))) with (k := Z.to_nat n) (l := r2) (xs := xs) (r := r)
                  (acc := @nil att) (a := alloc_st a (((n + 63) / 64) * 64 * 8)) as [a2 E2]; [|exact Hm|exact HQ|].
      { intros l0 x r0 a0 acc Hp Hq. destruct (flat_att mm fmt l0 x r0 a0 Hf Hp Hq Hmm) as [a' E'].
        exists a'. rewrite (bind_ok _ _ _ _ _ _ _ _ E'). reflexivity. }
      unfold bind at 1. rewrite iter_n_nat_all. rewrite E2. unfold ret. rewrite app_nil_r, rev_involutive.
      eexists; reflexivity.
Qed.

Definition varQ (mm nd0 : Z) (v : var) : Prop :=
  Zlen (v_name v) <= NC_MAX_NAME /\ Zlen (v_name v) + 1 <= mm /\
  Zlen (v_dimids v) <= NC_MAX_INT /\ Zlen (v_dimids v) * 8 <= mm /\
  Forall (fun i => 0 <= i < nd0) (v_dimids v) /\
  Forall (attQ mm) (v_atts v) /\ Zlen (v_atts v) <= NC_MAX_INT - 63 /\ list_req (Zlen (v_atts v)) <= mm /\
  v_begin v <= I64_MAX.

Lemma Forall_map_iff : forall A B (f : A -> B) (Q : B -> Prop) l, Forall Q (map f l) <-> Forall (fun x => Q (f x)) l.
Proof. intros. rewrite !Forall_forall. split; intros H x Hx; [apply H, in_map, Hx |].
  apply in_map_iff in Hx. destruct Hx as [y [<- Hy]]. now apply H. Qed.

Lemma flat_var : forall mm fmt nd0 l dv r a, fmt = 1 \/ fmt = 2 \/ fmt = 5 ->
  p_var fmt l = Some (dv, r) -> varQ mm nd0 (dv_var dv) -> SZ_NC_VAR <= mm ->
  exists a', rd_var (list byte) fsrc mm fmt nd0 (l, a) = (Ok (dv_var dv, true), (r, a')).
Proof.
  intros mm fmt nd0 l dv r a Hf H HQ Hmm. unfold p_var in H.
  destruct (p_name fmt l) as [[[nm pad] r0]|] eqn:En; [|discriminate].
  destruct (p_nn fmt r0) as [[nd r1]|] eqn:End; [|discriminate].
  destruct (Zlen r1 <? nd) eqn:Elen; [discriminate|].
  destruct (p_many (p_nn fmt) (Z.to_nat nd) r1) as [[dimids r2]|] eqn:Edim; [|discriminate].
  destruct (p_list fmt 12 (p_att fmt) r2) as [[atts r3]|] eqn:Eatt; [|discriminate].
  destruct (p_u32 r3) as [[t r4]|] eqn:Et; [|discriminate].
  destruct (valid_type fmt t) eqn:Ev; cbn [negb] in H; [|discriminate].
  destruct (p_nn fmt r4) as [[vsize r5]|] eqn:Evs; [|discriminate].
  destruct (if fmt =? 1 then p_u32 r5 else p_u64 r5) as [[bg r6]|] eqn:Ebg; [|discriminate].
  inversion H; subst dv r6. clear H.
  destruct HQ as (Hn1 & Hn2 & Hd1 & Hd2 & Hd3 & Ha1 & Ha2 & Ha3 & Hb).
  cbn [dv_var v_name v_dimids v_atts v_type v_begin] in *.
  destruct (flat_name mm fmt l nm pad r0 a En Hn1 Hn2) as [a1 E1].
  unfold rd_var. rewrite (bind_ok _ _ _ _ _ _ _ _ E1).
  rewrite (bind_ok _ _ _ _ _ _ _ _ (flat_nn fmt r0 nd r1 a1 End)).
  pose proof (p_many_length _ _ _ _ _ _ Edim) as Hlen.
  assert (Hnd : nd <= 0 \/ nd = Zlen dimids) by (unfold Zlen; lia).
  unfold NC_MAX_VAR_DIMS, NC_MAX_INT in *. replace (nd >? 2147483647) with false by lia.
  rewrite (bind_ok _ _ _ _ _ _ _ _ (alloc_ok _ mm SZ_NC_VAR r1 a1 Hmm)). cbn [negb].
  assert (Hoks : exists a2, (if nd >? 0
            then bind (alloc mm (nd * 8)) (fun a0 => bind (alloc mm (nd * 8)) (fun b =>
                 bind (alloc mm (nd * 4)) (fun c => ret (a0 && b, c))))
            else ret (true, true)) (r1, alloc_st a1 SZ_NC_VAR) = (Ok (true, true), (r1, a2))).
  { destruct (nd >? 0) eqn:E0; [|eexists; reflexivity].
    assert (nd = Zlen dimids) by lia. subst nd.
    rewrite (bind_ok _ _ _ _ _ _ _ _ (alloc_ok _ mm _ r1 _ Hd2)).
    rewrite (bind_ok _ _ _ _ _ _ _ _ (alloc_ok _ mm _ r1 _ Hd2)).
    rewrite (bind_ok _ _ _ _ _ _ _ _ (alloc_ok _ mm (Zlen dimids * 4) r1 _ ltac:(lia))).
    eexists; reflexivity. }
  destruct Hoks as [a2 Eoks]. rewrite (bind_ok _ _ _ _ _ _ _ _ Eoks). cbn [fst snd negb].
  match goal with |- context [iter_n nd ?f0 []] => set (f := f0) end.
  assert (E3 : exists a3, iter_n nd f [] (r1, a2) = (Ok (rev dimids), (r2, a3))).
  { rewrite iter_n_nat_all.
    destruct (flat_many _ _ (p_nn fmt) f (fun x => x) (fun i => 0 <= i < nd0)) with (k := Z.to_nat nd) (l := r1)
                (xs := dimids) (r := r2) (acc := @nil Z) (a := a2) as [a3 E3]; [|exact Edim|exact Hd3|].
    { intros l0 x r' a0 acc Hp Hq. exists a0. unfold f.
      rewrite (bind_ok _ _ _ _ _ _ _ _ (flat_nn fmt l0 x r' a0 Hp)).
      replace (x >=? nd0) with false by lia. reflexivity. }
    exists a3. rewrite E3. now rewrite map_id, app_nil_r. }
  destruct E3 as [a3 E3]. rewrite (bind_ok _ _ _ _ _ _ _ _ E3). rewrite rev_involutive.
  apply (proj1 (Forall_map_iff _ _ da_att (attQ mm) atts)) in Ha1. try rewrite Zlen_map in Ha2. try rewrite Zlen_map in Ha3.
  destruct (flat_attarray mm fmt r2 atts r3 a3 Hf Eatt Ha1 ltac:(unfold SZ_NC_ATTR, SZ_NC_VAR in *; lia) Ha2 Ha3) as [a4 E4].
  rewrite (bind_ok _ _ _ _ _ _ _ _ E4).
  rewrite (bind_ok _ _ _ _ _ _ _ _ (flat_type fmt r3 t r4 a4 Hf Et Ev)).
  rewrite (bind_ok _ _ _ _ _ _ _ _ (flat_nn fmt r4 vsize r5 a4 Evs)).
  assert (Eb : (if fmt =? 1 then lift (g32 fsrc) else lift (g64 fsrc)) (r5, a4) = (Ok bg, (r, a4))).
  { destruct (fmt =? 1); [now apply flat_u32 | now apply flat_u64]. }
  rewrite (bind_ok _ _ _ _ _ _ _ _ Eb). rewrite to_i64_id by lia. unfold ret. eexists; reflexivity.
Qed.

Lemma flat_vararray : forall mm fmt nd0 l xs r a, fmt = 1 \/ fmt = 2 \/ fmt = 5 ->
  p_list fmt 11 (p_var fmt) l = Some (xs, r) ->
  Forall (fun x => varQ mm nd0 (dv_var x)) xs -> SZ_NC_VAR <= mm ->
  Zlen xs <= NC_MAX_INT - 63 -> list_req (Zlen xs) <= mm ->
  exists a', rd_vararray (list byte) fsrc mm fmt nd0 (l, a)
             = (Ok (map (fun x => (dv_var x, true)) xs), (r, a')).
Proof.
  intros mm fmt nd0 l xs r a Hf H HQ Hmm Hcnt Hreq.
  destruct (p_list_inv _ _ _ _ _ _ _ H) as (t & n & r1 & r2 & Et & En & Hc).
  unfold rd_vararray. rewrite (bind_ok _ _ _ _ _ _ _ _ (flat_u32 l t r1 a Et)).
  rewrite (bind_ok _ _ _ _ _ _ _ _ (flat_nn fmt r1 n r2 a En)).
  destruct Hc as [(Ht & Hn & Hxs & Hr) | (Ht & Htag & Hm)].
  - subst. cbn. eexists; reflexivity.
  - pose proof (p_many_length _ _ _ _ _ _ Hm) as Hlen.
    assert (Hn : n <= 0 \/ n = Zlen xs) by (unfold Zlen; lia).
    unfold NC_MAX_VARS, NC_MAX_INT in *.
    replace (n >? 2147483647) with false by lia.
    destruct (n =? 0) eqn:E0.
    + assert (n = 0) by lia. subst n. cbn in Hm. inversion Hm; subst. unfold ret. eexists; reflexivity.
    + subst t. unfold NC_VARIABLE_TAG. cbn [Z.eqb Pos.eqb negb].
      rewrite (bind_ok _ _ _ _ _ _ _ _ (rndup_int_ok _ n (r2, a) ltac:(unfold INT_MAX; lia))).
      assert (Hal : ((n + 63) / 64) * 64 * 8 <= mm).
      { destruct Hn as [Hn|Hn]; [pose proof (list_req_nonpos n Hn); unfold SZ_NC_VAR in Hmm; lia |].
        subst n. exact Hreq. }
      rewrite (bind_ok _ _ _ _ _ _ _ _ (alloc_ok _ mm _ r2 a Hal)). cbn [negb].
      destruct (flat_many _ _ (p_var fmt)
                  (fun acc : list (var * bool) => bind (rd_var (list byte) fsrc mm fmt nd0) (fun x => ret (x :: acc)))
                  (fun x => (dv_var x, true)) (fun x => varQ mm nd0 (dv_var x)))
               with (k := Z.to_nat n) (l := r2) (xs := xs) (r := r)
                  (acc := @nil (var * bool)) (a := alloc_st a (((n + 63) / 64) * 64 * 8)) as [a2 E2]; [|exact Hm|exact HQ|].
      { intros l0 x r0 a0 acc Hp Hq. destruct (flat_var mm fmt nd0 l0 x r0 a0 Hf Hp Hq Hmm) as [a' E'].
        exists a'. rewrite (bind_ok _ _ _ _ _ _ _ _ E'). reflexivity. }
      unfold bind at 1. rewrite iter_n_nat_all. rewrite E2. unfold ret. rewrite app_nil_r, rev_involutive.
      eexists; reflexivity.
Qed.

(* ------------------------------------------------------------------ *)
(** ** post-processing on valid headers *)

Definition eff (shape : list Z) : list Z := if shape_isrec shape then tl shape else shape.

Lemma nelems_eff : forall shape, var_nelems_per_rec shape = zprod (eff shape).
Proof.
  intros [|s0 r]; [reflexivity|]. unfold var_nelems_per_rec, eff, shape_isrec. destruct (s0 =? 0); reflexivity.
Qed.

Lemma check_vlen_eff : forall xsz shape vmax, check_vlen xsz shape vmax = check_vlen_loop (eff shape) xsz vmax.
Proof.
  intros xsz [|s0 r] vmax; [reflexivity|]. unfold check_vlen, eff, shape_isrec. destruct (s0 =? 0); reflexivity.
Qed.

Lemma eff_pos : forall shape, Forall (fun x => 0 <= x) shape -> unlimpos_bad shape = false ->
  Forall (fun x => 0 < x) (eff shape).
Proof.
  intros [|s0 r] Hnn Hu; [constructor|]. cbn [unlimpos_bad] in Hu.
  inversion Hnn as [|? ? H0 Hr]; subst.
  assert (Hr' : Forall (fun x => 0 < x) r).
  { rewrite Forall_forall in *. intros x Hx. specialize (Hr x Hx).
    assert (x <> 0); [|lia]. intros ->. 
    assert (existsb (fun s => s =? 0) r = true); [|congruence].
    apply existsb_exists. exists 0. split; [assumption | reflexivity]. }
  unfold eff, shape_isrec. destruct (s0 =? 0) eqn:E; cbn [tl]; [assumption | constructor; [lia | assumption]].
Qed.

Lemma cvlen_loop_eq : forall shape prod vmax, Forall (fun x => 0 < x) shape -> 0 < prod ->
  0 <= vmax <= I64_MAX -> cvlen_loop shape prod vmax = Ok (check_vlen_loop shape prod vmax).
Proof.
  induction shape as [|s r IH]; intros prod vmax Hs Hp Hv; [reflexivity|].
  inversion Hs as [|? ? Hs0 Hr]; subst. cbn [cvlen_loop check_vlen_loop].
  replace (prod =? 0) with false by lia.
  rewrite Z.quot_div_nonneg by lia.
  destruct (s >? vmax / prod) eqn:E; [reflexivity|].
  assert (Hle : prod * s <= vmax).
  { assert (s <= vmax / prod) by lia. pose proof (Z.mul_div_le vmax prod Hp). nia. }
  unfold chk, in_i64, I64_MIN, I64_MAX in *.
  replace ((-9223372036854775808 <=? prod * s) && (prod * s <=? 9223372036854775807)) with true by nia.
  cbn [rbind]. apply IH; [assumption | nia | assumption].
Qed.

Lemma check_vlen_loop_bound : forall shape prod vmax, Forall (fun x => 0 < x) shape -> 0 < prod ->
  prod <= vmax -> check_vlen_loop shape prod vmax = true -> prod * zprod shape <= vmax.
Proof.
  induction shape as [|s r IH]; intros prod vmax Hs Hp Hpv H; cbn [zprod]; [lia|].
  inversion Hs as [|? ? Hs0 Hr]; subst. cbn [check_vlen_loop] in H.
  destruct (s >? vmax / prod) eqn:E; [discriminate|].
  assert (Hle : prod * s <= vmax).
  { assert (s <= vmax / prod) by lia. pose proof (Z.mul_div_le vmax prod Hp). nia. }
  specialize (IH (prod * s) vmax Hr ltac:(nia) Hle H). lia.
Qed.

Lemma zprod_rev : forall l, zprod (rev l) = zprod l.
Proof.
  induction l as [|x l IH]; [reflexivity|]. cbn [rev zprod]. rewrite zprod_app, IH. cbn [zprod]. lia.
Qed.

Lemma zprod_pos1 : forall l, Forall (fun x => 0 < x) l -> 1 <= zprod l.
Proof.
  induction l as [|x l IH]; intros H; cbn [zprod]; [lia|]. inversion H; subst. specialize (IH H3). nia.
Qed.

Lemma shape_prod_ok : forall rs p, Forall (fun x => 0 <= x) rs -> 0 < p ->
  p * zprod (filter (fun s => negb (s =? 0)) rs) <= I64_MAX ->
  shape_prod rs p = Ok (p * zprod (filter (fun s => negb (s =? 0)) rs)).
Proof.
  induction rs as [|s r IH]; intros p Hs Hp Hb; cbn [shape_prod filter zprod] in *; [f_equal; lia|].
  inversion Hs as [|? ? Hs0 Hr]; subst.
  destruct (s =? 0) eqn:E; cbn [negb] in *; [apply IH; assumption|].
  cbn [zprod] in Hb.
  assert (Hz : 1 <= zprod (filter (fun s0 => negb (s0 =? 0)) r)).
  { apply zprod_pos1. apply Forall_forall. intros x Hx. apply filter_In in Hx. destruct Hx as [Hx Hn].
    rewrite Forall_forall in Hr. specialize (Hr x Hx). lia. }
  unfold chk, in_i64, I64_MIN, I64_MAX in *.
  replace ((-9223372036854775808 <=? p * s) && (p * s <=? 9223372036854775807)) with true by nia.
  cbn [rbind]. rewrite IH; [f_equal; cbn [zprod]; ring | assumption | nia | rewrite <- Z.mul_assoc; exact Hb].
Qed.

Lemma filter_nz_pos : forall l, Forall (fun x => 0 < x) l -> filter (fun s => negb (s =? 0)) l = l.
Proof.
  induction l as [|x l IH]; intros H; [reflexivity|]. inversion H; subst. cbn [filter].
  replace (x =? 0) with false by lia. cbn [negb]. f_equal. now apply IH.
Qed.

Lemma filter_nz_shape : forall shape, Forall (fun x => 0 <= x) shape -> Forall (fun x => 0 < x) (eff shape) ->
  filter (fun s => negb (s =? 0)) shape = eff shape.
Proof.
  intros [|s0 r] Hnn He; [reflexivity|]. unfold eff, shape_isrec in *. cbn [filter].
  destruct (s0 =? 0) eqn:E; cbn [negb tl] in *.
  - now apply filter_nz_pos.
  - f_equal. inversion He; subst. now apply filter_nz_pos.
Qed.

Lemma In_last_eff : forall x l y, In y (eff (x :: l ++ [y])).
Proof.
  intros x l y. unfold eff, shape_isrec. destruct (x =? 0); cbn [tl].
  - apply in_or_app. right. now left.
  - right. apply in_or_app. right. now left.
Qed.

Lemma var_product_ok : forall shape, Forall (fun x => 0 <= x) shape -> Forall (fun x => 0 < x) (eff shape) ->
  zprod (eff shape) <= I64_MAX -> var_product shape = Ok (zprod (eff shape)).
Proof.
  intros shape Hnn He Hb. unfold var_product.
  pose proof (filter_nz_shape shape Hnn He) as Hf.
  destruct (rev shape) as [|sl r] eqn:Er.
  - assert (shape = []) by (apply (f_equal (@rev Z)) in Er; now rewrite rev_involutive in Er). subst. reflexivity.
  - assert (Hs : shape = rev r ++ [sl]) by (apply (f_equal (@rev Z)) in Er; now rewrite rev_involutive in Er).
    destruct r as [|s2 r'].
    + cbn in Hs. subst shape. unfold eff, shape_isrec in *. destruct (sl =? 0) eqn:E; cbn [tl zprod]; f_equal; lia.
    + (* at least two dimensions: the last one is not the first *)
      assert (Hrev : rev (eff shape) = filter (fun s => negb (s =? 0)) (sl :: s2 :: r')).
      { rewrite <- Hf, <- Er. clear. induction shape as [|x l IH]; [reflexivity|].
        cbn [filter rev]. rewrite filter_app, <- IH. cbn [filter]. destruct (negb (x =? 0)); cbn [rev]; [reflexivity | now rewrite app_nil_r]. }
      assert (Hsl : 0 < sl).
      { assert (Hin : In sl (eff shape)).
        { subst shape. cbn [rev]. destruct (rev r') as [|h t].
          - change (([] ++ [s2]) ++ [sl]) with (s2 :: [] ++ [sl]). apply In_last_eff.
          - change (((h :: t) ++ [s2]) ++ [sl]) with (h :: (t ++ [s2]) ++ [sl]). apply In_last_eff. }
        rewrite Forall_forall in He. now apply He. }
      cbn [filter] in Hrev. replace (sl =? 0) with false in Hrev by lia. cbn [negb] in Hrev.
      assert (Hz : zprod (eff shape) = sl * zprod (filter (fun s => negb (s =? 0)) (s2 :: r'))).
      { rewrite <- zprod_rev, Hrev. reflexivity. }
      rewrite Hz in *. apply shape_prod_ok; [|assumption|assumption].
      apply Forall_forall. intros x Hx. rewrite Forall_forall in Hnn. apply Hnn. rewrite Hs.
      apply in_or_app. left. apply -> in_rev. exact Hx.
Qed.

Lemma zsum_nonneg : forall l, Forall (fun x => 0 <= x) l -> 0 <= zsum l.
Proof. induction l as [|x l IH]; intros H; cbn [zsum]; [lia|]. inversion H; subst. specialize (IH H3). lia. Qed.

Lemma zip_fst_snd : forall A B (l : list (A * B)), zip (map fst l) (map snd l) = l.
Proof. induction l as [|[a b] l IH]; [reflexivity|]. cbn [map zip fst snd]. now rewrite IH. Qed.

Section Post.
Variable dims : list dim.
Hypothesis Hdims : Forall (fun d => 0 <= d_size d) dims.

Definition Lv (v : var) : Z := var_len dims v.
Definition isr (v : var) : bool := is_recvar dims v.
Definition rawv (v : var) : Z := zprod (eff (var_shape dims v)) * xlen_type (v_type v).

Definition pvQ (v : var) : Prop :=
  unlimpos_bad (var_shape dims v) = false /\
  1 <= xlen_type (v_type v) <= 8 /\
  check_vlen (xlen_type (v_type v)) (var_shape dims v) (I64_MAX - 3) = true /\
  0 <= v_begin v /\ v_begin v + var_len dims v <= I64_MAX.

Lemma isr_shape : forall v, shape_isrec (var_shape dims v) = isr v.
Proof. reflexivity. Qed.

Lemma pvQ_facts : forall v, pvQ v ->
  Forall (fun x => 0 <= x) (var_shape dims v) /\ Forall (fun x => 0 < x) (eff (var_shape dims v)) /\
  0 <= rawv v <= I64_MAX - 3 /\ 0 <= Lv v <= I64_MAX /\
  Lv v = (if rawv v mod 4 >? 0 then rawv v + (4 - rawv v mod 4) else rawv v).
Proof.
  intros v (Hu & Hx & Hc & Hb0 & Hb1).
  pose proof (var_shape_nonneg dims v Hdims) as Hnn.
  pose proof (eff_pos _ Hnn Hu) as He.
  rewrite check_vlen_eff in Hc.
  pose proof (check_vlen_loop_bound (eff (var_shape dims v)) (xlen_type (v_type v)) (I64_MAX - 3) He ltac:(lia) ltac:(unfold I64_MAX; lia) Hc) as Hb.
  pose proof (zprod_pos1 _ He) as Hz.
  assert (Hraw : 0 <= rawv v <= I64_MAX - 3) by (unfold rawv; nia).
  assert (HL : Lv v = (if rawv v mod 4 >? 0 then rawv v + (4 - rawv v mod 4) else rawv v)).
  { unfold Lv, var_len, var_len_of, rawv. rewrite nelems_eff. reflexivity. }
  repeat split; try assumption; try lia.
  - rewrite HL. destruct (rawv v mod 4 >? 0); lia.
  - rewrite HL. unfold I64_MAX in *. destruct (rawv v mod 4 >? 0) eqn:E; lia.
Qed.

Lemma var_shape64_ok : forall v, pvQ v ->
  var_shape64 dims v true = Ok (var_shape dims v, Lv v, rawv v).
Proof.
  intros v Hq. pose proof (pvQ_facts v Hq) as (Hnn & He & Hraw & HL & HLe).
  destruct Hq as (Hu & Hx & Hc & Hb0 & Hb1).
  unfold var_shape64. cbn [negb andb]. rewrite Hu.
  rewrite (var_product_ok _ Hnn He) by (pose proof (zprod_pos1 _ He); unfold rawv in Hraw; nia).
  cbn [rbind]. unfold cvlen. fold (eff (var_shape dims v)).
  rewrite cvlen_loop_eq by (try assumption; unfold I64_MAX; lia).
  rewrite <- check_vlen_eff, Hc. cbn [rbind negb].
  fold (rawv v). unfold chk, in_i64, I64_MIN, I64_MAX in *.
  replace ((-9223372036854775808 <=? rawv v) && (rawv v <=? 9223372036854775807)) with true by lia.
  cbn [rbind]. rewrite Z.rem_mod_nonneg by lia. rewrite HLe.
  destruct (rawv v mod 4 >? 0) eqn:E.
  - replace ((-9223372036854775808 <=? rawv v + (4 - rawv v mod 4)) && (rawv v + (4 - rawv v mod 4) <=? 9223372036854775807)) with true by lia.
    reflexivity.
  - reflexivity.
Qed.

Definition brF (vs : list var) (br : Z) : Z :=
  fold_left (fun b v => if isr v then b else v_begin v + Lv v) vs br.
Definition rsF (vs : list var) (rs : Z) : Z :=
  fold_left (fun r v => if isr v then r + Lv v else r) vs rs.
Definition fvF (vs : list var) (fv : option Z) : option Z :=
  fold_left (fun o v => if isr v then o else match o with None => Some (v_begin v) | Some _ => o end) vs fv.
Definition frF (vs : list var) (fr : option (Z * Z * Z)) : option (Z * Z * Z) :=
  fold_left (fun o v => if isr v then match o with None => Some (v_begin v, Lv v, rawv v) | Some _ => o end else o) vs fr.

Lemma cvs_loop_spec : forall vs br rs fv fr lens,
  Forall pvQ vs -> 0 <= rs -> rs + zsum (map Lv (filter isr vs)) <= I64_MAX ->
  cvs_loop dims (map (fun v => (v, true)) vs) br rs fv fr lens =
  Ok (brF vs br, rsF vs rs, fvF vs fv, frF vs fr, rev lens ++ map Lv vs).
Proof.
  induction vs as [|v vs IH]; intros br rs fv fr lens HQ Hrs Hsum.
  - cbn. now rewrite app_nil_r.
  - inversion HQ as [|? ? Hv Hvs]; subst. cbn [map cvs_loop].
    rewrite (var_shape64_ok v Hv). cbn [rbind]. rewrite isr_shape.
    pose proof (pvQ_facts v Hv) as (_ & _ & _ & HL & _).
    destruct Hv as (_ & _ & _ & Hb0 & Hb1).
    assert (Hz : 0 <= zsum (map Lv (filter isr vs))).
    { apply zsum_nonneg. apply Forall_forall. intros x Hx. apply in_map_iff in Hx.
      destruct Hx as [w [<- Hw]]. apply filter_In in Hw. destruct Hw as [Hw _].
      rewrite Forall_forall in Hvs. pose proof (pvQ_facts w (Hvs w Hw)). tauto. }
    cbn [filter] in Hsum. unfold brF, rsF, fvF, frF. cbn [fold_left].
    destruct (isr v) eqn:Ei.
    + cbn [map zsum] in Hsum. fold (Lv v) in *. unfold chk, in_i64, I64_MIN, I64_MAX in *.
      replace ((-9223372036854775808 <=? rs + Lv v) && (rs + Lv v <=? 9223372036854775807)) with true by lia.
      cbn [rbind]. rewrite IH by (try assumption; lia).
      unfold brF, rsF, fvF, frF. cbn [rev]. rewrite <- app_assoc. destruct fr; reflexivity.
    + fold (Lv v) in *. unfold chk, in_i64, I64_MIN, I64_MAX in *.
      replace ((-9223372036854775808 <=? v_begin v + Lv v) && (v_begin v + Lv v <=? 9223372036854775807)) with true by lia.
      cbn [rbind]. rewrite IH by (try assumption; lia).
      unfold brF, rsF, fvF, frF. cbn [rev]. rewrite <- app_assoc. destruct fv; reflexivity.
Qed.
End Post.

Lemma zip_map2 : forall A B C (f : A -> B) (g : A -> C) l, zip (map f l) (map g l) = map (fun x => (f x, g x)) l.
Proof. induction l as [|x l IH]; [reflexivity|]. cbn [map zip]. now rewrite IH. Qed.

Lemma last_opt_snoc : forall A (l : list A) x, last_opt (l ++ [x]) = Some x.
Proof. intros. unfold last_opt. now rewrite rev_unit. Qed.

Lemma filter_ext_eq : forall A (f g : A -> bool) l, (forall x, f x = g x) -> filter f l = filter g l.
Proof. intros A f g l H. induction l as [|x l IH]; [reflexivity|]. cbn [filter]. now rewrite H, IH. Qed.

Section Post2.
Variable dims : list dim.
Hypothesis Hdims : Forall (fun d => 0 <= d_size d) dims.
Notation Lv := (Lv dims).
Notation isr := (isr dims).
Notation rawv := (rawv dims).
Notation pvQ := (pvQ dims).
Notation brF := (brF dims).
Notation rsF := (rsF dims).
Notation fvF := (fvF dims).
Notation frF := (frF dims).

Definition nonrec (v : var) : bool := negb (isr v).
Definition bl (v : var) : Z * Z := (v_begin v, Lv v).

Lemma brF_last : forall vs br,
  brF vs br = match last_opt (filter nonrec vs) with Some v => v_begin v + Lv v | None => br end.
Proof.
  intros vs br. induction vs as [|v vs IH] using rev_ind; [reflexivity|].
  unfold Proofs_Reader.brF in *. rewrite fold_left_app. cbn [fold_left].
  rewrite filter_app. cbn [filter]. unfold nonrec at 2. destruct (isr v) eqn:E; cbn [negb].
  - rewrite app_nil_r. exact IH.
  - now rewrite last_opt_snoc.
Qed.

Lemma rsF_sum : forall vs rs, rsF vs rs = rs + zsum (map Lv (filter isr vs)).
Proof.
  induction vs as [|v vs IH]; intros rs; unfold Proofs_Reader.rsF in *; cbn [fold_left filter]; [cbn; lia|].
  rewrite IH. destruct (isr v); cbn [map zsum]; lia.
Qed.

Lemma fvF_some : forall vs x, fvF vs (Some x) = Some x.
Proof.
  induction vs as [|v vs IH]; intros x; unfold Proofs_Reader.fvF in *; cbn [fold_left]; [reflexivity|].
  destruct (isr v); apply IH.
Qed.

Lemma fvF_hd : forall vs, fvF vs None = match filter nonrec vs with fv :: _ => Some (v_begin fv) | [] => None end.
Proof.
  induction vs as [|v vs IH]; [reflexivity|]. unfold Proofs_Reader.fvF in *. cbn [fold_left filter].
  unfold nonrec at 1. destruct (isr v); cbn [negb]; [exact IH | apply fvF_some].
Qed.

Lemma frF_some : forall vs x, frF vs (Some x) = Some x.
Proof.
  induction vs as [|v vs IH]; intros x; unfold Proofs_Reader.frF in *; cbn [fold_left]; [reflexivity|].
  destruct (isr v); apply IH.
Qed.

Lemma frF_hd : forall vs, frF vs None = match filter isr vs with fr :: _ => Some (v_begin fr, Lv fr, rawv fr) | [] => None end.
Proof.
  induction vs as [|v vs IH]; [reflexivity|]. unfold Proofs_Reader.frF in *. cbn [fold_left filter].
  destruct (isr v); [apply frF_some | exact IH].
Qed.

(* ordering facts *)
Lemma order_brF : forall vs p e, order_ok p (map bl (filter nonrec vs)) = Some e -> brF vs p = e.
Proof.
  induction vs as [|v vs IH]; intros p e H; unfold Proofs_Reader.brF in *; cbn [fold_left filter] in *.
  - cbn in H. now inversion H.
  - unfold nonrec at 1 in H. destruct (isr v); cbn [negb] in H; [now apply IH|].
    cbn [map order_ok bl] in H. unfold bl at 1 in H. destruct (v_begin v <? p); [discriminate|]. now apply IH.
Qed.

Lemma order_ok_ge : forall l p e, Forall (fun q => 0 <= snd q) l -> order_ok p l = Some e -> p <= e.
Proof.
  induction l as [|[b len] l IH]; intros p e Hl H; cbn [order_ok] in H; [inversion H; lia|].
  inversion Hl as [|? ? H0 Hr]; subst. cbn [snd] in H0.
  destruct (b <? p) eqn:E; [discriminate|]. specialize (IH _ _ Hr H). lia.
Qed.

Lemma order_ok_first : forall b len r p e, order_ok p ((b, len) :: r) = Some e ->
  p <= b /\ order_ok b ((b, len) :: r) = Some e.
Proof.
  intros b len r p e H. cbn [order_ok] in *. destruct (b <? p) eqn:E; [discriminate|].
  split; [lia|]. replace (b <? b) with false by lia. exact H.
Qed.

Lemma voffs_pass_ok : forall vs want prev,
  Forall (fun v => 0 <= v_begin v /\ 0 <= Lv v /\ v_begin v + Lv v <= I64_MAX) vs ->
  voffs_pass (map (fun v => (isr v, v_begin v, Lv v)) vs) want prev =
  Ok (order_ok prev (map bl (filter (fun v => Bool.eqb (isr v) want) vs))).
Proof.
  induction vs as [|v vs IH]; intros want prev H; [reflexivity|].
  inversion H as [|? ? (H0 & H1 & H2) Hr]; subst. cbn [map voffs_pass filter].
  destruct (Bool.eqb (isr v) want); [|now apply IH].
  cbn [map order_ok]. unfold bl at 1. destruct (v_begin v <? prev); [reflexivity|].
  unfold chk, in_i64, I64_MIN, I64_MAX in *.
  replace ((-9223372036854775808 <=? v_begin v + Lv v) && (v_begin v + Lv v <=? 9223372036854775807)) with true by lia.
  cbn [rbind]. now apply IH.
Qed.

Lemma filter_eqb_false : forall vs, filter (fun v => Bool.eqb (isr v) false) vs = filter nonrec vs.
Proof. intros. apply filter_ext_eq. intros x. unfold nonrec. destruct (isr x); reflexivity. Qed.
Lemma filter_eqb_true : forall vs, filter (fun v => Bool.eqb (isr v) true) vs = filter isr vs.
Proof. intros. apply filter_ext_eq. intros x. destruct (isr x); reflexivity. Qed.

(* size rules: the faithful version returns what Header.check_vlens computes *)
Lemma cvlen_ok : forall v vmax, pvQ v -> 0 <= vmax <= I64_MAX ->
  cvlen (xlen_type (v_type v)) (var_shape dims v) vmax
  = Ok (check_vlen (xlen_type (v_type v)) (var_shape dims v) vmax).
Proof.
  intros v vmax Hq Hv. pose proof (pvQ_facts dims Hdims v Hq) as (Hnn & He & _).
  destruct Hq as (_ & Hx & _). unfold cvlen. fold (eff (var_shape dims v)).
  rewrite check_vlen_eff. apply cvlen_loop_eq; [assumption | lia | assumption].
Qed.

Definition drop3 (o : option (Z * bool * Z)) : option (Z * bool) :=
  match o with Some (c, l, _) => Some (c, l) | None => None end.

Lemma rvl_pass_ok : forall fmt vmax want vs cnt last nsel, Forall pvQ vs -> 0 <= vmax <= I64_MAX ->
  rvl_pass fmt vmax (map (fun v => (xlen_type (v_type v), var_shape dims v)) vs) want cnt last
  = Ok (drop3 (vlens_pass fmt vmax (map (var_triple dims) vs) want cnt last nsel)).
Proof.
  intros fmt vmax want. induction vs as [|v vs IH]; intros cnt last nsel HQ Hv; [reflexivity|].
  inversion HQ as [|? ? Hq Hr]; subst. cbn [map rvl_pass vlens_pass]. unfold var_triple at 1.
  change (shape_isrec (var_shape dims v)) with (is_recvar dims v).
  destruct (Bool.eqb (is_recvar dims v) want); [|now apply IH].
  rewrite (cvlen_ok v vmax Hq Hv). cbn [rbind].
  destruct (check_vlen (xlen_type (v_type v)) (var_shape dims v) vmax); [now apply IH|].
  destruct (fmt >=? 5); [reflexivity | now apply IH].
Qed.

Lemma vlen_max_range : forall fmt, 0 <= vlen_max_of fmt <= I64_MAX.
Proof.
  intros fmt. unfold vlen_max_of, NC_MAX_INT64, NC_MAX_UINT, NC_MAX_INT, I64_MAX.
  destruct (fmt >=? 5); [lia|]. destruct (fmt =? 2); lia.
Qed.

Lemma rd_check_vlens_ok : forall fmt gatts nr vs, Forall pvQ vs ->
  rd_check_vlens fmt (map (fun v => (xlen_type (v_type v), var_shape dims v)) vs)
  = Ok (check_vlens (mkhdr fmt nr dims gatts vs)).
Proof.
  intros fmt gatts nr vs HQ. unfold rd_check_vlens, check_vlens. cbn [h_format h_dims h_vars].
  destruct vs as [|v0 vs0] eqn:Evs; [reflexivity|]. rewrite <- Evs in *. 
  assert (Hne : map (fun v => (xlen_type (v_type v), var_shape dims v)) vs <> []) by (rewrite Evs; discriminate).
  assert (Hne2 : map (var_triple dims) vs <> []) by (rewrite Evs; discriminate).
  destruct (map (fun v => (xlen_type (v_type v), var_shape dims v)) vs) as [|x xs] eqn:E1; [congruence|]. rewrite <- E1.
  destruct (map (var_triple dims) vs) as [|y ys] eqn:E2; [congruence|]. rewrite <- E2.
  rewrite (rvl_pass_ok fmt _ false vs 0 false 0 HQ (vlen_max_range fmt)). cbn [rbind].
  destruct (vlens_pass fmt (vlen_max_of fmt) (map (var_triple dims) vs) false 0 false 0) as [[[lf lastf] n1]|]; cbn [drop3]; [|reflexivity].
  destruct (lf >? 1); [reflexivity|]. destruct ((lf =? 1) && negb lastf); [reflexivity|].
  assert (Hcnt : Zlen (filter (fun t : Z * list Z => shape_isrec (snd t)) (map (fun v => (xlen_type (v_type v), var_shape dims v)) vs))
               = Zlen (filter (fun t : bool * Z * list Z => fst (fst t)) (map (var_triple dims) vs))).
  { clear. induction vs as [|v vs IH]; [reflexivity|]. cbn [map filter fst snd]. unfold var_triple at 1. cbn [fst snd].
    change (shape_isrec (var_shape dims v)) with (is_recvar dims v).
    destruct (is_recvar dims v); [rewrite !Zlen_cons; now rewrite IH | exact IH]. }
  rewrite Hcnt.
  destruct (Zlen (filter (fun t : bool * Z * list Z => fst (fst t)) (map (var_triple dims) vs)) =? 0); [reflexivity|].
  destruct (lf =? 1); [reflexivity|].
  rewrite (rvl_pass_ok fmt _ true vs 0 false 0 HQ (vlen_max_range fmt)). cbn [rbind].
  destruct (vlens_pass fmt (vlen_max_of fmt) (map (var_triple dims) vs) true 0 false 0) as [[[lr lastr] n2]|]; cbn [drop3]; [|reflexivity].
  destruct (lr >? 1); [reflexivity|]. destruct ((lr =? 1) && negb lastr); reflexivity.
Qed.
End Post2.

Lemma filter_both_nil : forall A (f : A -> bool) l, filter f l = [] -> filter (fun x => negb (f x)) l = [] -> l = [].
Proof.
  intros A f [|x l] H1 H2; [reflexivity|]. cbn [filter] in *. destruct (f x); cbn [negb] in *; discriminate.
Qed.

Lemma filter_partition_len : forall A (f : A -> bool) l,
  Zlen (filter f l) + Zlen (filter (fun x => negb (f x)) l) = Zlen l.
Proof.
  induction l as [|x l IH]; [reflexivity|]. cbn [filter]. destruct (f x); cbn [negb]; rewrite !Zlen_cons; lia.
Qed.

Section Post3.
Variable dims : list dim.
Hypothesis Hdims : Forall (fun d => 0 <= d_size d) dims.
Notation Lv := (Lv dims).
Notation isr := (isr dims).
Notation rawv := (rawv dims).
Notation pvQ := (pvQ dims).
Notation nonrec := (nonrec dims).
Notation bl := (bl dims).

Definition layQ (xsz : Z) (vs : list var) : Prop :=
  Forall pvQ vs /\ zsum (map Lv (filter isr vs)) <= I64_MAX /\ 0 < xsz <= I64_MAX /\
  exists ef, order_ok xsz (map bl (filter nonrec vs)) = Some ef /\
    (filter isr vs = [] \/ exists er, order_ok ef (map bl (filter isr vs)) = Some er).

Lemma bl_nonneg : forall vs, Forall pvQ vs -> forall f, Forall (fun q => 0 <= snd q) (map bl (filter f vs)).
Proof.
  intros vs HQ f. apply Forall_forall. intros q Hq. apply in_map_iff in Hq. destruct Hq as [v [<- Hv]].
  apply filter_In in Hv. destruct Hv as [Hv _]. rewrite Forall_forall in HQ.
  pose proof (pvQ_facts dims Hdims v (HQ v Hv)). cbn [bl snd]. unfold Proofs_Reader.bl. cbn [snd]. tauto.
Qed.

Lemma post_open_ok : forall fmt nr gatts vs,
  let h := mkhdr fmt nr dims gatts vs in
  layQ (hdr_len h) vs -> check_vlens h = NC_NOERR ->
  post_open h (map (fun _ => true) vs) =
  Ok (mkopened h (layout_of_hdr h (hdr_len h)) (map (var_len dims) vs) (Zlen (filter (is_recvar dims) vs))).
Proof.
  intros fmt nr gatts vs h (HQ & Hsum & Hx & ef & Hof & Hor) Hvl.
  set (xsz := hdr_len h) in *.
  unfold post_open. fold xsz. unfold chk, in_i64, I64_MIN, I64_MAX in *.
  replace ((-9223372036854775808 <=? xsz) && (xsz <=? 9223372036854775807)) with true by lia.
  cbn [rbind]. subst h. cbn [h_dims h_vars h_format].
  replace (zip vs (map (fun _ : var => true) vs)) with (map (fun v => (v, true)) vs)
    by (rewrite <- (map_id vs) at 2; now rewrite zip_map2).
  rewrite zip_map2.
  replace (map shape_isrec (map (var_shape dims) vs)) with (map isr vs) by (now rewrite map_map).
  destruct vs as [|v0 vs0] eqn:Evs.
  { cbn. reflexivity. }
  rewrite <- Evs in *. assert (Hne : vs <> []) by (rewrite Evs; discriminate).
  (* compute_var_shape *)
  unfold compute_var_shape.
  destruct (map (fun v => (v, true)) vs) as [|p0 ps] eqn:Emap; [rewrite Evs in Emap; discriminate|]. rewrite <- Emap.
  rewrite (cvs_loop_spec dims Hdims vs xsz 0 None None [] HQ ltac:(lia) ltac:(unfold I64_MAX; lia)).
  cbn [rbind app rev].
  rewrite (order_brF dims vs xsz ef Hof), rsF_sum, fvF_hd, frF_hd.
  pose proof (bl_nonneg vs HQ) as Hbn.
  pose proof (order_ok_ge _ _ _ (Hbn nonrec) Hof) as Hxe.
  assert (Hlay : exists bv br rs,
     (match (match filter isr vs with fr :: _ => Some (v_begin fr, Lv fr, rawv fr) | [] => None end) with
      | Some (fb, fl, fraw) => if ef >? fb then Err NC_ENOTNC
                               else Ok (fb, if 0 + zsum (map Lv (filter isr vs)) =? fl then fraw else 0 + zsum (map Lv (filter isr vs)))
      | None => Ok (ef, 0 + zsum (map Lv (filter isr vs)))
      end) = Ok (br, rs) /\
     bv = (match (match filter nonrec vs with fv :: _ => Some (v_begin fv) | [] => None end) with Some b => b | None => br end) /\
     layout_of_hdr (mkhdr fmt nr dims gatts vs) xsz = mklayout xsz bv br rs (map v_begin vs) /\
     xsz <= bv <= br /\
     (filter nonrec vs <> [] -> order_ok bv (map bl (filter nonrec vs)) = Some ef) /\ ef <= br /\
     (filter isr vs <> [] -> exists er, order_ok br (map bl (filter isr vs)) = Some er)).
  { unfold layout_of_hdr. cbn [h_dims h_vars].
    change (filter (fun v => negb (is_recvar dims v)) vs) with (filter nonrec vs).
    change (filter (is_recvar dims) vs) with (filter isr vs).
    change (map (var_len dims) (filter isr vs)) with (map Lv (filter isr vs)).
    pose proof (brF_last dims vs xsz) as Hbl. unfold Proofs_Reader.Lv in Hbl. rewrite <- Hbl, (order_brF dims vs xsz ef Hof). clear Hbl.
    pose proof (Hbn nonrec) as Hbf. pose proof (Hbn isr) as Hbr.
    destruct (filter isr vs) as [|fr frs] eqn:Er.
    - (* no record variable *)
      destruct (filter nonrec vs) as [|fv fvs] eqn:Ef.
      { exfalso. apply Hne. eapply filter_both_nil; [exact Er | exact Ef]. }
      destruct (order_ok_first _ _ _ _ _ Hof) as [Hb Hof'].
      pose proof (order_ok_ge _ _ _ Hbf Hof') as Hbe.
      exists (v_begin fv), ef, 0. cbn [map zsum].
      repeat split; try lia; try reflexivity.
      + destruct vs; [congruence | reflexivity].
      + intros _. exact Hof'.
      + intros Hc. congruence.
    - destruct Hor as [Hc | [er Her]]; [discriminate|].
      destruct (order_ok_first _ _ _ _ _ Her) as [Hb Her'].
      replace (ef >? v_begin fr) with false by lia.
      set (rs0 := 0 + zsum (map Lv (fr :: frs))).
      assert (Hrs : (if zsum (map Lv (fr :: frs)) =? var_len dims fr
                     then var_nelems_per_rec (var_shape dims fr) * xlen_type (v_type fr)
                     else zsum (map Lv (fr :: frs))) = (if rs0 =? Lv fr then rawv fr else rs0)).
      { unfold rs0. replace (0 + zsum (map Lv (fr :: frs))) with (zsum (map Lv (fr :: frs))) by lia.
        unfold Proofs_Reader.rawv. rewrite nelems_eff. reflexivity. }
      destruct (filter nonrec vs) as [|fv fvs] eqn:Ef.
      + cbn in Hof. inversion Hof; subst ef.
        exists (v_begin fr), (v_begin fr), (if rs0 =? Lv fr then rawv fr else rs0).
        rewrite Hrs. repeat split; try lia; try reflexivity.
        * destruct vs; [congruence | reflexivity].
        * intros Hc; congruence.
        * intros _. exists er. exact Her'.
      + destruct (order_ok_first _ _ _ _ _ Hof) as [Hb2 Hof'].
        pose proof (order_ok_ge _ _ _ Hbf Hof') as Hbe.
        exists (v_begin fv), (v_begin fr), (if rs0 =? Lv fr then rawv fr else rs0).
        rewrite Hrs. repeat split; try lia; try reflexivity.
        * destruct vs; [congruence | reflexivity].
        * intros _. exact Hof'.
        * intros _. exists er. exact Her'. }
  destruct Hlay as (bv & br & rs & E1 & Ebv & Elay & Hrange & Hfix & Hefbr & Hrec).
  rewrite E1. cbn [rbind]. rewrite <- Ebv.
  replace ((bv <=? 0) || (xsz >? bv) || (br <=? 0) || (bv >? br)) with false by lia.
  cbn [rbind].
  (* check_vlens *)
  rewrite (rd_check_vlens_ok dims Hdims fmt gatts nr vs HQ). rewrite Hvl. cbn [rbind]. change (NC_NOERR =? NC_NOERR) with true. cbn [negb].
  (* check_voffs *)
  rewrite zip_map2. rewrite zip_map2.
  change (fun x : var => (isr x, v_begin x, var_len dims x)) with (fun v : var => (isr v, v_begin v, Lv v)).
  assert (Hvo : rd_check_voffs bv br (map (fun v : var => (isr v, v_begin v, Lv v)) vs) = Ok NC_NOERR).
  { unfold rd_check_voffs.
    destruct (map (fun v : var => (isr v, v_begin v, Lv v)) vs) as [|t0 ts] eqn:Em; [rewrite Evs in Em; discriminate|]. rewrite <- Em.
    assert (Hnr : Zlen (filter (fun t : bool * Z * Z => fst (fst t)) (map (fun v : var => (isr v, v_begin v, Lv v)) vs)) = Zlen (filter isr vs)).
    { clear. induction vs as [|v vs IH]; [reflexivity|]. cbn [map filter fst]. destruct (isr v); [rewrite !Zlen_cons; now rewrite IH | exact IH]. }
    rewrite Hnr, Zlen_map.
    pose proof (filter_partition_len _ isr vs) as Hpart. change (filter (fun x => negb (isr x)) vs) with (filter nonrec vs) in Hpart.
    assert (Hbounds : Forall (fun v => 0 <= v_begin v /\ 0 <= Lv v /\ v_begin v + Lv v <= I64_MAX) vs).
    { apply Forall_forall. intros v Hv. rewrite Forall_forall in HQ. pose proof (pvQ_facts dims Hdims v (HQ v Hv)) as (_ & _ & _ & HL & _).
      destruct (HQ v Hv) as (_ & _ & _ & Hb0 & Hb1). unfold Proofs_Reader.Lv in *. lia. }
    assert (E0 : (if Zlen vs - Zlen (filter isr vs) =? 0 then Ok NC_NOERR
                  else rbind (voffs_pass (map (fun v : var => (isr v, v_begin v, Lv v)) vs) false bv)
                         (fun o => match o with None => Ok NC_ENOTNC | Some e => if br <? e then Ok NC_ENOTNC else Ok NC_NOERR end))
                 = Ok NC_NOERR).
    { destruct (Zlen vs - Zlen (filter isr vs) =? 0) eqn:En; [reflexivity|].
      rewrite (voffs_pass_ok dims vs false bv Hbounds), filter_eqb_false. cbn [rbind].
      rewrite Hfix; [replace (br <? ef) with false by lia; reflexivity|].
      intros Hc. rewrite Hc, Zlen_nil in Hpart. lia. }
    rewrite E0. cbn [rbind]. change (NC_NOERR =? NC_NOERR) with true. cbn [negb].
    destruct (Zlen (filter isr vs) =? 0) eqn:En; [reflexivity|].
    rewrite (voffs_pass_ok dims vs true br Hbounds), filter_eqb_true. cbn [rbind].
    destruct Hrec as [er Her]; [intros Hc; rewrite Hc, Zlen_nil in En; discriminate|].
    rewrite Her. reflexivity. }
  rewrite Hvo. cbn [rbind]. change (NC_NOERR =? NC_NOERR) with true. cbn [negb].
  rewrite Elay.
  replace (filter shape_isrec (map (var_shape dims) vs)) with (map (var_shape dims) (filter isr vs)).
  - rewrite Zlen_map. reflexivity.
  - clear. induction vs as [|v vs IH]; [reflexivity|]. cbn [map filter]. change (shape_isrec (var_shape dims v)) with (isr v).
    destruct (isr v); cbn [map]; now rewrite IH.
Qed.
End Post3.

(* ------------------------------------------------------------------ *)
(** ** inversion of HeaderSpec.decode *)
Ltac dsc H := let H' := fresh in pose proof H as H'; cbv beta iota delta [decode] in H'; discriminate H'.

Lemma decode_inv : forall f d, decode f = Some d ->
  exists ver r nr r1 dims r2 gatts r3 vars r4,
    f = 67 :: 68 :: 70 :: ver :: r /\ (ver = 1 \/ ver = 2 \/ ver = 5) /\
    p_nn ver r = Some (nr, r1) /\
    p_list ver 10 (p_dim ver) r1 = Some (dims, r2) /\
    p_list ver 12 (p_att ver) r2 = Some (gatts, r3) /\
    p_list ver 11 (p_var ver) r3 = Some (vars, r4) /\
    d = mkdec (mkhdr ver nr (map dd_dim dims) (map da_att gatts) (map dv_var vars)) dims gatts vars
              (Zlen f - Zlen r4).
Proof.
  intros f d H.
  destruct f as [|b0 f]; [dsc H|].
  destruct b0 as [|p|p]; try dsc H.
  do 7 (destruct p as [p|p|]; try dsc H).
  destruct f as [|b1 f]; [dsc H|].
  destruct b1 as [|p|p]; try dsc H.
  do 7 (destruct p as [p|p|]; try dsc H).
  destruct f as [|b2 f]; [dsc H|].
  destruct b2 as [|p|p]; try dsc H.
  do 7 (destruct p as [p|p|]; try dsc H).
  destruct f as [|ver r]; [dsc H|].
  change (decode (67 :: 68 :: 70 :: ver :: r)) with
    (if negb ((ver =? 1) || (ver =? 2) || (ver =? 5)) then None else
      match p_nn ver r with
      | Some (numrecs, r1) =>
          match p_list ver 10 (p_dim ver) r1 with
          | Some (dims, r2) =>
              match p_list ver 12 (p_att ver) r2 with
              | Some (gatts, r3) =>
                  match p_list ver 11 (p_var ver) r3 with
                  | Some (vars, r4) =>
                      Some (mkdec (mkhdr ver numrecs (map dd_dim dims) (map da_att gatts) (map dv_var vars))
                                  dims gatts vars (Zlen (67 :: 68 :: 70 :: ver :: r) - Zlen r4))
                  | None => None
                  end
              | None => None
              end
          | None => None
          end
      | None => None
      end) in H.
  destruct (negb ((ver =? 1) || (ver =? 2) || (ver =? 5))) eqn:Ev; [discriminate|].
  destruct (p_nn ver r) as [[nr r1]|] eqn:E1; [|discriminate].
  destruct (p_list ver 10 (p_dim ver) r1) as [[dims r2]|] eqn:E2; [|discriminate].
  destruct (p_list ver 12 (p_att ver) r2) as [[gatts r3]|] eqn:E3; [|discriminate].
  destruct (p_list ver 11 (p_var ver) r3) as [[vars r4]|] eqn:E4; [|discriminate].
  inversion H; subst d. exists ver, r, nr, r1, dims, r2, gatts, r3, vars, r4.
  repeat split; try assumption; try reflexivity. lia.
Qed.

(* ------------------------------------------------------------------ *)
(** ** bytes consumed by the decoder = ncmpio_hdr_len_NC of the decoded header *)
Lemma len_u32 : forall l v r, p_u32 l = Some (v, r) -> Zlen l = 4 + Zlen r.
Proof.
  intros l v r H. unfold p_u32 in H. destruct l as [|a [|b [|c [|d r']]]]; try discriminate.
  cbn [get_u32] in H. inversion H; subst. rewrite !Zlen_cons. lia.
Qed.

Lemma len_u64 : forall l v r, p_u64 l = Some (v, r) -> Zlen l = 8 + Zlen r.
Proof.
  intros l v r H. unfold p_u64, get_u64 in H.
  destruct (get_u32 l) as [[hi r1]|] eqn:E1; [|discriminate].
  destruct (get_u32 r1) as [[lo r2]|] eqn:E2; [|discriminate]. inversion H; subst.
  pose proof (len_u32 _ _ _ E1). pose proof (len_u32 _ _ _ E2). lia.
Qed.

Lemma len_nn : forall fmt l v r, fmt = 1 \/ fmt = 2 \/ fmt = 5 -> p_nn fmt l = Some (v, r) ->
  Zlen l = sz_nn fmt + Zlen r.
Proof.
  intros fmt l v r Hf H. unfold p_nn, sz_nn in *.
  destruct Hf as [-> | [-> | ->]]; cbn [Z.ltb Z.compare Z.eqb Pos.compare Pos.compare_cont Pos.eqb] in *;
    first [now apply len_u32 in H | now apply len_u64 in H].
Qed.

Lemma len_bytes : forall n l b r, p_bytes n l = Some (b, r) -> Zlen l = n + Zlen r /\ Zlen b = n.
Proof.
  intros n l b r H. apply p_bytes_inv in H. destruct H as (Hn & -> & ->).
  split; [|apply Zlen_zfirstn_enough; lia].
  rewrite zskipn_nat. unfold Zlen in *. rewrite skipn_length. lia.
Qed.

Lemma len_padded : forall n l b pad r, p_padded n l = Some ((b, pad), r) ->
  Zlen l = rndup n 4 + Zlen r /\ Zlen b = n.
Proof.
  intros n l b pad r H. unfold p_padded in H.
  destruct (p_bytes n l) as [[b1 r1]|] eqn:E1; [|discriminate].
  destruct (p_bytes (padlen n) r1) as [[p1 r2]|] eqn:E2; [|discriminate]. inversion H; subst.
  destruct (len_bytes _ _ _ _ E1) as [H1 H2]. destruct (len_bytes _ _ _ _ E2) as [H3 _].
  rewrite rndup4_padlen. split; lia.
Qed.

Lemma len_name : forall fmt l nm pad r, fmt = 1 \/ fmt = 2 \/ fmt = 5 -> p_name fmt l = Some ((nm, pad), r) ->
  Zlen l = sz_nn fmt + rndup (Zlen nm) 4 + Zlen r.
Proof.
  intros fmt l nm pad r Hf H. unfold p_name in H.
  destruct (p_nn fmt l) as [[n r0]|] eqn:En; [|discriminate].
  pose proof (len_nn _ _ _ _ Hf En). destruct (len_padded _ _ _ _ _ H) as [H1 H2]. rewrite H2. lia.
Qed.

Lemma len_many : forall A (p : parser A) (len : A -> Z),
  (forall l x r, p l = Some (x, r) -> Zlen l = len x + Zlen r) ->
  forall k l xs r, p_many p k l = Some (xs, r) -> Zlen l = zsum (map len xs) + Zlen r.
Proof.
  intros A p len Hp. induction k as [|k IH]; intros l xs r H; cbn [p_many] in H.
  - inversion H; subst. cbn. lia.
  - destruct (p l) as [[x r1]|] eqn:Ex; [|discriminate].
    destruct (p_many p k r1) as [[xs' r']|] eqn:E; [|discriminate]. inversion H; subst.
    cbn [map zsum]. pose proof (Hp _ _ _ Ex). pose proof (IH _ _ _ E). lia.
Qed.

Lemma len_list : forall A fmt tag (p : parser A) (len : A -> Z), fmt = 1 \/ fmt = 2 \/ fmt = 5 ->
  (forall l x r, p l = Some (x, r) -> Zlen l = len x + Zlen r) ->
  forall l xs r, p_list fmt tag p l = Some (xs, r) -> Zlen l = 4 + sz_nn fmt + zsum (map len xs) + Zlen r.
Proof.
  intros A fmt tag p len Hf Hp l xs r H.
  destruct (p_list_inv _ _ _ _ _ _ _ H) as (t & n & r1 & r2 & Et & En & Hc).
  pose proof (len_u32 _ _ _ Et). pose proof (len_nn _ _ _ _ Hf En).
  destruct Hc as [(_ & _ & -> & ->) | (_ & _ & Hm)].
  - cbn. lia.
  - pose proof (len_many _ p len Hp _ _ _ _ Hm). lia.
Qed.

Lemma len_dim_dec : forall fmt l x r, fmt = 1 \/ fmt = 2 \/ fmt = 5 -> p_dim fmt l = Some (x, r) ->
  Zlen l = len_dim fmt (dd_dim x) + Zlen r.
Proof.
  intros fmt l x r Hf H. unfold p_dim in H.
  destruct (p_name fmt l) as [[[nm pad] r1]|] eqn:En; [|discriminate].
  destruct (p_nn fmt r1) as [[sz r2]|] eqn:Es; [|discriminate]. inversion H; subst.
  pose proof (len_name _ _ _ _ _ Hf En). pose proof (len_nn _ _ _ _ Hf Es).
  unfold len_dim. cbn [dd_dim d_name]. lia.
Qed.

Lemma len_att_dec : forall fmt l x r, fmt = 1 \/ fmt = 2 \/ fmt = 5 -> p_att fmt l = Some (x, r) ->
  Zlen l = len_att fmt (da_att x) + Zlen r.
Proof.
  intros fmt l x r Hf H. unfold p_att in H.
  destruct (p_name fmt l) as [[[nm pad] r1]|] eqn:En; [|discriminate].
  destruct (p_u32 r1) as [[t r2]|] eqn:Et; [|discriminate].
  destruct (negb (valid_type fmt t)); [discriminate|].
  destruct (p_nn fmt r2) as [[n r3]|] eqn:Enn; [|discriminate].
  destruct ((n <? 0) || (Zlen r3 <? n)); [discriminate|].
  destruct (p_padded (n * xlen_type t) r3) as [[[data pad2] r4]|] eqn:Ep; [|discriminate]. inversion H; subst.
  pose proof (len_name _ _ _ _ _ Hf En). pose proof (len_u32 _ _ _ Et). pose proof (len_nn _ _ _ _ Hf Enn).
  destruct (len_padded _ _ _ _ _ Ep) as [H4 _].
  unfold len_att. cbn [da_att a_name a_nelems a_type]. lia.
Qed.

Lemma len_attarray_dec : forall fmt l xs r, fmt = 1 \/ fmt = 2 \/ fmt = 5 ->
  p_list fmt 12 (p_att fmt) l = Some (xs, r) -> Zlen l = len_attarray fmt (map da_att xs) + Zlen r.
Proof.
  intros fmt l xs r Hf H.
  pose proof (len_list _ fmt 12 (p_att fmt) (fun x => len_att fmt (da_att x)) Hf
                (fun l x r => len_att_dec fmt l x r Hf) _ _ _ H) as Hl.
  unfold len_attarray. rewrite map_map. lia.
Qed.

Lemma len_var_dec : forall fmt l x r, fmt = 1 \/ fmt = 2 \/ fmt = 5 -> p_var fmt l = Some (x, r) ->
  Zlen l = len_var fmt (dv_var x) + Zlen r.
Proof.
  intros fmt l x r Hf H. unfold p_var in H.
  destruct (p_name fmt l) as [[[nm pad] r0]|] eqn:En; [|discriminate].
  destruct (p_nn fmt r0) as [[nd r1]|] eqn:End; [|discriminate].
  destruct (Zlen r1 <? nd); [discriminate|].
  destruct (p_many (p_nn fmt) (Z.to_nat nd) r1) as [[dimids r2]|] eqn:Edim; [|discriminate].
  destruct (p_list fmt 12 (p_att fmt) r2) as [[atts r3]|] eqn:Eatt; [|discriminate].
  destruct (p_u32 r3) as [[t r4]|] eqn:Et; [|discriminate].
  destruct (negb (valid_type fmt t)); [discriminate|].
  destruct (p_nn fmt r4) as [[vsize r5]|] eqn:Evs; [|discriminate].
  destruct (if fmt =? 1 then p_u32 r5 else p_u64 r5) as [[bg r6]|] eqn:Ebg; [|discriminate].
  inversion H; subst.
  pose proof (len_name _ _ _ _ _ Hf En). pose proof (len_nn _ _ _ _ Hf End).
  pose proof (len_many _ (p_nn fmt) (fun _ => sz_nn fmt) (fun l x r Hx => len_nn fmt l x r Hf Hx) _ _ _ _ Edim) as Hd.
  rewrite zsum_map_const in Hd.
  pose proof (len_attarray_dec _ _ _ _ Hf Eatt). pose proof (len_u32 _ _ _ Et). pose proof (len_nn _ _ _ _ Hf Evs).
  assert (Hb : Zlen r5 = sz_off fmt + Zlen r).
  { unfold sz_off. destruct Hf as [-> | [-> | ->]]; cbn [Z.eqb Pos.eqb] in *; first [now apply len_u32 in Ebg | now apply len_u64 in Ebg]. }
  unfold len_var. cbn [dv_var v_name v_dimids v_atts]. lia.
Qed.

Theorem decode_len : forall f d, decode f = Some d -> dc_len d = hdr_len (dc_hdr d).
Proof.
  intros f d H.
  destruct (decode_inv f d H) as (ver & r & nr & r1 & dims & r2 & gatts & r3 & vars & r4 &
                                   Hf & Hver & E1 & E2 & E3 & E4 & Hd).
  subst d. cbn [dc_len dc_hdr]. unfold hdr_len. cbn [h_format h_dims h_gatts h_vars].
  pose proof (len_nn _ _ _ _ Hver E1) as L1.
  pose proof (len_list _ ver 10 (p_dim ver) (fun x => len_dim ver (dd_dim x)) Hver
                (fun l x r => len_dim_dec ver l x r Hver) _ _ _ E2) as L2.
  pose proof (len_attarray_dec _ _ _ _ Hver E3) as L3.
  pose proof (len_list _ ver 11 (p_var ver) (fun x => len_var ver (dv_var x)) Hver
                (fun l x r => len_var_dec ver l x r Hver) _ _ _ E4) as L4.
  rewrite !map_map. subst f. rewrite !Zlen_cons. pose proof (Zlen_nonneg _ r4).
  unfold byte in *. lia.
Qed.

Lemma fold_max_le : forall A (g : A -> Z) l m, fold_right Z.max 0 (map g l) <= m -> Forall (fun x => g x <= m) l.
Proof.
  induction l as [|x l IH]; intros m H; [constructor|]. cbn [map fold_right] in H.
  constructor; [lia | apply IH; lia].
Qed.

Lemma Zlen_filter_map : forall A B (g : A -> B) (p : B -> bool) l,
  Zlen (filter p (map g l)) = Zlen (filter (fun x => p (g x)) l).
Proof.
  induction l as [|x l IH]; [reflexivity|]. cbn [map filter]. destruct (p (g x)); [rewrite !Zlen_cons; now rewrite IH | exact IH].
Qed.

Lemma att_ok_Q : forall mm a, att_ok a = true -> att_req a <= mm -> attQ mm a.
Proof.
  intros mm a H Hr. unfold att_ok, name_ok in H. unfold att_req in Hr. unfold attQ.
  apply andb_prop in H. destruct H as [H H3]. apply andb_prop in H. destruct H as [H1 H2]. lia.
Qed.

Lemma atts_ok_Q : forall mm l, forallb att_ok l = true -> fold_right Z.max 0 (map att_req l) <= mm -> Forall (attQ mm) l.
Proof.
  intros mm l H Hr. apply fold_max_le in Hr. rewrite forallb_forall in H. rewrite Forall_forall in *.
  intros a Ha. apply att_ok_Q; [now apply H | now apply Hr].
Qed.

(* everything the proof needs, extracted from the executable predicate *)
Lemma c04_valid_inv : forall mm d, c04_valid mm d = true -> dc_len d = hdr_len (dc_hdr d) ->
  let h := dc_hdr d in
  let dims := h_dims h in
  h_numrecs h <= I64_MAX /\
  Zlen dims <= NC_MAX_INT - 63 /\ Zlen (h_gatts h) <= NC_MAX_INT - 63 /\ Zlen (h_vars h) <= NC_MAX_INT - 63 /\
  Forall (dimQ mm) dims /\ Forall (fun x => 0 <= d_size x) dims /\
  Zlen (filter (fun x => d_size x =? 0) dims) <= 1 /\
  Forall (attQ mm) (h_gatts h) /\
  Forall (varQ mm (Zlen dims)) (h_vars h) /\
  list_req (Zlen dims) <= mm /\ list_req (Zlen (h_gatts h)) <= mm /\ list_req (Zlen (h_vars h)) <= mm /\
  SZ_NC_VAR <= mm /\
  layQ dims (hdr_len h) (h_vars h) /\ check_vlens h = NC_NOERR /\ dc_len d = hdr_len h.
Proof.
  intros mm d H Hlen. cbv zeta. unfold c04_valid in H.
  set (h := dc_hdr d) in *. set (dims := h_dims h) in *.
  repeat rewrite andb_true_iff in H.
  destruct H as [[[[[[[[[[[[[H1 H2] H3] H4] H5] H6] H7] H8] H9] H10] H12] H13] H14] H15].
  assert (Hreq : hdr_req h <= mm) by lia. unfold hdr_req in Hreq. fold dims in Hreq.
  assert (Hd : Forall (dimQ mm) dims).
  { assert (Hr : fold_right Z.max 0 (map (fun d0 => Zlen (d_name d0) + 1) dims) <= mm) by lia.
    apply fold_max_le in Hr. rewrite forallb_forall in H5. rewrite Forall_forall in *. intros x Hx.
    specialize (H5 x Hx). specialize (Hr x Hx). unfold name_ok in H5. unfold dimQ.
    repeat rewrite andb_true_iff in H5. lia. }
  assert (Hdn : Forall (fun x => 0 <= d_size x) dims).
  { rewrite Forall_forall in *. intros x Hx. specialize (Hd x Hx). unfold dimQ in Hd. lia. }
  assert (Hvars : Forall (fun v => varQ mm (Zlen dims) v /\ pvQ dims v) (h_vars h)).
  { assert (Hr : fold_right Z.max 0 (map var_req (h_vars h)) <= mm) by lia.
    apply fold_max_le in Hr. rewrite forallb_forall in H8. rewrite Forall_forall in *. intros v Hv.
    specialize (H8 v Hv). specialize (Hr v Hv). unfold name_ok in H8. unfold var_req in Hr.
    repeat rewrite andb_true_iff in H8.
    destruct H8 as [[[[[[[[[[V1 V2] V3] V4] V5] V6] V7] V8] V9] V10] V11].
    split.
    - unfold varQ. repeat split; try lia.
      + rewrite forallb_forall in V5. apply Forall_forall. intros i Hi. specialize (V5 i Hi). fold dims in V5. lia.
      + apply atts_ok_Q; [exact V4 | lia].
    - unfold pvQ. repeat split; try lia.
      + now apply negb_true_iff in V6.
      + pose proof (valid_type_xlen _ _ V7). lia.
      + pose proof (valid_type_xlen _ _ V7). lia.
      + exact V8. }
  assert (Hvq : Forall (varQ mm (Zlen dims)) (h_vars h)) by (eapply Forall_impl; [|exact Hvars]; intros v Hv; cbv beta in Hv; destruct Hv; assumption).
  assert (Hpq : Forall (pvQ dims) (h_vars h)) by (eapply Forall_impl; [|exact Hvars]; intros v Hv; cbv beta in Hv; destruct Hv; assumption).
  repeat split; try lia; try assumption.
  - apply atts_ok_Q; [exact H7 | lia].
  - change (filter (Proofs_Reader.isr dims) (h_vars h)) with (filter (is_recvar dims) (h_vars h)).
    change (map (Proofs_Reader.Lv dims)) with (map (var_len dims)). lia.
  - rewrite <- Hlen.
    change (filter (Proofs_Reader.isr dims) (h_vars h)) with (filter (is_recvar dims) (h_vars h)).
    change (map (Proofs_Reader.bl dims)) with (map (fun v : var => (v_begin v, var_len dims v))).
    change (filter (Proofs_Reader.nonrec dims) (h_vars h)) with (filter (fun v => negb (is_recvar dims v)) (h_vars h)).
    destruct (h_vars h) as [|v0 vs0] eqn:Ev.
    + cbn. exists (dc_len d). split; [reflexivity | left; reflexivity].
    + rewrite <- Ev in *.
      destruct (order_ok (dc_len d) (map (fun v : var => (v_begin v, var_len dims v)) (filter (fun v : var => negb (is_recvar dims v)) (h_vars h)))) as [ef|]; [|discriminate].
      exists ef. split; [reflexivity|].
      destruct (filter (is_recvar dims) (h_vars h)) as [|fr frs] eqn:Er; [left; reflexivity|]. right.
      destruct (order_ok ef (map (fun v : var => (v_begin v, var_len dims v)) (fr :: frs))) as [er|]; [|discriminate].
      exists er. reflexivity.
Qed.

(* ------------------------------------------------------------------ *)
(** ** C04 reader_accepts_valid *)

Lemma pure_fst : forall S A (r : res A) (s : S * acct), fst (pure r s) = r.
Proof. intros S A [a|e|c] s; reflexivity. Qed.

Theorem flat_accepts_valid : forall mm f d, decode f = Some d -> c04_valid mm d = true ->
  open_flat mm f = Ok (expected_open d).
Proof.
  intros mm f d Hdec Hval.
  destruct (decode_inv f d Hdec) as (ver & r & nr & r1 & dims & r2 & gatts & r3 & vars & r4 &
                                      Hf & Hver & E1 & E2 & E3 & E4 & Hd).
  pose proof (c04_valid_inv mm d Hval (decode_len f d Hdec)) as Hinv. cbv zeta in Hinv.
  rewrite Hd in Hinv. cbn [dc_hdr dc_len h_numrecs h_dims h_gatts h_vars h_format] in Hinv.
  destruct Hinv as (Hnr & Hcd & Hcg & Hcv & HdQ & Hdn & Hun & HgQ & HvQ & Hrd & Hrg & Hrv & Hmm & Hlay & Hvl & Hlen).
  rewrite !Zlen_map in *.
  (* dispatcher *)
  assert (Hfmt : inq_file_format f = Ok ver).
  { unfold inq_file_format. subst f.
    assert (4 <= Zlen r).
    { unfold p_nn, p_u32, p_u64 in E1. destruct (ver <? 5).
      - destruct r as [|a [|b [|c [|e r']]]]; try discriminate. unfold Zlen. cbn [length]. lia.
      - unfold get_u64 in E1. destruct r as [|a [|b [|c [|e r']]]]; try discriminate. unfold Zlen. cbn [length]. lia. }
    rewrite !Zlen_cons. replace (1 + (1 + (1 + (1 + Zlen r))) <? 8) with false by lia.
    change (bytes_eqb (zfirstn 3 (67 :: 68 :: 70 :: ver :: r)) [67; 68; 70]) with true.
    change (znth (67 :: 68 :: 70 :: ver :: r) 3 0) with ver. cbn [andb].
    destruct Hver as [-> | [-> | ->]]; reflexivity. }
  unfold open_flat. rewrite Hfmt. unfold read_header_flat, hdr_get_NC.
  (* magic *)
  assert (Em : lift (gbytes fsrc 4) (f, acct0) = (Ok [67; 68; 70; ver], (r, acct0))).
  { unfold lift. cbn [fst snd gbytes fsrc]. unfold f_gbytes. subst f.
    rewrite take_z_enough by (rewrite !Zlen_cons; pose proof (Zlen_nonneg _ r); lia).
    change (67 :: 68 :: 70 :: ver :: r) with ([67; 68; 70; ver] ++ r).
    change 4 with (Zlen [67; 68; 70; ver]). now rewrite zfirstn_app_exact, zskipn_app_exact. }
  rewrite (bind_ok _ _ _ _ _ _ _ _ Em).
  change (bytes_eqb (zfirstn 3 [67; 68; 70; ver]) [67; 68; 70]) with true. cbn [negb].
  change (znth [67; 68; 70; ver] 3 0) with ver.
  replace (negb ((ver =? 1) || (ver =? 2) || (ver =? 5))) with false by (destruct Hver as [-> | [-> | ->]]; reflexivity).
  rewrite (bind_ok _ _ _ _ _ _ _ _ (flat_nn ver r nr r1 acct0 E1)).
  (* dim_list *)
  apply (proj1 (Forall_map_iff _ _ dd_dim (dimQ mm) dims)) in HdQ.
  rewrite Zlen_filter_map in Hun.
  destruct (flat_dimarray mm ver r1 dims r2 acct0 E2 HdQ ltac:(unfold SZ_NC_DIM, SZ_NC_VAR in *; lia) Hcd Hrd Hun) as [a1 F1].
  rewrite (bind_ok _ _ _ _ _ _ _ _ F1).
  (* gatt_list *)
  apply (proj1 (Forall_map_iff _ _ da_att (attQ mm) gatts)) in HgQ.
  destruct (flat_attarray mm ver r2 gatts r3 a1 Hver E3 HgQ ltac:(unfold SZ_NC_ATTR, SZ_NC_VAR in *; lia) Hcg Hrg) as [a2 F2].
  rewrite (bind_ok _ _ _ _ _ _ _ _ F2).
  (* var_list *)
  apply (proj1 (Forall_map_iff _ _ dv_var (varQ mm (Zlen dims)) vars)) in HvQ.
  rewrite Zlen_map.
  destruct (flat_vararray mm ver (Zlen dims) r3 vars r4 a2 Hver E4 HvQ Hmm Hcv Hrv) as [a3 F3].
  rewrite (bind_ok _ _ _ _ _ _ _ _ F3).
  cbv beta. rewrite (pure_fst (list byte) opened _ (r4, a3)). rewrite to_i64_id by exact Hnr.
  rewrite !map_map. cbn [fst snd]. change (fun x : dec_var => dv_var x) with dv_var.
  (* post-processing *)
  pose proof (post_open_ok (map dd_dim dims) Hdn ver nr (map da_att gatts) (map dv_var vars) Hlay Hvl) as Hpost.
  cbv zeta in Hpost. rewrite map_map in Hpost. rewrite Hpost.
  unfold expected_open. rewrite Hd. cbn [dc_hdr dc_len h_dims h_vars]. rewrite Hlen. reflexivity.
Qed.

(* C04 reader_accepts_valid: every specification-valid file is accepted, for EVERY chunk size,
   and the NC object holds exactly the decoded header, the derived layout (begin_var, begin_rec,
   recsize: vsize fields ignored and recomputed), lens and the number of record variables *)
Theorem reader_accepts_valid : forall hint mm f d,
  decode f = Some d -> c04_valid mm d = true ->
  out_res (open_model hint mm f) = Ok (expected_open d).
Proof. intros. rewrite chunk_decode_eq_flat. now apply flat_accepts_valid. Qed.

(* composition with the encoder round trip (Proofs_Header.decode_encode_full): every file whose
   header was written by the encoder model, followed by ANY bytes (gaps, junk, data), is read back
   exactly, provided the decoded header is valid in the sense of c04_valid *)
Theorem encoded_read_back : forall hint mm h rest,
  wf_hdr h = true -> c04_valid mm (decoded_of h) = true ->
  out_res (open_model hint mm (encode_header h ++ rest)) = Ok (expected_open (decoded_of h)) /\
  o_hdr (expected_open (decoded_of h)) = hdr_content h.
Proof.
  intros hint mm h rest Hwf Hval. split; [|reflexivity].
  apply reader_accepts_valid; [now apply decode_encode_full | exact Hval].
Qed.

(* a CDF-2 file produced by the free-choice encoder tools/c04_gen.py (fixed_schema): saturated and
   stale vsize fields, a zero-length attribute, an ABSENT list written as TAG 0, gaps and junk bytes
   between header and data and between variables.  The hypotheses of reader_accepts_valid hold. *)
Definition ex_valid_file : list byte :=
  [67; 68; 70; 2; 0; 0; 0; 2; 0; 0; 0; 10; 0; 0; 0; 3; 0; 0; 0; 1; 116; 0; 0; 0; 0; 0; 0; 0; 0; 0; 0; 5; 108; 97; 116; 120; 120; 0; 0; 0; 0; 0; 0; 3; 0; 0; 0; 3; 108; 111; 110; 0; 0; 0; 0; 2; 0; 0; 0; 12; 0; 0; 0; 3; 0; 0; 0; 5; 116; 105; 116; 108; 101; 0; 0; 0; 0; 0; 0; 2; 0; 0; 0; 5; 65; 66; 67; 68; 69; 0; 0; 0; 0; 0; 0; 1; 118; 0; 0; 0; 0; 0; 0; 6; 0; 0; 0; 2; 63; 248; 0; 0; 0; 0; 0; 0; 192; 2; 0; 0; 0; 0; 0; 0; 0; 0; 0; 5; 101; 109; 112; 116; 121; 0; 0; 0; 0; 0; 0; 4; 0; 0; 0; 0; 0; 0; 0; 11; 0; 0; 0; 4; 0; 0; 0; 3; 102; 105; 120; 0; 0; 0; 0; 2; 0; 0; 0; 1; 0; 0; 0; 2; 0; 0; 0; 12; 0; 0; 0; 2; 0; 0; 0; 5; 117; 110; 105; 116; 115; 0; 0; 0; 0; 0; 0; 2; 0; 0; 0; 3; 109; 47; 115; 0; 0; 0; 0; 2; 115; 99; 0; 0; 0; 0; 0; 3; 0; 0; 0; 3; 0; 1; 0; 2; 255; 254; 0; 0; 0; 0; 0; 4; 255; 255; 255; 255; 0; 0; 0; 0; 0; 0; 1; 136; 0; 0; 0; 4; 114; 101; 99; 49; 0; 0; 0; 2; 0; 0; 0; 0; 0; 0; 0; 1; 0; 0; 0; 12; 0; 0; 0; 1; 0; 0; 0; 1; 97; 0; 0; 0; 0; 0; 0; 1; 0; 0; 0; 1; 127; 0; 0; 0; 0; 0; 0; 3; 0; 0; 48; 57; 0; 0; 0; 0; 0; 0; 1; 180; 0; 0; 0; 4; 115; 99; 97; 108; 0; 0; 0; 0; 0; 0; 0; 12; 0; 0; 0; 0; 0; 0; 0; 6; 0; 0; 0; 8; 0; 0; 0; 0; 0; 0; 1; 168; 0; 0; 0; 4; 114; 101; 99; 50; 0; 0; 0; 1; 0; 0; 0; 0; 0; 0; 0; 0; 0; 0; 0; 0; 0; 0; 0; 5; 0; 0; 0; 4; 0; 0; 0; 0; 0; 0; 1; 188; 68; 164; 71; 245; 34; 122; 157; 132; 126; 234; 193; 183; 168; 133; 43; 83; 117; 59; 40; 91; 241; 130; 47; 206; 224; 255; 17; 74; 199; 51; 162; 40; 56; 250; 20; 227; 40; 79; 119; 55; 175; 155; 225; 87; 22; 98; 31; 32; 42; 2; 50; 93; 18; 176; 38; 231; 79; 25; 182; 226; 148; 215; 250; 119; 121; 98; 7; 157; 42; 179; 60; 123; 83; 210; 149; 232].

Example reader_accepts_valid_ex :
  exists d, decode ex_valid_file = Some d /\ c04_valid 1048576 d = true /\
            Zlen (h_vars (dc_hdr d)) = 4 /\ l_begin_var (o_lay (expected_open d)) = 392 /\
            out_fetches (open_model 36 1048576 ex_valid_file) = 11.
Proof.
  destruct (decode ex_valid_file) as [d|] eqn:E; [|vm_compute in E; discriminate].
  exists d. split; [reflexivity|]. vm_compute in E. inversion E. subst d. vm_compute. repeat split; reflexivity.
Qed.

(* ================================================================== *)
(** * Part E: C19 — totality, crashes, consistency, cost *)

(* reader_total: the model is a total function (structural recursion on binary counts and on an
   explicit fuel for the copy loop); the only loop with fuel is proved to complete: *)
Theorem reader_total : forall hint mm f, exists o, open_model hint mm f = o.
Proof. intros. eexists; reflexivity. Qed.

Theorem copy_loop_complete : forall chunk n c l, 0 < chunk -> window_inv chunk c l ->
  fst (c_gbytes n c) = take_z n l /\ window_inv chunk (snd (c_gbytes n c)) (zskipn n l).
Proof. intros chunk n c l H Hw. exact (sim_gbytes chunk n c l H Hw). Qed.

(* ---------- crashes ---------- *)
Definition reader_no_crash_full : Prop :=
  forall hint mm f s, out_res (open_model hint mm f) <> Crash s.



Example crash_rndup_int : out_res (open_model 0 1048576 w_rndup_int) = Crash S_rndup_int.
Proof. vm_compute. reflexivity. Qed.
Example crash_attr_null : out_res (open_model 0 1048576 w_attr_null) = Crash S_attr_memcpy_null.
Proof. vm_compute. reflexivity. Qed.
Example crash_attrV_mul : out_res (open_model 0 1048576 w_attrV_mul) = Crash S_attrV_mul.
Proof. vm_compute. reflexivity. Qed.
Example crash_attr_xlen : out_res (open_model 0 1048576 w_attr_xlen) = Crash S_attr_xlen.
Proof. vm_compute. reflexivity. Qed.
Example crash_shape_product : out_res (open_model 0 1048576 w_shape_product) = Crash S_shape_product.
Proof. vm_compute. reflexivity. Qed.
Example crash_var_calloc : out_res (open_model 0 1048576 w_var_calloc) = Crash S_var_calloc_null.
Proof. vm_compute. reflexivity. Qed.
Example crash_check_vlen : out_res (open_model 0 1048576 w_check_vlen) = Crash S_check_vlen_mul.
Proof. vm_compute. reflexivity. Qed.
Example crash_begin_len : out_res (open_model 0 1048576 w_begin_len) = Crash S_begin_len.
Proof. vm_compute. reflexivity. Qed.

Theorem reader_no_crash_refuted : ~ reader_no_crash_full.
Proof. intros H. apply (H 0 1048576 w_attr_null S_attr_memcpy_null). exact crash_attr_null. Qed.

(* strongest true statement proved: specification-valid files never crash the reader, whatever
   the chunk size (and are accepted) *)
Theorem reader_no_crash_partial : forall hint mm f d s,
  decode f = Some d -> c04_valid mm d = true -> out_res (open_model hint mm f) <> Crash s.
Proof. intros hint mm f d s Hd Hv. rewrite (reader_accepts_valid hint mm f d Hd Hv). discriminate. Qed.

Example reader_no_crash_partial_ex : exists d, decode ex_valid_file = Some d /\ c04_valid 1048576 d = true.
Proof. destruct reader_accepts_valid_ex as (d & H1 & H2 & _). now exists d. Qed.

(* ---------- self-consistency of accepted metadata ---------- *)
Definition reader_result_consistent_full : Prop :=
  forall hint mm f o, out_res (open_model hint mm f) = Ok o -> consistent o = true.


Example inconsistent_numrecs : exists o, out_res (open_model 0 1048576 w_numrecs_neg) = Ok o /\
  h_numrecs (o_hdr o) = -1 /\ consistent o = false.
Proof. eexists. vm_compute. repeat split; reflexivity. Qed.

Example inconsistent_dim : exists o, out_res (open_model 0 1048576 w_dim_neg) = Ok o /\
  map d_size (h_dims (o_hdr o)) = [-9223372036854775803] /\ consistent o = false.
Proof. eexists. vm_compute. repeat split; reflexivity. Qed.

Theorem reader_result_consistent_refuted : ~ reader_result_consistent_full.
Proof.
  intros H. destruct inconsistent_numrecs as (o & Ho & _ & Hc).
  rewrite (H 0 1048576 w_numrecs_neg o Ho) in Hc. discriminate.
Qed.

(* what the post-checks DO guarantee for every byte sequence and chunk size: an accepted header
   with variables has 0 < header size <= begin_var <= begin_rec (data after the header, record
   section after the fixed section) *)
Lemma bind_inv : forall S A B (m : P S A) (f : A -> P S B) s b s',
  bind m f s = (Ok b, s') -> exists a s1, m s = (Ok a, s1) /\ f a s1 = (Ok b, s').
Proof.
  intros S A B m f s b s' H. unfold bind in H. destruct (m s) as [[a|e|c] s1]; try discriminate.
  exists a, s1. split; [reflexivity | exact H].
Qed.

Lemma hdr_get_NC_inv : forall S (X : src S) mm s o s', hdr_get_NC S X mm s = (Ok o, s') ->
  exists h (vars : list (var * bool)), h_vars h = map fst vars /\ post_open h (map snd vars) = Ok o.
Proof.
  intros S X mm s o s' H. unfold hdr_get_NC in H.
  apply bind_inv in H. destruct H as (m & s1 & _ & H).
  destruct (negb (bytes_eqb (zfirstn 3 m) [67; 68; 70])).
  - apply bind_inv in H. destruct H as (sg & s2 & _ & H). destruct (bytes_eqb sg hdf5_sig); discriminate.
  - destruct (negb ((znth m 3 0 =? 1) || (znth m 3 0 =? 2) || (znth m 3 0 =? 5))); [discriminate|].
    apply bind_inv in H. destruct H as (nr & s2 & _ & H).
    apply bind_inv in H. destruct H as (dims & s3 & _ & H).
    apply bind_inv in H. destruct H as (gatts & s4 & _ & H).
    apply bind_inv in H. destruct H as (vars & s5 & _ & H).
    unfold pure in H.
    destruct (post_open (mkhdr (znth m 3 0) (to_i64 nr) dims gatts (map fst vars)) (map snd vars)) as [o'| |] eqn:E;
      try discriminate.
    inversion H; subst. eexists; exists vars. split; [|exact E]. reflexivity.
Qed.

Lemma post_open_hdr : forall h soks o, post_open h soks = Ok o -> o_hdr o = h.
Proof.
  intros h soks o H. unfold post_open in H.
  destruct (chk S_hdr_len (hdr_len h)) as [xsz| |]; try discriminate. cbn [rbind] in H.
  destruct (compute_var_shape xsz (h_dims h) (zip (h_vars h) soks)) as [[[[bv br] rs] lens]| |]; try discriminate.
  cbn [rbind] in H.
  destruct (rd_check_vlens _ _) as [e1| |]; try discriminate. cbn [rbind] in H.
  destruct (negb (e1 =? NC_NOERR)); [discriminate|].
  destruct (rd_check_voffs _ _ _) as [e2| |]; try discriminate. cbn [rbind] in H.
  destruct (negb (e2 =? NC_NOERR)); [discriminate|].
  inversion H; subst o. reflexivity.
Qed.

Lemma post_open_inv : forall h soks o, post_open h soks = Ok o -> zip (h_vars h) soks <> [] ->
  0 < l_begin_var (o_lay o) /\ l_xsz (o_lay o) <= l_begin_var (o_lay o) <= l_begin_rec (o_lay o).
Proof.
  intros h soks o H Hne. unfold post_open in H.
  destruct (chk S_hdr_len (hdr_len h)) as [xsz| |]; try discriminate. cbn [rbind] in H.
  destruct (compute_var_shape xsz (h_dims h) (zip (h_vars h) soks)) as [[[[bv br] rs] lens]| |] eqn:Ec; try discriminate.
  cbn [rbind] in H.
  destruct (rd_check_vlens _ _) as [e1| |]; try discriminate. cbn [rbind] in H.
  destruct (negb (e1 =? NC_NOERR)); [discriminate|].
  destruct (rd_check_voffs _ _ _) as [e2| |]; try discriminate. cbn [rbind] in H.
  destruct (negb (e2 =? NC_NOERR)); [discriminate|].
  inversion H; subst o. cbn [o_hdr o_lay l_xsz l_begin_var l_begin_rec].
  unfold compute_var_shape in Ec. destruct (zip (h_vars h) soks) as [|p0 ps]; [congruence|].
  destruct (cvs_loop _ _ _ _ _ _ _) as [[[[[br0 rs0] fv] fr] lens0]| |]; try discriminate. cbn [rbind] in Ec.
  destruct (match fr with
            | Some (fb, fl, fraw) => if br0 >? fb then Err NC_ENOTNC else Ok (fb, if rs0 =? fl then fraw else rs0)
            | None => Ok (br0, rs0) end) as [[br' rs']| |]; try discriminate. cbn [rbind] in Ec.
  set (bv' := match fv with Some b => b | None => br' end) in *.
  destruct ((bv' <=? 0) || (xsz >? bv') || (br' <=? 0) || (bv' >? br')) eqn:E; [discriminate|].
  inversion Ec; subst. repeat rewrite orb_false_iff in E. lia.
Qed.

Theorem reader_result_consistent_partial : forall hint mm f o,
  out_res (open_model hint mm f) = Ok o -> h_vars (o_hdr o) <> [] ->
  0 < l_begin_var (o_lay o) /\ l_xsz (o_lay o) <= l_begin_var (o_lay o) <= l_begin_rec (o_lay o).
Proof.
  intros hint mm f o H Hne. rewrite chunk_decode_eq_flat in H. unfold open_flat in H.
  destruct (inq_file_format f); try discriminate. unfold read_header_flat in H.
  destruct (hdr_get_NC (list byte) fsrc mm (f, acct0)) as [r s'] eqn:E. cbn [fst] in H. subst r.
  destruct (hdr_get_NC_inv _ _ _ _ _ _ E) as (h & vars & Hv & Hp).
  apply (post_open_inv h (map snd vars) o Hp).
  rewrite Hv, zip_fst_snd. intros Hc. apply Hne. rewrite (post_open_hdr h (map snd vars) o Hp).
  rewrite Hv, Hc. reflexivity.
Qed.

Example reader_result_consistent_partial_ex : exists o,
  out_res (open_model 36 1048576 ex_valid_file) = Ok o /\ h_vars (o_hdr o) <> [] /\ consistent o = true.
Proof. eexists. vm_compute. repeat split; try reflexivity. discriminate. Qed.

(* ---------- cost ---------- *)
(* memory and read volume related to the size of the file? (a = 64, b = 4096 + window) *)
Definition reader_cost_linear_full : Prop :=
  forall hint mm f,
    ac_alloc (out_acct (open_model hint mm f)) <= 64 * Zlen f + 4096 + norm_chunk hint /\
    out_offset (open_model hint mm f) <= Zlen f + 2 * norm_chunk hint.


Example cost_alloc_dims :
  Zlen w_alloc_dims = 48 /\ 17179868672 <= ac_alloc (out_acct (open_model 0 1099511627776 w_alloc_dims)).
Proof. vm_compute. split; [reflexivity | discriminate]. Qed.

Example cost_read_zeros :
  Zlen w_read_zeros = 48 /\ out_offset (open_model 4096 1048576 w_read_zeros) = 102400 /\
  out_fetches (open_model 4096 1048576 w_read_zeros) = 25 /\ out_getsize (open_model 4096 1048576 w_read_zeros) = 48.
Proof. vm_compute. repeat split; reflexivity. Qed.

Theorem reader_cost_linear_refuted : ~ reader_cost_linear_full.
Proof.
  intros H. destruct (H 0 1099511627776 w_alloc_dims) as [H1 _].
  destruct cost_alloc_dims as [Hl Ha]. rewrite Hl in H1. vm_compute (norm_chunk 0) in H1. lia.
Qed.

(* what does hold for EVERY input: each fetch after the first advances the file offset by at least
   chunk-8 bytes (no fetch without progress), so the number of fetches is linear in the number of
   header bytes consumed *)
Definition prog (chunk : Z) (c : cst) : Prop :=
  1 <= c_fetches c /\ (c_fetches c - 1) * (chunk - 8) + chunk <= c_off c.

Lemma prog_adv : forall chunk k c, prog chunk c -> prog chunk (c_adv k c).
Proof. intros chunk k c H. exact H. Qed.

Lemma prog_fetch : forall chunk c l, 8 <= chunk -> window_inv chunk c l -> prog chunk c ->
  chunk - c_pos c <= 8 -> 0 < c_pos c -> prog chunk (c_fetch c).
Proof.
  intros chunk c l Hch (Hc & Hp & _) [H1 H2] Hs Hpos. unfold prog, c_fetch. cbn [c_fetches c_off]. rewrite Hc.
  replace (chunk - c_pos c =? chunk) with false by lia. split; [lia|]. nia.
Qed.

Lemma prog_need : forall chunk k c l, 16 <= chunk -> 0 < k <= 8 -> window_inv chunk c l -> prog chunk c ->
  prog chunk (c_need k c).
Proof.
  intros chunk k c l Hch Hk Hw Hp. unfold c_need. pose proof Hw as (Hc & Hpos & _). rewrite Hc.
  destruct (c_pos c + k >? chunk) eqn:E; [|exact Hp].
  eapply prog_fetch; try eassumption; lia.
Qed.

Lemma prog_copy : forall chunk, 16 <= chunk -> forall fuel n acc c l, window_inv chunk c l -> prog chunk c ->
  prog chunk (snd (c_copy fuel n acc c)).
Proof.
  intros chunk Hch. induction fuel as [|fuel IH]; intros n acc c l Hw Hp; cbn [c_copy]; [exact Hp|].
  destruct (n <=? 0) eqn:En; [exact Hp|]. pose proof Hw as (Hc & Hpos & _). rewrite Hc.
  destruct (chunk - c_pos c >? 0) eqn:E.
  - eapply IH; [|apply prog_adv; exact Hp]. apply window_inv_adv; [exact Hw | lia | lia].
  - eapply IH; [apply window_inv_fetch; [exact Hw | lia] |]. eapply prog_fetch; try eassumption; lia.
Qed.

Definition window_prog (chunk : Z) (c : cst) (l : list byte) : Prop := window_inv chunk c l /\ prog chunk c.

Lemma wp_g32 : forall chunk c l, 16 <= chunk -> window_prog chunk c l ->
  fst (c_g32 c) = fst (f_g32 l) /\ window_prog chunk (snd (c_g32 c)) (snd (f_g32 l)).
Proof.
  intros chunk c l Hch [Hw Hp]. destruct (sim_g32 chunk c l ltac:(lia) Hw) as [E Hw'].
  split; [exact E|]. split; [exact Hw'|].
  assert (Hs : snd (c_g32 c) = c_adv 4 (c_need 4 c)) by (unfold c_g32; destruct (get_u32 _) as [[v r]|]; reflexivity).
  rewrite Hs. apply prog_adv. eapply prog_need; try eassumption; lia.
Qed.

Lemma wp_g64 : forall chunk c l, 16 <= chunk -> window_prog chunk c l ->
  fst (c_g64 c) = fst (f_g64 l) /\ window_prog chunk (snd (c_g64 c)) (snd (f_g64 l)).
Proof.
  intros chunk c l Hch [Hw Hp]. destruct (sim_g64 chunk c l ltac:(lia) Hw) as [E Hw'].
  split; [exact E|]. split; [exact Hw'|].
  assert (Hs : snd (c_g64 c) = c_adv 8 (c_need 8 c)) by (unfold c_g64; destruct (get_u64 _) as [[v r]|]; reflexivity).
  rewrite Hs. apply prog_adv. eapply prog_need; try eassumption; lia.
Qed.

Lemma wp_gbytes : forall chunk n c l, 16 <= chunk -> window_prog chunk c l ->
  fst (c_gbytes n c) = fst (f_gbytes n l) /\ window_prog chunk (snd (c_gbytes n c)) (snd (f_gbytes n l)).
Proof.
  intros chunk n c l Hch [Hw Hp]. destruct (sim_gbytes chunk n c l ltac:(lia) Hw) as [E Hw'].
  split; [exact E|]. split; [exact Hw'|].
  pose proof (prog_copy chunk Hch (Z.to_nat (2 * n + 2)) n [] c l Hw Hp) as Hc.
  unfold c_gbytes. destruct (c_copy (Z.to_nat (2 * n + 2)) n [] c) as [acc c']. exact Hc.
Qed.

Lemma wp_gskip : forall chunk k c l, 16 <= chunk -> 0 < k <= 8 -> window_prog chunk c l ->
  window_prog chunk (c_gskip k c) (f_gskip k l).
Proof.
  intros chunk k c l Hch Hk [Hw Hp]. split; [apply sim_gskip; [lia | exact Hk | exact Hw]|].
  unfold c_gskip. apply prog_adv. eapply prog_need; try eassumption; lia.
Qed.

Theorem fetch_progress : forall hint mm f v, inq_file_format f = Ok v ->
  1 <= out_fetches (open_model hint mm f) /\
  (out_fetches (open_model hint mm f) - 1) * (norm_chunk hint - 8) + norm_chunk hint
    <= out_offset (open_model hint mm f).
Proof.
  intros hint mm f v Hv. unfold open_model. rewrite Hv.
  destruct (norm_chunk_ok hint) as [H36 _]. set (chunk := norm_chunk hint) in *.
  assert (Hch : 16 <= chunk) by lia.
  pose proof (rel_hdr_get_NC cst (list byte) csrc fsrc (window_prog chunk) mm
                (fun c l => wp_g32 chunk c l Hch) (fun c l => wp_g64 chunk c l Hch)
                (fun n c l => wp_gbytes chunk n c l Hch)
                (fun k c l Hk => wp_gskip chunk k c l Hch Hk)) as Hrel.
  unfold read_header.
  specialize (Hrel (c_init chunk f, acct0) (f, acct0)).
  destruct Hrel as [_ [[_ Hp] _]].
  { split; [|reflexivity]. cbn [fst]. split; [apply window_inv_init; lia|].
    unfold prog, c_init, c_fetch. cbn [c_fetches c_off c_chunk c_pos].
    rewrite Z.sub_0_r, Z.eqb_refl. cbv iota. lia. }
  destruct (hdr_get_NC cst csrc mm (c_init chunk f, acct0)) as [r [c a]]. cbn [fst snd out_fetches out_offset] in *.
  exact Hp.
Qed.

Example fetch_progress_ex : exists v, inq_file_format ex_valid_file = Ok v.
Proof. eexists. vm_compute. reflexivity. Qed.

(* ================================================================== *)
(** * The record size derived at open is the WRITER's record size (Header.begins / NC_begins) *)
From Pnc Require Proofs_Layout.

Lemma layout_of_hdr_recsize : forall h x,
  l_recsize (layout_of_hdr h x) =
  match Proofs_Layout.rec_vars h with
  | fr :: _ => if zsum (map (var_len (h_dims h)) (Proofs_Layout.rec_vars h)) =? var_len (h_dims h) fr
               then Proofs_Layout.unpadded (h_dims h) fr
               else zsum (map (var_len (h_dims h)) (Proofs_Layout.rec_vars h))
  | [] => 0 end.
Proof.
  intros h x. unfold layout_of_hdr, Proofs_Layout.rec_vars, Proofs_Layout.unpadded.
  destruct (h_vars h) as [|v0 vs] eqn:Ev; [reflexivity|]. rewrite <- Ev.
  destruct (filter (is_recvar (h_dims h)) (h_vars h)) as [|fr frs]; destruct (h_vars h); try congruence; reflexivity.
Qed.

Lemma pvQ_len_pos : forall dims v, Forall (fun d => 0 <= d_size d) dims -> pvQ dims v -> 0 < var_len dims v.
Proof.
  intros dims v Hd Hq. pose proof (pvQ_facts dims Hd v Hq) as (Hnn & He & Hraw & HL & HLe).
  destruct Hq as (_ & Hx & _). pose proof (zprod_pos1 _ He) as Hz.
  assert (1 <= rawv dims v) by (unfold rawv; nia).
  unfold Lv in *. rewrite HLe. destruct (rawv dims v mod 4 >? 0); lia.
Qed.

(* C04 reader_recsize_writer_rule: for every specification-valid file and every chunk size, the record
   size the reader derives at open (compute_var_shape) is the record size the writer-side rule of
   Header.v assigns to that header (Proofs_Layout.recsize_of = l_recsize of Header.begins, theorems
   Proofs_Layout.begins_eq / begins_layout_ok); in particular with EXACTLY ONE record variable it is that variable's
   UNPADDED size (any element size: 1, 2, 4 or 8 bytes), with none it is 0 *)
Theorem reader_recsize_writer_rule : forall hint mm f d, decode f = Some d -> c04_valid mm d = true ->
  exists o, out_res (open_model hint mm f) = Ok o /\ o_hdr o = dc_hdr d /\
    l_recsize (o_lay o) = Proofs_Layout.recsize_of (dc_hdr d) /\
    (forall v, Proofs_Layout.rec_vars (dc_hdr d) = [v] ->
               l_recsize (o_lay o) = var_nelems_per_rec (var_shape (h_dims (dc_hdr d)) v) * xlen_type (v_type v)) /\
    (Proofs_Layout.rec_vars (dc_hdr d) = [] -> l_recsize (o_lay o) = 0).
Proof.
  intros hint mm f d Hdec Hval. exists (expected_open d).
  split; [now apply reader_accepts_valid|]. split; [reflexivity|].
  pose proof (c04_valid_inv mm d Hval (decode_len f d Hdec)) as Hinv. cbv zeta in Hinv.
  destruct Hinv as (_ & _ & _ & _ & _ & Hdn & _ & _ & _ & _ & _ & _ & _ & (HQ & _) & _ & _).
  assert (Hwf : Proofs_Layout.hdr_wf (dc_hdr d)) by exact Hdn.
  assert (Hpos : forall v, In v (Proofs_Layout.rec_vars (dc_hdr d)) -> 0 < var_len (h_dims (dc_hdr d)) v).
  { intros v Hv. unfold Proofs_Layout.rec_vars in Hv. apply filter_In in Hv. destruct Hv as [Hv _].
    rewrite Forall_forall in HQ. apply pvQ_len_pos; [exact Hdn | now apply HQ]. }
  assert (E : l_recsize (o_lay (expected_open d)) = Proofs_Layout.recsize_of (dc_hdr d)).
  { unfold expected_open. cbn [o_lay]. rewrite layout_of_hdr_recsize.
    rewrite Proofs_Layout.recsize_of_rule. symmetry. now apply Proofs_Layout.rs_rule_first. }
  split; [exact E|]. split.
  - intros v Hv. rewrite E. now rewrite (Proofs_Layout.recsize_single _ v Hv).
  - intros Hn. rewrite E. now apply Proofs_Layout.recsize_none.
Qed.

Example reader_recsize_writer_rule_ex : exists d, decode ex_valid_file = Some d /\ c04_valid 1048576 d = true /\
  length (Proofs_Layout.rec_vars (dc_hdr d)) = 2%nat /\ Proofs_Layout.recsize_of (dc_hdr d) = 12.
Proof.
  destruct (decode ex_valid_file) as [d|] eqn:E; [|vm_compute in E; discriminate].
  exists d. split; [reflexivity|]. vm_compute in E. inversion E. subst d. vm_compute. repeat split; reflexivity.
Qed.
