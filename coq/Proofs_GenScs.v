(* Proofs_GenScs.v — the tie between the dispatcher's argument checker as built and Access.check_scs:

     Gen_scs.check_start_count_stride_c pncp varid isRead (kind_code kind) start count stride NC_NOERR numrecs
       = FVal (Access.check_scs format strict (recdim >=? 0) (z2b isRead) kind shape numrecs start count stride)

   for ALL arguments satisfying the guards the C code relies on (gen_check_scs_eq), together with
     gen_check_EINVALCOORDS_eq   check_EINVALCOORDS (C) = Access.check_EINVALCOORDS, no guard
     gen_check_EEDGE_eq          check_EEDGE (C) = Access.check_EEDGE where its arithmetic does not overflow
     gen_check_scs_null_start    start == NULL is rejected with NC_EINVALCOORDS
     gen_check_scs_inq_error     an error of the driver's inq_dim is returned unchanged
   Gen_scs.v is regenerated on every run by tools/tr_scs.py (tools/tr_cfun.py, target scs) from
   src/dispatchers/var_getput.c as built (m4 output); combinators: CSub.v.

   The view: pncp->vars[varid] = c_pvar recdim shape (ndims = length of shape, shape array as stored by the
   dispatcher); pncp->format, pncp->flag as they are (strict = flag & NC_MODE_STRICT_COORD_BOUND <> 0);
   start / count / stride = NULL or arrays of ndims entries; api_kind by kind_code (NC_api enumeration);
   the driver call pncp->driver->inq_dim(..., &shape[0]) is an unknown function that returns x1_inq_dim_ret
   and stores x1_inq_dim_out (the current number of records) to shape[0]; the theorem instantiates them with
   NC_NOERR and the model's numrecs.
   Guards: ndims > 0 (the callers test it; the C code reads start[0] unconditionally), the arrays have ndims
   entries, ndims fits an int, format is a classic one (1, 2, 5), the dimension lengths (with the record count
   in place of shape[0]) are values of MPI_Offset, and scs_sum_ok: for an accepted start (0 <= start <= shape)
   and a count in [0, shape] the sum start + count, which check_EEDGE computes in MPI_Offset, does not exceed
   2^63 - 1.  That can fail only for a dimension longer than 2^62 (scs_sum_ok_small); the library does not
   enforce it (gen_check_scs_sum_witness).
   The stride test needs NO guard: since commit 084e6895 of /repo check_EEDGE compares
   stride > (shape - 1 - start) / (count - 1) instead of forming (count - 1) * stride; stride_test_exact and
   eedge_test prove that test equal to the model's start + (count - 1) * stride >= shape for every stride
   value, and eedge_checks that its subtractions and its division are defined (operands >= 0, so the
   truncating C division is the model's floor division). *)
From Pnc Require Import Base Gen_consts Access CSub Gen_scs Proofs_CSub Proofs_CheckScs.
Require Import String.
Require Import Lia ZArith ZifyBool List Bool.
Import ListNotations.
Local Open Scope Z_scope.

Lemma gen_check_EINVALCOORDS_eq : forall sc s c sh,
  check_EINVALCOORDS_c sc s c sh = FVal (check_EINVALCOORDS (z2b sc) s c sh).
Proof.
  intros sc s c sh. unfold check_EINVALCOORDS_c, check_EINVALCOORDS_body, check_EINVALCOORDS.
  destruct (z2b sc).
  - destruct ((s <? 0) || (s >=? sh)); reflexivity.
  - destruct ((s <? 0) || (s >? sh)); cbn [c_bind]; [reflexivity|].
    destruct ((s =? sh) && (c >? 0)); reflexivity.
Qed.

(* what check_EEDGE still relies on: the sum start + count (evaluated when count <= shape) fits MPI_Offset,
   start is not negative (the dispatcher has tested it before), shape is a value of MPI_Offset *)
Definition edge_arith_ok (s c sh : Z) : Prop :=
  (c <= sh -> in_i64 (s + c) = true) /\ 0 <= s /\ sh <= 9223372036854775807.

Definition ptr_at (pt : c_ptr Z) (t : option Z) : Prop :=
  match t with
  | None => pt = None
  | Some tv => p_ok pt 0 = true /\ p_get 0 pt 0 = tv
  end.

(* the stride test without the product:  for c > 1, t > 0 and 0 <= sh - 1 - s,
   t > (sh - 1 - s) / (c - 1)   iff   s + (c - 1) * t >= sh   — for EVERY stride value t *)
Lemma stride_test_exact : forall s c t sh, 1 < c -> 0 <= sh - 1 - s ->
  (t >? (sh - 1 - s) / (c - 1)) = (s + (c - 1) * t >=? sh).
Proof.
  intros s c t sh Hc Hd.
  assert (Hm : (c - 1) * ((sh - 1 - s) / (c - 1)) <= sh - 1 - s < (c - 1) * ((sh - 1 - s) / (c - 1)) + (c - 1)).
  { pose proof (Z.mul_div_le (sh - 1 - s) (c - 1)). pose proof (Z.mul_succ_div_gt (sh - 1 - s) (c - 1)). lia. }
  destruct (t >? (sh - 1 - s) / (c - 1)) eqn:E; symmetry; nia.
Qed.

Lemma eedge_checks : forall s c sh,
  c <= sh -> s + c <= sh -> 0 <= s -> sh <= 9223372036854775807 -> 1 < c ->
  in_i64 (sh - 1) = true /\ in_i64 (sh - 1 - s) = true /\ in_i64 (c - 1) = true /\
  div_ok i64_min (sh - 1 - s) (c - 1) = true.
Proof.
  intros s c sh H1 H2 H3 H4 H5.
  split; [apply in_i64_iff; lia|]. split; [apply in_i64_iff; lia|]. split; [apply in_i64_iff; lia|].
  apply div_ok_pos. lia.
Qed.

(* the C test (truncating division on operands that are >= 0 here) against the model's product test *)
Lemma eedge_test : forall s c tv sh, c <= sh -> s + c <= sh ->
  ((c >? 1) && (tv >? 0) && (tv >? Z.quot (sh - 1 - s) (c - 1))) = ((c >? 0) && (s + (c - 1) * tv >=? sh)).
Proof.
  intros s c tv sh H1 H2.
  destruct (c >? 1) eqn:Ec; cbn [andb].
  - rewrite quot_is_div by lia. rewrite stride_test_exact by lia.
    replace (c >? 0) with true by lia. cbn [andb].
    destruct (tv >? 0) eqn:Et; cbn [andb]; [reflexivity|].
    symmetry. assert (Hle : (c - 1) * tv <= 0) by nia. lia.
  - destruct (c >? 0) eqn:Ec0; cbn [andb]; [|reflexivity].
    assert (Hceq : c = 1) by lia. subst c. replace (s + (1 - 1) * tv) with s by ring. lia.
Qed.

Lemma gen_check_EEDGE_eq : forall ps pc pt psh s c t sh,
  p_ok ps 0 = true -> p_get 0 ps 0 = s ->
  p_ok pc 0 = true -> p_get 0 pc 0 = c ->
  p_ok psh 0 = true -> p_get 0 psh 0 = sh ->
  ptr_at pt t -> edge_arith_ok s c sh ->
  check_EEDGE_c ps pc pt psh = FVal (check_EEDGE s c t sh).
Proof.
  intros ps pc pt psh s c t sh Hs1 Hs2 Hc1 Hc2 Hh1 Hh2 Ht [Ha [Hs0 Hshm]].
  unfold check_EEDGE_c, check_EEDGE_body, check_EEDGE.
  rewrite ?Hs1, ?Hs2, ?Hc1, ?Hc2, ?Hh1, ?Hh2. cbn [andb].
  assert (Hif : (if c >? sh then true else in_i64 (s + c) && true) = true).
  { destruct (c >? sh) eqn:E; [reflexivity|]. rewrite Ha by (clear - E; lia). reflexivity. }
  rewrite !Hif. cbn [c_chk].
  destruct ((c >? sh) || (s + c >? sh)) eqn:E1; cbn [c_bind]; [reflexivity|].
  assert (Hcs : c <= sh /\ s + c <= sh) by (clear - E1; lia). destruct Hcs as [Hcs1 Hcs2].
  destruct t as [tv|]; cbn [ptr_at] in Ht.
  - destruct Ht as [Ht1 Ht2].
    assert (Hnn : p_isnull pt = false) by (destruct pt; [reflexivity | discriminate]).
    rewrite Hnn, Ht1, Ht2. cbn [andb].
    assert (Hchk : ((if c >? 1 then true else true) &&
                    (if (c >? 1) && (tv >? 0)
                     then in_i64 (sh - 1) && true && in_i64 (sh - 1 - s) && in_i64 (c - 1) &&
                          div_ok i64_min (sh - 1 - s) (c - 1)
                     else true)) = true).
    { destruct (c >? 1) eqn:Ec; cbn [andb]; [|reflexivity].
      destruct (tv >? 0); [|reflexivity].
      assert (Hc1' : 1 < c) by (clear - Ec; lia).
      destruct (eedge_checks s c sh Hcs1 Hcs2 Hs0 Hshm Hc1') as [H1 [H2 [H3 H4]]].
      rewrite H1, H2, H3, H4. reflexivity. }
    rewrite Hchk. cbn [c_chk].
    rewrite (eedge_test s c tv sh Hcs1 Hcs2).
    destruct ((c >? 0) && (s + (c - 1) * tv >=? sh)); reflexivity.
  - subst pt. reflexivity.
Qed.

(* ---------- lists by index ---------- *)
Lemma znth_nth : forall A (l : list A) k d, znth l (Z.of_nat k) d = nth k l d.
Proof.
  induction l as [|a l IH]; intros k d.
  - destruct k; reflexivity.
  - destruct k as [|k]; [reflexivity|].
    cbn [znth nth]. destruct (Z.of_nat (S k) =? 0) eqn:E; [lia|].
    replace (Z.of_nat (S k) - 1) with (Z.of_nat k) by lia. apply IH.
Qed.

Lemma skipn_nth_cons : forall A (l : list A) k d, (k < length l)%nat ->
  skipn k l = nth k l d :: skipn (S k) l.
Proof.
  induction l as [|a l IH]; intros k d H; [cbn in H; lia|].
  destruct k as [|k]; [reflexivity|]. cbn [skipn nth]. cbn [length] in H.
  rewrite (IH k d) by lia. reflexivity.
Qed.

Lemma skipn_all' : forall A (l : list A) k, (length l <= k)%nat -> skipn k l = [].
Proof.
  induction l as [|a l IH]; intros k H; [destruct k; reflexivity|].
  destruct k as [|k]; [cbn in H; lia|]. cbn [skipn]. apply IH. cbn [length] in H. lia.
Qed.

Lemma Zlen_len : forall A (l : list A), Zlen l = Z.of_nat (length l).
Proof. reflexivity. Qed.

(* ---------- the view ---------- *)
Definition c_arr (l : option (list Z)) : c_ptr Z :=
  match l with Some x => Some (x, 0) | None => None end.
Definition kind_code (k : apikind) : Z :=
  match k with API_VAR1 => 3 | API_VARA => 4 | API_VARS => 5 | API_VARM => 6 end.
Definition c_pvar (recdim : Z) (shape : list Z) : c_PNC_var :=
  {| PNC_var__ndims := Zlen shape; PNC_var__recdim := recdim; PNC_var__shape := Some (shape, 0) |}.

Ltac scs_st :=
  unfold set_check_start_count_stride__err, set_check_start_count_stride__firstDim,
         set_check_start_count_stride__i, set_check_start_count_stride__len,
         set_check_start_count_stride__len_2, set_check_start_count_stride__ndims,
         set_check_start_count_stride__shape;
  cbn [check_start_count_stride__err check_start_count_stride__firstDim
       check_start_count_stride__i check_start_count_stride__len
       check_start_count_stride__len_2 check_start_count_stride__ndims
       check_start_count_stride__shape].

Lemma p_ok_arr : forall (l : list Z) k, (k < length l)%nat -> p_ok (Some (l, 0)) (Z.of_nat k) = true.
Proof. intros. apply p_ok_some. rewrite Zlen_len. lia. Qed.

Lemma p_get_arr : forall (l : list Z) k, p_get 0 (Some (l, 0)) (Z.of_nat k) = nth k l 0.
Proof. intros. rewrite p_get_some, Z.add_0_l. apply znth_nth. Qed.

(* count == NULL ? 1 : count[i] *)
Lemma len_at_chk : forall count (shp : list Z) k, (k < length shp)%nat ->
  match count with Some cn => length cn = length shp | None => True end ->
  (if p_isnull (c_arr count) then true else p_ok (c_arr count) (Z.of_nat k)) = true.
Proof.
  intros [cn|] shp k Hk Hl; cbn [c_arr p_isnull]; [|reflexivity].
  apply p_ok_arr. lia.
Qed.

Lemma nth_map_const : forall A (l : list A) (c d : Z) k, (k < length l)%nat ->
  nth k (map (fun _ => c) l) d = c.
Proof.
  induction l as [|a l IH]; intros c d k H; [cbn in H; lia|].
  destruct k as [|k]; [reflexivity|]. cbn [map nth]. apply IH. cbn [length] in H. lia.
Qed.

Lemma len_at_val : forall count (shp : list Z) k, (k < length shp)%nat ->
  (if p_isnull (c_arr count) then 1 else p_get 0 (c_arr count) (Z.of_nat k)) = nth k (cnt_or1 count shp) 0.
Proof.
  intros [cn|] shp k Hk; cbn [c_arr p_isnull cnt_or1].
  - apply p_get_arr.
  - symmetry. apply nth_map_const. exact Hk.
Qed.

Lemma cnt_or1_length : forall count (shp : list Z),
  match count with Some cn => length cn = length shp | None => True end ->
  length (cnt_or1 count shp) = length shp.
Proof. intros [cn|] shp H; cbn [cnt_or1]; [exact H | apply map_length]. Qed.

(* one step of the model's folds *)
Lemma coords_err_step : forall strict st cn shp k,
  (k < length st)%nat -> (k < length cn)%nat -> (k < length shp)%nat ->
  coords_err strict (skipn k st) (skipn k cn) (skipn k shp) =
  let e := check_EINVALCOORDS strict (nth k st 0) (nth k cn 0) (nth k shp 0) in
  if e =? NC_NOERR then coords_err strict (skipn (S k) st) (skipn (S k) cn) (skipn (S k) shp) else e.
Proof.
  intros strict st cn shp k H1 H2 H3.
  rewrite (skipn_nth_cons _ st k 0 H1), (skipn_nth_cons _ cn k 0 H2), (skipn_nth_cons _ shp k 0 H3).
  reflexivity.
Qed.

Lemma coords_err_end : forall strict st cn shp k, (length st <= k)%nat ->
  coords_err strict (skipn k st) (skipn k cn) (skipn k shp) = NC_NOERR.
Proof. intros. rewrite (skipn_all' _ st) by assumption. reflexivity. Qed.

(* an accepted start index lies in [0, shape] *)
Lemma coords_fit : forall strict st cn shp m k,
  length st = length shp -> length cn = length shp -> (k + m = length shp)%nat ->
  coords_err strict (skipn k st) (skipn k cn) (skipn k shp) = NC_NOERR ->
  forall j, (k <= j)%nat -> (j < length shp)%nat -> 0 <= nth j st 0 <= nth j shp 0.
Proof.
  intros strict st cn shp. induction m as [|m IH]; intros k Hls Hlc Hk H j Hj1 Hj2; [lia|].
  rewrite coords_err_step in H by lia. cbv zeta in H.
  destruct (check_EINVALCOORDS strict (nth k st 0) (nth k cn 0) (nth k shp 0) =? NC_NOERR) eqn:E.
  - destruct (Nat.eq_dec j k) as [->|Hne].
    + apply Z.eqb_eq in E. rewrite check_EINVALCOORDS_code in E.
      destruct (start_fits strict (nth k st 0) (nth k cn 0) (nth k shp 0)) eqn:Ef; [|discriminate].
      apply start_fits_nonneg in Ef. exact Ef.
    + apply (IH (S k)); try assumption; lia.
  - rewrite H in E. discriminate.
Qed.

Definition NC_STRICT : Z := 2097152.   (* NC_MODE_STRICT_COORD_BOUND as the generated code has it *)

Definition edge_dim (s c : Z) (t : option Z) (sh : Z) : Z :=
  if sh <? 0 then NC_EEDGE else if c <? 0 then NC_ENEGATIVECNT else check_EEDGE s c t sh.

Lemma edge_err_step : forall st cn ts shp k,
  (k < length st)%nat -> (k < length cn)%nat -> (k < length ts)%nat -> (k < length shp)%nat ->
  edge_err (skipn k st) (skipn k cn) (skipn k ts) (skipn k shp) =
  let e := edge_dim (nth k st 0) (nth k cn 0) (nth k ts None) (nth k shp 0) in
  if e =? NC_NOERR then edge_err (skipn (S k) st) (skipn (S k) cn) (skipn (S k) ts) (skipn (S k) shp) else e.
Proof.
  intros st cn ts shp k H1 H2 H3 H4.
  rewrite (skipn_nth_cons _ st k 0 H1), (skipn_nth_cons _ cn k 0 H2),
          (skipn_nth_cons _ ts k None H3), (skipn_nth_cons _ shp k 0 H4).
  reflexivity.
Qed.

Lemma edge_err_end : forall st cn ts shp k, (length st <= k)%nat ->
  edge_err (skipn k st) (skipn k cn) (skipn k ts) (skipn k shp) = NC_NOERR.
Proof. intros. rewrite (skipn_all' _ st) by assumption. reflexivity. Qed.

Lemma strides_of_len : forall cn stride (n : nat), length cn = n ->
  match stride with Some t => length t = n | None => True end ->
  length (strides_of cn stride) = n.
Proof. intros cn [t|] n H1 H2; cbn [strides_of]; rewrite map_length; assumption. Qed.

Lemma strides_of_nth : forall cn stride k, (k < length cn)%nat ->
  match stride with Some t => length t = length cn | None => True end ->
  nth k (strides_of cn stride) None = match stride with Some t => Some (nth k t 0) | None => None end.
Proof.
  intros cn [t|] k Hk Hl; cbn [strides_of].
  - rewrite (nth_indep _ None (Some 0)) by (rewrite map_length; lia). apply map_nth.
  - clear Hl. revert k Hk. induction cn as [|a cn IH]; intros k Hk; [cbn in Hk; lia|].
    destruct k as [|k]; [reflexivity|]. cbn [map nth]. apply IH. cbn [length] in Hk. lia.
Qed.

(* start + i etc. *)
Lemma p_add_ok_arr : forall (l : list Z) k, (k <= length l)%nat -> p_add_ok (Some (l, 0)) (Z.of_nat k) = true.
Proof. intros. unfold p_add_ok. rewrite Zlen_len. lia. Qed.

Lemma p_ok_add_arr : forall (l : list Z) k, (k < length l)%nat -> p_ok (p_add (Some (l, 0)) (Z.of_nat k)) 0 = true.
Proof. intros. unfold p_add. apply p_ok_some. rewrite Zlen_len. lia. Qed.

Lemma p_get_add_arr : forall (l : list Z) k, p_get 0 (p_add (Some (l, 0)) (Z.of_nat k)) 0 = nth k l 0.
Proof.
  intros. unfold p_add. rewrite p_get_some. replace (0 + Z.of_nat k + 0) with (Z.of_nat k) by lia. apply znth_nth.
Qed.

(* what a checking loop yields: the model's code e if it is an error (returned at once), else the state after the loop *)
Definition loop_post {S} (R : cres S) (e : Z) (P : S -> Prop) : Prop :=
  match R with
  | CRet v => e <> NC_NOERR /\ v = e
  | CNorm s' => e = NC_NOERR /\ P s'
  | _ => False
  end.

Section Loops.
Variables (pncp : c_PNC) (varid isr kz : Z) (st : list Z) (count stride : option (list Z)) (xret xout : Z).
Let strict := z2b (Z.land (PNC__flag pncp) NC_STRICT).

Definition mkst (e fd i ln l2 nd : Z) (shp : list Z) : st_check_start_count_stride :=
  {| check_start_count_stride__err := e; check_start_count_stride__firstDim := fd;
     check_start_count_stride__i := i; check_start_count_stride__len := ln;
     check_start_count_stride__len_2 := l2; check_start_count_stride__ndims := nd;
     check_start_count_stride__shape := Some (shp, 0) |}.

Lemma loop1_res : forall m k fuel e0 fd ln l2 shp,
  length st = length shp ->
  match count with Some cn => length cn = length shp | None => True end ->
  (k + m = length shp)%nat -> (m < fuel)%nat -> Zlen shp <= 2147483647 ->
  let e := coords_err strict (skipn k st) (skipn k (cnt_or1 count shp)) (skipn k shp) in
  let R := c_loop fuel
     (check_start_count_stride_loop1_cdef pncp varid isr kz (Some (st, 0)) (c_arr count) (c_arr stride) xret xout)
     (check_start_count_stride_loop1_cond pncp varid isr kz (Some (st, 0)) (c_arr count) (c_arr stride) xret xout)
     (check_start_count_stride_loop1_body pncp varid isr kz (Some (st, 0)) (c_arr count) (c_arr stride) xret xout)
     (check_start_count_stride_loop1_inc pncp varid isr kz (Some (st, 0)) (c_arr count) (c_arr stride) xret xout)
     (mkst e0 fd (Z.of_nat k) ln l2 (Zlen shp) shp) in
  loop_post R e (fun s' => exists e' l2', s' = mkst e' fd (Zlen shp) ln l2' (Zlen shp) shp).
Proof.
  induction m as [|m IH]; intros k fuel e0 fd ln l2 shp Hls Hlc Hk Hf Hn e R; subst e R.
  - destruct fuel as [|f]; [lia|].
    rewrite c_loop_exit;
      [ | reflexivity | unfold check_start_count_stride_loop1_cond, mkst; scs_st; rewrite Zlen_len; lia ].
    cbn [loop_post]. split; [apply coords_err_end; lia|].
    exists e0, l2. unfold mkst. rewrite Zlen_len. replace k with (length shp) by lia. reflexivity.
  - destruct fuel as [|f]; [lia|].
    pose proof (cnt_or1_length count shp Hlc) as Hl1.
    rewrite coords_err_step by lia. cbv zeta.
    rewrite c_loop_iter;
      [ | reflexivity | unfold check_start_count_stride_loop1_cond, mkst; scs_st; rewrite Zlen_len; lia ].
    unfold check_start_count_stride_loop1_body at 1. unfold mkst. scs_st.
    rewrite (len_at_chk count shp k) by (assumption || lia). cbn [c_chk c_bind]. scs_st.
    rewrite (len_at_val count shp k) by lia.
    rewrite !p_ok_arr by lia. rewrite !p_get_arr. cbn [andb c_chk].
    rewrite gen_check_EINVALCOORDS_eq. cbn [c_call c_bind]. scs_st.
    fold NC_STRICT. fold strict.
    set (ek := check_EINVALCOORDS strict (nth k st 0) (nth k (cnt_or1 count shp) 0) (nth k shp 0)).
    change NC_NOERR with 0.
    destruct (ek =? 0) eqn:Ee; cbn [negb].
    + unfold check_start_count_stride_loop1_inc at 1. scs_st.
      assert (Hi : in_i32 (Z.of_nat k + 1) = true) by (apply in_i32_iff; rewrite Zlen_len in Hn; lia).
      rewrite Hi. cbn [c_chk c_bind]. scs_st.
      replace (Z.of_nat k + 1) with (Z.of_nat (S k)) by lia.
      assert (Hk' : (S k + m = length shp)%nat) by lia.
      assert (Hf' : (m < f)%nat) by lia.
      exact (IH (S k) f ek fd ln (nth k (cnt_or1 count shp) 0) shp Hls Hlc Hk' Hf' Hn).
    + cbn [loop_post]. split; [change NC_NOERR with 0; lia | reflexivity].
Qed.

End Loops.

Section Loop2.
Variables (pncp : c_PNC) (varid isr kz : Z) (st cn : list Z) (stride : option (list Z)) (xret xout : Z).

Lemma loop2_res : forall m k fuel e0 fd ln l2 shp,
  length st = length shp -> length cn = length shp ->
  match stride with Some t => length t = length shp | None => True end ->
  (forall j, (k <= j)%nat -> (j < length shp)%nat -> 0 <= nth j cn 0 ->
             edge_arith_ok (nth j st 0) (nth j cn 0) (nth j shp 0)) ->
  (k + m = length shp)%nat -> (m < fuel)%nat -> Zlen shp <= 2147483647 ->
  let e := edge_err (skipn k st) (skipn k cn) (skipn k (strides_of cn stride)) (skipn k shp) in
  let R := c_loop fuel
     (check_start_count_stride_loop2_cdef pncp varid isr kz (Some (st, 0)) (Some (cn, 0)) (c_arr stride) xret xout)
     (check_start_count_stride_loop2_cond pncp varid isr kz (Some (st, 0)) (Some (cn, 0)) (c_arr stride) xret xout)
     (check_start_count_stride_loop2_body pncp varid isr kz (Some (st, 0)) (Some (cn, 0)) (c_arr stride) xret xout)
     (check_start_count_stride_loop2_inc pncp varid isr kz (Some (st, 0)) (Some (cn, 0)) (c_arr stride) xret xout)
     (mkst e0 fd (Z.of_nat k) ln l2 (Zlen shp) shp) in
  loop_post R e (fun s' => exists e', s' = mkst e' fd (Zlen shp) ln l2 (Zlen shp) shp).
Proof.
  induction m as [|m IH]; intros k fuel e0 fd ln l2 shp Hls Hlc Hlt Har Hk Hf Hn e R; subst e R.
  - destruct fuel as [|f]; [lia|].
    rewrite c_loop_exit;
      [ | reflexivity | unfold check_start_count_stride_loop2_cond, mkst; scs_st; rewrite Zlen_len; lia ].
    cbn [loop_post]. split; [apply edge_err_end; lia|].
    exists e0. unfold mkst. rewrite Zlen_len. replace k with (length shp) by lia. reflexivity.
  - destruct fuel as [|f]; [lia|].
    assert (Hlts : length (strides_of cn stride) = length shp).
    { apply strides_of_len; [exact Hlc|]. destruct stride; [exact Hlt | exact I]. }
    rewrite edge_err_step by lia. cbv zeta.
    rewrite c_loop_iter;
      [ | reflexivity | unfold check_start_count_stride_loop2_cond, mkst; scs_st; rewrite Zlen_len; lia ].
    unfold check_start_count_stride_loop2_body at 1. unfold mkst. scs_st.
    rewrite !p_ok_arr by lia. rewrite !p_get_arr. cbn [c_chk].
    unfold edge_dim. change NC_EEDGE with (-57). change NC_ENEGATIVECNT with (-210). change NC_NOERR with 0.
    destruct (nth k shp 0 <? 0) eqn:Esh; cbn [c_bind].
    { cbn [Z.eqb loop_post]. split; [discriminate | reflexivity]. }
    scs_st. rewrite !p_ok_arr by lia. rewrite !p_get_arr. cbn [c_chk].
    destruct (nth k cn 0 <? 0) eqn:Ec; cbn [c_bind].
    { cbn [Z.eqb loop_post]. split; [discriminate | reflexivity]. }
    scs_st.
    rewrite !p_add_ok_arr by lia. cbn [andb c_chk].
    pose proof (Har k (Nat.le_refl k) ltac:(lia) ltac:(lia)) as Hak.
    rewrite (strides_of_nth cn stride k) by (lia || (destruct stride; [lia | exact I])).
    set (sk := nth k st 0) in *. set (ck := nth k cn 0) in *. set (hk := nth k shp 0) in *.
    assert (Hcall : exists tk,
      (if p_isnull (c_arr stride)
       then c_call (check_EEDGE_c (p_add (Some (st, 0)) (Z.of_nat k)) (p_add (Some (cn, 0)) (Z.of_nat k)) None
                                  (p_add (Some (shp, 0)) (Z.of_nat k)))
                   (fun r4 => CNorm (mkst r4 fd (Z.of_nat k) ln l2 (Zlen shp) shp))
       else c_chk (p_add_ok (c_arr stride) (Z.of_nat k) && true)
              "check_start_count_stride: arguments of check_EEDGE(start + i, count + i, stride + i, shape + i)"
              (c_call (check_EEDGE_c (p_add (Some (st, 0)) (Z.of_nat k)) (p_add (Some (cn, 0)) (Z.of_nat k))
                                     (p_add (c_arr stride) (Z.of_nat k)) (p_add (Some (shp, 0)) (Z.of_nat k)))
                      (fun r5 => CNorm (mkst r5 fd (Z.of_nat k) ln l2 (Zlen shp) shp))))
      = CNorm (mkst (check_EEDGE sk ck tk hk) fd (Z.of_nat k) ln l2 (Zlen shp) shp)
      /\ tk = match stride with Some t => Some (nth k t 0) | None => None end).
    { destruct stride as [t|]; cbn [c_arr p_isnull].
      - exists (Some (nth k t 0)). split; [|reflexivity].
        rewrite p_add_ok_arr by lia. cbn [andb c_chk].
        rewrite (gen_check_EEDGE_eq _ _ _ _ sk ck (Some (nth k t 0)) hk);
          [ reflexivity | apply p_ok_add_arr; lia | apply p_get_add_arr | apply p_ok_add_arr; lia
          | apply p_get_add_arr | apply p_ok_add_arr; lia | apply p_get_add_arr
          | split; [apply p_ok_add_arr; lia | apply p_get_add_arr] | exact Hak ].
      - exists None. split; [|reflexivity].
        rewrite (gen_check_EEDGE_eq _ _ _ _ sk ck None hk);
          [ reflexivity | apply p_ok_add_arr; lia | apply p_get_add_arr | apply p_ok_add_arr; lia
          | apply p_get_add_arr | apply p_ok_add_arr; lia | apply p_get_add_arr
          | reflexivity | exact Hak ]. }
    destruct Hcall as [tk [Hcall Htk]]. unfold mkst in Hcall. rewrite Hcall. rewrite <- Htk.
    cbn [c_bind]. scs_st.
    set (ek := check_EEDGE sk ck tk hk).
    destruct (ek =? 0) eqn:Ee; cbn [negb].
    + unfold check_start_count_stride_loop2_inc at 1. scs_st.
      assert (Hi : in_i32 (Z.of_nat k + 1) = true) by (apply in_i32_iff; rewrite Zlen_len in Hn; lia).
      rewrite Hi. cbn [c_chk c_bind]. scs_st.
      replace (Z.of_nat k + 1) with (Z.of_nat (S k)) by lia.
      assert (Hk' : (S k + m = length shp)%nat) by lia.
      assert (Hf' : (m < f)%nat) by lia.
      assert (Har' : forall j, (S k <= j)%nat -> (j < length shp)%nat -> 0 <= nth j cn 0 ->
                       edge_arith_ok (nth j st 0) (nth j cn 0) (nth j shp 0))
        by (intros j Hj1 Hj2 Hj3; apply Har; [lia | exact Hj2 | exact Hj3]).
      exact (IH (S k) f ek fd ln l2 shp Hls Hlc Hlt Har' Hk' Hf' Hn).
    + cbn [loop_post]. split; [change NC_NOERR with 0; lia | reflexivity].
Qed.
End Loop2.

Section Loop3.
Variables (pncp : c_PNC) (varid isr kz : Z) (pst pcn : c_ptr Z) (t : list Z) (xret xout : Z).

Lemma loop3_res : forall m k fuel e0 fd ln l2 shp,
  length t = length shp ->
  (k + m = length shp)%nat -> (m < fuel)%nat -> Zlen shp <= 2147483647 ->
  let e := if existsb (fun x => x <=? 0) (skipn k t) then NC_ESTRIDE else NC_NOERR in
  let R := c_loop fuel
     (check_start_count_stride_loop3_cdef pncp varid isr kz pst pcn (Some (t, 0)) xret xout)
     (check_start_count_stride_loop3_cond pncp varid isr kz pst pcn (Some (t, 0)) xret xout)
     (check_start_count_stride_loop3_body pncp varid isr kz pst pcn (Some (t, 0)) xret xout)
     (check_start_count_stride_loop3_inc pncp varid isr kz pst pcn (Some (t, 0)) xret xout)
     (mkst e0 fd (Z.of_nat k) ln l2 (Zlen shp) shp) in
  loop_post R e (fun s' => s' = mkst e0 fd (Zlen shp) ln l2 (Zlen shp) shp).
Proof.
  induction m as [|m IH]; intros k fuel e0 fd ln l2 shp Hlt Hk Hf Hn e R; subst e R.
  - destruct fuel as [|f]; [lia|].
    rewrite c_loop_exit;
      [ | reflexivity | unfold check_start_count_stride_loop3_cond, mkst; scs_st; rewrite Zlen_len; lia ].
    rewrite (skipn_all' _ t) by lia. cbn [existsb loop_post]. split; [reflexivity|].
    unfold mkst. rewrite Zlen_len. replace k with (length shp) by lia. reflexivity.
  - destruct fuel as [|f]; [lia|].
    rewrite (skipn_nth_cons _ t k 0) by lia. cbn [existsb].
    rewrite c_loop_iter;
      [ | reflexivity | unfold check_start_count_stride_loop3_cond, mkst; scs_st; rewrite Zlen_len; lia ].
    unfold check_start_count_stride_loop3_body at 1. unfold mkst. scs_st.
    rewrite p_ok_arr by lia. rewrite p_get_arr. cbn [c_chk].
    destruct (nth k t 0 <=? 0) eqn:Et; cbn [orb].
    + cbn [loop_post]. split; [discriminate | reflexivity].
    + unfold check_start_count_stride_loop3_inc at 1. scs_st.
      assert (Hi : in_i32 (Z.of_nat k + 1) = true) by (apply in_i32_iff; rewrite Zlen_len in Hn; lia).
      rewrite Hi. cbn [c_chk c_bind]. scs_st.
      replace (Z.of_nat k + 1) with (Z.of_nat (S k)) by lia.
      assert (Hk' : (S k + m = length shp)%nat) by lia.
      assert (Hf' : (m < f)%nat) by lia.
      exact (IH (S k) f e0 fd ln l2 shp Hlt Hk' Hf' Hn).
Qed.
End Loop3.

Definition scs_lengths (shape st : list Z) (count stride : option (list Z)) : Prop :=
  shape <> [] /\ length st = length shape /\
  match count with Some cn => length cn = length shape | None => True end /\
  match stride with Some t => length t = length shape | None => True end.

(* what remains of the arithmetic guard: the sum start[i] + count[i], which check_EEDGE computes for an accepted
   start (0 <= start <= shape) and a count in [0, shape], must fit MPI_Offset; it can exceed 2^63 - 1 only when
   the dimension is longer than 2^62 (scs_sum_ok_small) *)
Definition scs_sum_ok (shp st : list Z) (count : option (list Z)) : Prop :=
  match count with
  | None => True
  | Some cn => forall j, (j < length st)%nat ->
                 0 <= nth j st 0 <= nth j shp 0 -> 0 <= nth j cn 0 <= nth j shp 0 ->
                 nth j st 0 + nth j cn 0 <= 9223372036854775807
  end.

Lemma scs_sum_ok_small : forall shp st count,
  Forall (fun x => x <= 4611686018427387903) shp -> length st = length shp -> scs_sum_ok shp st count.
Proof.
  intros shp st [cn|] Hall Hl; cbn [scs_sum_ok]; [|exact I].
  intros j Hj Hs Hc.
  assert (Hx : nth j shp 0 <= 4611686018427387903).
  { rewrite Forall_forall in Hall. apply Hall. apply nth_In. lia. }
  lia.
Qed.

Theorem gen_check_scs_eq : forall pncp varid isr kind recdim shape numrecs st count stride,
  p_ok (PNC__vars pncp) varid = true ->
  p_get c_PNC_var_default (PNC__vars pncp) varid = c_pvar recdim shape ->
  In (PNC__format pncp) [1; 2; 5] ->
  scs_lengths shape st count stride -> Zlen shape <= 2147483647 ->
  Forall (fun x => x <= 9223372036854775807) (shp_of (recdim >=? 0) shape numrecs) ->
  scs_sum_ok (shp_of (recdim >=? 0) shape numrecs) st count ->
  check_start_count_stride_c pncp varid isr (kind_code kind) (Some (st, 0)) (c_arr count) (c_arr stride)
                             NC_NOERR numrecs
  = FVal (check_scs (PNC__format pncp) (z2b (Z.land (PNC__flag pncp) NC_STRICT)) (recdim >=? 0) (z2b isr)
                    kind shape numrecs (Some st) count stride).
Proof.
  intros pncp varid isr kind recdim shape numrecs st count stride Hok Hget Hfmt [Hne [Hls [Hlc Hlt]]] Hn Hmax Har.
  rewrite check_scs_eq. cbv zeta.
  unfold check_start_count_stride_c, check_start_count_stride_body, st_check_start_count_stride_init.
  set (strict := z2b (Z.land (PNC__flag pncp) NC_STRICT)).
  set (fmt := PNC__format pncp) in *.
  cbn [c_bind]. scs_st. rewrite !Hok, !Hget. cbn [c_chk c_bind c_pvar PNC_var__shape PNC_var__recdim PNC_var__ndims]. scs_st.
  destruct shape as [|sh0 shr]; [exfalso; apply Hne; reflexivity|]. clear Hne.
  destruct st as [|s0 str]; [discriminate|].
  set (isrec := recdim >=? 0).
  set (shp := shp_of isrec (sh0 :: shr) numrecs).
  assert (Hshp_len : length shp = length (sh0 :: shr)) by (unfold shp, shp_of; destruct isrec; reflexivity).
  change (shp_of (recdim >=? 0) (sh0 :: shr) numrecs) with shp in Hmax, Har.
  assert (Hmaxj : forall j, (j < length shp)%nat -> nth j shp 0 <= 9223372036854775807).
  { intros j Hj. rewrite Forall_forall in Hmax. apply Hmax. apply nth_In. exact Hj. }
  (* the record count replaces shape[0] *)
  match goal with |- c_fun (c_bind ?X _) = _ =>
    assert (H1 : X = CNorm (mkst 0 0 0 0 0 0 shp)) end.
  { unfold shp, shp_of, mkst. destruct isrec; [|reflexivity].
    assert (Hp : p_ok (Some (sh0 :: shr, 0)) 0 = true) by apply p_ok_cons0.
    rewrite Hp. reflexivity. }
  rewrite H1. clear H1. unfold mkst at 1. cbn [c_bind]. scs_st.
  (* start[0] *)
  assert (Hp0 : p_ok (Some (s0 :: str, 0)) 0 = true) by apply p_ok_cons0.
  rewrite !Hp0. cbn [p_isnull orb c_chk hd]. rewrite !p_get_some. cbn [Z.add znth Z.eqb].
  destruct (s0 <? 0) eqn:Es0; cbn [c_bind]; [reflexivity|]. scs_st.
  assert (Hf5 : ((fmt <=? 2) || (fmt =? 4)) = (fmt <? 5))
    by (destruct Hfmt as [H|[H|[H|[]]]]; rewrite <- H; reflexivity).
  rewrite !Hf5.
  set (cn1 := cnt_or1 count shp).
  assert (Hl1 : length cn1 = length shp) by (apply cnt_or1_length; destruct count; [rewrite Hshp_len; exact Hlc | exact I]).
  assert (Hlen0 : (if p_isnull (c_arr count) then 1 else p_get 0 (c_arr count) 0) = hd 1 cn1).
  { pose proof (len_at_val count shp 0) as Hv. cbn [Z.of_nat] in Hv.
    rewrite Hv by (rewrite Hshp_len; cbn [length]; lia). fold cn1.
    destruct cn1 as [|c0 cr]; [rewrite Hshp_len in Hl1; discriminate | reflexivity]. }
  assert (Hlen0c : (if p_isnull (c_arr count) then true else p_ok (c_arr count) 0) = true).
  { pose proof (len_at_chk count shp 0) as Hv. cbn [Z.of_nat] in Hv.
    apply Hv; [rewrite Hshp_len; cbn [length]; lia | destruct count; [rewrite Hshp_len; exact Hlc | exact I]]. }
  set (e_rec := if isrec
                then if (fmt <? 5) && (s0 >? NC_MAX_UINT) then NC_EINVALCOORDS
                     else if z2b isr
                          then if (numrecs =? 0) && (hd 1 cn1 >? 0) then NC_EINVALCOORDS
                               else check_EINVALCOORDS strict s0 (hd 1 cn1) numrecs
                          else NC_NOERR
                else NC_NOERR).
  match goal with |- c_fun (c_bind ?X _) = _ =>
    assert (H2 : exists e1 ln1, X = if negb (e_rec =? NC_NOERR) then CRet e_rec
                                    else CNorm (mkst e1 (b2z isrec) 0 ln1 0 0 shp)) end.
  { unfold e_rec, mkst. destruct isrec eqn:Eisrec; [|exists 0, 0; reflexivity].
    assert (Hsh0 : p_ok (Some (shp, 0)) 0 = true /\ p_get 0 (Some (shp, 0)) 0 = numrecs).
    { unfold shp, shp_of. split; [apply p_ok_cons0 | reflexivity]. }
    destruct Hsh0 as [Hsh0a Hsh0b].
    assert (Hif : (if fmt <? 5 then true else true) = true) by (destruct (fmt <? 5); reflexivity).
    rewrite Hif. cbn [c_chk]. change NC_MAX_UINT with 4294967295. change NC_EINVALCOORDS with (-40). change NC_NOERR with 0.
    destruct ((fmt <? 5) && (s0 >? 4294967295)) eqn:Emax; cbn [c_bind]; [exists 0, 0; reflexivity|]. scs_st.
    destruct (z2b isr) eqn:Eisr; cbn [c_bind]; [|exists 0, 0; reflexivity]. scs_st.
    rewrite Hlen0c, Hlen0. cbn [c_chk c_bind]. scs_st. rewrite Hsh0a, Hsh0b. cbn [c_chk andb].
    destruct ((numrecs =? 0) && (hd 1 cn1 >? 0)) eqn:Enr; cbn [c_bind]; [exists 0, 0; reflexivity|]. scs_st.
    rewrite Hsh0a, Hsh0b. cbn [c_chk]. rewrite gen_check_EINVALCOORDS_eq. cbn [c_call c_bind]. scs_st.
    fold NC_STRICT. fold strict.
    destruct (check_EINVALCOORDS strict s0 (hd 1 cn1) numrecs =? 0) eqn:Ece; cbn [negb c_bind]; scs_st.
    - eexists _, _. reflexivity.
    - exists 0, 0. reflexivity. }
  destruct H2 as [e1 [ln1 H2]]. rewrite H2. clear H2.
  fold cn1. fold e_rec.
  destruct (negb (e_rec =? NC_NOERR)) eqn:Erec; cbn [c_bind]; [reflexivity|].
  unfold mkst. scs_st. rewrite ?Hok, ?Hget. cbn [c_chk c_bind c_pvar PNC_var__ndims]. scs_st.
  assert (HZ : Zlen (sh0 :: shr) = Zlen shp) by (rewrite !Zlen_len, Hshp_len; reflexivity).
  rewrite HZ in *.
  set (k := if isrec then 1%nat else 0%nat).
  assert (Hkz : b2z isrec = Z.of_nat k) by (unfold k; destruct isrec; reflexivity).
  assert (Hlsp : length (s0 :: str) = length shp) by (rewrite Hshp_len; exact Hls).
  assert (Hlcp : match count with Some cn => length cn = length shp | None => True end)
    by (destruct count; [rewrite Hshp_len; exact Hlc | exact I]).
  assert (Hltp : match stride with Some t => length t = length shp | None => True end)
    by (destruct stride; [rewrite Hshp_len; exact Hlt | exact I]).
  assert (Hkn : (k <= length shp)%nat)
    by (unfold k; rewrite Hshp_len; cbn [length]; destruct isrec; [apply le_n_S, Nat.le_0_l | apply Nat.le_0_l]).
  assert (Hkm : (k + (length shp - k) = length shp)%nat) by (clear - Hkn; lia).
  (* loop 1: the remaining start indices *)
  match goal with |- context [c_loop ?fu (check_start_count_stride_loop1_cdef _ _ _ _ _ _ _ _ _)] =>
    set (fuel1 := fu) end.
  assert (Hfuel1 : (length shp - k < fuel1)%nat).
  { unfold fuel1, check_start_count_stride_loop1_fuel. scs_st. rewrite Hkz, Zlen_len. apply c_fuel_lt_enough. exact Hkn. }
  pose proof (loop1_res pncp varid isr (kind_code kind) (s0 :: str) count stride NC_NOERR numrecs
                        (length shp - k) k fuel1 e1 (b2z isrec) ln1 0 shp Hlsp Hlcp Hkm Hfuel1 Hn) as HL1.
  cbv zeta in HL1. unfold mkst in HL1. rewrite <- Hkz in HL1. fold cn1 in HL1. fold strict in HL1.
  match type of HL1 with loop_post ?R _ _ => destruct R as [s'| | |v| | |] eqn:ER end;
    cbn [loop_post] in HL1; try contradiction; clear ER Hfuel1; clear fuel1.
  2:{ destruct HL1 as [Hne Hv]. subst v. cbn [c_bind c_fun]. fold k.
      destruct (coords_err strict (skipn k (s0 :: str)) (skipn k cn1) (skipn k shp) =? NC_NOERR) eqn:E;
        [apply Z.eqb_eq in E; contradiction | reflexivity]. }
  destruct HL1 as [Hce [e2 [l22 Hs']]]. subst s'. fold k. rewrite Hce. cbn [Z.eqb negb]. change (NC_NOERR =? NC_NOERR) with true. cbn [negb c_bind]. scs_st.
  (* the record index of a read has been accepted against the record count *)
  assert (Hs0n : isrec = true -> z2b isr = true -> 0 <= s0 <= numrecs).
  { intros Hi Hr. unfold e_rec in Erec. rewrite Hi, Hr in Erec.
    destruct ((fmt <? 5) && (s0 >? NC_MAX_UINT)); [discriminate|].
    destruct ((numrecs =? 0) && (hd 1 cn1 >? 0)); [discriminate|].
    rewrite check_EINVALCOORDS_code in Erec.
    destruct (start_fits strict s0 (hd 1 cn1) numrecs) eqn:Ef; [|discriminate].
    apply start_fits_nonneg in Ef. exact Ef. }
  destruct count as [cn|]; cbn [c_arr p_isnull].
  2:{ destruct kind; reflexivity. }
  destruct cn as [|c0 cnr]; [discriminate|].
  assert (Hpc0 : p_ok (Some (c0 :: cnr, 0)) 0 = true) by apply p_ok_cons0.
  cbn [c_bind]. scs_st.
  set (ts := strides_of (c0 :: cnr) stride).
  set (e0 := if isrec
             then if hd 0 (c0 :: cnr) <? 0 then NC_ENEGATIVECNT
                  else if z2b isr then check_EEDGE s0 (hd 0 (c0 :: cnr)) (hd None ts) numrecs else NC_NOERR
             else NC_NOERR).
  match goal with |- c_fun (c_bind (c_bind ?X _) _) = _ =>
    assert (H3 : exists e3, X = if negb (e0 =? NC_NOERR) then CRet e0
                                else CNorm (mkst e3 (b2z isrec) (Zlen shp) ln1 l22 (Zlen shp) shp)) end.
  { unfold e0, mkst. destruct isrec eqn:Eisrec; [|exists e2; reflexivity].
    rewrite Hpc0, p_get_some. cbn [Z.add znth Z.eqb c_chk hd].
    change NC_ENEGATIVECNT with (-210). change NC_NOERR with 0.
    destruct (c0 <? 0) eqn:Ec0; cbn [c_bind]; [exists e2; reflexivity|]. scs_st.
    destruct (z2b isr) eqn:Eisr; cbn [c_bind]; scs_st; [|exists e2; reflexivity].
    assert (Hsh0 : p_ok (Some (shp, 0)) 0 = true /\ p_get 0 (Some (shp, 0)) 0 = numrecs).
    { unfold shp, shp_of. split; [apply p_ok_cons0 | reflexivity]. }
    destruct Hsh0 as [Hsh0a Hsh0b].
    rewrite (gen_check_EEDGE_eq _ _ _ _ s0 c0 (hd None ts) numrecs);
      [ | exact Hp0 | reflexivity | exact Hpc0 | reflexivity | exact Hsh0a | exact Hsh0b | | ].
    - cbn [c_call c_bind]. scs_st.
      destruct (check_EEDGE s0 c0 (hd None ts) numrecs =? 0) eqn:Ee; cbn [negb c_bind]; scs_st; [eexists; reflexivity | exists 0; reflexivity].
    - unfold ts, strides_of. destruct stride as [t|]; cbn [c_arr].
      + destruct t as [|t0 tr]; [discriminate|]. cbn [map hd ptr_at]. split; [|reflexivity].
        apply p_ok_cons0.
      + reflexivity.
    - pose proof (Hs0n eq_refl eq_refl) as Hs0r.
      assert (Hnr : nth 0 shp 0 = numrecs) by reflexivity.
      pose proof (Hmaxj 0%nat ltac:(rewrite Hshp_len; cbn [length]; apply Nat.lt_0_succ)) as Hm0. rewrite Hnr in Hm0.
      assert (Hc0n : 0 <= c0) by (clear - Ec0; lia).
      split; [|split; [exact (proj1 Hs0r) | exact Hm0]].
      intros Hcs. apply in_i64_iff.
      pose proof (Har 0%nat (Nat.lt_0_succ _)) as Ha0. cbn [nth] in Ha0. rewrite Hnr in Ha0.
      specialize (Ha0 Hs0r (conj Hc0n Hcs)). clear - Ha0 Hs0r Hc0n. lia. }
  destruct H3 as [e3 H3]. rewrite H3. clear H3.
  destruct (negb (e0 =? NC_NOERR)) eqn:Ee0; cbn [c_bind]; [reflexivity|]. unfold mkst. scs_st.
  (* loop 2: counts and edges of the remaining dimensions *)
  match goal with |- context [c_loop ?fu (check_start_count_stride_loop2_cdef _ _ _ _ _ _ _ _ _)] =>
    set (fuel2 := fu) end.
  assert (Hfuel2 : (length shp - k < fuel2)%nat).
  { unfold fuel2, check_start_count_stride_loop2_fuel. scs_st. rewrite Hkz, Zlen_len. apply c_fuel_lt_enough. exact Hkn. }
  assert (Har' : forall j, (k <= j)%nat -> (j < length shp)%nat -> 0 <= nth j (c0 :: cnr) 0 ->
            edge_arith_ok (nth j (s0 :: str) 0) (nth j (c0 :: cnr) 0) (nth j shp 0)).
  { intros j Hj1 Hj2 Hj3.
    pose proof (coords_fit strict (s0 :: str) cn1 shp (length shp - k) k Hlsp Hl1 Hkm Hce j Hj1 Hj2) as Hfit.
    split; [|split; [exact (proj1 Hfit) | apply Hmaxj; exact Hj2]].
    intros Hcs. apply in_i64_iff.
    assert (Hjl : (j < length (s0 :: str))%nat) by (rewrite Hlsp; exact Hj2).
    pose proof (Har j Hjl Hfit (conj Hj3 Hcs)) as Hsum. clear - Hsum Hfit Hj3. lia. }
  pose proof (loop2_res pncp varid isr (kind_code kind) (s0 :: str) (c0 :: cnr) stride NC_NOERR numrecs
                        (length shp - k) k fuel2 e3 (b2z isrec) ln1 l22 shp Hlsp Hlcp Hltp Har' Hkm Hfuel2 Hn) as HL2.
  cbv zeta in HL2. unfold mkst in HL2. rewrite <- Hkz in HL2. fold ts in HL2.
  match type of HL2 with loop_post ?R _ _ => destruct R as [s'| | |v| | |] eqn:ER2 end;
    cbn [loop_post] in HL2; try contradiction; clear ER2 Hfuel2; clear fuel2.
  2:{ destruct HL2 as [Hne Hv]. subst v. cbn [c_bind c_fun]. fold k.
      destruct (edge_err (skipn k (s0 :: str)) (skipn k (c0 :: cnr)) (skipn k ts) (skipn k shp) =? NC_NOERR) eqn:E;
        [apply Z.eqb_eq in E; contradiction | reflexivity]. }
  destruct HL2 as [Hee [e4 Hs']]. subst s'. fold k. rewrite Hee.
  change (NC_NOERR =? NC_NOERR) with true. cbn [negb c_bind]. scs_st.
  (* loop 3: the strides *)
  unfold stride_code.
  destruct stride as [t|]; cbn [c_arr p_isnull negb]; [|reflexivity].
  cbn [c_bind]. scs_st.
  match goal with |- context [c_loop ?fu (check_start_count_stride_loop3_cdef _ _ _ _ _ _ _ _ _)] =>
    set (fuel3 := fu) end.
  assert (Hfuel3 : (length shp - 0 < fuel3)%nat).
  { unfold fuel3, check_start_count_stride_loop3_fuel. scs_st. rewrite Zlen_len. apply (c_fuel_lt_enough (length shp) 0). apply Nat.le_0_l. }
  pose proof (loop3_res pncp varid isr (kind_code kind) (Some (s0 :: str, 0)) (Some (c0 :: cnr, 0)) t NC_NOERR numrecs
                        (length shp - 0) 0 fuel3 e4 (b2z isrec) ln1 l22 shp Hltp (Nat.sub_0_r _) Hfuel3 Hn) as HL3.
  cbv zeta in HL3. unfold mkst in HL3. cbn [Z.of_nat skipn] in HL3.
  match type of HL3 with loop_post ?R _ _ => destruct R as [s'| | |v| | |] eqn:ER3 end;
    cbn [loop_post] in HL3; try contradiction; clear ER3 Hfuel3; clear fuel3.
  - destruct HL3 as [Hse Hs']. subst s'. cbn [c_bind c_fun]. rewrite Hse. reflexivity.
  - destruct HL3 as [Hne Hv]. subst v. reflexivity.
Qed.

(* a NULL start is rejected before anything is read through it *)
Theorem gen_check_scs_null_start : forall pncp varid isr kz recdim shape numrecs pcount pstride,
  p_ok (PNC__vars pncp) varid = true ->
  p_get c_PNC_var_default (PNC__vars pncp) varid = c_pvar recdim shape ->
  shape <> [] ->
  check_start_count_stride_c pncp varid isr kz None pcount pstride NC_NOERR numrecs = FVal NC_EINVALCOORDS.
Proof.
  intros pncp varid isr kz recdim shape numrecs pcount pstride Hok Hget Hne.
  unfold check_start_count_stride_c, check_start_count_stride_body, st_check_start_count_stride_init.
  cbn [c_bind]. scs_st. rewrite !Hok, !Hget. cbn [c_chk c_bind c_pvar PNC_var__shape PNC_var__recdim]. scs_st.
  destruct shape as [|sh0 shr]; [exfalso; apply Hne; reflexivity|].
  assert (Hp : p_ok (Some (sh0 :: shr, 0)) 0 = true) by apply p_ok_cons0.
  destruct (recdim >=? 0); [rewrite Hp|]; reflexivity.
Qed.

(* a failing inquiry of the record count is returned as it is *)
Theorem gen_check_scs_inq_error : forall pncp varid isr kz recdim shape pstart pcount pstride xret xout,
  p_ok (PNC__vars pncp) varid = true ->
  p_get c_PNC_var_default (PNC__vars pncp) varid = c_pvar recdim shape ->
  shape <> [] -> 0 <= recdim -> xret <> NC_NOERR ->
  check_start_count_stride_c pncp varid isr kz pstart pcount pstride xret xout = FVal xret.
Proof.
  intros pncp varid isr kz recdim shape pstart pcount pstride xret xout Hok Hget Hne Hrec Hx.
  unfold check_start_count_stride_c, check_start_count_stride_body, st_check_start_count_stride_init.
  cbn [c_bind]. scs_st. rewrite !Hok, !Hget. cbn [c_chk c_bind c_pvar PNC_var__shape PNC_var__recdim]. scs_st.
  destruct shape as [|sh0 shr]; [exfalso; apply Hne; reflexivity|].
  assert (Hp : p_ok (Some (sh0 :: shr, 0)) 0 = true) by apply p_ok_cons0.
  assert (Hr : (recdim >=? 0) = true) by lia.
  rewrite Hr, Hp. cbn [andb c_chk c_bind]. scs_st.
  assert (Hx0 : (xret =? 0) = false) by (change NC_NOERR with 0 in Hx; lia).
  rewrite Hx0. reflexivity.
Qed.

Theorem gen_scs_subset_complete : tr_cfun_unsupported = [].
Proof. reflexivity. Qed.

(* ---------- the guards are satisfiable; the generated function runs ---------- *)
Definition ex_pnc (fmt flag : Z) (vars : list c_PNC_var) : c_PNC :=
  {| PNC__flag := flag; PNC__format := fmt; PNC__vars := Some (vars, 0) |}.

Example gen_check_scs_guards_ex :
  let pncp := ex_pnc 5 0 [c_pvar (-1) [4; 6]; c_pvar 0 [0; 10; 20]] in
  let st := [2; 0; 5] in let cn := Some [3; 10; 4] in let sd := Some [1; 1; 4] in
  (p_ok (PNC__vars pncp) 1 = true /\
   p_get c_PNC_var_default (PNC__vars pncp) 1 = c_pvar 0 [0; 10; 20] /\
   In (PNC__format pncp) [1; 2; 5] /\
   scs_lengths [0; 10; 20] st cn sd /\ Zlen [0; 10; 20] <= 2147483647 /\
   Forall (fun x => x <= 9223372036854775807) (shp_of (0 >=? 0) [0; 10; 20] 5) /\
   scs_sum_ok (shp_of (0 >=? 0) [0; 10; 20] 5) st cn) /\
  check_start_count_stride_c pncp 1 1 (kind_code API_VARS) (Some (st, 0)) (c_arr cn) (c_arr sd) NC_NOERR 5 = FVal NC_NOERR /\
  check_start_count_stride_c pncp 1 1 (kind_code API_VARS) (Some (st, 0)) (c_arr cn) (c_arr sd) NC_NOERR 4 = FVal NC_EEDGE /\
  check_start_count_stride_c pncp 1 0 (kind_code API_VARS) (Some (st, 0)) (c_arr cn) (c_arr (Some [1; 1; 5])) NC_NOERR 4 = FVal NC_EEDGE /\
  check_start_count_stride_c pncp 1 0 (kind_code API_VARS) (Some (st, 0)) (c_arr cn) (c_arr (Some [1; 0; 4])) NC_NOERR 4 = FVal NC_ESTRIDE.
Proof.
  cbv zeta. split; [|repeat split].
  split; [reflexivity|]. split; [reflexivity|]. split; [cbn; tauto|].
  split; [repeat split; discriminate|]. split; [cbn; lia|].
  split; [repeat constructor; lia|].
  apply scs_sum_ok_small; [repeat constructor; lia | reflexivity].
Qed.

(* The stride test is free of overflow for EVERY stride value: gen_check_EEDGE_eq has no hypothesis about the
   stride.  Before the repair of check_EEDGE (commit 084e6895 of /repo: the product (count - 1) * stride replaced
   by a division) the inputs below made the C arithmetic overflow and the request was accepted; now the generated
   function agrees with the model on them. *)
Example gen_check_scs_huge_strides :
  let pncp := ex_pnc 5 0 [c_pvar (-1) [10]] in
  check_start_count_stride_c pncp 0 0 (kind_code API_VARS) (Some ([0], 0)) (Some ([3], 0))
                             (Some ([4611686018427387904], 0)) NC_NOERR 0 = FVal NC_EEDGE /\
  check_start_count_stride_c pncp 0 0 (kind_code API_VARS) (Some ([0], 0)) (Some ([5], 0))
                             (Some ([4611686018427387905], 0)) NC_NOERR 0 = FVal NC_EEDGE /\
  check_start_count_stride_c pncp 0 0 (kind_code API_VARS) (Some ([0], 0)) (Some ([2], 0))
                             (Some ([9223372036854775807], 0)) NC_NOERR 0 = FVal NC_EEDGE /\
  check_start_count_stride_c pncp 0 0 (kind_code API_VARS) (Some ([0], 0)) (Some ([2], 0))
                             (Some ([-9223372036854775808], 0)) NC_NOERR 0 = FVal NC_ESTRIDE /\
  check_start_count_stride_c pncp 0 0 (kind_code API_VARS) (Some ([0], 0)) (Some ([4], 0))
                             (Some ([3], 0)) NC_NOERR 0 = FVal NC_NOERR /\
  check_start_count_stride_c pncp 0 0 (kind_code API_VARS) (Some ([1], 0)) (Some ([4], 0))
                             (Some ([3], 0)) NC_NOERR 0 = FVal NC_EEDGE /\
  check_scs 5 false false false API_VARS [10] 0 (Some [0]) (Some [5]) (Some [4611686018427387905]) = NC_EEDGE.
Proof. cbv zeta. repeat split. Qed.

(* what remains: a dimension longer than 2^62 lets start + count exceed MPI_Offset (start <= shape and
   count <= shape do not bound the sum below 2^63); there the C sum is undefined, the model says NC_EEDGE *)
Example gen_check_scs_sum_witness :
  let big := 4611686018427387905 in     (* 2^62 + 1 *)
  let pncp := ex_pnc 5 0 [c_pvar (-1) [big]] in
  check_start_count_stride_c pncp 0 0 (kind_code API_VARA) (Some ([big - 1], 0)) (Some ([big], 0)) None NC_NOERR 0
    = FUndef "check_EEDGE: if (*count > *shape || *start + *count > *shape)" /\
  check_scs 5 false false false API_VARA [big] 0 (Some [big - 1]) (Some [big]) None = NC_EEDGE /\
  ~ scs_sum_ok [big] [big - 1] (Some [big]).
Proof.
  cbv zeta. split; [reflexivity|]. split; [reflexivity|].
  intros H. specialize (H 0%nat ltac:(cbn; lia)). cbn [nth] in H. lia.
Qed.

Print Assumptions gen_check_scs_eq.
Print Assumptions gen_check_scs_null_start.
Print Assumptions gen_check_scs_inq_error.
Print Assumptions gen_scs_subset_complete.
