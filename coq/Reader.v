(* Reader.v — executable model of the header READER of PnetCDF:
     src/drivers/ncmpio/ncmpio_header_get.c   hdr_fetch, hdr_get_uint32/64, hdr_get_NC_tag,
                                              hdr_get_nc_type, hdr_get_NC_name, hdr_get_NC_dim(array),
                                              hdr_get_NC_attrV/attr/attrarray, hdr_get_NC_var(array),
                                              compute_var_shape, ncmpio_hdr_get_NC
     src/drivers/ncmpio/ncmpio_attr.m4        x_len_NC_attrV, ncmpio_new_NC_attr
     src/drivers/ncmpio/ncmpio_var.c          ncmpio_new_NC_var, ncmpio_NC_var_shape64
     src/drivers/ncmpio/ncmpio_enddef.c       ncmpio_NC_check_vlen(s), ncmpio_NC_check_voffs
     src/dispatchers/file.c                   ncmpi_inq_file_format (signature detection)
   The model is TOTAL and INSTRUMENTED (property C19): every step at which the C code would
   perform an undefined operation — signed overflow of int / MPI_Offset arithmetic, a store through
   or memcpy to a NULL pointer (allocation results that are not tested), a division by zero —
   yields [Crash site]; it counts fetches, bytes actually read (ncp->get_size) and the bytes
   requested from malloc/calloc.  A single allocation request larger than the parameter [mm]
   fails (returns NULL), as with ASAN_OPTIONS=max_allocation_size_mb / a real out-of-memory.
   The decoders are written ONCE over an abstract byte source [src]; they are instantiated with
     - the CHUNKED source  [csrc]: the bufferinfo window exactly as coded (hdr_fetch: slack move,
       zero fill past end of file, the `slack == chunk` special case, offset/get_size accounting);
       the window is represented by its live part base+pos..end (bytes before pos are dead in C);
     - the FLAT source [fsrc]: the whole zero-extended file, no window.
   MPI-IO errors of MPI_File_read_at are not modelled (the read returns the bytes of the file).
   NC_ENULLPAD: ENABLE_NULL_BYTE_HEADER_PADDING is not defined in the pinned configuration
   (checked against config.h by the check scripts), so padding bytes are skipped unexamined.
   No proofs in this file. *)
From Pnc Require Export HeaderSpec.
Local Open Scope Z_scope.

(* ---------- crash sites (undefined behaviour reachable from file content) ---------- *)
Inductive site : Set :=
| S_rndup_int          (* PNETCDF_RNDUP(ndefined, PNC_ARRAY_GROWBY) in `int`: ndefined + 63 > INT_MAX *)
| S_attr_xlen          (* x_len_NC_attrV: nelems+3 / (nelems+nelems%2)*2 / nelems*4 / nelems*8 overflow *)
| S_attrV_mul          (* hdr_get_NC_attrV: attrp->nelems * xsz overflows (nelems < 0) *)
| S_attr_memcpy_null   (* hdr_get_NC_attrV: memcpy(NULL, ...) — nelems < 0, xvalue never allocated *)
| S_var_calloc_null    (* ncmpio_new_NC_var: shape/dsizes/dimids calloc results not tested *)
| S_shape_product      (* ncmpio_NC_var_shape64: product *= shape[i] *)
| S_check_vlen_mul     (* ncmpio_NC_check_vlen: prod *= shape[i] (negative dimension lengths) *)
| S_div_zero           (* ncmpio_NC_check_vlen: vlen_max / prod with prod = 0 *)
| S_len                (* ncmpio_NC_var_shape64: varp->len = product * xsz; round up *)
| S_recsize            (* compute_var_shape: ncp->recsize += len *)
| S_begin_len          (* compute_var_shape / ncmpio_NC_check_voffs: begin + len *)
| S_hdr_len.           (* ncmpio_hdr_len_NC sum *)

Inductive res (A : Type) : Type :=
| Ok (a : A)
| Err (code : Z)
| Crash (s : site).
Arguments Ok {A} a.
Arguments Err {A} code.
Arguments Crash {A} s.

Definition rbind {A B} (r : res A) (f : A -> res B) : res B :=
  match r with Ok a => f a | Err e => Err e | Crash s => Crash s end.

Record acct := mkacct { ac_alloc : Z;      (* total bytes requested from malloc/calloc *)
                        ac_maxreq : Z;     (* largest single request *)
                        ac_nalloc : Z }.   (* number of requests *)

(* ---------- constants not in Gen_consts (checked against the headers by the check scripts) ---------- *)
Definition I64_MAX : Z := 9223372036854775807.
Definition I64_MIN : Z := -9223372036854775808.
Definition TWO64 : Z := 18446744073709551616.
Definition INT_MAX : Z := 2147483647.
Definition NC_ENOTNC3 : Z := -113.
Definition NC_MAX_DIMS : Z := NC_MAX_INT.      (* pnetcdf.h: NC_MAX_DIMS/ATTRS/VARS/VAR_DIMS = NC_MAX_INT *)
Definition NC_MAX_ATTRS : Z := NC_MAX_INT.
Definition NC_MAX_VARS : Z := NC_MAX_INT.
Definition NC_MAX_VAR_DIMS : Z := NC_MAX_INT.
Definition SZ_NC_DIM : Z := 24.                (* sizeof(NC_dim), NC_attr, NC_var on LP64 (accounting only) *)
Definition SZ_NC_ATTR : Z := 48.
Definition SZ_NC_VAR : Z := 160.

Definition in_i64 (x : Z) : bool := (I64_MIN <=? x) && (x <=? I64_MAX).
Definition chk (s : site) (x : Z) : res Z := if in_i64 x then Ok x else Crash s.
(* (MPI_Offset) of an unsigned 64-bit value: two's complement reinterpretation *)
Definition to_i64 (x : Z) : Z := if x >? I64_MAX then x - TWO64 else x.

(* n bytes from the front of l, zero-extended when l is shorter (zero fill past end of file) *)
Definition take_z (n : Z) (l : list byte) : list byte :=
  let got := zfirstn n l in got ++ zeros (n - Zlen got).

(* ---------- abstract byte source ---------- *)
Record src (S : Type) : Type := mksrc {
  g32 : S -> Z * S;                     (* hdr_get_uint32 / hdr_get_NC_tag / hdr_get_nc_type read *)
  g64 : S -> Z * S;                     (* hdr_get_uint64 *)
  gbytes : Z -> S -> list byte * S;     (* the copy loops of hdr_get_NC_name / hdr_get_NC_attrV *)
  gskip : Z -> S -> S }.                (* `if (pos + padding > end) fetch; pos += padding` *)
Arguments g32 {S} s _.
Arguments g64 {S} s _.
Arguments gbytes {S} s _ _.
Arguments gskip {S} s _ _.

(* ================================================================== *)
(** * The decoders, over any source *)
Section Parse.
Variable S : Type.
Variable X : src S.
Variable mm : Z.          (* largest single allocation request that succeeds *)

Definition pst : Type := (S * acct)%type.
Definition P (A : Type) : Type := pst -> res A * pst.

Definition ret {A} (a : A) : P A := fun s => (Ok a, s).
Definition fail {A} (e : Z) : P A := fun s => (Err e, s).
Definition crash {A} (c : site) : P A := fun s => (Crash c, s).
Definition bind {A B} (m : P A) (f : A -> P B) : P B := fun s =>
  match m s with
  | (Ok a, s') => f a s'
  | (Err e, s') => (Err e, s')
  | (Crash c, s') => (Crash c, s')
  end.
Definition lift {A} (f : S -> A * S) : P A := fun s =>
  match f (fst s) with (x, s') => (Ok x, (s', snd s)) end.
Definition lift_ (f : S -> S) : P unit := fun s => (Ok tt, (f (fst s), snd s)).
Definition pure {A} (r : res A) : P A := fun s => (match r with Ok a => Ok a | Err e => Err e | Crash c => Crash c end, s).
(* malloc/calloc of n bytes: true = non-NULL *)
Definition alloc (n : Z) : P bool := fun s =>
  let a := snd s in
  (Ok (n <=? mm), (fst s, mkacct (ac_alloc a + n) (Z.max (ac_maxreq a) n) (ac_nalloc a + 1))).

Fixpoint iter_p {A} (p : positive) (f : A -> P A) (x : A) : P A :=
  match p with
  | xH => f x
  | xO q => bind (iter_p q f x) (iter_p q f)
  | xI q => bind (f x) (fun x1 => bind (iter_p q f x1) (iter_p q f))
  end.
(* `for (i=0; i<n; i++)` with early exit on error; n as read from the file *)
Definition iter_n {A} (n : Z) (f : A -> P A) (x : A) : P A :=
  match n with Zpos p => iter_p p f x | _ => ret x end.

(* NON_NEG: 32 bit for CDF-1/2, 64 bit for CDF-5 (gbp->version < 5) *)
Definition rd_nn (fmt : Z) : P Z := if fmt <? 5 then lift (g32 X) else lift (g64 X).

(* hdr_get_NC_name *)
Definition rd_name (fmt : Z) : P (list byte) :=
  bind (rd_nn fmt) (fun n =>
  if n >? NC_MAX_NAME then fail NC_EMAXNAME else
  bind (alloc (n + 1)) (fun ok =>
  if negb ok then fail NC_ENOMEM else
  bind (lift (gbytes X n)) (fun b =>
  let padding := padlen n in                       (* PNETCDF_RNDUP(nchars, X_ALIGN) - nchars *)
  bind (if padding >? 0 then lift_ (gskip X padding) else ret tt) (fun _ =>
  ret b)))).

(* hdr_get_NC_dim *)
Definition rd_dim (fmt : Z) (unlimited_id : Z) : P dim :=
  bind (rd_name fmt) (fun nm =>
  bind (rd_nn fmt) (fun sz0 =>
  let sz := to_i64 sz0 in                          (* dim_length = (MPI_Offset)tmp *)
  if negb (unlimited_id =? -1) && (sz =? 0) then fail NC_EUNLIMIT else
  bind (alloc SZ_NC_DIM) (fun ok =>
  if negb ok then fail NC_ENOMEM else ret (mkdim nm sz)))).

(* alloc_size = PNETCDF_RNDUP(ncap->ndefined, PNC_ARRAY_GROWBY), computed in `int` *)
Definition rndup_int (n : Z) : P Z :=
  if n + (PNC_ARRAY_GROWBY - 1) >? INT_MAX then crash S_rndup_int
  else ret (((n + (PNC_ARRAY_GROWBY - 1)) / PNC_ARRAY_GROWBY) * PNC_ARRAY_GROWBY).

(* hdr_get_NC_dimarray; loop state: (i, unlimited_id, dims reversed) *)
Definition rd_dimarray (fmt : Z) : P (list dim) :=
  bind (lift (g32 X)) (fun tag =>
  bind (rd_nn fmt) (fun n =>
  if n >? NC_MAX_DIMS then fail NC_EMAXDIMS else
  if n =? 0 then ret [] else
  if negb (tag =? NC_DIMENSION_TAG) then fail NC_ENOTNC else
  bind (rndup_int n) (fun asz =>
  bind (alloc (asz * 8)) (fun ok =>
  if negb ok then fail NC_ENOMEM else
  bind (iter_n n (fun st : Z * Z * list dim =>
                    let '(i, unlim, acc) := st in
                    bind (rd_dim fmt unlim) (fun d =>
                    ret (i + 1, (if d_size d =? 0 then i else unlim), d :: acc)))
               (0, -1, [])) (fun st =>
  ret (rev (snd st))))))).

(* hdr_get_nc_type *)
Definition rd_type (fmt : Z) : P Z :=
  bind (lift (g32 X)) (fun t =>
  if t <? 1 then fail NC_EBADTYPE
  else if fmt <? 5 then (if t >? 6 then fail NC_EBADTYPE else ret t)
  else if t >? 11 then fail NC_EBADTYPE else ret t).

(* x_len_NC_attrV(xtype, nelems) for nelems > 0, in MPI_Offset arithmetic *)
Definition attr_xsz (t nelems : Z) : res Z :=
  let x := xlen_type t in
  if x =? 1 then rbind (chk S_attr_xlen (nelems + 3)) (fun s => Ok ((s / 4) * 4))
  else if x =? 2 then rbind (chk S_attr_xlen (nelems + Z.rem nelems 2)) (fun s => chk S_attr_xlen (s * 2))
  else chk S_attr_xlen (nelems * x).

(* hdr_get_NC_attr = name, type, nelems, ncmpio_new_NC_attr, hdr_get_NC_attrV *)
Definition rd_att (fmt : Z) : P att :=
  bind (rd_name fmt) (fun nm =>
  bind (rd_type fmt) (fun t =>
  bind (rd_nn fmt) (fun n0 =>
  let n := to_i64 n0 in                            (* nelems = (MPI_Offset)tmp *)
  bind (alloc SZ_NC_ATTR) (fun ok =>
  if negb ok then fail NC_ENOMEM else
  if n >? 0 then
    bind (pure (attr_xsz t n)) (fun xsz =>
    bind (alloc xsz) (fun ok2 =>
    if negb ok2 then fail NC_ENOMEM else
    let nbytes := n * xlen_type t in
    let padding := xsz - nbytes in
    bind (lift (gbytes X nbytes)) (fun data =>
    bind (if padding >? 0 then lift_ (gskip X padding) else ret tt) (fun _ =>
    ret (mkatt nm t n data)))))
  else
    (* nelems <= 0: attrp->xsz = 0 and attrp->xvalue = NULL *)
    bind (pure (chk S_attrV_mul (n * xlen_type t))) (fun prod =>
    let nbytes := prod mod TWO64 in                (* size_t nbytes *)
    if nbytes >? 0 then crash S_attr_memcpy_null   (* memcpy(value = NULL, gbp->pos, attcount > 0) *)
    else ret (mkatt nm t n [])))))).               (* padding = (size_t)0 - 0 = 0 *)

(* hdr_get_NC_attrarray *)
Definition rd_attarray (fmt : Z) : P (list att) :=
  bind (lift (g32 X)) (fun tag =>
  bind (rd_nn fmt) (fun n =>
  if n >? NC_MAX_ATTRS then fail NC_EMAXATTS else
  if n =? 0 then ret [] else
  if negb (tag =? NC_ATTRIBUTE_TAG) then fail NC_ENOTNC else
  bind (rndup_int n) (fun asz =>
  bind (alloc (asz * 8)) (fun ok =>
  if negb ok then fail NC_ENOMEM else
  bind (iter_n n (fun acc : list att => bind (rd_att fmt) (fun a => ret (a :: acc))) []) (fun acc =>
  ret (rev acc)))))).

(* hdr_get_NC_var; the bool tells whether shape and dsizes were really allocated *)
Definition rd_var (fmt f_ndims : Z) : P (var * bool) :=
  bind (rd_name fmt) (fun nm =>
  bind (rd_nn fmt) (fun nd =>
  if nd >? NC_MAX_VAR_DIMS then fail NC_EMAXDIMS else
  bind (alloc SZ_NC_VAR) (fun ok =>                       (* ncmpio_new_NC_var: tested *)
  if negb ok then fail NC_ENOMEM else
  bind (if nd >? 0 then bind (alloc (nd * 8)) (fun a => bind (alloc (nd * 8)) (fun b =>
                        bind (alloc (nd * 4)) (fun c => ret (a && b, c))))
        else ret (true, true)) (fun oks =>                (* shape, dsizes, dimids: NOT tested *)
  bind (iter_n nd (fun acc : list Z =>
                     bind (rd_nn fmt) (fun d =>
                     if d >=? f_ndims then fail NC_EBADDIM
                     else if negb (snd oks) then crash S_var_calloc_null   (* varp->dimids[dim] = ... *)
                     else ret (d :: acc))) []) (fun racc =>
  bind (rd_attarray fmt) (fun atts =>
  bind (rd_type fmt) (fun t =>
  bind (rd_nn fmt) (fun vsize =>                          (* read, then ignored (recomputed) *)
  bind (if fmt =? 1 then lift (g32 X) else lift (g64 X)) (fun bg =>
  ret (mkvar nm (rev racc) atts t (to_i64 bg) true, fst oks)))))))))).

(* hdr_get_NC_vararray *)
Definition rd_vararray (fmt f_ndims : Z) : P (list (var * bool)) :=
  bind (lift (g32 X)) (fun tag =>
  bind (rd_nn fmt) (fun n =>
  if n >? NC_MAX_VARS then fail NC_EMAXVARS else
  if n =? 0 then ret [] else
  if negb (tag =? NC_VARIABLE_TAG) then fail NC_ENOTNC else
  bind (rndup_int n) (fun asz =>
  bind (alloc (asz * 8)) (fun ok =>
  if negb ok then fail NC_ENOMEM else
  bind (iter_n n (fun acc : list (var * bool) => bind (rd_var fmt f_ndims) (fun v => ret (v :: acc))) [])
       (fun acc => ret (rev acc)))))).

End Parse.

Arguments ret {S A} a _.
Arguments fail {S A} e _.
Arguments crash {S A} c _.
Arguments bind {S A B} m f _.
Arguments lift {S A} f _.
Arguments lift_ {S} f _.
Arguments pure {S A} r _.
Arguments alloc {S} mm n _.
Arguments iter_p {S A} p f x _.
Arguments iter_n {S A} n f x _.

(* ================================================================== *)
(** * Post-processing at open (pure; C integer semantics: Z.quot / Z.rem truncate) *)

(* ncmpio_NC_check_vlen: for (i = IS_RECVAR ? 1 : 0; ...) { if (shape[i] > vlen_max / prod) return 0;
   prod *= shape[i]; } *)
Fixpoint cvlen_loop (shape : list Z) (prod vmax : Z) : res bool :=
  match shape with
  | [] => Ok true
  | s :: r =>
      if prod =? 0 then Crash S_div_zero
      else if s >? Z.quot vmax prod then Ok false
      else rbind (chk S_check_vlen_mul (prod * s)) (fun p => cvlen_loop r p vmax)
  end.

(* IS_RECVAR(vp): shape != NULL ? shape[0] == NC_UNLIMITED : 0 *)
Definition shape_isrec (shape : list Z) : bool :=
  match shape with s0 :: _ => s0 =? 0 | [] => false end.

Definition cvlen (xsz : Z) (shape : list Z) (vmax : Z) : res bool :=
  cvlen_loop (if shape_isrec shape then tl shape else shape) xsz vmax.

(* the product loop of ncmpio_NC_var_shape64, dimensions taken from right to left *)
Fixpoint shape_prod (rs : list Z) (p : Z) : res Z :=
  match rs with
  | [] => Ok p
  | s :: r => if s =? 0 then shape_prod r p
              else rbind (chk S_shape_product (p * s)) (fun p' => shape_prod r p')
  end.

Definition var_product (shape : list Z) : res Z :=
  match rev shape with
  | [] => Ok 1
  | [s0] => Ok (if s0 =? 0 then 1 else s0)
  | sl :: r => shape_prod r sl
  end.

Definition unlimpos_bad (shape : list Z) : bool :=
  match shape with [] => false | _ :: r => existsb (fun s => s =? 0) r end.

(* ncmpio_NC_var_shape64: (shape, len, dsizes[0]*xsz) *)
Definition var_shape64 (dims : list dim) (v : var) (shape_ok : bool) : res (list Z * Z * Z) :=
  let shape := var_shape dims v in
  let xsz := xlen_type (v_type v) in
  if negb shape_ok && (0 <? Zlen (v_dimids v)) then Crash S_var_calloc_null   (* varp->shape[i] = ... *)
  else if unlimpos_bad shape then Err NC_EUNLIMPOS
  else
    rbind (var_product shape) (fun p =>
    rbind (cvlen xsz shape (I64_MAX - 3)) (fun ok =>
    if negb ok then Err NC_EVARSIZE else
    rbind (chk S_len (p * xsz)) (fun raw =>
    rbind (if Z.rem raw 4 >? 0 then chk S_len (raw + (4 - Z.rem raw 4)) else Ok raw) (fun len =>
    Ok (shape, len, raw))))).

(* the loop of compute_var_shape; fr = (begin, len, packed size) of the first record variable *)
Fixpoint cvs_loop (dims : list dim) (vs : list (var * bool)) (begin_rec recsize : Z)
         (fv : option Z) (fr : option (Z * Z * Z)) (lens : list Z)
  : res (Z * Z * option Z * option (Z * Z * Z) * list Z) :=
  match vs with
  | [] => Ok (begin_rec, recsize, fv, fr, rev lens)
  | (v, sok) :: r =>
      rbind (var_shape64 dims v sok) (fun t =>
      let '(shape, len, raw) := t in
      if shape_isrec shape then
        rbind (chk S_recsize (recsize + len)) (fun rs =>
        cvs_loop dims r begin_rec rs fv
                 (match fr with None => Some (v_begin v, len, raw) | Some _ => fr end) (len :: lens))
      else
        rbind (chk S_begin_len (v_begin v + len)) (fun br =>
        cvs_loop dims r br recsize (match fv with None => Some (v_begin v) | Some _ => fv end) fr
                 (len :: lens)))
  end.

(* compute_var_shape: (begin_var, begin_rec, recsize, lens) *)
Definition compute_var_shape (xsz : Z) (dims : list dim) (vs : list (var * bool))
  : res (Z * Z * Z * list Z) :=
  match vs with
  | [] => Ok (0, 0, 0, [])          (* ndefined == 0: the NC object stays as calloc left it *)
  | _ =>
    rbind (cvs_loop dims vs xsz 0 None None []) (fun t =>
    let '(br0, rs0, fv, fr, lens) := t in
    rbind (match fr with
           | Some (fb, fl, fraw) =>
               if br0 >? fb then Err NC_ENOTNC
               else Ok (fb, if rs0 =? fl then fraw else rs0)     (* single record variable: packed *)
           | None => Ok (br0, rs0)
           end) (fun q =>
    let '(br, rs) := q in
    let bv := match fv with Some b => b | None => br end in
    if (bv <=? 0) || (xsz >? bv) || (br <=? 0) || (bv >? br) then Err NC_ENOTNC
    else Ok (bv, br, rs, lens)))
  end.

(* one pass of ncmpio_NC_check_vlens; None = NC_EVARSIZE (CDF-5), else (large count, last) *)
Fixpoint rvl_pass (fmt vmax : Z) (vs : list (Z * list Z)) (want_rec : bool) (cnt : Z) (last : bool)
  : res (option (Z * bool)) :=
  match vs with
  | [] => Ok (Some (cnt, last))
  | (xsz, shape) :: r =>
      if Bool.eqb (shape_isrec shape) want_rec then
        rbind (cvlen xsz shape vmax) (fun ok =>
        if ok then rvl_pass fmt vmax r want_rec cnt false
        else if fmt >=? 5 then Ok None
        else rvl_pass fmt vmax r want_rec (cnt + 1) true)
      else rvl_pass fmt vmax r want_rec cnt last
  end.

Definition rd_check_vlens (fmt : Z) (vs : list (Z * list Z)) : res Z :=
  let vmax := vlen_max_of fmt in
  match vs with
  | [] => Ok NC_NOERR
  | _ =>
    rbind (rvl_pass fmt vmax vs false 0 false) (fun o =>
    match o with
    | None => Ok NC_EVARSIZE
    | Some (lf, lastf) =>
        if lf >? 1 then Ok NC_EVARSIZE
        else if (lf =? 1) && negb lastf then Ok NC_EVARSIZE
        else
          let nrec := Zlen (filter (fun t => shape_isrec (snd t)) vs) in
          if nrec =? 0 then Ok NC_NOERR
          else if lf =? 1 then Ok NC_EVARSIZE
          else rbind (rvl_pass fmt vmax vs true 0 false) (fun o2 =>
               match o2 with
               | None => Ok NC_EVARSIZE
               | Some (lr, lastr) =>
                   if lr >? 1 then Ok NC_EVARSIZE
                   else if (lr =? 1) && negb lastr then Ok NC_EVARSIZE
                   else Ok NC_NOERR
               end)
    end)
  end.

(* one pass of ncmpio_NC_check_voffs over (isrec, begin, len); None = NC_ENOTNC *)
Fixpoint voffs_pass (vs : list (bool * Z * Z)) (want_rec : bool) (prev : Z) : res (option Z) :=
  match vs with
  | [] => Ok (Some prev)
  | (isrec, bg, len) :: r =>
      if Bool.eqb isrec want_rec then
        if bg <? prev then Ok None
        else rbind (chk S_begin_len (bg + len)) (fun e => voffs_pass r want_rec e)
      else voffs_pass r want_rec prev
  end.

Definition rd_check_voffs (begin_var begin_rec : Z) (vs : list (bool * Z * Z)) : res Z :=
  match vs with
  | [] => Ok NC_NOERR
  | _ =>
    let nrec := Zlen (filter (fun t => fst (fst t)) vs) in
    let nfix := Zlen vs - nrec in
    rbind (if nfix =? 0 then Ok NC_NOERR
           else rbind (voffs_pass vs false begin_var) (fun o =>
                match o with
                | None => Ok NC_ENOTNC
                | Some e => if begin_rec <? e then Ok NC_ENOTNC else Ok NC_NOERR
                end)) (fun st =>
    if negb (st =? NC_NOERR) then Ok st
    else if nrec =? 0 then Ok NC_NOERR
    else rbind (voffs_pass vs true begin_rec) (fun o =>
         match o with None => Ok NC_ENOTNC | Some _ => Ok NC_NOERR end))
  end.

(* what the NC object holds after a successful ncmpio_hdr_get_NC *)
Record opened := mkopened { o_hdr : hdr; o_lay : layout; o_lens : list Z; o_nrec : Z }.

Definition post_open (h : hdr) (soks : list bool) : res opened :=
  rbind (chk S_hdr_len (hdr_len h)) (fun xsz =>
  let dims := h_dims h in
  rbind (compute_var_shape xsz dims (zip (h_vars h) soks)) (fun t =>
  let '(bv, br, rs, lens) := t in
  let shapes := map (var_shape dims) (h_vars h) in
  let nrec := Zlen (filter shape_isrec shapes) in
  rbind (rd_check_vlens (h_format h) (zip (map (fun v => xlen_type (v_type v)) (h_vars h)) shapes)) (fun e1 =>
  if negb (e1 =? NC_NOERR) then Err e1 else
  rbind (rd_check_voffs bv br (zip (zip (map shape_isrec shapes) (map v_begin (h_vars h))) lens)) (fun e2 =>
  if negb (e2 =? NC_NOERR) then Err e2 else
  Ok (mkopened h (mklayout xsz bv br rs (map v_begin (h_vars h))) lens nrec))))).

(* ================================================================== *)
(** * ncmpio_hdr_get_NC over any source (after the first fetch) *)
Definition hdf5_sig : list byte := [137; 72; 68; 70; 13; 10; 26; 10].

Section Top.
Variable S : Type.
Variable X : src S.
Variable mm : Z.

Definition hdr_get_NC : P S opened :=
  bind (lift (gbytes X 4)) (fun m =>                        (* ncmpix_getn_text(.., NC_MAGIC_LEN, magic) *)
  if negb (bytes_eqb (zfirstn 3 m) [67; 68; 70]) then
    bind (lift (gbytes X 8)) (fun sg =>                     (* the 8 bytes AFTER the magic *)
    if bytes_eqb sg hdf5_sig then fail NC_ENOTNC3 else fail NC_ENOTNC)
  else
    let ver := znth m 3 0 in
    if negb ((ver =? 1) || (ver =? 2) || (ver =? 5)) then fail NC_ENOTNC else
    bind (rd_nn S X ver) (fun nr =>
    bind (rd_dimarray S X mm ver) (fun dims =>
    bind (rd_attarray S X mm ver) (fun gatts =>
    bind (rd_vararray S X mm ver (Zlen dims)) (fun vars =>
    pure (post_open (mkhdr ver (to_i64 nr) dims gatts (map fst vars)) (map snd vars))))))).
End Top.

(* ================================================================== *)
(** * The chunked source: bufferinfo + hdr_fetch exactly as coded *)
Record cst := mkcst {
  c_chunk : Z;            (* gbp->chunk *)
  c_pos : Z;              (* gbp->pos - gbp->base *)
  c_tail : list byte;     (* bytes base+pos .. end  (the live part of the window) *)
  c_off : Z;              (* gbp->offset *)
  c_rest : list byte;     (* file content from c_off on *)
  c_getsize : Z;          (* gbp->get_size *)
  c_fetches : Z }.

Definition c_fetch (c : cst) : cst :=
  let slack0 := c_chunk c - c_pos c in
  let slack := if slack0 =? c_chunk c then 0 else slack0 in       (* if (slack == gbp->chunk) slack = 0 *)
  let kept := if slack >? 0 then zfirstn slack (c_tail c) else [] in   (* memmove(base, pos, slack) *)
  let readLen := c_chunk c - slack in
  let got := zfirstn readLen (c_rest c) in                        (* MPI_File_read_at, short at EOF *)
  mkcst (c_chunk c) 0
        (kept ++ got ++ zeros (readLen - Zlen got))               (* memset(readBuf+get_size, 0, ..) *)
        (c_off c + readLen) (zskipn readLen (c_rest c))
        (c_getsize c + Zlen got) (c_fetches c + 1).

Definition c_adv (k : Z) (c : cst) : cst :=
  mkcst (c_chunk c) (c_pos c + k) (zskipn k (c_tail c)) (c_off c) (c_rest c) (c_getsize c) (c_fetches c).

(* `if (gbp->pos + k > gbp->end) hdr_fetch(gbp)` *)
Definition c_need (k : Z) (c : cst) : cst := if c_pos c + k >? c_chunk c then c_fetch c else c.

Definition c_g32 (c : cst) : Z * cst :=
  let c1 := c_need 4 c in
  match get_u32 (c_tail c1) with
  | Some (v, _) => (v, c_adv 4 c1)
  | None => (0, c_adv 4 c1)
  end.

Definition c_g64 (c : cst) : Z * cst :=
  let c1 := c_need 8 c in
  match get_u64 (c_tail c1) with
  | Some (v, _) => (v, c_adv 8 c1)
  | None => (0, c_adv 8 c1)
  end.

(* while (n > 0) { if (bufremain > 0) { memcpy MIN(bufremain, n) } else { hdr_fetch; bufremain = chunk } } *)
Fixpoint c_copy (fuel : nat) (n : Z) (acc : list (list byte)) (c : cst) : list (list byte) * cst :=
  match fuel with
  | O => (acc, c)
  | Datatypes.S k =>
      if n <=? 0 then (acc, c) else
      let rem := c_chunk c - c_pos c in
      if rem >? 0 then
        let m := Z.min rem n in
        c_copy k (n - m) (zfirstn m (c_tail c) :: acc) (c_adv m c)
      else c_copy k n acc (c_fetch c)
  end.

Definition c_gbytes (n : Z) (c : cst) : list byte * cst :=
  match c_copy (Z.to_nat (2 * n + 2)) n [] c with
  | (acc, c') => (concat (rev acc), c')
  end.

Definition c_gskip (k : Z) (c : cst) : cst := c_adv k (c_need k c).

Definition csrc : src cst := mksrc cst c_g32 c_g64 c_gbytes c_gskip.

(* getbuf.chunk = PNETCDF_RNDUP(MAX(MIN_NC_XSZ+4, ncp->chunk), X_ALIGN) *)
Definition norm_chunk (hint : Z) : Z := rndup (Z.max (MIN_NC_XSZ + 4) hint) X_ALIGN.

(* getbuf.base = NCI_Malloc(chunk) (content indeterminate: zeros here); pos = base; hdr_fetch *)
Definition c_init (chunk : Z) (f : list byte) : cst :=
  c_fetch (mkcst chunk 0 (zeros chunk) 0 f 0 0).

Definition acct0 : acct := mkacct 0 0 0.

(* ncmpio_hdr_get_NC with getbuf.chunk = chunk *)
Definition read_header (chunk mm : Z) (f : list byte) : res opened * (cst * acct) :=
  hdr_get_NC cst csrc mm (c_init chunk f, acct0).

(* ================================================================== *)
(** * The flat source: the zero-extended file, read sequentially (single conceptual fetch) *)
Definition f_g32 (l : list byte) : Z * list byte :=
  match get_u32 (take_z 4 l) with Some (v, _) => (v, zskipn 4 l) | None => (0, zskipn 4 l) end.
Definition f_g64 (l : list byte) : Z * list byte :=
  match get_u64 (take_z 8 l) with Some (v, _) => (v, zskipn 8 l) | None => (0, zskipn 8 l) end.
Definition f_gbytes (n : Z) (l : list byte) : list byte * list byte := (take_z n l, zskipn n l).
Definition f_gskip (k : Z) (l : list byte) : list byte := zskipn k l.
Definition fsrc : src (list byte) := mksrc (list byte) f_g32 f_g64 f_gbytes f_gskip.

Definition read_header_flat (mm : Z) (f : list byte) : res opened * (list byte * acct) :=
  hdr_get_NC (list byte) fsrc mm (f, acct0).

(* ================================================================== *)
(** * Dispatcher: ncmpi_inq_file_format, then the driver *)
Fixpoint hdf5_probe (fuel : nat) (f : list byte) (off : Z) : bool :=
  match fuel with
  | O => false
  | Datatypes.S k =>
      let sg := zfirstn 8 (zskipn off f) in
      if Zlen sg <? 8 then false                       (* rlen != 8 *)
      else if bytes_eqb sg hdf5_sig then true
      else hdf5_probe k f (if off =? 0 then 512 else off * 2)
  end.

(* NC_FORMAT number (1, 2, 5) or the error ncmpi_open returns before any driver is called *)
Definition inq_file_format (f : list byte) : res Z :=
  if Zlen f <? 8 then Err NC_EFILE                     (* read(fd, signature, 8) != 8 *)
  else
    let v := znth f 3 0 in
    if bytes_eqb (zfirstn 3 f) [67; 68; 70] && ((v =? 1) || (v =? 2) || (v =? 5)) then Ok v
    else if hdf5_probe (Datatypes.S (Datatypes.S (Z.to_nat (Z.log2 (Zlen f))))) f 0
         then Err NC_ENOTBUILT                         (* NetCDF-4 support is not built *)
         else Err NC_ENOTNC.

Record outcome := mkout { out_res : res opened; out_fetches : Z; out_offset : Z; out_getsize : Z;
                          out_acct : acct }.

(* ncmpi_open(path) on a file with content f; chunk_hint = ncp->chunk (hook H1 / default 262144) *)
Definition open_model (chunk_hint mm : Z) (f : list byte) : outcome :=
  match inq_file_format f with
  | Ok _ =>
      let chunk := norm_chunk chunk_hint in
      match read_header chunk mm f with
      | (r, (c, a)) =>                       (* + the window buffer itself: NCI_Malloc(getbuf.chunk) *)
          mkout r (c_fetches c) (c_off c) (c_getsize c)
                (mkacct (ac_alloc a + chunk) (Z.max (ac_maxreq a) chunk) (ac_nalloc a + 1))
      end
  | Err e => mkout (Err e) 0 0 0 (mkacct 0 0 0)
  | Crash s => mkout (Crash s) 0 0 0 (mkacct 0 0 0)
  end.

Definition open_flat (mm : Z) (f : list byte) : res opened :=
  match inq_file_format f with
  | Ok _ => fst (read_header_flat mm f)
  | Err e => Err e
  | Crash s => Crash s
  end.

(* ================================================================== *)
(** * Specification side of C04: which files are valid, what must be returned *)

(* every allocation request made while reading a header h that decode accepts *)
Definition att_req (a : att) : Z := Z.max (Zlen (a_name a) + 1) (rndup (a_nelems a * xlen_type (a_type a)) 4).
Definition list_req (n : Z) : Z := (((n + 63) / 64) * 64) * 8.
Definition var_req (v : var) : Z :=
  Z.max (Z.max (Zlen (v_name v) + 1) (Zlen (v_dimids v) * 8))
        (Z.max (list_req (Zlen (v_atts v))) (fold_right Z.max 0 (map att_req (v_atts v)))).
Definition hdr_req (h : hdr) : Z :=
  Z.max (Z.max SZ_NC_VAR (fold_right Z.max 0 (map (fun d => Zlen (d_name d) + 1) (h_dims h))))
   (Z.max (Z.max (list_req (Zlen (h_dims h))) (list_req (Zlen (h_gatts h))))
     (Z.max (fold_right Z.max 0 (map att_req (h_gatts h)))
            (Z.max (list_req (Zlen (h_vars h))) (fold_right Z.max 0 (map var_req (h_vars h)))))).

Definition name_ok (nm : list byte) : bool := Zlen nm <=? NC_MAX_NAME.
Definition att_ok (a : att) : bool :=
  name_ok (a_name a) && (a_nelems a <=? I64_MAX) &&
  (rndup (a_nelems a * xlen_type (a_type a)) 4 <=? I64_MAX).

(* the layout conditions of the format: data after the header, variables of each class in
   definition order without overlap, record section after the fixed section *)
Fixpoint order_ok (prev : Z) (l : list (Z * Z)) : option Z :=
  match l with
  | [] => Some prev
  | (b, len) :: r => if b <? prev then None else order_ok (b + len) r
  end.

(* Specification-valid for C04: accepted by the BNF decoder, within the limits of the format and
   of the API (names <= NC_MAX_NAME, counts <= NC_MAX_INT, values < 2^63), dimension ids defined,
   at most one unlimited dimension and only in first position, sizes within the format limits,
   begins increasing in definition order.  NOTHING is required of the vsize fields, of the
   padding bytes, of the ABSENT/tag style, of the bytes after the header. *)
Definition c04_valid (mm : Z) (d : decoded) : bool :=
  let h := dc_hdr d in
  let fmt := h_format h in
  let dims := h_dims h in
  let vars := h_vars h in
  let fixed := filter (fun v => negb (is_recvar dims v)) vars in
  let recs := filter (is_recvar dims) vars in
  (h_numrecs h <=? I64_MAX) &&
  (Zlen dims <=? NC_MAX_INT - 63) && (Zlen (h_gatts h) <=? NC_MAX_INT - 63) && (Zlen vars <=? NC_MAX_INT - 63) &&
  forallb (fun x => name_ok (d_name x) && (0 <=? d_size x) && (d_size x <=? I64_MAX)) dims &&
  (Zlen (filter (fun x => d_size x =? 0) dims) <=? 1) &&
  forallb att_ok (h_gatts h) &&
  forallb (fun v => name_ok (v_name v) && (Zlen (v_dimids v) <=? NC_MAX_INT) &&
                    (Zlen (v_atts v) <=? NC_MAX_INT - 63) && forallb att_ok (v_atts v) &&
                    forallb (fun i => (0 <=? i) && (i <? Zlen dims)) (v_dimids v) &&
                    negb (unlimpos_bad (var_shape dims v)) &&
                    valid_type fmt (v_type v) &&
                    check_vlen (xlen_type (v_type v)) (var_shape dims v) (I64_MAX - 3) &&
                    (0 <=? v_begin v) && (v_begin v <=? I64_MAX) &&
                    (v_begin v <=? I64_MAX - var_len dims v))
          vars &&
  (zsum (map (var_len dims) recs) <=? I64_MAX) &&
  (check_vlens h =? NC_NOERR) &&
  (0 <? dc_len d) && (dc_len d <=? I64_MAX) && (hdr_req h <=? mm) &&
  match vars with
  | [] => true
  | _ =>
    match order_ok (dc_len d) (map (fun v => (v_begin v, var_len dims v)) fixed) with
    | None => false
    | Some end_fixed =>
        match recs with
        | [] => true
        | fr :: _ =>
            match order_ok end_fixed (map (fun v => (v_begin v, var_len dims v)) recs) with
            | None => false
            | Some _ => true
            end
        end
    end
  end.

(* what ncmpi_open must establish for a valid file *)
Definition expected_open (d : decoded) : opened :=
  let h := dc_hdr d in
  let dims := h_dims h in
  mkopened h (layout_of_hdr h (dc_len d)) (map (var_len dims) (h_vars h))
           (Zlen (filter (is_recvar dims) (h_vars h))).

(* self-consistency of accepted metadata (C19) *)
Definition consistent (o : opened) : bool :=
  let h := o_hdr o in
  let dims := h_dims h in
  let lay := o_lay o in
  (0 <=? h_numrecs h) &&
  forallb (fun x => 0 <=? d_size x) dims &&
  forallb (fun a => (0 <=? a_nelems a) && (Zlen (a_data a) =? a_nelems a * xlen_type (a_type a))) (h_gatts h) &&
  forallb (fun v => forallb (fun i => (0 <=? i) && (i <? Zlen dims)) (v_dimids v) &&
                    forallb (fun a => (0 <=? a_nelems a) && (Zlen (a_data a) =? a_nelems a * xlen_type (a_type a))) (v_atts v) &&
                    (0 <=? v_begin v))
          (h_vars h) &&
  forallb (fun l => 0 <=? l) (o_lens o) &&
  (0 <=? l_recsize lay) &&
  match h_vars h with
  | [] => true
  | _ => (l_xsz lay <=? l_begin_var lay) && (l_begin_var lay <=? l_begin_rec lay)
  end.

(* ================================================================== *)
(** * Witness files (data only): malformed inputs used by the refutation theorems of
      Proofs_Reader.v; checks/C19.py replays exactly these bytes on the sanitizer build *)
(* witnesses: one malformed file per crash site that input bytes can reach *)
Definition u32 (x : Z) : list byte := put_u32 x.
Definition u64 (x : Z) : list byte := put_u64 x.
Definition nm1 (c : Z) : list byte := u32 1 ++ [c; 0; 0; 0].          (* CDF-1/2 name of one char *)
Definition nm5 (c : Z) : list byte := u64 1 ++ [c; 0; 0; 0].          (* CDF-5 *)
Definition absent1 : list byte := u32 0 ++ u32 0.
Definition absent5 : list byte := u32 0 ++ u64 0.
(* CDF-1, dim_list nelems = 2^31-1: PNETCDF_RNDUP(ndefined, 64) overflows `int` *)
Definition w_rndup_int : list byte := [67; 68; 70; 1] ++ u32 0 ++ u32 10 ++ u32 2147483647 ++ absent1 ++ absent1.
(* CDF-5, global attribute of type NC_BYTE with nelems = 2^64-1 (= -1): memcpy to NULL *)
Definition w_attr_null : list byte :=
  [67; 68; 70; 5] ++ u64 0 ++ absent5 ++ u32 12 ++ u64 1 ++ nm5 97 ++ u32 1 ++ u64 18446744073709551615 ++ absent5.
(* CDF-5, NC_DOUBLE attribute with nelems = 2^63: nelems * xsz overflows in hdr_get_NC_attrV *)
Definition w_attrV_mul : list byte :=
  [67; 68; 70; 5] ++ u64 0 ++ absent5 ++ u32 12 ++ u64 1 ++ nm5 97 ++ u32 6 ++ u64 9223372036854775808 ++ absent5.
(* CDF-5, NC_DOUBLE attribute with nelems = 2^61: nelems * 8 overflows in x_len_NC_attrV *)
Definition w_attr_xlen : list byte :=
  [67; 68; 70; 5] ++ u64 0 ++ absent5 ++ u32 12 ++ u64 1 ++ nm5 97 ++ u32 6 ++ u64 2305843009213693952 ++ absent5.
(* CDF-1, two dimensions of 2^32-1 and a variable over both: product overflows in NC_var_shape64 *)
Definition w_shape_product : list byte :=
  [67; 68; 70; 1] ++ u32 0 ++ u32 10 ++ u32 2 ++ nm1 120 ++ u32 4294967295 ++ nm1 121 ++ u32 4294967295 ++
  absent1 ++ u32 11 ++ u32 1 ++ nm1 118 ++ u32 2 ++ u32 0 ++ u32 1 ++ absent1 ++ u32 1 ++ u32 0 ++ u32 200.
(* CDF-1, one dimension, a variable with ndims = 2^31-1: the three callocs of ncmpio_new_NC_var are
   not tested; with an allocator that refuses 16 GiB the first dimid store goes through NULL *)
Definition w_var_calloc : list byte :=
  [67; 68; 70; 1] ++ u32 0 ++ u32 10 ++ u32 1 ++ nm1 120 ++ u32 5 ++ absent1 ++
  u32 11 ++ u32 1 ++ nm1 118 ++ u32 2147483647 ++ u32 0 ++ u32 0 ++ u32 0 ++ u32 0.
(* CDF-5, dimension of length 2^63 (negative as MPI_Offset), NC_INT variable over it:
   ncmpio_NC_check_vlen multiplies 4 * -2^63 *)
Definition w_check_vlen : list byte :=
  [67; 68; 70; 5] ++ u64 0 ++ u32 10 ++ u64 1 ++ nm5 120 ++ u64 9223372036854775808 ++ absent5 ++
  u32 11 ++ u64 1 ++ nm5 118 ++ u64 1 ++ u64 0 ++ absent5 ++ u32 4 ++ u64 0 ++ u64 200.
(* CDF-2, begin = 2^63-4 of a fixed-size NC_DOUBLE scalar... begin + len overflows *)
Definition w_begin_len : list byte :=
  [67; 68; 70; 2] ++ u32 0 ++ absent1 ++ absent1 ++
  u32 11 ++ u32 1 ++ nm1 118 ++ u32 0 ++ absent1 ++ u32 6 ++ u32 8 ++ u64 9223372036854775804.
(* CDF-5, numrecs = 2^64-1 (the STREAMING value): accepted, numrecs = -1 *)
Definition w_numrecs_neg : list byte :=
  [67; 68; 70; 5] ++ u64 18446744073709551615 ++ absent5 ++ absent5 ++ absent5.
(* CDF-5, a dimension of length 2^63+5 that no variable uses: accepted with a negative length *)
Definition w_dim_neg : list byte :=
  [67; 68; 70; 5] ++ u64 0 ++ u32 10 ++ u64 1 ++ nm5 120 ++ u64 9223372036854775813 ++ absent5 ++ absent5.
(* CDF-1, dim_list nelems = 2^31-64: 16 GiB requested for a 48-byte file (before any dim is read) *)
Definition w_alloc_dims : list byte := [67; 68; 70; 1] ++ u32 0 ++ u32 10 ++ u32 2147483584 ++ absent1 ++ absent1 ++ absent1 ++ absent1.
(* CDF-1, global NC_BYTE attribute with nelems = 100000 in a 48-byte file: 100000 bytes allocated
   and 100000 zero bytes "read" past the end of the file *)
Definition w_read_zeros : list byte :=
  [67; 68; 70; 1] ++ u32 0 ++ absent1 ++ u32 12 ++ u32 1 ++ nm1 97 ++ u32 1 ++ u32 100000 ++ absent1.
