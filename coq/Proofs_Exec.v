(* Proofs_Exec.v — theorems about the INTERPRETER functions of Exec.v that are run in the
   correspondence check (put_rank, coll_put, indep_put, get_rank_op, get_into_buffer, put_stream,
   check_request, geom_of, do_enddef), connecting them to the proved facts about Access / Disk /
   Fill / Layout (Proofs_Access, Proofs_RoundTrip, Proofs_CheckScs, Proofs_Fill, Proofs_Layout).
   The enddef / close / open / redef theorems are in Proofs_Exec2.v (compile that file first).

   Main results (no axioms; every statement for arbitrary worlds / files / requests):
     put_rank_effect        an accepted single-request blocking put returns NC_NOERR and changes
                            exactly the disk of the file's slot into
                              dk_scatter d xsz (model_offsets g start count stride) (put_stream a xt 0 r)
     check_request_req_ok   what check_request accepts (var1 / vara / vars forms) satisfies req_ok
     put_rank_frame (with put_disk_roundtrip / _element / _frame / _frame_region / _frame_below /
     _frame_other_var / _size)
                            the addressed elements hold the stream, every other byte of the file
                            (header, other variables, other elements) is unchanged
     put_stream_defined     the stream consists of bytes in [0,256): no UNDEF
     get_into_buffer_typed, get_rank_op_typed
                            a typed get (memory type = external type) returns the guard bytes
                            around the memory image of the elements gathered from the disk; an
                            element with an undefined byte is rendered as UNDEF and the return code
                            is RC_ANY
     get_after_put          get of the SAME request after the put: NC_NOERR and the image of the
                            stream that was put
     get_after_put_other    get through ANY other accepted request on the same variable: each
                            element is the element last written or the previous disk content
     indep_put_effect, indep_put_then_get, coll_put_effect, coll_put_same_then_get
                            the same for the script-level independent / collective put
     geom_of_wf, acc_geom_wf  wf_geom and rec_fits of the interpreter's geometry follow from the
                            layout invariant (recsize rule)
     enddef_fill_reads_fill C16 at interpreter level: after the first enddef every element of a
                            fill-mode fixed variable reads as its fill value
   Examples at the end instantiate every theorem on worlds built with exec_all. *)
From Pnc Require Import Base Gen_consts Header HeaderSpec Access Data Disk Move Fill Exec.
From Pnc Require Import Proofs_Header Proofs_Fill Proofs_Exec2.
From Pnc Require Import Proofs_Lists Proofs_Access Proofs_CheckScs Proofs_Layout Proofs_Disk
                        Proofs_RoundTrip.
Require Import Lia ZArith List Bool ZifyBool.
Import ListNotations.
Local Open Scope Z_scope.
Local Arguments Z.mul : simpl never.
Local Arguments Z.add : simpl never.
Local Arguments Z.sub : simpl never.
Local Arguments Z.div : simpl never.
Local Arguments Z.modulo : simpl never.
Local Arguments Z.pow : simpl never.
Local Arguments Z.of_nat : simpl never.
Local Arguments Z.to_nat : simpl never.

(* ================================================================== *)
(** * 0. Worlds: disks and files                                        *)
(* ================================================================== *)
Lemma znth_zupd_same {A} : forall (l : list A) i v d, 0 <= i < Zlen l -> znth (zupd l i v) i d = v.
Proof.
  induction l as [|x l IH]; intros i v d Hi.
  - rewrite Zlen_nil in Hi. lia.
  - rewrite Zlen_cons in Hi. cbn [zupd]. destruct (i =? 0) eqn:E.
    + cbn [znth]. rewrite E. reflexivity.
    + cbn [znth]. rewrite E. apply IH. lia.
Qed.

Lemma znth_zupd_other {A} : forall (l : list A) i j v d, i <> j -> znth (zupd l i v) j d = znth l j d.
Proof.
  induction l as [|x l IH]; intros i j v d Hne; [reflexivity|].
  cbn [zupd]. destruct (i =? 0) eqn:E.
  - cbn [znth]. destruct (j =? 0) eqn:Ej; [lia | reflexivity].
  - cbn [znth]. destruct (j =? 0) eqn:Ej; [reflexivity|]. apply IH. lia.
Qed.

Lemma Zlen_zupd {A} : forall (l : list A) i v, Zlen (zupd l i v) = Zlen l.
Proof.
  induction l as [|x l IH]; intros i v; [reflexivity|].
  cbn [zupd]. destruct (i =? 0); rewrite !Zlen_cons; [reflexivity|]. rewrite IH. reflexivity.
Qed.

Lemma get_disk_set_disk_same : forall w slot d,
  0 <= slot < Zlen (w_disks w) -> get_disk (set_disk w slot d) slot = d.
Proof. intros w slot d H. unfold get_disk, set_disk. cbn [w_disks]. apply znth_zupd_same. exact H. Qed.

Lemma get_disk_set_disk_other : forall w slot d s,
  s <> slot -> get_disk (set_disk w slot d) s = get_disk w s.
Proof. intros w slot d s H. unfold get_disk, set_disk. cbn [w_disks]. apply znth_zupd_other. lia. Qed.

(* everything but the disks is kept by set_disk *)
Definition same_but_disks (w w' : world) : Prop :=
  w_nprocs w' = w_nprocs w /\ w_files w' = w_files w /\ w_ids w' = w_ids w /\
  w_hints w' = w_hints w /\ w_strict w' = w_strict w /\ w_move_unit w' = w_move_unit w /\
  Zlen (w_disks w') = Zlen (w_disks w).

Lemma same_but_disks_refl : forall w, same_but_disks w w.
Proof. intros w. unfold same_but_disks. repeat split; reflexivity. Qed.

Lemma same_but_disks_set_disk : forall w slot d, same_but_disks w (set_disk w slot d).
Proof.
  intros w slot d. unfold same_but_disks, set_disk.
  cbn [w_nprocs w_files w_ids w_hints w_strict w_move_unit w_disks].
  repeat split; try reflexivity. apply Zlen_zupd.
Qed.

(* ================================================================== *)
(** * 1. put_rank, unfolded                                             *)
(* ================================================================== *)
(* the variable, its external type and geometry, as put_rank / get_rank_op compute them *)
Definition acc_geom (f : filest) (a : access) : geom := geom_of f (the_var f a).
Definition acc_xt (f : filest) (a : access) : Z := v_type (the_var f a).

Definition req_offsets (g : geom) (r : rreq) : list Z :=
  model_offsets g (rq_start r) (rq_count r) (rq_stride r).

(* the disk a single-request put leaves behind *)
Definition put_disk (f : filest) (a : access) (r : rreq) (d : disk) : disk :=
  dk_scatter d (g_xsz (acc_geom f a)) (req_offsets (acc_geom f a) r)
             (put_stream a (acc_xt f a) 0 r).

(* the new_numrecs a single-request put proposes *)
Definition put_newrecs (f : filest) (a : access) (r : rreq) : option Z :=
  if nelems_of r =? 0 then None
  else if g_isrec (acc_geom f a) then Some (Z.max 0 (put_new_numrecs r)) else None.

Lemma g_xsz_acc_geom : forall f a, g_xsz (acc_geom f a) = xlen_type (acc_xt f a).
Proof. reflexivity. Qed.

Lemma g_shape_acc_geom : forall f a,
  g_shape (acc_geom f a) = var_shape (h_dims (f_hdr f)) (the_var f a).
Proof. reflexivity. Qed.

Lemma g_isrec_acc_geom : forall f a,
  g_isrec (acc_geom f a) = is_recvar (h_dims (f_hdr f)) (the_var f a).
Proof. reflexivity. Qed.

Lemma req_offsets_empty : forall g r, nelems_of r = 0 -> req_offsets g r = [].
Proof.
  intros g r H. unfold req_offsets, model_offsets. unfold nelems_of in H. rewrite H. reflexivity.
Qed.

(** Deliverable 1, the interpreter step itself: for ANY file state and ANY access whose mode /
    variable checks pass ([sanity]), whose argument check resolves to ONE request r
    ([check_request]: every form but varn), and whose buffer description matches
    ([iomismatch]), put_rank returns NC_NOERR, touches nothing but the disk of the file's slot,
    and that disk becomes the scatter of the pattern stream at the model offsets.
    (A zero-length request returns the world unchanged; the scatter over no offsets is the
    identity, so the equation covers that branch too.) *)
Theorem put_rank_effect : forall w id f rank coll a r,
  0 <= f_slot f < Zlen (w_disks w) ->
  sanity f true true coll a = NC_NOERR ->
  check_request w f rank false a = (NC_NOERR, Some [r]) ->
  iomismatch a [r] = false ->
  exists w',
    put_rank w id f rank coll a = (w', NC_NOERR, put_newrecs f a r, negb (nelems_of r =? 0)) /\
    disk_of w' f = put_disk f a r (disk_of w f) /\
    (forall s, s <> f_slot f -> get_disk w' s = get_disk w s) /\
    same_but_disks w w'.
Proof.
  intros w id f rank coll a r Hslot Hsan Hchk Hio.
  unfold put_rank. rewrite Hsan. cbn [negb Z.eqb NC_NOERR].
  change (0 =? 0) with true. cbn [negb].
  rewrite Hchk. rewrite Hio.
  assert (Etot : total_elems [r] = nelems_of r).
  { unfold total_elems. cbn [map zsum]. lia. }
  rewrite Etot.
  destruct (nelems_of r =? 0) eqn:Ez.
  - exists w. split; [|split; [|split]].
    + unfold put_newrecs. rewrite Ez. reflexivity.
    + unfold put_disk. rewrite req_offsets_empty by lia. reflexivity.
    + intros s _. reflexivity.
    + apply same_but_disks_refl.
  - cbn [with_bases fold_left fst snd negb].
    eexists. split; [|split; [|split]].
    + unfold put_newrecs. rewrite Ez. fold (acc_geom f a).
      destruct (g_isrec (acc_geom f a)); [|reflexivity].
      cbn [filter]. rewrite Ez. cbn [negb map fold_left]. reflexivity.
    + unfold disk_of. rewrite get_disk_set_disk_same by exact Hslot. reflexivity.
    + intros s Hs. apply get_disk_set_disk_other. exact Hs.
    + apply same_but_disks_set_disk.
Qed.
(* ================================================================== *)
(** * 2. What check_request accepts satisfies req_ok                    *)
(* ================================================================== *)
Definition rq_strides (g : geom) (r : rreq) : list Z :=
  stride_or_ones (length (g_shape g)) (rq_stride r).

(* the resolved request is a plain (start, count, stride) request inside the variable *)
Definition rq_ok (g : geom) (r : rreq) : Prop :=
  rq_imap r = None /\ req_ok (g_shape g) (rq_start r) (rq_count r) (rq_strides g r).

(* the var1 / vara / vars forms with non-NULL arguments of ndims entries each (the C arrays
   have ndims entries by contract; the list lengths stand for that contract) *)
Definition form_lengths (fm : form) (n : nat) : Prop :=
  match fm with
  | FVar1 (Some s) => length s = n
  | FVara (Some s) (Some c) => length s = n /\ length c = n
  | FVars (Some s) (Some c) None => length s = n /\ length c = n
  | FVars (Some s) (Some c) (Some t) => length s = n /\ length c = n /\ length t = n
  | _ => False
  end.

Lemma nth_map_const {A} : forall (l : list A) (c d : Z) i, (i < length l)%nat ->
  nth i (map (fun _ => c) l) d = c.
Proof.
  induction l as [|x l IH]; intros c d i Hi; cbn [length] in Hi; [lia|].
  destruct i as [|i]; cbn [map nth]; [reflexivity|]. apply IH. lia.
Qed.

Lemma nth_ones : forall n i d, (i < n)%nat -> nth i (ones n) d = 1.
Proof.
  induction n as [|n IH]; intros i d Hi; [lia|].
  rewrite ones_S. destruct i as [|i]; cbn [nth]; [reflexivity|]. apply IH. lia.
Qed.

(* var1: NULL count, checked as all ones *)
Lemma check_scs_var1_req_ok : forall fmt strict isread shape numrecs st,
  length st = length shape ->
  check_scs fmt strict (match shape with s0 :: _ => s0 =? 0 | [] => false end)
            isread API_VAR1 shape numrecs (Some st) None None = NC_NOERR ->
  req_ok shape st (map (fun _ => 1) shape) (ones (length shape)).
Proof.
  intros fmt strict isread shape numrecs st Hls H.
  set (isrec := match shape with s0 :: _ => s0 =? 0 | [] => false end) in *.
  assert (Hl : lengths_ok isrec shape st None None).
  { unfold lengths_ok. split; [|split; [exact Hls | split; exact I]].
    intros E C. subst shape. discriminate E. }
  rewrite check_scs_decomp in H by exact Hl. unfold phases in H.
  destruct (starts_ok_b fmt strict isrec isread shape numrecs st None) eqn:Es;
    [|vm_compute in H; discriminate H].
  apply (starts_ok_b_nth fmt strict isrec isread shape numrecs st None None Hl) in Es.
  destruct Es as (H0 & _ & Hall).
  apply req_ok_nth. rewrite map_length, ones_length.
  split; [exact Hls|]. split; [reflexivity|]. split; [reflexivity|].
  intros i Hi. rewrite nth_map_const by exact Hi. rewrite nth_ones by exact Hi.
  assert (Hshp : length (shp_of isrec shape numrecs) = length shape).
  { unfold shp_of. destruct isrec eqn:E; [|reflexivity].
    destruct shape; [discriminate E | reflexivity]. }
  destruct (bounded_dim isrec isread i) eqn:Eb.
  - specialize (Hall i Hi Eb). unfold cnt_or1 in Hall.
    rewrite nth_map_const in Hall by lia.
    unfold start_fits in Hall.
    destruct i as [|i].
    + destruct isrec eqn:E.
      * split; [exact H0|]. split; [lia|]. split; [lia|]. left. split; [reflexivity|].
        unfold isrec in E. destruct shape as [|s0 ss]; [discriminate E|]. cbn [nth]. lia.
      * unfold shp_of in Hall. split; [exact H0|]. split; [lia|]. split; [lia|].
        right. right. destruct strict; lia.
    + assert (En : nth (S i) (shp_of isrec shape numrecs) 0 = nth (S i) shape 0).
      { unfold shp_of. destruct isrec; [|reflexivity].
        destruct shape; [cbn [length] in Hi; lia | reflexivity]. }
      rewrite En in Hall. split; [destruct strict; lia|]. split; [lia|]. split; [lia|].
      right. right. destruct strict; lia.
  - unfold bounded_dim, free0 in Eb.
    destruct isrec eqn:E; [|cbn [andb negb] in Eb; discriminate Eb].
    destruct i as [|i]; [|destruct isread; cbn [andb negb Nat.eqb] in Eb; discriminate Eb].
    split; [exact H0|]. split; [lia|]. split; [lia|]. left. split; [reflexivity|].
    unfold isrec in E. destruct shape as [|s0 ss]; [discriminate E|]. cbn [nth]. lia.
Qed.

Theorem check_request_req_ok : forall w f rank isread a r,
  form_lengths (ac_form a) (length (g_shape (acc_geom f a))) ->
  check_request w f rank isread a = (NC_NOERR, Some [r]) ->
  rq_ok (acc_geom f a) r.
Proof.
  intros w f rank isread a r Hfl H.
  unfold rq_ok, rq_strides. rewrite g_shape_acc_geom in *.
  unfold check_request in H. cbv zeta in H. unfold is_recvar in H.
  set (shape := var_shape (h_dims (f_hdr f)) (the_var f a)) in *.
  destruct (ac_form a) as [|s|s c|s c t|s c t m|reqs]; cbn [form_lengths] in Hfl; try contradiction.
  - (* var1 *)
    destruct s as [s|]; [|contradiction]. cbn [form_args] in H.
    destruct shape as [|sh ss] eqn:Esh.
    { injection H as <-. cbn [rq_imap rq_start rq_count rq_stride stride_or_ones length ones repeat].
      split; [reflexivity|]. destruct s; [exact I | discriminate Hfl]. }
    rewrite <- Esh in *.
    match type of H with
    | (if negb (?e =? NC_NOERR) then _ else _) = _ => destruct (e =? NC_NOERR) eqn:Ee
    end; cbn [negb] in H; [|discriminate H].
    injection H as <-. cbn [rq_imap rq_start rq_count rq_stride stride_or_ones].
    split; [reflexivity|].
    apply (check_scs_var1_req_ok (h_format (f_hdr f)) (w_strict w) isread shape
             (rk_numrecs (get_rank f rank)) s Hfl).
    replace (match shape with [] => false | s0 :: _ => s0 =? 0 end) with (sh =? 0)
      by (rewrite Esh; reflexivity). lia.
  - (* vara *)
    destruct s as [s|]; [|contradiction]. destruct c as [c|]; [|contradiction].
    destruct Hfl as [Hls Hlc]. cbn [form_args] in H.
    destruct shape as [|sh ss] eqn:Esh.
    { injection H as <-. cbn [rq_imap rq_start rq_count rq_stride stride_or_ones length ones repeat].
      split; [reflexivity|]. exact I. }
    rewrite <- Esh in *.
    match type of H with
    | (if negb (?e =? NC_NOERR) then _ else _) = _ => destruct (e =? NC_NOERR) eqn:Ee
    end; cbn [negb] in H; [|discriminate H].
    injection H as <-. cbn [rq_imap rq_start rq_count rq_stride].
    split; [reflexivity|].
    apply (check_scs_req_ok (h_format (f_hdr f)) (w_strict w) isread API_VARA shape
             (rk_numrecs (get_rank f rank)) s c None Hls Hlc I).
    replace (match shape with [] => false | s0 :: _ => s0 =? 0 end) with (sh =? 0)
      by (rewrite Esh; reflexivity). lia.
  - (* vars *)
    destruct s as [s|]; [|contradiction]. destruct c as [c|]; [|contradiction].
    cbn [form_args] in H.
    destruct shape as [|sh ss] eqn:Esh.
    { injection H as <-. cbn [rq_imap rq_start rq_count rq_stride].
      split; [reflexivity|].
      destruct t as [t|]; cbn [stride_or_ones length ones repeat].
      - destruct Hfl as (_ & _ & Hlt). destruct t; [exact I | discriminate Hlt].
      - exact I. }
    rewrite <- Esh in *.
    match type of H with
    | (if negb (?e =? NC_NOERR) then _ else _) = _ => destruct (e =? NC_NOERR) eqn:Ee
    end; cbn [negb] in H; [|discriminate H].
    injection H as <-. cbn [rq_imap rq_start rq_count rq_stride].
    split; [reflexivity|].
    destruct t as [t|].
    + destruct Hfl as (Hls & Hlc & Hlt).
      apply (check_scs_req_ok (h_format (f_hdr f)) (w_strict w) isread API_VARS shape
               (rk_numrecs (get_rank f rank)) s c (Some t) Hls Hlc Hlt).
    replace (match shape with [] => false | s0 :: _ => s0 =? 0 end) with (sh =? 0)
      by (rewrite Esh; reflexivity). lia.
    + destruct Hfl as (Hls & Hlc).
      apply (check_scs_req_ok (h_format (f_hdr f)) (w_strict w) isread API_VARA shape
               (rk_numrecs (get_rank f rank)) s c None Hls Hlc I).
    replace (match shape with [] => false | s0 :: _ => s0 =? 0 end) with (sh =? 0)
      by (rewrite Esh; reflexivity). lia.
Qed.
(* ================================================================== *)
(** * 3. The stream of a put                                            *)
(* ================================================================== *)
Lemma xlen_type_cases : forall t,
  xlen_type t = 0 \/ xlen_type t = 1 \/ xlen_type t = 2 \/ xlen_type t = 4 \/ xlen_type t = 8.
Proof.
  intros t. unfold xlen_type.
  destruct ((t =? 1) || (t =? 2) || (t =? 7)); [tauto|].
  destruct ((t =? 3) || (t =? 8)); [tauto|].
  destruct ((t =? 4) || (t =? 5) || (t =? 9)); [tauto|].
  destruct ((t =? 6) || (t =? 10) || (t =? 11)); tauto.
Qed.

Lemma xlen_type_nonneg : forall t, 0 <= xlen_type t.
Proof. intros t. pose proof (xlen_type_cases t). lia. Qed.

Lemma be_bytes_length : forall n x, length (be_bytes n x) = n.
Proof.
  induction n as [|n IH]; intros x; cbn [be_bytes]; [reflexivity|].
  rewrite app_length, IH. cbn [length]. lia.
Qed.

Definition byte_ok (b : byte) : Prop := 0 <= b < 256.

Lemma be_bytes_range : forall n x, Forall byte_ok (be_bytes n x).
Proof.
  induction n as [|n IH]; intros x; cbn [be_bytes]; [constructor|].
  apply Forall_app. split; [apply IH|]. constructor; [|constructor].
  unfold byte_ok. pose proof (Z.mod_pos_bound x 256 ltac:(lia)). lia.
Qed.

Lemma Zlen_enc_value : forall t v, Zlen (enc_value t v) = xlen_type t.
Proof.
  intros t v. unfold enc_value, Zlen. pose proof (xlen_type_nonneg t).
  destruct (is_float_type t); rewrite be_bytes_length; lia.
Qed.

Lemma enc_value_range : forall t v, Forall byte_ok (enc_value t v).
Proof. intros t v. unfold enc_value. destruct (is_float_type t); apply be_bytes_range. Qed.

Lemma byte_ok_defined : forall l, Forall byte_ok l -> existsb is_undef l = false.
Proof.
  induction l as [|b l IH]; intros H; [reflexivity|].
  inversion H as [|? ? Hb Hl]; subst. cbn [existsb]. rewrite (IH Hl).
  unfold is_undef, byte_ok in *. lia.
Qed.

Lemma Zlen_flat_map_const {A} : forall (F : A -> list byte) k l,
  (forall x, Zlen (F x) = k) -> Zlen (flat_map F l) = k * Zlen l.
Proof.
  intros F k l H. induction l as [|x l IH]; [cbn [flat_map]; rewrite !Zlen_nil; lia|].
  cbn [flat_map]. rewrite Zlen_app, Zlen_cons, IH, H. lia.
Qed.

Lemma Forall_flat_map_all {A B} (P : B -> Prop) : forall (F : A -> list B) l,
  (forall x, Forall P (F x)) -> Forall P (flat_map F l).
Proof.
  intros F l H. induction l as [|x l IH]; [constructor|].
  cbn [flat_map]. apply Forall_app. split; [apply H | exact IH].
Qed.

Lemma lbuf_positions_none : forall r, rq_imap r = None -> lbuf_positions r = zrange 0 (nelems_of r).
Proof. intros r H. unfold lbuf_positions. rewrite H. reflexivity. Qed.

(* the value the script pattern puts at stream position k *)
Definition put_elem (a : access) (xt k : Z) : list byte :=
  enc_value xt (pat_value (ac_seed a) k (pat_lim (eff_memt a xt) xt)).

Lemma put_stream_none : forall a xt k0 r, rq_imap r = None ->
  put_stream a xt k0 r = flat_map (fun p => put_elem a xt (k0 + p)) (zrange 0 (nelems_of r)).
Proof. intros a xt k0 r H. unfold put_stream. rewrite lbuf_positions_none by exact H. reflexivity. Qed.

Lemma Zlen_put_stream : forall a xt k0 r, rq_imap r = None -> 0 <= nelems_of r ->
  Zlen (put_stream a xt k0 r) = xlen_type xt * nelems_of r.
Proof.
  intros a xt k0 r Him Hn. rewrite put_stream_none by exact Him.
  rewrite (Zlen_flat_map_const _ (xlen_type xt)).
  - rewrite Zlen_zrange, Z.max_r by lia. reflexivity.
  - intros p. apply Zlen_enc_value.
Qed.

(** the stream a put sends holds only defined bytes (in [0,256)), whatever the request
    (also through an imap) *)
Theorem put_stream_defined : forall a xt k0 r, Forall byte_ok (put_stream a xt k0 r).
Proof.
  intros a xt k0 r. unfold put_stream. apply Forall_flat_map_all.
  intros p. apply enc_value_range.
Qed.

Lemma zrange_split : forall n k, 0 <= k < n ->
  zrange 0 n = zrange 0 k ++ k :: zrange (k + 1) (n - k - 1).
Proof.
  intros n k Hk.
  replace n with (k + (1 + (n - k - 1))) at 1 by lia.
  rewrite zrange_app by lia. f_equal. replace (0 + k) with k by lia.
  rewrite zrange_app by lia. rewrite zrange_1. reflexivity.
Qed.

(* the k-th element of a stream built element by element *)
Lemma stream_elem_flat_map : forall (F : Z -> list byte) xsz n k,
  (forall p, Zlen (F p) = xsz) -> 0 <= k < n ->
  stream_elem xsz (flat_map F (zrange 0 n)) k = F k.
Proof.
  intros F xsz n k HF Hk. unfold stream_elem.
  rewrite (zrange_split n k Hk), flat_map_app. cbn [flat_map].
  assert (E : k * xsz = Zlen (flat_map F (zrange 0 k))).
  { rewrite (Zlen_flat_map_const F xsz) by exact HF. rewrite Zlen_zrange, Z.max_r by lia. lia. }
  rewrite E, zskipn_app_exact. rewrite <- (HF k). apply zfirstn_app_exact.
Qed.

(* ================================================================== *)
(** * 4. The offsets of an accepted request                             *)
(* ================================================================== *)
Definition rq_indices (g : geom) (r : rreq) : list (list Z) :=
  req_indices (rq_start r) (rq_count r) (rq_strides g r).

Lemma req_offsets_some : forall g r, wf_geom g -> rq_ok g r ->
  req_offsets g r = model_offsets g (rq_start r) (rq_count r) (Some (rq_strides g r)).
Proof.
  intros g r Hwf [_ Hreq]. unfold req_offsets, rq_strides in *.
  destruct (rq_stride r) as [t|]; [reflexivity|]. cbn [stride_or_ones] in *.
  rewrite model_offsets_eq_spec_none, model_offsets_eq_spec by assumption. reflexivity.
Qed.

Lemma req_offsets_spec : forall g r, wf_geom g -> rq_ok g r ->
  req_offsets g r = map (elem_off g) (rq_indices g r).
Proof.
  intros g r Hwf Hok. rewrite req_offsets_some by assumption. destruct Hok as [_ Hreq].
  rewrite model_offsets_eq_spec by assumption. reflexivity.
Qed.

Lemma rq_ok_nelems : forall g r, rq_ok g r -> 0 <= nelems_of r.
Proof.
  intros g r [_ Hreq]. unfold nelems_of. apply zprod_nonneg.
  eapply req_ok_count_nonneg. exact Hreq.
Qed.

Lemma Zlen_req_offsets : forall g r, wf_geom g -> rq_ok g r -> Zlen (req_offsets g r) = nelems_of r.
Proof.
  intros g r Hwf Hok. rewrite req_offsets_some by assumption. destruct Hok as [_ Hreq].
  apply Zlen_model_offsets; assumption.
Qed.

Lemma Zlen_rq_indices : forall g r, rq_ok g r -> Zlen (rq_indices g r) = nelems_of r.
Proof. intros g r [_ Hreq]. unfold rq_indices. apply (Zlen_req_indices g). exact Hreq. Qed.

Lemma rq_indices_idx_ok : forall g r idx, rq_ok g r -> In idx (rq_indices g r) -> idx_ok g idx.
Proof. intros g r idx [_ Hreq] Hin. eapply req_indices_idx_ok; eassumption. Qed.

Lemma req_offsets_disjoint : forall g r, wf_geom g -> rec_fits g -> rq_ok g r ->
  elems_disjoint (g_xsz g) (req_offsets g r).
Proof.
  intros g r Hwf Hfit Hok. rewrite req_offsets_some by assumption. destruct Hok as [_ Hreq].
  apply request_offsets_disjoint; assumption.
Qed.

(* ================================================================== *)
(** * 5. put_rank: the bytes of the file after the put                  *)
(* ================================================================== *)
(* the hypotheses under which the put is judged: the interpreter's own checks (booleans that
   can be evaluated), the ndims contract of the argument arrays, and the two layout facts
   about the variable (wf_geom: positive element size, dimension lengths, packed records for
   a single record variable; rec_fits: a record slot is not larger than the record) *)
Definition put_accepted (w : world) (f : filest) (rank : Z) (coll : bool) (a : access) (r : rreq)
  : Prop :=
  0 <= f_slot f < Zlen (w_disks w) /\
  sanity f true true coll a = NC_NOERR /\
  check_request w f rank false a = (NC_NOERR, Some [r]) /\
  iomismatch a [r] = false /\
  form_lengths (ac_form a) (length (g_shape (acc_geom f a))) /\
  wf_geom (acc_geom f a) /\ rec_fits (acc_geom f a).

Lemma put_accepted_rq_ok : forall w f rank coll a r,
  put_accepted w f rank coll a r -> rq_ok (acc_geom f a) r.
Proof.
  intros w f rank coll a r (_ & _ & Hchk & _ & Hfl & _). eapply check_request_req_ok; eassumption.
Qed.

Section PutDisk.
  Variables (f : filest) (a : access) (r : rreq) (d : disk).
  Let g := acc_geom f a.
  Let xt := acc_xt f a.
  Hypothesis Hwf : wf_geom g.
  Hypothesis Hfit : rec_fits g.
  Hypothesis Hok : rq_ok g r.

  Let D := put_disk f a r d.

  Lemma put_disk_len : Zlen (put_stream a xt 0 r) = g_xsz g * Zlen (req_offsets g r).
  Proof.
    rewrite Zlen_req_offsets by assumption.
    rewrite Zlen_put_stream; [reflexivity | exact (proj1 Hok) | eapply rq_ok_nelems; exact Hok].
  Qed.

  (** what the put stored is what a gather through the same offsets returns *)
  Theorem put_disk_roundtrip : dk_gather D (g_xsz g) (req_offsets g r) = put_stream a xt 0 r.
  Proof.
    unfold D, put_disk. fold g xt. apply gather_scatter.
    - apply req_offsets_disjoint; assumption.
    - exact put_disk_len.
  Qed.

  (** the element with the k-th index vector of the request holds the k-th pattern value *)
  Theorem put_disk_element : forall k, 0 <= k < nelems_of r ->
    dk_read D (elem_off g (znth (rq_indices g r) k [])) (g_xsz g) = put_elem a xt k.
  Proof.
    intros k Hk. pose proof Hwf as (Hx & _).
    assert (Ek : elem_off g (znth (rq_indices g r) k []) = znth (req_offsets g r) k 0).
    { rewrite req_offsets_spec by assumption. symmetry.
      apply znth_map. rewrite Zlen_rq_indices by assumption. exact Hk. }
    rewrite Ek. rewrite <- stream_elem_gather by (rewrite ?Zlen_req_offsets by assumption; lia).
    rewrite put_disk_roundtrip. rewrite put_stream_none by exact (proj1 Hok).
    rewrite (stream_elem_flat_map (fun p => put_elem a xt (0 + p)) (g_xsz g)).
    - f_equal.
    - intros p. unfold put_elem. rewrite Zlen_enc_value. reflexivity.
    - exact Hk.
  Qed.

  (** FRAME: a byte that belongs to no addressed element keeps its value *)
  Theorem put_disk_frame : forall x,
    (forall idx, In idx (rq_indices g r) -> ~ in_elem (g_xsz g) (elem_off g idx) x) ->
    dk_get D x = dk_get d x.
  Proof.
    intros x H. unfold D, put_disk. fold g xt. apply scatter_get_out.
    intros o Ho. rewrite req_offsets_spec in Ho by assumption.
    apply in_map_iff in Ho. destruct Ho as [idx [<- Hidx]]. apply H. exact Hidx.
  Qed.

  (** ... in particular every other element of the same variable *)
  Corollary put_disk_frame_element : forall idx,
    idx_ok g idx -> ~ In idx (rq_indices g r) ->
    dk_read D (elem_off g idx) (g_xsz g) = dk_read d (elem_off g idx) (g_xsz g).
  Proof.
    intros idx Hidx Hnot. unfold dk_read. apply map_ext_in. intros x Hx. apply In_zrange in Hx.
    apply put_disk_frame. intros idx2 Hin2 Hin.
    assert (Hap : apart (g_xsz g) (elem_off g idx2) (elem_off g idx)).
    { apply elem_off_apart; try assumption.
      - eapply rq_indices_idx_ok; eassumption.
      - intros ->. contradiction. }
    unfold apart in Hap. unfold in_elem in Hin. lia.
  Qed.

  (** ... every byte outside the variable's region: the header, the other variables, the
      padding between variables *)
  Corollary put_disk_frame_region : forall x, ~ var_region g x -> dk_get D x = dk_get d x.
  Proof.
    intros x Hx. apply put_disk_frame. intros idx Hin Hel. apply Hx.
    pose proof Hwf as (Hxs & _).
    eapply elem_in_region; [lia | eapply rq_indices_idx_ok; eassumption | exact Hel].
  Qed.

  (** ... every byte before the variable's begin (the header lies there) *)
  Corollary put_disk_frame_below : forall x, x < g_begin g -> dk_get D x = dk_get d x.
  Proof.
    intros x Hx. apply put_disk_frame_region. unfold var_region.
    destruct Hwf as (Hxs & Hrs & Hdw & _).
    destruct (g_isrec g) eqn:Erec.
    - intros [i0 [Hi0 Hr]]. assert (0 <= i0 * g_recsize g) by nia. lia.
    - unfold dims_wf in Hdw. destruct (g_shape g) as [|s0 ss] eqn:Es.
      + cbn [zprod]. lia.
      + lia.
  Qed.

  (** ... every byte of a variable whose region does not meet this one *)
  Corollary put_disk_frame_other_var : forall g2 x,
    regions_disjoint g g2 -> var_region g2 x -> dk_get D x = dk_get d x.
  Proof. intros g2 x Hd H2. apply put_disk_frame_region. intros H1. exact (Hd x H1 H2). Qed.

  (** the file extent: never shrinks, and covers every addressed element *)
  Theorem put_disk_size :
    dk_size d <= dk_size D /\
    forall idx, In idx (rq_indices g r) -> elem_off g idx + g_xsz g <= dk_size D.
  Proof.
    pose proof Hwf as (Hxs & _). unfold D, put_disk. fold g xt. split.
    - apply scatter_size_mono; [exact Hxs | exact put_disk_len].
    - intros idx Hin. apply scatter_size_ge; [exact Hxs | exact put_disk_len |].
      rewrite req_offsets_spec by assumption. apply in_map. exact Hin.
  Qed.
End PutDisk.

(** Deliverable 1, assembled: an accepted put through put_rank returns NC_NOERR; the new world
    differs from the old one only in the disk of the file's slot; on that disk the addressed
    elements hold the pattern stream (in row-major order of the request) and every other byte —
    the header, other variables' regions, other elements of this variable — is unchanged. *)
Theorem put_rank_frame : forall w id f rank coll a r,
  put_accepted w f rank coll a r ->
  let g := acc_geom f a in let xt := acc_xt f a in
  exists w',
    put_rank w id f rank coll a = (w', NC_NOERR, put_newrecs f a r, negb (nelems_of r =? 0)) /\
    same_but_disks w w' /\
    (forall s, s <> f_slot f -> get_disk w' s = get_disk w s) /\
    disk_of w' f = put_disk f a r (disk_of w f) /\
    dk_gather (disk_of w' f) (g_xsz g) (req_offsets g r) = put_stream a xt 0 r /\
    (forall k, 0 <= k < nelems_of r ->
       dk_read (disk_of w' f) (elem_off g (znth (rq_indices g r) k [])) (g_xsz g) =
       put_elem a xt k) /\
    (forall x, (forall idx, In idx (rq_indices g r) -> ~ in_elem (g_xsz g) (elem_off g idx) x) ->
       dk_get (disk_of w' f) x = dk_get (disk_of w f) x) /\
    (forall x, ~ var_region g x -> dk_get (disk_of w' f) x = dk_get (disk_of w f) x) /\
    (forall x, x < g_begin g -> dk_get (disk_of w' f) x = dk_get (disk_of w f) x) /\
    (forall g2 x, regions_disjoint g g2 -> var_region g2 x ->
       dk_get (disk_of w' f) x = dk_get (disk_of w f) x) /\
    dk_size (disk_of w f) <= dk_size (disk_of w' f).
Proof.
  intros w id f rank coll a r Hacc g xt.
  pose proof (put_accepted_rq_ok _ _ _ _ _ _ Hacc) as Hok.
  destruct Hacc as (Hslot & Hsan & Hchk & Hio & Hfl & Hwf & Hfit).
  destruct (put_rank_effect w id f rank coll a r Hslot Hsan Hchk Hio) as (w' & Hput & Hd & Hoth & Hsame).
  exists w'. split; [exact Hput|]. split; [exact Hsame|]. split; [exact Hoth|].
  split; [exact Hd|]. rewrite Hd.
  split; [apply put_disk_roundtrip; assumption|].
  split; [apply put_disk_element; assumption|].
  split; [apply put_disk_frame; assumption|].
  split; [apply put_disk_frame_region; assumption|].
  split; [apply put_disk_frame_below; assumption|].
  split; [apply put_disk_frame_other_var; assumption|].
  exact (proj1 (put_disk_size f a r (disk_of w f) Hwf Hok)).
Qed.
(* ================================================================== *)
(** * 6. get_into_buffer for a typed buffer of the external type        *)
(* ================================================================== *)
(* memory image of one element read from the file: an element with an undefined byte is
   rendered as msz undefined bytes *)
Definition elem_image (xsz : Z) (e : list byte) : list byte :=
  if existsb is_undef e then repeat UNDEF (Z.to_nat xsz) else mem_of_be e.

Lemma Zlen_repeat' {A} : forall (x : A) n, Zlen (repeat x n) = Z.of_nat n.
Proof. intros x n. unfold Zlen. rewrite repeat_length. reflexivity. Qed.

Lemma Zlen_elem_image : forall xsz e, 0 <= xsz -> Zlen e = xsz -> Zlen (elem_image xsz e) = xsz.
Proof.
  intros xsz e Hx He. unfold elem_image. destruct (existsb is_undef e).
  - rewrite Zlen_repeat'. lia.
  - unfold mem_of_be, Zlen in *. rewrite rev_length. exact He.
Qed.

Lemma elem_image_defined : forall xsz e, Forall byte_ok e -> elem_image xsz e = mem_of_be e.
Proof. intros xsz e H. unfold elem_image. rewrite byte_ok_defined by exact H. reflexivity. Qed.

Lemma zupd_app_exact {A} : forall (pre : list A) m rest v,
  zupd (pre ++ m :: rest) (Zlen pre) v = pre ++ v :: rest.
Proof.
  induction pre as [|x pre IH]; intros m rest v.
  - reflexivity.
  - cbn [app zupd]. rewrite Zlen_cons. pose proof (Zlen_nonneg pre).
    replace (Zlen pre + 1 =? 0) with false by lia.
    replace (Zlen pre + 1 - 1) with (Zlen pre) by lia. rewrite IH. reflexivity.
Qed.

Lemma poke_app : forall bs pre mid post, Zlen mid = Zlen bs ->
  poke (pre ++ mid ++ post) (Zlen pre) bs = pre ++ bs ++ post.
Proof.
  induction bs as [|b bs IH]; intros pre mid post Hl.
  - rewrite Zlen_nil in Hl. apply Zlen_zero_nil in Hl. subst mid. reflexivity.
  - destruct mid as [|m mid]; [rewrite Zlen_nil, Zlen_cons in Hl; pose proof (Zlen_nonneg bs); lia|].
    rewrite !Zlen_cons in Hl. cbn [poke app]. rewrite zupd_app_exact.
    replace (pre ++ b :: mid ++ post) with ((pre ++ [b]) ++ mid ++ post)
      by (rewrite <- app_assoc; reflexivity).
    replace (Zlen pre + 1) with (Zlen (pre ++ [b])) by (rewrite Zlen_app, Zlen_cons, Zlen_nil; lia).
    rewrite IH by lia. rewrite <- app_assoc. reflexivity.
Qed.

(* one step of the inner fold of get_into_buffer *)
Definition gib_step (fmt : Z) (a : access) (xt k0 : Z)
           (acc : option (list byte * bool * bool)) (pe : Z * list byte)
  : option (list byte * bool * bool) :=
  let memt := eff_memt a xt in
  let msz := mem_size memt in
  match acc with
  | None => None
  | Some (buf, er, unk) =>
      let at_ := GUARD + buf_index (ac_buf a) (k0 + fst pe) * msz in
      if existsb is_undef (snd pe)
      then Some (poke buf at_ (repeat UNDEF (Z.to_nat msz)), er, true)
      else
      if (fmt <? 5) && (xt =? 1) && (memt =? 7)
      then Some (poke buf at_ (snd pe), er, unk)
      else
      match convert xt memt (snd pe) with
      | None => None
      | Some (be, e) => Some (poke buf at_ (mem_of_be be), er || e, unk)
      end
  end.

Lemma get_into_buffer_eq : forall fmt a xt rs,
  get_into_buffer fmt a xt rs =
  fold_left (fun acc0 x =>
               let '(k0, r, stream) := x in
               fold_left (gib_step fmt a xt k0)
                         (zip (lbuf_positions r) (chunk_list (xlen_type xt) stream)) acc0)
            rs
            (Some (blank_buf (buf_extent_list (ac_buf a) (map (fun x => snd (fst x)) rs) *
                              mem_size (eff_memt a xt)), false, false)).
Proof. reflexivity. Qed.

Lemma convert_same : forall t bs, convert t t bs = Some (bs, false).
Proof. intros t bs. unfold convert. rewrite Z.eqb_refl. reflexivity. Qed.

Lemma gib_step_typed : forall fmt a xt k0 buf er unk p e,
  ac_buf a = BTyped -> ac_memt a = xt ->
  gib_step fmt a xt k0 (Some (buf, er, unk)) (p, e) =
  Some (poke buf (GUARD + (k0 + p) * xlen_type xt) (elem_image (xlen_type xt) e), er,
        existsb is_undef e || unk).
Proof.
  intros fmt a xt k0 buf er unk p e Hb Hm. unfold gib_step, eff_memt, mem_size, elem_image.
  rewrite Hb, Hm. cbn [buf_index fst snd].
  destruct (existsb is_undef e); [reflexivity|].
  replace ((fmt <? 5) && (xt =? 1) && (xt =? 7)) with false by lia.
  rewrite convert_same. rewrite orb_false_r. reflexivity.
Qed.

Definition blanks (xsz : Z) (elems : list (list byte)) : list byte :=
  @flat_map (list byte) byte (fun _ => @repeat byte 165 (Z.to_nat xsz)) elems.

Lemma gib_fold_typed : forall fmt a xt,
  ac_buf a = BTyped -> ac_memt a = xt -> 0 <= xlen_type xt ->
  forall elems j pre post er unk,
  Forall (fun e => Zlen e = xlen_type xt) elems ->
  Zlen pre = GUARD + j * xlen_type xt ->
  fold_left (gib_step fmt a xt 0) (zip (zseq j (length elems)) elems)
            (Some (pre ++ blanks (xlen_type xt) elems ++ post, er, unk)) =
  Some (pre ++ flat_map (elem_image (xlen_type xt)) elems ++ post, er,
        existsb (existsb is_undef) elems || unk).
Proof.
  intros fmt a xt Hb Hm Hx. set (xsz := xlen_type xt) in *.
  induction elems as [|e rest IH]; intros j pre post er unk Hall Hpre.
  - reflexivity.
  - apply Forall_cons_iff in Hall. destruct Hall as [He Hrest].
    cbn [length zseq zip fold_left]. rewrite (gib_step_typed fmt a xt 0 _ _ _ j e Hb Hm).
    fold xsz. unfold blanks. cbn [flat_map]. fold (blanks xsz rest).
    rewrite <- app_assoc.
    replace (GUARD + (0 + j) * xsz) with (Zlen pre) by lia.
    rewrite poke_app
      by (rewrite Zlen_repeat', Zlen_elem_image by (try exact He; lia); lia).
    rewrite (app_assoc pre (elem_image xsz e) (blanks xsz rest ++ post)).
    rewrite (IH (j + 1)); [| exact Hrest | rewrite Zlen_app, Zlen_elem_image by (try exact He; lia); lia].
    rewrite <- !app_assoc. cbn [existsb].
    f_equal. f_equal.
    destruct (existsb is_undef e), (existsb (existsb is_undef) rest), unk; reflexivity.
Qed.

Lemma repeat_blanks : forall xsz (elems : list (list byte)), 0 <= xsz ->
  @repeat byte 165 (Z.to_nat (Zlen elems * xsz)) = blanks xsz elems.
Proof.
  intros xsz elems Hx. induction elems as [|e rest IH].
  - rewrite Zlen_nil. reflexivity.
  - unfold blanks. cbn [flat_map]. fold (blanks xsz rest). rewrite <- IH, <- repeat_app.
    f_equal. rewrite Zlen_cons. pose proof (Zlen_nonneg rest). nia.
Qed.

Lemma chunks_concat {A} : forall n (elems : list (list A)) fuel, (0 < n)%nat ->
  Forall (fun e => length e = n) elems -> (length elems <= fuel)%nat ->
  Data.chunks n fuel (concat elems) = elems.
Proof.
  intros n elems. induction elems as [|e rest IH]; intros fuel Hn Hall Hf.
  - destruct fuel; reflexivity.
  - inversion Hall as [|? ? He Hrest]; subst.
    destruct fuel as [|fuel]; [cbn [length] in Hf; lia|].
    cbn [concat Data.chunks].
    destruct (e ++ concat rest) as [|b l] eqn:E.
    { destruct e; [cbn [length] in Hn; lia | discriminate E]. }
    rewrite <- E. rewrite firstn_app, skipn_app, firstn_all, skipn_all, Nat.sub_diag.
    cbn [firstn skipn app]. rewrite app_nil_r. f_equal.
    apply IH; [exact Hn | exact Hrest | cbn [length] in Hf; lia].
Qed.

Lemma chunk_list_concat : forall xsz (elems : list (list byte)), 0 < xsz ->
  Forall (fun e => Zlen e = xsz) elems -> chunk_list xsz (concat elems) = elems.
Proof.
  intros xsz elems Hx Hall. unfold chunk_list. apply chunks_concat.
  - lia.
  - eapply Forall_impl; [|exact Hall]. intros e He. cbv beta in He. unfold Zlen in He. lia.
  - induction Hall as [|e rest He _ IH]; [cbn [length]; lia|].
    cbn [concat length]. rewrite app_length. unfold Zlen in He. lia.
Qed.

Lemma nelems_or1_nonneg : forall r, Forall (fun c => 0 <= c) (rq_count r) -> nelems_or1 r = nelems_of r.
Proof.
  intros r H. unfold nelems_or1.
  replace (existsb (fun c => c <? 0) (rq_count r)) with false; [reflexivity|].
  symmetry. induction H as [|c l Hc _ IH]; [reflexivity|]. cbn [existsb]. rewrite IH. lia.
Qed.

(** get_into_buffer, one request, typed contiguous buffer, memory type = external type: the
    buffer is the two guard runs around the images of the elements, no NC_ERANGE, and the
    "undefined" flag says whether some element contains an undefined byte *)
Theorem get_into_buffer_typed : forall fmt a xt r elems,
  ac_buf a = BTyped -> ac_memt a = xt -> rq_imap r = None ->
  Forall (fun c => 0 <= c) (rq_count r) -> 0 < xlen_type xt ->
  Forall (fun e => Zlen e = xlen_type xt) elems -> Zlen elems = nelems_of r ->
  get_into_buffer fmt a xt [(0, r, concat elems)] =
  Some (guard_bytes ++ flat_map (elem_image (xlen_type xt)) elems ++ guard_bytes, false,
        existsb (existsb is_undef) elems).
Proof.
  intros fmt a xt r elems Hb Hm Him Hcnt Hx Hall Hlen.
  rewrite get_into_buffer_eq. cbn [map fst snd fold_left].
  rewrite Hb. cbn [buf_extent_list buf_extent_elems]. rewrite Him.
  rewrite nelems_or1_nonneg by exact Hcnt.
  unfold eff_memt, mem_size. rewrite Hb, Hm.
  rewrite lbuf_positions_none by exact Him.
  rewrite chunk_list_concat by (try exact Hall; lia).
  unfold blank_buf. rewrite <- Hlen. rewrite repeat_blanks by lia.
  unfold zrange. replace (Z.to_nat (Zlen elems)) with (length elems) by (unfold Zlen; lia).
  etransitivity.
  { apply (gib_fold_typed fmt a xt Hb Hm ltac:(lia) elems 0 guard_bytes guard_bytes false false Hall).
    reflexivity. }
  rewrite orb_false_r. reflexivity.
Qed.

(* ================================================================== *)
(** * 7. get_rank_op                                                    *)
(* ================================================================== *)
Lemma dk_gather_concat : forall d xsz offs,
  dk_gather d xsz offs = concat (map (fun o => dk_read d o xsz) offs).
Proof. intros d xsz offs. unfold dk_gather. apply flat_map_concat_map. Qed.

(* the elements a get reads, in the order of the request *)
Definition get_elems (w : world) (f : filest) (a : access) (r : rreq) : list (list byte) :=
  map (fun o => dk_read (disk_of w f) o (g_xsz (acc_geom f a))) (req_offsets (acc_geom f a) r).

Definition get_accepted (w : world) (f : filest) (rank : Z) (coll : bool) (a : access) (r : rreq)
  : Prop :=
  sanity f false true coll a = NC_NOERR /\
  check_request w f rank true a = (NC_NOERR, Some [r]) /\
  ac_buf a = BTyped /\ ac_memt a = acc_xt f a /\
  form_lengths (ac_form a) (length (g_shape (acc_geom f a))) /\
  wf_geom (acc_geom f a).

Lemma get_accepted_rq_ok : forall w f rank coll a r,
  get_accepted w f rank coll a r -> rq_ok (acc_geom f a) r.
Proof.
  intros w f rank coll a r (_ & Hchk & _ & _ & Hfl & _). eapply check_request_req_ok; eassumption.
Qed.

(** Deliverable 2, the interpreter step: a typed get whose memory type is the variable's
    external type returns the guard bytes around the memory images (little endian) of the
    elements found on the disk at the model offsets; NC_NOERR when all of them are defined,
    RC_ANY (not predicted) when some byte was never written. *)
Theorem get_rank_op_typed : forall w f rank coll a r,
  get_accepted w f rank coll a r ->
  let xsz := g_xsz (acc_geom f a) in
  let elems := get_elems w f a r in
  get_rank_op w f rank coll a =
  ((if existsb (existsb is_undef) elems then RC_ANY else NC_NOERR),
   [THex (guard_bytes ++ flat_map (elem_image xsz) elems ++ guard_bytes)]).
Proof.
  intros w f rank coll a r Hacc xsz elems.
  pose proof (get_accepted_rq_ok _ _ _ _ _ _ Hacc) as Hok.
  destruct Hacc as (Hsan & Hchk & Hb & Hm & Hfl & Hwf).
  pose proof Hwf as (Hx & _).
  unfold get_rank_op. rewrite Hsan. change (negb (NC_NOERR =? NC_NOERR)) with false. cbv iota.
  rewrite Hchk.
  assert (Hio : iomismatch a [r] = false) by (unfold iomismatch; rewrite Hb; reflexivity).
  rewrite Hio. cbn [with_bases map fst snd].
  fold (acc_geom f a). fold (req_offsets (acc_geom f a) r).
  rewrite dk_gather_concat. fold (get_elems w f a r). fold elems.
  rewrite (get_into_buffer_typed (h_format (f_hdr f)) a (v_type (the_var f a)) r elems).
  - reflexivity.
  - exact Hb.
  - exact Hm.
  - exact (proj1 Hok).
  - eapply req_ok_count_nonneg. exact (proj2 Hok).
  - exact Hx.
  - unfold elems, get_elems. apply Forall_map. apply Forall_forall. intros o _.
    rewrite Zlen_dk_read. rewrite g_xsz_acc_geom in *. unfold acc_xt in *. lia.
  - unfold elems, get_elems. rewrite Zlen_map. apply Zlen_req_offsets; assumption.
Qed.
(* ================================================================== *)
(** * 8. get after put                                                  *)
(* ================================================================== *)
(* the get is issued on a (possibly later) world / file state that sees the same variable
   with the same geometry, and whose disk is the one the put left behind *)
Definition sees_put (w2 : world) (f2 : filest) (a2 : access) (f : filest) (a : access) (r : rreq)
           (d : disk) : Prop :=
  acc_geom f2 a2 = acc_geom f a /\ acc_xt f2 a2 = acc_xt f a /\
  disk_of w2 f2 = put_disk f a r d.

(* ... or, weaker (enough, and what a collective put by several ranks or a later numrecs
   update of the header leaves): a disk that agrees with the put's disk on the bytes of the
   elements the request r' reads *)
Definition sees_put_at (w2 : world) (f2 : filest) (a2 : access) (f : filest) (a : access)
           (r : rreq) (d : disk) (r' : rreq) : Prop :=
  acc_geom f2 a2 = acc_geom f a /\ acc_xt f2 a2 = acc_xt f a /\
  forall o j, In o (req_offsets (acc_geom f a) r') -> 0 <= j < g_xsz (acc_geom f a) ->
    dk_get (disk_of w2 f2) (o + j) = dk_get (put_disk f a r d) (o + j).

Lemma sees_put_at_of_eq : forall w2 f2 a2 f a r d, sees_put w2 f2 a2 f a r d ->
  forall r', sees_put_at w2 f2 a2 f a r d r'.
Proof.
  intros w2 f2 a2 f a r d (Hg & Hx & Hd) r'. split; [exact Hg|]. split; [exact Hx|].
  intros o j _ _. rewrite Hd. reflexivity.
Qed.

Lemma get_elems_eq : forall w2 f2 a2 f a r r' d, sees_put_at w2 f2 a2 f a r d r' ->
  get_elems w2 f2 a2 r' =
  map (fun o => dk_read (put_disk f a r d) o (g_xsz (acc_geom f a))) (req_offsets (acc_geom f a) r').
Proof.
  intros w2 f2 a2 f a r r' d (Hg & _ & Hd). unfold get_elems. rewrite Hg.
  apply map_ext_in. intros o Ho. apply dk_read_ext. intros x Hx.
  replace x with (o + (x - o)) by lia. apply Hd; [exact Ho | lia].
Qed.

Lemma put_elems_defined : forall a xt l,
  existsb (existsb is_undef) (map (fun k => put_elem a xt k) l) = false.
Proof.
  intros a xt l. induction l as [|k l IH]; [reflexivity|].
  cbn [map existsb]. rewrite IH. unfold put_elem at 1.
  rewrite byte_ok_defined by apply enc_value_range. reflexivity.
Qed.

(** Deliverable 2: the same request read back.  After an accepted put, a typed get (memory
    type = external type) of the SAME resolved request r, accepted by the read-side checks, on
    any world whose disk for the file is the one the put produced, returns NC_NOERR and the
    buffer  guard ++ (little-endian image of every pattern value, in request order) ++ guard.
    In particular no element is undefined. *)
Theorem get_after_put : forall w f rank coll a r d w2 f2 rank2 coll2 a2,
  put_accepted w f rank coll a r ->
  get_accepted w2 f2 rank2 coll2 a2 r ->
  sees_put_at w2 f2 a2 f a r d r ->
  get_rank_op w2 f2 rank2 coll2 a2 =
  (NC_NOERR,
   [THex (guard_bytes ++
          flat_map (fun k => mem_of_be (put_elem a (acc_xt f a) k)) (zrange 0 (nelems_of r)) ++
          guard_bytes)]).
Proof.
  intros w f rank coll a r d w2 f2 rank2 coll2 a2 Hput Hget Hsee.
  pose proof (put_accepted_rq_ok _ _ _ _ _ _ Hput) as Hok.
  destruct Hput as (_ & _ & _ & _ & _ & Hwf & Hfit).
  rewrite (get_rank_op_typed w2 f2 rank2 coll2 a2 r Hget). cbv zeta.
  rewrite (get_elems_eq w2 f2 a2 f a r r d Hsee).
  destruct Hsee as (Hg & Hxt & Hd). rewrite Hg.
  set (g := acc_geom f a) in *. set (xt := acc_xt f a) in *.
  set (D := put_disk f a r d).
  pose proof Hwf as (Hx & _).
  assert (Hn : 0 <= nelems_of r) by (eapply rq_ok_nelems; exact Hok).
  (* the elements read are the elements put *)
  assert (Eel : map (fun o => dk_read D o (g_xsz g)) (req_offsets g r) =
                map (fun k => put_elem a xt k) (zrange 0 (nelems_of r))).
  { rewrite <- (chunk_list_concat (g_xsz g) (map (fun o => dk_read D o (g_xsz g)) (req_offsets g r)) Hx).
    2:{ apply Forall_map. apply Forall_forall. intros o _. rewrite Zlen_dk_read. lia. }
    rewrite <- dk_gather_concat. unfold D, g.
    rewrite (put_disk_roundtrip f a r d Hwf Hfit Hok). fold xt.
    rewrite put_stream_none by exact (proj1 Hok). rewrite flat_map_concat_map.
    rewrite chunk_list_concat; [| exact Hx |].
    - apply map_ext. intros k. f_equal.
    - apply Forall_map. apply Forall_forall. intros k _. unfold put_elem.
      rewrite Zlen_enc_value. reflexivity. }
  rewrite Eel.
  rewrite put_elems_defined. f_equal. f_equal. f_equal. f_equal.
  rewrite flat_map_concat_map, map_map, <- flat_map_concat_map.
  f_equal. apply flat_map_ext. intros k. apply elem_image_defined. apply enc_value_range.
Qed.

(** ... and through ANY other accepted request r' on the same variable (another start / count /
    stride, overlapping or not): the get returns the images of the elements [elems]; element
    k' is the pattern value the put stored for the same index vector, or — for an index vector
    the put did not address — the content of the disk before the put.  The return code is
    RC_ANY exactly when some element read contains a never-written byte. *)
Theorem get_after_put_other : forall w f rank coll a r d w2 f2 rank2 coll2 a2 r',
  put_accepted w f rank coll a r ->
  get_accepted w2 f2 rank2 coll2 a2 r' ->
  sees_put_at w2 f2 a2 f a r d r' ->
  let g := acc_geom f a in let xt := acc_xt f a in
  let elems := get_elems w2 f2 a2 r' in
  get_rank_op w2 f2 rank2 coll2 a2 =
    ((if existsb (existsb is_undef) elems then RC_ANY else NC_NOERR),
     [THex (guard_bytes ++ flat_map (elem_image (g_xsz g)) elems ++ guard_bytes)]) /\
  Zlen elems = nelems_of r' /\
  forall k', 0 <= k' < nelems_of r' ->
    let idx' := znth (rq_indices g r') k' [] in
    (forall k, 0 <= k < nelems_of r -> znth (rq_indices g r) k [] = idx' ->
       znth elems k' [] = put_elem a xt k) /\
    (~ In idx' (rq_indices g r) ->
       znth elems k' [] = dk_read d (elem_off g idx') (g_xsz g)).
Proof.
  intros w f rank coll a r d w2 f2 rank2 coll2 a2 r' Hput Hget Hsee g xt elems.
  pose proof (put_accepted_rq_ok _ _ _ _ _ _ Hput) as Hok.
  pose proof (get_accepted_rq_ok _ _ _ _ _ _ Hget) as Hok'.
  destruct Hput as (_ & _ & _ & _ & _ & Hwf & Hfit).
  split.
  { rewrite (get_rank_op_typed w2 f2 rank2 coll2 a2 r' Hget). cbv zeta.
    destruct Hsee as (Hg & _). rewrite Hg. reflexivity. }
  unfold elems. rewrite (get_elems_eq w2 f2 a2 f a r r' d Hsee).
  destruct Hsee as (Hg & Hxt & Hd). rewrite Hg in Hok'. fold g in Hok', Hok, Hwf, Hfit |- *.
  pose proof Hwf as (Hx & _).
  split; [rewrite Zlen_map; apply Zlen_req_offsets; assumption|].
  intros k' Hk'. set (idx' := znth (rq_indices g r') k' []).
  pose proof (Zlen_req_offsets g r' Hwf Hok') as Hzl'.
  rewrite (znth_map _ (req_offsets g r') k' 0 []) by lia.
  rewrite <- (stream_elem_gather (put_disk f a r d) (g_xsz g) (req_offsets g r') k') by lia.
  assert (Hlen : Zlen (put_stream a xt 0 r) = g_xsz g * zprod (rq_count r)).
  { rewrite Zlen_put_stream; [reflexivity | exact (proj1 Hok) | eapply rq_ok_nelems; exact Hok]. }
  destruct (get_other_request g (rq_start r) (rq_count r) (rq_strides g r)
              (rq_start r') (rq_count r') (rq_strides g r') d (put_stream a xt 0 r) k'
              Hwf Hfit (proj2 Hok) (proj2 Hok') Hlen Hk') as [Hin Hout].
  rewrite <- !req_offsets_some in Hin, Hout by assumption.
  fold (rq_indices g r) in Hin, Hout. fold (rq_indices g r') in Hin, Hout. fold idx' in Hin, Hout.
  split.
  - intros k Hk E. unfold put_disk. fold g xt. rewrite (Hin k Hk E).
    rewrite put_stream_none by exact (proj1 Hok).
    rewrite (stream_elem_flat_map (fun p => put_elem a xt (0 + p)) (g_xsz g)).
    + f_equal.
    + intros p. unfold put_elem. rewrite Zlen_enc_value. reflexivity.
    + exact Hk.
  - intros Hnot. unfold put_disk. fold g xt. apply Hout. exact Hnot.
Qed.
(* ================================================================== *)
(** * 9. indep_put: the script-level independent put                   *)
(* ================================================================== *)
Lemma znth_some_range {A} : forall (l : list (option A)) i x,
  znth l i None = Some x -> 0 <= i < Zlen l.
Proof.
  induction l as [|y l IH]; intros i x H; [discriminate H|].
  cbn [znth] in H. rewrite Zlen_cons. pose proof (Zlen_nonneg l).
  destruct (i =? 0) eqn:E; [lia|]. apply IH in H. lia.
Qed.

Lemma acc_geom_indep_numrecs : forall f rank nn a,
  acc_geom (indep_numrecs f rank nn) a = acc_geom f a /\
  acc_xt (indep_numrecs f rank nn) a = acc_xt f a /\
  f_slot (indep_numrecs f rank nn) = f_slot f /\
  f_hdr (indep_numrecs f rank nn) = f_hdr f /\ f_lay (indep_numrecs f rank nn) = f_lay f.
Proof.
  intros f rank nn a. unfold indep_numrecs. destruct nn as [n|]; [|repeat split; reflexivity].
  destruct (rk_numrecs (get_rank f rank) <? n); repeat split; reflexivity.
Qed.

Lemma disk_of_put_file : forall w id x f, disk_of (put_file w id x) f = disk_of w f.
Proof. reflexivity. Qed.

(** an accepted independent put through indep_put: observation NC_NOERR, the file's disk is
    the put_disk, the file state changes only in the rank's numrecs (same header, layout,
    geometry), other slots' disks are untouched *)
Theorem indep_put_effect : forall w id f rank a r,
  put_accepted w f rank false a r ->
  znth (w_files w) id None = Some f ->
  exists w'',
    indep_put w id f rank a = (w'', [(rank, NC_NOERR, [TSame])]) /\
    let f' := indep_numrecs f rank (put_newrecs f a r) in
    znth (w_files w'') id None = Some f' /\
    disk_of w'' f' = put_disk f a r (disk_of w f) /\
    (forall s, s <> f_slot f -> get_disk w'' s = get_disk w s) /\
    w_strict w'' = w_strict w /\ w_nprocs w'' = w_nprocs w.
Proof.
  intros w id f rank a r Hacc Hf.
  pose proof (znth_some_range _ _ _ Hf) as Hid.
  destruct Hacc as (Hslot & Hsan & Hchk & Hio & Hfl & Hwf & Hfit).
  destruct (put_rank_effect w id f rank false a r Hslot Hsan Hchk Hio)
    as (w' & Hput & Hd & Hoth & Hsame).
  destruct Hsame as (Hnp & Hfiles & Hids & Hhints & Hstrict & Hmu & Hnd).
  unfold indep_put. rewrite Hput. rewrite Hfiles, Hf.
  eexists. split; [reflexivity|]. cbv zeta.
  destruct (acc_geom_indep_numrecs f rank (put_newrecs f a r) a) as (_ & _ & Hsl & _).
  split; [|split; [|split; [|split]]].
  - unfold put_file, set_files. cbn [w_files]. apply znth_zupd_same. rewrite Hfiles. exact Hid.
  - rewrite disk_of_put_file. unfold disk_of in *. rewrite Hsl. exact Hd.
  - intros s Hs. unfold put_file, set_files, get_disk. cbn [w_disks]. apply Hoth. exact Hs.
  - unfold put_file, set_files. cbn [w_strict]. exact Hstrict.
  - unfold put_file, set_files. cbn [w_nprocs]. exact Hnp.
Qed.

(** put (indep_put) then get (get_rank_op) on the world and file state the interpreter
    continues with: the image of the stream comes back *)
Theorem indep_put_then_get : forall w id f rank a r w'' obs rank2 coll2 a2,
  put_accepted w f rank false a r ->
  znth (w_files w) id None = Some f ->
  indep_put w id f rank a = (w'', obs) ->
  let f' := indep_numrecs f rank (put_newrecs f a r) in
  ac_var a2 = ac_var a ->
  get_accepted w'' f' rank2 coll2 a2 r ->
  znth (w_files w'') id None = Some f' /\
  get_rank_op w'' f' rank2 coll2 a2 =
  (NC_NOERR,
   [THex (guard_bytes ++
          flat_map (fun k => mem_of_be (put_elem a (acc_xt f a) k)) (zrange 0 (nelems_of r)) ++
          guard_bytes)]).
Proof.
  intros w id f rank a r w'' obs rank2 coll2 a2 Hacc Hf Hip f' Hv Hget.
  destruct (indep_put_effect w id f rank a r Hacc Hf) as (w3 & E & Hf' & Hd & _).
  rewrite E in Hip. injection Hip as <- _. split; [exact Hf'|].
  apply (get_after_put w f rank false a r (disk_of w f) w3 f' rank2 coll2 a2 Hacc Hget).
  destruct (acc_geom_indep_numrecs f rank (put_newrecs f a r) a2) as (Hg & Hx & _).
  apply sees_put_at_of_eq. unfold sees_put. unfold f' in *. rewrite Hg, Hx.
  unfold acc_geom, acc_xt, the_var. rewrite Hv. repeat split. exact Hd.
Qed.
(* ================================================================== *)
(** * 10. geom_of under the layout invariant: wf_geom and rec_fits hold *)
(* ================================================================== *)
(* sum of the lens of the record entries, on the filtered list *)
Lemma rsum_filter : forall t3 : list (bool * Z * Z),
  rsum (map fst t3) =
  zsum (map (fun t : bool * Z * Z => snd (fst t)) (filter (fun t : bool * Z * Z => fst (fst t)) t3)).
Proof.
  induction t3 as [|[[k len] u] r IH]; [reflexivity|].
  cbn [map fst rsum filter]. destruct k; cbn [map zsum fst snd]; rewrite IH; reflexivity.
Qed.

Lemma zsum_zero_all : forall l, Forall (fun x => 0 <= x) l -> zsum l = 0 -> Forall (fun x => x = 0) l.
Proof.
  induction l as [|x l IH]; intros Hnn Hs; [constructor|].
  apply Forall_cons_iff in Hnn. destruct Hnn as [Hx Hl]. cbn [zsum] in Hs.
  assert (0 <= zsum l).
  { clear -Hl. induction Hl as [|y l Hy _ IH]; cbn [zsum]; lia. }
  constructor; [lia | apply IH; [exact Hl | lia]].
Qed.

(* the record size is at least the unpadded size of every record variable *)
Lemma rs_rule_ge_unpadded : forall (t3 : list (bool * Z * Z)) t, wf_t3 t3 ->
  In t (filter (fun t : bool * Z * Z => fst (fst t)) t3) -> snd t <= rs_rule t3.
Proof.
  intros t3 t Hwf Hin.
  assert (Ht : 0 <= snd t <= snd (fst t)).
  { apply filter_In in Hin. unfold wf_t3 in Hwf. rewrite Forall_forall in Hwf.
    exact (proj1 (Hwf t (proj1 Hin))). }
  pose proof (rsum_ge_in t3 t Hwf Hin) as Hge.
  unfold rs_rule. set (L := filter (fun t : bool * Z * Z => fst (fst t)) t3) in *.
  destruct (Proofs_Layout.snoc_cases_layout _ L) as [En|[L' [x El]]].
  { rewrite En in Hin. destruct Hin. }
  rewrite El, last_opt_snoc. destruct x as [[k ll] u].
  destruct (Z.eqb_spec (rsum (map fst t3)) ll) as [E|E]; [|lia].
  (* the sum is the last len: every other record entry has len 0 *)
  assert (Hx : 0 <= u).
  { assert (Hinx : In (k, ll, u) t3).
    { assert (H : In (k, ll, u) L) by (rewrite El; apply in_or_app; right; left; reflexivity).
      exact (proj1 (proj1 (filter_In _ _ _) H)). }
    unfold wf_t3 in Hwf. rewrite Forall_forall in Hwf. exact (proj1 (proj1 (Hwf _ Hinx))). }
  rewrite rsum_filter in E. fold L in E. rewrite El, map_app, zsum_app_layout in E.
  cbn [map zsum fst snd] in E.
  rewrite El in Hin. apply in_app_or in Hin. destruct Hin as [Hin|[<-|[]]]; [|cbn [snd]; lia].
  assert (Hz : Forall (fun x => x = 0) (map (fun t : bool * Z * Z => snd (fst t)) L')).
  { apply zsum_zero_all; [|lia]. apply Forall_map. apply Forall_forall. intros y Hy.
    assert (Hiny : In y t3).
    { assert (H : In y L) by (rewrite El; apply in_or_app; left; exact Hy).
      exact (proj1 (proj1 (filter_In _ _ _) H)). }
    unfold wf_t3 in Hwf. rewrite Forall_forall in Hwf. pose proof (Hwf _ Hiny). lia. }
  rewrite Forall_map, Forall_forall in Hz. specialize (Hz t Hin). cbv beta in Hz. lia.
Qed.

(* exactly one record entry: the record size is its unpadded size *)
Lemma rs_rule_single : forall (t3 : list (bool * Z * Z)) t,
  filter (fun t : bool * Z * Z => fst (fst t)) t3 = [t] -> rs_rule t3 = snd t.
Proof.
  intros t3 [[k ll] u] H. unfold rs_rule. rewrite rsum_filter, H.
  cbn [map zsum last_opt rev app fst snd].
  replace (ll + 0 =? ll) with true by lia. reflexivity.
Qed.

(* a variable of the header whose dimensions are usable: positive element size, the record
   dimension (length 0) only in front *)
Definition var_ok (h : hdr) (v : var) : Prop :=
  In v (h_vars h) /\ 0 < xlen_type (v_type v) /\ dims_wf (var_shape (h_dims h) v).

Lemma list_le1_in {A} : forall (l : list A) x, Zlen l <= 1 -> In x l -> l = [x].
Proof.
  intros l x Hl Hin. destruct l as [|y l]; [destruct Hin|].
  destruct l as [|z l].
  - destruct Hin as [->|[]]. reflexivity.
  - rewrite !Zlen_cons in Hl. pose proof (Zlen_nonneg l). lia.
Qed.

(** the geometry the interpreter derives for a variable ([geom_of]) is well formed and its
    records do not overlap, as soon as the file state's layout follows the recsize rule — the
    last conjunct of [lay_inv], established by enddef ([begins_layout_ok]) and kept by every
    redefinition and reopen ([reachable_lay_inv]) *)
Theorem geom_of_wf : forall f v,
  hdr_wf (f_hdr f) -> l_recsize (f_lay f) = rs_rule (t3of (f_hdr f)) -> var_ok (f_hdr f) v ->
  wf_geom (geom_of f v) /\ rec_fits (geom_of f v).
Proof.
  intros f v Hwf Hrs (Hin & Hx & Hdw).
  set (h := f_hdr f) in *. set (dims := h_dims h).
  pose proof (wf_t3of h Hwf) as Hw3.
  set (t := (is_recvar dims v, var_len dims v, unpadded dims v)).
  assert (Hint : In t (t3of h)) by (unfold t3of; apply in_map_iff; exists v; split; [reflexivity | exact Hin]).
  assert (Hunp : is_recvar dims v = true ->
                 unpadded dims v = zprod (tl (var_shape dims v)) * xlen_type (v_type v)).
  { intros Hrec. unfold unpadded, var_nelems_per_rec. unfold is_recvar in Hrec.
    destruct (var_shape dims v) as [|s0 ss]; [discriminate Hrec|]. rewrite Hrec. reflexivity. }
  assert (Hfil : is_recvar dims v = true ->
                 In t (filter (fun t : bool * Z * Z => fst (fst t)) (t3of h))).
  { intros Hrec. apply filter_In. split; [exact Hint | exact Hrec]. }
  unfold wf_geom, rec_fits, rec_packed, geom_of.
  cbn [g_xsz g_recsize g_shape g_nrecvars g_begin]. fold h dims.
  change (g_isrec (mkgeom (v_begin v) (xlen_type (v_type v)) (var_shape dims v)
                          (l_recsize (f_lay f)) (num_rec_vars h)))
    with (is_recvar dims v).
  rewrite Hrs.
  split; [split; [exact Hx | split; [exact (proj1 (rs_rule_bounds _ Hw3)) | split; [exact Hdw|]]]|].
  - (* packed records when there is a single record variable *)
    intros Hrec Hn. rewrite <- (Hunp Hrec).
    assert (Hone : filter (fun t : bool * Z * Z => fst (fst t)) (t3of h) = [t]).
    { apply list_le1_in; [|exact (Hfil Hrec)].
      unfold t3of. rewrite filter_map_comm, Zlen_map. cbn [fst]. exact Hn. }
    rewrite (rs_rule_single _ _ Hone). reflexivity.
  - intros Hrec. rewrite <- (Hunp Hrec).
    exact (rs_rule_ge_unpadded (t3of h) t Hw3 (Hfil Hrec)).
Qed.

(* the variable an accepted access names is a variable of the header *)
Lemma sanity_var_in : forall f isput blocking coll a,
  sanity f isput blocking coll a = NC_NOERR -> In (the_var f a) (h_vars (f_hdr f)).
Proof.
  intros f isput blocking coll a H. unfold sanity in H.
  destruct (isput && f_rdonly f); [vm_compute in H; discriminate H|].
  destruct (blocking && f_indef f); [vm_compute in H; discriminate H|].
  destruct (blocking && coll && f_indep f); [vm_compute in H; discriminate H|].
  destruct (blocking && negb coll && negb (f_indep f)); [vm_compute in H; discriminate H|].
  destruct (ac_var a =? -1); [vm_compute in H; discriminate H|].
  destruct ((ac_var a <? 0) || (ac_var a >=? Zlen (h_vars (f_hdr f)))) eqn:E;
    [vm_compute in H; discriminate H|].
  unfold the_var. apply znth_In. lia.
Qed.

(** the layout hypotheses of [put_accepted] / [get_accepted], discharged from the invariant *)
Corollary acc_geom_wf : forall f isput blocking coll a,
  sanity f isput blocking coll a = NC_NOERR ->
  hdr_wf (f_hdr f) -> l_recsize (f_lay f) = rs_rule (t3of (f_hdr f)) ->
  0 < xlen_type (acc_xt f a) -> dims_wf (g_shape (acc_geom f a)) ->
  wf_geom (acc_geom f a) /\ rec_fits (acc_geom f a).
Proof.
  intros f isput blocking coll a Hsan Hwf Hrs Hx Hdw. apply geom_of_wf; try assumption.
  split; [eapply sanity_var_in; exact Hsan | split; assumption].
Qed.
(* ================================================================== *)
(** * 12. C16 at interpreter level: after the first enddef a get of a   *)
(**       fill-mode fixed variable reads its fill value                 *)
(* ================================================================== *)
(* two different fixed variables of a layout occupy disjoint byte ranges *)
Lemma bi_vars_apart : forall (F : var -> Z * Z) L e,
  Forall (fun v => 0 <= snd (F v)) L ->
  begins_increasing e (map F L) = true ->
  forall v v', In v L -> In v' L ->
    v = v' \/ fst (F v) + snd (F v) <= fst (F v') \/ fst (F v') + snd (F v') <= fst (F v).
Proof.
  intros F L. induction L as [|x r IH]; intros e Hnn Hbi v v' Hv Hv'; [destruct Hv|].
  apply Forall_cons_iff in Hnn. destruct Hnn as [Hx Hr].
  cbn [map] in Hbi. rewrite (surjective_pairing (F x)) in Hbi.
  apply bi_cons in Hbi. destruct Hbi as (H1 & H2 & H3).
  assert (Hge : forall y, In y r -> fst (F x) + snd (F x) <= fst (F y)).
  { intros y Hy.
    apply (bi_in_ge (map F r) _ (fst (F y)) (snd (F y))).
    - apply Forall_map. exact Hr.
    - exact H3.
    - rewrite <- surjective_pairing. apply in_map. exact Hy. }
  destruct Hv as [<-|Hv]; destruct Hv' as [<-|Hv'].
  - left. reflexivity.
  - right. left. apply Hge. exact Hv'.
  - right. right. apply Hge. exact Hv.
  - exact (IH _ Hr H3 v v' Hv Hv').
Qed.

Lemma nelems_unpadded : forall h v, nelems h v * vxsz v = unpadded (h_dims h) v.
Proof. reflexivity. Qed.

(** the fill at the first enddef (no record exists yet: nrecs = 0, every variable is new:
    start_vid = 0): every element of every fill-mode fixed variable holds the fill value *)
Lemma first_fill_elem : forall d h lay np bv v e,
  hdr_wf h -> 1 <= np ->
  begins_increasing bv (fixed_pairs h) = true ->
  (forall v', In v' (h_vars h) -> v_nofill v' = false -> Zlen (var_fill_bytes v') = vxsz v') ->
  In v (h_vars h) -> v_nofill v = false -> is_recvar (h_dims h) v = false -> 0 < vxsz v ->
  0 <= e < nelems h v ->
  dk_read (do_fill d h lay 0 0 np) (v_begin v + e * vxsz v) (vxsz v) = var_fill_bytes v.
Proof.
  intros d h lay np bv v e Hwf Hnp Hbi Hfl Hin Hnf Hfix Hx He.
  apply do_fill_writes_fill; try assumption.
  - rewrite Proofs_Base.zskipn_0. exact Hin.
  - apply Hfl; assumption.
  - intros r off c v' Hr Hseg.
    apply fill_plan_in_iff in Hseg. rewrite Proofs_Base.zskipn_0 in Hseg.
    destruct Hseg as (Hin' & Hnf' & Hc & [(Hfix' & Hoff) | (_ & recno & Hrn & _)]); [|lia].
    assert (HL' : 0 <= nelems h v') by (apply nelems_nonneg; exact Hwf).
    destruct (share_inside np (nelems h v') r Hnp HL' Hr) as [Hs0 Hs1].
    pose proof (xlen_type_nonneg (v_type v')) as Hxs'. fold (vxsz v') in Hxs'.
    pose proof (var_len_unpadded (h_dims h) v) as Hu. rewrite <- nelems_unpadded in Hu.
    pose proof (var_len_unpadded (h_dims h) v') as Hu'. rewrite <- nelems_unpadded in Hu'.
    rewrite (Hfl v' Hin' Hnf').
    assert (Hseg_lo : v_begin v' <= off) by (subst off; nia).
    assert (Hseg_hi : off + c * vxsz v' <= v_begin v' + var_len (h_dims h) v') by (subst off c; nia).
    assert (HfL : forall u, In u (h_vars h) -> is_recvar (h_dims h) u = false -> In u (fixed_vars h)).
    { intros u Hu1 Hu2. unfold fixed_vars. apply filter_In. split; [exact Hu1|]. rewrite Hu2. reflexivity. }
    destruct (bi_vars_apart (fun u => (v_begin u, var_len (h_dims h) u)) (fixed_vars h) bv) with (v := v') (v' := v)
      as [E|[E|E]].
    + apply Forall_forall. intros u _. cbn [snd]. unfold var_len.
      apply var_len_of_nonneg; [apply xlen_type_nonneg | apply var_shape_nonneg; exact Hwf].
    + exact Hbi.
    + apply HfL; assumption.
    + apply HfL; assumption.
    + left. exact E.
    + cbn [fst snd] in E. right. left. lia.
    + cbn [fst snd] in E. right. right. lia.
Qed.

Lemma fill_bytes_ok : forall t, Forall byte_ok (fill_bytes t).
Proof. intros t. unfold fill_bytes. apply be_bytes_range. Qed.

Lemma flat_map_const_repeat {A B} : forall (c : list B) (l : list A),
  flat_map (fun _ => c) l = concat (repeat c (length l)).
Proof. intros c l. induction l as [|x l IH]; [reflexivity|]. cbn [flat_map length repeat concat]. rewrite IH. reflexivity. Qed.

Lemma const_elems_defined {A} : forall (fb : list byte) (l : list A), Forall byte_ok fb ->
  existsb (existsb is_undef) (map (fun _ => fb) l) = false.
Proof.
  intros fb l H. induction l as [|i l IH]; [reflexivity|].
  cbn [map existsb]. rewrite IH, (byte_ok_defined _ H). reflexivity.
Qed.

Lemma nelems_fixed : forall dims v, is_recvar dims v = false ->
  var_nelems_per_rec (var_shape dims v) = zprod (var_shape dims v).
Proof.
  intros dims v H. unfold is_recvar in H. unfold var_nelems_per_rec.
  destruct (var_shape dims v) as [|s0 ss]; [reflexivity|]. rewrite H. reflexivity.
Qed.

(** Deliverable 4a (C16 at interpreter level).  A file created in this session; its first
    enddef succeeds (do_enddef returns NC_NOERR) and the header it keeps is encodable.  Then on
    the world and file state the interpreter continues with, ANY accepted typed get (memory
    type = external type; var1, vara or vars form; any rank; collective or independent) of a
    FIXED-size variable in FILL mode whose fill value consists of defined bytes (the default
    fill value always does) returns NC_NOERR and a buffer that holds the fill value in every
    element. *)
Theorem enddef_fill_reads_fill : forall w id f ea w',
  f_old f = None -> f_indef f = true -> f_isnew f = true -> l_begin_rec (f_lay f) = 0 ->
  hdr_wf (f_hdr f) ->
  0 <= env_h_align (f_align f) -> 0 <= env_v_align (f_align f) -> 0 <= env_r_align (f_align f) ->
  0 <= f_slot f < Zlen (w_disks w) -> 0 <= id < Zlen (w_files w) -> 1 <= w_nprocs w ->
  do_enddef w id f ea = Some (w', NC_NOERR) ->
  exists lay,
    let f'' := enddef_file f lay in
    znth (w_files w') id None = Some f'' /\
    (wf_hdr (f_hdr f'') = true ->
     forall rank coll a r,
       get_accepted w' f'' rank coll a r ->
       let v := the_var f'' a in
       v_nofill v = false -> is_recvar (h_dims (f_hdr f'')) v = false ->
       Forall byte_ok (var_fill_bytes v) ->
       get_rank_op w' f'' rank coll a =
       (NC_NOERR,
        [THex (guard_bytes ++
               concat (repeat (mem_of_be (var_fill_bytes v)) (Z.to_nat (nelems_of r))) ++
               guard_bytes)])).
Proof.
  intros w id f ea w' Hold Hindef Hnew Hbr0 Hwf Hah Hav Har Hslot Hid Hnp Hed.
  destruct (do_enddef_new_inv w id f ea w' Hindef Hold Hed)
    as (ha & va & ra & lay & Hargs & Hvl & Hal & Hbeg & Hg & Ew).
  exists lay. cbv zeta. rewrite Hbr0 in Hbeg.
  destruct Hargs as (A1 & A2 & A3 & A4).
  destruct (resolve_align_ok (f_align f) ea _ true ha va ra Hah Hav Har A2 A4 Hal)
    as ((Hha & Hha4) & _ & (Hra & Hra4)).
  destruct (begins_layout_ok (f_hdr f) _ _ ha ra lay Hwf A1 A3 Hha Hha4 Hra Hra4 Hbeg)
    as (Hinv & _ & Hxsz & Hlen & _ & _ & _ & _ & Hbi & _).
  split; [rewrite Ew; apply znth_put_set_same; exact Hid|].
  intros Hwfh rank coll a r Hget Hnf Hfix Hfb.
  set (f'' := enddef_file f lay) in *. set (v := the_var f'' a) in *.
  set (h1 := f_hdr f'') in *.
  pose proof (get_accepted_rq_ok _ _ _ _ _ _ Hget) as Hok.
  rewrite (get_rank_op_typed w' f'' rank coll a r Hget). cbv zeta.
  destruct Hget as (Hsan & Hchk & Hb & Hm & Hfl & Hwg).
  pose proof Hwg as (Hx & _).
  set (g := acc_geom f'' a) in *.
  (* the disk the get reads *)
  assert (Ed : disk_of w' f'' = do_fill (write_header (get_disk w (f_slot f)) h1) h1 lay 0 0 (w_nprocs w)).
  { unfold disk_of. change (f_slot f'') with (f_slot f). rewrite Ew.
    rewrite get_disk_put_set_same by exact Hslot. unfold enddef_new_disk. cbv zeta.
    change (enddef_hdr f lay) with h1.
    assert (Hv : In v (h_vars h1)) by (eapply sanity_var_in; exact Hsan).
    destruct (h_vars h1); [destruct Hv | reflexivity]. }
  (* every element read is the fill value *)
  assert (Eel : get_elems w' f'' a r = map (fun _ => var_fill_bytes v) (rq_indices g r)).
  { unfold get_elems. fold g. rewrite req_offsets_spec by assumption. rewrite map_map.
    apply map_ext_in. intros idx Hidx.
    pose proof (rq_indices_idx_ok g r idx Hok Hidx) as Hio. unfold idx_ok in Hio.
    assert (Hrec : g_isrec g = false) by exact Hfix.
    rewrite Hrec in Hio. rewrite elem_off_fixed by exact Hrec.
    destruct (lin_bounds _ _ Hio) as [L0 L1].
    rewrite Ed.
    change (g_begin g) with (v_begin v). change (g_xsz g) with (vxsz v).
    apply (first_fill_elem _ h1 lay (w_nprocs w) (bv1_new (f_hdr f) (e_h_minfree ea) ha) v).
    - exact Hwf.
    - exact Hnp.
    - exact Hbi.
    - intros v' Hv' Hnf'. apply (fill_len_ok_of_guard h1 0 Hwfh Hg v'); [|exact Hnf'].
      rewrite Proofs_Base.zskipn_0. exact Hv'.
    - eapply sanity_var_in. exact Hsan.
    - exact Hnf.
    - exact Hfix.
    - exact Hx.
    - unfold nelems. fold h1. rewrite (nelems_fixed _ _ Hfix).
      change (var_shape (h_dims h1) v) with (g_shape g). lia. }
  rewrite Eel.
  rewrite (const_elems_defined _ (rq_indices g r) Hfb). f_equal. f_equal. f_equal. f_equal.
  rewrite flat_map_concat_map, map_map, <- flat_map_concat_map.
  rewrite (flat_map_ext _ (fun _ => mem_of_be (var_fill_bytes v)))
    by (intros _; apply elem_image_defined; exact Hfb).
  rewrite flat_map_const_repeat. f_equal. f_equal. f_equal.
  pose proof (Zlen_rq_indices g r Hok) as Hz. unfold Zlen in Hz. lia.
Qed.

(* ================================================================== *)
(** * 13. coll_put: the script-level collective put                     *)
(* ================================================================== *)
Lemma check_request_strict : forall w w' f rank isread a, w_strict w' = w_strict w ->
  check_request w' f rank isread a = check_request w f rank isread a.
Proof. intros w w' f rank isread a H. unfold check_request. rewrite H. reflexivity. Qed.

Lemma same_but_disks_trans : forall w1 w2 w3,
  same_but_disks w1 w2 -> same_but_disks w2 w3 -> same_but_disks w1 w3.
Proof.
  intros w1 w2 w3 (A1 & A2 & A3 & A4 & A5 & A6 & A7) (B1 & B2 & B3 & B4 & B5 & B6 & B7).
  unfold same_but_disks. repeat split; congruence.
Qed.

Lemma Forall2_imp {A B} (R1 R2 : A -> B -> Prop) : (forall a b, R1 a b -> R2 a b) ->
  forall l l', Forall2 R1 l l' -> Forall2 R2 l l'.
Proof. intros H l l' H1. induction H1; constructor; auto. Qed.

(* the interpreter's own checks for the put of one rank of a collective call *)
Definition rank_put_ok (w : world) (f : filest) (ra : Z * access) (r : rreq) : Prop :=
  sanity f true true true (snd ra) = NC_NOERR /\
  check_request w f (fst ra) false (snd ra) = (NC_NOERR, Some [r]) /\
  iomismatch (snd ra) [r] = false.

(* the disk after the ranks' puts, applied in rank order *)
Definition coll_disk (f : filest) (ars : list (access * rreq)) (d : disk) : disk :=
  fold_left (fun d ar => put_disk f (fst ar) (snd ar) d) ars d.

Definition cp_step (id : Z) (f : filest) (acc : world * list (Z * Z * option Z)) (ra : Z * access)
  : world * list (Z * Z * option Z) :=
  let '(wc, out) := acc in
  let '(w', rc, nn, part) := put_rank wc id f (fst ra) true (snd ra) in
  (w', out ++ [(fst ra, rc, nn)]).

Definition cp_res (f : filest) (ras : list (Z * access)) (rs : list rreq) : list (Z * Z * option Z) :=
  map (fun p : (Z * access) * rreq => (fst (fst p), NC_NOERR, put_newrecs f (snd (fst p)) (snd p)))
      (zip ras rs).

Lemma cp_fold : forall id f ras rs, Forall2 (fun _ _ => True) ras rs ->
  forall w out,
  0 <= f_slot f < Zlen (w_disks w) ->
  Forall2 (rank_put_ok w f) ras rs ->
  exists w1,
    fold_left (cp_step id f) ras (w, out) = (w1, out ++ cp_res f ras rs) /\
    same_but_disks w w1 /\
    disk_of w1 f = coll_disk f (zip (map snd ras) rs) (disk_of w f) /\
    (forall s, s <> f_slot f -> get_disk w1 s = get_disk w s).
Proof.
  intros id f ras rs Hlen. induction Hlen as [|ra r ras rs _ _ IH]; intros w out Hslot Hall.
  - exists w. cbn [fold_left]. unfold cp_res. cbn [zip map]. rewrite app_nil_r.
    split; [reflexivity|]. split; [apply same_but_disks_refl|]. split; [reflexivity|].
    intros s _. reflexivity.
  - inversion Hall as [|? ? ? ? Hra Hrest]; subst.
    destruct Hra as (Hsan & Hchk & Hio).
    destruct (put_rank_effect w id f (fst ra) true (snd ra) r Hslot Hsan Hchk Hio)
      as (w' & Hput & Hd & Hoth & Hsame).
    cbn [fold_left]. unfold cp_step at 2. rewrite Hput.
    pose proof Hsame as (_ & _ & _ & _ & Hstrict & _ & Hnd).
    destruct (IH w' (out ++ [(fst ra, NC_NOERR, put_newrecs f (snd ra) r)])) as (w1 & Hf & Hs1 & Hd1 & Ho1).
    + rewrite Hnd. exact Hslot.
    + eapply Forall2_imp; [|exact Hrest]. intros ra' r' (S1 & S2 & S3).
      split; [exact S1|]. split; [|exact S3].
      rewrite (check_request_strict w w' f _ _ _ Hstrict). exact S2.
    + exists w1. split; [|split; [|split]].
      * rewrite Hf. unfold cp_res. cbn [zip map fst snd]. rewrite <- app_assoc. reflexivity.
      * eapply same_but_disks_trans; eassumption.
      * rewrite Hd1, Hd. reflexivity.
      * intros s Hs. rewrite (Ho1 s Hs). apply Hoth. exact Hs.
Qed.

Lemma Forall2_True {A B} (R : A -> B -> Prop) : forall l l', Forall2 R l l' -> Forall2 (fun _ _ => True) l l'.
Proof. intros l l' H. eapply Forall2_imp; [|exact H]. intros; exact I. Qed.

Lemma coll_put_eq : forall w id f ras,
  coll_put w id f ras =
  let '(w1, res) := fold_left (cp_step id f) ras (w, []) in
  let fatal rc := (rc =? NC_EPERM) || (rc =? NC_EINDEFINE) || (rc =? NC_EINDEP) || (rc =? NC_ENOTINDEP) in
  if existsb (fun x => fatal (snd (fst x))) res then
    (w, map (fun x => (fst (fst x), snd (fst x), [TSame])) res)
  else
    match znth (w_files w1) id None with
    | None => (w1, [])
    | Some f1 =>
        let v_isrec := fun (ra : Z * access) =>
              let a := snd ra in
              if (0 <=? ac_var a) && (ac_var a <? Zlen (h_vars (f_hdr f1)))
              then is_recvar (h_dims (f_hdr f1)) (the_var f1 a) else false in
        let w2 := if existsb v_isrec ras
                  then coll_numrecs_sync w1 id f1 (map (fun x => snd x) res) else w1 in
        (w2, map (fun x => (fst (fst x), snd (fst x), [TSame])) res)
    end.
Proof. reflexivity. Qed.

Lemma cp_res_not_fatal : forall f ras rs,
  existsb (fun x : Z * Z * option Z =>
             (snd (fst x) =? NC_EPERM) || (snd (fst x) =? NC_EINDEFINE) ||
             (snd (fst x) =? NC_EINDEP) || (snd (fst x) =? NC_ENOTINDEP)) (cp_res f ras rs) = false.
Proof.
  intros f ras rs. unfold cp_res. induction (zip ras rs) as [|p l IH]; [reflexivity|].
  cbn [map existsb fst snd]. rewrite IH. reflexivity.
Qed.

Lemma cp_res_obs : forall f ras rs, Forall2 (fun _ _ => True) ras rs ->
  map (fun x : Z * Z * option Z => (fst (fst x), snd (fst x), [TSame])) (cp_res f ras rs) =
  map (fun ra : Z * access => (fst ra, NC_NOERR, [TSame])) ras.
Proof.
  intros f ras rs H. unfold cp_res. induction H as [|ra r ras rs _ _ IH]; [reflexivity|].
  cbn [zip map fst snd]. rewrite IH. reflexivity.
Qed.

Lemma Zlen_put_nn_le : forall fmt x, Zlen (put_nn fmt x) <= 8.
Proof. intros fmt x. unfold put_nn. destruct (fmt <? 5); vm_compute; discriminate. Qed.

(** a collective put in which every rank's access passes the interpreter's checks: every rank
    observes NC_NOERR; the file's disk is the ranks' scatters applied in rank order, except
    possibly for the numrecs field of the header (bytes 4..11), rewritten when a record
    variable grew; the file state keeps its slot, layout, dimensions and variables (only
    numrecs change), hence every variable's geometry *)
Theorem coll_put_effect : forall w id f ras rs,
  0 <= f_slot f < Zlen (w_disks w) ->
  znth (w_files w) id None = Some f ->
  Forall2 (rank_put_ok w f) ras rs ->
  let D1 := coll_disk f (zip (map snd ras) rs) (disk_of w f) in
  exists w2 f2,
    coll_put w id f ras = (w2, map (fun ra => (fst ra, NC_NOERR, [TSame])) ras) /\
    znth (w_files w2) id None = Some f2 /\
    f_slot f2 = f_slot f /\ f_lay f2 = f_lay f /\
    h_dims (f_hdr f2) = h_dims (f_hdr f) /\ h_vars (f_hdr f2) = h_vars (f_hdr f) /\
    h_format (f_hdr f2) = h_format (f_hdr f) /\
    (forall a, acc_geom f2 a = acc_geom f a /\ acc_xt f2 a = acc_xt f a) /\
    (forall x, x < 4 \/ 12 <= x -> dk_get (disk_of w2 f2) x = dk_get D1 x) /\
    (forall s, s <> f_slot f -> get_disk w2 s = get_disk w s) /\
    w_strict w2 = w_strict w /\ w_nprocs w2 = w_nprocs w.
Proof.
  intros w id f ras rs Hslot Hf Hall D1.
  pose proof (Forall2_True _ _ _ Hall) as Hlen.
  destruct (cp_fold id f ras rs Hlen w [] Hslot Hall) as (w1 & Hfold & Hsame & Hd1 & Ho1).
  pose proof Hsame as (Hnp & Hfiles & _ & _ & Hstrict & _ & Hnd).
  pose proof (znth_some_range _ _ _ Hf) as Hid.
  set (visrec := fun ra : Z * access =>
         if (0 <=? ac_var (snd ra)) && (ac_var (snd ra) <? Zlen (h_vars (f_hdr f)))
         then is_recvar (h_dims (f_hdr f)) (the_var f (snd ra)) else false).
  assert (Ecp : coll_put w id f ras =
                (if existsb visrec ras
                 then coll_numrecs_sync w1 id f (map (fun x : Z * Z * option Z => snd x) (cp_res f ras rs))
                 else w1,
                 map (fun ra : Z * access => (fst ra, NC_NOERR, [TSame])) ras)).
  { rewrite coll_put_eq, Hfold. cbn [app]. cbv beta iota zeta.
    rewrite cp_res_not_fatal. rewrite Hfiles. rewrite Hf. rewrite (cp_res_obs f ras rs Hlen). reflexivity. }
  rewrite Ecp. clear Ecp.
  destruct (existsb visrec ras).
  - (* some record variable: numrecs agreement *)
    unfold coll_numrecs_sync.
    match goal with |- context [put_file (set_disk w1 (f_slot f) ?d) id (Some ?g)] =>
      set (d' := d); set (f2 := g) end.
    exists (put_file (set_disk w1 (f_slot f) d') id (Some f2)), f2.
    split; [reflexivity|].
    split. { unfold put_file, set_files, set_disk. cbn [w_files]. apply znth_zupd_same. rewrite Hfiles. exact Hid. }
    split; [reflexivity|]. split; [reflexivity|]. split; [reflexivity|]. split; [reflexivity|].
    split; [reflexivity|].
    split; [intros a; split; reflexivity|].
    split.
    { intros x Hx. rewrite disk_of_put_file. unfold disk_of. change (f_slot f2) with (f_slot f).
      rewrite get_disk_set_disk_same by (rewrite Hnd; exact Hslot).
      unfold d'. fold (disk_of w1 f). rewrite Hd1. fold D1.
      match goal with |- context [if ?c then _ else _] => destruct c end; [|reflexivity].
      unfold write_numrecs_bytes. rewrite dk_get_write.
      match goal with |- context [put_nn ?a ?b] => pose proof (Zlen_put_nn_le a b) as Hl;
        pose proof (Zlen_nonneg (put_nn a b)) as Hl0 end.
      match goal with |- context [if ?c then _ else _] => destruct c eqn:Ec end; [exfalso; lia | reflexivity]. }
    split.
    { intros s Hs. unfold put_file, set_files, get_disk. cbn [w_disks].
      fold (get_disk (set_disk w1 (f_slot f) d') s). rewrite get_disk_set_disk_other by exact Hs.
      apply Ho1. exact Hs. }
    split; [exact Hstrict | exact Hnp].
  - exists w1, f.
    split; [reflexivity|]. split; [rewrite Hfiles; exact Hf|].
    split; [reflexivity|]. split; [reflexivity|]. split; [reflexivity|]. split; [reflexivity|].
    split; [reflexivity|].
    split; [intros a; split; reflexivity|].
    split; [intros x _; rewrite Hd1; reflexivity|].
    split; [exact Ho1|]. split; [exact Hstrict | exact Hnp].
Qed.

(* ---------- all ranks put the same access (exec_all (OPut _ true a)) ---------- *)
(* the content of the disk before a put matters only outside the addressed elements *)
Lemma put_disk_ext : forall f a r d1 d2,
  wf_geom (acc_geom f a) -> rec_fits (acc_geom f a) -> rq_ok (acc_geom f a) r ->
  (forall x, dk_get d1 x = dk_get d2 x) ->
  forall x, dk_get (put_disk f a r d1) x = dk_get (put_disk f a r d2) x.
Proof.
  intros f a r d1 d2 Hwf Hfit Hok Hext x. unfold put_disk.
  set (g := acc_geom f a) in *. set (offs := req_offsets g r). set (bs := put_stream a (acc_xt f a) 0 r).
  pose proof (req_offsets_disjoint g r Hwf Hfit Hok) as Hdis. fold offs in Hdis.
  pose proof (put_disk_len f a r Hwf Hok) as Hlen. fold g offs bs in Hlen.
  destruct (in_elems_dec (g_xsz g) offs x) as [(k & Hk & Hin)|Hout].
  - unfold in_elem in Hin. replace x with (znth offs k 0 + (x - znth offs k 0)) by lia.
    rewrite !scatter_get_in by (try assumption; lia). reflexivity.
  - rewrite !scatter_get_out by exact Hout. apply Hext.
Qed.

(* putting the same stream at the same elements twice is putting it once *)
Lemma put_disk_idem : forall f a r d,
  wf_geom (acc_geom f a) -> rec_fits (acc_geom f a) -> rq_ok (acc_geom f a) r ->
  forall x, dk_get (put_disk f a r (put_disk f a r d)) x = dk_get (put_disk f a r d) x.
Proof.
  intros f a r d Hwf Hfit Hok x. unfold put_disk at 1.
  set (g := acc_geom f a) in *. set (offs := req_offsets g r). set (bs := put_stream a (acc_xt f a) 0 r).
  pose proof (req_offsets_disjoint g r Hwf Hfit Hok) as Hdis. fold offs in Hdis.
  pose proof (put_disk_len f a r Hwf Hok) as Hlen. fold g offs bs in Hlen.
  destruct (in_elems_dec (g_xsz g) offs x) as [(k & Hk & Hin)|Hout].
  - unfold in_elem in Hin. replace x with (znth offs k 0 + (x - znth offs k 0)) by lia.
    unfold put_disk. fold g offs bs.
    rewrite !scatter_get_in by (try assumption; lia). reflexivity.
  - rewrite scatter_get_out by exact Hout. reflexivity.
Qed.

Lemma coll_disk_same : forall f a r n d,
  wf_geom (acc_geom f a) -> rec_fits (acc_geom f a) -> rq_ok (acc_geom f a) r ->
  forall x, dk_get (coll_disk f (repeat (a, r) (S n)) d) x = dk_get (put_disk f a r d) x.
Proof.
  intros f a r n. induction n as [|n IH]; intros d Hwf Hfit Hok x.
  - reflexivity.
  - change (coll_disk f (repeat (a, r) (S (S n))) d)
      with (coll_disk f (repeat (a, r) (S n)) (put_disk f a r d)).
    rewrite IH by assumption. apply put_disk_idem; assumption.
Qed.

Lemma zip_repeat : forall (ranks : list Z) (a : access) (r : rreq),
  zip (map snd (map (fun k => (k, a)) ranks)) (repeat r (length ranks)) = repeat (a, r) (length ranks).
Proof.
  intros ranks a r. induction ranks as [|k l IH]; [reflexivity|].
  cbn [map length repeat zip snd]. rewrite IH. reflexivity.
Qed.

(** OPut collective with the same access on every rank (what exec_all runs), then a get: if the
    access is accepted on every rank (the write-side checks do not depend on the rank's
    numrecs, so all ranks resolve the same request r) every rank observes NC_NOERR, and a
    subsequent accepted typed get of the same request — on any rank, on the world and file
    state coll_put returns — reads back the image of the stream.  The numrecs update of the
    header (bytes 4..11) cannot disturb it because the variable begins at or after byte 12. *)
Theorem coll_put_same_then_get : forall w id f ranks a r,
  ranks <> [] ->
  0 <= f_slot f < Zlen (w_disks w) ->
  znth (w_files w) id None = Some f ->
  (forall k, In k ranks -> put_accepted w f k true a r) ->
  12 <= g_begin (acc_geom f a) ->
  exists w2 f2,
    coll_put w id f (map (fun k => (k, a)) ranks) =
      (w2, map (fun k => (k, NC_NOERR, [TSame])) ranks) /\
    znth (w_files w2) id None = Some f2 /\
    forall rank2 coll2 a2, ac_var a2 = ac_var a ->
      get_accepted w2 f2 rank2 coll2 a2 r ->
      get_rank_op w2 f2 rank2 coll2 a2 =
      (NC_NOERR,
       [THex (guard_bytes ++
              flat_map (fun k => mem_of_be (put_elem a (acc_xt f a) k)) (zrange 0 (nelems_of r)) ++
              guard_bytes)]).
Proof.
  intros w id f ranks a r Hne Hslot Hf Hall Hbeg.
  assert (Hall2 : Forall2 (rank_put_ok w f) (map (fun k => (k, a)) ranks) (repeat r (length ranks))).
  { clear Hne. induction ranks as [|k l IH]; [constructor|].
    cbn [map length repeat]. constructor.
    - destruct (Hall k (or_introl eq_refl)) as (_ & S1 & S2 & S3 & _).
      unfold rank_put_ok. cbn [fst snd]. auto.
    - apply IH. intros k' Hk'. apply Hall. right. exact Hk'. }
  destruct (coll_put_effect w id f _ _ Hslot Hf Hall2)
    as (w2 & f2 & Hcp & Hf2 & Hsl & Hlay & Hdims & Hvars & Hfmt & Hgeo & Hdisk & _).
  exists w2, f2. split.
  { rewrite Hcp. rewrite map_map. reflexivity. }
  split; [exact Hf2|].
  intros rank2 coll2 a2 Hv Hget.
  destruct ranks as [|k0 rest]; [contradiction|].
  pose proof (Hall k0 (or_introl eq_refl)) as Hacc.
  pose proof (put_accepted_rq_ok _ _ _ _ _ _ Hacc) as Hok.
  pose proof Hacc as (_ & _ & _ & _ & _ & Hwf & Hfit).
  apply (get_after_put w f k0 true a r (disk_of w f) w2 f2 rank2 coll2 a2 Hacc Hget).
  destruct (Hgeo a2) as [Hg2 Hx2].
  assert (Eg : acc_geom f a2 = acc_geom f a) by (unfold acc_geom, the_var; rewrite Hv; reflexivity).
  assert (Ex : acc_xt f a2 = acc_xt f a) by (unfold acc_xt, the_var; rewrite Hv; reflexivity).
  split; [congruence|]. split; [congruence|].
  intros o j Ho Hj.
  (* the byte lies inside the variable, above the numrecs field *)
  assert (Hge : g_begin (acc_geom f a) <= o + j).
  { rewrite req_offsets_spec in Ho by assumption. apply in_map_iff in Ho.
    destruct Ho as [idx [<- Hidx]].
    destruct (Z_lt_ge_dec (elem_off (acc_geom f a) idx + j) (g_begin (acc_geom f a))) as [Hlt|]; [|lia].
    exfalso.
    assert (Hreg : var_region (acc_geom f a) (elem_off (acc_geom f a) idx + j)).
    { pose proof Hwf as (Hxs & _).
      eapply elem_in_region; [lia | eapply rq_indices_idx_ok; eassumption | unfold in_elem; lia]. }
    unfold var_region in Hreg. destruct Hwf as (Hxs & Hrs & Hdw & _).
    destruct (g_isrec (acc_geom f a)).
    - destruct Hreg as [i0 [Hi0 Hr]]. assert (0 <= i0 * g_recsize (acc_geom f a)) by nia. lia.
    - lia. }
  rewrite Hdisk by lia.
  rewrite zip_repeat. apply coll_disk_same; assumption.
Qed.

(* ================================================================== *)
(** * 11. Examples: a world built by the interpreter itself             *)
(* ================================================================== *)
Definition run (w : world) (ops : list op) : world :=
  fold_left (fun w o => fst (exec_all w o)) ops w.

Definition dflt_file : filest :=
  mkfile (mkhdr 0 0 [] [] []) empty_layout false false false false None false no_align [] 0 false.
Definition file_at (w : world) (id : Z) : filest :=
  match znth (w_files w) id None with Some f => f | None => dflt_file end.

(* 2 ranks; CDF-5 file in slot 0; dims t (unlimited), x = 3, y = 4;
   a : int [x][y] (fixed), r : short [t][y] (record), s : double [t] (record);
   enddef; independent mode.  Layout: a at 512, r at 560, s at 568, recsize 16. *)
Definition ex_w : world :=
  run (world0 2)
      [OCreate 0 5 1; ODefDim 0 [116] 0; ODefDim 0 [120] 3; ODefDim 0 [121] 4;
       ODefVar 0 [97] 4 [1; 2]; ODefVar 0 [114] 3 [0; 2]; ODefVar 0 [115] 6 [0];
       OEnddef 0; OBeginIndep 0].
Definition ex_f : filest := file_at ex_w 0.

(* put_vars_short on r: records 1 and 3, columns 0 and 2 (a write beyond numrecs = 0) *)
Definition ex_a : access :=
  mkacc 1 (FVars (Some [1; 0]) (Some [2; 2]) (Some [2; 2])) 3 false BTyped 7.
Definition ex_r : rreq := mkrreq [1; 0] [2; 2] (Some [2; 2]) None.

Example ex_file : znth (w_files ex_w) 0 None = Some ex_f.
Proof. vm_compute. reflexivity. Qed.

Example ex_geom : acc_geom ex_f ex_a = mkgeom 560 2 [0; 4] 16 2.
Proof. vm_compute. reflexivity. Qed.

Example ex_hdr_wf : hdr_wf (f_hdr ex_f).
Proof.
  unfold hdr_wf.
  assert (E : h_dims (f_hdr ex_f) = [mkdim [116] 0; mkdim [120] 3; mkdim [121] 4])
    by (vm_compute; reflexivity).
  rewrite E. repeat constructor; cbn [d_size]; lia.
Qed.

(* the layout facts are obtained from the invariant, not assumed *)
Example ex_geom_wf : wf_geom (acc_geom ex_f ex_a) /\ rec_fits (acc_geom ex_f ex_a).
Proof.
  apply (acc_geom_wf ex_f true true false ex_a).
  - vm_compute. reflexivity.
  - exact ex_hdr_wf.
  - vm_compute. reflexivity.
  - vm_compute. reflexivity.
  - rewrite ex_geom. cbn [g_shape dims_wf]. split; [lia | repeat constructor; lia].
Qed.

Example ex_put_accepted : put_accepted ex_w ex_f 0 false ex_a ex_r.
Proof.
  unfold put_accepted.
  split; [split; [apply Z.leb_le | apply Z.ltb_lt]; vm_compute; reflexivity|].
  split; [vm_compute; reflexivity|].
  split; [vm_compute; reflexivity|].
  split; [vm_compute; reflexivity|].
  split; [rewrite ex_geom; cbn; repeat split; reflexivity|].
  exact ex_geom_wf.
Qed.

(* put_rank_frame, instantiated: everything it promises holds of the computed world *)
Example ex_put_rank := put_rank_frame ex_w 0 ex_f 0 false ex_a ex_r ex_put_accepted.

(* ... and computed: return code, proposed numrecs 4, the four elements
   (record 1 at 560+16, record 3 at 560+48; columns 0 and 2 at +0 and +4), a neighbour
   element and the header untouched *)
Example ex_put_rank_compute :
  let '(w', rc, nn, part) := put_rank ex_w 0 ex_f 0 false ex_a in
  rc = NC_NOERR /\ nn = Some 4 /\ part = true /\
  dk_read (disk_of w' ex_f) 576 2 = put_elem ex_a 3 0 /\
  dk_read (disk_of w' ex_f) 580 2 = put_elem ex_a 3 1 /\
  dk_read (disk_of w' ex_f) 608 2 = put_elem ex_a 3 2 /\
  dk_read (disk_of w' ex_f) 612 2 = put_elem ex_a 3 3 /\
  dk_read (disk_of w' ex_f) 578 2 = dk_read (disk_of ex_w ex_f) 578 2 /\
  dk_read (disk_of w' ex_f) 0 304 = dk_read (disk_of ex_w ex_f) 0 304 /\
  dk_read (disk_of w' ex_f) 0 304 = encode_header (f_hdr ex_f).
Proof. vm_compute. repeat split; reflexivity. Qed.

(* the interpreter continues with this world and file state *)
Definition ex_w1 : world := fst (indep_put ex_w 0 ex_f 0 ex_a).
Definition ex_f1 : filest := indep_numrecs ex_f 0 (put_newrecs ex_f ex_a ex_r).

Example ex_indep_put := indep_put_effect ex_w 0 ex_f 0 ex_a ex_r ex_put_accepted ex_file.

Example ex_get_accepted_1 : sanity ex_f1 false true false ex_a = NC_NOERR.
Proof. vm_compute; reflexivity. Qed.
Example ex_get_accepted_2 : check_request ex_w1 ex_f1 0 true ex_a = (NC_NOERR, Some [ex_r]).
Proof. vm_compute; reflexivity. Qed.
Example ex_get_accepted_3 : ac_memt ex_a = acc_xt ex_f1 ex_a.
Proof. vm_compute; reflexivity. Qed.
Example ex_get_accepted_4 : form_lengths (ac_form ex_a) (length (g_shape (acc_geom ex_f1 ex_a))).
Proof. vm_compute; repeat split; reflexivity. Qed.
Example ex_get_accepted_5 : wf_geom (acc_geom ex_f1 ex_a).
Proof.
  destruct (acc_geom_indep_numrecs ex_f 0 (put_newrecs ex_f ex_a ex_r) ex_a) as (E & _).
  unfold ex_f1. rewrite E. exact (proj1 ex_geom_wf).
Qed.
Example ex_get_accepted : get_accepted ex_w1 ex_f1 0 false ex_a ex_r.
Proof. exact (conj ex_get_accepted_1 (conj ex_get_accepted_2 (conj eq_refl (conj ex_get_accepted_3 (conj ex_get_accepted_4 ex_get_accepted_5))))). Qed.

(* get_after_put through indep_put_then_get *)
Example ex_get_after_put :=
  indep_put_then_get ex_w 0 ex_f 0 ex_a ex_r ex_w1 (snd (indep_put ex_w 0 ex_f 0 ex_a))
    0 false ex_a ex_put_accepted ex_file (surjective_pairing _) eq_refl ex_get_accepted.

Example ex_get_after_put_compute :
  get_rank_op ex_w1 ex_f1 0 false ex_a =
  (NC_NOERR, [THex (guard_bytes ++ [90; 99; 179; 39; 60; 97; 149; 37] ++ guard_bytes)]).
Proof. vm_compute. reflexivity. Qed.

(* another request on the same variable: get_vara_short of records 0..1, all 4 columns.
   Elements (1,0) and (1,2) were written by the put; the other six were never written *)
Definition ex_a' : access := mkacc 1 (FVara (Some [0; 0]) (Some [2; 4])) 3 false BTyped 0.
Definition ex_r' : rreq := mkrreq [0; 0] [2; 4] None None.

Example ex_get_accepted'_1 : sanity ex_f1 false true false ex_a' = NC_NOERR.
Proof. vm_compute; reflexivity. Qed.
Example ex_get_accepted'_2 : check_request ex_w1 ex_f1 0 true ex_a' = (NC_NOERR, Some [ex_r']).
Proof. vm_compute; reflexivity. Qed.
Example ex_get_accepted'_3 : ac_memt ex_a' = acc_xt ex_f1 ex_a'.
Proof. vm_compute; reflexivity. Qed.
Example ex_get_accepted'_4 : form_lengths (ac_form ex_a') (length (g_shape (acc_geom ex_f1 ex_a'))).
Proof. vm_compute; repeat split; reflexivity. Qed.
Example ex_get_accepted'_5 : wf_geom (acc_geom ex_f1 ex_a').
Proof.
  destruct (acc_geom_indep_numrecs ex_f 0 (put_newrecs ex_f ex_a ex_r) ex_a') as (E & _).
  unfold ex_f1. rewrite E. assert (E2 : acc_geom ex_f ex_a' = acc_geom ex_f ex_a) by (vm_compute; reflexivity).
  rewrite E2. exact (proj1 ex_geom_wf).
Qed.
Example ex_get_accepted' : get_accepted ex_w1 ex_f1 0 false ex_a' ex_r'.
Proof. exact (conj ex_get_accepted'_1 (conj ex_get_accepted'_2 (conj eq_refl (conj ex_get_accepted'_3 (conj ex_get_accepted'_4 ex_get_accepted'_5))))). Qed.

Example ex_sees_put : sees_put ex_w1 ex_f1 ex_a' ex_f ex_a ex_r (disk_of ex_w ex_f).
Proof.
  destruct ex_indep_put as (w3 & E & _ & Hd & _).
  assert (Ew : ex_w1 = w3) by (unfold ex_w1; rewrite E; reflexivity).
  destruct (acc_geom_indep_numrecs ex_f 0 (put_newrecs ex_f ex_a ex_r) ex_a') as (Eg & Ex & _).
  unfold sees_put, ex_f1. rewrite Eg, Ex, Ew.
  split; [vm_compute; reflexivity | split; [vm_compute; reflexivity | exact Hd]].
Qed.

Example ex_get_other :=
  get_after_put_other ex_w ex_f 0 false ex_a ex_r (disk_of ex_w ex_f) ex_w1 ex_f1 0 false ex_a' ex_r'
    ex_put_accepted ex_get_accepted' (sees_put_at_of_eq _ _ _ _ _ _ _ ex_sees_put ex_r').

Example ex_get_other_compute :
  get_rank_op ex_w1 ex_f1 0 false ex_a' =
  (RC_ANY,
   [THex (guard_bytes ++
          [-1; -1; -1; -1; -1; -1; -1; -1; 90; 99; -1; -1; 179; 39; -1; -1] ++ guard_bytes)]).
Proof. vm_compute. reflexivity. Qed.

(* var1 (NULL count) and a scalar-free fixed variable through the same theorems:
   put_var1_int a[2][3] *)
Definition ex_a1 : access := mkacc 0 (FVar1 (Some [2; 3])) 4 false BTyped 11.
Definition ex_r1 : rreq := mkrreq [2; 3] [1; 1] None None.

Example ex_put_accepted1 : put_accepted ex_w ex_f 0 false ex_a1 ex_r1.
Proof.
  unfold put_accepted.
  split; [split; [apply Z.leb_le | apply Z.ltb_lt]; vm_compute; reflexivity|].
  split; [vm_compute; reflexivity|].
  split; [vm_compute; reflexivity|].
  split; [vm_compute; reflexivity|].
  split; [vm_compute; reflexivity|].
  apply (acc_geom_wf ex_f true true false ex_a1).
  - vm_compute. reflexivity.
  - exact ex_hdr_wf.
  - vm_compute. reflexivity.
  - vm_compute. reflexivity.
  - assert (E : g_shape (acc_geom ex_f ex_a1) = [3; 4]) by (vm_compute; reflexivity).
    rewrite E. cbn [dims_wf]. split; [lia | repeat constructor; lia].
Qed.

Example ex_put_rank1 := put_rank_frame ex_w 0 ex_f 0 false ex_a1 ex_r1 ex_put_accepted1.

(* ---------- example for enddef_fill_reads_fill ---------- *)
Definition the_world (o : option (world * Z)) (w0 : world) : world :=
  match o with Some (w', _) => w' | None => w0 end.

Lemma some_world : forall (o : option (world * Z)) w0,
  match o with Some (_, rc) => rc =? NC_NOERR | None => false end = true ->
  o = Some (the_world o w0, NC_NOERR).
Proof.
  intros [[w' rc]|] w0 H; [|discriminate H]. cbn [the_world]. f_equal. f_equal. lia.
Qed.

Lemma some_inj {A} : forall (a b : A), Some a = Some b -> a = b.
Proof. intros a b H. inversion H. reflexivity. Qed.

(* 2 ranks; CDF-5 file in slot 0, fill mode on; dims t (unlimited), x = 5;
   a : int [x] (default fill), c : short [x] (_FillValue = 42), r : short [t][x],
   b : double [x] switched to no-fill; still in define mode *)
Definition fx_wdef : world :=
  run (world0 2)
      [OCreate 0 5 1; OSetFill 0 0; ODefDim 0 [116] 0; ODefDim 0 [120] 5;
       ODefVar 0 [97] 4 [1]; ODefVar 0 [99] 3 [1]; ODefVar 0 [114] 3 [0; 1];
       ODefVar 0 [98] 6 [1]; ODefVarFill 0 1 0 1 42; ODefVarFill 0 3 1 0 0].
Definition fx_fdef : filest := file_at fx_wdef 0.
Definition fx_ea : enddef_args := mkeargs 0 0 0 0.
(* the world after the enddef the interpreter runs *)
Definition fx_w : world := the_world (do_enddef fx_wdef 0 fx_fdef fx_ea) fx_wdef.
Definition fx_f : filest := file_at fx_w 0.

Example fx_enddef : do_enddef fx_wdef 0 fx_fdef fx_ea = Some (fx_w, NC_NOERR).
Proof. apply some_world. vm_compute. reflexivity. Qed.

Example fx_exec_enddef : fst (exec_all fx_wdef (OEnddef 0)) = fx_w.
Proof.
  unfold exec_all. cbv zeta.
  assert (E : lookup_file fx_wdef (slot_of (OEnddef 0)) = Some (0, fx_fdef)) by (vm_compute; reflexivity).
  rewrite E. assert (Et : f_tainted fx_fdef = false) by (vm_compute; reflexivity). rewrite Et.
  change (mkeargs 0 0 0 0) with fx_ea. rewrite fx_enddef. reflexivity.
Qed.

Example fx_file : znth (w_files fx_w) 0 None = Some fx_f.
Proof. vm_compute. reflexivity. Qed.

Example fx_vars :
  map (fun v => (v_name v, v_begin v, v_nofill v, var_fill_bytes v)) (h_vars (f_hdr fx_f)) =
  [([97], 512, false, [128; 0; 0; 1]); ([99], 532, false, [0; 42]);
   ([114], 584, false, [128; 1]); ([98], 544, true, [71; 158; 0; 0; 0; 0; 0; 0])].
Proof. vm_compute. reflexivity. Qed.

Example fx_hdr_wf : hdr_wf (f_hdr fx_fdef).
Proof.
  unfold hdr_wf.
  assert (E : h_dims (f_hdr fx_fdef) = [mkdim [116] 0; mkdim [120] 5]) by (vm_compute; reflexivity).
  rewrite E. repeat constructor; cbn [d_size]; lia.
Qed.

(* collective get_vara_short of c[1..3] on rank 1, and get_var1_int of a[4] on rank 0 *)
Definition fx_gc : access := mkacc 1 (FVara (Some [1]) (Some [3])) 3 false BTyped 0.
Definition fx_rc : rreq := mkrreq [1] [3] None None.
Definition fx_ga : access := mkacc 0 (FVar1 (Some [4])) 4 false BTyped 0.
Definition fx_ra : rreq := mkrreq [4] [1] None None.

Lemma fx_geom_wf : forall a, sanity fx_f false true true a = NC_NOERR ->
  0 < xlen_type (acc_xt fx_f a) -> dims_wf (g_shape (acc_geom fx_f a)) ->
  wf_geom (acc_geom fx_f a).
Proof.
  intros a Hs Hx Hd. apply (acc_geom_wf fx_f false true true a Hs).
  - unfold hdr_wf.
    assert (E : h_dims (f_hdr fx_f) = [mkdim [116] 0; mkdim [120] 5]) by (vm_compute; reflexivity).
    rewrite E. repeat constructor; cbn [d_size]; lia.
  - vm_compute. reflexivity.
  - exact Hx.
  - exact Hd.
Qed.

Example fx_get_accepted_c : get_accepted fx_w fx_f 1 true fx_gc fx_rc.
Proof.
  assert (H1 : sanity fx_f false true true fx_gc = NC_NOERR) by (vm_compute; reflexivity).
  assert (H2 : check_request fx_w fx_f 1 true fx_gc = (NC_NOERR, Some [fx_rc])) by (vm_compute; reflexivity).
  assert (H3 : ac_memt fx_gc = acc_xt fx_f fx_gc) by (vm_compute; reflexivity).
  assert (H4 : form_lengths (ac_form fx_gc) (length (g_shape (acc_geom fx_f fx_gc))))
    by (vm_compute; repeat split; reflexivity).
  refine (conj H1 (conj H2 (conj eq_refl (conj H3 (conj H4 _))))).
  apply fx_geom_wf; [exact H1 | vm_compute; reflexivity |].
  assert (E : g_shape (acc_geom fx_f fx_gc) = [5]) by (vm_compute; reflexivity).
  rewrite E. cbn [dims_wf]. split; [lia | constructor].
Qed.

Example fx_get_accepted_a : get_accepted fx_w fx_f 0 true fx_ga fx_ra.
Proof.
  assert (H1 : sanity fx_f false true true fx_ga = NC_NOERR) by (vm_compute; reflexivity).
  assert (H2 : check_request fx_w fx_f 0 true fx_ga = (NC_NOERR, Some [fx_ra])) by (vm_compute; reflexivity).
  assert (H3 : ac_memt fx_ga = acc_xt fx_f fx_ga) by (vm_compute; reflexivity).
  assert (H4 : form_lengths (ac_form fx_ga) (length (g_shape (acc_geom fx_f fx_ga))))
    by (vm_compute; repeat split; reflexivity).
  refine (conj H1 (conj H2 (conj eq_refl (conj H3 (conj H4 _))))).
  apply fx_geom_wf; [exact H1 | vm_compute; reflexivity |].
  assert (E : g_shape (acc_geom fx_f fx_ga) = [5]) by (vm_compute; reflexivity).
  rewrite E. cbn [dims_wf]. split; [lia | constructor].
Qed.

(* the theorem, with every hypothesis discharged on the instance: the three elements of c read
   0x002a (little endian 2a 00), the element of a reads NC_FILL_INT = 0x80000001 *)
Example fx_fill_reads :
  get_rank_op fx_w fx_f 1 true fx_gc =
    (NC_NOERR, [THex (guard_bytes ++ [42; 0; 42; 0; 42; 0] ++ guard_bytes)]) /\
  get_rank_op fx_w fx_f 0 true fx_ga =
    (NC_NOERR, [THex (guard_bytes ++ [1; 0; 0; 128] ++ guard_bytes)]).
Proof.
  destruct (enddef_fill_reads_fill fx_wdef 0 fx_fdef fx_ea fx_w) as (lay & Hf & Hget).
  - vm_compute; reflexivity.
  - vm_compute; reflexivity.
  - vm_compute; reflexivity.
  - vm_compute; reflexivity.
  - exact fx_hdr_wf.
  - apply Z.leb_le; vm_compute; reflexivity.
  - apply Z.leb_le; vm_compute; reflexivity.
  - apply Z.leb_le; vm_compute; reflexivity.
  - split; [apply Z.leb_le | apply Z.ltb_lt]; vm_compute; reflexivity.
  - split; [apply Z.leb_le | apply Z.ltb_lt]; vm_compute; reflexivity.
  - apply Z.leb_le; vm_compute; reflexivity.
  - exact fx_enddef.
  - cbv zeta in Hf, Hget. rewrite fx_file in Hf. apply some_inj in Hf. rewrite <- Hf in Hget.
    assert (Hwfh : wf_hdr (f_hdr fx_f) = true) by (vm_compute; reflexivity).
    specialize (Hget Hwfh). split.
    + rewrite (Hget 1 true fx_gc fx_rc fx_get_accepted_c).
      * vm_compute. reflexivity.
      * vm_compute. reflexivity.
      * vm_compute. reflexivity.
      * assert (E : var_fill_bytes (the_var fx_f fx_gc) = [0; 42]) by (vm_compute; reflexivity).
        rewrite E. repeat constructor; unfold byte_ok; lia.
    + rewrite (Hget 0 true fx_ga fx_ra fx_get_accepted_a).
      * vm_compute. reflexivity.
      * vm_compute. reflexivity.
      * vm_compute. reflexivity.
      * assert (E : var_fill_bytes (the_var fx_f fx_ga) = fill_bytes 4) by (vm_compute; reflexivity).
        rewrite E. apply fill_bytes_ok.
Qed.

Example fx_fill_reads_compute :
  get_rank_op fx_w fx_f 1 true fx_gc =
    (NC_NOERR, [THex (guard_bytes ++ [42; 0; 42; 0; 42; 0] ++ guard_bytes)]).
Proof. vm_compute. reflexivity. Qed.

(* ---------- example for coll_put_effect / coll_put_same_then_get ---------- *)
(* the file of ex_w, left in collective mode *)
Definition cx_w : world :=
  run (world0 2)
      [OCreate 0 5 1; ODefDim 0 [116] 0; ODefDim 0 [120] 3; ODefDim 0 [121] 4;
       ODefVar 0 [97] 4 [1; 2]; ODefVar 0 [114] 3 [0; 2]; ODefVar 0 [115] 6 [0];
       OEnddef 0].
Definition cx_f : filest := file_at cx_w 0.
Definition cx_w2 : world := fst (coll_put cx_w 0 cx_f (map (fun k => (k, ex_a)) [0; 1])).
Definition cx_f2 : filest := file_at cx_w2 0.

Example cx_file : znth (w_files cx_w) 0 None = Some cx_f.
Proof. vm_compute. reflexivity. Qed.

(* this is what the step function runs for "put collective" on all ranks *)
Example cx_exec : exec_all cx_w (OPut 0 true ex_a) = coll_put cx_w 0 cx_f (map (fun k => (k, ex_a)) [0; 1]).
Proof.
  unfold exec_all. cbv zeta.
  assert (E : lookup_file cx_w (slot_of (OPut 0 true ex_a)) = Some (0, cx_f)) by (vm_compute; reflexivity).
  rewrite E. assert (Et : f_tainted cx_f = false) by (vm_compute; reflexivity). rewrite Et.
  unfold acc_unmodelled.
  assert (Er : all_ranks cx_w = [0; 1]) by (vm_compute; reflexivity). rewrite Er. reflexivity.
Qed.

Example cx_accepted : forall k, In k [0; 1] -> put_accepted cx_w cx_f k true ex_a ex_r.
Proof.
  assert (Hg : wf_geom (acc_geom cx_f ex_a) /\ rec_fits (acc_geom cx_f ex_a)).
  { assert (E : acc_geom cx_f ex_a = acc_geom ex_f ex_a) by (vm_compute; reflexivity).
    rewrite E. exact ex_geom_wf. }
  assert (Hsl : 0 <= f_slot cx_f < Zlen (w_disks cx_w))
    by (split; [apply Z.leb_le | apply Z.ltb_lt]; vm_compute; reflexivity).
  assert (Hsan : sanity cx_f true true true ex_a = NC_NOERR) by (vm_compute; reflexivity).
  assert (Hio : iomismatch ex_a [ex_r] = false) by (vm_compute; reflexivity).
  assert (Hfl : form_lengths (ac_form ex_a) (length (g_shape (acc_geom cx_f ex_a))))
    by (vm_compute; repeat split; reflexivity).
  intros k [<-|[<-|[]]].
  - refine (conj Hsl (conj Hsan (conj _ (conj Hio (conj Hfl Hg))))). vm_compute. reflexivity.
  - refine (conj Hsl (conj Hsan (conj _ (conj Hio (conj Hfl Hg))))). vm_compute. reflexivity.
Qed.

Example cx_file2 : znth (w_files cx_w2) 0 None = Some cx_f2.
Proof. vm_compute. reflexivity. Qed.

Example cx_get_accepted : get_accepted cx_w2 cx_f2 1 true ex_a ex_r.
Proof.
  assert (H1 : sanity cx_f2 false true true ex_a = NC_NOERR) by (vm_compute; reflexivity).
  assert (H2 : check_request cx_w2 cx_f2 1 true ex_a = (NC_NOERR, Some [ex_r])) by (vm_compute; reflexivity).
  assert (H3 : ac_memt ex_a = acc_xt cx_f2 ex_a) by (vm_compute; reflexivity).
  assert (H4 : form_lengths (ac_form ex_a) (length (g_shape (acc_geom cx_f2 ex_a))))
    by (vm_compute; repeat split; reflexivity).
  refine (conj H1 (conj H2 (conj eq_refl (conj H3 (conj H4 _))))).
  assert (E : acc_geom cx_f2 ex_a = acc_geom ex_f ex_a) by (vm_compute; reflexivity).
  rewrite E. exact (proj1 ex_geom_wf).
Qed.

(* both ranks put, numrecs becomes 4 (header bytes 4..11 rewritten), rank 1 reads back *)
Example cx_coll_get :
  snd (coll_put cx_w 0 cx_f (map (fun k => (k, ex_a)) [0; 1])) =
    [(0, NC_NOERR, [TSame]); (1, NC_NOERR, [TSame])] /\
  get_rank_op cx_w2 cx_f2 1 true ex_a =
    (NC_NOERR, [THex (guard_bytes ++ [90; 99; 179; 39; 60; 97; 149; 37] ++ guard_bytes)]) /\
  dk_read (disk_of cx_w2 cx_f2) 4 8 = [0; 0; 0; 0; 0; 0; 0; 4].
Proof.
  destruct (coll_put_same_then_get cx_w 0 cx_f [0; 1] ex_a ex_r) as (w2 & f2 & Hcp & Hf2 & Hget).
  - discriminate.
  - split; [apply Z.leb_le | apply Z.ltb_lt]; vm_compute; reflexivity.
  - exact cx_file.
  - exact cx_accepted.
  - apply Z.leb_le. vm_compute. reflexivity.
  - assert (Ew : w2 = cx_w2) by (unfold cx_w2; rewrite Hcp; reflexivity). subst w2.
    rewrite cx_file2 in Hf2. apply some_inj in Hf2. subst f2.
    split; [rewrite Hcp; reflexivity|]. split.
    + rewrite (Hget 1 true ex_a eq_refl cx_get_accepted). vm_compute. reflexivity.
    + vm_compute. reflexivity.
Qed.

(* ---------- why put_rank_effect needs "0 <= f_slot f < Zlen (w_disks w)" ---------- *)
(* a file state whose slot has no disk in the world (not reachable through exec_step, whose
   lookup_file fails for such a slot, but a legal argument of put_rank): every check passes,
   put_rank answers NC_NOERR, and nothing is written — set_disk outside the list is a no-op *)
Definition ex_f9 : filest :=
  mkfile (f_hdr ex_f) (f_lay ex_f) false true false false None false no_align (f_ranks ex_f) 9 false.

Example put_rank_effect_slot_cex :
  sanity ex_f9 true true false ex_a = NC_NOERR /\
  check_request ex_w ex_f9 0 false ex_a = (NC_NOERR, Some [ex_r]) /\
  iomismatch ex_a [ex_r] = false /\
  let '(w', rc, _, _) := put_rank ex_w 0 ex_f9 0 false ex_a in
  rc = NC_NOERR /\
  dk_exists (disk_of w' ex_f9) = false /\
  dk_exists (put_disk ex_f9 ex_a ex_r (disk_of ex_w ex_f9)) = true.
Proof. vm_compute. repeat split; reflexivity. Qed.

Print Assumptions coll_put_effect.
Print Assumptions coll_put_same_then_get.
Print Assumptions cx_coll_get.
Print Assumptions enddef_fill_reads_fill.
Print Assumptions fx_fill_reads.
Print Assumptions put_rank_effect.
Print Assumptions check_request_req_ok.
Print Assumptions put_rank_frame.
Print Assumptions put_stream_defined.
Print Assumptions get_rank_op_typed.
Print Assumptions get_after_put.
Print Assumptions get_after_put_other.
Print Assumptions indep_put_then_get.
Print Assumptions geom_of_wf.
Print Assumptions ex_get_other.
