(* Proofs_Exec.v — theorems about the INTERPRETER functions of Exec.v that are run in the
   correspondence check (put_rank, get_rank_op, get_into_buffer, put_stream, check_request,
   geom_of), connecting them to the proved facts about Access / Disk (Proofs_Access,
   Proofs_RoundTrip, Proofs_CheckScs).

   Main results (no axioms; every statement for arbitrary worlds / files / requests):
     put_rank_effect        an accepted single-request blocking put returns NC_NOERR and changes
                            exactly the disk of the file's slot into
                              dk_scatter d xsz (model_offsets g start count stride) (put_stream a xt 0 r)
     check_request_req_ok   what check_request accepts (var1 / vara / vars forms) satisfies req_ok
     put_rank_bytes / put_rank_frame / put_rank_frame_region / put_rank_size
                            the addressed elements hold the stream, every other byte of the file
                            (header, other variables, other elements) is unchanged
     put_stream_defined     the stream consists of bytes in [0,256): no UNDEF
     get_rank_op_typed      a typed get (memory type = external type) returns the guard bytes
                            around the memory image of the elements gathered from the disk; an
                            element with an undefined byte is rendered as UNDEF and the return code
                            is RC_ANY
     get_after_put          get of the SAME request after the put: NC_NOERR and the image of the
                            stream that was put
     get_after_put_other    get through ANY other accepted request on the same variable: each
                            element is the element last written or the previous disk content
   Examples at the end instantiate every theorem on a world built with exec_all. *)
From Pnc Require Import Base Gen_consts Header HeaderSpec Access Data Disk Move Fill Exec.
From Pnc Require Import Proofs_Header Proofs_Fill Proofs_Exec2.
From Pnc Require Import Proofs_Lists Proofs_Access Proofs_CheckScs Proofs_Layout Proofs_Disk
                        Proofs_RoundTrip.
Require Import Lia ZArith List Bool ZifyBool.
Import ListNotations.
Local Open Scope Z_scope.
Local Arguments Z.mul : simpl never.
Local Arguments Z.add : simpl never.
Local Arguments Z.sub : simpl never.
Local Arguments Z.div : simpl never.
Local Arguments Z.modulo : simpl never.
Local Arguments Z.pow : simpl never.
Local Arguments Z.of_nat : simpl never.
Local Arguments Z.to_nat : simpl never.

(* ================================================================== *)
(** * 0. Worlds: disks and files                                        *)
(* ================================================================== *)
Lemma znth_zupd_same {A} : forall (l : list A) i v d, 0 <= i < Zlen l -> znth (zupd l i v) i d = v.
Proof.
  induction l as [|x l IH]; intros i v d Hi.
  - rewrite Zlen_nil in Hi. lia.
  - rewrite Zlen_cons in Hi. cbn [zupd]. destruct (i =? 0) eqn:E.
    + cbn [znth]. rewrite E. reflexivity.
    + cbn [znth]. rewrite E. apply IH. lia.
Qed.

Lemma znth_zupd_other {A} : forall (l : list A) i j v d, i <> j -> znth (zupd l i v) j d = znth l j d.
Proof.
  induction l as [|x l IH]; intros i j v d Hne; [reflexivity|].
  cbn [zupd]. destruct (i =? 0) eqn:E.
  - cbn [znth]. destruct (j =? 0) eqn:Ej; [lia | reflexivity].
  - cbn [znth]. destruct (j =? 0) eqn:Ej; [reflexivity|]. apply IH. lia.
Qed.

Lemma Zlen_zupd {A} : forall (l : list A) i v, Zlen (zupd l i v) = Zlen l.
Proof.
  induction l as [|x l IH]; intros i v; [reflexivity|].
  cbn [zupd]. destruct (i =? 0); rewrite !Zlen_cons; [reflexivity|]. rewrite IH. reflexivity.
Qed.

Lemma get_disk_set_disk_same : forall w slot d,
  0 <= slot < Zlen (w_disks w) -> get_disk (set_disk w slot d) slot = d.
Proof. intros w slot d H. unfold get_disk, set_disk. cbn [w_disks]. apply znth_zupd_same. exact H. Qed.

Lemma get_disk_set_disk_other : forall w slot d s,
  s <> slot -> get_disk (set_disk w slot d) s = get_disk w s.
Proof. intros w slot d s H. unfold get_disk, set_disk. cbn [w_disks]. apply znth_zupd_other. lia. Qed.

(* everything but the disks is kept by set_disk *)
Definition same_but_disks (w w' : world) : Prop :=
  w_nprocs w' = w_nprocs w /\ w_files w' = w_files w /\ w_ids w' = w_ids w /\
  w_hints w' = w_hints w /\ w_strict w' = w_strict w /\ w_move_unit w' = w_move_unit w /\
  Zlen (w_disks w') = Zlen (w_disks w).

Lemma same_but_disks_refl : forall w, same_but_disks w w.
Proof. intros w. unfold same_but_disks. repeat split; reflexivity. Qed.

Lemma same_but_disks_set_disk : forall w slot d, same_but_disks w (set_disk w slot d).
Proof.
  intros w slot d. unfold same_but_disks, set_disk.
  cbn [w_nprocs w_files w_ids w_hints w_strict w_move_unit w_disks].
  repeat split; try reflexivity. apply Zlen_zupd.
Qed.

(* ================================================================== *)
(** * 1. put_rank, unfolded                                             *)
(* ================================================================== *)
(* the variable, its external type and geometry, as put_rank / get_rank_op compute them *)
Definition acc_geom (f : filest) (a : access) : geom := geom_of f (the_var f a).
Definition acc_xt (f : filest) (a : access) : Z := v_type (the_var f a).

Definition req_offsets (g : geom) (r : rreq) : list Z :=
  model_offsets g (rq_start r) (rq_count r) (rq_stride r).

(* the disk a single-request put leaves behind *)
Definition put_disk (f : filest) (a : access) (r : rreq) (d : disk) : disk :=
  dk_scatter d (g_xsz (acc_geom f a)) (req_offsets (acc_geom f a) r)
             (put_stream a (acc_xt f a) 0 r).

(* the new_numrecs a single-request put proposes *)
Definition put_newrecs (f : filest) (a : access) (r : rreq) : option Z :=
  if nelems_of r =? 0 then None
  else if g_isrec (acc_geom f a) then Some (Z.max 0 (put_new_numrecs r)) else None.

Lemma g_xsz_acc_geom : forall f a, g_xsz (acc_geom f a) = xlen_type (acc_xt f a).
Proof. reflexivity. Qed.

Lemma g_shape_acc_geom : forall f a,
  g_shape (acc_geom f a) = var_shape (h_dims (f_hdr f)) (the_var f a).
Proof. reflexivity. Qed.

Lemma g_isrec_acc_geom : forall f a,
  g_isrec (acc_geom f a) = is_recvar (h_dims (f_hdr f)) (the_var f a).
Proof. reflexivity. Qed.

Lemma req_offsets_empty : forall g r, nelems_of r = 0 -> req_offsets g r = [].
Proof.
  intros g r H. unfold req_offsets, model_offsets. unfold nelems_of in H. rewrite H. reflexivity.
Qed.

(** Deliverable 1, the interpreter step itself: for ANY file state and ANY access whose mode /
    variable checks pass ([sanity]), whose argument check resolves to ONE request r
    ([check_request]: every form but varn), and whose buffer description matches
    ([iomismatch]), put_rank returns NC_NOERR, touches nothing but the disk of the file's slot,
    and that disk becomes the scatter of the pattern stream at the model offsets.
    (A zero-length request returns the world unchanged; the scatter over no offsets is the
    identity, so the equation covers that branch too.) *)
Theorem put_rank_effect : forall w id f rank coll a r,
  0 <= f_slot f < Zlen (w_disks w) ->
  sanity f true true coll a = NC_NOERR ->
  check_request w f rank false a = (NC_NOERR, Some [r]) ->
  iomismatch a [r] = false ->
  exists w',
    put_rank w id f rank coll a = (w', NC_NOERR, put_newrecs f a r, negb (nelems_of r =? 0)) /\
    disk_of w' f = put_disk f a r (disk_of w f) /\
    (forall s, s <> f_slot f -> get_disk w' s = get_disk w s) /\
    same_but_disks w w'.
Proof.
  intros w id f rank coll a r Hslot Hsan Hchk Hio.
  unfold put_rank. rewrite Hsan. cbn [negb Z.eqb NC_NOERR].
  change (0 =? 0) with true. cbn [negb].
  rewrite Hchk. rewrite Hio.
  assert (Etot : total_elems [r] = nelems_of r).
  { unfold total_elems. cbn [map zsum]. lia. }
  rewrite Etot.
  destruct (nelems_of r =? 0) eqn:Ez.
  - exists w. split; [|split; [|split]].
    + unfold put_newrecs. rewrite Ez. reflexivity.
    + unfold put_disk. rewrite req_offsets_empty by lia. reflexivity.
    + intros s _. reflexivity.
    + apply same_but_disks_refl.
  - cbn [with_bases fold_left fst snd negb].
    eexists. split; [|split; [|split]].
    + unfold put_newrecs. rewrite Ez. fold (acc_geom f a).
      destruct (g_isrec (acc_geom f a)); [|reflexivity].
      cbn [filter]. rewrite Ez. cbn [negb map fold_left]. reflexivity.
    + unfold disk_of. rewrite get_disk_set_disk_same by exact Hslot. reflexivity.
    + intros s Hs. apply get_disk_set_disk_other. exact Hs.
    + apply same_but_disks_set_disk.
Qed.
(* ================================================================== *)
(** * 2. What check_request accepts satisfies req_ok                    *)
(* ================================================================== *)
Definition rq_strides (g : geom) (r : rreq) : list Z :=
  stride_or_ones (length (g_shape g)) (rq_stride r).

(* the resolved request is a plain (start, count, stride) request inside the variable *)
Definition rq_ok (g : geom) (r : rreq) : Prop :=
  rq_imap r = None /\ req_ok (g_shape g) (rq_start r) (rq_count r) (rq_strides g r).

(* the var1 / vara / vars forms with non-NULL arguments of ndims entries each (the C arrays
   have ndims entries by contract; the list lengths stand for that contract) *)
Definition form_lengths (fm : form) (n : nat) : Prop :=
  match fm with
  | FVar1 (Some s) => length s = n
  | FVara (Some s) (Some c) => length s = n /\ length c = n
  | FVars (Some s) (Some c) None => length s = n /\ length c = n
  | FVars (Some s) (Some c) (Some t) => length s = n /\ length c = n /\ length t = n
  | _ => False
  end.

Lemma nth_map_const {A} : forall (l : list A) (c d : Z) i, (i < length l)%nat ->
  nth i (map (fun _ => c) l) d = c.
Proof.
  induction l as [|x l IH]; intros c d i Hi; cbn [length] in Hi; [lia|].
  destruct i as [|i]; cbn [map nth]; [reflexivity|]. apply IH. lia.
Qed.

Lemma nth_ones : forall n i d, (i < n)%nat -> nth i (ones n) d = 1.
Proof.
  induction n as [|n IH]; intros i d Hi; [lia|].
  rewrite ones_S. destruct i as [|i]; cbn [nth]; [reflexivity|]. apply IH. lia.
Qed.

(* var1: NULL count, checked as all ones *)
Lemma check_scs_var1_req_ok : forall fmt strict isread shape numrecs st,
  length st = length shape ->
  check_scs fmt strict (match shape with s0 :: _ => s0 =? 0 | [] => false end)
            isread API_VAR1 shape numrecs (Some st) None None = NC_NOERR ->
  req_ok shape st (map (fun _ => 1) shape) (ones (length shape)).
Proof.
  intros fmt strict isread shape numrecs st Hls H.
  set (isrec := match shape with s0 :: _ => s0 =? 0 | [] => false end) in *.
  assert (Hl : lengths_ok isrec shape st None None).
  { unfold lengths_ok. split; [|split; [exact Hls | split; exact I]].
    intros E C. subst shape. discriminate E. }
  rewrite check_scs_decomp in H by exact Hl. unfold phases in H.
  destruct (starts_ok_b fmt strict isrec isread shape numrecs st None) eqn:Es;
    [|vm_compute in H; discriminate H].
  apply (starts_ok_b_nth fmt strict isrec isread shape numrecs st None None Hl) in Es.
  destruct Es as (H0 & _ & Hall).
  apply req_ok_nth. rewrite map_length, ones_length.
  split; [exact Hls|]. split; [reflexivity|]. split; [reflexivity|].
  intros i Hi. rewrite nth_map_const by exact Hi. rewrite nth_ones by exact Hi.
  assert (Hshp : length (shp_of isrec shape numrecs) = length shape).
  { unfold shp_of. destruct isrec eqn:E; [|reflexivity].
    destruct shape; [discriminate E | reflexivity]. }
  destruct (bounded_dim isrec isread i) eqn:Eb.
  - specialize (Hall i Hi Eb). unfold cnt_or1 in Hall.
    rewrite nth_map_const in Hall by lia.
    unfold start_fits in Hall.
    destruct i as [|i].
    + destruct isrec eqn:E.
      * split; [exact H0|]. split; [lia|]. split; [lia|]. left. split; [reflexivity|].
        unfold isrec in E. destruct shape as [|s0 ss]; [discriminate E|]. cbn [nth]. lia.
      * unfold shp_of in Hall. split; [exact H0|]. split; [lia|]. split; [lia|].
        right. right. destruct strict; lia.
    + assert (En : nth (S i) (shp_of isrec shape numrecs) 0 = nth (S i) shape 0).
      { unfold shp_of. destruct isrec; [|reflexivity].
        destruct shape; [cbn [length] in Hi; lia | reflexivity]. }
      rewrite En in Hall. split; [destruct strict; lia|]. split; [lia|]. split; [lia|].
      right. right. destruct strict; lia.
  - unfold bounded_dim, free0 in Eb.
    destruct isrec eqn:E; [|cbn [andb negb] in Eb; discriminate Eb].
    destruct i as [|i]; [|destruct isread; cbn [andb negb Nat.eqb] in Eb; discriminate Eb].
    split; [exact H0|]. split; [lia|]. split; [lia|]. left. split; [reflexivity|].
    unfold isrec in E. destruct shape as [|s0 ss]; [discriminate E|]. cbn [nth]. lia.
Qed.

Theorem check_request_req_ok : forall w f rank isread a r,
  form_lengths (ac_form a) (length (g_shape (acc_geom f a))) ->
  check_request w f rank isread a = (NC_NOERR, Some [r]) ->
  rq_ok (acc_geom f a) r.
Proof.
  intros w f rank isread a r Hfl H.
  unfold rq_ok, rq_strides. rewrite g_shape_acc_geom in *.
  unfold check_request in H. cbv zeta in H. unfold is_recvar in H.
  set (shape := var_shape (h_dims (f_hdr f)) (the_var f a)) in *.
  destruct (ac_form a) as [|s|s c|s c t|s c t m|reqs]; cbn [form_lengths] in Hfl; try contradiction.
  - (* var1 *)
    destruct s as [s|]; [|contradiction]. cbn [form_args] in H.
    destruct shape as [|sh ss] eqn:Esh.
    { injection H as <-. cbn [rq_imap rq_start rq_count rq_stride stride_or_ones length ones repeat].
      split; [reflexivity|]. destruct s; [exact I | discriminate Hfl]. }
    rewrite <- Esh in *.
    match type of H with
    | (if negb (?e =? NC_NOERR) then _ else _) = _ => destruct (e =? NC_NOERR) eqn:Ee
    end; cbn [negb] in H; [|discriminate H].
    injection H as <-. cbn [rq_imap rq_start rq_count rq_stride stride_or_ones].
    split; [reflexivity|].
    apply (check_scs_var1_req_ok (h_format (f_hdr f)) (w_strict w) isread shape
             (rk_numrecs (get_rank f rank)) s Hfl).
    replace (match shape with [] => false | s0 :: _ => s0 =? 0 end) with (sh =? 0)
      by (rewrite Esh; reflexivity). lia.
  - (* vara *)
    destruct s as [s|]; [|contradiction]. destruct c as [c|]; [|contradiction].
    destruct Hfl as [Hls Hlc]. cbn [form_args] in H.
    destruct shape as [|sh ss] eqn:Esh.
    { injection H as <-. cbn [rq_imap rq_start rq_count rq_stride stride_or_ones length ones repeat].
      split; [reflexivity|]. exact I. }
    rewrite <- Esh in *.
    match type of H with
    | (if negb (?e =? NC_NOERR) then _ else _) = _ => destruct (e =? NC_NOERR) eqn:Ee
    end; cbn [negb] in H; [|discriminate H].
    injection H as <-. cbn [rq_imap rq_start rq_count rq_stride].
    split; [reflexivity|].
    apply (check_scs_req_ok (h_format (f_hdr f)) (w_strict w) isread API_VARA shape
             (rk_numrecs (get_rank f rank)) s c None Hls Hlc I).
    replace (match shape with [] => false | s0 :: _ => s0 =? 0 end) with (sh =? 0)
      by (rewrite Esh; reflexivity). lia.
  - (* vars *)
    destruct s as [s|]; [|contradiction]. destruct c as [c|]; [|contradiction].
    cbn [form_args] in H.
    destruct shape as [|sh ss] eqn:Esh.
    { injection H as <-. cbn [rq_imap rq_start rq_count rq_stride].
      split; [reflexivity|].
      destruct t as [t|]; cbn [stride_or_ones length ones repeat].
      - destruct Hfl as (_ & _ & Hlt). destruct t; [exact I | discriminate Hlt].
      - exact I. }
    rewrite <- Esh in *.
    match type of H with
    | (if negb (?e =? NC_NOERR) then _ else _) = _ => destruct (e =? NC_NOERR) eqn:Ee
    end; cbn [negb] in H; [|discriminate H].
    injection H as <-. cbn [rq_imap rq_start rq_count rq_stride].
    split; [reflexivity|].
    destruct t as [t|].
    + destruct Hfl as (Hls & Hlc & Hlt).
      apply (check_scs_req_ok (h_format (f_hdr f)) (w_strict w) isread API_VARS shape
               (rk_numrecs (get_rank f rank)) s c (Some t) Hls Hlc Hlt).
    replace (match shape with [] => false | s0 :: _ => s0 =? 0 end) with (sh =? 0)
      by (rewrite Esh; reflexivity). lia.
    + destruct Hfl as (Hls & Hlc).
      apply (check_scs_req_ok (h_format (f_hdr f)) (w_strict w) isread API_VARA shape
               (rk_numrecs (get_rank f rank)) s c None Hls Hlc I).
    replace (match shape with [] => false | s0 :: _ => s0 =? 0 end) with (sh =? 0)
      by (rewrite Esh; reflexivity). lia.
Qed.
(* ================================================================== *)
(** * 3. The stream of a put                                            *)
(* ================================================================== *)
Lemma xlen_type_cases : forall t,
  xlen_type t = 0 \/ xlen_type t = 1 \/ xlen_type t = 2 \/ xlen_type t = 4 \/ xlen_type t = 8.
Proof.
  intros t. unfold xlen_type.
  destruct ((t =? 1) || (t =? 2) || (t =? 7)); [tauto|].
  destruct ((t =? 3) || (t =? 8)); [tauto|].
  destruct ((t =? 4) || (t =? 5) || (t =? 9)); [tauto|].
  destruct ((t =? 6) || (t =? 10) || (t =? 11)); tauto.
Qed.

Lemma xlen_type_nonneg : forall t, 0 <= xlen_type t.
Proof. intros t. pose proof (xlen_type_cases t). lia. Qed.

Lemma be_bytes_length : forall n x, length (be_bytes n x) = n.
Proof.
  induction n as [|n IH]; intros x; cbn [be_bytes]; [reflexivity|].
  rewrite app_length, IH. cbn [length]. lia.
Qed.

Definition byte_ok (b : byte) : Prop := 0 <= b < 256.

Lemma be_bytes_range : forall n x, Forall byte_ok (be_bytes n x).
Proof.
  induction n as [|n IH]; intros x; cbn [be_bytes]; [constructor|].
  apply Forall_app. split; [apply IH|]. constructor; [|constructor].
  unfold byte_ok. pose proof (Z.mod_pos_bound x 256 ltac:(lia)). lia.
Qed.

Lemma Zlen_enc_value : forall t v, Zlen (enc_value t v) = xlen_type t.
Proof.
  intros t v. unfold enc_value, Zlen. pose proof (xlen_type_nonneg t).
  destruct (is_float_type t); rewrite be_bytes_length; lia.
Qed.

Lemma enc_value_range : forall t v, Forall byte_ok (enc_value t v).
Proof. intros t v. unfold enc_value. destruct (is_float_type t); apply be_bytes_range. Qed.

Lemma byte_ok_defined : forall l, Forall byte_ok l -> existsb is_undef l = false.
Proof.
  induction l as [|b l IH]; intros H; [reflexivity|].
  inversion H as [|? ? Hb Hl]; subst. cbn [existsb]. rewrite (IH Hl).
  unfold is_undef, byte_ok in *. lia.
Qed.

Lemma Zlen_flat_map_const {A} : forall (F : A -> list byte) k l,
  (forall x, Zlen (F x) = k) -> Zlen (flat_map F l) = k * Zlen l.
Proof.
  intros F k l H. induction l as [|x l IH]; [cbn [flat_map]; rewrite !Zlen_nil; lia|].
  cbn [flat_map]. rewrite Zlen_app, Zlen_cons, IH, H. lia.
Qed.

Lemma Forall_flat_map_all {A B} (P : B -> Prop) : forall (F : A -> list B) l,
  (forall x, Forall P (F x)) -> Forall P (flat_map F l).
Proof.
  intros F l H. induction l as [|x l IH]; [constructor|].
  cbn [flat_map]. apply Forall_app. split; [apply H | exact IH].
Qed.

Lemma lbuf_positions_none : forall r, rq_imap r = None -> lbuf_positions r = zrange 0 (nelems_of r).
Proof. intros r H. unfold lbuf_positions. rewrite H. reflexivity. Qed.

(* the value the script pattern puts at stream position k *)
Definition put_elem (a : access) (xt k : Z) : list byte :=
  enc_value xt (pat_value (ac_seed a) k (pat_lim (eff_memt a xt) xt)).

Lemma put_stream_none : forall a xt k0 r, rq_imap r = None ->
  put_stream a xt k0 r = flat_map (fun p => put_elem a xt (k0 + p)) (zrange 0 (nelems_of r)).
Proof. intros a xt k0 r H. unfold put_stream. rewrite lbuf_positions_none by exact H. reflexivity. Qed.

Lemma Zlen_put_stream : forall a xt k0 r, rq_imap r = None -> 0 <= nelems_of r ->
  Zlen (put_stream a xt k0 r) = xlen_type xt * nelems_of r.
Proof.
  intros a xt k0 r Him Hn. rewrite put_stream_none by exact Him.
  rewrite (Zlen_flat_map_const _ (xlen_type xt)).
  - rewrite Zlen_zrange, Z.max_r by lia. reflexivity.
  - intros p. apply Zlen_enc_value.
Qed.

(** the stream a put sends holds only defined bytes (in [0,256)), whatever the request
    (also through an imap) *)
Theorem put_stream_defined : forall a xt k0 r, Forall byte_ok (put_stream a xt k0 r).
Proof.
  intros a xt k0 r. unfold put_stream. apply Forall_flat_map_all.
  intros p. apply enc_value_range.
Qed.

Lemma zrange_split : forall n k, 0 <= k < n ->
  zrange 0 n = zrange 0 k ++ k :: zrange (k + 1) (n - k - 1).
Proof.
  intros n k Hk.
  replace n with (k + (1 + (n - k - 1))) at 1 by lia.
  rewrite zrange_app by lia. f_equal. replace (0 + k) with k by lia.
  rewrite zrange_app by lia. rewrite zrange_1. reflexivity.
Qed.

(* the k-th element of a stream built element by element *)
Lemma stream_elem_flat_map : forall (F : Z -> list byte) xsz n k,
  (forall p, Zlen (F p) = xsz) -> 0 <= k < n ->
  stream_elem xsz (flat_map F (zrange 0 n)) k = F k.
Proof.
  intros F xsz n k HF Hk. unfold stream_elem.
  rewrite (zrange_split n k Hk), flat_map_app. cbn [flat_map].
  assert (E : k * xsz = Zlen (flat_map F (zrange 0 k))).
  { rewrite (Zlen_flat_map_const F xsz) by exact HF. rewrite Zlen_zrange, Z.max_r by lia. lia. }
  rewrite E, zskipn_app_exact. rewrite <- (HF k). apply zfirstn_app_exact.
Qed.

(* ================================================================== *)
(** * 4. The offsets of an accepted request                             *)
(* ================================================================== *)
Definition rq_indices (g : geom) (r : rreq) : list (list Z) :=
  req_indices (rq_start r) (rq_count r) (rq_strides g r).

Lemma req_offsets_some : forall g r, wf_geom g -> rq_ok g r ->
  req_offsets g r = model_offsets g (rq_start r) (rq_count r) (Some (rq_strides g r)).
Proof.
  intros g r Hwf [_ Hreq]. unfold req_offsets, rq_strides in *.
  destruct (rq_stride r) as [t|]; [reflexivity|]. cbn [stride_or_ones] in *.
  rewrite model_offsets_eq_spec_none, model_offsets_eq_spec by assumption. reflexivity.
Qed.

Lemma req_offsets_spec : forall g r, wf_geom g -> rq_ok g r ->
  req_offsets g r = map (elem_off g) (rq_indices g r).
Proof.
  intros g r Hwf Hok. rewrite req_offsets_some by assumption. destruct Hok as [_ Hreq].
  rewrite model_offsets_eq_spec by assumption. reflexivity.
Qed.

Lemma rq_ok_nelems : forall g r, rq_ok g r -> 0 <= nelems_of r.
Proof.
  intros g r [_ Hreq]. unfold nelems_of. apply zprod_nonneg.
  eapply req_ok_count_nonneg. exact Hreq.
Qed.

Lemma Zlen_req_offsets : forall g r, wf_geom g -> rq_ok g r -> Zlen (req_offsets g r) = nelems_of r.
Proof.
  intros g r Hwf Hok. rewrite req_offsets_some by assumption. destruct Hok as [_ Hreq].
  apply Zlen_model_offsets; assumption.
Qed.

Lemma Zlen_rq_indices : forall g r, rq_ok g r -> Zlen (rq_indices g r) = nelems_of r.
Proof. intros g r [_ Hreq]. unfold rq_indices. apply (Zlen_req_indices g). exact Hreq. Qed.

Lemma rq_indices_idx_ok : forall g r idx, rq_ok g r -> In idx (rq_indices g r) -> idx_ok g idx.
Proof. intros g r idx [_ Hreq] Hin. eapply req_indices_idx_ok; eassumption. Qed.

Lemma req_offsets_disjoint : forall g r, wf_geom g -> rec_fits g -> rq_ok g r ->
  elems_disjoint (g_xsz g) (req_offsets g r).
Proof.
  intros g r Hwf Hfit Hok. rewrite req_offsets_some by assumption. destruct Hok as [_ Hreq].
  apply request_offsets_disjoint; assumption.
Qed.

(* ================================================================== *)
(** * 5. put_rank: the bytes of the file after the put                  *)
(* ================================================================== *)
(* the hypotheses under which the put is judged: the interpreter's own checks (booleans that
   can be evaluated), the ndims contract of the argument arrays, and the two layout facts
   about the variable (wf_geom: positive element size, dimension lengths, packed records for
   a single record variable; rec_fits: a record slot is not larger than the record) *)
Definition put_accepted (w : world) (f : filest) (rank : Z) (coll : bool) (a : access) (r : rreq)
  : Prop :=
  0 <= f_slot f < Zlen (w_disks w) /\
  sanity f true true coll a = NC_NOERR /\
  check_request w f rank false a = (NC_NOERR, Some [r]) /\
  iomismatch a [r] = false /\
  form_lengths (ac_form a) (length (g_shape (acc_geom f a))) /\
  wf_geom (acc_geom f a) /\ rec_fits (acc_geom f a).

Lemma put_accepted_rq_ok : forall w f rank coll a r,
  put_accepted w f rank coll a r -> rq_ok (acc_geom f a) r.
Proof.
  intros w f rank coll a r (_ & _ & Hchk & _ & Hfl & _). eapply check_request_req_ok; eassumption.
Qed.

Section PutDisk.
  Variables (f : filest) (a : access) (r : rreq) (d : disk).
  Let g := acc_geom f a.
  Let xt := acc_xt f a.
  Hypothesis Hwf : wf_geom g.
  Hypothesis Hfit : rec_fits g.
  Hypothesis Hok : rq_ok g r.

  Let D := put_disk f a r d.

  Lemma put_disk_len : Zlen (put_stream a xt 0 r) = g_xsz g * Zlen (req_offsets g r).
  Proof.
    rewrite Zlen_req_offsets by assumption.
    rewrite Zlen_put_stream; [reflexivity | exact (proj1 Hok) | eapply rq_ok_nelems; exact Hok].
  Qed.

  (** what the put stored is what a gather through the same offsets returns *)
  Theorem put_disk_roundtrip : dk_gather D (g_xsz g) (req_offsets g r) = put_stream a xt 0 r.
  Proof.
    unfold D, put_disk. fold g xt. apply gather_scatter.
    - apply req_offsets_disjoint; assumption.
    - exact put_disk_len.
  Qed.

  (** the element with the k-th index vector of the request holds the k-th pattern value *)
  Theorem put_disk_element : forall k, 0 <= k < nelems_of r ->
    dk_read D (elem_off g (znth (rq_indices g r) k [])) (g_xsz g) = put_elem a xt k.
  Proof.
    intros k Hk. pose proof Hwf as (Hx & _).
    assert (Ek : elem_off g (znth (rq_indices g r) k []) = znth (req_offsets g r) k 0).
    { rewrite req_offsets_spec by assumption. symmetry.
      apply znth_map. rewrite Zlen_rq_indices by assumption. exact Hk. }
    rewrite Ek. rewrite <- stream_elem_gather by (rewrite ?Zlen_req_offsets by assumption; lia).
    rewrite put_disk_roundtrip. rewrite put_stream_none by exact (proj1 Hok).
    rewrite (stream_elem_flat_map (fun p => put_elem a xt (0 + p)) (g_xsz g)).
    - f_equal.
    - intros p. unfold put_elem. rewrite Zlen_enc_value. reflexivity.
    - exact Hk.
  Qed.

  (** FRAME: a byte that belongs to no addressed element keeps its value *)
  Theorem put_disk_frame : forall x,
    (forall idx, In idx (rq_indices g r) -> ~ in_elem (g_xsz g) (elem_off g idx) x) ->
    dk_get D x = dk_get d x.
  Proof.
    intros x H. unfold D, put_disk. fold g xt. apply scatter_get_out.
    intros o Ho. rewrite req_offsets_spec in Ho by assumption.
    apply in_map_iff in Ho. destruct Ho as [idx [<- Hidx]]. apply H. exact Hidx.
  Qed.

  (** ... in particular every other element of the same variable *)
  Corollary put_disk_frame_element : forall idx,
    idx_ok g idx -> ~ In idx (rq_indices g r) ->
    dk_read D (elem_off g idx) (g_xsz g) = dk_read d (elem_off g idx) (g_xsz g).
  Proof.
    intros idx Hidx Hnot. unfold dk_read. apply map_ext_in. intros x Hx. apply In_zrange in Hx.
    apply put_disk_frame. intros idx2 Hin2 Hin.
    assert (Hap : apart (g_xsz g) (elem_off g idx2) (elem_off g idx)).
    { apply elem_off_apart; try assumption.
      - eapply rq_indices_idx_ok; eassumption.
      - intros ->. contradiction. }
    unfold apart in Hap. unfold in_elem in Hin. lia.
  Qed.

  (** ... every byte outside the variable's region: the header, the other variables, the
      padding between variables *)
  Corollary put_disk_frame_region : forall x, ~ var_region g x -> dk_get D x = dk_get d x.
  Proof.
    intros x Hx. apply put_disk_frame. intros idx Hin Hel. apply Hx.
    pose proof Hwf as (Hxs & _).
    eapply elem_in_region; [lia | eapply rq_indices_idx_ok; eassumption | exact Hel].
  Qed.

  (** ... every byte before the variable's begin (the header lies there) *)
  Corollary put_disk_frame_below : forall x, x < g_begin g -> dk_get D x = dk_get d x.
  Proof.
    intros x Hx. apply put_disk_frame_region. unfold var_region.
    destruct Hwf as (Hxs & Hrs & Hdw & _).
    destruct (g_isrec g) eqn:Erec.
    - intros [i0 [Hi0 Hr]]. assert (0 <= i0 * g_recsize g) by nia. lia.
    - unfold dims_wf in Hdw. destruct (g_shape g) as [|s0 ss] eqn:Es.
      + cbn [zprod]. lia.
      + lia.
  Qed.

  (** ... every byte of a variable whose region does not meet this one *)
  Corollary put_disk_frame_other_var : forall g2 x,
    regions_disjoint g g2 -> var_region g2 x -> dk_get D x = dk_get d x.
  Proof. intros g2 x Hd H2. apply put_disk_frame_region. intros H1. exact (Hd x H1 H2). Qed.

  (** the file extent: never shrinks, and covers every addressed element *)
  Theorem put_disk_size :
    dk_size d <= dk_size D /\
    forall idx, In idx (rq_indices g r) -> elem_off g idx + g_xsz g <= dk_size D.
  Proof.
    pose proof Hwf as (Hxs & _). unfold D, put_disk. fold g xt. split.
    - apply scatter_size_mono; [exact Hxs | exact put_disk_len].
    - intros idx Hin. apply scatter_size_ge; [exact Hxs | exact put_disk_len |].
      rewrite req_offsets_spec by assumption. apply in_map. exact Hin.
  Qed.
End PutDisk.

(** Deliverable 1, assembled: an accepted put through put_rank returns NC_NOERR; the new world
    differs from the old one only in the disk of the file's slot; on that disk the addressed
    elements hold the pattern stream (in row-major order of the request) and every other byte —
    the header, other variables' regions, other elements of this variable — is unchanged. *)
Theorem put_rank_frame : forall w id f rank coll a r,
  put_accepted w f rank coll a r ->
  let g := acc_geom f a in let xt := acc_xt f a in
  exists w',
    put_rank w id f rank coll a = (w', NC_NOERR, put_newrecs f a r, negb (nelems_of r =? 0)) /\
    same_but_disks w w' /\
    (forall s, s <> f_slot f -> get_disk w' s = get_disk w s) /\
    disk_of w' f = put_disk f a r (disk_of w f) /\
    dk_gather (disk_of w' f) (g_xsz g) (req_offsets g r) = put_stream a xt 0 r /\
    (forall k, 0 <= k < nelems_of r ->
       dk_read (disk_of w' f) (elem_off g (znth (rq_indices g r) k [])) (g_xsz g) =
       put_elem a xt k) /\
    (forall x, (forall idx, In idx (rq_indices g r) -> ~ in_elem (g_xsz g) (elem_off g idx) x) ->
       dk_get (disk_of w' f) x = dk_get (disk_of w f) x) /\
    (forall x, ~ var_region g x -> dk_get (disk_of w' f) x = dk_get (disk_of w f) x) /\
    (forall x, x < g_begin g -> dk_get (disk_of w' f) x = dk_get (disk_of w f) x) /\
    (forall g2 x, regions_disjoint g g2 -> var_region g2 x ->
       dk_get (disk_of w' f) x = dk_get (disk_of w f) x) /\
    dk_size (disk_of w f) <= dk_size (disk_of w' f).
Proof.
  intros w id f rank coll a r Hacc g xt.
  pose proof (put_accepted_rq_ok _ _ _ _ _ _ Hacc) as Hok.
  destruct Hacc as (Hslot & Hsan & Hchk & Hio & Hfl & Hwf & Hfit).
  destruct (put_rank_effect w id f rank coll a r Hslot Hsan Hchk Hio) as (w' & Hput & Hd & Hoth & Hsame).
  exists w'. split; [exact Hput|]. split; [exact Hsame|]. split; [exact Hoth|].
  split; [exact Hd|]. rewrite Hd.
  split; [apply put_disk_roundtrip; assumption|].
  split; [apply put_disk_element; assumption|].
  split; [apply put_disk_frame; assumption|].
  split; [apply put_disk_frame_region; assumption|].
  split; [apply put_disk_frame_below; assumption|].
  split; [apply put_disk_frame_other_var; assumption|].
  exact (proj1 (put_disk_size f a r (disk_of w f) Hwf Hok)).
Qed.
(* ================================================================== *)
(** * 6. get_into_buffer for a typed buffer of the external type        *)
(* ================================================================== *)
(* memory image of one element read from the file: an element with an undefined byte is
   rendered as msz undefined bytes *)
Definition elem_image (xsz : Z) (e : list byte) : list byte :=
  if existsb is_undef e then repeat UNDEF (Z.to_nat xsz) else mem_of_be e.

Lemma Zlen_repeat' {A} : forall (x : A) n, Zlen (repeat x n) = Z.of_nat n.
Proof. intros x n. unfold Zlen. rewrite repeat_length. reflexivity. Qed.

Lemma Zlen_elem_image : forall xsz e, 0 <= xsz -> Zlen e = xsz -> Zlen (elem_image xsz e) = xsz.
Proof.
  intros xsz e Hx He. unfold elem_image. destruct (existsb is_undef e).
  - rewrite Zlen_repeat'. lia.
  - unfold mem_of_be, Zlen in *. rewrite rev_length. exact He.
Qed.

Lemma elem_image_defined : forall xsz e, Forall byte_ok e -> elem_image xsz e = mem_of_be e.
Proof. intros xsz e H. unfold elem_image. rewrite byte_ok_defined by exact H. reflexivity. Qed.

Lemma zupd_app_exact {A} : forall (pre : list A) m rest v,
  zupd (pre ++ m :: rest) (Zlen pre) v = pre ++ v :: rest.
Proof.
  induction pre as [|x pre IH]; intros m rest v.
  - reflexivity.
  - cbn [app zupd]. rewrite Zlen_cons. pose proof (Zlen_nonneg pre).
    replace (Zlen pre + 1 =? 0) with false by lia.
    replace (Zlen pre + 1 - 1) with (Zlen pre) by lia. rewrite IH. reflexivity.
Qed.

Lemma poke_app : forall bs pre mid post, Zlen mid = Zlen bs ->
  poke (pre ++ mid ++ post) (Zlen pre) bs = pre ++ bs ++ post.
Proof.
  induction bs as [|b bs IH]; intros pre mid post Hl.
  - rewrite Zlen_nil in Hl. apply Zlen_zero_nil in Hl. subst mid. reflexivity.
  - destruct mid as [|m mid]; [rewrite Zlen_nil, Zlen_cons in Hl; pose proof (Zlen_nonneg bs); lia|].
    rewrite !Zlen_cons in Hl. cbn [poke app]. rewrite zupd_app_exact.
    replace (pre ++ b :: mid ++ post) with ((pre ++ [b]) ++ mid ++ post)
      by (rewrite <- app_assoc; reflexivity).
    replace (Zlen pre + 1) with (Zlen (pre ++ [b])) by (rewrite Zlen_app, Zlen_cons, Zlen_nil; lia).
    rewrite IH by lia. rewrite <- app_assoc. reflexivity.
Qed.

(* one step of the inner fold of get_into_buffer *)
Definition gib_step (fmt : Z) (a : access) (xt k0 : Z)
           (acc : option (list byte * bool * bool)) (pe : Z * list byte)
  : option (list byte * bool * bool) :=
  let memt := eff_memt a xt in
  let msz := mem_size memt in
  match acc with
  | None => None
  | Some (buf, er, unk) =>
      let at_ := GUARD + buf_index (ac_buf a) (k0 + fst pe) * msz in
      if existsb is_undef (snd pe)
      then Some (poke buf at_ (repeat UNDEF (Z.to_nat msz)), er, true)
      else
      if (fmt <? 5) && (xt =? 1) && (memt =? 7)
      then Some (poke buf at_ (snd pe), er, unk)
      else
      match convert xt memt (snd pe) with
      | None => None
      | Some (be, e) => Some (poke buf at_ (mem_of_be be), er || e, unk)
      end
  end.

Lemma get_into_buffer_eq : forall fmt a xt rs,
  get_into_buffer fmt a xt rs =
  fold_left (fun acc0 x =>
               let '(k0, r, stream) := x in
               fold_left (gib_step fmt a xt k0)
                         (zip (lbuf_positions r) (chunk_list (xlen_type xt) stream)) acc0)
            rs
            (Some (blank_buf (buf_extent_list (ac_buf a) (map (fun x => snd (fst x)) rs) *
                              mem_size (eff_memt a xt)), false, false)).
Proof. reflexivity. Qed.

Lemma convert_same : forall t bs, convert t t bs = Some (bs, false).
Proof. intros t bs. unfold convert. rewrite Z.eqb_refl. reflexivity. Qed.

Lemma gib_step_typed : forall fmt a xt k0 buf er unk p e,
  ac_buf a = BTyped -> ac_memt a = xt ->
  gib_step fmt a xt k0 (Some (buf, er, unk)) (p, e) =
  Some (poke buf (GUARD + (k0 + p) * xlen_type xt) (elem_image (xlen_type xt) e), er,
        existsb is_undef e || unk).
Proof.
  intros fmt a xt k0 buf er unk p e Hb Hm. unfold gib_step, eff_memt, mem_size, elem_image.
  rewrite Hb, Hm. cbn [buf_index fst snd].
  destruct (existsb is_undef e); [reflexivity|].
  replace ((fmt <? 5) && (xt =? 1) && (xt =? 7)) with false by lia.
  rewrite convert_same. rewrite orb_false_r. reflexivity.
Qed.

Definition blanks (xsz : Z) (elems : list (list byte)) : list byte :=
  @flat_map (list byte) byte (fun _ => @repeat byte 165 (Z.to_nat xsz)) elems.

Lemma gib_fold_typed : forall fmt a xt,
  ac_buf a = BTyped -> ac_memt a = xt -> 0 <= xlen_type xt ->
  forall elems j pre post er unk,
  Forall (fun e => Zlen e = xlen_type xt) elems ->
  Zlen pre = GUARD + j * xlen_type xt ->
  fold_left (gib_step fmt a xt 0) (zip (zseq j (length elems)) elems)
            (Some (pre ++ blanks (xlen_type xt) elems ++ post, er, unk)) =
  Some (pre ++ flat_map (elem_image (xlen_type xt)) elems ++ post, er,
        existsb (existsb is_undef) elems || unk).
Proof.
  intros fmt a xt Hb Hm Hx. set (xsz := xlen_type xt) in *.
  induction elems as [|e rest IH]; intros j pre post er unk Hall Hpre.
  - reflexivity.
  - apply Forall_cons_iff in Hall. destruct Hall as [He Hrest].
    cbn [length zseq zip fold_left]. rewrite (gib_step_typed fmt a xt 0 _ _ _ j e Hb Hm).
    fold xsz. unfold blanks. cbn [flat_map]. fold (blanks xsz rest).
    rewrite <- app_assoc.
    replace (GUARD + (0 + j) * xsz) with (Zlen pre) by lia.
    rewrite poke_app
      by (rewrite Zlen_repeat', Zlen_elem_image by (try exact He; lia); lia).
    rewrite (app_assoc pre (elem_image xsz e) (blanks xsz rest ++ post)).
    rewrite (IH (j + 1)); [| exact Hrest | rewrite Zlen_app, Zlen_elem_image by (try exact He; lia); lia].
    rewrite <- !app_assoc. cbn [existsb].
    f_equal. f_equal.
    destruct (existsb is_undef e), (existsb (existsb is_undef) rest), unk; reflexivity.
Qed.

Lemma repeat_blanks : forall xsz (elems : list (list byte)), 0 <= xsz ->
  @repeat byte 165 (Z.to_nat (Zlen elems * xsz)) = blanks xsz elems.
Proof.
  intros xsz elems Hx. induction elems as [|e rest IH].
  - rewrite Zlen_nil. reflexivity.
  - unfold blanks. cbn [flat_map]. fold (blanks xsz rest). rewrite <- IH, <- repeat_app.
    f_equal. rewrite Zlen_cons. pose proof (Zlen_nonneg rest). nia.
Qed.

Lemma chunks_concat {A} : forall n (elems : list (list A)) fuel, (0 < n)%nat ->
  Forall (fun e => length e = n) elems -> (length elems <= fuel)%nat ->
  Data.chunks n fuel (concat elems) = elems.
Proof.
  intros n elems. induction elems as [|e rest IH]; intros fuel Hn Hall Hf.
  - destruct fuel; reflexivity.
  - inversion Hall as [|? ? He Hrest]; subst.
    destruct fuel as [|fuel]; [cbn [length] in Hf; lia|].
    cbn [concat Data.chunks].
    destruct (e ++ concat rest) as [|b l] eqn:E.
    { destruct e; [cbn [length] in Hn; lia | discriminate E]. }
    rewrite <- E. rewrite firstn_app, skipn_app, firstn_all, skipn_all, Nat.sub_diag.
    cbn [firstn skipn app]. rewrite app_nil_r. f_equal.
    apply IH; [exact Hn | exact Hrest | cbn [length] in Hf; lia].
Qed.

Lemma chunk_list_concat : forall xsz (elems : list (list byte)), 0 < xsz ->
  Forall (fun e => Zlen e = xsz) elems -> chunk_list xsz (concat elems) = elems.
Proof.
  intros xsz elems Hx Hall. unfold chunk_list. apply chunks_concat.
  - lia.
  - eapply Forall_impl; [|exact Hall]. intros e He. cbv beta in He. unfold Zlen in He. lia.
  - induction Hall as [|e rest He _ IH]; [cbn [length]; lia|].
    cbn [concat length]. rewrite app_length. unfold Zlen in He. lia.
Qed.

Lemma nelems_or1_nonneg : forall r, Forall (fun c => 0 <= c) (rq_count r) -> nelems_or1 r = nelems_of r.
Proof.
  intros r H. unfold nelems_or1.
  replace (existsb (fun c => c <? 0) (rq_count r)) with false; [reflexivity|].
  symmetry. induction H as [|c l Hc _ IH]; [reflexivity|]. cbn [existsb]. rewrite IH. lia.
Qed.

(** get_into_buffer, one request, typed contiguous buffer, memory type = external type: the
    buffer is the two guard runs around the images of the elements, no NC_ERANGE, and the
    "undefined" flag says whether some element contains an undefined byte *)
Theorem get_into_buffer_typed : forall fmt a xt r elems,
  ac_buf a = BTyped -> ac_memt a = xt -> rq_imap r = None ->
  Forall (fun c => 0 <= c) (rq_count r) -> 0 < xlen_type xt ->
  Forall (fun e => Zlen e = xlen_type xt) elems -> Zlen elems = nelems_of r ->
  get_into_buffer fmt a xt [(0, r, concat elems)] =
  Some (guard_bytes ++ flat_map (elem_image (xlen_type xt)) elems ++ guard_bytes, false,
        existsb (existsb is_undef) elems).
Proof.
  intros fmt a xt r elems Hb Hm Him Hcnt Hx Hall Hlen.
  rewrite get_into_buffer_eq. cbn [map fst snd fold_left].
  rewrite Hb. cbn [buf_extent_list buf_extent_elems]. rewrite Him.
  rewrite nelems_or1_nonneg by exact Hcnt.
  unfold eff_memt, mem_size. rewrite Hb, Hm.
  rewrite lbuf_positions_none by exact Him.
  rewrite chunk_list_concat by (try exact Hall; lia).
  unfold blank_buf. rewrite <- Hlen. rewrite repeat_blanks by lia.
  unfold zrange. replace (Z.to_nat (Zlen elems)) with (length elems) by (unfold Zlen; lia).
  etransitivity.
  { apply (gib_fold_typed fmt a xt Hb Hm ltac:(lia) elems 0 guard_bytes guard_bytes false false Hall).
    reflexivity. }
  rewrite orb_false_r. reflexivity.
Qed.

(* ================================================================== *)
(** * 7. get_rank_op                                                    *)
(* ================================================================== *)
Lemma dk_gather_concat : forall d xsz offs,
  dk_gather d xsz offs = concat (map (fun o => dk_read d o xsz) offs).
Proof. intros d xsz offs. unfold dk_gather. apply flat_map_concat_map. Qed.

(* the elements a get reads, in the order of the request *)
Definition get_elems (w : world) (f : filest) (a : access) (r : rreq) : list (list byte) :=
  map (fun o => dk_read (disk_of w f) o (g_xsz (acc_geom f a))) (req_offsets (acc_geom f a) r).

Definition get_accepted (w : world) (f : filest) (rank : Z) (coll : bool) (a : access) (r : rreq)
  : Prop :=
  sanity f false true coll a = NC_NOERR /\
  check_request w f rank true a = (NC_NOERR, Some [r]) /\
  ac_buf a = BTyped /\ ac_memt a = acc_xt f a /\
  form_lengths (ac_form a) (length (g_shape (acc_geom f a))) /\
  wf_geom (acc_geom f a).

Lemma get_accepted_rq_ok : forall w f rank coll a r,
  get_accepted w f rank coll a r -> rq_ok (acc_geom f a) r.
Proof.
  intros w f rank coll a r (_ & Hchk & _ & _ & Hfl & _). eapply check_request_req_ok; eassumption.
Qed.

(** Deliverable 2, the interpreter step: a typed get whose memory type is the variable's
    external type returns the guard bytes around the memory images (little endian) of the
    elements found on the disk at the model offsets; NC_NOERR when all of them are defined,
    RC_ANY (not predicted) when some byte was never written. *)
Theorem get_rank_op_typed : forall w f rank coll a r,
  get_accepted w f rank coll a r ->
  let xsz := g_xsz (acc_geom f a) in
  let elems := get_elems w f a r in
  get_rank_op w f rank coll a =
  ((if existsb (existsb is_undef) elems then RC_ANY else NC_NOERR),
   [THex (guard_bytes ++ flat_map (elem_image xsz) elems ++ guard_bytes)]).
Proof.
  intros w f rank coll a r Hacc xsz elems.
  pose proof (get_accepted_rq_ok _ _ _ _ _ _ Hacc) as Hok.
  destruct Hacc as (Hsan & Hchk & Hb & Hm & Hfl & Hwf).
  pose proof Hwf as (Hx & _).
  unfold get_rank_op. rewrite Hsan. change (negb (NC_NOERR =? NC_NOERR)) with false. cbv iota.
  rewrite Hchk.
  assert (Hio : iomismatch a [r] = false) by (unfold iomismatch; rewrite Hb; reflexivity).
  rewrite Hio. cbn [with_bases map fst snd].
  fold (acc_geom f a). fold (req_offsets (acc_geom f a) r).
  rewrite dk_gather_concat. fold (get_elems w f a r). fold elems.
  rewrite (get_into_buffer_typed (h_format (f_hdr f)) a (v_type (the_var f a)) r elems).
  - reflexivity.
  - exact Hb.
  - exact Hm.
  - exact (proj1 Hok).
  - eapply req_ok_count_nonneg. exact (proj2 Hok).
  - exact Hx.
  - unfold elems, get_elems. apply Forall_map. apply Forall_forall. intros o _.
    rewrite Zlen_dk_read. rewrite g_xsz_acc_geom in *. unfold acc_xt in *. lia.
  - unfold elems, get_elems. rewrite Zlen_map. apply Zlen_req_offsets; assumption.
Qed.
(* ================================================================== *)
(** * 8. get after put                                                  *)
(* ================================================================== *)
(* the get is issued on a (possibly later) world / file state that sees the same variable
   with the same geometry, and whose disk is the one the put left behind *)
Definition sees_put (w2 : world) (f2 : filest) (a2 : access) (f : filest) (a : access) (r : rreq)
           (d : disk) : Prop :=
  acc_geom f2 a2 = acc_geom f a /\ acc_xt f2 a2 = acc_xt f a /\
  disk_of w2 f2 = put_disk f a r d.

Lemma get_elems_eq : forall w2 f2 a2 f a r r' d, sees_put w2 f2 a2 f a r d ->
  get_elems w2 f2 a2 r' =
  map (fun o => dk_read (put_disk f a r d) o (g_xsz (acc_geom f a))) (req_offsets (acc_geom f a) r').
Proof.
  intros w2 f2 a2 f a r r' d (Hg & _ & Hd). unfold get_elems. rewrite Hg, Hd. reflexivity.
Qed.

Lemma put_elems_defined : forall a xt l,
  existsb (existsb is_undef) (map (fun k => put_elem a xt k) l) = false.
Proof.
  intros a xt l. induction l as [|k l IH]; [reflexivity|].
  cbn [map existsb]. rewrite IH. unfold put_elem at 1.
  rewrite byte_ok_defined by apply enc_value_range. reflexivity.
Qed.

(** Deliverable 2: the same request read back.  After an accepted put, a typed get (memory
    type = external type) of the SAME resolved request r, accepted by the read-side checks, on
    any world whose disk for the file is the one the put produced, returns NC_NOERR and the
    buffer  guard ++ (little-endian image of every pattern value, in request order) ++ guard.
    In particular no element is undefined. *)
Theorem get_after_put : forall w f rank coll a r d w2 f2 rank2 coll2 a2,
  put_accepted w f rank coll a r ->
  get_accepted w2 f2 rank2 coll2 a2 r ->
  sees_put w2 f2 a2 f a r d ->
  get_rank_op w2 f2 rank2 coll2 a2 =
  (NC_NOERR,
   [THex (guard_bytes ++
          flat_map (fun k => mem_of_be (put_elem a (acc_xt f a) k)) (zrange 0 (nelems_of r)) ++
          guard_bytes)]).
Proof.
  intros w f rank coll a r d w2 f2 rank2 coll2 a2 Hput Hget Hsee.
  pose proof (put_accepted_rq_ok _ _ _ _ _ _ Hput) as Hok.
  destruct Hput as (_ & _ & _ & _ & _ & Hwf & Hfit).
  rewrite (get_rank_op_typed w2 f2 rank2 coll2 a2 r Hget). cbv zeta.
  rewrite (get_elems_eq w2 f2 a2 f a r r d Hsee).
  destruct Hsee as (Hg & Hxt & Hd). rewrite Hg.
  set (g := acc_geom f a) in *. set (xt := acc_xt f a) in *.
  set (D := put_disk f a r d).
  pose proof Hwf as (Hx & _).
  assert (Hn : 0 <= nelems_of r) by (eapply rq_ok_nelems; exact Hok).
  (* the elements read are the elements put *)
  assert (Eel : map (fun o => dk_read D o (g_xsz g)) (req_offsets g r) =
                map (fun k => put_elem a xt k) (zrange 0 (nelems_of r))).
  { rewrite <- (chunk_list_concat (g_xsz g) (map (fun o => dk_read D o (g_xsz g)) (req_offsets g r)) Hx).
    2:{ apply Forall_map. apply Forall_forall. intros o _. rewrite Zlen_dk_read. lia. }
    rewrite <- dk_gather_concat. unfold D, g.
    rewrite (put_disk_roundtrip f a r d Hwf Hfit Hok). fold xt.
    rewrite put_stream_none by exact (proj1 Hok). rewrite flat_map_concat_map.
    rewrite chunk_list_concat; [| exact Hx |].
    - apply map_ext. intros k. f_equal.
    - apply Forall_map. apply Forall_forall. intros k _. unfold put_elem.
      rewrite Zlen_enc_value. reflexivity. }
  rewrite Eel.
  rewrite put_elems_defined. f_equal. f_equal. f_equal. f_equal.
  rewrite flat_map_concat_map, map_map, <- flat_map_concat_map.
  f_equal. apply flat_map_ext. intros k. apply elem_image_defined. apply enc_value_range.
Qed.

(** ... and through ANY other accepted request r' on the same variable (another start / count /
    stride, overlapping or not): the get returns the images of the elements [elems]; element
    k' is the pattern value the put stored for the same index vector, or — for an index vector
    the put did not address — the content of the disk before the put.  The return code is
    RC_ANY exactly when some element read contains a never-written byte. *)
Theorem get_after_put_other : forall w f rank coll a r d w2 f2 rank2 coll2 a2 r',
  put_accepted w f rank coll a r ->
  get_accepted w2 f2 rank2 coll2 a2 r' ->
  sees_put w2 f2 a2 f a r d ->
  let g := acc_geom f a in let xt := acc_xt f a in
  let elems := get_elems w2 f2 a2 r' in
  get_rank_op w2 f2 rank2 coll2 a2 =
    ((if existsb (existsb is_undef) elems then RC_ANY else NC_NOERR),
     [THex (guard_bytes ++ flat_map (elem_image (g_xsz g)) elems ++ guard_bytes)]) /\
  Zlen elems = nelems_of r' /\
  forall k', 0 <= k' < nelems_of r' ->
    let idx' := znth (rq_indices g r') k' [] in
    (forall k, 0 <= k < nelems_of r -> znth (rq_indices g r) k [] = idx' ->
       znth elems k' [] = put_elem a xt k) /\
    (~ In idx' (rq_indices g r) ->
       znth elems k' [] = dk_read d (elem_off g idx') (g_xsz g)).
Proof.
  intros w f rank coll a r d w2 f2 rank2 coll2 a2 r' Hput Hget Hsee g xt elems.
  pose proof (put_accepted_rq_ok _ _ _ _ _ _ Hput) as Hok.
  pose proof (get_accepted_rq_ok _ _ _ _ _ _ Hget) as Hok'.
  destruct Hput as (_ & _ & _ & _ & _ & Hwf & Hfit).
  split.
  { rewrite (get_rank_op_typed w2 f2 rank2 coll2 a2 r' Hget). cbv zeta.
    destruct Hsee as (Hg & _). rewrite Hg. reflexivity. }
  unfold elems. rewrite (get_elems_eq w2 f2 a2 f a r r' d Hsee).
  destruct Hsee as (Hg & Hxt & Hd). rewrite Hg in Hok'. fold g in Hok', Hok, Hwf, Hfit |- *.
  pose proof Hwf as (Hx & _).
  split; [rewrite Zlen_map; apply Zlen_req_offsets; assumption|].
  intros k' Hk'. set (idx' := znth (rq_indices g r') k' []).
  pose proof (Zlen_req_offsets g r' Hwf Hok') as Hzl'.
  rewrite (znth_map _ (req_offsets g r') k' 0 []) by lia.
  rewrite <- (stream_elem_gather (put_disk f a r d) (g_xsz g) (req_offsets g r') k') by lia.
  assert (Hlen : Zlen (put_stream a xt 0 r) = g_xsz g * zprod (rq_count r)).
  { rewrite Zlen_put_stream; [reflexivity | exact (proj1 Hok) | eapply rq_ok_nelems; exact Hok]. }
  destruct (get_other_request g (rq_start r) (rq_count r) (rq_strides g r)
              (rq_start r') (rq_count r') (rq_strides g r') d (put_stream a xt 0 r) k'
              Hwf Hfit (proj2 Hok) (proj2 Hok') Hlen Hk') as [Hin Hout].
  rewrite <- !req_offsets_some in Hin, Hout by assumption.
  fold (rq_indices g r) in Hin, Hout. fold (rq_indices g r') in Hin, Hout. fold idx' in Hin, Hout.
  split.
  - intros k Hk E. unfold put_disk. fold g xt. rewrite (Hin k Hk E).
    rewrite put_stream_none by exact (proj1 Hok).
    rewrite (stream_elem_flat_map (fun p => put_elem a xt (0 + p)) (g_xsz g)).
    + f_equal.
    + intros p. unfold put_elem. rewrite Zlen_enc_value. reflexivity.
    + exact Hk.
  - intros Hnot. unfold put_disk. fold g xt. apply Hout. exact Hnot.
Qed.
(* ================================================================== *)
(** * 9. indep_put: the script-level independent put                   *)
(* ================================================================== *)
Lemma znth_some_range {A} : forall (l : list (option A)) i x,
  znth l i None = Some x -> 0 <= i < Zlen l.
Proof.
  induction l as [|y l IH]; intros i x H; [discriminate H|].
  cbn [znth] in H. rewrite Zlen_cons. pose proof (Zlen_nonneg l).
  destruct (i =? 0) eqn:E; [lia|]. apply IH in H. lia.
Qed.

Lemma acc_geom_indep_numrecs : forall f rank nn a,
  acc_geom (indep_numrecs f rank nn) a = acc_geom f a /\
  acc_xt (indep_numrecs f rank nn) a = acc_xt f a /\
  f_slot (indep_numrecs f rank nn) = f_slot f /\
  f_hdr (indep_numrecs f rank nn) = f_hdr f /\ f_lay (indep_numrecs f rank nn) = f_lay f.
Proof.
  intros f rank nn a. unfold indep_numrecs. destruct nn as [n|]; [|repeat split; reflexivity].
  destruct (rk_numrecs (get_rank f rank) <? n); repeat split; reflexivity.
Qed.

Lemma disk_of_put_file : forall w id x f, disk_of (put_file w id x) f = disk_of w f.
Proof. reflexivity. Qed.

(** an accepted independent put through indep_put: observation NC_NOERR, the file's disk is
    the put_disk, the file state changes only in the rank's numrecs (same header, layout,
    geometry), other slots' disks are untouched *)
Theorem indep_put_effect : forall w id f rank a r,
  put_accepted w f rank false a r ->
  znth (w_files w) id None = Some f ->
  exists w'',
    indep_put w id f rank a = (w'', [(rank, NC_NOERR, [TSame])]) /\
    let f' := indep_numrecs f rank (put_newrecs f a r) in
    znth (w_files w'') id None = Some f' /\
    disk_of w'' f' = put_disk f a r (disk_of w f) /\
    (forall s, s <> f_slot f -> get_disk w'' s = get_disk w s) /\
    w_strict w'' = w_strict w /\ w_nprocs w'' = w_nprocs w.
Proof.
  intros w id f rank a r Hacc Hf.
  pose proof (znth_some_range _ _ _ Hf) as Hid.
  destruct Hacc as (Hslot & Hsan & Hchk & Hio & Hfl & Hwf & Hfit).
  destruct (put_rank_effect w id f rank false a r Hslot Hsan Hchk Hio)
    as (w' & Hput & Hd & Hoth & Hsame).
  destruct Hsame as (Hnp & Hfiles & Hids & Hhints & Hstrict & Hmu & Hnd).
  unfold indep_put. rewrite Hput. rewrite Hfiles, Hf.
  eexists. split; [reflexivity|]. cbv zeta.
  destruct (acc_geom_indep_numrecs f rank (put_newrecs f a r) a) as (_ & _ & Hsl & _).
  split; [|split; [|split; [|split]]].
  - unfold put_file, set_files. cbn [w_files]. apply znth_zupd_same. rewrite Hfiles. exact Hid.
  - rewrite disk_of_put_file. unfold disk_of in *. rewrite Hsl. exact Hd.
  - intros s Hs. unfold put_file, set_files, get_disk. cbn [w_disks]. apply Hoth. exact Hs.
  - unfold put_file, set_files. cbn [w_strict]. exact Hstrict.
  - unfold put_file, set_files. cbn [w_nprocs]. exact Hnp.
Qed.

(** put (indep_put) then get (get_rank_op) on the world and file state the interpreter
    continues with: the image of the stream comes back *)
Theorem indep_put_then_get : forall w id f rank a r w'' obs rank2 coll2 a2,
  put_accepted w f rank false a r ->
  znth (w_files w) id None = Some f ->
  indep_put w id f rank a = (w'', obs) ->
  let f' := indep_numrecs f rank (put_newrecs f a r) in
  ac_var a2 = ac_var a ->
  get_accepted w'' f' rank2 coll2 a2 r ->
  znth (w_files w'') id None = Some f' /\
  get_rank_op w'' f' rank2 coll2 a2 =
  (NC_NOERR,
   [THex (guard_bytes ++
          flat_map (fun k => mem_of_be (put_elem a (acc_xt f a) k)) (zrange 0 (nelems_of r)) ++
          guard_bytes)]).
Proof.
  intros w id f rank a r w'' obs rank2 coll2 a2 Hacc Hf Hip f' Hv Hget.
  destruct (indep_put_effect w id f rank a r Hacc Hf) as (w3 & E & Hf' & Hd & _).
  rewrite E in Hip. injection Hip as <- _. split; [exact Hf'|].
  apply (get_after_put w f rank false a r (disk_of w f) w3 f' rank2 coll2 a2 Hacc Hget).
  destruct (acc_geom_indep_numrecs f rank (put_newrecs f a r) a2) as (Hg & Hx & _).
  unfold sees_put. unfold f' in *. rewrite Hg, Hx.
  unfold acc_geom, acc_xt, the_var. rewrite Hv. repeat split. exact Hd.
Qed.
(* ================================================================== *)
(** * 10. geom_of under the layout invariant: wf_geom and rec_fits hold *)
(* ================================================================== *)
(* sum of the lens of the record entries, on the filtered list *)
Lemma rsum_filter : forall t3 : list (bool * Z * Z),
  rsum (map fst t3) =
  zsum (map (fun t : bool * Z * Z => snd (fst t)) (filter (fun t : bool * Z * Z => fst (fst t)) t3)).
Proof.
  induction t3 as [|[[k len] u] r IH]; [reflexivity|].
  cbn [map fst rsum filter]. destruct k; cbn [map zsum fst snd]; rewrite IH; reflexivity.
Qed.

Lemma zsum_zero_all : forall l, Forall (fun x => 0 <= x) l -> zsum l = 0 -> Forall (fun x => x = 0) l.
Proof.
  induction l as [|x l IH]; intros Hnn Hs; [constructor|].
  apply Forall_cons_iff in Hnn. destruct Hnn as [Hx Hl]. cbn [zsum] in Hs.
  assert (0 <= zsum l).
  { clear -Hl. induction Hl as [|y l Hy _ IH]; cbn [zsum]; lia. }
  constructor; [lia | apply IH; [exact Hl | lia]].
Qed.

(* the record size is at least the unpadded size of every record variable *)
Lemma rs_rule_ge_unpadded : forall (t3 : list (bool * Z * Z)) t, wf_t3 t3 ->
  In t (filter (fun t : bool * Z * Z => fst (fst t)) t3) -> snd t <= rs_rule t3.
Proof.
  intros t3 t Hwf Hin.
  assert (Ht : 0 <= snd t <= snd (fst t)).
  { apply filter_In in Hin. unfold wf_t3 in Hwf. rewrite Forall_forall in Hwf.
    exact (proj1 (Hwf t (proj1 Hin))). }
  pose proof (rsum_ge_in t3 t Hwf Hin) as Hge.
  unfold rs_rule. set (L := filter (fun t : bool * Z * Z => fst (fst t)) t3) in *.
  destruct (Proofs_Layout.snoc_cases_layout _ L) as [En|[L' [x El]]].
  { rewrite En in Hin. destruct Hin. }
  rewrite El, last_opt_snoc. destruct x as [[k ll] u].
  destruct (Z.eqb_spec (rsum (map fst t3)) ll) as [E|E]; [|lia].
  (* the sum is the last len: every other record entry has len 0 *)
  assert (Hx : 0 <= u).
  { assert (Hinx : In (k, ll, u) t3).
    { assert (H : In (k, ll, u) L) by (rewrite El; apply in_or_app; right; left; reflexivity).
      exact (proj1 (proj1 (filter_In _ _ _) H)). }
    unfold wf_t3 in Hwf. rewrite Forall_forall in Hwf. exact (proj1 (proj1 (Hwf _ Hinx))). }
  rewrite rsum_filter in E. fold L in E. rewrite El, map_app, zsum_app_layout in E.
  cbn [map zsum fst snd] in E.
  rewrite El in Hin. apply in_app_or in Hin. destruct Hin as [Hin|[<-|[]]]; [|cbn [snd]; lia].
  assert (Hz : Forall (fun x => x = 0) (map (fun t : bool * Z * Z => snd (fst t)) L')).
  { apply zsum_zero_all; [|lia]. apply Forall_map. apply Forall_forall. intros y Hy.
    assert (Hiny : In y t3).
    { assert (H : In y L) by (rewrite El; apply in_or_app; left; exact Hy).
      exact (proj1 (proj1 (filter_In _ _ _) H)). }
    unfold wf_t3 in Hwf. rewrite Forall_forall in Hwf. pose proof (Hwf _ Hiny). lia. }
  rewrite Forall_map, Forall_forall in Hz. specialize (Hz t Hin). cbv beta in Hz. lia.
Qed.

(* exactly one record entry: the record size is its unpadded size *)
Lemma rs_rule_single : forall (t3 : list (bool * Z * Z)) t,
  filter (fun t : bool * Z * Z => fst (fst t)) t3 = [t] -> rs_rule t3 = snd t.
Proof.
  intros t3 [[k ll] u] H. unfold rs_rule. rewrite rsum_filter, H.
  cbn [map zsum last_opt rev app fst snd].
  replace (ll + 0 =? ll) with true by lia. reflexivity.
Qed.

(* a variable of the header whose dimensions are usable: positive element size, the record
   dimension (length 0) only in front *)
Definition var_ok (h : hdr) (v : var) : Prop :=
  In v (h_vars h) /\ 0 < xlen_type (v_type v) /\ dims_wf (var_shape (h_dims h) v).

Lemma list_le1_in {A} : forall (l : list A) x, Zlen l <= 1 -> In x l -> l = [x].
Proof.
  intros l x Hl Hin. destruct l as [|y l]; [destruct Hin|].
  destruct l as [|z l].
  - destruct Hin as [->|[]]. reflexivity.
  - rewrite !Zlen_cons in Hl. pose proof (Zlen_nonneg l). lia.
Qed.

(** the geometry the interpreter derives for a variable ([geom_of]) is well formed and its
    records do not overlap, as soon as the file state's layout follows the recsize rule — the
    last conjunct of [lay_inv], established by enddef ([begins_layout_ok]) and kept by every
    redefinition and reopen ([reachable_lay_inv]) *)
Theorem geom_of_wf : forall f v,
  hdr_wf (f_hdr f) -> l_recsize (f_lay f) = rs_rule (t3of (f_hdr f)) -> var_ok (f_hdr f) v ->
  wf_geom (geom_of f v) /\ rec_fits (geom_of f v).
Proof.
  intros f v Hwf Hrs (Hin & Hx & Hdw).
  set (h := f_hdr f) in *. set (dims := h_dims h).
  pose proof (wf_t3of h Hwf) as Hw3.
  set (t := (is_recvar dims v, var_len dims v, unpadded dims v)).
  assert (Hint : In t (t3of h)) by (unfold t3of; apply in_map_iff; exists v; split; [reflexivity | exact Hin]).
  assert (Hunp : is_recvar dims v = true ->
                 unpadded dims v = zprod (tl (var_shape dims v)) * xlen_type (v_type v)).
  { intros Hrec. unfold unpadded, var_nelems_per_rec. unfold is_recvar in Hrec.
    destruct (var_shape dims v) as [|s0 ss]; [discriminate Hrec|]. rewrite Hrec. reflexivity. }
  assert (Hfil : is_recvar dims v = true ->
                 In t (filter (fun t : bool * Z * Z => fst (fst t)) (t3of h))).
  { intros Hrec. apply filter_In. split; [exact Hint | exact Hrec]. }
  unfold wf_geom, rec_fits, rec_packed, geom_of.
  cbn [g_xsz g_recsize g_shape g_nrecvars g_begin]. fold h dims.
  change (g_isrec (mkgeom (v_begin v) (xlen_type (v_type v)) (var_shape dims v)
                          (l_recsize (f_lay f)) (num_rec_vars h)))
    with (is_recvar dims v).
  rewrite Hrs.
  split; [split; [exact Hx | split; [exact (proj1 (rs_rule_bounds _ Hw3)) | split; [exact Hdw|]]]|].
  - (* packed records when there is a single record variable *)
    intros Hrec Hn. rewrite <- (Hunp Hrec).
    assert (Hone : filter (fun t : bool * Z * Z => fst (fst t)) (t3of h) = [t]).
    { apply list_le1_in; [|exact (Hfil Hrec)].
      unfold t3of. rewrite filter_map_comm, Zlen_map. cbn [fst]. exact Hn. }
    rewrite (rs_rule_single _ _ Hone). reflexivity.
  - intros Hrec. rewrite <- (Hunp Hrec).
    exact (rs_rule_ge_unpadded (t3of h) t Hw3 (Hfil Hrec)).
Qed.

(* the variable an accepted access names is a variable of the header *)
Lemma sanity_var_in : forall f isput blocking coll a,
  sanity f isput blocking coll a = NC_NOERR -> In (the_var f a) (h_vars (f_hdr f)).
Proof.
  intros f isput blocking coll a H. unfold sanity in H.
  destruct (isput && f_rdonly f); [vm_compute in H; discriminate H|].
  destruct (blocking && f_indef f); [vm_compute in H; discriminate H|].
  destruct (blocking && coll && f_indep f); [vm_compute in H; discriminate H|].
  destruct (blocking && negb coll && negb (f_indep f)); [vm_compute in H; discriminate H|].
  destruct (ac_var a =? -1); [vm_compute in H; discriminate H|].
  destruct ((ac_var a <? 0) || (ac_var a >=? Zlen (h_vars (f_hdr f)))) eqn:E;
    [vm_compute in H; discriminate H|].
  unfold the_var. apply znth_In. lia.
Qed.

(** the layout hypotheses of [put_accepted] / [get_accepted], discharged from the invariant *)
Corollary acc_geom_wf : forall f isput blocking coll a,
  sanity f isput blocking coll a = NC_NOERR ->
  hdr_wf (f_hdr f) -> l_recsize (f_lay f) = rs_rule (t3of (f_hdr f)) ->
  0 < xlen_type (acc_xt f a) -> dims_wf (g_shape (acc_geom f a)) ->
  wf_geom (acc_geom f a) /\ rec_fits (acc_geom f a).
Proof.
  intros f isput blocking coll a Hsan Hwf Hrs Hx Hdw. apply geom_of_wf; try assumption.
  split; [eapply sanity_var_in; exact Hsan | split; assumption].
Qed.
(* ================================================================== *)
(** * 11. Examples: a world built by the interpreter itself             *)
(* ================================================================== *)
Definition run (w : world) (ops : list op) : world :=
  fold_left (fun w o => fst (exec_all w o)) ops w.

Definition dflt_file : filest :=
  mkfile (mkhdr 0 0 [] [] []) empty_layout false false false false None false no_align [] 0 false.
Definition file_at (w : world) (id : Z) : filest :=
  match znth (w_files w) id None with Some f => f | None => dflt_file end.

(* 2 ranks; CDF-5 file in slot 0; dims t (unlimited), x = 3, y = 4;
   a : int [x][y] (fixed), r : short [t][y] (record), s : double [t] (record);
   enddef; independent mode.  Layout: a at 512, r at 560, s at 568, recsize 16. *)
Definition ex_w : world :=
  run (world0 2)
      [OCreate 0 5 1; ODefDim 0 [116] 0; ODefDim 0 [120] 3; ODefDim 0 [121] 4;
       ODefVar 0 [97] 4 [1; 2]; ODefVar 0 [114] 3 [0; 2]; ODefVar 0 [115] 6 [0];
       OEnddef 0; OBeginIndep 0].
Definition ex_f : filest := file_at ex_w 0.

(* put_vars_short on r: records 1 and 3, columns 0 and 2 (a write beyond numrecs = 0) *)
Definition ex_a : access :=
  mkacc 1 (FVars (Some [1; 0]) (Some [2; 2]) (Some [2; 2])) 3 false BTyped 7.
Definition ex_r : rreq := mkrreq [1; 0] [2; 2] (Some [2; 2]) None.

Example ex_file : znth (w_files ex_w) 0 None = Some ex_f.
Proof. vm_compute. reflexivity. Qed.

Example ex_geom : acc_geom ex_f ex_a = mkgeom 560 2 [0; 4] 16 2.
Proof. vm_compute. reflexivity. Qed.

Example ex_hdr_wf : hdr_wf (f_hdr ex_f).
Proof.
  unfold hdr_wf.
  assert (E : h_dims (f_hdr ex_f) = [mkdim [116] 0; mkdim [120] 3; mkdim [121] 4])
    by (vm_compute; reflexivity).
  rewrite E. repeat constructor; cbn [d_size]; lia.
Qed.

(* the layout facts are obtained from the invariant, not assumed *)
Example ex_geom_wf : wf_geom (acc_geom ex_f ex_a) /\ rec_fits (acc_geom ex_f ex_a).
Proof.
  apply (acc_geom_wf ex_f true true false ex_a).
  - vm_compute. reflexivity.
  - exact ex_hdr_wf.
  - vm_compute. reflexivity.
  - vm_compute. reflexivity.
  - rewrite ex_geom. cbn [g_shape dims_wf]. split; [lia | repeat constructor; lia].
Qed.

Example ex_put_accepted : put_accepted ex_w ex_f 0 false ex_a ex_r.
Proof.
  unfold put_accepted.
  split; [split; [apply Z.leb_le | apply Z.ltb_lt]; vm_compute; reflexivity|].
  split; [vm_compute; reflexivity|].
  split; [vm_compute; reflexivity|].
  split; [vm_compute; reflexivity|].
  split; [rewrite ex_geom; cbn; repeat split; reflexivity|].
  exact ex_geom_wf.
Qed.

(* put_rank_frame, instantiated: everything it promises holds of the computed world *)
Example ex_put_rank := put_rank_frame ex_w 0 ex_f 0 false ex_a ex_r ex_put_accepted.

(* ... and computed: return code, proposed numrecs 4, the four elements
   (record 1 at 560+16, record 3 at 560+48; columns 0 and 2 at +0 and +4), a neighbour
   element and the header untouched *)
Example ex_put_rank_compute :
  let '(w', rc, nn, part) := put_rank ex_w 0 ex_f 0 false ex_a in
  rc = NC_NOERR /\ nn = Some 4 /\ part = true /\
  dk_read (disk_of w' ex_f) 576 2 = put_elem ex_a 3 0 /\
  dk_read (disk_of w' ex_f) 580 2 = put_elem ex_a 3 1 /\
  dk_read (disk_of w' ex_f) 608 2 = put_elem ex_a 3 2 /\
  dk_read (disk_of w' ex_f) 612 2 = put_elem ex_a 3 3 /\
  dk_read (disk_of w' ex_f) 578 2 = dk_read (disk_of ex_w ex_f) 578 2 /\
  dk_read (disk_of w' ex_f) 0 304 = dk_read (disk_of ex_w ex_f) 0 304 /\
  dk_read (disk_of w' ex_f) 0 304 = encode_header (f_hdr ex_f).
Proof. vm_compute. repeat split; reflexivity. Qed.

(* the interpreter continues with this world and file state *)
Definition ex_w1 : world := fst (indep_put ex_w 0 ex_f 0 ex_a).
Definition ex_f1 : filest := indep_numrecs ex_f 0 (put_newrecs ex_f ex_a ex_r).

Example ex_indep_put := indep_put_effect ex_w 0 ex_f 0 ex_a ex_r ex_put_accepted ex_file.

Example ex_get_accepted_1 : sanity ex_f1 false true false ex_a = NC_NOERR.
Proof. vm_compute; reflexivity. Qed.
Example ex_get_accepted_2 : check_request ex_w1 ex_f1 0 true ex_a = (NC_NOERR, Some [ex_r]).
Proof. vm_compute; reflexivity. Qed.
Example ex_get_accepted_3 : ac_memt ex_a = acc_xt ex_f1 ex_a.
Proof. vm_compute; reflexivity. Qed.
Example ex_get_accepted_4 : form_lengths (ac_form ex_a) (length (g_shape (acc_geom ex_f1 ex_a))).
Proof. vm_compute; repeat split; reflexivity. Qed.
Example ex_get_accepted_5 : wf_geom (acc_geom ex_f1 ex_a).
Proof.
  destruct (acc_geom_indep_numrecs ex_f 0 (put_newrecs ex_f ex_a ex_r) ex_a) as (E & _).
  unfold ex_f1. rewrite E. exact (proj1 ex_geom_wf).
Qed.
Example ex_get_accepted : get_accepted ex_w1 ex_f1 0 false ex_a ex_r.
Proof. exact (conj ex_get_accepted_1 (conj ex_get_accepted_2 (conj eq_refl (conj ex_get_accepted_3 (conj ex_get_accepted_4 ex_get_accepted_5))))). Qed.

(* get_after_put through indep_put_then_get *)
Example ex_get_after_put :=
  indep_put_then_get ex_w 0 ex_f 0 ex_a ex_r ex_w1 (snd (indep_put ex_w 0 ex_f 0 ex_a))
    0 false ex_a ex_put_accepted ex_file (surjective_pairing _) eq_refl ex_get_accepted.

Example ex_get_after_put_compute :
  get_rank_op ex_w1 ex_f1 0 false ex_a =
  (NC_NOERR, [THex (guard_bytes ++ [90; 99; 179; 39; 60; 97; 149; 37] ++ guard_bytes)]).
Proof. vm_compute. reflexivity. Qed.

(* another request on the same variable: get_vara_short of records 0..1, all 4 columns.
   Elements (1,0) and (1,2) were written by the put; the other six were never written *)
Definition ex_a' : access := mkacc 1 (FVara (Some [0; 0]) (Some [2; 4])) 3 false BTyped 0.
Definition ex_r' : rreq := mkrreq [0; 0] [2; 4] None None.

Example ex_get_accepted'_1 : sanity ex_f1 false true false ex_a' = NC_NOERR.
Proof. vm_compute; reflexivity. Qed.
Example ex_get_accepted'_2 : check_request ex_w1 ex_f1 0 true ex_a' = (NC_NOERR, Some [ex_r']).
Proof. vm_compute; reflexivity. Qed.
Example ex_get_accepted'_3 : ac_memt ex_a' = acc_xt ex_f1 ex_a'.
Proof. vm_compute; reflexivity. Qed.
Example ex_get_accepted'_4 : form_lengths (ac_form ex_a') (length (g_shape (acc_geom ex_f1 ex_a'))).
Proof. vm_compute; repeat split; reflexivity. Qed.
Example ex_get_accepted'_5 : wf_geom (acc_geom ex_f1 ex_a').
Proof.
  destruct (acc_geom_indep_numrecs ex_f 0 (put_newrecs ex_f ex_a ex_r) ex_a') as (E & _).
  unfold ex_f1. rewrite E. assert (E2 : acc_geom ex_f ex_a' = acc_geom ex_f ex_a) by (vm_compute; reflexivity).
  rewrite E2. exact (proj1 ex_geom_wf).
Qed.
Example ex_get_accepted' : get_accepted ex_w1 ex_f1 0 false ex_a' ex_r'.
Proof. exact (conj ex_get_accepted'_1 (conj ex_get_accepted'_2 (conj eq_refl (conj ex_get_accepted'_3 (conj ex_get_accepted'_4 ex_get_accepted'_5))))). Qed.

Example ex_sees_put : sees_put ex_w1 ex_f1 ex_a' ex_f ex_a ex_r (disk_of ex_w ex_f).
Proof.
  destruct ex_indep_put as (w3 & E & _ & Hd & _).
  assert (Ew : ex_w1 = w3) by (unfold ex_w1; rewrite E; reflexivity).
  destruct (acc_geom_indep_numrecs ex_f 0 (put_newrecs ex_f ex_a ex_r) ex_a') as (Eg & Ex & _).
  unfold sees_put, ex_f1. rewrite Eg, Ex, Ew.
  split; [vm_compute; reflexivity | split; [vm_compute; reflexivity | exact Hd]].
Qed.

Example ex_get_other :=
  get_after_put_other ex_w ex_f 0 false ex_a ex_r (disk_of ex_w ex_f) ex_w1 ex_f1 0 false ex_a' ex_r'
    ex_put_accepted ex_get_accepted' ex_sees_put.

Example ex_get_other_compute :
  get_rank_op ex_w1 ex_f1 0 false ex_a' =
  (RC_ANY,
   [THex (guard_bytes ++
          [-1; -1; -1; -1; -1; -1; -1; -1; 90; 99; -1; -1; 179; 39; -1; -1] ++ guard_bytes)]).
Proof. vm_compute. reflexivity. Qed.

(* var1 (NULL count) and a scalar-free fixed variable through the same theorems:
   put_var1_int a[2][3] *)
Definition ex_a1 : access := mkacc 0 (FVar1 (Some [2; 3])) 4 false BTyped 11.
Definition ex_r1 : rreq := mkrreq [2; 3] [1; 1] None None.

Example ex_put_accepted1 : put_accepted ex_w ex_f 0 false ex_a1 ex_r1.
Proof.
  unfold put_accepted.
  split; [split; [apply Z.leb_le | apply Z.ltb_lt]; vm_compute; reflexivity|].
  split; [vm_compute; reflexivity|].
  split; [vm_compute; reflexivity|].
  split; [vm_compute; reflexivity|].
  split; [vm_compute; reflexivity|].
  apply (acc_geom_wf ex_f true true false ex_a1).
  - vm_compute. reflexivity.
  - exact ex_hdr_wf.
  - vm_compute. reflexivity.
  - vm_compute. reflexivity.
  - assert (E : g_shape (acc_geom ex_f ex_a1) = [3; 4]) by (vm_compute; reflexivity).
    rewrite E. cbn [dims_wf]. split; [lia | repeat constructor; lia].
Qed.

Example ex_put_rank1 := put_rank_frame ex_w 0 ex_f 0 false ex_a1 ex_r1 ex_put_accepted1.

Print Assumptions put_rank_effect.
Print Assumptions check_request_req_ok.
Print Assumptions put_rank_frame.
Print Assumptions put_stream_defined.
Print Assumptions get_rank_op_typed.
Print Assumptions get_after_put.
Print Assumptions get_after_put_other.
Print Assumptions indep_put_then_get.
Print Assumptions geom_of_wf.
Print Assumptions ex_get_other.
